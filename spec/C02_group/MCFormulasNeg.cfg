SPECIFICATION Spec
CONSTANTS DoublingBranch = FALSE  Full = FALSE
INVARIANTS FormulasRefineLaw ExtWellFormed
CHECK_DEADLOCK FALSE
