------------------------------ MODULE MCEdwards ------------------------------
(* Exhaustive check on small complete twisted Edwards curves that the oracle   *)
(* of TraceEdwards (TwistedEdwards!EAdd ...) is a group law and that the        *)
(* projective / extended representatives (all Z scalings) project consistently. *)
EXTENDS TwistedEdwards, TLC, FiniteSets

\* <<p, a, d>> with a a square and d a non-square mod p (complete addition law)
SmallCurves == { <<13, 1, 2>>, <<17, 16, 3>>, <<29, 28, 2>> }

VARIABLES cv, P, Q, z, pts
vars == <<cv, P, Q, z, pts>>
EC(c) == [q |-> FromInt(c[1]), a |-> FromInt(c[2]), d |-> FromInt(c[3])]
El(c) == {FromInt(x) : x \in 0..(c[1]-1)}
CurvePts(c) == {p \in [x : El(c), y : El(c)] : EOnCurve(EC(c), p)}

Init == cv \in SmallCurves /\ pts = CurvePts(cv) /\ P \in pts /\ Q \in pts /\ z = One
Next == \/ (P' = EAdd(EC(cv), P, Q) /\ UNCHANGED <<cv, Q, z, pts>>)
        \/ (P' = ENeg(EC(cv), P) /\ UNCHANGED <<cv, Q, z, pts>>)
        \/ (P' = Q /\ Q' = P /\ UNCHANGED <<cv, z, pts>>)
        \/ (\E w \in El(cv) \ {Zero} : z' = w /\ UNCHANGED <<cv, P, Q, pts>>)
Spec == Init /\ [][Next]_vars

E == EC(cv)
M(u, v) == MulMod(u, v, E.q)
Closed == P \in pts /\ Q \in pts
ProjOf(p, w) == [X |-> M(p.x, w), Y |-> M(p.y, w), Z |-> w, T |-> M(M(p.x, p.y), w)]
ProjectionsConsistent == AffOfEProj(E, ProjOf(P, z)) = P /\ EExtConsistent(E, ProjOf(P, z))
GroupAxioms ==
  /\ EAdd(E, P, Q) = EAdd(E, Q, P)
  /\ EAdd(E, P, EId) = P
  /\ EAdd(E, P, ENeg(E, P)) = EId
  /\ \A R \in pts : EAdd(E, EAdd(E, P, Q), R) = EAdd(E, P, EAdd(E, Q, R))
N == Cardinality(pts)
RECURSIVE Rep(_,_)
Rep(n, p) == IF n = 0 THEN EId ELSE EAdd(E, Rep(n-1, p), p)
ScalarMulLaws ==
  /\ \A n \in 0..6 : EMulNat(E, FromInt(n), P) = Rep(n, P)
  /\ EMulNat(E, FromInt(N), P) = EId
  /\ EMul(E, ZInt(TRUE, FromInt(3)), P) = ENeg(E, Rep(3, P))
=============================================================================
