SPECIFICATION Spec
CONSTANTS DoublingBranch = TRUE  Full = FALSE
INVARIANTS FormulasRefineLaw ExtWellFormed
CHECK_DEADLOCK FALSE
