----------------------------- MODULE MCGroupLaw -----------------------------
(* Exhaustive check, on small curves y^2 = x^3 + a x + b over F_p, that the     *)
(* oracle used by TraceGroup (Weierstrass!WAdd ...) is a group law and that the *)
(* projective representations project consistently:                            *)
(*  - the state is a pair of registers holding Jacobian / extended-Jacobian     *)
(*    representatives (all Z scalings) plus the shadow affine points;           *)
(*  - actions re-scale a representative (abstractly a stutter), add, double,    *)
(*    negate on the shadow with the textbook law;                               *)
(*  - invariants: closure, projection consistency, group axioms on all points.  *)
EXTENDS Weierstrass, TLC, FiniteSets

\* curves [p, a, b]: prime order, cofactor 2/3/4, with a 2-torsion point, and a # 0
SmallCurves == { <<13, 0, 3>>, <<19, 0, 2>>, <<7, 0, 1>>, <<11, 1, 6>>, <<13, 1, 1>> }

VARIABLES cv, P, Q, zp, pts      \* pts: all points of the curve (computed once per curve at Init)
vars == <<cv, P, Q, zp, pts>>

Fld(c) == [q |-> FromInt(c[1]), T |-> <<>>]
C(c) == [F |-> Fld(c), k |-> 0, a |-> FromInt(c[2]), b |-> FromInt(c[3])]
El(c) == {FromInt(x) : x \in 0..(c[1]-1)}
Points(c) == {Inf} \cup {Pt(x, y) : x \in El(c), y \in El(c)} 
CurvePts(c) == {p \in Points(c) : WOnCurve(C(c), p)}

Init == /\ cv \in SmallCurves
        /\ pts = CurvePts(cv)
        /\ P \in pts /\ Q \in pts
        /\ zp = One
Next == \/ (P' = WAdd(C(cv), P, Q) /\ UNCHANGED <<cv, Q, zp, pts>>)
        \/ (P' = WDouble(C(cv), P) /\ UNCHANGED <<cv, Q, zp, pts>>)
        \/ (P' = WNeg(C(cv), P) /\ UNCHANGED <<cv, Q, zp, pts>>)
        \/ (P' = Q /\ Q' = P /\ UNCHANGED <<cv, zp, pts>>)
        \/ (\E z \in El(cv) \ {Zero} : zp' = z /\ UNCHANGED <<cv, P, Q, pts>>)     \* rescale: a stutter of the denotation
Spec == Init /\ [][Next]_vars

Cc == C(cv)
Closed == WOnCurve(Cc, P) /\ WOnCurve(Cc, Q)
\* Jacobian / extended-Jacobian representatives of P with scaling zp project back to P
JacOf(p, z) == IF p.inf THEN [X |-> One, Y |-> One, Z |-> Zero]
               ELSE [X |-> TMul(Cc.F, 0, p.x, TMul(Cc.F, 0, z, z)),
                     Y |-> TMul(Cc.F, 0, p.y, TMul(Cc.F, 0, z, TMul(Cc.F, 0, z, z))), Z |-> z]
ExtOf(p, z) == IF p.inf THEN [X |-> Zero, Y |-> Zero, ZZ |-> Zero, ZZZ |-> Zero]
               ELSE LET z2 == TMul(Cc.F, 0, z, z)  z3 == TMul(Cc.F, 0, z2, z)
                    IN [X |-> TMul(Cc.F, 0, p.x, z2), Y |-> TMul(Cc.F, 0, p.y, z3), ZZ |-> z2, ZZZ |-> z3]
ProjectionsConsistent == AffOfJac(Cc, JacOf(P, zp)) = P /\ AffOfXYZZ(Cc, ExtOf(P, zp)) = P
GroupAxioms ==
  /\ WAdd(Cc, P, Q) = WAdd(Cc, Q, P)
  /\ WAdd(Cc, P, Inf) = P
  /\ WAdd(Cc, P, WNeg(Cc, P)) = Inf
  /\ WDouble(Cc, P) = WAdd(Cc, P, P)
  /\ WSub(Cc, P, Q) = WAdd(Cc, P, WNeg(Cc, Q))
  /\ \A R \in pts : WAdd(Cc, WAdd(Cc, P, Q), R) = WAdd(Cc, P, WAdd(Cc, Q, R))
\* scalar multiplication agrees with repeated addition and the group order kills every point
N == Cardinality(pts)
RECURSIVE Rep(_,_)
Rep(n, p) == IF n = 0 THEN Inf ELSE WAdd(Cc, Rep(n-1, p), p)
ScalarMulLaws ==
  /\ \A n \in 0..6 : WMulNat(Cc, FromInt(n), P) = Rep(n, P)
  /\ WMulNat(Cc, FromInt(N), P) = Inf
  /\ WMul(Cc, ZInt(TRUE, FromInt(3)), P) = WNeg(Cc, Rep(3, P))
  /\ WMulNat(Cc, FromInt(N + 2), P) = Rep(2, P)
=============================================================================
