---------------------------- MODULE TraceEdwards ----------------------------
(* Trace validation for C02 (twisted Edwards companions): every logged point   *)
(* method is judged against the unified affine Edwards law of TwistedEdwards.  *)
EXTENDS TraceKernel, TwistedEdwards, FieldParams, EdwardsParams

EP == EdwardsP(Hdr.edwards)
FPar == FieldP(EP.field)
q == FPar.q
E == [q |-> q, a |-> EP.a, d |-> EP.d]
Rinv == InvMod(Rem(Shl(One, FPar.w * FPar.n), q), q)
V(raw) == MulMod(raw, Rinv, q)
CC(raw) == IsNat(raw) /\ Lt(raw, q)

Canon(a) == CASE a.t = "aff" -> CC(a.v.X) /\ CC(a.v.Y)
              [] a.t = "proj" -> CC(a.v.X) /\ CC(a.v.Y) /\ CC(a.v.Z)
              [] a.t = "ext" -> CC(a.v.X) /\ CC(a.v.Y) /\ CC(a.v.Z) /\ CC(a.v.T)
\* well-formed representative: Z # 0, and T Z = X Y for extended coordinates
WellFormed(a) == CASE a.t = "aff" -> TRUE
                   [] a.t = "proj" -> V(a.v.Z) # Zero
                   [] a.t = "ext" -> V(a.v.Z) # Zero /\
                        EExtConsistent(E, [X |-> V(a.v.X), Y |-> V(a.v.Y), Z |-> V(a.v.Z), T |-> V(a.v.T)])
Proj(a) == IF a.t = "aff" THEN [x |-> V(a.v.X), y |-> V(a.v.Y)]
           ELSE AffOfEProj(E, [X |-> V(a.v.X), Y |-> V(a.v.Y), Z |-> V(a.v.Z)])

Expected(e) ==
  LET A == Proj(e.args[1]) IN
  CASE e.op \in {"Add", "MixedAdd"} -> EAdd(E, A, Proj(e.args[2]))
    [] e.op \in {"Double", "MixedDouble"} -> EDouble(E, A)
    [] e.op = "Neg" -> ENeg(E, A)
    [] e.op \in {"Set", "FromProj", "FromExtended", "FromAffine"} -> A

\* input class of a binary operation, appended to the rejection reason (used by known-findings matching)
Class(e) == IF Len(e.args) < 2 THEN ""
            ELSE IF Proj(e.args[1]) = Proj(e.args[2]) THEN "/P=Q"
            ELSE IF Proj(e.args[1]) = ENeg(E, Proj(e.args[2])) THEN "/P=-Q" ELSE ""
Untouched(e) == e.after = e.args
InputsOk(e) == \A i \in 1..Len(e.args) : Canon(e.args[i])
OnCurveInputs(e) == \A i \in 1..Len(e.args) : WellFormed(e.args[i]) /\ EOnCurve(E, Proj(e.args[i]))

Judge(e) ==
  IF ~InputsOk(e) THEN {"badinput"}
  ELSE IF Panicked(e) THEN {"panic"}
  ELSE IF Has(e, "ret") THEN
       (LET A == Proj(e.args[1])
            want == CASE e.op = "Equal" -> A = Proj(e.args[2])
                      [] e.op = "IsZero" -> A = EId
                      [] e.op = "IsOnCurve" -> EOnCurve(E, A)
        IN IF e.op # "IsOnCurve" /\ ~OnCurveInputs(e) THEN {} ELSE IF e.ret # want THEN {"ret"} ELSE {})
       \cup (IF Untouched(e) THEN {} ELSE {"mutated"})
  ELSE IF ~OnCurveInputs(e) THEN {}
  ELSE (IF ~Canon(e.out) THEN {"noncanonical"}
        ELSE IF ~WellFormed(e.out) THEN {"malformed"}
        ELSE IF Proj(e.out) # Expected(e) THEN {"value" \o Class(e)} ELSE {})
       \cup (IF Untouched(e) THEN {} ELSE {"mutated"})

Init == KInit
Step == HasNext /\ Advance(Judge(Ev))
Next == Step \/ Finish
Spec == Init /\ [][Next]_<<l, bad>>
=============================================================================
