------------------------------ MODULE MCFormulas ------------------------------
(* The projective formulas of point.go.tmpl (a = 0 curves) WITH the code's       *)
(* dispatch (infinity first, equal-points test, doubling fall-through,           *)
(* cancellation), transcribed operation by operation and model-checked against   *)
(* the textbook affine law of Weierstrass.tla on every pair of points of small   *)
(* curves and EVERY scaling Z of both representatives:                           *)
(*   G1Jac.AddAssign (add-2007-bl), G1Jac.DoubleAssign (dbl-2007-bl),            *)
(*   G1Jac.AddMixed (madd-2007-bl), g1JacExtended.addMixed / subMixed            *)
(*   (madd-2008-s) with doubleMixed / doubleNegMixed (dbl-2008-s-1, Z = 1).      *)
(* DoublingBranch = FALSE removes the "if p == q we double instead" branch of    *)
(* AddAssign: TLC then finds P + P = O (negative self-test).                     *)
EXTENDS Weierstrass, TLC

CONSTANTS DoublingBranch, Full
SmallCurves == IF Full THEN { <<13, 3>>, <<19, 2>>, <<7, 1>> } ELSE { <<13, 3>>, <<7, 1>> }     \* <<p, b>>: y^2 = x^3 + b

VARIABLES cv, P, Q, zp, zq, pts
vars == <<cv, P, Q, zp, zq, pts>>
Fld == [q |-> FromInt(cv[1]), T |-> <<>>]
C == [F |-> Fld, k |-> 0, a |-> Zero, b |-> FromInt(cv[2])]
El(c) == {FromInt(x) : x \in 0..(c[1]-1)}
CurvePts(c) == LET CC == [F |-> [q |-> FromInt(c[1]), T |-> <<>>], k |-> 0, a |-> Zero, b |-> FromInt(c[2])]
               IN {p \in {Inf} \cup {Pt(x, y) : x \in El(c), y \in El(c)} : WOnCurve(CC, p)}
Init == /\ cv \in SmallCurves /\ pts = CurvePts(cv)
        /\ P \in pts /\ Q \in pts
        /\ zp \in El(cv) \ {Zero} /\ zq \in El(cv) \ {Zero}
Next == UNCHANGED vars
Spec == Init /\ [][Next]_vars

M(u, v) == TMul(Fld, 0, u, v)
A(u, v) == TAdd(Fld, 0, u, v)
S(u, v) == TSub(Fld, 0, u, v)
Sq(u) == M(u, u)
Dbl(u) == A(u, u)
Neg(u) == TNeg(Fld, 0, u)

\* representatives with the chosen scalings (infinity: (1, 1, 0) / ZZ = ZZZ = 0)
JacOf(p, z) == IF p.inf THEN [X |-> One, Y |-> One, Z |-> Zero]
               ELSE [X |-> M(p.x, Sq(z)), Y |-> M(p.y, M(Sq(z), z)), Z |-> z]
ExtOf(p, z) == IF p.inf THEN [X |-> Zero, Y |-> Zero, ZZ |-> Zero, ZZZ |-> Zero]
               ELSE [X |-> M(p.x, Sq(z)), Y |-> M(p.y, M(Sq(z), z)), ZZ |-> Sq(z), ZZZ |-> M(Sq(z), z)]
AffRaw(p) == IF p.inf THEN [X |-> Zero, Y |-> Zero] ELSE [X |-> p.x, Y |-> p.y]

\* ---- G1Jac.DoubleAssign
JacDouble(p) ==
  LET XX == Sq(p.X)  YY == Sq(p.Y)  YYYY == Sq(YY)  ZZ == Sq(p.Z)
      S1 == Dbl(S(S(Sq(A(p.X, YY)), XX), YYYY))
      MM == A(Dbl(XX), XX)
      Z3 == S(S(Sq(A(p.Z, p.Y)), YY), ZZ)
      X3 == S(Sq(MM), Dbl(S1))
      Y3 == S(M(S(S1, X3), MM), Dbl(Dbl(Dbl(YYYY))))
  IN [X |-> X3, Y |-> Y3, Z |-> Z3]

\* ---- G1Jac.AddAssign(q)
JacAdd(p, q) ==
  IF p.Z = Zero THEN q
  ELSE IF q.Z = Zero THEN p
  ELSE LET Z1Z1 == Sq(q.Z)  Z2Z2 == Sq(p.Z)
           U1 == M(q.X, Z2Z2)  U2 == M(p.X, Z1Z1)
           S1 == M(M(q.Y, p.Z), Z2Z2)  S2 == M(M(p.Y, q.Z), Z1Z1)
       IN IF DoublingBranch /\ U1 = U2 /\ S1 = S2 THEN JacDouble(p)
          ELSE LET H == S(U2, U1)  I == Sq(Dbl(H))  J == M(H, I)
                   r == Dbl(S(S2, S1))  V == M(U1, I)
                   X3 == S(S(S(Sq(r), J), V), V)
                   Y3 == S(M(S(V, X3), r), Dbl(M(S1, J)))
                   Z3 == M(S(S(Sq(A(p.Z, q.Z)), Z1Z1), Z2Z2), H)
               IN [X |-> X3, Y |-> Y3, Z |-> Z3]

\* ---- G1Jac.AddMixed(a) (a affine; the equal case doubles the affine point)
JacAddMixed(p, a) ==
  IF a.X = Zero /\ a.Y = Zero THEN p
  ELSE IF p.Z = Zero THEN [X |-> a.X, Y |-> a.Y, Z |-> One]
  ELSE LET Z1Z1 == Sq(p.Z)  U2 == M(a.X, Z1Z1)  S2 == M(M(a.Y, p.Z), Z1Z1)
       IN IF U2 = p.X /\ S2 = p.Y THEN JacDouble([X |-> a.X, Y |-> a.Y, Z |-> One])
          ELSE LET H == S(U2, p.X)  HH == Sq(H)  I == Dbl(Dbl(HH))  J == M(H, I)
                   r == Dbl(S(S2, p.Y))  V == M(p.X, I)
                   X3 == S(S(S(Sq(r), J), V), V)
                   Y3 == S(M(S(V, X3), r), Dbl(M(J, p.Y)))
                   Z3 == S(S(Sq(A(p.Z, H)), Z1Z1), HH)
               IN [X |-> X3, Y |-> Y3, Z |-> Z3]

\* ---- g1JacExtended.doubleMixed / doubleNegMixed (affine operand)
ExtDoubleMixed(a, negate) ==
  LET y == IF negate THEN Neg(a.Y) ELSE a.Y
      U == Dbl(y)  V == Sq(U)  W == M(U, V)  S1 == M(a.X, V)  XX == Sq(a.X)
      MM == A(Dbl(XX), XX)  S2 == Dbl(S1)  L == M(W, y)
      X3 == S(Sq(MM), S2)
      Y3 == S(M(S(S1, X3), MM), L)
  IN [X |-> X3, Y |-> Y3, ZZ |-> V, ZZZ |-> W]
\* ---- g1JacExtended.addMixed / subMixed
ExtAddMixed(p, a, negate) ==
  LET ay == IF negate THEN Neg(a.Y) ELSE a.Y IN
  IF a.X = Zero /\ a.Y = Zero THEN p
  ELSE IF p.ZZ = Zero THEN [X |-> a.X, Y |-> ay, ZZ |-> One, ZZZ |-> One]
  ELSE LET PP1 == S(M(a.X, p.ZZ), p.X)
           R == S(M(ay, p.ZZZ), p.Y)
       IN IF PP1 = Zero
          THEN (IF R = Zero THEN ExtDoubleMixed(a, negate) ELSE [p EXCEPT !.ZZ = Zero, !.ZZZ = Zero])
          ELSE LET PP == Sq(PP1)  PPP == M(PP1, PP)  Q1 == M(p.X, PP)
                   X3 == S(S(Sq(R), PPP), Dbl(Q1))
                   Y3 == S(M(S(Q1, X3), R), M(p.Y, PPP))
               IN [X |-> X3, Y |-> Y3, ZZ |-> M(p.ZZ, PP), ZZZ |-> M(p.ZZZ, PPP)]

PJ == JacOf(P, zp)
QJ == JacOf(Q, zq)
FormulasRefineLaw ==
  /\ AffOfJac(C, JacAdd(PJ, QJ)) = WAdd(C, P, Q)
  /\ AffOfJac(C, JacDouble(PJ)) = WDouble(C, P)
  /\ AffOfJac(C, JacAddMixed(PJ, AffRaw(Q))) = WAdd(C, P, Q)
  /\ AffOfXYZZ(C, ExtAddMixed(ExtOf(P, zp), AffRaw(Q), FALSE)) = WAdd(C, P, Q)
  /\ AffOfXYZZ(C, ExtAddMixed(ExtOf(P, zp), AffRaw(Q), TRUE)) = WSub(C, P, Q)
  /\ (~Q.inf => AffOfXYZZ(C, ExtDoubleMixed(AffRaw(Q), FALSE)) = WDouble(C, Q))
  /\ (~Q.inf => AffOfXYZZ(C, ExtDoubleMixed(AffRaw(Q), TRUE)) = WNeg(C, WDouble(C, Q)))
\* extended-Jacobian results keep the type invariant ZZ^3 = ZZZ^2
ExtWellFormed ==
  LET r == ExtAddMixed(ExtOf(P, zp), AffRaw(Q), FALSE) IN M(Sq(r.ZZ), r.ZZ) = Sq(r.ZZZ)
=============================================================================
