----------------------------- MODULE TraceGroup -----------------------------
(* Trace validation for C02 (short Weierstrass groups): every logged call of   *)
(* a point method is judged against the textbook affine group law of           *)
(* Weierstrass.tla, after projecting the raw (Montgomery, Jacobian / extended  *)
(* Jacobian / affine) operands to affine points.  One trace = one group of one *)
(* curve (header: curve, g).                                                   *)
EXTENDS TraceKernel, CurveParams

Cv == GroupCurve(Hdr.curve, Hdr.g)
F == Cv.F
K == Cv.k
FPar == FieldP(Hdr.curve \o "/fp")
Rinv == InvMod(Rem(Shl(One, FPar.w * FPar.n), F.q), F.q)
ROrder == GroupOrder(Hdr.curve)

CV(raw) == TVal(F, K, Rinv, raw)
CC(raw) == TCanon(F, K, raw)

\* all coordinates of a tagged point are canonical (fully reduced)
Canon(a) == CASE a.t = "aff" -> CC(a.v.X) /\ CC(a.v.Y)
              [] a.t = "jac" -> CC(a.v.X) /\ CC(a.v.Y) /\ CC(a.v.Z)
              [] a.t = "ext" -> CC(a.v.X) /\ CC(a.v.Y) /\ CC(a.v.ZZ) /\ CC(a.v.ZZZ)
\* abstract affine point denoted by a tagged raw point
Proj(a) == CASE a.t = "aff" -> AffOfAff(Cv, [X |-> CV(a.v.X), Y |-> CV(a.v.Y)])
             [] a.t = "jac" -> AffOfJac(Cv, [X |-> CV(a.v.X), Y |-> CV(a.v.Y), Z |-> CV(a.v.Z)])
             [] a.t = "ext" -> AffOfXYZZ(Cv, [X |-> CV(a.v.X), Y |-> CV(a.v.Y), ZZ |-> CV(a.v.ZZ), ZZZ |-> CV(a.v.ZZZ)])
\* extended Jacobian representatives must satisfy ZZ^3 = ZZZ^2 (documented invariant of the type)
ExtWellFormed(a) == a.t # "ext" \/
  LET zz == CV(a.v.ZZ)  zzz == CV(a.v.ZZZ)
  IN TMul(F, K, TMul(F, K, zz, zz), zz) = TMul(F, K, zzz, zzz)

AddOps == {"Add", "AddAssign", "AddMixed", "add", "addMixed"}
SubOps == {"Sub", "SubAssign", "subMixed"}
DblOps == {"Double", "DoubleMixed", "double", "doubleMixed", "DoubleAssign"}
CopyOps == {"Set", "FromJacobian", "FromAffine", "fromJacExtended"}

Expected(e) ==
  LET A == Proj(e.args[1]) IN
  CASE e.op \in AddOps -> WAdd(Cv, A, Proj(e.args[2]))
    [] e.op \in SubOps -> WSub(Cv, A, Proj(e.args[2]))
    [] e.op \in DblOps -> WDouble(Cv, A)
    [] e.op = "doubleNegMixed" -> WNeg(Cv, WDouble(Cv, A))
    [] e.op = "Neg" -> WNeg(Cv, A)
    [] e.op \in CopyOps -> A

\* the non-receiver operands logged after the call equal the ones logged before it
Untouched(e) ==
  LET n == Len(e.args)  m == Len(e.after)
  IN \A i \in 1..m : e.after[i] = e.args[n - m + i]

InputsOk(e) == \A i \in 1..Len(e.args) : Canon(e.args[i]) /\ ExtWellFormed(e.args[i])
OnCurveInputs(e) == \A i \in 1..Len(e.args) : WOnCurve(Cv, Proj(e.args[i]))

JudgeValue(e) ==
  IF ~OnCurveInputs(e) THEN {}                          \* group law only specified on curve points
  ELSE (IF ~Canon(e.out) THEN {"noncanonical"}
        ELSE IF ~ExtWellFormed(e.out) THEN {"ext-malformed"}
        ELSE IF Proj(e.out) # Expected(e) THEN {"value"} ELSE {})
       \cup (IF Untouched(e) THEN {} ELSE {"mutated"})

JudgePred(e) ==
  LET A == Proj(e.args[1])
      want == CASE e.op = "Equal" -> A = Proj(e.args[2])
                [] e.op = "IsInfinity" -> A.inf
                [] e.op = "IsOnCurve" -> WOnCurve(Cv, A)
                [] e.op = "IsInSubGroup" -> WOnCurve(Cv, A) /\ WMulNat(Cv, ROrder, A) = Inf
  IN IF e.op = "Equal" /\ ~OnCurveInputs(e) THEN {}
     ELSE (IF e.ret # want THEN {"ret"} ELSE {})
          \cup (IF Has(e, "after") /\ ~Untouched(e) THEN {"mutated"} ELSE {})

JudgeBatch(e) ==
  IF Len(e.outs) # Len(e.args) THEN {"length"}
  ELSE IF \E i \in 1..Len(e.args) : ~Canon(e.outs[i]) THEN {"noncanonical"}
  ELSE IF \E i \in 1..Len(e.args) : WOnCurve(Cv, Proj(e.args[i])) /\ Proj(e.outs[i]) # Proj(e.args[i]) THEN {"value"}
  ELSE {}

Judge(e) ==
  IF ~InputsOk(e) THEN {"badinput"}
  ELSE IF Panicked(e) THEN {"panic"}
  ELSE IF e.op = "BatchJacobianToAffine" THEN JudgeBatch(e)
  ELSE IF Has(e, "ret") THEN JudgePred(e)
  ELSE IF e.op \in AddOps \cup SubOps \cup DblOps \cup CopyOps \cup {"doubleNegMixed", "Neg"} THEN JudgeValue(e)
  ELSE {"unknown-op"}

Init == KInit
Step == HasNext /\ Advance(Judge(Ev))
Next == Step \/ Finish
Spec == Init /\ [][Next]_<<l, bad>>
=============================================================================
