SPECIFICATION Spec
INVARIANTS Closed ProjectionsConsistent GroupAxioms ScalarMulLaws
CHECK_DEADLOCK FALSE
