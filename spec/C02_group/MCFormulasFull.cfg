SPECIFICATION Spec
CONSTANTS DoublingBranch = TRUE  Full = TRUE
INVARIANTS FormulasRefineLaw ExtWellFormed
CHECK_DEADLOCK FALSE
