-------------------------- MODULE TraceEisenstein --------------------------
(* Extension X03 (not one of the listed properties): arithmetic of the          *)
(* Eisenstein integers Z[w], w^2 + w + 1 = 0 (package field/eisenstein), the    *)
(* ring in which the GLV lattice of the j = 0 curves lives.                     *)
(*   z = a0 + a1 w;  conj z = (a0 - a1) - a1 w;  N(z) = a0^2 + a1^2 - a0 a1     *)
(*   x y = (x0 y0 - x1 y1) + (x0 y1 + x1 y0 - x1 y1) w                          *)
(*   QuoRem(x, y): x = q y + r with N(r) < N(y); panics exactly for y = 0       *)
(*   HalfGCD(a, b), a # 0: (w, v, u) with w = a u + b v and N(w) < isqrt(N(a))  *)
(* The aliasing behaviour of these methods is decided by C19.                   *)
EXTENDS TraceKernel, BigNat, SequencesExt

ZMul(a, b) == ZInt(a.neg # b.neg, Mul(a.mag, b.mag))
ZAdd(a, b) == IF a.neg = b.neg THEN ZInt(a.neg, Add(a.mag, b.mag))
              ELSE IF Lt(a.mag, b.mag) THEN ZInt(b.neg, Sub(b.mag, a.mag)) ELSE ZInt(a.neg, Sub(a.mag, b.mag))
ZNeg(a) == ZInt(~a.neg, a.mag)
ZSub(a, b) == ZAdd(a, ZNeg(b))
ZZero == ZInt(FALSE, Zero)
ZOne == ZInt(FALSE, One)

\* an Eisenstein integer is a pair <<a0, a1>> of signed integers (normalised: no negative zero)
Norm2(z) == <<ZInt(z[1].neg, z[1].mag), ZInt(z[2].neg, z[2].mag)>>
EAdd(x, y) == <<ZAdd(x[1], y[1]), ZAdd(x[2], y[2])>>
ESub(x, y) == <<ZSub(x[1], y[1]), ZSub(x[2], y[2])>>
ENeg(x) == <<ZNeg(x[1]), ZNeg(x[2])>>
EConj(x) == <<ZSub(x[1], x[2]), ZNeg(x[2])>>
EMul(x, y) == <<ZSub(ZMul(x[1], y[1]), ZMul(x[2], y[2])),
                ZSub(ZAdd(ZMul(x[1], y[2]), ZMul(x[2], y[1])), ZMul(x[2], y[2]))>>
ENorm(x) == ZSub(ZAdd(ZMul(x[1], x[1]), ZMul(x[2], x[2])), ZMul(x[1], x[2]))    \* never negative
EZero == <<ZZero, ZZero>>

Val(e, k) == Norm2(e[k])
Same(e) == (IF Has(e, "xafter") /\ Norm2(e.xafter) # Norm2(e.x) THEN {"mutated"} ELSE {})
           \cup (IF Has(e, "yafter") /\ Norm2(e.yafter) # Norm2(e.y) THEN {"mutated"} ELSE {})
Is(e, want) == IF Panicked(e) THEN {"panic"} ELSE IF Norm2(e.out) # want THEN {"value"} ELSE {}

Judge(e) ==
  LET x == Norm2(e.x) IN
  IF Has(e, "hang") THEN {"hang"}              \* the call did not return within the driver's watchdog (60 s)
  ELSE
  CASE e.op = "Neg" -> Is(e, ENeg(x)) \cup Same(e)
    [] e.op = "Conjugate" -> Is(e, EConj(x)) \cup Same(e)
    [] e.op = "Set" -> Is(e, x) \cup Same(e)
    [] e.op = "Add" -> Is(e, EAdd(x, Norm2(e.y))) \cup Same(e)
    [] e.op = "Sub" -> Is(e, ESub(x, Norm2(e.y))) \cup Same(e)
    [] e.op = "Mul" -> Is(e, EMul(x, Norm2(e.y))) \cup Same(e)
    [] e.op = "Norm" -> (IF Panicked(e) THEN {"panic"} ELSE IF ZInt(e.n.neg, e.n.mag) # ENorm(x) THEN {"value"} ELSE {}) \cup Same(e)
    [] e.op = "Equal" -> (IF Panicked(e) THEN {"panic"} ELSE IF e.ret # (x = Norm2(e.y)) THEN {"value"} ELSE {}) \cup Same(e)
    [] e.op = "QuoRem" ->
         LET y == Norm2(e.y) IN
         IF y = EZero THEN (IF Panicked(e) THEN {} ELSE {"missing-panic"})
         ELSE IF Panicked(e) THEN {"panic"}
         ELSE LET q == Norm2(e.q)  r == Norm2(e.r) IN
              (IF EAdd(EMul(q, y), r) # x THEN {"not-a-division"} ELSE {})
              \cup (IF Lt(ENorm(r).mag, ENorm(y).mag) THEN {} ELSE {"remainder-not-smaller"})
              \cup Same(e)
    [] e.op = "HalfGCD" ->
         LET y == Norm2(e.y) IN
         IF x = EZero THEN {}                                   \* no admissible output exists for a = 0: not judged
         ELSE IF Panicked(e) THEN {"panic"}
         ELSE LET w == Norm2(e.w)  v == Norm2(e.v)  u == Norm2(e.u) IN
              (IF EAdd(EMul(x, u), EMul(y, v)) # w THEN {"not-a-combination"} ELSE {})
              \* N(w) < floor(sqrt N(a))  <=>  (N(w) + 1)^2 <= N(a)
              \cup (LET n1 == Add(ENorm(w).mag, One) IN IF ~Lt(ENorm(x).mag, Mul(n1, n1)) THEN {} ELSE {"not-small"})
              \cup Same(e)
    [] OTHER -> {"unknown-op"}

Init == KInit
Step == HasNext /\ Advance(Judge(Ev))
Next == Step \/ Finish
Spec == Init /\ [][Next]_<<l, bad>>
=============================================================================
