-------------------------- MODULE MCParallelExecute --------------------------
(* internal/parallel.Execute(nbIterations, work, maxCpus...): the index range     *)
(* 0..nbIterations-1 is cut into per-goroutine intervals [start, end).  The       *)
(* arithmetic of the cut (iterations per task, the first `extra` tasks take one   *)
(* more, more CPUs than iterations => one iteration each) is transcribed and      *)
(* checked for every (nbIterations, nbTasks): the intervals are a partition of    *)
(* the range - every index is given to exactly one work() call - and at most      *)
(* nbTasks goroutines are started; nbTasks = 1 runs inline.  This is what makes   *)
(* partitionScalars, the FFT splits and the batch conversions independent of      *)
(* the task count.  DropExtra = TRUE models forgetting the remainder: TLC finds   *)
(* the unprocessed indices.                                                       *)
EXTENDS Integers, FiniteSets, Sequences, TLC

CONSTANTS MaxIter, MaxTasks, DropExtra
VARIABLES n, tasksArg
vars == <<n, tasksArg>>
Init == n \in 0..MaxIter /\ tasksArg \in -1..MaxTasks       \* -1: maxCpus not given (NumCPU assumed 4 here)
Next == UNCHANGED vars
Spec == Init /\ [][Next]_vars

NumCPU == 4
NbTasks0 == IF tasksArg = -1 THEN NumCPU ELSE IF tasksArg < 1 THEN 1 ELSE IF tasksArg > 512 THEN 512 ELSE tasksArg

\* the sequence of [start, end) intervals handed to work()
Intervals ==
  IF NbTasks0 = 1 THEN << <<0, n>> >>
  ELSE LET perCpu0 == n \div NbTasks0
           few == perCpu0 < 1
           perCpu == IF few THEN 1 ELSE perCpu0
           nbTasks == IF few THEN n ELSE NbTasks0
           extra == IF DropExtra THEN 0 ELSE n - nbTasks * perCpu
           RECURSIVE Build(_,_,_,_)
           Build(i, ext, off, acc) ==
             IF i >= nbTasks THEN acc
             ELSE LET s == i * perCpu + off
                      e == s + perCpu + (IF ext > 0 THEN 1 ELSE 0)
                  IN Build(i + 1, IF ext > 0 THEN ext - 1 ELSE 0, IF ext > 0 THEN off + 1 ELSE off, Append(acc, <<s, e>>))
       IN Build(0, extra, 0, <<>>)

Covered(i) == {k \in 1..Len(Intervals) : Intervals[k][1] <= i /\ i < Intervals[k][2]}
Partition == \A i \in 0..(n-1) : Cardinality(Covered(i)) = 1
InRange == \A k \in 1..Len(Intervals) : 0 <= Intervals[k][1] /\ Intervals[k][1] <= Intervals[k][2] /\ Intervals[k][2] <= n
Bounded == Len(Intervals) <= (IF NbTasks0 > n /\ n > 0 THEN n ELSE NbTasks0)
=============================================================================
