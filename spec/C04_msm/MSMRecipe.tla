------------------------------ MODULE MSMRecipe ------------------------------
(* Recipe-defined MSM inputs.  An event carries (pat, n, A, B, C, D); point i    *)
(* is [E(i)]G and scalar i is S(i), i = 0..n-1.  The Go harness expands the same *)
(* recipes (harness/c04.go) with math/big; this module is the specification side.*)
(* The value of the MSM is then  [ sum_i S(i)*E(i) mod r ] G.                     *)
EXTENDS BigNat, SequencesExt

NatI(i) == FromInt(i)
Lin(r, X, Y, i) == AddMod(MulMod(X, NatI(i), r), Y, r)          \* X*i + Y mod r

RecE(r, e, i) ==
  CASE e.pat = "same" -> e.B
    [] e.pat = "pm" -> IF i % 2 = 0 THEN e.B ELSE SubMod(Zero, e.B, r)
    [] e.pat = "inf" -> IF i % 3 = 0 THEN Zero ELSE Lin(r, e.A, e.B, i)
    \* K = A buckets, each hit three times in index order: +P, +P (doubling), -P (cancellation)
    [] e.pat = "collide" -> IF (i \div ToInt(e.A)) % 3 < 2 THEN e.B ELSE SubMod(Zero, e.B, r)
    [] OTHER -> Lin(r, e.A, e.B, i)

RecS(r, e, i) ==
  CASE e.pat = "lin" -> AddMod(AddMod(MulMod(e.C, MulMod(NatI(i), NatI(i), r), r), MulMod(e.D, NatI(i), r), r), e.A, r)
    [] e.pat = "pm" -> Lin(r, e.C, e.D, i \div 2)
    [] e.pat = "zero" -> IF i % 2 = 0 THEN Zero ELSE Lin(r, e.C, e.D, i)
    [] e.pat = "max" -> IF i % 2 = 0 THEN Pred(r) ELSE SubMod(Pred(r), NatI(i), r)
    [] e.pat = "onehot" -> Rem(Shl(One, i % (BitLen(r) - 1)), r)
    [] e.pat = "few" -> MulMod(NatI((i % 3) + 1), e.D, r)
    [] e.pat = "small" -> NatI(i % 7)
    [] e.pat = "collide" -> MulMod(NatI((i % ToInt(e.A)) + 1), e.D, r)
    \* (i mod C) + 1 in the top window only (D a power of two)
    [] e.pat = "top" -> MulMod(NatI((i % ToInt(e.C)) + 1), e.D, r)
    [] OTHER -> Lin(r, e.C, e.D, i)

Idx(n) == [j \in 1..n |-> j - 1]
\* sum_{i<n} w(i) * E(i)  mod r
WeightedSum(r, e, n, w(_)) ==
  FoldLeft(LAMBDA acc, i : AddMod(acc, MulMod(w(i), RecE(r, e, i), r), r), Zero, Idx(n))
MSMExponent(r, e) == WeightedSum(r, e, e.n, LAMBDA i : RecS(r, e, i))
\* Fold: sum coeff^i * P_i
FoldExponent(r, e) ==
  LET res == FoldLeft(LAMBDA st, i : [acc |-> AddMod(st.acc, MulMod(st.pw, RecE(r, e, i), r), r),
                                      pw |-> MulMod(st.pw, e.coeff, r)],
                      [acc |-> Zero, pw |-> One], Idx(e.n))
  IN res.acc
=============================================================================
