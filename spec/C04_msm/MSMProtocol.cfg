SPECIFICATION Spec
CONSTANTS NbChunks = 3  NbTasks = 2  Limited = TRUE  ReleaseFirst = TRUE
INVARIANTS NoPanic SemWithinCapacity ActiveBound ReduceOrder
PROPERTIES Termination NoLatePanic
CHECK_DEADLOCK FALSE
