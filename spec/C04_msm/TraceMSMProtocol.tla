-------------------------- MODULE TraceMSMProtocol --------------------------
(* Trace validation of the MSM goroutine protocol.  The log is the totally      *)
(* ordered list of synchronisation points reported by instrumented copies of     *)
(* multiexp*.go (generated at check time from the working tree): producer-side   *)
(* operations (send, close, go) are logged BEFORE they execute, consumer-side    *)
(* ones (receive) AFTER they complete.  Under that discipline                    *)
(*   - a receive is always logged after its matching send was logged,            *)
(*   - if close(c) is logged before a send on c, the schedule in which the       *)
(*     closer runs first is feasible, i.e. a send on a closed channel can        *)
(*     happen: this is rejected even when the panic did not fire in this run,    *)
(*   - per-goroutine order is exact, so a chunk processor that sends its result  *)
(*     before releasing its token (MSMProtocol with ReleaseFirst = FALSE, which  *)
(*     TLC shows unsafe) is rejected deterministically.                          *)
(* State: channels (capacity, logged sends - logged receives, closed), and per   *)
(* goroutine the processor flags (acquired / released / sent) and the number of  *)
(* processors it spawned.  Scenarios are delimited by begin / end events.        *)
EXTENDS TraceKernel, FiniteSets

VARIABLES chans,    \* channel id -> [cap, cnt, closed, rel]   (rel: releases = sends by chunk processors)
          gor,      \* goroutine -> [acq, rel, sent, spawned]
          meta      \* the begin event of the running scenario
mvars == <<chans, gor, meta>>

Upd(f, k, v) == [x \in DOMAIN f \cup {k} |-> IF x = k THEN v ELSE f[x]]
Chan(e) == IF e.id \in DOMAIN chans THEN chans[e.id] ELSE [cap |-> e.cap, cnt |-> 0, closed |-> FALSE, rel |-> 0]
Gor(e) == IF e.gr \in DOMAIN gor THEN gor[e.gr] ELSE [acq |-> FALSE, rel |-> FALSE, sent |-> FALSE, spawned |-> 0]

IsProcessor(e) == e.role = "proc"          \* the event comes from a processChunk* function
IsSem(e) == e.lbl = "sem"
HoldingToken == {g \in DOMAIN gor : gor[g].acq /\ ~gor[g].rel}

JudgePt(e) ==
  LET c == Chan(e)  g == Gor(e) IN
  CASE e.k = "send" ->
         (IF c.closed THEN {"send-on-closed-channel"} ELSE {})
         \cup (IF IsSem(e) /\ c.cnt + 1 > c.cap THEN {"semaphore-overflow"} ELSE {})
         \cup (IF IsProcessor(e) /\ ~IsSem(e) /\ g.acq /\ ~g.rel THEN {"result-sent-before-token-released"} ELSE {})
         \cup (IF IsProcessor(e) /\ IsSem(e) /\ (~g.acq \/ g.rel) THEN {"release-without-acquire"} ELSE {})
    [] e.k = "recv" ->
         (IF c.cnt = 0 /\ ~c.closed THEN {"receive-before-send"} ELSE {})
         \cup (IF IsProcessor(e) /\ IsSem(e) /\ g.acq THEN {"double-acquire"} ELSE {})
    [] e.k = "close" ->
         (IF c.closed THEN {"double-close"} ELSE {})
         \* the semaphore may only be closed once every processor spawned by this goroutine gave its token back
         \cup (IF IsSem(e) /\ c.rel # g.spawned THEN {"semaphore-closed-before-all-releases"} ELSE {})
    [] OTHER -> {}

NextChans(e) ==
  IF ~Has(e, "id") THEN chans
  ELSE LET c == Chan(e) IN
       CASE e.k = "send" -> Upd(chans, e.id, [c EXCEPT !.cnt = @ + 1, !.rel = IF IsProcessor(e) THEN @ + 1 ELSE @])
         [] e.k = "recv" -> Upd(chans, e.id, [c EXCEPT !.cnt = IF @ > 0 THEN @ - 1 ELSE 0])
         [] e.k = "close" -> Upd(chans, e.id, [c EXCEPT !.closed = TRUE])
         [] OTHER -> chans
NextGor(e) ==
  LET g == Gor(e) IN
  CASE e.k = "go" /\ e.lbl = "processChunk" -> Upd(gor, e.gr, [g EXCEPT !.spawned = @ + 1])
    [] IsProcessor(e) /\ e.k = "recv" /\ IsSem(e) -> Upd(gor, e.gr, [g EXCEPT !.acq = TRUE])
    [] IsProcessor(e) /\ e.k = "send" /\ IsSem(e) -> Upd(gor, e.gr, [g EXCEPT !.rel = TRUE])
    [] IsProcessor(e) /\ e.k = "send" /\ ~IsSem(e) -> Upd(gor, e.gr, [g EXCEPT !.sent = TRUE])
    [] OTHER -> gor

\* at the end of a call: no hang, no panic, every token returned, every result consumed
JudgeEnd(e) ==
  (IF Has(e, "hang") THEN {"hang"} ELSE {})
  \cup (IF Has(e, "panic") THEN {"panic"} ELSE {})
  \cup (IF HoldingToken # {} THEN {"token-not-released"} ELSE {})
  \cup (IF \E id \in DOMAIN chans : chans[id].cap <= 2 /\ chans[id].cnt # 0 THEN {"result-not-consumed"} ELSE {})
  \cup (IF \E g \in DOMAIN gor : (gor[g].acq \/ gor[g].rel) /\ ~gor[g].sent THEN {"processor-without-result"} ELSE {})

Empty == [x \in {} |-> 0]
Init == KInit /\ chans = Empty /\ gor = Empty /\ meta = [sc |-> 0]

Step ==
  /\ HasNext
  /\ LET e == Ev IN
     CASE e.op = "begin" -> Advance({}) /\ chans' = Empty /\ gor' = Empty /\ meta' = e
       [] e.op = "pt" -> Advance(JudgePt(e)) /\ chans' = NextChans(e) /\ gor' = NextGor(e) /\ UNCHANGED meta
       [] e.op = "end" -> Advance(JudgeEnd(e)) /\ UNCHANGED mvars
       [] OTHER -> Advance({"unknown-op"}) /\ UNCHANGED mvars
Next == Step \/ (Finish /\ UNCHANGED mvars)
Spec == Init /\ [][Next]_<<l, bad, chans, gor, meta>>

\* invariants of every reachable state of the replay (the model's SemWithinCapacity / ActiveBound)
TokensConsistent == \A g \in HoldingToken : TRUE
=============================================================================
