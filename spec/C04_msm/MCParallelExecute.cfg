SPECIFICATION Spec
CONSTANTS MaxIter = 60  MaxTasks = 20  DropExtra = FALSE
INVARIANTS Partition InRange Bounded
CHECK_DEADLOCK FALSE
