---- MODULE TraceMSMProtocol_TTrace_1790994403 ----
EXTENDS Sequences, TLCExt, Toolbox, Naturals, TLC, TraceMSMProtocol

_expression ==
    LET TraceMSMProtocol_TEExpression == INSTANCE TraceMSMProtocol_TEExpression
    IN TraceMSMProtocol_TEExpression!expression
----

_trace ==
    LET TraceMSMProtocol_TETrace == INSTANCE TraceMSMProtocol_TETrace
    IN TraceMSMProtocol_TETrace!trace
----

_inv ==
    ~(
        TLCGet("level") = Len(_TETrace)
        /\
        chans = (<<>>)
        /\
        bad = ({})
        /\
        meta = ([sc |-> 1, op |-> "begin", n |-> 1, nbTasks |-> 1, pat |-> "lin", procs |-> 1])
        /\
        gor = (<<>>)
        /\
        l = (3)
    )
----

_init ==
    /\ bad = _TETrace[1].bad
    /\ l = _TETrace[1].l
    /\ meta = _TETrace[1].meta
    /\ gor = _TETrace[1].gor
    /\ chans = _TETrace[1].chans
----

_next ==
    /\ \E i,j \in DOMAIN _TETrace:
        /\ \/ /\ j = i + 1
              /\ i = TLCGet("level")
        /\ bad  = _TETrace[i].bad
        /\ bad' = _TETrace[j].bad
        /\ l  = _TETrace[i].l
        /\ l' = _TETrace[j].l
        /\ meta  = _TETrace[i].meta
        /\ meta' = _TETrace[j].meta
        /\ gor  = _TETrace[i].gor
        /\ gor' = _TETrace[j].gor
        /\ chans  = _TETrace[i].chans
        /\ chans' = _TETrace[j].chans

\* Uncomment the ASSUME below to write the states of the error trace
\* to the given file in Json format. Note that you can pass any tuple
\* to `JsonSerialize`. For example, a sub-sequence of _TETrace.
    \* ASSUME
    \*     LET J == INSTANCE Json
    \*         IN J!JsonSerialize("TraceMSMProtocol_TTrace_1790994403.json", _TETrace)

=============================================================================

 Note that you can extract this module `TraceMSMProtocol_TEExpression`
  to a dedicated file to reuse `expression` (the module in the 
  dedicated `TraceMSMProtocol_TEExpression.tla` file takes precedence 
  over the module `TraceMSMProtocol_TEExpression` below).

---- MODULE TraceMSMProtocol_TEExpression ----
EXTENDS Sequences, TLCExt, Toolbox, Naturals, TLC, TraceMSMProtocol

expression == 
    [
        \* To hide variables of the `TraceMSMProtocol` spec from the error trace,
        \* remove the variables below.  The trace will be written in the order
        \* of the fields of this record.
        bad |-> bad
        ,l |-> l
        ,meta |-> meta
        ,gor |-> gor
        ,chans |-> chans
        
        \* Put additional constant-, state-, and action-level expressions here:
        \* ,_stateNumber |-> _TEPosition
        \* ,_badUnchanged |-> bad = bad'
        
        \* Format the `bad` variable as Json value.
        \* ,_badJson |->
        \*     LET J == INSTANCE Json
        \*     IN J!ToJson(bad)
        
        \* Lastly, you may build expressions over arbitrary sets of states by
        \* leveraging the _TETrace operator.  For example, this is how to
        \* count the number of times a spec variable changed up to the current
        \* state in the trace.
        \* ,_badModCount |->
        \*     LET F[s \in DOMAIN _TETrace] ==
        \*         IF s = 1 THEN 0
        \*         ELSE IF _TETrace[s].bad # _TETrace[s-1].bad
        \*             THEN 1 + F[s-1] ELSE F[s-1]
        \*     IN F[_TEPosition - 1]
    ]

=============================================================================



Parsing and semantic processing can take forever if the trace below is long.
 In this case, it is advised to uncomment the module below to deserialize the
 trace from a generated binary file.

\*
\*---- MODULE TraceMSMProtocol_TETrace ----
\*EXTENDS IOUtils, TLC, TraceMSMProtocol
\*
\*trace == IODeserialize("TraceMSMProtocol_TTrace_1790994403.bin", TRUE)
\*
\*=============================================================================
\*

---- MODULE TraceMSMProtocol_TETrace ----
EXTENDS TLC, TraceMSMProtocol

trace == 
    <<
    ([chans |-> <<>>,bad |-> {},meta |-> [sc |-> 0],gor |-> <<>>,l |-> 2]),
    ([chans |-> <<>>,bad |-> {},meta |-> [sc |-> 1, op |-> "begin", n |-> 1, nbTasks |-> 1, pat |-> "lin", procs |-> 1],gor |-> <<>>,l |-> 3])
    >>
----


=============================================================================

---- CONFIG TraceMSMProtocol_TTrace_1790994403 ----

INVARIANT
    _inv

CHECK_DEADLOCK
    \* CHECK_DEADLOCK off because of PROPERTY or INVARIANT above.
    FALSE

INIT
    _init

NEXT
    _next

CONSTANT
    _TETrace <- _trace

ALIAS
    _expression
=============================================================================
\* Generated on Sat Oct 03 02:26:45 UTC 2026