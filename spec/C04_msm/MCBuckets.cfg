SPECIFICATION Spec
CONSTANTS M = 5  NB = 3  BatchSize = 2  QueueLen = 4  MaxLen = 6  CheckConflict = TRUE
INVARIANTS Conservation BatchValid QueueBounded ResultCorrect
CHECK_DEADLOCK FALSE
