------------------------------- MODULE TraceMSM -------------------------------
(* Trace validation for C04 (input/output): MultiExp / Fold / _innerMsm return   *)
(* exactly sum [s_i]P_i for every input multiset, window size, task count and    *)
(* GOMAXPROCS; length mismatch and NbTasks > 1024 are errors; no panic, no hang. *)
EXTENDS TraceKernel, CurveParams, MSMRecipe

Cv == GroupCurve(Hdr.curve, Hdr.g)
F == Cv.F
K == Cv.k
FPar == FieldP(Hdr.curve \o "/fp")
Rinv == InvMod(Rem(Shl(One, FPar.w * FPar.n), F.q), F.q)
ROrder == GroupOrder(Hdr.curve)
Gen == GroupGen(Hdr.curve, Hdr.g)

CV(raw) == TVal(F, K, Rinv, raw)
CC(raw) == TCanon(F, K, raw)
Canon(a) == CASE a.t = "aff" -> CC(a.v.X) /\ CC(a.v.Y)
              [] a.t = "jac" -> CC(a.v.X) /\ CC(a.v.Y) /\ CC(a.v.Z)
Proj(a) == CASE a.t = "aff" -> AffOfAff(Cv, [X |-> CV(a.v.X), Y |-> CV(a.v.Y)])
             [] a.t = "jac" -> AffOfJac(Cv, [X |-> CV(a.v.X), Y |-> CV(a.v.Y), Z |-> CV(a.v.Z)])

ProbeOk(e) == ~Has(e, "probe") \/
  Proj(e.probe.P) = WMulNat(Cv, RecE(ROrder, e, e.probe.i), Gen)

MustFail(e) == e.op # "inner" /\ e.op # "Fold" /\ (e.npoints # e.nscalars \/ e.nbTasks > 1024)

Judge(e) ==
  IF Has(e, "hang") THEN {"hang"}
  ELSE IF Panicked(e) THEN {"panic"}
  ELSE IF ~ProbeOk(e) THEN {"badinput"}
  ELSE IF MustFail(e) THEN (IF e.iserr THEN {} ELSE {"missing-error"})
  ELSE IF e.iserr THEN {"unexpected-error"}
  ELSE IF ~Canon(e.out) THEN {"noncanonical"}
  ELSE LET x == IF e.op = "Fold" THEN FoldExponent(ROrder, e) ELSE MSMExponent(ROrder, e)
       IN IF Proj(e.out) # WMulNat(Cv, x, Gen) THEN {"value"} ELSE {}

Init == KInit
Step == HasNext /\ Advance(Judge(Ev))
Next == Step \/ Finish
Spec == Init /\ [][Next]_<<l, bad>>
=============================================================================
