SPECIFICATION Spec
CONSTANTS MaxIter = 60  MaxTasks = 20  DropExtra = TRUE
INVARIANTS Partition InRange Bounded
CHECK_DEADLOCK FALSE
