SPECIFICATION Spec
CONSTANTS NbChunks = 2  NbTasks = 1  Limited = TRUE  ReleaseFirst = FALSE
INVARIANTS NoPanic SemWithinCapacity ActiveBound ReduceOrder
PROPERTIES Termination NoLatePanic
CHECK_DEADLOCK FALSE
