------------------------------ MODULE MCBuckets ------------------------------
(* The batch-affine chunk processor of multiexp_affine.go.tmpl as a state        *)
(* machine, over the abstract group Z_M (0 is the point at infinity; two          *)
(* "affine points with the same X" are p and -p).  Variables are those of the    *)
(* code: affine buckets, extended-Jacobian buckets (bucketsJE), the current      *)
(* batch (bucket references R with the points P to add, bucketIds), the queue of *)
(* conflicting points.  Ghost variable expected[k] is the true signed sum of the  *)
(* points routed to bucket k.                                                    *)
(*                                                                               *)
(* Checked in every reachable state, for EVERY input sequence up to MaxLen        *)
(* (any bucket, any sign, any point, repeated / opposite points included):        *)
(*   Conservation   buckets + bucketsJE + pending batch + pending queue =         *)
(*                  expected (nothing lost, nothing added twice)                  *)
(*   BatchValid     the precondition of batchAdd: distinct buckets, no infinity,  *)
(*                  no equal or opposite pair (the affine formula divides by      *)
(*                  x2 - x1)                                                      *)
(*   QueueBounded   the queue never overflows                                     *)
(* and at the end  total = sum (k+1) * expected[k].                               *)
(* CheckConflict = FALSE drops the conflict test of processTopQueue: TLC then     *)
(* finds a batch holding the same bucket twice (negative self-test).              *)
EXTENDS Integers, Sequences, FiniteSets, TLC

CONSTANTS M, NB, BatchSize, QueueLen, MaxLen, CheckConflict
Buckets == 0..(NB-1)
Neg(p) == (M - p) % M
Plus(p, q) == (p + q) % M

VARIABLES bk, bje, batch, queue, expected, fed, done, total
vars == <<bk, bje, batch, queue, expected, fed, done, total>>
InBatch(b) == {b[i][1] : i \in 1..Len(b)}

Init == /\ bk = [k \in Buckets |-> 0] /\ bje = [k \in Buckets |-> 0]
        /\ batch = <<>> /\ queue = <<>> /\ expected = [k \in Buckets |-> 0]
        /\ fed = 0 /\ done = FALSE /\ total = 0

\* state record threaded through the helper operators
St == [bk |-> bk, bje |-> bje, batch |-> batch, queue |-> queue]

\* add / addFromQueue: p is already signed (the code negates when isAdd is false; the special cases agree)
AddOp(s, k, p) ==
  IF s.bk[k] = 0 THEN [s EXCEPT !.bk[k] = p]
  ELSE IF s.bk[k] = p THEN [s EXCEPT !.bje[k] = Plus(@, p)]          \* P + P: doubling goes to the Jacobian bucket
  ELSE IF s.bk[k] = Neg(p) THEN [s EXCEPT !.bk[k] = 0]               \* P + (-P)
  ELSE [s EXCEPT !.batch = Append(@, <<k, p>>)]

\* batchAdd on the pending pairs (reads the buckets through the references R)
RECURSIVE Exec(_,_)
Exec(s, i) == IF i > Len(s.batch) THEN [s EXCEPT !.batch = <<>>]
              ELSE Exec([s EXCEPT !.bk[s.batch[i][1]] = Plus(@, s.batch[i][2])], i + 1)

RECURSIVE TopQueue(_)
TopQueue(s) ==
  IF Len(s.queue) = 0 THEN s
  ELSE LET op == s.queue[Len(s.queue)] IN
       IF CheckConflict /\ op[1] \in InBatch(s.batch) THEN s
       ELSE TopQueue(AddOp([s EXCEPT !.queue = SubSeq(@, 1, Len(@) - 1)], op[1], op[2]))

RECURSIVE Flush(_,_)
Flush(s, i) == IF i > Len(s.queue) THEN [s EXCEPT !.queue = <<>>]
               ELSE Flush([s EXCEPT !.bje[s.queue[i][1]] = Plus(@, s.queue[i][2])], i + 1)

FeedOp(s, k, p) ==
  IF k \in InBatch(s.batch)
  THEN LET s1 == [s EXCEPT !.queue = Append(@, <<k, p>>)]
       IN IF Len(s1.queue) = QueueLen - 1 THEN Flush(s1, 1) ELSE s1
  ELSE LET s1 == AddOp(s, k, p)
       IN IF Len(s1.batch) = BatchSize THEN TopQueue(Exec(s1, 1)) ELSE s1

Apply(s) == /\ bk' = s.bk /\ bje' = s.bje /\ batch' = s.batch /\ queue' = s.queue

Feed == /\ ~done /\ fed < MaxLen
        /\ \E k \in Buckets, p \in 1..(M-1) :
              /\ Apply(FeedOp(St, k, p))
              /\ expected' = [expected EXCEPT ![k] = Plus(@, p)]
        /\ fed' = fed + 1 /\ UNCHANGED <<done, total>>

RECURSIVE Reduce(_,_,_,_)
Reduce(s, k, running, tot) ==
  IF k < 0 THEN tot
  ELSE LET r == Plus(Plus(running, s.bk[k]), s.bje[k]) IN Reduce(s, k - 1, r, Plus(tot, r))
Finish == /\ ~done
          /\ LET s == Flush(Exec(St, 1), 1)
             IN Apply(s) /\ total' = Reduce(s, NB - 1, 0, 0)
          /\ done' = TRUE /\ UNCHANGED <<expected, fed>>
Next == Feed \/ Finish
Spec == Init /\ [][Next]_vars

Pending(seq, k) == LET idx == {i \in 1..Len(seq) : seq[i][1] = k}
                   IN IF idx = {} THEN 0 ELSE
                      LET RECURSIVE Sum(_)
                          Sum(S) == IF S = {} THEN 0 ELSE LET i == CHOOSE i \in S : TRUE IN Plus(seq[i][2], Sum(S \ {i}))
                      IN Sum(idx)
Conservation == \A k \in Buckets : Plus(Plus(bk[k], bje[k]), Plus(Pending(batch, k), Pending(queue, k))) = expected[k]
BatchValid == /\ Cardinality(InBatch(batch)) = Len(batch)                        \* distinct buckets
              /\ \A i \in 1..Len(batch) : LET k == batch[i][1]  p == batch[i][2]
                                          IN bk[k] # 0 /\ p # 0 /\ bk[k] # p /\ bk[k] # Neg(p)
              /\ Len(batch) < BatchSize
QueueBounded == Len(queue) < QueueLen - 1 \/ (Len(queue) = QueueLen - 1 /\ FALSE) \/ Len(queue) = 0
RECURSIVE Weighted(_)
Weighted(k) == IF k < 0 THEN 0 ELSE Plus(((k + 1) * expected[k]) % M, Weighted(k - 1))
ResultCorrect == done => total = Weighted(NB - 1)
=============================================================================
