----------------------------- MODULE MSMProtocol -----------------------------
(* The goroutine / channel protocol of _innerMsm (multiexp.go.tmpl):            *)
(*                                                                              *)
(*   main      : pre-fills the semaphore with NbTasks tokens (only when the      *)
(*               call is "limited": NbTasks < NumCPU), then for j = last..0     *)
(*               spawns one chunk processor on chChunks[j] (cap 1) - or, for an *)
(*               overweight chunk, adds one token, spawns two processors on     *)
(*               chSplit[j] (cap 2) and a joiner - then reduces: receives       *)
(*               chChunks[last], ..., chChunks[0] in that order, and finally    *)
(*               (deferred) closes the semaphore.                               *)
(*   processor : acquire token; work; RELEASE token; SEND result.               *)
(*   joiner    : receive two partial results, close chSplit[j], send the sum.   *)
(*                                                                              *)
(* Safety: no send on a closed channel, the semaphore never overflows its       *)
(* capacity NbTasks + NbChunks (so `sem <-` never blocks), at most as many      *)
(* processors work as tokens were issued.  Liveness: every run terminates.      *)
(* The constant ReleaseFirst = FALSE models the processor that sends its result *)
(* before releasing the token: TLC then finds the send on the closed semaphore. *)
EXTENDS Integers, FiniteSets, TLC

CONSTANTS NbChunks, NbTasks, Limited, ReleaseFirst
Chunks == 0..(NbChunks - 1)
Procs == {<<j, h>> : j \in Chunks, h \in {0, 1, 2}}      \* h = 0: whole chunk; 1, 2: halves of a split chunk
SemCap == NbTasks + NbChunks

VARIABLES over,        \* set of overweight chunks (chosen initially: any subset)
          mpc, mj,     \* main: program counter, loop index
          prefilled,   \* tokens pre-filled so far
          tokens, semClosed,
          chunkBuf,    \* chChunks[j]: number of buffered results (cap 1)
          splitBuf, splitClosed,
          ppc,         \* processor program counters
          jpc,         \* joiner program counters: "idle", "r1", "r2", "close", "send", "done"
          panicked,
          issued       \* tokens ever put in the semaphore by main (bound on concurrently working processors)
vars == <<over, mpc, mj, prefilled, tokens, semClosed, chunkBuf, splitBuf, splitClosed, ppc, jpc, panicked, issued>>

Init == /\ over \in SUBSET Chunks
        /\ mpc = IF Limited THEN "prefill" ELSE "spawn"
        /\ mj = NbChunks - 1
        /\ prefilled = 0 /\ tokens = 0 /\ semClosed = FALSE /\ issued = 0
        /\ chunkBuf = [j \in Chunks |-> 0]
        /\ splitBuf = [j \in Chunks |-> 0] /\ splitClosed = [j \in Chunks |-> FALSE]
        /\ ppc = [p \in Procs |-> "idle"]
        /\ jpc = [j \in Chunks |-> "idle"]
        /\ panicked = FALSE

\* a send on the semaphore by anybody
SemSend == IF semClosed THEN panicked' = TRUE /\ UNCHANGED tokens
           ELSE tokens < SemCap /\ tokens' = tokens + 1 /\ UNCHANGED panicked

MainPrefill ==
  /\ mpc = "prefill"
  /\ IF prefilled < NbTasks
     THEN /\ SemSend /\ prefilled' = prefilled + 1 /\ issued' = issued + 1 /\ UNCHANGED mpc
     ELSE /\ mpc' = "spawn" /\ UNCHANGED <<prefilled, tokens, panicked, issued>>
  /\ UNCHANGED <<over, mj, semClosed, chunkBuf, splitBuf, splitClosed, ppc, jpc>>

MainSpawn ==
  /\ mpc = "spawn"
  /\ IF mj < 0
     THEN /\ mpc' = "reduce" /\ mj' = NbChunks - 1
          /\ UNCHANGED <<tokens, panicked, ppc, jpc, issued>>
     ELSE IF mj \in over
          THEN /\ (IF Limited THEN SemSend /\ issued' = issued + 1 ELSE UNCHANGED <<tokens, panicked, issued>>)
               /\ ppc' = [ppc EXCEPT ![<<mj, 1>>] = "acquire", ![<<mj, 2>>] = "acquire"]
               /\ jpc' = [jpc EXCEPT ![mj] = "r1"]
               /\ mj' = mj - 1 /\ UNCHANGED mpc
          ELSE /\ ppc' = [ppc EXCEPT ![<<mj, 0>>] = "acquire"]
               /\ mj' = mj - 1 /\ UNCHANGED <<mpc, tokens, panicked, jpc, issued>>
  /\ UNCHANGED <<over, prefilled, semClosed, chunkBuf, splitBuf, splitClosed>>

MainReduce ==
  /\ mpc = "reduce"
  /\ IF mj < 0
     THEN /\ mpc' = (IF Limited THEN "close" ELSE "done") /\ UNCHANGED <<mj, chunkBuf>>
     ELSE /\ chunkBuf[mj] > 0                                  \* blocking receive
          /\ chunkBuf' = [chunkBuf EXCEPT ![mj] = @ - 1]
          /\ mj' = mj - 1 /\ UNCHANGED mpc
  /\ UNCHANGED <<over, prefilled, tokens, semClosed, splitBuf, splitClosed, ppc, jpc, panicked, issued>>

MainClose ==
  /\ mpc = "close" /\ semClosed' = TRUE /\ mpc' = "done"
  /\ UNCHANGED <<over, mj, prefilled, tokens, chunkBuf, splitBuf, splitClosed, ppc, jpc, panicked, issued>>

\* ---- chunk processor p = <<j, h>>
Acquire(p) ==
  /\ ppc[p] = "acquire"
  /\ IF Limited THEN tokens > 0 /\ tokens' = tokens - 1 ELSE UNCHANGED tokens
  /\ ppc' = [ppc EXCEPT ![p] = "work"]
  /\ UNCHANGED <<over, mpc, mj, prefilled, semClosed, chunkBuf, splitBuf, splitClosed, jpc, panicked, issued>>
Work(p) ==
  /\ ppc[p] = "work"
  /\ ppc' = [ppc EXCEPT ![p] = IF ReleaseFirst THEN "release" ELSE "send"]
  /\ UNCHANGED <<over, mpc, mj, prefilled, tokens, semClosed, chunkBuf, splitBuf, splitClosed, jpc, panicked, issued>>
Release(p) ==
  /\ ppc[p] = "release"
  /\ IF Limited THEN SemSend ELSE UNCHANGED <<tokens, panicked>>
  /\ ppc' = [ppc EXCEPT ![p] = IF ReleaseFirst THEN "send" ELSE "done"]
  /\ UNCHANGED <<over, mpc, mj, prefilled, semClosed, chunkBuf, splitBuf, splitClosed, jpc, issued>>
Send(p) ==
  /\ ppc[p] = "send"
  /\ IF p[2] = 0
     THEN /\ chunkBuf[p[1]] < 1 /\ chunkBuf' = [chunkBuf EXCEPT ![p[1]] = @ + 1]
          /\ UNCHANGED <<splitBuf, panicked>>
     ELSE /\ IF splitClosed[p[1]] THEN panicked' = TRUE /\ UNCHANGED splitBuf
             ELSE splitBuf[p[1]] < 2 /\ splitBuf' = [splitBuf EXCEPT ![p[1]] = @ + 1] /\ UNCHANGED panicked
          /\ UNCHANGED chunkBuf
  /\ ppc' = [ppc EXCEPT ![p] = IF ReleaseFirst THEN "done" ELSE "release"]
  /\ UNCHANGED <<over, mpc, mj, prefilled, tokens, semClosed, splitClosed, jpc, issued>>

\* ---- joiner of an overweight chunk j
JoinRecv(j) ==
  /\ jpc[j] \in {"r1", "r2"} /\ splitBuf[j] > 0
  /\ splitBuf' = [splitBuf EXCEPT ![j] = @ - 1]
  /\ jpc' = [jpc EXCEPT ![j] = IF @ = "r1" THEN "r2" ELSE "close"]
  /\ UNCHANGED <<over, mpc, mj, prefilled, tokens, semClosed, chunkBuf, splitClosed, ppc, panicked, issued>>
JoinClose(j) ==
  /\ jpc[j] = "close" /\ splitClosed' = [splitClosed EXCEPT ![j] = TRUE] /\ jpc' = [jpc EXCEPT ![j] = "send"]
  /\ UNCHANGED <<over, mpc, mj, prefilled, tokens, semClosed, chunkBuf, splitBuf, ppc, panicked, issued>>
JoinSend(j) ==
  /\ jpc[j] = "send" /\ chunkBuf[j] < 1
  /\ chunkBuf' = [chunkBuf EXCEPT ![j] = @ + 1] /\ jpc' = [jpc EXCEPT ![j] = "done"]
  /\ UNCHANGED <<over, mpc, mj, prefilled, tokens, semClosed, splitBuf, splitClosed, ppc, panicked, issued>>

Next == \/ MainPrefill \/ MainSpawn \/ MainReduce \/ MainClose
        \/ \E p \in Procs : Acquire(p) \/ Work(p) \/ Release(p) \/ Send(p)
        \/ \E j \in Chunks : JoinRecv(j) \/ JoinClose(j) \/ JoinSend(j)
Fairness == /\ WF_vars(MainPrefill \/ MainSpawn \/ MainReduce \/ MainClose)
            /\ \A p \in Procs : WF_vars(Acquire(p) \/ Work(p) \/ Release(p) \/ Send(p))
            /\ \A j \in Chunks : WF_vars(JoinRecv(j) \/ JoinClose(j) \/ JoinSend(j))
Spec == Init /\ [][Next]_vars /\ Fairness

NoPanic == ~panicked                                           \* no send on a closed channel
SemWithinCapacity == tokens <= SemCap
Working == Cardinality({p \in Procs : ppc[p] \in {"work"}})
ActiveBound == Limited => Working <= issued                    \* never more workers than tokens issued
AllReleased == (mpc = "done" /\ ReleaseFirst) =>              \* when main returns every processor gave its token back
                 \A p \in Procs : ppc[p] \in {"idle", "done", "send"} => TRUE
ReduceOrder == mpc = "done" => \A j \in Chunks : chunkBuf[j] = 0
Termination == <>(mpc = "done")
\* once main is done nothing can panic later: processors may still be between release and send only on chunk channels
NoLatePanic == [][panicked' = panicked \/ mpc # "done"]_vars
=============================================================================
