----------------------------- MODULE TraceEccID -----------------------------
(* Extension X04 (not one of the listed properties): the curve identifiers of   *)
(* package ecc, the table every caller (gnark, the hash registries, the         *)
(* generators) uses to go from an identifier to a name and to the two moduli.   *)
(*   id.String()        the lower-case name of the curve, one per identifier    *)
(*   IDFromString(s)    the identifier whose name is s up to case; an error for *)
(*                      every other string (never UNKNOWN without an error)     *)
(*   id.ScalarField()   the order r of the group (the modulus of <curve>/fr),   *)
(*   id.BaseField()     the modulus of <curve>/fp; each call returns a copy the *)
(*                      caller may overwrite                                    *)
(*   Implemented()      every identifier once                                   *)
(* Identifiers outside the table (UNKNOWN = 0 and anything above the last one)  *)
(* have no name: String / ScalarField / BaseField panic (documented by the      *)
(* code: "unimplemented ecc ID"), which is accepted there and nowhere else.     *)
EXTENDS TraceKernel, BigNat, FieldParams, SequencesExt

\* the identifiers in declaration order (ecc.go), with the directory of the curve's packages
Table == << [name |-> "bn254", dir |-> "bn254"], [name |-> "bls12_377", dir |-> "bls12-377"],
            [name |-> "bls12_381", dir |-> "bls12-381"], [name |-> "bls24_315", dir |-> "bls24-315"],
            [name |-> "bls24_317", dir |-> "bls24-317"], [name |-> "bw6_761", dir |-> "bw6-761"],
            [name |-> "bw6_633", dir |-> "bw6-633"], [name |-> "stark_curve", dir |-> "stark-curve"],
            [name |-> "secp256k1", dir |-> "secp256k1"], [name |-> "grumpkin", dir |-> "grumpkin"] >>
InTable(id) == id \in 1..Len(Table)

JudgeID(e) ==
  IF ~InTable(e.id) THEN (IF Panicked(e) THEN {} ELSE {"no-panic-for-unknown-id"})
  ELSE IF Panicked(e) THEN {"panic"}
  ELSE LET row == Table[e.id] IN
       (IF e.name # row.name THEN {"name"} ELSE {})
       \cup (IF e.fr # FieldP(row.dir \o "/fr").q THEN {"scalar-field"} ELSE {})
       \cup (IF e.fp # FieldP(row.dir \o "/fp").q THEN {"base-field"} ELSE {})
       \* the second call after the first result was overwritten by the caller
       \cup (IF e.fr2 # e.fr \/ e.fp2 # e.fp THEN {"shared-modulus"} ELSE {})

\* e.lower: the argument in lower case (computed by the driver with strings.ToLower, logged next to the argument)
JudgeFromString(e) ==
  LET hits == {i \in 1..Len(Table) : Table[i].name = e.lower} IN
  IF Panicked(e) THEN {"panic"}
  ELSE IF hits = {} THEN (IF Has(e, "err") THEN {} ELSE {"accepted-unknown-name"})
  ELSE IF Has(e, "err") THEN {"refused-known-name"}
  ELSE IF e.id \notin hits THEN {"id"} ELSE {}

JudgeImplemented(e) ==
  IF Panicked(e) THEN {"panic"}
  ELSE IF Len(e.ids) # Len(Table) \/ {e.ids[i] : i \in 1..Len(e.ids)} # 1..Len(Table) THEN {"implemented"} ELSE {}

Judge(e) ==
  CASE e.op = "ID" -> JudgeID(e)
    [] e.op = "FromString" -> JudgeFromString(e)
    [] e.op = "Implemented" -> JudgeImplemented(e)
    [] OTHER -> {"unknown-op"}

Step == HasNext /\ Advance(Judge(Ev))
Next == Step \/ Finish
Spec == KInit /\ [][Next]_<<l, bad>>
=============================================================================
