----------------------------- MODULE MCRecoding -----------------------------
(* Design-level model of the windowed scalar-multiplication loops, in the       *)
(* abstract group Z_r (so [k]P is k*P mod r):                                   *)
(*  - mulWindowed: 2-bit fixed window over the big-endian bytes of |s|, base    *)
(*    point negated for negative s;                                             *)
(*  - JointScalarMultiplication (Straus-Shamir): 15-entry table                 *)
(*    T[(b2<<2|b1)-1] = b1*P1 + b2*P2, digits taken from the scalars REDUCED    *)
(*    mod r and stored in L words of W bits; the number of words visited is     *)
(*    derived from a bit length (variable BoundFrom):                           *)
(*      "reduced"   - of the reduced scalars (the repaired code),               *)
(*      "unreduced" - of the caller's integers (the code before fix 39b25a2):   *)
(*                    TLC then finds the out-of-range word index.               *)
(* All scalars in a range that exceeds 2^(W*L) and all P2 are enumerated.        *)
EXTENDS Integers, Sequences, TLC

CONSTANTS R, W, L, BoundFrom, SMax
SMin == -SMax

Abs(x) == IF x < 0 THEN -x ELSE x
RECURSIVE Pow2(_)
Pow2(k) == IF k = 0 THEN 1 ELSE 2 * Pow2(k-1)
RECURSIVE BitLenI(_)
BitLenI(x) == IF x = 0 THEN 0 ELSE 1 + BitLenI(x \div 2)
Word(x, i) == (x \div Pow2(W * i)) % Pow2(W)          \* i-th word (0-based) of x
GMul(k, P) == (k * P) % R                              \* [k]P in Z_r for k >= 0
GNeg(P) == (R - P) % R
GAdd(P, Q) == (P + Q) % R
Lift(s, P) == IF s < 0 THEN GNeg(GMul(-s, P)) ELSE GMul(s, P)     \* the specification [s]P

VARIABLES s1, s2, P2
vars == <<s1, s2, P2>>
P1 == 1
Init == s1 \in SMin..SMax /\ s2 \in SMin..SMax /\ P2 \in 0..(R-1)
Next == UNCHANGED vars
Spec == Init /\ [][Next]_vars

(* --- mulWindowed ---------------------------------------------------------- *)
NBytes(k) == (BitLenI(k) + 7) \div 8
Byte(k, i) == (k \div Pow2(8 * i)) % 256               \* i = 0 least significant
RECURSIVE MWLoop(_,_,_,_,_)
MWLoop(k, base, bi, j, res) ==                          \* byte index bi (from the top), window j = 0..3
  IF bi < 0 THEN res
  ELSE LET c == (Byte(k, bi) \div Pow2(6 - 2*j)) % 4
           r4 == GMul(4, res)
           r2 == IF c # 0 THEN GAdd(r4, GMul(c, base)) ELSE r4
       IN IF j = 3 THEN MWLoop(k, base, bi - 1, 0, r2) ELSE MWLoop(k, base, bi, j + 1, r2)
MulWindowed(s, P) == LET base == IF s < 0 THEN GNeg(P) ELSE P
                     IN MWLoop(Abs(s), base, NBytes(Abs(s)) - 1, 0, 0)
WindowedCorrect == MulWindowed(s1, P2) = Lift(s1, P2) /\ MulWindowed(s2, P1) = Lift(s2, P1)

(* --- Straus-Shamir joint multiplication ------------------------------------ *)
T0 == IF s1 < 0 THEN GNeg(P1) ELSE P1
T3 == IF s2 < 0 THEN GNeg(P2) ELSE P2
Table(idx) == GAdd(GMul((idx + 1) % 4, T0), GMul((idx + 1) \div 4, T3))   \* idx = (b2<<2|b1) - 1
K1 == Abs(s1) % R                                         \* fr.Element.SetBigInt reduces
K2 == Abs(s2) % R
MaxBit == IF BoundFrom = "reduced"
          THEN (IF BitLenI(K1) > BitLenI(K2) THEN BitLenI(K1) ELSE BitLenI(K2))
          ELSE (IF BitLenI(Abs(s1)) > BitLenI(Abs(s2)) THEN BitLenI(Abs(s1)) ELSE BitLenI(Abs(s2)))
HiWordIndex == IF MaxBit = 0 THEN 0 ELSE (MaxBit - 1) \div W
RECURSIVE JLoop(_,_,_)
JLoop(i, j, res) ==                                       \* word i, window j = 0..W/2-1
  IF i < 0 THEN res
  ELSE LET sh == W - 2 - 2*j
           b1 == (Word(K1, i) \div Pow2(sh)) % 4
           b2 == (Word(K2, i) \div Pow2(sh)) % 4
           r4 == GMul(4, res)
           r2 == IF b1 + b2 # 0 THEN GAdd(r4, Table(b2 * 4 + b1 - 1)) ELSE r4
       IN IF j = (W \div 2) - 1 THEN JLoop(i - 1, 0, r2) ELSE JLoop(i, j + 1, r2)
Joint == JLoop(HiWordIndex, 0, 0)
IndexInRange == HiWordIndex < L                           \* the limb array has L words
JointCorrect == IndexInRange => Joint = GAdd(Lift(s1, P1), Lift(s2, P2))
=============================================================================
