SPECIFICATION Spec
CONSTANTS R = 13  W = 4  L = 1  BoundFrom = "unreduced"  SMax = 40
INVARIANTS WindowedCorrect IndexInRange JointCorrect
CHECK_DEADLOCK FALSE
