--------------------------- MODULE TraceScalarMul ---------------------------
(* Trace validation for C03: every scalar-multiplication entry point returns    *)
(* [s]P (resp. [s1]P1 + [s2]P2) as defined by double-and-add on the textbook    *)
(* affine law (Weierstrass!WMul), for every integer s.  The projection          *)
(* operators are those of TraceGroup (C02).                                     *)
EXTENDS TraceKernel, CurveParams

Cv == GroupCurve(Hdr.curve, Hdr.g)
F == Cv.F
K == Cv.k
FPar == FieldP(Hdr.curve \o "/fp")
Rinv == InvMod(Rem(Shl(One, FPar.w * FPar.n), F.q), F.q)
RPar == FieldP(Hdr.curve \o "/fr")
ROrder == RPar.q
RRinv == InvMod(Rem(Shl(One, RPar.w * RPar.n), ROrder), ROrder)
Gen == GroupGen(Hdr.curve, Hdr.g)

CV(raw) == TVal(F, K, Rinv, raw)
CC(raw) == TCanon(F, K, raw)
Canon(a) == CASE a.t = "aff" -> CC(a.v.X) /\ CC(a.v.Y)
              [] a.t = "jac" -> CC(a.v.X) /\ CC(a.v.Y) /\ CC(a.v.Z)
Proj(a) == CASE a.t = "aff" -> AffOfAff(Cv, [X |-> CV(a.v.X), Y |-> CV(a.v.Y)])
             [] a.t = "jac" -> AffOfJac(Cv, [X |-> CV(a.v.X), Y |-> CV(a.v.Y), Z |-> CV(a.v.Z)])

Result(e, expected) ==
  IF Panicked(e) THEN {"panic"}
  ELSE IF ~Canon(e.out) THEN {"noncanonical"}
  ELSE IF Proj(e.out) # expected THEN {"value"} ELSE {}

Single(e) ==
  LET base == e.op = "ScalarMultiplicationBase"
      P == IF base THEN Gen ELSE Proj(e.P)
  IN IF ~base /\ ~(Canon(e.P) /\ WOnCurve(Cv, P)) THEN {"badinput"}
     ELSE Result(e, WMul(Cv, e.s, P))
          \cup (IF ~Panicked(e) /\ ~base /\ e.Pafter # e.P THEN {"mutated"} ELSE {})
          \cup (IF ~Panicked(e) /\ e.safter # e.s THEN {"mutated-scalar"} ELSE {})

Joint(e) ==
  LET P1 == Proj(e.P1)
      P2 == IF e.op = "JointScalarMultiplicationBase" THEN Gen ELSE Proj(e.P2)
  IN \* documented: JointScalarMultiplicationBase(a, s1, s2) = [s1]G + [s2]a
     IF e.op = "JointScalarMultiplicationBase"
     THEN Result(e, WAdd(Cv, WMul(Cv, e.s1, Gen), WMul(Cv, e.s2, P1)))
     ELSE Result(e, WAdd(Cv, WMul(Cv, e.s1, P1), WMul(Cv, e.s2, P2)))

Batch(e) ==
  IF Panicked(e) THEN {"panic"}
  ELSE IF Len(e.outs) # Len(e.scalars) THEN {"length"}
  ELSE IF \E i \in 1..Len(e.outs) : ~Canon(e.outs[i]) THEN {"noncanonical"}
  ELSE LET P == Proj(e.P) IN
       IF \E i \in 1..Len(e.outs) :
            Proj(e.outs[i]) # WMulNat(Cv, MulMod(e.scalars[i], RRinv, ROrder), P) THEN {"value"} ELSE {}

\* a large batch of which a sample of indices is logged
BatchSampled(e) ==
  IF Panicked(e) THEN {"panic"}
  ELSE IF e.nouts # e.n THEN {"length"}
  ELSE IF \E i \in 1..Len(e.outs) : ~Canon(e.outs[i]) THEN {"noncanonical"}
  ELSE LET P == Proj(e.P) IN
       IF \E i \in 1..Len(e.outs) :
            Proj(e.outs[i]) # WMulNat(Cv, MulMod(e.scalars[i], RRinv, ROrder), P) THEN {"value"} ELSE {}

Judge(e) ==
  CASE e.op \in {"ScalarMultiplication", "ScalarMultiplicationBase", "mulWindowed", "mulGLV"} -> Single(e)
    [] e.op \in {"JointScalarMultiplication", "JointScalarMultiplicationBase"} -> Joint(e)
    [] e.op = "BatchScalarMultiplication" -> Batch(e)
    [] e.op = "BatchScalarMultiplication.sampled" -> BatchSampled(e)
    [] OTHER -> {"unknown-op"}

Init == KInit
Step == HasNext /\ Advance(Judge(Ev))
Next == Step \/ Finish
Spec == Init /\ [][Next]_<<l, bad>>
=============================================================================
