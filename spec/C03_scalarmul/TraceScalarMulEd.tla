-------------------------- MODULE TraceScalarMulEd --------------------------
(* C03 for the twisted Edwards companions: ScalarMultiplication in affine,      *)
(* projective and extended coordinates equals EMul (double-and-add, affine law).*)
EXTENDS TraceKernel, TwistedEdwards, FieldParams, EdwardsParams

EP == EdwardsP(Hdr.edwards)
FPar == FieldP(EP.field)
q == FPar.q
E == [q |-> q, a |-> EP.a, d |-> EP.d]
Rinv == InvMod(Rem(Shl(One, FPar.w * FPar.n), q), q)
V(raw) == MulMod(raw, Rinv, q)
CC(raw) == IsNat(raw) /\ Lt(raw, q)
Canon(a) == CASE a.t = "aff" -> CC(a.v.X) /\ CC(a.v.Y)
              [] a.t = "proj" -> CC(a.v.X) /\ CC(a.v.Y) /\ CC(a.v.Z)
              [] a.t = "ext" -> CC(a.v.X) /\ CC(a.v.Y) /\ CC(a.v.Z) /\ CC(a.v.T)
WellFormed(a) == CASE a.t = "aff" -> TRUE
                   [] a.t = "proj" -> V(a.v.Z) # Zero
                   [] a.t = "ext" -> V(a.v.Z) # Zero /\
                        EExtConsistent(E, [X |-> V(a.v.X), Y |-> V(a.v.Y), Z |-> V(a.v.Z), T |-> V(a.v.T)])
Proj(a) == IF a.t = "aff" THEN [x |-> V(a.v.X), y |-> V(a.v.Y)]
           ELSE AffOfEProj(E, [X |-> V(a.v.X), Y |-> V(a.v.Y), Z |-> V(a.v.Z)])

Judge(e) ==
  IF ~(Canon(e.P) /\ WellFormed(e.P) /\ EOnCurve(E, Proj(e.P))) THEN {"badinput"}
  ELSE IF Panicked(e) THEN {"panic"}
  ELSE (IF ~Canon(e.out) THEN {"noncanonical"}
        ELSE IF ~WellFormed(e.out) THEN {"malformed"}
        ELSE IF Proj(e.out) # EMul(E, e.s, Proj(e.P)) THEN {"value"} ELSE {})
       \cup (IF e.Pafter # e.P THEN {"mutated"} ELSE {})

Init == KInit
Step == HasNext /\ Advance(Judge(Ev))
Next == Step \/ Finish
Spec == Init /\ [][Next]_<<l, bad>>
=============================================================================
