SPECIFICATION SpecFacts
CONSTANTS P = 7  Shape = "E12"  Variant = "doc"  Bound = 0
INVARIANTS GroupFacts
CHECK_DEADLOCK FALSE
