SPECIFICATION Spec
CONSTANTS P = 7  Shape = "E12"  Variant = "e12code"  Bound = 0
CONSTRAINT InBound
INVARIANTS Refines Closed GSCorrect KSquareCorrect KDecompressCorrect TorusCorrect FrobCorrect SparseCorrect
CHECK_DEADLOCK FALSE
