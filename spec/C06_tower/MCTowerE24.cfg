SPECIFICATION Spec
CONSTANTS P = 13  Shape = "E24"  Variant = "doc"  Bound = 40
CONSTRAINT InBound
INVARIANTS Refines Closed GSCorrect KSquareCorrect KDecompressCorrect TorusCorrect FrobCorrect SparseCorrect
CHECK_DEADLOCK FALSE
