SPECIFICATION Spec
CONSTANTS P = 43  Shape = "BW6"  Variant = "doc"  Bound = 0
CONSTRAINT InBound
INVARIANTS Refines Closed GSCorrect KSquareCorrect KDecompressCorrect TorusCorrect FrobCorrect SparseCorrect
CHECK_DEADLOCK FALSE
