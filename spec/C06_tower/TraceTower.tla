----------------------------- MODULE TraceTower -----------------------------
(* Trace validation for C06.  One trace = one context (a pairing curve's tower  *)
(* or a small field's extensions; header: ctx, kind).  Every event is one call  *)
(* of a public entry point of a tower type, logged with RAW Montgomery limbs;   *)
(* it is judged against the GENERIC quotient-ring arithmetic of Tower.tla over  *)
(* the DOCUMENTED tower (CurveParams / C06Params).  None of the library's        *)
(* specialised formulas is used here.                                           *)
(*                                                                               *)
(* Machine state (besides the kernel's cursor and bad set):                      *)
(*   cyc  elements that an earlier Decl event showed to be in the cyclotomic     *)
(*        subgroup  (x # 0, x^Phi_n(p) = 1),                                     *)
(*   gt   elements shown to be in GT (cyclotomic and x^r = 1).                   *)
(* A routine documented as requiring such an operand is specified only on the    *)
(* declared elements (domain membership is the enabling condition of the         *)
(* action); on other operands it is unspecified and accepted.                    *)
EXTENDS TraceKernel, TowerCyclo, C06Params

VARIABLES cyc, gt

IsCurve == Hdr.kind = "curve"
Ctx == Hdr.ctx
F == IF IsCurve THEN FieldCtx(Ctx) ELSE SmallCtx(Ctx)
FPar == FieldP(IF IsCurve THEN Ctx \o "/fp" ELSE Ctx)
Rinv == InvMod(Rem(Shl(One, FPar.w * FPar.n), F.q), F.q)
Top == Len(F.T)
ROrder == IF IsCurve THEN GroupOrder(Ctx) ELSE Zero
BTwist == G2Curve(Ctx).b
\* X_k^p per level: separate definitions so that a trace only pays for the levels it uses
XP1 == TExp(F, 1, TGen(F, 1), F.q)
XP2 == TExp(F, 2, TGen(F, 2), F.q)
XP3 == TExp(F, 3, TGen(F, 3), F.q)
XP4 == TExp(F, 4, TGen(F, 4), F.q)
XPUpTo(k) == CASE k = 1 -> <<XP1>> [] k = 2 -> <<XP1, XP2>> [] k = 3 -> <<XP1, XP2, XP3>> [] k = 4 -> <<XP1, XP2, XP3, XP4>>

V(a) == TVal(F, a.l, Rinv, a.v)                  \* abstract value of a tagged raw operand
Canon(a) == a.l \in 0..Top /\ TCanon(F, a.l, a.v)
AllCanon(s) == \A i \in 1..Len(s) : Canon(s[i])
Frob(k, a, n) == TFrobXN(F, XPUpTo(k), k, a, n)
ConjG(k, a) == IF Deg(F, k) = 2 THEN TConj(F, k, a) ELSE Frob(k, a, TDegree(F, k) \div 2)
IsCyclo(k, a) == TDegree(F, k) % 6 = 0 /\ InCyclo(F, XPUpTo(k), k, a)
EmbedTo(k, a, from) == IF from = k THEN a ELSE TEmbed(F, k, a)   \* only base-field scalars are embedded

Zk(k) == TZero(F, k)
Ok(k) == TOne(F, k)
\* sparse elements of a quadratic-over-cubic level k from coordinates over level k-2
Sp6(k, s) == S6(s)
Z2(k) == Zk(k-2)
O2(k) == Ok(k-2)

(* ---- expected value of the deterministic value-producing operations ------- *)
A(e, i) == V(e.args[i])
Lv(e) == e.L
IsCubic(e) == Deg(F, e.L) = 3

NRPow(e) ==  \* MulByNonResidue<i>Power<j>: x * nr^(j (p^i - 1)/6)
  LET ex == Mul(FromInt(e.pj), Div(Pred(QPow(F.q, e.pi)), FromInt(6)))
  IN TMul(F, e.L, A(e,1), TExp(F, e.L, NonRes(F, e.L), ex))

Sparse(e) ==  \* in-place products z * sparse; args[1] = z, then the sub-coordinates
  LET k == e.L  z == A(e,1)  Z == Zk(e.args[2].l)  O == Ok(e.args[2].l) IN
  CASE e.op = "MulBy01" /\ IsCubic(e)  -> TMul(F, k, z, <<A(e,2), A(e,3), Z>>)
    [] e.op = "MulBy1"                  -> TMul(F, k, z, <<Z, A(e,2), Z>>)
    [] e.op = "MulBy12"                 -> TMul(F, k, z, <<Z, A(e,2), A(e,3)>>)
    [] e.op = "MulBy034"                -> TMul(F, k, z, S6(<<A(e,2), Z, Z, A(e,3), A(e,4), Z>>))
    [] e.op = "MulBy34"                 -> TMul(F, k, z, S6(<<O, Z, Z, A(e,2), A(e,3), Z>>))
    [] e.op = "MulBy01234"              -> TMul(F, k, z, S6(<<A(e,2), A(e,3), A(e,4), A(e,5), A(e,6), Z>>))
    [] e.op = "MulBy014"                -> TMul(F, k, z, S6(<<A(e,2), A(e,3), Z, Z, A(e,4), Z>>))
    [] e.op = "MulBy01" /\ ~IsCubic(e) -> TMul(F, k, z, S6(<<A(e,2), A(e,3), Z, Z, O, Z>>))
    [] e.op = "MulBy01245"              -> TMul(F, k, z, S6(<<A(e,2), A(e,3), A(e,4), Z, A(e,5), A(e,6)>>))
SparseOps == {"MulBy01", "MulBy1", "MulBy12", "MulBy034", "MulBy34", "MulBy01234", "MulBy014", "MulBy01245"}
FrobOps == {"Frobenius", "FrobeniusSquare", "FrobeniusCube", "FrobeniusQuad"}
FrobN(op) == CASE op = "Frobenius" -> 1 [] op = "FrobeniusSquare" -> 2 [] op = "FrobeniusCube" -> 3 [] op = "FrobeniusQuad" -> 4

Expected(e) ==
  LET k == e.L IN
  CASE e.op \in {"Add"} -> TAdd(F, k, A(e,1), A(e,2))
    [] e.op = "Sub" -> TSub(F, k, A(e,1), A(e,2))
    [] e.op \in {"Mul", "MulAssign"} -> TMul(F, k, A(e,1), A(e,2))
    [] e.op = "Div" -> TDiv(F, k, A(e,1), A(e,2))                       \* x/0 = 0 (Inverse(0) = 0, documented)
    [] e.op = "Neg" -> TNeg(F, k, A(e,1))
    [] e.op = "Double" -> TAdd(F, k, A(e,1), A(e,1))
    [] e.op \in {"Square", "CyclotomicSquare"} -> TMul(F, k, A(e,1), A(e,1))
    [] e.op \in {"Inverse", "InverseUnitary"} -> TInv(F, k, A(e,1))
    [] e.op \in {"Set", "Clone"} -> A(e,1)
    [] e.op = "Conjugate" -> ConjG(k, A(e,1))
    [] e.op = "Halve" -> TMul(F, k, A(e,1), TEmbed(F, k, InvMod(Two, F.q)))
    [] e.op = "MulByElement" -> TMul(F, k, A(e,1), TEmbed(F, k, A(e,2)))
    [] e.op = "MulByE2" -> TScale(F, k, A(e,1), A(e,2))
    [] e.op = "MulByNonResidue" -> TMul(F, k, A(e,1), NonRes(F, k))
    [] e.op = "MulByNonResidueInv" -> TDiv(F, k, A(e,1), NonRes(F, k))
    [] e.op = "MulBybTwistCurveCoeff" -> TMul(F, k, A(e,1), BTwist)
    [] Has(e, "pi") -> NRPow(e)
    [] e.op \in SparseOps -> Sparse(e)
    [] e.op \in FrobOps -> Frob(k, A(e,1), FrobN(e.op))
    [] e.op \in FixedExpOps -> TExpZ(F, k, A(e,1), FixedExp(Ctx, e.op))
    [] e.op \in {"Exp", "CyclotomicExp", "ExpGLV"} -> TExpZ(F, k, A(e,1), e.k)
    [] e.op = "SetOne" -> Ok(k)
    [] e.op = "SetZero" -> Zk(k)
    [] e.op = "DecompressTorus" -> TorusDecompress(F, k+1, A(e,1))       \* (c + w)/(c - w): total
ValueOps == {"Add", "Sub", "Mul", "MulAssign", "Div", "Neg", "Double", "Square", "CyclotomicSquare", "Inverse", "InverseUnitary",
             "Set", "Clone", "Conjugate", "Halve", "MulByElement", "MulByE2", "MulByNonResidue", "MulByNonResidueInv",
             "MulBybTwistCurveCoeff", "Exp", "CyclotomicExp", "ExpGLV", "SetOne", "SetZero", "DecompressTorus"}
             \cup SparseOps \cup FrobOps \cup FixedExpOps

(* ---- domains ------------------------------------------------------------- *)
CycOps == {"CyclotomicSquare", "CyclotomicSquareCompressed", "CyclotomicExp", "CompressTorus"} \cup FixedExpOps
\* TRUE when the call is inside the documented domain of the routine
InDomain(e) ==
  CASE e.op \in CycOps -> e.args[1] \in cyc
    [] e.op = "ExpGLV" -> e.args[1] \in gt
    [] e.op = "InverseUnitary" -> e.args[1] \in cyc \/ TMul(F, e.L, A(e,1), ConjG(e.L, A(e,1))) = Ok(e.L)
    [] e.op = "MulBybTwistCurveCoeff" -> IsCurve /\ e.L = G2Level(Ctx)
    \* IsInSubGroup is built from Frobenius / CyclotomicSquare / Expt: its domain is the cyclotomic subgroup, where the
    \* answer must be exact (GT => TRUE, cyclotomic outside GT => FALSE).  Outside the domain nothing is demanded.
    \* OBSERVATION (not judged): on the zero element - the Go zero value GT{} - bn254, bls12-377, bls24-315, bw6-633 and
    \* bw6-761 answer TRUE, bls12-381 and bls24-317 answer FALSE; callers must not feed unchecked field elements.
    [] e.op = "IsInSubGroup" -> e.args[1] \in cyc
    [] e.op \in {"DecompressKarabina"} -> e.wit \in cyc
    [] e.op = "BatchDecompressKarabina" -> \A i \in 1..Len(e.wit) : e.wit[i] \in cyc
    [] e.op = "BatchCompressTorus" -> \A i \in 1..Len(e.args) : e.args[i] \in cyc
    [] OTHER -> TRUE

(* ---- judgements ------------------------------------------------------------ *)
\* read-only operands are unchanged (the receiver of an in-place routine is exempt)
Untouched(e) ==
  /\ Len(e.after) = Len(e.args)
  /\ \A i \in 1..Len(e.args) : (i = 1 /\ Has(e, "mut0")) \/ e.after[i] = e.args[i]
  /\ (Has(e, "k") => e.kafter = e.k)
Mutation(e) == IF Has(e, "after") /\ ~Untouched(e) THEN {"mutated"} ELSE {}

OutIs(e, lvl, expected) ==
  IF ~Has(e, "out") THEN {"noresult"}
  ELSE IF e.out.l # lvl \/ ~Canon(e.out) THEN {"noncanonical"}
  ELSE IF V(e.out) # expected THEN {"value"} ELSE {}

JudgeValue(e) ==
  (IF Has(e, "err") THEN {"error"} ELSE {}) \cup
  OutIs(e, IF e.op = "DecompressTorus" THEN e.L + 1 ELSE e.L, Expected(e))

\* compressed square: only the four carried coordinates (g1, g2, g3, g5) are specified
JudgeKSquare(e) ==
  LET sq == TMul(F, e.L, A(e,1), A(e,1)) IN
  IF ~Has(e, "out") \/ ~Canon(e.out) THEN {"noncanonical"}
  ELSE IF \E i \in {1, 2, 3, 5} : G(V(e.out), i) # G(sq, i) THEN {"value"} ELSE {}

\* decompression: the operand carries (g1, g2, g3, g5) of the declared cyclotomic element wit; result = wit
Carries(x, w) == \A i \in {1, 2, 3, 5} : G(x, i) = G(w, i)
JudgeKDecompress(e) ==
  IF ~Carries(A(e,1), V(e.wit)) THEN {"badinput"}
  ELSE OutIs(e, e.L, V(e.wit))
JudgeKBatch(e) ==
  IF \E i \in 1..Len(e.args) : ~Carries(A(e,i), V(e.wit[i])) THEN {"badinput"}
  ELSE IF Len(e.outs) # Len(e.args) THEN {"length"}
  ELSE IF ~AllCanon(e.outs) THEN {"noncanonical"}
  ELSE IF \E i \in 1..Len(e.args) : V(e.outs[i]) # V(e.wit[i]) THEN {"value"} ELSE {}

\* torus compression: error exactly when C1 = 0; otherwise the result decompresses to the operand
TorusOk(k, z, c) == TorusDecompress(F, k, c) = z
JudgeCompressTorus(e) ==
  LET z == A(e,1) IN
  IF z[2] = Zk(e.L - 1) THEN (IF Has(e, "err") THEN {} ELSE {"noerror"})
  ELSE IF Has(e, "err") THEN {"error"}
  ELSE IF ~Has(e, "out") \/ e.out.l # e.L - 1 \/ ~Canon(e.out) THEN {"noncanonical"}
  ELSE IF ~TorusOk(e.L, z, V(e.out)) THEN {"value"} ELSE {}
JudgeBatchCompressTorus(e) ==
  LET n == Len(e.args)
      anyBad == n = 0 \/ \E i \in 1..n : A(e,i)[2] = Zk(e.L - 1)
  IN IF anyBad THEN (IF Has(e, "err") THEN {} ELSE {"noerror"})
     ELSE IF Has(e, "err") THEN {"error"}
     ELSE IF Len(e.outs) # n THEN {"length"}
     ELSE IF ~AllCanon(e.outs) THEN {"noncanonical"}
     ELSE IF \E i \in 1..n : ~TorusOk(e.L, A(e,i), V(e.outs[i])) THEN {"value"} ELSE {}
JudgeBatchDecompressTorus(e) ==
  LET n == Len(e.args) IN
  IF n = 0 THEN (IF Has(e, "err") THEN {} ELSE {"noerror"})
  ELSE IF Has(e, "err") THEN {"error"}
  ELSE IF Len(e.outs) # n THEN {"length"}
  ELSE IF ~AllCanon(e.outs) THEN {"noncanonical"}
  ELSE IF \E i \in 1..n : V(e.outs[i]) # TorusDecompress(F, e.L + 1, A(e,i)) THEN {"value"} ELSE {}

JudgeBatchInvert(e) ==
  IF Len(e.outs) # Len(e.args) THEN {"length"}
  ELSE IF ~AllCanon(e.outs) THEN {"noncanonical"}
  ELSE IF \E i \in 1..Len(e.args) : V(e.outs[i]) # TInv(F, e.L, A(e,i)) THEN {"value"} ELSE {}

\* products of two sparse line evaluations: five coordinates of the full product, the sixth is zero
JudgeSparseBySparse(e) ==
  LET k == e.L  Z == Z2(k)  O == O2(k)
      d == CASE e.op = "Mul034By034" -> S6(<<A(e,1), Z, Z, A(e,2), A(e,3), Z>>)
             [] e.op = "Mul34By34"   -> S6(<<O, Z, Z, A(e,1), A(e,2), Z>>)
             [] e.op = "Mul014By014" -> S6(<<A(e,1), A(e,2), Z, Z, A(e,3), Z>>)
             [] e.op = "Mul01By01"   -> S6(<<A(e,1), A(e,2), Z, Z, O, Z>>)
      c == CASE e.op = "Mul034By034" -> S6(<<A(e,4), Z, Z, A(e,5), A(e,6), Z>>)
             [] e.op = "Mul34By34"   -> S6(<<O, Z, Z, A(e,3), A(e,4), Z>>)
             [] e.op = "Mul014By014" -> S6(<<A(e,4), A(e,5), Z, Z, A(e,6), Z>>)
             [] e.op = "Mul01By01"   -> S6(<<A(e,3), A(e,4), Z, Z, O, Z>>)
      pos == IF e.op \in {"Mul034By034", "Mul34By34"} THEN <<0, 1, 2, 3, 4>> ELSE <<0, 1, 2, 4, 5>>
      prod == TMul(F, k, c, d)
  IN IF Len(e.outs) # 5 THEN {"length"}
     ELSE IF ~AllCanon(e.outs) \/ \E i \in 1..5 : e.outs[i].l # k - 2 THEN {"noncanonical"}
     ELSE IF \E i \in 1..5 : V(e.outs[i]) # G(prod, pos[i]) THEN {"value"} ELSE {}

\* res[i] += alpha * scale[i]; a length mismatch panics (stated by the code's panic message), nothing else does
JudgeMulAcc(e) ==
  LET n == Len(e.res) IN
  IF Len(e.scale) # n THEN (IF Panicked(e) THEN {} ELSE {"nopanic"})
  ELSE IF Panicked(e) THEN {"panic"}
  ELSE (IF Len(e.outs) # n THEN {"length"}
        ELSE IF ~AllCanon(e.outs) THEN {"noncanonical"}
        ELSE IF \E i \in 1..n : V(e.outs[i]) # TAdd(F, 2, V(e.res[i]), TMul(F, 2, A(e,1), TEmbed(F, 2, V(e.scale[i])))) THEN {"value"}
        ELSE {})
       \cup (IF e.scaleafter # e.scale THEN {"mutated"} ELSE {})

JudgeSqrt(e) ==    \* specified when a root exists (the caller is told to test Legendre first)
  IF LegendreX(F, e.L, A(e,1)) = -1 THEN {}
  ELSE IF ~Has(e, "out") \/ ~Canon(e.out) THEN {"noncanonical"}
  ELSE IF TMul(F, e.L, V(e.out), V(e.out)) # A(e,1) THEN {"value"} ELSE {}

\* membership in GT of a cyclotomic element, exactly: z^r = 1 (declared GT elements have been shown to be members already)
InGT(e) == e.args[1] \in gt \/ TExp(F, e.L, A(e,1), ROrder) = Ok(e.L)
JudgeRet(e) ==
  LET want == CASE e.op = "IsZero" -> A(e,1) = Zk(e.L)
                [] e.op = "IsOne" -> A(e,1) = Ok(e.L)
                [] e.op = "Equal" -> A(e,1) = A(e,2)
                [] e.op = "Cmp" -> TCmp(F, e.L, A(e,1), A(e,2))
                [] e.op = "LexicographicallyLargest" -> TLexLargest(F, e.L, A(e,1))
                [] e.op = "Legendre" -> LegendreX(F, e.L, A(e,1))
                [] e.op = "IsInSubGroup" -> InGT(e)
  IN IF ~Has(e, "ret") THEN {"noresult"} ELSE IF e.ret # want THEN {"ret"} ELSE {}
RetOps == {"IsZero", "IsOne", "Equal", "Cmp", "LexicographicallyLargest", "Legendre", "IsInSubGroup"}

JudgeSelect(e) == IF ~Has(e, "out") THEN {"noresult"}
                  ELSE IF e.out # (IF e.c = 0 THEN e.args[1] ELSE e.args[2]) THEN {"value"} ELSE {}

\* Decl: the harness claims membership; the claim is verified here and only then remembered
DeclOk(e) == LET a == e.args[1] IN
  /\ Canon(a) /\ a.l = Top /\ IsCyclo(Top, V(a))
  /\ (e.dom = "gt" => TExp(F, Top, V(a), ROrder) = Ok(Top))

AllOperands(e) == e.args \o (IF Has(e, "wit") THEN (IF e.op = "BatchDecompressKarabina" THEN e.wit ELSE <<e.wit>>) ELSE <<>>)
                         \o (IF Has(e, "scale") THEN e.scale \o e.res ELSE <<>>)

Judge(e) ==
  IF ~AllCanon(AllOperands(e)) THEN {"badinput"}
  ELSE IF e.op = "MulAccE4" THEN JudgeMulAcc(e)
  ELSE IF ~InDomain(e) THEN {}                                       \* outside the documented domain: unspecified
  ELSE IF Panicked(e) THEN {"panic"}
  ELSE Mutation(e) \cup
       (CASE e.op \in ValueOps \/ Has(e, "pi") -> JudgeValue(e)
          [] e.op \in RetOps -> JudgeRet(e)
          [] e.op = "Select" -> JudgeSelect(e)
          [] e.op = "Sqrt" -> JudgeSqrt(e)
          [] e.op = "CyclotomicSquareCompressed" -> JudgeKSquare(e)
          [] e.op = "DecompressKarabina" -> JudgeKDecompress(e)
          [] e.op = "BatchDecompressKarabina" -> JudgeKBatch(e)
          [] e.op = "CompressTorus" -> JudgeCompressTorus(e)
          [] e.op = "BatchCompressTorus" -> JudgeBatchCompressTorus(e)
          [] e.op = "BatchDecompressTorus" -> JudgeBatchDecompressTorus(e)
          [] e.op = "BatchInvert" -> JudgeBatchInvert(e)
          [] e.op \in {"Mul034By034", "Mul34By34", "Mul014By014", "Mul01By01"} -> JudgeSparseBySparse(e)
          [] OTHER -> {"unknown-op"})

Init == KInit /\ cyc = {} /\ gt = {}
Step == /\ HasNext
        /\ LET e == Ev
               isDecl == e.op = "Decl"
               ok == isDecl /\ DeclOk(e)                 \* evaluated once (x^r costs a second at real size)
           IN /\ Advance(IF isDecl THEN (IF ok THEN {} ELSE {"baddecl"}) ELSE Judge(e))
              /\ IF ok THEN /\ cyc' = cyc \cup {e.args[1]}
                            /\ gt' = IF e.dom = "gt" THEN gt \cup {e.args[1]} ELSE gt
                 ELSE UNCHANGED <<cyc, gt>>
Next == Step \/ (Finish /\ UNCHANGED <<cyc, gt>>)
Spec == Init /\ [][Next]_<<l, bad, cyc, gt>>
=============================================================================
