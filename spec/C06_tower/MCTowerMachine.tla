--------------------------- MODULE MCTowerMachine ---------------------------
(* Design-level machine for C06: the cyclotomic subgroup G = G_{Phi_n(p)} of a   *)
(* small tower with the SAME SHAPE as the library's towers                       *)
(*    Shape "E12": Fp2 = Fp[u], Fp6 = Fp2[v]/(v^3 - xi), Fp12 = Fp6[w]/(w^2 - v)  *)
(*    Shape "BW6": Fp3 = Fp[u]/(u^3 - a), Fp6 = Fp3[v]/(v^2 - u)                  *)
(*    Shape "E24": Fp2, Fp4 = Fp2[v]/(v^2-u), Fp12 = Fp4[w]/(w^3-v), Fp24 = Fp12[i]/(i^2-w) *)
(* State: the abstract group element e in Z_Phi (discrete logarithm) and the      *)
(* concrete tower element x.  One action per specialised entry point, computed    *)
(* with the TRANSCRIPTION of the library's formula (TowerCyclo); the invariants   *)
(* say that the concrete state always equals the generic value g^e, i.e. every    *)
(* specialised routine agrees with generic arithmetic on EVERY element of its     *)
(* documented domain (the whole cyclotomic subgroup is reachable: TLC's distinct  *)
(* state count is Phi_n(p) when Bound = 0).                                       *)
(* Variant selects the decompression transcription: "doc" (as documented),        *)
(* "e12code" (branch on g5, what fq12over6over2 generates), "bw6sep" (g0 from the *)
(* input's g4 slot).  The two code variants are REJECTED by TLC: negative tests.  *)
EXTENDS TowerCyclo, CurveParams, TLC

CONSTANTS P, Shape, Variant, Bound      \* Bound = 0: whole group; Bound > 0: only e < Bound (sample)

q == FromInt(P)
Specs == CASE Shape = "E12" /\ P = 7  -> <<L(2, "int", 3), L(3, "gen", 1), L(2, "gen", 0)>>      \* u^2-3, v^3-(u+1), w^2-v
           [] Shape = "E12" /\ P = 11 -> <<L(2, "int", 2), L(3, "gen", 1), L(2, "gen", 0)>>
           [] Shape = "E12" /\ P = 13 -> <<L(2, "int", 2), L(3, "gen", 0), L(2, "gen", 0)>>      \* u^2-2, v^3-u, w^2-v
           [] Shape = "BW6" /\ P = 7  -> <<L(3, "int", 3), L(2, "gen", 0)>>
           [] Shape = "BW6" /\ P = 13 -> <<L(3, "int", 2), L(2, "gen", 0)>>
           [] Shape = "BW6" /\ P = 19 -> <<L(3, "int", 2), L(2, "gen", 0)>>
           [] Shape = "BW6" /\ P = 31 -> <<L(3, "int", 3), L(2, "gen", 0)>>
           [] Shape = "BW6" /\ P = 43 -> <<L(3, "int", 3), L(2, "gen", 0)>>
           [] Shape = "E24" /\ P = 13 -> <<L(2, "int", 2), L(2, "gen", 0), L(3, "gen", 0), L(2, "gen", 0)>>
F == [q |-> q, T |-> MkT(q, Specs, Len(Specs))]
K == Len(Specs)
N == TDegree(F, K)
XP == XPowTable(F)
PhiBig == PhiN(F, K)
Phi == ToInt(PhiBig)
\* generator of G: h^((p^n - 1)/Phi) for a fixed h; full order is witnessed by the distinct-state count
H0 == TAdd(F, K, TAdd(F, K, TGen(F, K), TOne(F, K)), Up(F, K, TGen(F, K-1)))
Gen == TExp(F, K, H0, Div(Pred(QPow(q, N)), PhiBig))
One_ == TOne(F, K)

VARIABLES e, x
vars == <<e, x>>

Sq(y) == TMul(F, K, y, y)
B == K - 2
Junk1 == TEmbed(F, B, FromInt(2))
Junk2 == TEmbed(F, B, FromInt(5))
\* the compressed form handed to the decompression: g1, g2, g3, g5 of y, junk in the g0 and g4 slots
Compressed(c) == S6(<<Junk1, c[1], c[2], c[3], Junk2, c[4]>>)
CompOf(y) == <<G(y,1), G(y,2), G(y,3), G(y,5)>>

Init == e = 0 /\ x = One_
MulGen      == e' = (e + 1) % Phi /\ x' = TMul(F, K, x, Gen)
CycloSquare == e' = (2 * e) % Phi /\ x' = GrangerScott(F, K, x)
KarabinaSq  == e' = (2 * e) % Phi /\ x' = KarabinaDecompress(F, K, Compressed(KarabinaSquare(F, K, x)), Variant)
TorusRT     == e' = e /\ x' = IF x[2] = TZero(F, K-1) THEN x ELSE TorusDecompress(F, K, TorusCompress(F, K, x))
Conj        == e' = (Phi - e) % Phi /\ x' = ConjX(F, XP, K, x)
Frob        == e' = (e * P) % Phi /\ x' = TFrobX(F, XP, K, x)
Next == MulGen \/ CycloSquare \/ KarabinaSq \/ TorusRT \/ Conj \/ Frob
Spec == Init /\ [][Next]_vars
SpecFacts == Init /\ [][UNCHANGED vars]_vars     \* MCTowerFacts.cfg: a single state, GroupFacts evaluated once
InBound == Bound = 0 \/ e < Bound

(* -- invariants ------------------------------------------------------------- *)
\* the concrete state is the generic power of the generator: every action above agreed with generic arithmetic
\* (the generic exponentiations are evaluated on the first Deep elements only: 2-3 ms per level-3 product in TLC)
Deep == 48
Refines == e >= Deep \/ x = TExp(F, K, Gen, FromInt(e))
Closed == InCyclo(F, XP, K, x) /\ (e >= Deep \/ TExp(F, K, x, PhiBig) = One_)
GSCorrect == GrangerScott(F, K, x) = Sq(x)
KSquareCorrect == KarabinaSquare(F, K, x) = CompOf(Sq(x))
\* decompression of the compressed form of EVERY group element (this is where g3 = 0, g5 = 0, g2 = g3 = 0 occur)
KDecompressCorrect == KarabinaDecompress(F, K, Compressed(CompOf(x)), Variant) = x
TorusCorrect == IF x[2] = TZero(F, K-1) THEN x = One_
                ELSE TorusDecompress(F, K, TorusCompress(F, K, x)) = x
FrobCorrect == /\ TFrobX(F, XP, K, x) = TExp(F, K, x, q)
               /\ (e >= Deep \/ ConjX(F, XP, K, x) = TExp(F, K, x, QPow(q, N \div 2)))
               /\ ConjX(F, XP, K, x) = TInv(F, K, x)
\* sparse products against the generic product with the sparse operand written out
C0 == TAdd(F, B, G(x, 1), TOne(F, B))
C3 == G(x, 5)
C4 == TAdd(F, B, G(x, 2), Junk2)
ZB == TZero(F, B)
Y == TMul(F, K, x, H0)                   \* a non-cyclotomic multiplicand
SparseCorrect == /\ MulBy034T(F, K, Y, C0, C3, C4) = TMul(F, K, Y, S6(<<C0, ZB, ZB, C3, C4, ZB>>))
                 /\ MulBy014T(F, K, Y, C0, C3, C4) = TMul(F, K, Y, S6(<<C0, C3, ZB, ZB, C4, ZB>>))
\* facts about the whole group, evaluated once (Bound = 0 only): the powers of Gen are Phi distinct elements, the
\* compression map (g1, g2, g3, g5) is injective on G (a compressed form denotes at most one group element), and the
\* numbers of elements exercising the degenerate decompression branches (printed for the evidence)
GroupFacts ==
  Bound # 0 \/
  LET ps == FoldLeft(LAMBDA acc, i : Append(acc, TMul(F, K, acc[Len(acc)], Gen)), <<One_>>, [i \in 1..(Phi-1) |-> i])
      grp == {ps[i] : i \in 1..Phi}
      n3 == Cardinality({y \in grp : G(y,3) = ZB})
      n5 == Cardinality({y \in grp : G(y,5) = ZB})
      n23 == Cardinality({y \in grp : G(y,3) = ZB /\ G(y,2) = ZB})
  IN /\ PrintT(<<"VERIF_DEGENERATE", Phi, n3, n5, n23>>)
     /\ Cardinality(grp) = Phi
     /\ Cardinality({CompOf(y) : y \in grp}) = Phi
=============================================================================
