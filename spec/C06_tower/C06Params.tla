------------------------------ MODULE C06Params ------------------------------
(* Frozen parameters of property C06, transcribed BY HAND from the documentation:  *)
(*  - extension towers of the small fields (field/<f>/extensions/doc.go):            *)
(*      koalabear  Fr2 = Fr[u]/(u^2-3),  Fr4 = Fr2[v]/(v^2-u)                         *)
(*      babybear   Fr2 = Fr[u]/(u^2-11), Fr4 = Fr2[v]/(v^2-u)                         *)
(*      goldilocks Fr2 = Fr[u]/(u^2-7)                                                *)
(*  - the seeds x0 of the pairing curves (package doc of ecc/<curve>) and the         *)
(*    exponents of the fixed-exponent routines as NAMED in their doc comments          *)
(*    (Expt = x^t, ExptHalf = x^(t/2), ExptMinus1 = x^(t-1), ..., Expc1/Expc2):        *)
(*      bn254 4965661367192848881, bls12-377 9586122913090633729,                      *)
(*      bls12-381 -15132376222941642752, bls24-315 -3218079743, bls24-317 3640754176,  *)
(*      bw6-633 -3218079743, bw6-761 9586122913090633729.                              *)
(*    (The decimal values quoted in bw6-761/e6_pairing.go for t-1, t and t+1 are      *)
(*    inconsistent with the seed - they are (t-1)^2-1, (t-1)^2, (t-1)^2+1 -; the       *)
(*    symbolic names and the package seed are taken as the documentation.)             *)
(* Nothing here is read from /repo at check time.                                      *)
EXTENDS CurveParams

SmallTowerSpec(name) ==
  CASE name = "koalabear"  -> <<L(2, "int", 3), L(2, "gen", 0)>>
    [] name = "babybear"   -> <<L(2, "int", 11), L(2, "gen", 0)>>
    [] name = "goldilocks" -> <<L(2, "int", 7)>>
SmallCtx(name) == LET q == FieldP(name).q
                  IN [q |-> q, T |-> MkT(q, SmallTowerSpec(name), Len(SmallTowerSpec(name)))]

FixedExpOps == {"Expt", "ExptHalf", "ExptMinus1", "ExptPlus1", "ExptMinus1Div3", "ExptMinus1Square", "ExptMinus1Squared",
                "ExptSquarePlus1", "Expc1", "Expc2"}
FixedExp(ctx, op) ==
  CASE
     ctx = "bn254" /\ op = "Expt" -> [neg |-> FALSE, mag |-> <<2545, 5330, 19153, 10060, 4>>]   \* 4965661367192848881
  [] ctx = "bls12-377" /\ op = "Expt" -> [neg |-> FALSE, mag |-> <<1, 0, 0, 10310, 8>>]   \* 9586122913090633729
  [] ctx = "bls12-381" /\ op = "Expt" -> [neg |-> TRUE, mag |-> <<0, 2, 0, 4104, 13>>]   \* -15132376222941642752
  [] ctx = "bls12-381" /\ op = "ExptHalf" -> [neg |-> TRUE, mag |-> <<0, 1, 0, 18436, 6>>]   \* -7566188111470821376
  [] ctx = "bls24-315" /\ op = "Expt" -> [neg |-> TRUE, mag |-> <<32767, 32671, 2>>]   \* -3218079743
  [] ctx = "bls24-317" /\ op = "Expt" -> [neg |-> FALSE, mag |-> <<0, 12803, 3>>]   \* 3640754176
  [] ctx = "bls24-317" /\ op = "ExptHalf" -> [neg |-> FALSE, mag |-> <<16384, 22785, 1>>]   \* 1820377088
  [] ctx = "bw6-633" /\ op = "Expt" -> [neg |-> TRUE, mag |-> <<32767, 32671, 2>>]   \* -3218079743
  [] ctx = "bw6-633" /\ op = "ExptMinus1" -> [neg |-> TRUE, mag |-> <<0, 32672, 2>>]   \* -3218079744
  [] ctx = "bw6-633" /\ op = "ExptMinus1Squared" -> [neg |-> FALSE, mag |-> <<0, 0, 9216, 32192, 8>>]   \* 10356037238743105536
  [] ctx = "bw6-633" /\ op = "ExptPlus1" -> [neg |-> TRUE, mag |-> <<32766, 32671, 2>>]   \* -3218079742
  [] ctx = "bw6-633" /\ op = "ExptSquarePlus1" -> [neg |-> FALSE, mag |-> <<2, 192, 9210, 32192, 8>>]   \* 10356037232306946050
  [] ctx = "bw6-633" /\ op = "ExptMinus1Div3" -> [neg |-> TRUE, mag |-> <<0, 32736>>]   \* -1072693248
  [] ctx = "bw6-633" /\ op = "Expc1" -> [neg |-> TRUE, mag |-> <<3>>]   \* -3
  [] ctx = "bw6-633" /\ op = "Expc2" -> [neg |-> FALSE, mag |-> <<13>>]   \* 13
  [] ctx = "bw6-761" /\ op = "Expt" -> [neg |-> FALSE, mag |-> <<1, 0, 0, 10310, 8>>]   \* 9586122913090633729
  [] ctx = "bw6-761" /\ op = "ExptMinus1" -> [neg |-> FALSE, mag |-> <<0, 0, 0, 10310, 8>>]   \* 9586122913090633728
  [] ctx = "bw6-761" /\ op = "ExptMinus1Square" -> [neg |-> FALSE, mag |-> <<0, 0, 0, 0, 0, 0, 29476, 4363, 69>>]   \* 91893752504881257682351033800651177984
  [] ctx = "bw6-761" /\ op = "ExptPlus1" -> [neg |-> FALSE, mag |-> <<2, 0, 0, 10310, 8>>]   \* 9586122913090633730
  [] ctx = "bw6-761" /\ op = "ExptMinus1Div3" -> [neg |-> FALSE, mag |-> <<0, 0, 0, 25282, 2>>]   \* 3195374304363544576
  [] ctx = "bw6-761" /\ op = "Expc1" -> [neg |-> FALSE, mag |-> <<11>>]   \* 11
  [] ctx = "bw6-761" /\ op = "Expc2" -> [neg |-> FALSE, mag |-> <<103>>]   \* 103
=============================================================================
