SPECIFICATION Spec
CONSTANT ReaderMode = "readfull"
CONSTANT Primes = {17}
CONSTANT LogSel = {0, 1, 2, 3, 4}
INVARIANTS Agree Undone DomainOK SpecRoundTrip CobraOK ChunksOK ReadBackOK SerializeOK
CHECK_DEADLOCK FALSE
