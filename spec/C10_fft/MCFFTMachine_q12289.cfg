SPECIFICATION Spec
CONSTANT ReaderMode = "readfull"
CONSTANT Primes = {12289}
CONSTANT LogSel = {11}
INVARIANTS Agree Undone DomainOK SpecRoundTrip CobraOK ChunksOK ReadBackOK SerializeOK
CHECK_DEADLOCK FALSE
