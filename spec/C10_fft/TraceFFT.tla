------------------------------ MODULE TraceFFT ------------------------------
(* Trace validation for C10.  The harness drives the real <field>/fft package  *)
(* and logs one event per public call (NewDomain, FFT, FFTInverse, BitReverse, *)
(* WriteTo, ReadFrom, table accessors) with raw observations: Montgomery limbs *)
(* of every output element, returned counts, error strings, panics.  This      *)
(* module replays the log on the abstract machine of FFTMachine (Part 1: what   *)
(* the property demands) and judges every reply.  Rejected events are          *)
(* accumulated in `bad`, the machine always continues from the SPECIFIED       *)
(* successor state.                                                            *)
(*                                                                             *)
(* Machine state: one variable mach = [doms, vecs, bad] (a single record so that   *)
(* TLC evaluates the outcome of an event once); mach.bad = reasons of the last *)
(* event.                                                                      *)
(*   doms  domain register -> [ok, nb, n, w, s, pre]  (nb: cardinality as a    *)
(*         BigNat, n: the same as an Int or -1 above 2^30, w: generator,       *)
(*         s: coset shift, pre: precompute flag; ok = FALSE: unusable)         *)
(*   vecs  vector register -> sequence of field values                         *)
EXTENDS TraceKernel, FFTMachine, FFTParams

VARIABLE mach
doms == mach.doms
vecs == mach.vecs

F == Hdr.field
P == FieldP(F)
FP == FFTP(F)
q == P.q
R == Shl(One, P.w * P.n)
Rinv == InvMod(MulMod(R, One, q), q)      \* (MulMod: the accelerated reduction)
val(raw) == MulMod(raw, Rinv, q)
Canon(raw) == InField(q, raw)
B == (P.w * P.n) \div 8                  \* fr.Bytes
SL == StreamLen(B)

NoDom == [ok |-> FALSE]
Init == KInit /\ mach = [bad |-> {}, doms |-> [i \in 0..7 |-> NoDom], vecs |-> [i \in 0..3 |-> <<>>]]

Vals(v) == [i \in 1..Len(v) |-> val(v[i])] \o <<>>
AllCanon(v) == \A i \in 1..Len(v) : Canon(v[i])

SmallN(nb) == IF BitLen(nb) <= 30 THEN ToInt(nb) ELSE -1
NextPow2Nat(m) == IF Le(m, One) THEN One ELSE Shl(One, BitLen(Pred(m)))
\* the full record of a domain register (the inverses are determined by n, w, s)
Full(D) == [n |-> D.n, w |-> D.w, wi |-> FInv(q, D.w), ci |-> FInv(q, FRed(q, D.nb)), s |-> D.s, si |-> FInv(q, D.s), pre |-> D.pre]
PrimitiveOfOrder(g, nb) ==
  /\ PowMod(g, nb, q) = One
  /\ (Lt(One, nb) => PowMod(g, Shr(nb, 1), q) = Pred(q))

\* the six exported fields of a Domain as logged (raw limbs), against a domain register
FieldReasons(e, D) ==
  IF ~(Canon(e.cinv) /\ Canon(e.gen) /\ Canon(e.geninv) /\ Canon(e.fmg) /\ Canon(e.fmginv)) THEN {"noncanonical"}
  ELSE LET FD == Full(D) IN
       (IF e.card # D.nb THEN {"card"} ELSE {})
       \cup (IF val(e.cinv) # FD.ci THEN {"cardinv"} ELSE {})
       \cup (IF val(e.gen) # FD.w THEN {"generator"} ELSE {})
       \cup (IF val(e.geninv) # FD.wi THEN {"geninv"} ELSE {})
       \cup (IF val(e.fmg) # FD.s THEN {"shift"} ELSE {})
       \cup (IF val(e.fmginv) # FD.si THEN {"shiftinv"} ELSE {})

Out(b, d, v) == [bad |-> b, doms |-> d, vecs |-> v]
Same(b) == Out(b, doms, vecs)

(* ---------------------------------------------------------------------- *)
\* NewDomain(m, WithShift(shift)?, WithoutPrecompute()?)
NewDomainOutcome(e) ==
  LET nb     == NextPow2Nat(e.m)
      tooBig == Lt(Shl(One, FP.k), nb)                  \* beyond the two-adicity no such domain exists
      logn   == BitLen(nb) - 1
      wSpec  == RootOfOrder(F, logn)
      sGiven == Has(e, "shift")
  IN IF tooBig THEN Out(IF Panicked(e) THEN {} ELSE {"nopanic"}, [doms EXCEPT ![e.d] = NoDom], vecs)
     ELSE IF Panicked(e) THEN Out({"panic"}, [doms EXCEPT ![e.d] = NoDom], vecs)
     ELSE IF ~(Canon(e.cinv) /\ Canon(e.gen) /\ Canon(e.geninv) /\ Canon(e.fmg) /\ Canon(e.fmginv)
               /\ (sGiven => Canon(e.shift)))
          THEN Out({"noncanonical"}, [doms EXCEPT ![e.d] = NoDom], vecs)
     ELSE LET g    == val(e.gen)
              gOK  == PrimitiveOfOrder(g, nb)             \* ANY primitive root of order n is a correct generator
              s    == val(e.fmg)
              \* the shift is the given one, else a generator of F_q^* (checked: non-zero non-residue)
              sOK  == IF sGiven THEN s = val(e.shift) ELSE (s # Zero /\ FLegendre(q, s) = -1)
              D    == [ok |-> TRUE, nb |-> nb, n |-> SmallN(nb),
                       w |-> IF gOK THEN g ELSE wSpec,
                       s |-> IF sOK THEN s ELSE IF sGiven THEN val(e.shift) ELSE FRed(q, FromInt(FP.mgen)),
                       pre |-> e.pre]
              bad0 == (IF gOK THEN {} ELSE {"generator"}) \cup (IF sOK THEN {} ELSE {"shift"})
          IN Out(bad0 \cup (FieldReasons(e, D) \ {"generator", "shift"}), [doms EXCEPT ![e.d] = D], vecs)

(* ---------------------------------------------------------------------- *)
LoadOutcome(e) ==
  IF e.op = "Load"
  THEN Out(IF AllCanon(e.vec) THEN {} ELSE {"harness-badload"}, doms, [vecs EXCEPT ![e.v] = Vals(e.vec)])
  ELSE \* LoadSparse: n entries, zero except idx[k] (0-based) |-> vals[k]
       LET x == [i \in 1..e.n |-> IF \E k \in 1..Len(e.idx) : e.idx[k] = i-1
                                  THEN val(e.vals[CHOOSE k \in 1..Len(e.idx) : e.idx[k] = i-1]) ELSE Zero] \o <<>>
       IN Out(IF AllCanon(e.vals) THEN {} ELSE {"harness-badload"}, doms, [vecs EXCEPT ![e.v] = x])

\* Copy register s to register v (the transforms work in place)
CopyOutcome(e) == Out({}, doms, [vecs EXCEPT ![e.v] = vecs[e.s]])

(* ---------------------------------------------------------------------- *)
\* a vector reply against the expected values
VecReasons(e, expected) ==
  IF Panicked(e) THEN {"panic"}
  ELSE IF Len(e.out) # Len(expected) THEN {"length"}
  ELSE IF ~AllCanon(e.out) THEN {"noncanonical"}
  ELSE IF Vals(e.out) # expected THEN {"value"} ELSE {}

\* Domain.FFT / Domain.FFTInverse (a, dec, OnCoset()?, WithNbTasks(nbt)?)
TransformOutcome(e) ==
  LET D == doms[e.d]
      a == vecs[e.v]
  IN IF ~D.ok \/ D.n < 1 \/ Len(a) # D.n THEN Same({"harness-precondition"})
     ELSE LET expected == IF e.op = "FFT" THEN FFTSpec(q, D, a, e.dec, e.coset)
                          ELSE FFTInverseSpec(q, D, a, e.dec, e.coset)
          IN Out(VecReasons(e, expected), doms, [vecs EXCEPT ![e.v] = expected])

(* ---------------------------------------------------------------------- *)
\* BitReverse(v): the documented precondition is a power-of-two length, anything else must panic
BitReverseOutcome(e) ==
  LET a == vecs[e.v] IN
  IF ~IsPow2(Len(a)) THEN Same(IF Panicked(e) THEN {} ELSE {"nopanic"})
  ELSE LET expected == BitReverseSpec(a) IN Out(VecReasons(e, expected), doms, [vecs EXCEPT ![e.v] = expected])

\* BitReverse on the vector whose entry i has the raw limb value i, applied once or twice; the
\* reply lists the limb value found at every position (outi) or at the sampled positions pos (got)
BitReverseIdxOutcome(e) ==
  LET k == e.logn
      want(i) == IF e.twice THEN i ELSE RevBits(i, k)
  IN IF Panicked(e) THEN Same({"panic"})
     ELSE IF e.op = "BitReverseIdx"
          THEN Same(IF Len(e.outi) # Pow2(k) THEN {"length"}
                    ELSE IF e.outi # (IF e.twice THEN [i \in 1..Pow2(k) |-> i - 1] \o <<>> ELSE RevTable(k)) THEN {"value"} ELSE {})
          ELSE Same(IF Len(e.got) # Len(e.pos) THEN {"length"}
                    ELSE IF \E j \in 1..Len(e.pos) : e.got[j] # want(e.pos[j]) THEN {"value"} ELSE {})

(* ---------------------------------------------------------------------- *)
\* Domain.WriteTo(w)
WriteToOutcome(e) ==
  LET D == doms[e.d] IN
  IF ~D.ok THEN Same({"harness-precondition"})
  ELSE IF Panicked(e) THEN Same({"panic"})
  ELSE Same((IF Has(e, "err") THEN {"err"} ELSE {})
            \cup (IF e.n # SL THEN {"count"} ELSE {})
            \cup (IF e.bytes # DomainBytesNB(D.nb, Full(D), B) THEN {"bytes"} ELSE {}))

\* Domain.ReadFrom(r): r delivers `stream` in pieces ending at the positions `bounds`
ReadFromOutcome(e) ==
  LET L == Len(e.stream) IN
  IF Panicked(e) THEN Out({"panic"}, [doms EXCEPT ![e.d] = NoDom], vecs)
  ELSE IF L < SL
       THEN \* truncated stream: the error must be reported (its text and the count are not specified)
            Out(IF Has(e, "err") THEN {} ELSE {"swallowed-error"}, [doms EXCEPT ![e.d] = NoDom], vecs)
  ELSE IF ~ParseCanonical(q, e.stream, B)
       THEN \* an element encoding >= q: the property is silent; an error or canonical fields are both accepted
            Out(IF Has(e, "err") \/ (Canon(e.cinv) /\ Canon(e.gen) /\ Canon(e.geninv) /\ Canon(e.fmg) /\ Canon(e.fmginv))
                THEN {} ELSE {"noncanonical"}, [doms EXCEPT ![e.d] = NoDom], vecs)
  ELSE \* a complete, valid stream: the same domain from ANY reader, exactly SL bytes consumed
       LET p == Parse(e.stream, B)
           D == [ok |-> TRUE, nb |-> p.nb, n |-> SmallN(p.nb), w |-> p.w, s |-> p.s, pre |-> p.pre]
           \* the register holds what the stream says (the stream's own inverses are compared field by field)
           fields == IF ~(Canon(e.cinv) /\ Canon(e.gen) /\ Canon(e.geninv) /\ Canon(e.fmg) /\ Canon(e.fmginv))
                     THEN {"noncanonical"}
                     ELSE IF e.card # p.nb \/ val(e.cinv) # p.ci \/ val(e.gen) # p.w \/ val(e.geninv) # p.wi
                             \/ val(e.fmg) # p.s \/ val(e.fmginv) # p.si THEN {"value"} ELSE {}
       IN Out((IF Has(e, "err") THEN {"err"} ELSE fields)
              \cup (IF ~Has(e, "err") /\ e.n # SL THEN {"count"} ELSE {})
              \cup (IF ~Has(e, "err") /\ e.consumed # SL THEN {"consumed"} ELSE {}),
              [doms EXCEPT ![e.d] = D], vecs)

\* the exported fields of a domain register, re-read after it has been used (read-only argument of FFT)
DomainFieldsOutcome(e) ==
  LET D == doms[e.d] IN
  IF ~D.ok THEN Same({"harness-precondition"}) ELSE Same(FieldReasons(e, D))

\* Twiddles(), TwiddlesInv(), CosetTable(), CosetTableInv(): the documented contents, or an error when
\* the domain was built without precomputation
TablesOutcome(e) ==
  LET D == doms[e.d]
      FD == Full(D)
      k == Log2(D.n)
      TwOK(t, root) == /\ Len(t) = k
                       /\ \A i \in 1..k : /\ Len(t[i]) = 1 + Pow2(k - i)
                                          /\ AllCanon(t[i])
                                          /\ \A j \in 1..Len(t[i]) : val(t[i][j]) = PowMod(root, FromInt((j-1) * Pow2(i-1)), q)
      CoOK(t, c) == /\ Len(t) = D.n /\ AllCanon(t)
                    /\ \A j \in 1..Len(t) : val(t[j]) = PowMod(c, FromInt(j-1), q)
  IN IF ~D.ok \/ D.n < 1 THEN Same({"harness-precondition"})
     ELSE IF Panicked(e) THEN Same({"panic"})
     ELSE IF ~D.pre THEN Same(IF e.errs = 4 THEN {} ELSE {"noerror"})
     ELSE IF e.errs # 0 THEN Same({"err"})
     ELSE Same((IF TwOK(e.tw, FD.w) THEN {} ELSE {"twiddles"}) \cup (IF TwOK(e.twinv, FD.wi) THEN {} ELSE {"twiddlesinv"})
               \cup (IF CoOK(e.coset, FD.s) THEN {} ELSE {"cosettable"}) \cup (IF CoOK(e.cosetinv, FD.si) THEN {} ELSE {"cosettableinv"}))

\* number of data-race reports of the race-detector build of the harness
RaceOutcome(e) == Same(IF e.count = 0 THEN {} ELSE {"race"})

Outcome(e) ==
  CASE e.op = "NewDomain"    -> NewDomainOutcome(e)
    [] e.op \in {"Load", "LoadSparse"} -> LoadOutcome(e)
    [] e.op = "Copy"         -> CopyOutcome(e)
    [] e.op \in {"FFT", "FFTInverse"} -> TransformOutcome(e)
    [] e.op = "BitReverse"   -> BitReverseOutcome(e)
    [] e.op \in {"BitReverseIdx", "BitReverseSample"} -> BitReverseIdxOutcome(e)
    [] e.op = "WriteTo"      -> WriteToOutcome(e)
    [] e.op = "ReadFrom"     -> ReadFromOutcome(e)
    [] e.op = "DomainFields" -> DomainFieldsOutcome(e)
    [] e.op = "Tables"       -> TablesOutcome(e)
    [] e.op = "RaceReport"   -> RaceOutcome(e)
    [] OTHER                 -> Same({"unknown-op"})

Step == /\ HasNext
        /\ mach' = Outcome(Ev)
        /\ Advance(mach'.bad)

Next == Step \/ (Finish /\ UNCHANGED mach)
Spec == Init /\ [][Next]_<<l, bad, mach>>
=============================================================================
