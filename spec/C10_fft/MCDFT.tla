------------------------------- MODULE MCDFT -------------------------------
(* Model checking of the DFT library (spec/lib/DFT.tla, Poly.tla) at small    *)
(* primes: the definitions used as the oracle of C10 are the intended         *)
(* mathematical objects, and the radix-2 evaluation used at large sizes       *)
(* equals the definition.  Every state is one (q, n, w, s, x); there are no   *)
(* transitions: the invariants are evaluated on each of them.                 *)
(*   q = 5        : ALL vectors of length 1, 2, 4, ALL primitive roots, shifts *)
(*   q = 13       : all vectors over {0,1,2,5,7,12} of length 1, 2, 4          *)
(*   q = 17, 97, 257 : lengths 8..256: all scaled basis vectors, a dense      *)
(*                  ramp and sums of two basis vectors                        *)
(* (states with ph = 0 are the (q, n, w, s) choices, their successors add x)  *)
EXTENDS DFT, TLC

Cases == { <<5, 1>>, <<5, 2>>, <<5, 4>>, <<13, 1>>, <<13, 2>>, <<13, 4>>, <<17, 8>>, <<17, 16>>,
           <<97, 32>>, <<257, 64>>, <<257, 256>> }

VARIABLES qi, n, w, s, x, ph
vars == <<qi, n, w, s, x, ph>>
q == FromInt(qi)
El(v) == FromInt(v % qi)

Basis(m, j, c) == [i \in 1..m |-> IF i = j THEN c ELSE Zero]
Ramp(m) == [i \in 1..m |-> El(i * i + 3)]

\* sl: slice 0..7 of the vector set (spreads the work over TLC's workers)
VectorsOf(p, m, sl) ==
  IF p <= 13
  THEN [1..m -> {FromInt(v) : v \in (IF p = 5 THEN 0..4 ELSE {0, 1, 2, 5, 7, 12})}]
  ELSE LET J == {j \in 1..m : j % 8 = sl} IN
       IF m <= 32
       THEN {Basis(m, j, FromInt(c)) : j \in J, c \in {1, 2, p-1}} \cup (IF sl = 0 THEN {Ramp(m)} ELSE {})
            \cup {[i \in 1..m |-> IF i = j THEN One ELSE IF i = m + 1 - j THEN FromInt(3) ELSE Zero] : j \in J}
       ELSE {Basis(m, j, FromInt(c)) : j \in J \cap {1, 2, 3, m \div 2, m \div 2 + 1, m - 1, m}, c \in {1, p-1}}
            \cup (IF sl = 0 THEN {Ramp(m)} ELSE {})

Roots(p, m) == LET all == {FromInt(v) : v \in 1..(p-1)}
                   prim == {r \in all : IsPrimitiveRoot(FromInt(p), r, m)}
               IN IF m <= 4 THEN prim ELSE {CHOOSE r \in prim : TRUE}

Init == /\ \E c \in Cases : qi = c[1] /\ n = c[2]
        /\ w \in Roots(qi, n)
        /\ s \in (IF qi = 5 THEN {FromInt(v) : v \in 1..4} ELSE IF qi = 13 THEN {FromInt(2)} ELSE {FromInt(2), FromInt(qi - 2)})
        /\ x \in (IF qi <= 13 THEN {<<FromInt(v)>> : v \in (IF qi = 5 THEN 0..4 ELSE {0, 1, 2, 5, 7, 12})} ELSE {<<sl>> : sl \in 0..7})   \* first coordinate / slice
        /\ ph = 0
Next == /\ ph = 0 /\ ph' = 1
        /\ x' \in (IF qi <= 13 THEN {v \in VectorsOf(qi, n, 0) : v[1] = x[1]} ELSE VectorsOf(qi, n, x[1]))
        /\ UNCHANGED <<qi, n, w, s>>
Spec == Init /\ [][Next]_vars

Small == n <= 32
On(P) == ph = 1 => P       \* the quadratic definitions are evaluated up to here

TypeOK0 == IsPow2(n) /\ Len(x) = n /\ IsPrimitiveRoot(q, w, n)

\* the inverse definitions are inverse to the forward definitions (both compositions)
InverseLaw0 ==
  Small => /\ IDFTDef(q, w, DFTDef(q, w, x)) = x
           /\ DFTDef(q, w, IDFTDef(q, w, x)) = x
           /\ CosetIDFTDef(q, w, s, CosetDFTDef(q, w, s, x)) = x
           /\ CosetDFTDef(q, w, s, CosetIDFTDef(q, w, s, x)) = x

\* the coset transform is the plain transform of p(sX)
CosetLaw0 == Small => CosetDFTDef(q, w, s, x) = DFTDef(q, w, PolyScaleArg(q, x, s))

\* radix-2 recursion = definition
FastLaw0 ==
  /\ (Small => (FastDFT(q, w, x) = DFTDef(q, w, x) /\ FastIDFT(q, w, x) = IDFTDef(q, w, x)))
  /\ FastIDFT(q, w, FastDFT(q, w, x)) = x
  /\ DFT(q, w, x) = FastDFT(q, w, x) /\ IDFT(q, w, x) = FastIDFT(q, w, x)
  /\ CosetIDFT(q, w, s, CosetDFT(q, w, s, x)) = x
  /\ (Small => (CosetDFT(q, w, s, x) = CosetDFTDef(q, w, s, x) /\ CosetIDFT(q, w, s, x) = CosetIDFTDef(q, w, s, x)))

\* on a basis vector c*e_j the transform is the j-th column of the Fourier matrix: c * w^(i*j)
BasisLaw0 ==
  \A j \in 1..n :
     (x = Basis(n, j, x[j])) =>
        FastDFT(q, w, x) = [i \in 1..n |-> FMul(q, x[j], PowMod(w, FromInt((i-1) * (j-1)), q))]

BitRevLaw0 ==
  LET k == Log2(n) IN
  /\ BitRevPerm(BitRevPerm(x)) = x
  /\ \A i \in 0..(n-1) : RevBits(i, k) \in 0..(n-1) /\ RevBits(RevBits(i, k), k) = i
  /\ RevTable(k) = [i \in 1..n |-> RevBits(i-1, k)]
  /\ BitRevPerm(x) = [i \in 1..n |-> x[RevBits(i-1, k) + 1]]
  /\ NextPow2(n) = n /\ (n > 2 => NextPow2(n - 1) = n) /\ (n > 1 => NextPow2(n + 1) = 2 * n)

\* PowTable and Horner agree with PowMod
PolyLaw0 ==
  /\ PowTable(q, w, n) = [i \in 1..n |-> PowMod(w, FromInt(i-1), q)]
  /\ PowTable(q, s, n + 1) = [i \in 1..(n+1) |-> PowMod(s, FromInt(i-1), q)]
  /\ PolyEval(q, x, Zero) = x[1]
  /\ PolyEval(q, x, One) = FSum(q, x)
TypeOK == On(TypeOK0)
InverseLaw == On(InverseLaw0)
CosetLaw == On(CosetLaw0)
FastLaw == On(FastLaw0)
BasisLaw == On(BasisLaw0)
BitRevLaw == On(BitRevLaw0)
PolyLaw == On(PolyLaw0)
=============================================================================
