---------------------------- MODULE MCFFTParams ----------------------------
(* Validates the frozen FFT parameter records (FFTParams.tla) of the 10        *)
(* FFT-capable fields: k is the two-adicity of q-1, root has exact order 2^k,  *)
(* the documented multiplicative generator is a non-residue, and the derived   *)
(* generators have the exact order of their domain.  One state per field.      *)
EXTENDS FFTParams, DFT, TLC

VARIABLE name
Init == name \in FFTFieldNames
Next == UNCHANGED name
Spec == Init /\ [][Next]_name

ParamsOK == FFTParamsOKFor(name)
RootsOK ==
  LET qq == FieldP(name).q
      k  == FFTP(name).k
  IN \A logn \in {0, 1, 2, 5, 8, k - 1, k} :
       LET w  == RootOfOrder(name, logn)
           nb == Shl(One, logn)
       IN /\ PowMod(w, nb, qq) = One
          /\ (logn > 0 => PowMod(w, Shr(nb, 1), qq) = Pred(qq))
=============================================================================
