SPECIFICATION Spec
CONSTANT ReaderMode = "readfull"
CONSTANT Primes = {257}
CONSTANT LogSel = {5, 6, 7}
INVARIANTS Agree Undone DomainOK SpecRoundTrip CobraOK ChunksOK ReadBackOK SerializeOK
CHECK_DEADLOCK FALSE
