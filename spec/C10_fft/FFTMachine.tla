----------------------------- MODULE FFTMachine -----------------------------
(* The FFT component of gnark-crypto (<field>/fft: domain.go, fft.go,           *)
(* bitreverse.go, options.go) as operators on abstract values.                  *)
(*                                                                              *)
(* Part 1  what the PROPERTY demands of every reply (FFTSpec, FFTInverseSpec,   *)
(*         BitReverseSpec, the serialisation format and its inverse): these     *)
(*         judge the real code in TraceFFT.                                     *)
(* Part 2  what the CODE does (Algo...): the recursive radix-2 DIF/DIT with    *)
(*         unrolled kernels, twiddle tables or on-the-fly twiddles below stage  *)
(*         3, the chunked parallel loops of parallel.Execute with their         *)
(*         `at = c^start` restarts, coset scaling with bit-reversed table       *)
(*         access, BuildExpTable's chunking, the naive and the COBRA bit        *)
(*         reversal, ReadFrom over a chunked reader.  MCFFTMachine model-checks *)
(*         Part 2 against Part 1 at small primes.                               *)
(*                                                                              *)
(* A domain is a record  [n, w, wi, ci, s, si, pre]:  cardinality (Int), the    *)
(* generator of the subgroup and its inverse, 1/n, the coset shift and its      *)
(* inverse, the precompute flag.  Field elements are BigNat values in [0,q).    *)
(* Vectors are sequences; code index i is sequence index i+1.                   *)
EXTENDS DFT

(* ======================= Part 1: the property =========================== *)

\* Forward transform: the evaluations of the input polynomial on <w> (coset: on s<w>).
\* DIF: natural-order input, bit-reversed output.  DIT: bit-reversed input, natural output.
FFTSpec(q, D, a, dec, coset) ==
  LET x == IF dec = "DIT" THEN BitRevPerm(a) ELSE a
      y == IF coset THEN CosetDFT(q, D.w, D.s, x) ELSE DFT(q, D.w, x)
  IN IF dec = "DIF" THEN BitRevPerm(y) ELSE y

\* Inverse transform: the coefficients of the polynomial taking the given values, same ordering rule.
FFTInverseSpec(q, D, a, dec, coset) ==
  LET y == IF dec = "DIT" THEN BitRevPerm(a) ELSE a
      x == IF coset THEN CosetIDFT(q, D.w, D.s, y) ELSE IDFT(q, D.w, y)
  IN IF dec = "DIF" THEN BitRevPerm(x) ELSE x

BitReverseSpec(v) == BitRevPerm(v)

\* NewDomain(m, shift?, precompute): cardinality NextPow2(m); ANY primitive root of that order is a
\* correct generator; the shift is the given one or the documented generator of F_q^*.
MkDomain(q, n, w, s, pre) ==
  [n |-> n, w |-> w, wi |-> FInv(q, w), ci |-> FInv(q, FRed(q, FromInt(n))), s |-> s, si |-> FInv(q, s), pre |-> pre]

DomainConsistent(q, D) ==
  /\ IsPow2(D.n)
  /\ IsPrimitiveRoot(q, D.w, D.n)
  /\ FMul(q, D.w, D.wi) = One
  /\ FMul(q, D.ci, FRed(q, FromInt(D.n))) = One
  /\ InField(q, D.s) /\ D.s # Zero /\ FMul(q, D.s, D.si) = One

\* WriteTo: cardinality as 8 big-endian bytes, the five elements as B-byte big-endian canonical
\* values in the order CardinalityInv, Generator, GeneratorInv, FrMultiplicativeGen,
\* FrMultiplicativeGenInv, then one byte for the precompute flag.
DomainBytesNB(nb, D, B) ==
  ToBytesBE(nb, 8) \o ToBytesBE(D.ci, B) \o ToBytesBE(D.w, B) \o ToBytesBE(D.wi, B)
    \o ToBytesBE(D.s, B) \o ToBytesBE(D.si, B) \o <<IF D.pre THEN 1 ELSE 0>>
DomainBytes(D, B) == DomainBytesNB(FromInt(D.n), D, B)
StreamLen(B) == 8 + 5 * B + 1

\* The reading of a complete stream (what ReadFrom must produce whatever the reader's chunking).
\* nb is the cardinality as a BigNat (it may exceed 2^31 in a stream).
Parse(bytes, B) ==
  LET el(k) == FromBytesBE(SubSeq(bytes, 8 + (k-1)*B + 1, 8 + k*B))
  IN [nb |-> FromBytesBE(SubSeq(bytes, 1, 8)),
      ci |-> el(1), w |-> el(2), wi |-> el(3), s |-> el(4), si |-> el(5),
      pre |-> bytes[8 + 5*B + 1] # 0]
ParseCanonical(q, bytes, B) ==
  LET p == Parse(bytes, B) IN \A x \in {p.ci, p.w, p.wi, p.s, p.si} : Lt(x, q)

(* ======================= Part 2: the code =============================== *)

ClampTasks(t) == IF t < 1 THEN 1 ELSE IF t > 512 THEN 512 ELSE t

\* internal/parallel.Execute(n, work, tasks): the <<start, end>> ranges handed to the workers
Chunks(n, tasks) ==
  LET t0 == ClampTasks(tasks) IN
  IF t0 = 1 THEN << <<0, n>> >>
  ELSE LET per0  == n \div t0
           T     == IF per0 < 1 THEN n ELSE t0
           per   == IF per0 < 1 THEN 1 ELSE per0
           extra == n - T * per
       IN [i \in 1..T |-> LET off == IF i-1 < extra THEN i-1 ELSE extra
                              st  == (i-1) * per + off
                          IN <<st, st + per + (IF i-1 < extra THEN 1 ELSE 0)>>]

\* the ranges are non-empty, contiguous and cover 0..n-1 exactly once: concurrent workers write disjoint indices
ChunksPartition(n, tasks) ==
  LET c == Chunks(n, tasks) IN
  /\ Len(c) >= 1 /\ c[1][1] = 0 /\ c[Len(c)][2] = n
  /\ \A i \in 1..Len(c) : c[i][1] < c[i][2]
  /\ \A i \in 1..(Len(c)-1) : c[i][2] = c[i+1][1]

RECURSIVE FlattenR(_,_,_)
FlattenR(ss, i, acc) == IF i > Len(ss) THEN acc ELSE FlattenR(ss, i+1, acc \o ss[i])
Flatten(ss) == FlattenR(ss, 1, <<>>)

\* `at.Exp(c, start); at.Mul(at, k0); for i in start..end-1 { a[i] *= at; at *= c }` in every chunk
ChunkedGeom(q, a, c, k0, chunks) ==
  Flatten([j \in 1..Len(chunks) |->
             LET st  == chunks[j][1]
                 en  == chunks[j][2]
                 at0 == FMul(q, PowMod(c, FromInt(st), q), k0)
             IN [i \in 1..(en - st) |-> FMul(q, a[st + i], FMul(q, at0, PowMod(c, FromInt(i-1), q)))]])

\* BuildExpTable(w, table of length n) on a machine with ncpu CPUs: table[0] = 1, the rest in chunks of
\* `interval` entries each restarted with Exp(w, start) (or one sequential chunk below the ratio 6000/17)
ExpTable(q, w, n, ncpu) ==
  LET interval == IF ncpu >= 4 THEN (n - 1) \div (ncpu \div 4) ELSE 0
      start(i) == IF interval < 352 THEN 1 ELSE 1 + ((i - 1) \div interval) * interval
  IN [i1 \in 1..n |-> IF i1 = 1 THEN One
                      ELSE LET i == i1 - 1 IN FMul(q, PowMod(w, FromInt(start(i)), q), PowMod(w, FromInt(i - start(i)), q))] \o <<>>

\* buildTwiddles(t, omega, nbStages): t[0] = powers of omega (1 + 2^(nbStages-1) entries), t[i][j] = t[0][j * 2^i]
Twiddles(q, omega, nbStages, ncpu) ==
  IF nbStages = 0 THEN <<>>
  ELSE LET t0 == ExpTable(q, omega, 1 + Pow2(nbStages - 1), ncpu)
       IN [i \in 1..nbStages |-> [j \in 1..(1 + Pow2(nbStages - i)) |-> t0[(j-1) * Pow2(i-1) + 1]] \o <<>>] \o <<>>

\* the factor applied to a[i+m], i = 0..m-1, when the twiddles are computed on the fly
FactorsSeq(q, w, m) == [i1 \in 1..m |-> IF i1 = 1 THEN One ELSE PowMod(w, FromInt(i1 - 1), q)] \o <<>>
FactorsPar(q, w, m, chunks) ==
  Flatten([j \in 1..Len(chunks) |->
             LET st0 == chunks[j][1]
                 en  == chunks[j][2]
                 st  == IF st0 = 0 THEN 1 ELSE st0            \* index 0 is a plain butterfly, then start++
                 at0 == PowMod(w, FromInt(st), q)              \* at.Exp(w, start)
             IN (IF st0 = 0 THEN <<One>> ELSE <<>>) \o
                [i \in 1..(en - st) |-> FMul(q, at0, PowMod(w, FromInt(i-1), q))]])

\* kerDIFNP_32 / kerDIFNP_256 (generic): the log(n) butterfly levels unrolled, twiddles[st+level]
RECURSIVE KerDIFR(_,_,_,_,_,_)
KerDIFR(q, a, tw, st, s, k) ==
  IF s = k THEN a
  ELSE LET blk  == Pow2(k - s)
           half == blk \div 2
           T    == tw[st + s + 1]
           a2   == [idx \in 1..Len(a) |->
                      LET o == ((idx-1) \div blk) * blk
                          i == (idx-1) % blk
                      IN IF i < half THEN FAdd(q, a[o+i+1], a[o+i+half+1])
                         ELSE LET j == i - half
                                  d == FSub(q, a[o+j+1], a[o+i+1])
                              IN IF j = 0 \/ half = 1 THEN d ELSE FMul(q, d, T[j+1])] \o <<>>
       IN KerDIFR(q, a2, tw, st, s+1, k)
KerDIF(q, a, tw, st) == KerDIFR(q, a, tw, st, 0, Log2(Len(a)))

RECURSIVE KerDITR(_,_,_,_,_,_)
KerDITR(q, a, tw, st, s, k) ==       \* s runs from k-1 (pairs) down to 0 (the whole block)
  IF s < 0 THEN a
  ELSE LET blk  == Pow2(k - s)
           half == blk \div 2
           T    == tw[st + s + 1]
           hi(o, j) == IF j = 0 \/ half = 1 THEN a[o+j+half+1] ELSE FMul(q, a[o+j+half+1], T[j+1])
           a2   == [idx \in 1..Len(a) |->
                      LET o == ((idx-1) \div blk) * blk
                          i == (idx-1) % blk
                      IN IF i < half THEN FAdd(q, a[o+i+1], hi(o, i))
                         ELSE FSub(q, a[o+(i-half)+1], hi(o, i-half))] \o <<>>
       IN KerDITR(q, a2, tw, st, s-1, k)
KerDIT(q, a, tw, st) == KerDITR(q, a, tw, st, Log2(Len(a)) - 1, Log2(Len(a)))

\* cfg: [tss |-> twiddlesStartStage, ms |-> maxSplits, nbt |-> nbTasks, kers |-> kernel sizes]
StageFactors(q, w, tw, cfg, stage, m) ==
  IF stage < cfg.tss
  THEN IF m > 16 /\ stage < cfg.ms
       THEN FactorsPar(q, w, m, Chunks(m, cfg.nbt \div Pow2(stage)))
       ELSE FactorsSeq(q, w, m)
  ELSE tw[stage - cfg.tss + 1]

RECURSIVE Dif(_,_,_,_,_,_)
Dif(q, a, w, tw, cfg, stage) ==
  LET n == Len(a) IN
  IF n = 1 THEN a
  ELSE IF stage >= cfg.tss /\ n \in cfg.kers THEN KerDIF(q, a, tw, stage - cfg.tss)
  ELSE LET m  == n \div 2
           F  == StageFactors(q, w, tw, cfg, stage, m)
           lo == [i \in 1..m |-> FAdd(q, a[i], a[i+m])] \o <<>>
           hi == [i \in 1..m |-> IF i = 1 THEN FSub(q, a[i], a[i+m])
                                 ELSE FMul(q, FSub(q, a[i], a[i+m]), F[i])] \o <<>>
           w2 == IF stage < cfg.tss THEN FSquare(q, w) ELSE w
       IN IF m = 1 THEN lo \o hi
          ELSE Dif(q, lo, w2, tw, cfg, stage + 1) \o Dif(q, hi, w2, tw, cfg, stage + 1)

RECURSIVE Dit(_,_,_,_,_,_)
Dit(q, a, w, tw, cfg, stage) ==
  LET n == Len(a) IN
  IF n = 1 THEN a
  ELSE IF stage >= cfg.tss /\ n \in cfg.kers THEN KerDIT(q, a, tw, stage - cfg.tss)
  ELSE LET m   == n \div 2
           w2  == FSquare(q, w)
           lo0 == Dit(q, SubSeq(a, 1, m), w2, tw, cfg, stage + 1)
           hi0 == Dit(q, SubSeq(a, m+1, n), w2, tw, cfg, stage + 1)
           F   == StageFactors(q, w, tw, cfg, stage, m)
           t   == [i \in 1..m |-> IF i = 1 THEN hi0[i] ELSE FMul(q, hi0[i], F[i])] \o <<>>
       IN ([i \in 1..m |-> FAdd(q, lo0[i], t[i])] \o <<>>) \o ([i \in 1..m |-> FSub(q, lo0[i], t[i])] \o <<>>)

RunCfg(D, nbTasks, kers) ==
  LET nbt == ClampTasks(nbTasks) IN
  [tss |-> IF D.pre THEN 0 ELSE 3,
   ms  |-> IF nbt = 1 THEN -1 ELSE Log2(NextPow2(nbt)),
   nbt |-> nbt, kers |-> kers]

\* twiddle tables of a run: the stored ones, or rebuilt from stage 3 on (root^8) without precompute
RunTwiddles(q, D, root, ncpu) ==
  LET nbStages == Log2(D.n) IN
  IF D.pre THEN Twiddles(q, root, nbStages, ncpu)
  ELSE IF nbStages - 3 > 0 THEN Twiddles(q, PowMod(root, FromInt(8), q), nbStages - 3, ncpu)
  ELSE <<>>

\* Domain.FFT(a, dec, OnCoset?, WithNbTasks(nbTasks))
AlgoFFT(q, D, a, dec, coset, nbTasks, ncpu, kers) ==
  LET n   == Len(a)
      nbt == ClampTasks(nbTasks)
      k   == Log2(n)
      a1  == IF ~coset THEN a
             ELSE IF dec = "DIT"
                  THEN LET tab == ExpTable(q, D.s, n, ncpu)      \* the stored cosetTable or one rebuilt per call
                       IN [i \in 1..n |-> FMul(q, a[i], tab[RevBits(i-1, k) + 1])] \o <<>>
                  ELSE IF D.pre
                       THEN LET tab == ExpTable(q, D.s, D.n, ncpu) IN [i \in 1..n |-> FMul(q, a[i], tab[i])] \o <<>>
                       ELSE ChunkedGeom(q, a, D.s, One, Chunks(n, nbt))
      tw  == RunTwiddles(q, D, D.w, ncpu)
      cfg == RunCfg(D, nbTasks, kers)
  IN IF dec = "DIF" THEN Dif(q, a1, D.w, tw, cfg, 0) ELSE Dit(q, a1, D.w, tw, cfg, 0)

\* Domain.FFTInverse(a, dec, OnCoset?, WithNbTasks(nbTasks))
AlgoFFTInverse(q, D, a, dec, coset, nbTasks, ncpu, kers) ==
  LET n   == Len(a)
      nbt == ClampTasks(nbTasks)
      k   == Log2(n)
      tw  == RunTwiddles(q, D, D.wi, ncpu)
      cfg == RunCfg(D, nbTasks, kers)
      b   == IF dec = "DIF" THEN Dif(q, a, D.wi, tw, cfg, 0) ELSE Dit(q, a, D.wi, tw, cfg, 0)
  IN IF ~coset THEN [i \in 1..n |-> FMul(q, b[i], D.ci)] \o <<>>
     ELSE IF dec = "DIT"
          THEN IF D.pre
               THEN LET tab == ExpTable(q, D.si, D.n, ncpu)
                    IN [i \in 1..n |-> FMul(q, FMul(q, b[i], tab[i]), D.ci)] \o <<>>
               ELSE ChunkedGeom(q, b, D.si, D.ci, Chunks(n, nbt))
          ELSE LET tab == ExpTable(q, D.si, n, ncpu)
               IN [i \in 1..n |-> FMul(q, FMul(q, b[i], tab[RevBits(i-1, k) + 1]), D.ci)] \o <<>>

\* bitReverseNaive: for i in 0..n-1: if rev(i) > i then swap
RECURSIVE BitReverseNaiveR(_,_,_)
BitReverseNaiveR(v, i, k) ==
  IF i = Len(v) THEN v
  ELSE LET r == RevBits(i, k)
       IN BitReverseNaiveR(IF r > i THEN [v EXCEPT ![i+1] = v[r+1], ![r+1] = v[i+1]] ELSE v, i+1, k)
AlgoBitReverseNaive(v) == BitReverseNaiveR(v, 0, Log2(Len(v)))

\* bitReverseCobraInPlace with tile size 2^lt (the code uses lt = 9 for n = 2^21..2^27 and
\* deriveLogTileSize above that): three passes per middle-bits value b through the tile buffer t.
\* The loops run over all tile*tile index pairs in the code's order; the state is <<v, t>>.
AlgoBitReverseCobra(v0, lt) ==
  LET logN   == Log2(Len(v0))
      logB   == logN - 2 * lt
      bLen   == Pow2(logB)
      bShift == logB + lt
      tile   == Pow2(lt)
      idxOf(a, b, c) == a * Pow2(bShift) + b * tile + c
      bRev(b) == RevBits(b, logB) * tile
      \* pass 1: t[rev(a) << lt | c] = v[idx(a,b,c)]
      P1(v, b) ==
        [i \in 1..(tile*tile) |->
           LET ar == (i-1) \div tile   c == (i-1) % tile
           IN v[idxOf(RevBits(ar, lt), b, c) + 1]] \o <<>>
      \* pass 2: for c, aRev: a = rev(aRev); if idx < idxRev: swap(v[idxRev], t[aRev << lt | c])
      Step2(vt, b, c, ar) ==
        LET idx    == idxOf(RevBits(ar, lt), b, c)
            idxRev == RevBits(c, lt) * Pow2(bShift) + bRev(b) + ar
            tI     == ar * tile + c
        IN IF idx < idxRev
           THEN << [vt[1] EXCEPT ![idxRev + 1] = vt[2][tI + 1]], [vt[2] EXCEPT ![tI + 1] = vt[1][idxRev + 1]] >>
           ELSE vt
      \* pass 3: for a, c: if idx < idxRev: swap(v[idx], t[rev(a) << lt | c])
      Step3(vt, b, a, c) ==
        LET idx    == idxOf(a, b, c)
            idxRev == RevBits(c, lt) * Pow2(bShift) + bRev(b) + RevBits(a, lt)
            tI     == RevBits(a, lt) * tile + c
        IN IF idx < idxRev
           THEN << [vt[1] EXCEPT ![idx + 1] = vt[2][tI + 1]], [vt[2] EXCEPT ![tI + 1] = vt[1][idx + 1]] >>
           ELSE vt
      RECURSIVE Loop2(_,_,_)
      Loop2(vt, b, i) == IF i = tile * tile THEN vt ELSE Loop2(Step2(vt, b, i \div tile, i % tile), b, i + 1)
      RECURSIVE Loop3(_,_,_)
      Loop3(vt, b, i) == IF i = tile * tile THEN vt ELSE Loop3(Step3(vt, b, i \div tile, i % tile), b, i + 1)
      RECURSIVE Rounds(_,_)
      Rounds(v, b) == IF b = bLen THEN v ELSE Rounds(Loop3(Loop2(<<v, P1(v, b)>>, b, 0), b, 0)[1], b + 1)
  IN Rounds(v0, 0)

\* deriveLogTileSize
RECURSIVE DeriveLT(_,_)
DeriveLT(logN, t) == IF logN - 2 * t <= 0 THEN DeriveLT(logN, t - 1) ELSE t

(* ---- ReadFrom over a chunked reader ---- *)
\* A reader delivers `data` in pieces: bounds is the set of positions where a piece ends (Len(data) included).
\* mode "readfull": every item is read with io.ReadFull (the design that makes the property hold);
\* mode "read":     the five elements are read with ONE Read call each, which stops at the end of
\*                  the current piece (what domain.go does; the negative self-test shows it breaks the property).
PieceEnd(pos, bounds, total) ==
  LET later == {b \in bounds : b > pos} IN
  IF later = {} THEN total ELSE CHOOSE b \in later : \A c \in later : b <= c

\* returns [err, n, pos, D]; items consumed sequentially.  q bounds the canonical encodings.
AlgoReadFrom(q, data, bounds, B, mode) ==
  LET total == Len(data)
      \* element k (1..5) read at position pos: <<ok, value, newpos>>
      ReadEl(pos) ==
        IF mode = "readfull"
        THEN IF pos + B <= total THEN <<TRUE, FromBytesBE(SubSeq(data, pos+1, pos+B)), pos + B>>
             ELSE <<FALSE, Zero, pos>>
        ELSE IF pos >= total THEN <<FALSE, Zero, pos>>
             ELSE LET e   == PieceEnd(pos, bounds, total)
                      got == IF e - pos < B THEN e - pos ELSE B
                  IN <<TRUE, FromBytesBE(SubSeq(data, pos+1, pos+got) \o [z \in 1..(B-got) |-> 0]), pos + got>>
      e1 == ReadEl(8)
      e2 == ReadEl(e1[3])
      e3 == ReadEl(e2[3])
      e4 == ReadEl(e3[3])
      e5 == ReadEl(e4[3])
      Fail(cnt) == [err |-> TRUE, n |-> cnt, nb |-> Zero, ci |-> Zero, w |-> Zero, wi |-> Zero, s |-> Zero, si |-> Zero, pre |-> FALSE]
      bad(e) == ~e[1] \/ ~Lt(e[2], q)
  IN IF total < 8 THEN Fail(0)
     ELSE IF bad(e1) THEN Fail(8)
     ELSE IF bad(e2) THEN Fail(8 + B)
     ELSE IF bad(e3) THEN Fail(8 + 2*B)
     ELSE IF bad(e4) THEN Fail(8 + 3*B)
     ELSE IF bad(e5) THEN Fail(8 + 4*B)
     ELSE IF e5[3] + 1 > total THEN Fail(8 + 5*B)
     ELSE [err |-> FALSE, n |-> 8 + 5*B + 1, nb |-> FromBytesBE(SubSeq(data, 1, 8)),
           ci |-> e1[2], w |-> e2[2], wi |-> e3[2], s |-> e4[2], si |-> e5[2],
           pre |-> data[e5[3] + 1] # 0]
=============================================================================
