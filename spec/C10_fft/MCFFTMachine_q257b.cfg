SPECIFICATION Spec
CONSTANT ReaderMode = "readfull"
CONSTANT Primes = {257}
CONSTANT LogSel = {8}
INVARIANTS Agree Undone DomainOK SpecRoundTrip CobraOK ChunksOK ReadBackOK SerializeOK
CHECK_DEADLOCK FALSE
