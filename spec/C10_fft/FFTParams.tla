----------------------------- MODULE FFTParams -----------------------------
(* Frozen FFT parameters of the 10 FFT-capable fields, written once from the    *)
(* documented constants of <field>/generator.go (rootOfUnity, maxOrderRoot) and *)
(* <field>/fft/domain.go (GeneratorFullMultiplicativeGroup):                     *)
(*   k     two-adicity of q-1 (largest log-size of a domain)                     *)
(*   root  an element of exact order 2^k                                         *)
(*   mgen  the documented generator of the full multiplicative group             *)
(* Not re-read from the tree at check time. MCFFTParams re-validates the records *)
(* (exact order of root, maximality of k, mgen is a non-residue) in TLC.         *)
EXTENDS FieldParams, PolyFFT

FFTFieldNames == {"bls12-377/fr", "bls12-381/fr", "bls24-315/fr", "bls24-317/fr", "bn254/fr", "bw6-633/fr", "bw6-761/fr", "koalabear", "babybear", "goldilocks"}
FFTP(name) ==
  CASE
     name = "bls12-377/fr" -> [k |-> 47, mgen |-> 22, root |-> <<2398, 22613, 21139, 15223, 1188, 31870, 14552, 10295, 12187, 20802, 24390, 13475, 5644, 9624, 814, 23547, 4564>>]
  [] name = "bls12-381/fr" -> [k |-> 32, mgen |-> 7, root |-> <<3371, 1854, 23677, 16716, 2963, 1104, 21539, 6977, 13494, 4135, 25739, 23360, 3337, 996, 14330, 20687, 5794>>]
  [] name = "bls24-315/fr" -> [k |-> 22, mgen |-> 7, root |-> <<23328, 17550, 1101, 17965, 32619, 24923, 21577, 30589, 26491, 19653, 14968, 29937, 28195, 10823, 21521, 26156, 1014>>]
  [] name = "bls24-317/fr" -> [k |-> 60, mgen |-> 7, root |-> <<10679, 25021, 28832, 32666, 26425, 29552, 20799, 20214, 6780, 23243, 29995, 11376, 9122, 3486, 546, 30909, 9356>>]
  [] name = "bn254/fr" -> [k |-> 28, mgen |-> 5, root |-> <<6640, 25782, 28089, 24240, 27977, 8741, 18320, 5768, 15424, 27733, 11835, 1343, 20494, 20432, 10594, 1272, 10812>>]
  [] name = "bw6-633/fr" -> [k |-> 20, mgen |-> 13, root |-> <<14641, 30205, 3397, 16766, 31698, 26401, 7723, 9501, 9560, 5051, 8129, 427, 10895, 24968, 11655, 4931, 15537, 2996, 11254, 16883, 2450>>]
  [] name = "bw6-761/fr" -> [k |-> 46, mgen |-> 15, root |-> <<14753, 2759, 243, 30291, 15415, 24513, 4289, 28549, 17926, 16369, 10295, 27850, 19268, 21626, 20804, 28717, 16635, 31030, 11199, 4676, 3861, 20486, 18018, 5890, 13993>>]
  [] name = "koalabear" -> [k |-> 24, mgen |-> 3, root |-> <<8072, 21897, 1>>]
  [] name = "babybear" -> [k |-> 27, mgen |-> 31, root |-> <<31297, 13444>>]
  [] name = "goldilocks" -> [k |-> 32, mgen |-> 7, root |-> <<1932, 13489, 10099, 17073, 1>>]

FFTParamsOKFor(name) ==
  LET q == FieldP(name).q
      p == FFTP(name)
      twoK == Shl(One, p.k)
  IN /\ MulMod(Pred(q), One, twoK) = Zero                    \* 2^k divides q-1 (MulMod: the accelerated reduction)
     /\ MulMod(Pred(q), One, Shl(One, p.k + 1)) # Zero       \* 2^(k+1) does not: k is the two-adicity
     /\ InField(q, p.root)
     /\ PowMod(p.root, Shr(twoK, 1), q) = Pred(q)            \* root^(2^(k-1)) = -1: exact order 2^k
     /\ FLegendre(q, FRed(q, FromInt(p.mgen))) = -1           \* necessary for a generator of F_q^*

\* the library's generator of the subgroup of order 2^logn (logn <= k)
RootOfOrder(name, logn) == LET p == FFTP(name) IN PowMod(p.root, Shl(One, p.k - logn), FieldP(name).q)
=============================================================================
