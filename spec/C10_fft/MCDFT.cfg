SPECIFICATION Spec
INVARIANTS TypeOK InverseLaw CosetLaw FastLaw BasisLaw BitRevLaw PolyLaw
CHECK_DEADLOCK FALSE
