SPECIFICATION Spec
CONSTANT ReaderMode = "read"
CONSTANT Primes = {257}
CONSTANT LogSel = {5}
INVARIANTS ReadBackOK
CHECK_DEADLOCK FALSE
