---------------------------- MODULE MCFFTMachine ----------------------------
(* Exhaustive model checking of the FFT machine at small primes.               *)
(*                                                                             *)
(* State: the prime, one domain register, one vector register computed by the  *)
(* transcription of the CODE (FFTMachine Part 2: vec), the same register       *)
(* computed by the PROPERTY's definitions (Part 1: ref, a ghost), the vector   *)
(* loaded first (orig, a ghost), the history of operations since the load,     *)
(* the serialised domain and the result of reading it back through a chunked   *)
(* reader.  One action per public entry point: NewDomain, FFT, FFTInverse,     *)
(* BitReverse, WriteTo, ReadFrom (Load is the environment writing the vector). *)
(*                                                                             *)
(* The thresholds are the real ones (kernels of 32 and 256 points, butterfly   *)
(* threshold 16, twiddles on the fly below stage 3, BuildExpTable ratio 352),  *)
(* so q = 257 (domains up to 256 points) and q = 12289 (2048 points) reach the *)
(* same code paths as the cryptographic fields.                                *)
EXTENDS FFTMachine, TLC

CONSTANTS ReaderMode,      \* "readfull" (the design) | "read" (what domain.go does: negative self-test)
          Primes,          \* subset of {17, 257, 12289} (one TLC run per prime, run concurrently by vlib/c10.py)
          LogSel           \* the log-sizes of this run (a set; splits the work at q = 257)

NoDom == [n |-> 0]
NoRead == [given |-> -1]

VARIABLES qi, dom, vec, ref, orig, hist, ser, rd
vars == <<qi, dom, vec, ref, orig, hist, ser, rd>>
q == FromInt(qi)

\* two-adicity, an element of exact order 2^k, the default shift (a non-residue), bytes per element
Adicity == CASE qi = 17 -> 4 [] qi = 257 -> 8 [] qi = 12289 -> 12
Root == CHOOSE r \in {FromInt(v) : v \in 2..(qi-1)} : IsPrimitiveRoot(q, r, Pow2(Adicity))
DefaultShift == CASE qi = 17 -> FromInt(3) [] qi = 257 -> FromInt(3) [] qi = 12289 -> FromInt(11)
B == IF qi = 17 THEN 1 ELSE 2
NCPU == IF qi = 12289 THEN 16 ELSE 4
Kers == IF qi = 17 THEN {32, 256} ELSE IF qi = 257 THEN {32, 256} ELSE {256}     \* 31-bit fields have no 32-point kernel

LogSizes == (CASE qi = 17 -> 0..4 [] qi = 257 -> 5..8 [] qi = 12289 -> {11}) \cap LogSel
Shifts   == IF qi = 17 THEN {DefaultShift, FromInt(5)} ELSE {DefaultShift}
Pres     == IF qi = 12289 THEN {FALSE} ELSE BOOLEAN
Tasks(D) == IF qi = 12289 THEN {8}
            ELSE IF D.pre THEN {1, 4}
            ELSE IF qi = 17 THEN {1, 2, 3, 512}
            ELSE IF D.n = 64 THEN {1, 2, 3, 4, 7, 8, 16, 64, 512} ELSE IF D.n = 256 THEN {1, 2, 5, 16, 512} ELSE {1, 3, 8}
Cosets == IF qi = 12289 THEN {TRUE} ELSE BOOLEAN

El(v) == FromInt(v % qi)
Basis(m, j, c) == [i \in 1..m |-> IF i = j THEN c ELSE Zero]
Ramp(m) == [i \in 1..m |-> El(i * i + 3)]
Iota(m) == [i \in 1..m |-> El(i)]
Inputs(m) ==
  IF qi = 17 THEN {Basis(m, j, One) : j \in 1..m} \cup {Basis(m, m, FromInt(16)), Ramp(m), Iota(m)}
  ELSE IF qi = 257 THEN {Basis(m, 2, One), Ramp(m), Iota(m)}
  ELSE {Ramp(m)}

Decs == {"DIF", "DIT"}
Other(dec) == IF dec = "DIF" THEN "DIT" ELSE "DIF"

Init == /\ qi \in Primes
        /\ dom = NoDom /\ vec = <<>> /\ ref = <<>> /\ orig = <<>> /\ hist = <<>> /\ ser = <<>> /\ rd = NoRead

\* NewDomain(2^k, WithShift(s)?, WithoutPrecompute()?)
NewDomain(k, s, pre) ==
  /\ dom = NoDom
  /\ dom' = MkDomain(q, Pow2(k), PowMod(Root, FromInt(Pow2(Adicity - k)), q), s, pre)
  /\ UNCHANGED <<qi, vec, ref, orig, hist, ser, rd>>

Load(x) ==
  /\ dom # NoDom /\ vec = <<>> /\ ser = <<>>
  /\ vec' = x /\ ref' = x /\ orig' = x
  /\ UNCHANGED <<qi, dom, hist, ser, rd>>

CanOp == dom # NoDom /\ Len(vec) = dom.n /\ Len(hist) < 2
\* at the larger primes the identity ramp is only there for the bit-reversal actions
CanFFT == CanOp /\ (qi = 17 \/ orig # Iota(dom.n))
\* the second operation of a history is the one that must undo the first
\* (IF, not \/: TLC explores both sides of a disjunction inside an action)
Undoes(o) == IF hist = <<>> THEN TRUE
             ELSE IF hist[1].op = "BitReverse" THEN FALSE
             ELSE o.op # hist[1].op /\ o.dec = Other(hist[1].dec) /\ o.coset = hist[1].coset

FFT(dec, coset, nbt) ==
  LET o == [op |-> "FFT", dec |-> dec, coset |-> coset, nbt |-> nbt] IN
  /\ CanFFT /\ Undoes(o)
  /\ vec' = AlgoFFT(q, dom, vec, dec, coset, nbt, NCPU, Kers)
  /\ ref' = FFTSpec(q, dom, ref, dec, coset)
  /\ hist' = Append(hist, o)
  /\ UNCHANGED <<qi, dom, orig, ser, rd>>

FFTInverse(dec, coset, nbt) ==
  LET o == [op |-> "FFTInverse", dec |-> dec, coset |-> coset, nbt |-> nbt] IN
  /\ CanFFT /\ Undoes(o)
  /\ vec' = AlgoFFTInverse(q, dom, vec, dec, coset, nbt, NCPU, Kers)
  /\ ref' = FFTInverseSpec(q, dom, ref, dec, coset)
  /\ hist' = Append(hist, o)
  /\ UNCHANGED <<qi, dom, orig, ser, rd>>

BitReverse ==
  /\ CanOp /\ dom.n <= 256 /\ (IF hist = <<>> THEN TRUE ELSE hist[1].op = "BitReverse")
  /\ vec' = AlgoBitReverseNaive(vec)
  /\ ref' = BitReverseSpec(ref)
  /\ hist' = Append(hist, [op |-> "BitReverse"])
  /\ UNCHANGED <<qi, dom, orig, ser, rd>>

WriteTo ==
  /\ dom # NoDom /\ vec = <<>> /\ ser = <<>>
  /\ ser' = DomainBytes(dom, B)
  /\ UNCHANGED <<qi, dom, vec, ref, orig, hist, rd>>

\* the reader's pieces: every uniform piece size and every split into two pieces
Chunkings(total) == {{b \in 1..total : b % c = 0 \/ b = total} : c \in 1..total} \cup {{b, total} : b \in 1..(total-1)}
Cuts(total) == {total, 0, 7, 8, 9, 8 + B, 8 + 5*B - 1, 8 + 5*B}

ReadFrom(bounds, cut) ==
  /\ ser # <<>> /\ rd = NoRead
  /\ rd' = [given |-> cut, r |-> AlgoReadFrom(q, SubSeq(ser, 1, cut), {b \in bounds : b <= cut}, B, ReaderMode)]
  /\ UNCHANGED <<qi, dom, vec, ref, orig, hist, ser>>

Next ==
  \/ \E k \in LogSizes, s \in Shifts, pre \in Pres : NewDomain(k, s, pre)
  \/ (dom # NoDom /\ \E x \in Inputs(dom.n) : Load(x))
  \/ (dom # NoDom /\ \E dec \in Decs, coset \in Cosets, nbt \in Tasks(dom) : FFT(dec, coset, nbt) \/ FFTInverse(dec, coset, nbt))
  \/ BitReverse
  \/ WriteTo
  \/ (ser # <<>> /\ \E bounds \in Chunkings(Len(ser)), cut \in Cuts(Len(ser)) : ReadFrom(bounds, cut))
Spec == Init /\ [][Next]_vars

(* ------------------------------ properties ------------------------------ *)

\* the code computes what the property demands, after every operation
Agree == vec = ref

\* FFTInverse undoes FFT (and vice versa) for the opposite decimation and the same coset option, whatever the
\* task counts; BitReverse twice is the identity
Undone == Len(hist) = 2 => ref = orig /\ vec = orig

DomainOK == dom # NoDom => DomainConsistent(q, dom)

\* at the level of the definitions, for every decimation and coset option (evaluated on freshly loaded vectors)
SpecRoundTrip ==
  (hist = <<>> /\ vec # <<>> /\ Len(vec) <= 256) =>
     \A dec \in Decs, coset \in BOOLEAN :
        /\ FFTInverseSpec(q, dom, FFTSpec(q, dom, vec, dec, coset), Other(dec), coset) = vec
        /\ FFTSpec(q, dom, FFTInverseSpec(q, dom, vec, dec, coset), Other(dec), coset) = vec
        \* same decimation on both sides needs the explicit permutation in between
        /\ BitRevPerm(FFTInverseSpec(q, dom, BitRevPerm(FFTSpec(q, dom, vec, dec, coset)), dec, coset)) = vec

\* the COBRA bit reversal (used from 2^21 points on) is the same permutation, for every admissible tile size
CobraOK ==
  (hist = <<>> /\ vec # <<>> /\ vec = Iota(Len(vec)) /\ Len(vec) >= 8 /\ Len(vec) <= 256) =>
     LET logN == Log2(Len(vec)) IN
     /\ \A lt \in 1..((logN - 1) \div 2) : AlgoBitReverseCobra(vec, lt) = BitRevPerm(vec)
     /\ DeriveLT(logN, 9) \in 1..((logN - 1) \div 2)

\* parallel.Execute hands out disjoint, covering ranges for every task count
ChunksOK ==
  (dom # NoDom /\ vec = <<>> /\ ser = <<>> /\ dom.n <= 256) =>
     \A t \in 1..520 : \A st \in 0..Log2(dom.n) : ChunksPartition(dom.n \div Pow2(st), t)

\* a complete stream is read back as the domain that was written, from every reader; a truncated one is an error
ReadBackOK ==
  rd # NoRead =>
     IF rd.given < Len(ser) THEN rd.r.err
     ELSE /\ ~rd.r.err /\ rd.r.n = Len(ser)
          /\ rd.r.nb = FromInt(dom.n) /\ rd.r.ci = dom.ci /\ rd.r.w = dom.w /\ rd.r.wi = dom.wi
          /\ rd.r.s = dom.s /\ rd.r.si = dom.si /\ rd.r.pre = dom.pre

SerializeOK ==
  ser # <<>> => /\ Len(ser) = StreamLen(B)
                /\ ParseCanonical(q, ser, B)
                /\ LET p == Parse(ser, B) IN p.nb = FromInt(dom.n) /\ p.w = dom.w /\ p.s = dom.s /\ p.pre = dom.pre
=============================================================================
