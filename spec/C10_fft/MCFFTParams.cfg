SPECIFICATION Spec
INVARIANTS ParamsOK RootsOK
CHECK_DEADLOCK FALSE
