SPECIFICATION Spec
CONSTANTS
  ShortCopyGuard = TRUE
  C4Zero = FALSE
  SignByAnd = TRUE
  CopyDomain = TRUE
  MaxDepth = 4
  Part = "svdw"
INVARIANTS CodeValid Refines
PROPERTIES FunctionsStateless
CHECK_DEADLOCK FALSE
