------------------------------ MODULE TraceH2C ------------------------------
(* Trace validation for C13: replays the ndjson logs of the real gnark-crypto      *)
(* code (harness/c13.go) against the machine HashToCurve / the definitions H2C     *)
(* (RFC 9380), event by event.  Header field `kind`:                               *)
(*   "xmd"  hash.ExpandMsgXmd                                                      *)
(*   "h2f"  <field>.Hash of the field named in the header, and the hash.Hash       *)
(*          wrapper hash_to_field.New (the only stateful object: hdom, hbuf)       *)
(*   "h2c"  one group of one curve: MapToCurve, MapToG, EncodeTo, HashTo and the   *)
(*          exported helpers of ecc/<curve>/hash_to_curve                          *)
(* Reasons a reply is rejected for:                                                *)
(*   panic, swallowed-error (inadmissible parameters answered without error),      *)
(*   spurious-error, value / value-x (not the RFC 9380 value), length,             *)
(*   noncanonical (coordinate or element not reduced), offcurve, notinsubgroup,    *)
(*   sign (sgn0(y) # sgn0(u)), nondeterministic (same input, other output),        *)
(*   mutated (a read-only argument changed), rfc-vector (published vector not      *)
(*   reproduced), no-image (the RFC map is undefined at this input for the         *)
(*   documented Z), nopanic (Sum of a hasher with an inadmissible domain is        *)
(*   documented to panic), ret, state                                              *)
(* What is compared by value: everything of "xmd"/"h2f"; MapToCurve of every       *)
(* group (x by the RFC formulas from the documented Z, y by y^2 = g(x) and the     *)
(* sign rule); the whole pipeline where the suite is `exact` (no isogeny and       *)
(* cofactor 1: bn254 G1, secp256k1, grumpkin, stark-curve; BLS12-381 G1/G2 with    *)
(* the RFC isogenies and h_eff).  For the other groups MapToG / EncodeTo / HashTo  *)
(* are judged by validity (on the curve, in the prime-order subgroup, same output  *)
(* twice) - the property does not fix their cofactor clearing / isogeny.           *)
(* Error texts are never compared, only presence.                                  *)
EXTENDS TraceKernel, HashToCurve, H2CSuites, C13Vectors

VARIABLES nexc          \* coverage: number of MapToCurve / MapToG events whose input the specification classifies exceptional
tvars == <<hdom, hbuf, nexc>>

Kind == Hdr.kind
IsErr(e) == Has(e, "err")
Mut(e, a, b) == IF Has(e, b) /\ e[a] # e[b] THEN {"mutated"} ELSE {}

-----------------------------------------------------------------------------
(* kind "xmd" *)
JudgeXmd(e) ==
  IF Panicked(e) THEN {"panic"}
  ELSE (IF XmdAborts(e.dst, e.len)
        THEN (IF IsErr(e) THEN {} ELSE {"swallowed-error"})
        ELSE IF IsErr(e) THEN {"spurious-error"}
        ELSE IF Len(e.out) # e.len THEN {"length"}
        ELSE IF e.out # Xmd(e.msg, e.dst, e.len) THEN {"value"} ELSE {})
       \cup Mut(e, "msg", "msgafter") \cup Mut(e, "dst", "dstafter")

-----------------------------------------------------------------------------
(* kind "h2f" *)
FP == FieldP(Hdr.field)
FQ == FP.q
FRinv == InvMod(Rem(Shl(One, FP.w * FP.n), FQ), FQ)
FVal(raw) == MulMod(raw, FRinv, FQ)

JudgeHash(e) ==
  IF Panicked(e) THEN {"panic"}
  ELSE (IF H2FAborts(FP.bits, e.dst, e.count)
        THEN (IF IsErr(e) THEN {} ELSE {"swallowed-error"})
        ELSE IF IsErr(e) THEN {"spurious-error"}
        ELSE IF Len(e.out) # e.count THEN {"length"}
        ELSE IF \E i \in 1..e.count : ~(IsNat(e.out[i]) /\ Lt(e.out[i], FQ)) THEN {"noncanonical"}
        ELSE LET want == HashToField(FQ, FP.bits, e.msg, e.dst, e.count)
             IN IF \E i \in 1..e.count : FVal(e.out[i]) # want[i] THEN {"value"} ELSE {})
       \cup Mut(e, "msg", "msgafter") \cup Mut(e, "dst", "dstafter")

JudgeHasher(e) ==
  CASE e.op = "HNew" -> IF Panicked(e) THEN {"panic"} ELSE {}
    [] e.op = "HWrite" -> IF Panicked(e) THEN {"panic"}
                          ELSE (IF IsErr(e) THEN {"spurious-error"} ELSE {})
                               \cup (IF e.n # Len(e.p) THEN {"ret"} ELSE {})
                               \cup Mut(e, "p", "pafter")
    [] e.op = "HReset" -> IF Panicked(e) THEN {"panic"} ELSE {}
    [] e.op = "HSum" ->
         LET want == HSumReply(FQ, FP.bits, FP.bytes, e.b) IN
         IF want.k = "panic" THEN (IF Panicked(e) THEN {} ELSE {"nopanic"})
         ELSE IF Panicked(e) THEN {"panic"}
         ELSE (IF e.out # want.v THEN {"value"} ELSE {}) \cup Mut(e, "b", "bafter")
    [] e.op \in {"HSize", "HBlockSize"} -> IF Panicked(e) THEN {"panic"} ELSE IF e.ret # FP.bytes THEN {"ret"} ELSE {}
    [] e.op \in {"HMutDomain", "HMutWritten"} -> {}            \* caller-side events: judged by their (absent) effect

ApplyHasher(e) ==
  CASE e.op = "HNew" -> HNew(e.dst)
    [] e.op = "HWrite" -> HWrite(e.p)
    [] e.op = "HReset" -> HReset
    [] OTHER -> Stateless

-----------------------------------------------------------------------------
(* kind "h2c" *)
Sx == MkSuite(Hdr.curve, Hdr.g)
Cv == Sx.C
F == Cv.F
K == Cv.k
E1 == MapCurve(Sx)                       \* the curve MapToCurve lands on
CPar == FieldP(Hdr.curve \o "/fp")
CRinv == InvMod(Rem(Shl(One, CPar.w * CPar.n), F.q), F.q)
CV(raw) == TVal(F, K, CRinv, raw)
CC(raw) == TCanon(F, K, raw)
PCanon(o) == CC(o.X) /\ CC(o.Y)
PLit(o) == Pt(CV(o.X), CV(o.Y))                                     \* the literal affine pair
PAff(o) == AffOfAff(Cv, [X |-> CV(o.X), Y |-> CV(o.Y)])            \* library convention: (0,0) is the identity
Zero0 == TZero(F, K)

Determ(e) == IF Has(e, "out2") /\ e.out2 # e.out THEN {"nondeterministic"} ELSE {}

\* x by the RFC map
MapX(u) == IF Sx.map = "svdw" THEN SvdwX(Cv, Sx.Z, Sx.K, u) ELSE SswuX(Sx.E1, Sx.Z, u)

JudgeMapToCurve(e) ==
  IF ~CC(e.u) THEN {"badinput"}
  ELSE IF Panicked(e) THEN {"panic"}
  ELSE LET u == CV(e.u) IN
       (IF ~PCanon(e.out) THEN {"noncanonical"}
        ELSE LET P == PLit(e.out) IN
             (IF P.x # MapX(u) THEN {"value-x"} ELSE {})
             \cup (IF ~WOnCurve(E1, P) THEN {"offcurve"} ELSE {})
             \cup (IF P.y # Zero0 /\ Sgn0(Cv, P.y) # Sgn0(Cv, u) THEN {"sign"} ELSE {}))
       \cup Determ(e) \cup Mut(e, "u", "uafter")

\* a point of the group: validity always, value when the suite is fully specified
GroupPoint(e, want) ==
  (IF ~PCanon(e.out) THEN {"noncanonical"}
   ELSE LET P == PAff(e.out) IN
        IF ~WOnCurve(Cv, P) THEN {"offcurve"}
        ELSE IF WMulNat(Cv, Sx.r, P) # Inf THEN {"notinsubgroup"}
        ELSE IF Sx.exact /\ P # want THEN {"value"} ELSE {})
  \cup Determ(e)

\* The RFC map has an image for u: with a constant Z that violates the RFC criteria the definition itself yields
\* no point of the curve for the exceptional inputs (g(x) is not a square): then no reply conforms ("no-image").
HasImage(u) == WOnCurve(E1, MapToCurve(Sx, u))

JudgeMapToG(e) ==
  IF ~CC(e.u) THEN {"badinput"}
  ELSE IF Panicked(e) THEN {"panic"}
  ELSE LET u == CV(e.u) IN
       (IF HasImage(u) THEN GroupPoint(e, IF Sx.exact THEN MapToGroup(Sx, u) ELSE Inf)
        ELSE {"no-image"} \cup GroupPoint(e, PAff(e.out)))
       \cup Mut(e, "u", "uafter")

\* the published vector for this call, if it is one
VectorFor(e) == {i \in 1..Len(RFCVectors) :
                   /\ Hdr.curve = "bls12-381" /\ RFCVectors[i].g = Hdr.g /\ RFCVectors[i].op = e.op
                   /\ RFCVectors[i].msg = e.msg /\ RFCVectors[i].dst = e.dst}
JudgeVector(e) ==
  IF \E i \in VectorFor(e) :
       LET v == RFCVectors[i]  P == PAff(e.out)
       IN P.inf \/ ToFlat(F, K, P.x) # v.P.x \/ ToFlat(F, K, P.y) # v.P.y
  THEN {"rfc-vector"} ELSE {}

JudgeMsg(e) ==
  IF Panicked(e) THEN {"panic"}
  ELSE (IF Len(e.dst) > 255
        THEN (IF IsErr(e) THEN {} ELSE {"swallowed-error"})
        ELSE IF IsErr(e) THEN {"spurious-error"}
        ELSE GroupPoint(e, IF ~Sx.exact THEN Inf
                           ELSE IF e.op = "EncodeTo" THEN EncodeToCurve(Sx, e.msg, e.dst)
                           ELSE HashToCurve(Sx, e.msg, e.dst))
             \cup JudgeVector(e)
             \cup (IF Has(e, "err2") THEN {"nondeterministic"} ELSE {}))
       \cup Mut(e, "msg", "msgafter") \cup Mut(e, "dst", "dstafter")

\* exported helpers of ecc/<curve>/hash_to_curve
JudgeHelper(e) ==
  IF Panicked(e) THEN {"panic"} ELSE
  CASE e.op = "Sgn0" -> (IF e.ret # Sgn0(Cv, CV(e.u)) THEN {"ret"} ELSE {}) \cup Mut(e, "u", "uafter")
    [] e.op = "NotZero" -> IF e.nz # (CV(e.u) # Zero0) THEN {"ret"} ELSE {}
    [] e.op = "MulByZ" -> (IF ~CC(e.out) THEN {"noncanonical"}
                           ELSE IF CV(e.out) # TMul(F, K, Sx.Z, CV(e.u)) THEN {"value"} ELSE {})
                          \cup Mut(e, "u", "uafter")
    [] e.op = "SqrtRatio" ->
         \* (0, sqrt(n/d)) when n/d is a square, otherwise (non-zero, sqrt(Z n/d)); either root.  For n = 0 the RFC
         \* says "square" (is_square(0) = TRUE), the package says "returns 0 iff u/v was indeed a quadratic residue"
         \* and some variants answer non-zero; the root is 0 either way and the property is silent: both accepted
         LET r == TDiv(F, K, CV(e.num), CV(e.den))
             sq == TIsSq(F, K, r)
             y == CV(e.out)
         IN (IF ~CC(e.out) THEN {"noncanonical"}
             ELSE (IF r # Zero0 /\ (e.ret = 0) # sq THEN {"ret"} ELSE {})
                  \cup (IF TMul(F, K, y, y) # (IF sq THEN r ELSE TMul(F, K, Sx.Z, r)) THEN {"value"} ELSE {}))
            \cup Mut(e, "num", "numafter") \cup Mut(e, "den", "denafter")
    [] e.op = "IsoCurveCoeffs" -> IF CV(e.A) # Sx.E1.a \/ CV(e.B) # Sx.E1.b THEN {"value"} ELSE {}
    [] e.op = "IsoZ" -> IF CV(e.Z) # Sx.Z THEN {"value"} ELSE {}
    [] e.op = "IsogenyMap" ->
         IF ~Sx.hasiso THEN {}          \* coefficients not part of the frozen parameters: judged through Isogeny events
         ELSE LET vals(s) == [i \in 1..Len(s) |-> CV(s[i])] \o <<>>
              IN IF vals(e.xn) # Sx.iso.xn \/ vals(e.xd) # Sx.iso.xd \/ vals(e.yn) # Sx.iso.yn \/ vals(e.yd) # Sx.iso.yd
                 THEN {"value"} ELSE {}
    [] e.op = "Isogeny" ->
         IF ~PCanon(e.out) THEN {"noncanonical"}
         ELSE LET P == PLit(e.P) IN
              IF Sx.hasiso THEN (IF PAff(e.out) # IsoMap(Cv, Sx.iso, P) THEN {"value"} ELSE {})
              \* unspecified coefficients: an isogeny maps the points of the isogenous curve to points of the curve
              ELSE IF WOnCurve(Sx.E1, P) /\ ~WOnCurve(Cv, PAff(e.out)) THEN {"offcurve"} ELSE {}

IsExc(e) == e.op \in {"MapToCurve", "MapToG"} /\ CC(e.u) /\ MapExceptional(Sx, CV(e.u))

-----------------------------------------------------------------------------
Judge(e) ==
  CASE Kind = "xmd" -> (IF e.op = "ExpandMsgXmd" THEN JudgeXmd(e) ELSE {"unknown-op"})
    [] Kind = "h2f" -> (IF e.op = "Hash" THEN JudgeHash(e)
                        ELSE IF e.op \in {"HNew", "HWrite", "HReset", "HSum", "HSize", "HBlockSize", "HMutDomain", "HMutWritten"}
                        THEN JudgeHasher(e) ELSE {"unknown-op"})
    [] Kind = "h2c" -> (CASE e.op = "MapToCurve" -> JudgeMapToCurve(e)
                          [] e.op = "MapToG" -> JudgeMapToG(e)
                          [] e.op \in {"EncodeTo", "HashTo"} -> JudgeMsg(e)
                          [] e.op \in {"Sgn0", "NotZero", "MulByZ", "SqrtRatio", "IsoCurveCoeffs", "IsoZ", "IsogenyMap", "Isogeny"} -> JudgeHelper(e)
                          [] OTHER -> {"unknown-op"})
    [] OTHER -> {"unknown-kind"}

Init == KInit /\ HInit /\ nexc = 0

Step == /\ HasNext
        /\ Advance(Judge(Ev))
        /\ (IF Kind = "h2f" THEN ApplyHasher(Ev) ELSE Stateless)
        /\ nexc' = IF Kind = "h2c" /\ IsExc(Ev) THEN nexc + 1 ELSE nexc

Done == /\ Finish
        /\ PrintT(<<"VERIF_COV", nexc>>)
        /\ UNCHANGED tvars

Next == Step \/ Done
Spec == Init /\ [][Next]_<<l, bad, hdom, hbuf, nexc>>
=============================================================================
