SPECIFICATION Spec
CONSTANTS
  ShortCopyGuard = TRUE
  C4Zero = FALSE
  SignByAnd = FALSE
  CopyDomain = TRUE
  MaxDepth = 4
  Part = "svdw"
INVARIANTS Refines Total ErrorsExactly Shapes SpecValid CodeValid ExceptionalSeen ObjectRefines
PROPERTIES FunctionsStateless
CHECK_DEADLOCK FALSE
