----------------------------- MODULE MCFieldExt -----------------------------
(* Exhaustive self-check of spec/lib/C13FieldExt at small fields: for EVERY     *)
(* element a of F_p (p covering q = 3 mod 4, 5 mod 8, and 2-adicity up to 8)    *)
(* and of small towers F_p^2, F_p^4:                                            *)
(*   TIsSq(a)  <=>  a has a root;   TIsSq(a) => TSqrt(a)^2 = a;                 *)
(*   sgn0(0) = 0,  sgn0(-a) # sgn0(a) for a # 0  (RFC 9380 section 4.1).        *)
EXTENDS C13FieldExt, CurveParams, TLC

\* [p, tower spec]
Ctxs == { <<3, <<>>>>, <<5, <<>>>>, <<7, <<>>>>, <<11, <<>>>>, <<13, <<>>>>, <<17, <<>>>>, <<41, <<>>>>,
          <<97, <<>>>>, <<193, <<>>>>, <<257, <<>>>>,
          <<3, <<L(2, "int", -1)>> >>, <<7, <<L(2, "int", -1)>> >>, <<13, <<L(2, "int", 2)>> >>,
          <<3, <<L(2, "int", -1), L(2, "gen", 1)>> >> }

Ctx(c) == [q |-> FromInt(c[1]), T |-> MkT(FromInt(c[1]), c[2], Len(c[2]))]
RECURSIVE All(_,_)
All(F, k) == IF k = 0 THEN {FromInt(x) : x \in 0..(ToInt(F.q) - 1)}
             ELSE {<<x, y>> : x \in All(F, k-1), y \in All(F, k-1)}

VARIABLES c, a
Init == c \in Ctxs /\ a \in All(Ctx(c), Len(c[2]))
Next == UNCHANGED <<c, a>>
Spec == Init /\ [][Next]_<<c, a>>

F == Ctx(c)
K == Len(c[2])
\* every level is a field: its defining non-residue is not a square of the level below
WellFormed == \A k \in 1..K : ~TIsSq(F, k-1, Nr(F, k))
SquareLaws ==
  /\ TIsSq(F, K, a) <=> \E x \in All(F, K) : TMul(F, K, x, x) = a
  /\ TIsSq(F, K, a) => LET r == TSqrt(F, K, a) IN TIn(F, K, r) /\ TMul(F, K, r, r) = a
SignLaws ==
  /\ TSgn0(F, K, a) \in {0, 1}
  /\ TSgn0(F, K, TZero(F, K)) = 0
  /\ a # TZero(F, K) => TSgn0(F, K, TNeg(F, K, a)) # TSgn0(F, K, a)
  /\ K = 0 => TSgn0(F, K, a) = ToInt(a) % 2
=============================================================================
