SPECIFICATION Spec
INVARIANTS ZOk IsoOk VectorOk XmdOk
CHECK_DEADLOCK FALSE
