------------------------------ MODULE H2CSuites ------------------------------
(* The hash-to-curve suite of a group of a gnark-crypto curve, assembled from     *)
(* the frozen parameter modules (CurveParams: curve equations and towers,         *)
(* FieldParams: primes, C13Params: map constants, isogenies, effective            *)
(* cofactors).  See H2C.tla for the meaning of the fields.                        *)
EXTENDS H2C, CurveParams, C13Params

MkSuite(name, g) ==
  LET raw == H2CSuite(name, g)
      C == GroupCurve(name, g)
      el(fl) == FromFlat(C.F, C.k, fl, 1)
      els(s) == [i \in 1..Len(s) |-> el(s[i])] \o <<>>
      Z == el(raw.Z)
  IN [name |-> name, g |-> g,
      C |-> C, r |-> GroupOrder(name), bits |-> FieldP(name \o "/fp").bits,
      map |-> raw.map, Z |-> Z,
      K |-> IF raw.map = "svdw" THEN SvdwConsts(C, Z) ELSE <<>>,
      E1 |-> IF raw.map = "sswu" THEN [F |-> C.F, k |-> C.k, a |-> el(raw.A), b |-> el(raw.B)] ELSE C,
      hasiso |-> raw.hasiso,
      iso |-> IF raw.hasiso THEN [xn |-> els(raw.xn), xd |-> els(raw.xd), yn |-> els(raw.yn), yd |-> els(raw.yd)] ELSE <<>>,
      exact |-> raw.exact, heff |-> raw.heff]

H2CGroups == { <<"bn254", "G1">>, <<"bn254", "G2">>, <<"secp256k1", "G1">>, <<"stark-curve", "G1">>, <<"grumpkin", "G1">>,
               <<"bls12-377", "G1">>, <<"bls12-377", "G2">>, <<"bls12-381", "G1">>, <<"bls12-381", "G2">>,
               <<"bls24-315", "G1">>, <<"bls24-315", "G2">>, <<"bls24-317", "G1">>, <<"bls24-317", "G2">>,
               <<"bw6-633", "G1">>, <<"bw6-633", "G2">>, <<"bw6-761", "G1">>, <<"bw6-761", "G2">> }
=============================================================================
