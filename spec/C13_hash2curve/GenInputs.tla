------------------------------ MODULE GenInputs ------------------------------
(* (GEN) inputs derived from the model: for every group, the EXCEPTIONAL inputs    *)
(* of its map, computed from the specification's own constants -                   *)
(*   SvdW (6.6.1): the roots of (1 - u^2 g(Z)) (1 + u^2 g(Z)), i.e. u^2 = +-1/g(Z)  *)
(*   SSWU (6.6.2): u = 0 and the roots of Z^2 u^4 + Z u^2, i.e. u^2 = -1/Z          *)
(* (those that exist in the field), as flat coordinate lists.  Written as JSON to  *)
(* the file named by the environment variable VERIF_GEN_OUT; the Go driver feeds   *)
(* them to the real MapToCurve / MapToG functions.  Random sampling cannot hit     *)
(* these inputs.                                                                   *)
EXTENDS H2CSuites, TLC, Json, IOUtils

Roots(C, s) == IF s # hZ0(C) /\ hIsSq(C, s) THEN LET r == hRt(C, s) IN <<r, hN(C, r)>> ELSE <<>>

Exceptional(S) ==
  IF S.map = "svdw"
  THEN LET C == S.C  inv == hI0(C, S.K.c1) IN Roots(C, inv) \o Roots(C, hN(C, inv))
  ELSE LET C == S.E1 IN <<hZ0(C)>> \o Roots(C, hN(C, hI0(C, S.Z)))

Groups == SetToSeq(H2CGroups)
ForGroup(gr) ==
  LET S == MkSuite(gr[1], gr[2])
      ex == Exceptional(S)
  IN \* self-check: the specification agrees that they are exceptional
     IF \A i \in 1..Len(ex) : MapExceptional(S, ex[i])
     THEN [curve |-> gr[1], g |-> gr[2], map |-> S.map, exc |-> [i \in 1..Len(ex) |-> ToFlat(S.C.F, S.C.k, ex[i])]]
     ELSE Assert(FALSE, <<"not exceptional", gr>>)

Out == [i \in 1..Len(Groups) |-> ForGroup(Groups[i])]

VARIABLE done
Init == done = FALSE
Next == /\ ~done
        /\ JsonSerialize(IOEnv.VERIF_GEN_OUT, Out)
        /\ PrintT(<<"VERIF_GEN", Len(Groups)>>)
        /\ done' = TRUE
Spec == Init /\ [][Next]_done
=============================================================================
