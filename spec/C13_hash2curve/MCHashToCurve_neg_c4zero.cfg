SPECIFICATION Spec
CONSTANTS
  ShortCopyGuard = TRUE
  C4Zero = TRUE
  SignByAnd = FALSE
  CopyDomain = TRUE
  MaxDepth = 4
  Part = "svdw"
INVARIANTS Refines
PROPERTIES FunctionsStateless
CHECK_DEADLOCK FALSE
