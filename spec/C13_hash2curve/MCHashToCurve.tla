---------------------------- MODULE MCHashToCurve ----------------------------
(* Exhaustive model checking of the hash-to-curve component at small constants.    *)
(*                                                                                 *)
(* Two layers run in lock step, as in C15:                                         *)
(*  - the SPECIFICATION HashToCurve.tla / H2C.tla (RFC 9380, non-straight-line     *)
(*    text) gives `areply`;                                                        *)
(*  - a CODE-LEVEL model of what gnark-crypto really executes gives `reply`:       *)
(*      CodeXmd    field/hash/hashutils.go: Go slices, copy() with explicit        *)
(*                 bounds, uint8 truncations, the order of the checks              *)
(*      CodeHash   <field>.Hash: L = 16 + Bytes, SetBytes + reduction              *)
(*      CodeSvdw   the straight-line program of RFC 9380 appendix F.1 as           *)
(*                 generated (inv0, CMOVs, Legendre symbols, Sqrt returning        *)
(*                 EITHER root: `sel`)                                             *)
(*      CodeSswu   appendix F.2 with the sqrt_ratio contract                       *)
(*      hasher     hash_to_field.New keeps a copy of the domain (CopyDomain)       *)
(*    Deliberately wrong variants of the code-level model are the negative         *)
(*    self-tests (constants): ShortCopyGuard = FALSE is hashutils.go as it stands  *)
(*    (candidate defect F8), C4Zero the bls24-315 G2 map, SignByAnd its sign       *)
(*    logic, CopyDomain = FALSE an aliased domain.                                 *)
(* Small constants: toy curves over F_19, F_31, F_43, F_13 (a # 0) and F_7^2 with  *)
(* Z chosen by the RFC criteria, EVERY field element u (so every exceptional       *)
(* input), both roots; messages / tags incl. |dst| in {0, 1, 255, 256}; output     *)
(* lengths 0..66, 8159..8161, 65536; counts 0..4 and around the limit; hasher      *)
(* histories up to MaxDepth.                                                       *)
EXTENDS HashToCurve, CurveParams, FiniteSets, TLC

CONSTANTS ShortCopyGuard, C4Zero, SignByAnd, CopyDomain, MaxDepth, Part

VARIABLES suite,      \* the toy suite (fixed along a behaviour)
          cdom, cbuf, \* code-level hasher: domain and buffer as the object sees them
          cshared,    \* the object's domain slice is the caller's slice
          call, reply, areply, depth
vars == <<hdom, hbuf, suite, cdom, cbuf, cshared, call, reply, areply, depth>>

-----------------------------------------------------------------------------
(* toy suites *)
ToySpecs ==
  IF Part = "svdw" THEN
    { [p |-> 19, t |-> <<>>, a |-> <<0>>, b |-> <<2>>, map |-> "svdw", xmd |-> FALSE, obj |-> FALSE],
      [p |-> 31, t |-> <<>>, a |-> <<0>>, b |-> <<3>>, map |-> "svdw", xmd |-> FALSE, obj |-> FALSE],
      [p |-> 43, t |-> <<>>, a |-> <<0>>, b |-> <<5>>, map |-> "svdw", xmd |-> FALSE, obj |-> FALSE],
      [p |-> 13, t |-> <<>>, a |-> <<1>>, b |-> <<1>>, map |-> "svdw", xmd |-> FALSE, obj |-> FALSE],
      [p |-> 7, t |-> <<L(2, "int", -1)>>, a |-> <<0, 0>>, b |-> <<1, 1>>, map |-> "svdw", xmd |-> FALSE, obj |-> FALSE] }
  ELSE IF Part = "sswu" THEN
    { [p |-> 19, t |-> <<>>, a |-> <<3>>, b |-> <<5>>, map |-> "sswu", xmd |-> FALSE, obj |-> FALSE],
      [p |-> 31, t |-> <<>>, a |-> <<2>>, b |-> <<7>>, map |-> "sswu", xmd |-> FALSE, obj |-> FALSE],
      [p |-> 43, t |-> <<>>, a |-> <<1>>, b |-> <<6>>, map |-> "sswu", xmd |-> FALSE, obj |-> FALSE],
      [p |-> 7, t |-> <<L(2, "int", -1)>>, a |-> <<1, 1>>, b |-> <<2, 1>>, map |-> "sswu", xmd |-> FALSE, obj |-> FALSE] }
  ELSE \* "h2f": expand_message / hash_to_field / hasher object on one toy field
    { [p |-> 19, t |-> <<>>, a |-> <<0>>, b |-> <<2>>, map |-> "svdw", xmd |-> TRUE, obj |-> TRUE] }

RECURSIVE AllE(_,_)
AllE(F, k) == IF k = 0 THEN {FromInt(x) : x \in 0..(ToInt(F.q) - 1)}
              ELSE {<<x, y>> : x \in AllE(F, k-1), y \in AllE(F, k-1)}
IsPrime(d) == d > 1 /\ \A j \in 2..(d-1) : d % j # 0
LargestPrimeFactor(n) == CHOOSE d \in 1..n : /\ n % d = 0 /\ IsPrime(d)
                                             /\ \A e \in (d+1)..n : ~(n % e = 0 /\ IsPrime(e))
MkToy(t) ==
  LET q == FromInt(t.p)
      F == [q |-> q, T |-> MkT(q, t.t, Len(t.t))]
      k == Len(t.t)
      el(ints) == FromFlat(F, k, [i \in 1..Len(ints) |-> FromInt(ints[i])], 1)
      C == [F |-> F, k |-> k, a |-> el(t.a), b |-> el(t.b)]
      els == AllE(F, k)
      n == 1 + Cardinality({xy \in els \X els : WOnCurve(C, Pt(xy[1], xy[2]))})
      r == LargestPrimeFactor(n)
      Z == CHOOSE z \in els : IF t.map = "svdw" THEN SvdwZOk(C, z) ELSE SswuZOk(C, z)
  IN [C |-> C, r |-> FromInt(r), bits |-> BitLen(q), map |-> t.map, Z |-> Z,
      K |-> IF t.map = "svdw" THEN SvdwConsts(C, Z) ELSE <<>>,
      E1 |-> C, hasiso |-> FALSE, iso |-> <<>>, exact |-> TRUE,
      heff |-> [neg |-> FALSE, mag |-> FromInt(n \div r)],
      els |-> els, n |-> n, xmd |-> t.xmd, obj |-> t.obj]

TS == suite
Q == TS.C.F.q
MExt == TDegree(TS.C.F, TS.C.k)
NBytes == Ceil(TS.bits, 8)

-----------------------------------------------------------------------------
(* code-level models *)
Min2(a, b) == IF a < b THEN a ELSE b
\* copy(res[lo-1:hi], src) in 1-based indices: copies min(hi-lo+1, len(src)) bytes
CopyInto(res, lo, hi, src) ==
  [j \in 1..Len(res) |-> IF j >= lo /\ j <= hi /\ j - lo + 1 <= Len(src) THEN src[j - lo + 1] ELSE res[j]] \o <<>>

CodeXmd(msg, dst, len) ==
  LET ell == (len + 31) \div 32 IN
  IF ell > 255 THEN ErrReply                                    \* "invalid lenInBytes"
  ELSE IF Len(dst) > 255 THEN ErrReply                          \* "invalid domain size (>255 bytes)"
  ELSE LET dstp == dst \o <<Len(dst) % 256>>                    \* sizeDomain := uint8(len(dst))
           b0 == SHA256(ZPad \o msg \o <<(len \div 256) % 256, len % 256, 0>> \o dstp)
           b1 == SHA256(b0 \o <<1>> \o dstp)
           res0 == [j \in 1..len |-> 0] \o <<>>                  \* res := make([]byte, lenInBytes)
       IN IF ~ShortCopyGuard /\ len < 32 THEN PanicReply         \* copy(res[:h.Size()], b1): slice bounds out of range
          ELSE LET fin == FoldLeft(LAMBDA st, i :
                                     LET bi == SHA256(XorBytes(b0, st.prev) \o <<i % 256>> \o dstp)
                                     IN [res |-> CopyInto(st.res, 32 * (i-1) + 1, Min2(32 * i, len), bi), prev |-> bi],
                                   [res |-> CopyInto(res0, 1, Min2(32, len), b1), prev |-> b1],
                                   [i \in 1..(IF ell > 1 THEN ell - 1 ELSE 0) |-> i + 1])
               IN [k |-> "bytes", v |-> fin.res]

CodeHash(q, bits, msg, dst, count) ==
  LET Bytes == 1 + ((bits - 1) \div 8)
      LL == 16 + Bytes
      r == CodeXmd(msg, dst, count * LL)
  IN IF r.k # "bytes" THEN r
     ELSE [k |-> "elems", v |-> [i \in 1..count |-> Rem(FromBytesBE(SubSeq(r.v, (i-1) * LL + 1, i * LL)), q)] \o <<>>]

\* the field's Sqrt returns one of the two roots: sel says which
Root(C, a, sel) == LET r == hRt(C, a) IN IF sel = 1 THEN hN(C, r) ELSE r

CodeSvdw(u, sel) ==
  LET C == TS.C  K == TS.K  Z == TS.Z
      c4 == IF C4Zero THEN hZ0(C) ELSE K.c4
      tv1a == hM(C, hSq(C, u), K.c1)                      \* 1-2
      tv2 == hA(C, hE(C, 1), tv1a)                        \* 3
      tv1 == hS(C, hE(C, 1), tv1a)                        \* 4
      tv3 == hI0(C, hM(C, tv1, tv2))                      \* 5-6
      tv4 == hM(C, hM(C, hM(C, u, tv1), tv3), K.c3)       \* 7-9
      x1 == hS(C, K.c2, tv4)                              \* 10
      e1 == hIsSq(C, GX(C, x1))                           \* 11-15
      x2 == hA(C, K.c2, tv4)                              \* 16
      e2 == hIsSq(C, GX(C, x2)) /\ ~e1                    \* 17-21
      x3 == hA(C, hM(C, hSq(C, hM(C, hSq(C, tv2), tv3)), c4), Z)   \* 22-26
      xa == IF e1 THEN x1 ELSE x3                         \* 27
      x == IF e2 THEN x2 ELSE xa                          \* 28
      y0 == Root(C, GX(C, x), sel)                        \* 29-33
      e3 == IF SignByAnd THEN Sgn0(C, u) = 0 /\ Sgn0(C, y0) = 0 ELSE Sgn0(C, u) = Sgn0(C, y0)   \* 34
  IN Pt(x, IF e3 THEN y0 ELSE hN(C, y0))                  \* 35

\* sqrt_ratio(n, d): (TRUE, sqrt(n/d)) if n/d is a square, else (FALSE, sqrt(Z n/d))
SqrtRatio(C, Z, n, d, sel) ==
  LET r == hD(C, n, d)
  IN IF hIsSq(C, r) THEN [sq |-> TRUE, y |-> Root(C, r, sel)] ELSE [sq |-> FALSE, y |-> Root(C, hM(C, Z, r), sel)]

CodeSswu(u, sel) ==
  LET C == TS.E1  Z == TS.Z
      tv1 == hM(C, Z, hSq(C, u))                          \* 1-2
      tv2a == hA(C, hSq(C, tv1), tv1)                     \* 3-4
      tv3 == hM(C, C.b, hA(C, tv2a, hE(C, 1)))            \* 5-6
      tv4 == hM(C, C.a, IF tv2a # hZ0(C) THEN hN(C, tv2a) ELSE Z)   \* 7-8
      tv6a == hSq(C, tv4)                                 \* 10
      tv2 == hA(C, hM(C, hA(C, hSq(C, tv3), hM(C, C.a, tv6a)), tv3), hM(C, C.b, hM(C, tv6a, tv4)))   \* 9, 11-16
      tv6 == hM(C, tv6a, tv4)                             \* 14
      sr == SqrtRatio(C, Z, tv2, tv6, sel)                \* 18
      xb == IF sr.sq THEN tv3 ELSE hM(C, tv1, tv3)        \* 17, 21
      yb == IF sr.sq THEN sr.y ELSE hM(C, hM(C, tv1, u), sr.y)      \* 19, 20, 22
      y == IF Sgn0(C, u) = Sgn0(C, yb) THEN yb ELSE hN(C, yb)       \* 23-24
  IN Pt(hD(C, xb, tv4), y)                                \* 25

CodeMap(u, sel) == IF TS.map = "svdw" THEN CodeSvdw(u, sel) ELSE CodeSswu(u, sel)
CodeUs(msg, dst, n) ==
  LET r == CodeHash(Q, TS.bits, msg, dst, n * MExt)
  IN IF r.k # "elems" THEN r
     ELSE [k |-> "elems", v |-> [i \in 1..n |-> FromFlat(TS.C.F, TS.C.k, r.v, (i-1) * MExt + 1)] \o <<>>]
CodeEncode(msg, dst, sel) ==
  LET r == CodeUs(msg, dst, 1)
  IN IF r.k # "elems" THEN r ELSE [k |-> "point", v |-> ClearCofactor(TS, CodeMap(r.v[1], sel))]
CodeHashTo(msg, dst, sel) ==
  LET r == CodeUs(msg, dst, 2)
  IN IF r.k # "elems" THEN r
     ELSE [k |-> "point", v |-> ClearCofactor(TS, WAdd(TS.C, CodeMap(r.v[1], sel), CodeMap(r.v[2], 1 - sel)))]
CodeSum(b) ==
  LET r == CodeHash(Q, TS.bits, cbuf, cdom, 1)
  IN IF r.k # "elems" THEN PanicReply                      \* panic(fmt.Sprintf("native field to hash: %v", err)) or the panic of Hash itself
     ELSE [k |-> "bytes", v |-> b \o ToBytesBE(r.v[1], NBytes)]

-----------------------------------------------------------------------------
(* calls *)
D255 == [i \in 1..255 |-> i % 256] \o <<>>
D256 == [i \in 1..256 |-> i % 256] \o <<>>
Msgs == {<<>>, <<0>>, <<97, 98, 99>>}
Dsts == {<<>>, <<7>>, D255, D256}
Small == Part = "h2fsmall"            \* reduced argument sets for the negative self-tests
Lens == IF Small THEN 0..34 ELSE 0..66
BigLens == IF Small THEN {} ELSE {8159, 8160, 8161, 65536}
LToy == 16 + Ceil(TS.bits, 8)
Counts == IF Small THEN 0..4 ELSE (0..4) \cup {8160 \div LToy, (8160 \div LToy) + 1}
Junk(s) == [i \in 1..Len(s) |-> 238] \o <<>>

NoCall == [op |-> "Init", msg |-> <<>>, dst |-> <<>>, n |-> 0, u |-> <<>>, sel |-> 0]
Mk(op, msg, dst, n, u, sel) == [op |-> op, msg |-> msg, dst |-> dst, n |-> n, u |-> u, sel |-> sel]

FunctionCalls ==
  (IF TS.xmd THEN {Mk("Xmd", m, d, n, <<>>, 0) : m \in Msgs, d \in Dsts, n \in Lens} ELSE {})
  \cup (IF TS.xmd THEN {Mk("Xmd", <<0>>, d, n, <<>>, 0) : d \in Dsts, n \in BigLens} ELSE {})
  \cup (IF TS.xmd THEN {Mk("Hash", m, d, n, <<>>, 0) : m \in Msgs, d \in Dsts, n \in 0..4} ELSE {})
  \cup (IF TS.xmd THEN {Mk("Hash", <<0>>, d, n, <<>>, 0) : d \in Dsts, n \in Counts \ (0..4)} ELSE {})
  \cup (IF TS.xmd THEN {} ELSE
          {Mk("MapToCurve", <<>>, <<>>, 0, u, s) : u \in TS.els, s \in {0, 1}}
          \cup {Mk("MapToGroup", <<>>, <<>>, 0, u, s) : u \in TS.els, s \in {0, 1}}
          \cup {Mk("Encode", m, d, 0, <<>>, s) : m \in Msgs, d \in Dsts, s \in {0, 1}}
          \cup {Mk("HashTo", m, d, 0, <<>>, s) : m \in Msgs, d \in Dsts, s \in {0, 1}})

FunctionReplies(c) ==      \* <<code-level, specification>>
  CASE c.op = "Xmd" -> <<CodeXmd(c.msg, c.dst, c.n), XmdReply(c.msg, c.dst, c.n)>>
    [] c.op = "Hash" -> <<CodeHash(Q, TS.bits, c.msg, c.dst, c.n), HashReply(Q, TS.bits, c.msg, c.dst, c.n)>>
    [] c.op = "MapToCurve" -> <<[k |-> "point", v |-> CodeMap(c.u, c.sel)], MapToCurveReply(TS, c.u)>>
    [] c.op = "MapToGroup" -> <<[k |-> "point", v |-> ClearCofactor(TS, CodeMap(c.u, c.sel))], MapToGroupReply(TS, c.u)>>
    [] c.op = "Encode" -> <<CodeEncode(c.msg, c.dst, c.sel), EncodeReply(TS, c.msg, c.dst)>>
    [] c.op = "HashTo" -> <<CodeHashTo(c.msg, c.dst, c.sel), HashToReply(TS, c.msg, c.dst)>>

DoFunction(c) ==
  LET r == FunctionReplies(c) IN
  /\ call' = c /\ reply' = r[1] /\ areply' = r[2]
  /\ Stateless /\ UNCHANGED <<cdom, cbuf, cshared>>

Ok == [k |-> "ok"]
DoNew(d) == /\ HNew(d) /\ cdom' = d /\ cbuf' = <<>> /\ cshared' = ~CopyDomain
            /\ call' = Mk("New", <<>>, d, 0, <<>>, 0) /\ reply' = Ok /\ areply' = Ok
DoWrite(p) == /\ HWrite(p) /\ cbuf' = cbuf \o p /\ UNCHANGED <<cdom, cshared>>
              /\ call' = Mk("Write", p, <<>>, Len(p), <<>>, 0) /\ reply' = Ok /\ areply' = Ok
DoReset == /\ HReset /\ cbuf' = <<>> /\ UNCHANGED <<cdom, cshared>>      \* w.toHash = nil
           /\ call' = Mk("Reset", <<>>, <<>>, 0, <<>>, 0) /\ reply' = Ok /\ areply' = Ok
\* the caller overwrites the slice it passed to New: a stutter of the specification
DoMutDomain == /\ call.op = "New" /\ Len(hdom) > 0
               /\ Stateless /\ cdom' = (IF cshared THEN Junk(cdom) ELSE cdom) /\ UNCHANGED <<cbuf, cshared>>
               /\ call' = Mk("MutDomain", <<>>, <<>>, 0, <<>>, 0) /\ reply' = Ok /\ areply' = Ok
DoSum(b) == /\ Stateless /\ UNCHANGED <<cdom, cbuf, cshared>>
            /\ call' = Mk("Sum", b, <<>>, 0, <<>>, 0)
            /\ reply' = CodeSum(b) /\ areply' = HSumReply(Q, TS.bits, NBytes, b)

Stateful == {"Init", "New", "Write", "Reset", "MutDomain"}

Init == /\ HInit /\ suite \in {MkToy(t) : t \in ToySpecs}
        /\ cdom = <<>> /\ cbuf = <<>> /\ cshared = FALSE
        /\ call = NoCall /\ reply = Ok /\ areply = Ok /\ depth = 0

\* A function call / Sum leaves the abstract state unchanged (FunctionsStateless below), so the state it
\* leads to is not expanded again: it is the state it was made in.  Functions do not read the object, so
\* they are enumerated from the initial object state only.
Next == /\ call.op \in Stateful
        /\ depth' = depth + 1
        /\ \/ (depth = 0 /\ \E c \in FunctionCalls : DoFunction(c))
           \/ (TS.obj /\ depth < MaxDepth /\
                 (\/ \E d \in Dsts : DoNew(d)
                  \/ \E p \in {<<>>, <<1>>, <<2, 3>>} : DoWrite(p)
                  \/ DoReset
                  \/ DoMutDomain))
           \/ (TS.obj /\ \E b \in {<<>>, <<9>>} : DoSum(b))
        /\ UNCHANGED suite
Spec == Init /\ [][Next]_vars

-----------------------------------------------------------------------------
(* the property *)

\* the code-level model replies what the specification prescribes (values, errors, no panic)
Refines == reply = areply

\* nothing panics, except Sum of a hasher created with an inadmissible domain (documented)
Total == reply.k = "panic" => (call.op = "Sum" /\ Len(hdom) > 255)

\* inadmissible parameters, and only they, are reported as errors
Requested(c) == CASE c.op = "Xmd" -> c.n
                  [] c.op = "Hash" -> c.n * LToy
                  [] c.op = "Encode" -> MExt * LToy
                  [] c.op = "HashTo" -> 2 * MExt * LToy
ErrorsExactly == call.op \in {"Xmd", "Hash", "Encode", "HashTo"} =>
                   (areply.k = "err" <=> (Len(call.dst) > 255 \/ Requested(call) > 8160))

\* expand_message returns exactly the requested number of bytes; Hash that many reduced elements, each the
\* big-endian value of its L-byte block of expand_message(msg, dst, count * L) reduced mod q
Shapes ==
  /\ (call.op = "Xmd" /\ areply.k = "bytes") => (Len(areply.v) = call.n /\ \A i \in 1..call.n : areply.v[i] \in 0..255)
  /\ (call.op = "Hash" /\ areply.k = "elems") =>
       /\ Len(areply.v) = call.n
       /\ LET ub == Xmd(call.msg, call.dst, call.n * LToy)
          IN \A i \in 1..call.n : /\ Lt(areply.v[i], Q)
                                  /\ areply.v[i] = Rem(FromBytesBE(SubSeq(ub, (i-1) * LToy + 1, i * LToy)), Q)
  /\ (call.op = "Sum" /\ areply.k = "bytes") => Len(areply.v) = Len(call.msg) + NBytes

\* every mapped / encoded / hashed point is a valid point: on the curve with the RFC sign for map_to_curve
\* (for EVERY u, the exceptional ones included), in the prime-order subgroup for the others
Valid(r) ==
  /\ (call.op = "MapToCurve") => MapValid(TS, call.u, r.v)
  /\ (call.op \in {"MapToGroup", "Encode", "HashTo"} /\ r.k = "point") => GroupValid(TS, r.v)
SpecValid == Valid(areply)
CodeValid == Valid(reply)

\* the exceptional inputs are really there (vacuity guard): u = 0 for SSWU; for SvdW the roots of
\* (1 - u^2 g(Z))(1 + u^2 g(Z)), which exist on at least one toy suite of the part
ExceptionalInputs(T) == {u \in T.els : MapExceptional(T, u)}
ExceptionalSeen == (call.op = "MapToCurve" /\ TS.map = "sswu" /\ call.u = TZero(TS.C.F, TS.C.k)) => MapExceptional(TS, call.u)
ASSUME Part \in {"svdw", "sswu"} => \E t \in ToySpecs : ExceptionalInputs(MkToy(t)) \ {TZero(MkToy(t).C.F, MkToy(t).C.k)} # {}

\* package-level functions, Sum and caller-side events do not change the object
FunctionsStateless == [][call'.op \notin {"New", "Write", "Reset"} => UNCHANGED hvars]_vars
\* the object's view of its state is the specified one (no aliasing with the caller's slices)
ObjectRefines == cdom = hdom /\ cbuf = hbuf
=============================================================================
