SPECIFICATION Spec
CONSTANTS
  ShortCopyGuard = TRUE
  C4Zero = FALSE
  SignByAnd = FALSE
  CopyDomain = FALSE
  MaxDepth = 4
  Part = "h2fsmall"
INVARIANTS ObjectRefines Refines
PROPERTIES FunctionsStateless
CHECK_DEADLOCK FALSE
