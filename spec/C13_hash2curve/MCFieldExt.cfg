SPECIFICATION Spec
INVARIANTS WellFormed SquareLaws SignLaws
CHECK_DEADLOCK FALSE
