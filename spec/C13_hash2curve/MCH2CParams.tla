----------------------------- MODULE MCH2CParams -----------------------------
(* Validation of the frozen C13 parameters and of the specification itself,       *)
(* independent of the code under test:                                            *)
(*  ZOk      every suite's Z satisfies the conditions RFC 9380 puts on it         *)
(*           (6.6.1 for SvdW, 6.6.2 for SSWU), the derived SvdW constants         *)
(*           satisfy their defining equations, sgn0(c3) = 0;                      *)
(*  IsoOk    the transcribed isogenies map the isogenous curve into the curve;         *)
(*  XmdOk    expand_message_xmd reproduces the vectors of RFC 9380 appendix K.1;  *)
(*  VectorOk hash_to_field and encode_to_curve / hash_to_curve of H2C.tla         *)
(*           (SSWU, 11-/3-isogeny, h_eff) reproduce u and P of all 20 published   *)
(*           BLS12-381 vectors (appendix J.9, J.10).                              *)
EXTENDS H2CSuites, C13Vectors, TLC, FiniteSets

Groups == SetToSeq(H2CGroups)
NG == Len(Groups)
NV == Len(RFCVectors)

VARIABLE task
Init == task \in 1..(NG + NV + 1)
Next == UNCHANGED task
Spec == Init /\ [][Next]_task

ZOkFor(S) ==
  IF S.map = "svdw"
  THEN LET C == S.C  Z == S.Z  K == S.K
           h == hA(C, hM(C, hE(C, 3), hSq(C, Z)), hM(C, hE(C, 4), C.a))
       IN /\ SvdwZOk(C, Z)
          /\ hSq(C, K.c3) = hN(C, hM(C, K.c1, h)) /\ Sgn0(C, K.c3) = 0
          /\ hM(C, K.c4, h) = hN(C, hM(C, hE(C, 4), K.c1))
          /\ hA(C, K.c2, K.c2) = hN(C, Z)
  ELSE SswuZOk(S.E1, S.Z)
\* Two documented suites do NOT satisfy criterion 4 of 6.6.2 (g(B/(Z A)) square): their exceptional inputs
\* (u = 0, u^2 = -1/Z) have no image on the curve - see the C13 known findings; every other criterion holds.
BadZ == { <<"bls12-377", "G1">>, <<"bw6-761", "G1">> }
ZOk == task \in 1..NG =>
  LET S == MkSuite(Groups[task][1], Groups[task][2]) IN
  IF Groups[task] \in BadZ
  THEN /\ ~hIsSq(S.E1, S.Z) /\ S.Z # hN(S.E1, hE(S.E1, 1)) /\ S.E1.a # hZ0(S.E1) /\ S.E1.b # hZ0(S.E1)
       /\ ~hIsSq(S.E1, GX(S.E1, hD(S.E1, S.E1.b, hM(S.E1, S.Z, S.E1.a))))
  ELSE ZOkFor(S)

\* the transcribed rational maps send points of the isogenous curve to points of the curve (u = 1, 2, 3 and their
\* SSWU images), and to the identity never for these
IsoOkFor(S) == S.hasiso =>
  \A n \in 1..3 : LET P == MapToCurve(S, TEmbed(S.C.F, S.C.k, FromInt(n)))
                        Q == IsoMap(S.C, S.iso, P)
                    IN WOnCurve(S.E1, P) /\ ~Q.inf /\ WOnCurve(S.C, Q)
IsoOk == task \in 1..NG => IsoOkFor(MkSuite(Groups[task][1], Groups[task][2]))

S381(g) == MkSuite("bls12-381", g)
VectorOkFor(v) ==
  LET S == S381(v.g)
      n == IF v.op = "HashTo" THEN 2 ELSE 1
      u == Us(S, v.msg, v.dst, n)
      P == IF v.op = "HashTo" THEN HashToCurve(S, v.msg, v.dst) ELSE EncodeToCurve(S, v.msg, v.dst)
  IN /\ \A i \in 1..n : ToFlat(S.C.F, S.C.k, u[i]) = v.u[i]
     /\ ~P.inf /\ ToFlat(S.C.F, S.C.k, P.x) = v.P.x /\ ToFlat(S.C.F, S.C.k, P.y) = v.P.y
     /\ InGroup(S, P)
VectorOk == task \in (NG+1)..(NG+NV) => VectorOkFor(RFCVectors[task - NG])

KDst == <<81,85,85,88,45,86,48,49,45,67,83,48,50,45,119,105,116,104,45,101,120,112,97,110,100,101,114,45,83,72,65,50,53,54,45,49,50,56>>
\* "QUUX-V01-CS02-with-expander-SHA256-128"; msg = "", "abc"; len_in_bytes = 0x20
K1 == <<104,169,133,184,126,182,180,105,82,18,137,17,242,164,65,43,188,48,42,157,117,150,103,248,127,122,33,216,3,240,114,53>>
K2 == <<216,204,171,35,181,152,92,206,168,101,198,201,123,110,91,131,80,231,148,230,3,180,185,121,2,245,58,138,13,96,86,21>>
\* msg = "", len_in_bytes = 0x80: first and last four bytes af84c27c ... 993f0ced
XmdOk == task = NG + NV + 1 =>
  /\ Xmd(<<>>, KDst, 32) = K1
  /\ Xmd(<<97, 98, 99>>, KDst, 32) = K2
  /\ LET o == Xmd(<<>>, KDst, 128) IN Len(o) = 128 /\ SubSeq(o, 1, 4) = <<175, 132, 194, 124>> /\ SubSeq(o, 125, 128) = <<153, 63, 12, 237>>
  /\ Xmd(<<1>>, KDst, 0) = <<>>
  /\ ~XmdAborts(KDst, 8160) /\ XmdAborts(KDst, 8161) /\ XmdAborts([i \in 1..256 |-> 0], 32) /\ ~XmdAborts([i \in 1..255 |-> 0], 32)
=============================================================================
