SPECIFICATION Spec
CONSTANTS
  ShortCopyGuard = TRUE
  C4Zero = FALSE
  SignByAnd = FALSE
  CopyDomain = TRUE
  MaxDepth = 11
  Part = "h2f"
INVARIANTS Refines Total ErrorsExactly Shapes SpecValid CodeValid ExceptionalSeen ObjectRefines
PROPERTIES FunctionsStateless
CHECK_DEADLOCK FALSE
