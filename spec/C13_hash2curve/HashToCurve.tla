----------------------------- MODULE HashToCurve -----------------------------
(* The hash-to-field / hash-to-curve component of gnark-crypto as a state machine. *)
(*                                                                                 *)
(* Public entry points and what they are specified to reply (H2C.tla = RFC 9380):  *)
(*   hash.ExpandMsgXmd(msg, dst, len)        XmdReply                              *)
(*   <field>.Hash(msg, dst, count)           HashReply                             *)
(*   hash_to_field.New(dst) / Write / Sum / Reset / Size / BlockSize               *)
(*                                           the only STATE of the component:      *)
(*                                           hdom (domain) and hbuf (bytes written *)
(*                                           since New / Reset), value semantics   *)
(*   MapToCurve1/2(u)                        MapToCurveReply  (on the isogenous    *)
(*                                           curve for the SSWU suites)            *)
(*   MapToG1/2(u)                            MapToGroupReply                       *)
(*   EncodeToG1/2(msg, dst)                  EncodeReply                           *)
(*   HashToG1/2(msg, dst)                    HashToReply                           *)
(* Every package-level function is stateless: its action leaves hdom, hbuf         *)
(* unchanged and its reply does not depend on them.  Inadmissible parameters       *)
(* (|dst| > 255, more than 255 SHA-256 blocks = 8160 bytes requested) are replied  *)
(* with an error; nothing panics, with one documented exception: Sum of a hasher   *)
(* created with an inadmissible domain ("cannot return error and have to panic").  *)
EXTENDS H2C

VARIABLES hdom, hbuf
hvars == <<hdom, hbuf>>

HInit == hdom = <<>> /\ hbuf = <<>>

\* --- the hasher object
HNew(dst) == hdom' = dst /\ hbuf' = <<>>
HWrite(p) == hbuf' = hbuf \o p /\ UNCHANGED hdom
HReset == hbuf' = <<>> /\ UNCHANGED hdom
Stateless == UNCHANGED hvars          \* Sum, Size, BlockSize, every function, every caller-side event

ErrReply == [k |-> "err"]
PanicReply == [k |-> "panic"]

\* Sum(b) = b ++ big-endian bytes (nbytes) of Hash(hbuf, hdom, 1)[0]
HSumReply(q, bits, nbytes, b) ==
  IF H2FAborts(bits, hdom, 1) THEN PanicReply
  ELSE [k |-> "bytes", v |-> b \o ToBytesBE(HashToField(q, bits, hbuf, hdom, 1)[1], nbytes)]

\* --- stateless functions
XmdReply(msg, dst, len) ==
  IF XmdAborts(dst, len) THEN ErrReply ELSE [k |-> "bytes", v |-> Xmd(msg, dst, len)]
HashReply(q, bits, msg, dst, count) ==
  IF H2FAborts(bits, dst, count) THEN ErrReply ELSE [k |-> "elems", v |-> HashToField(q, bits, msg, dst, count)]
MapToCurveReply(S, u) == [k |-> "point", v |-> MapToCurve(S, u)]
MapToGroupReply(S, u) == [k |-> "point", v |-> MapToGroup(S, u)]
EncodeReply(S, msg, dst) ==
  IF H2CAborts(S, dst, 1) THEN ErrReply ELSE [k |-> "point", v |-> EncodeToCurve(S, msg, dst)]
HashToReply(S, msg, dst) ==
  IF H2CAborts(S, dst, 2) THEN ErrReply ELSE [k |-> "point", v |-> HashToCurve(S, msg, dst)]

\* --- what the property demands of a point reply, whatever the suite
\* map_to_curve: an affine point (never the identity) of the curve the map lands on, y with the sign of u
MapValid(S, u, P) == /\ ~P.inf /\ WOnCurve(MapCurve(S), P)
                     /\ (P.y = TZero(S.C.F, S.C.k) \/ Sgn0(S.C, P.y) = Sgn0(S.C, u))
\* map to group / encode / hash: in the prime-order subgroup of the target curve
GroupValid(S, P) == InGroup(S, P)
=============================================================================
