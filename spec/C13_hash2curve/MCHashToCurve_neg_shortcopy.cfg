SPECIFICATION Spec
CONSTANTS
  ShortCopyGuard = FALSE
  C4Zero = FALSE
  SignByAnd = FALSE
  CopyDomain = TRUE
  MaxDepth = 4
  Part = "h2fsmall"
INVARIANTS Total Refines
PROPERTIES FunctionsStateless
CHECK_DEADLOCK FALSE
