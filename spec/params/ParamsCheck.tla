----------------------------- MODULE ParamsCheck -----------------------------
(* TLC self-check of the frozen parameter records: one state per curve/field.  *)
EXTENDS CurveParams, TLC

\* Miller-Rabin with fixed bases (deterministic enough for a sanity check of frozen constants)
RECURSIVE TwoAdic(_,_)
TwoAdic(n, s) == IF IsOdd(n) THEN <<n, s>> ELSE TwoAdic(Shr(n, 1), s + 1)
RECURSIVE MRLoop(_,_,_,_)
MRLoop(x, n, i, s) == IF i >= s THEN FALSE
                      ELSE LET y == MulMod(x, x, n) IN IF y = Pred(n) THEN TRUE ELSE MRLoop(y, n, i+1, s)
MRWitnessOk(n, a) ==
  LET ds == TwoAdic(Pred(n), 0)  x == PowMod(FromInt(a), ds[1], n)
  IN x = One \/ x = Pred(n) \/ MRLoop(x, n, 1, ds[2])
ProbablyPrime(n) == \A a \in {2, 3, 5, 7, 11, 13, 17, 19, 23, 29, 31, 37} :
                       Mod(FromInt(a), n) = Zero \/ MRWitnessOk(n, a)

VARIABLE item
Init == item \in ([kind : {"field"}, name : FieldNames] \cup [kind : {"curve"}, name : AllCurves])
Next == UNCHANGED item
Spec == Init /\ [][Next]_item

FieldOk == item.kind = "field" =>
  LET P == FieldP(item.name) IN
  /\ ProbablyPrime(P.q)
  /\ BitLen(P.q) = P.bits /\ P.bytes = (P.bits + 7) \div 8
  /\ BitLen(P.q) <= P.w * P.n /\ BitLen(P.q) > P.w * (P.n - 1)

GroupOk(name, g) ==
  LET C == GroupCurve(name, g)  G == GroupGen(name, g)  r == GroupOrder(name) IN
  /\ ~G.inf /\ TIn(C.F, C.k, G.x) /\ TIn(C.F, C.k, G.y)
  /\ WOnCurve(C, G)                       \* for the DOCUMENTED coefficients
  /\ WMulNat(C, r, G) = Inf               \* killed by r (r prime => exact order r)
  /\ WMulNat(C, Pred(r), G) = WNeg(C, G)

\* X^deg - nr irreducible over the level below <=> nr is not a deg-th power there:
\* nr^((|F_{k-1}| - 1)/deg) # 1   (|F_{k-1}| = q^m)
RECURSIVE PowNat(_,_)
PowNat(b, e) == IF e = 0 THEN One ELSE Mul(b, PowNat(b, e-1))
LevelOk(F, k) ==
  LET size == PowNat(F.q, TDegree(F, k-1))
      e == Div(Pred(size), FromInt(Deg(F, k)))
  IN /\ Mod(Pred(size), FromInt(Deg(F, k))) = Zero
     /\ TExp(F, k-1, Nr(F, k), e) # TOne(F, k-1)

CurveOk == item.kind = "curve" =>
  LET name == item.name  F == FieldCtx(name) IN
  /\ ProbablyPrime(GroupOrder(name))
  /\ GroupOk(name, "G1")
  /\ (name \in PairingCurves => GroupOk(name, "G2"))
  /\ \A k \in 1..Len(F.T) : LevelOk(F, k)
=============================================================================
