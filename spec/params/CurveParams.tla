----------------------------- MODULE CurveParams -----------------------------
(* Curve and tower parameters, transcribed BY HAND from the documentation of   *)
(* each curve package (package doc comments: equations, twists, extension      *)
(* towers) and frozen here.  Generators come from CurveGens (frozen).  Nothing *)
(* in this module is read from /repo at check time.  ParamsCheck validates     *)
(* the records with TLC (primality, generators on the documented curves,       *)
(* [r]G = O, non-residues).                                                    *)
EXTENDS Tower, Weierstrass, FieldParams, CurveGens

SmallZ(q, n) == IF n >= 0 THEN FromInt(n) ELSE Sub(q, FromInt(-n))

\* Tower levels from a list of [deg, kind, n]:
\*   kind "int"  : X^deg = n                      (n a small integer)
\*   kind "gen"  : X^deg = Y + n   where Y is the generator of the level below
RECURSIVE MkT(_,_,_)
MkT(q, specs, k) ==
  IF k = 0 THEN <<>>
  ELSE LET prev == MkT(q, specs, k-1)
           F == [q |-> q, T |-> prev]
           s == specs[k]
           nr == IF s.kind = "int" THEN TEmbed(F, k-1, SmallZ(q, s.n))
                 ELSE TAdd(F, k-1, TGen(F, k-1), TEmbed(F, k-1, SmallZ(q, s.n)))
       IN Append(prev, [deg |-> s.deg, nr |-> nr])
L(d, kind, n) == [deg |-> d, kind |-> kind, n |-> n]

TowerSpec(name) ==
  CASE name = "bn254"     -> <<L(2, "int", -1), L(3, "gen", 9), L(2, "gen", 0)>>     \* u^2+1, v^3-9-u, w^2-v
    [] name = "bls12-377" -> <<L(2, "int", -5), L(3, "gen", 0), L(2, "gen", 0)>>     \* u^2+5, v^3-u, w^2-v
    [] name = "bls12-381" -> <<L(2, "int", -1), L(3, "gen", 1), L(2, "gen", 0)>>     \* u^2+1, v^3-1-u, w^2-v
    [] name = "bls24-315" -> <<L(2, "int", 13), L(2, "gen", 0), L(3, "gen", 0), L(2, "gen", 0)>>  \* u^2-13, v^2-u, w^3-v, i^2-w
    [] name = "bls24-317" -> <<L(2, "int", -1), L(2, "gen", 1), L(3, "gen", 0), L(2, "gen", 0)>>  \* u^2+1, v^2-u-1, w^3-v, i^2-w
    [] name = "bw6-633"   -> <<L(3, "int", 2), L(2, "gen", 0)>>                       \* u^3-2, v^2-u
    [] name = "bw6-761"   -> <<L(3, "int", -4), L(2, "gen", 0)>>                      \* u^3+4, v^2-u
    [] OTHER -> <<>>

PairingCurves == {"bn254", "bls12-377", "bls12-381", "bls24-315", "bls24-317", "bw6-633", "bw6-761"}
AllCurves == PairingCurves \cup {"secp256k1", "stark-curve", "grumpkin"}

FieldCtx(name) == LET q == FieldP(name \o "/fp").q
                  IN [q |-> q, T |-> MkT(q, TowerSpec(name), Len(TowerSpec(name)))]
GroupOrder(name) == FieldP(name \o "/fr").q

StarkB == <<7817, 14813, 29414, 9839, 23583, 14626, 6917, 19817, 17760, 28497, 13771, 29387, 24912, 18459, 31727, 2569, 1778>>  \* 3141592653589793238462643383279502884197169399375105820974944592307816406665
\* G1: y^2 = x^3 + a x + b over F_p (level 0)
G1Coeffs(name) ==
  LET q == FieldP(name \o "/fp").q IN
  CASE name = "bn254" -> [a |-> Zero, b |-> FromInt(3)]
    [] name = "bls12-377" -> [a |-> Zero, b |-> One]
    [] name = "bls12-381" -> [a |-> Zero, b |-> FromInt(4)]
    [] name = "bls24-315" -> [a |-> Zero, b |-> One]
    [] name = "bls24-317" -> [a |-> Zero, b |-> FromInt(4)]
    [] name = "bw6-633" -> [a |-> Zero, b |-> FromInt(4)]
    [] name = "bw6-761" -> [a |-> Zero, b |-> Sub(q, One)]
    [] name = "secp256k1" -> [a |-> Zero, b |-> FromInt(7)]
    [] name = "stark-curve" -> [a |-> One, b |-> StarkB]
    [] name = "grumpkin" -> [a |-> Zero, b |-> Sub(q, FromInt(17))]

G1Curve(name) == LET F == FieldCtx(name)  c == G1Coeffs(name)
                 IN [F |-> F, k |-> 0, a |-> c.a, b |-> c.b]

\* G2: the twist, over level G2Level of the tower
G2Level(name) == CASE name \in {"bn254", "bls12-377", "bls12-381"} -> 1
                   [] name \in {"bls24-315", "bls24-317"} -> 2
                   [] OTHER -> 0
G2Curve(name) ==
  LET F == FieldCtx(name)  k == G2Level(name)
      E(n) == TEmbed(F, k, FromInt(n))
      b == CASE name = "bn254" -> TDiv(F, 1, E(3), <<FromInt(9), One>>)              \* 3/(u+9)
             [] name = "bls12-377" -> TInv(F, 1, TGen(F, 1))                          \* 1/u
             [] name = "bls12-381" -> TMul(F, 1, E(4), <<One, One>>)                  \* 4(u+1)
             [] name = "bls24-315" -> TInv(F, 2, TGen(F, 2))                          \* 1/v
             [] name = "bls24-317" -> TMul(F, 2, E(4), TGen(F, 2))                    \* 4v
             [] name = "bw6-633" -> FromInt(8)
             [] name = "bw6-761" -> FromInt(4)
  IN [F |-> F, k |-> k, a |-> TZero(F, k), b |-> b]

GroupCurve(name, g) == IF g = "G1" THEN G1Curve(name) ELSE G2Curve(name)
GroupGen(name, g) == LET p == IF g = "G1" THEN GenP(name).g1 ELSE GenP(name).g2 IN Pt(p.x, p.y)
GTLevel(name) == Len(TowerSpec(name))
=============================================================================
