----------------------------- MODULE HashParams -----------------------------
(* Frozen, documented parameters of the algebraic hashes (C14).  Written once   *)
(* from the doc comments / cited publications and never re-read from /repo:     *)
(*   MiMC: s-box degree and number of rounds per curve (ecc/<curve>/fr/mimc);   *)
(*         constants: legacy-Keccak256 chain over "seed" (re-derived by the     *)
(*         harness with x/crypto/sha3 and handed over in the trace header)      *)
(*   Poseidon2: s-box degree per field, external 4x4 block (eprint 2023/323     *)
(*         appendix B for goldilocks, the Plonky3 matrix for koalabear/babybear)*)
(*         internal diagonals as published by Plonky3 (documented in the        *)
(*         matMulInternalInPlace comments), [[2,1],[1,3]], [[2,1,1],[1,2,1],   *)
(*         [1,1,3]] for t = 2, 3; default parameters of the hash wrappers.      *)
EXTENDS PrimeField

MiMCP(field) ==
  CASE field = "bn254/fr"     -> [d |-> 5,  rounds |-> 110]
    [] field = "bls12-377/fr" -> [d |-> 17, rounds |-> 62]
    [] field = "bls12-381/fr" -> [d |-> 5,  rounds |-> 111]
    [] field = "bls24-315/fr" -> [d |-> 5,  rounds |-> 109]
    [] field = "bls24-317/fr" -> [d |-> 7,  rounds |-> 91]
    [] field = "bw6-633/fr"   -> [d |-> 5,  rounds |-> 136]
    [] field = "bw6-761/fr"   -> [d |-> 5,  rounds |-> 163]
    [] field = "grumpkin/fr"  -> [d |-> 5,  rounds |-> 110]

\* s-box degree of Poseidon2 per field
P2Degree(field) ==
  CASE field = "bn254/fr"     -> 5
    [] field = "bls12-377/fr" -> 17
    [] field = "bls12-381/fr" -> 5
    [] field = "bls24-315/fr" -> 5
    [] field = "bls24-317/fr" -> 7
    [] field = "bw6-633/fr"   -> 5
    [] field = "bw6-761/fr"   -> 5
    [] field = "grumpkin/fr"  -> 5
    [] field = "koalabear"    -> 3
    [] field = "babybear"     -> 7
    [] field = "goldilocks"   -> 7

\* default parameters <<t, rf, rp>> of NewMerkleDamgardHasher / the registry entry
P2Default(field) ==
  CASE field = "bls12-377/fr" -> <<2, 6, 26>>
    [] field = "bls24-317/fr" -> <<2, 6, 40>>
    [] field = "koalabear"    -> <<16, 6, 21>>
    [] field = "babybear"     -> <<16, 8, 13>>
    [] field = "goldilocks"   -> <<8, 6, 17>>
    [] OTHER                  -> <<2, 6, 50>>

M4Plonky3 == <<<<2, 3, 1, 1>>, <<1, 2, 3, 1>>, <<1, 1, 2, 3>>, <<3, 1, 1, 2>>>>
M4Paper   == <<<<5, 7, 1, 3>>, <<4, 6, 1, 1>>, <<1, 3, 5, 7>>, <<1, 1, 4, 6>>>>

P2M4(field) == IF field = "goldilocks" THEN M4Paper
               ELSE IF field \in {"koalabear", "babybear"} THEN M4Plonky3 ELSE <<>>

\* diagonal entries given as <<sign, numerator, k>> = sign * numerator / 2^k
Frac(q, f) == LET v == FDiv(q, FromInt(f[2]), PowMod(Two, FromInt(f[3]), q))
              IN IF f[1] < 0 THEN FNeg(q, v) ELSE v
Fracs(q, fs) == [i \in 1..Len(fs) |-> Frac(q, fs[i])] \o <<>>

Koala16 == << <<-1,2,0>>, <<1,1,0>>, <<1,2,0>>, <<1,1,1>>, <<1,3,0>>, <<1,4,0>>, <<-1,1,1>>, <<-1,3,0>>, <<-1,4,0>>,
              <<1,1,8>>, <<1,1,3>>, <<1,1,24>>, <<-1,1,8>>, <<-1,1,3>>, <<-1,1,4>>, <<-1,1,24>> >>
Koala24 == << <<-1,2,0>>, <<1,1,0>>, <<1,2,0>>, <<1,1,1>>, <<1,3,0>>, <<1,4,0>>, <<-1,1,1>>, <<-1,3,0>>, <<-1,4,0>>,
              <<1,1,8>>, <<1,1,2>>, <<1,1,3>>, <<1,1,4>>, <<1,1,5>>, <<1,1,6>>, <<1,1,24>>,
              <<-1,1,8>>, <<-1,1,3>>, <<-1,1,4>>, <<-1,1,5>>, <<-1,1,6>>, <<-1,1,7>>, <<-1,1,9>>, <<-1,1,24>> >>
Baby16  == << <<-1,2,0>>, <<1,1,0>>, <<1,2,0>>, <<1,1,1>>, <<1,3,0>>, <<1,4,0>>, <<-1,1,1>>, <<-1,3,0>>, <<-1,4,0>>,
              <<1,1,8>>, <<1,1,2>>, <<1,1,3>>, <<1,1,27>>, <<-1,1,8>>, <<-1,1,4>>, <<-1,1,27>> >>
Baby24  == << <<-1,2,0>>, <<1,1,0>>, <<1,2,0>>, <<1,1,1>>, <<1,3,0>>, <<1,4,0>>, <<-1,1,1>>, <<-1,3,0>>, <<-1,4,0>>,
              <<1,1,8>>, <<1,1,2>>, <<1,1,3>>, <<1,1,4>>, <<1,1,7>>, <<1,1,9>>, <<1,1,27>>,
              <<-1,1,8>>, <<-1,1,2>>, <<-1,1,3>>, <<-1,1,4>>, <<-1,1,5>>, <<-1,1,6>>, <<-1,1,7>>, <<-1,1,27>> >>

\* Plonky3 MATRIX_DIAG_8_GOLDILOCKS / MATRIX_DIAG_12_GOLDILOCKS (64-bit constants as BigNat digits)
\* 0xa98811a1fed4e3a5 0x1cc48b54f377e2a0 0xe40cd4f6c5609a26 0x11de79ebca97a4a3 0x9177c73d8b7e929c 0x2a6fe8085797e791 0x3de6e93329f8d5ad 0x3f7af9125da962fe
Gold8 == <<<<25509, 32169, 18055, 19520, 10>>, <<25248, 26351, 11603, 26148, 1>>, <<6694, 2753, 21467, 8294, 14>>,
           <<9379, 5423, 26543, 3827, 1>>, <<4764, 5885, 7414, 3006, 9>>, <<26513, 12079, 8225, 21375, 2>>,
           <<21933, 21489, 9420, 28471, 3>>, <<25342, 15186, 25673, 31703, 3>>>>
\* 0xc3b6c08e23ba9300 0xd84b5de94a324fb6 0x0d0c371c5b35b84f 0x7964f570e7188037 0x5daf18bbd996604b 0x6743bc47b9595257
\* 0x5528b9362c59bb70 0xac45e25b7127b68b 0xa2077d7dfbb606b5 0xf3faac6faee378ae 0x0c6388b51545e883 0xd27dbb6944917b60
Gold12 == <<<<4864, 18293, 568, 7606, 12>>, <<20406, 5220, 30629, 16986, 13>>, <<14415, 13931, 23665, 26721>>,
            <<55, 20017, 21955, 19239, 7>>, <<24651, 13100, 25327, 28024, 5>>, <<21079, 29362, 28958, 14877, 6>>,
            <<15216, 22707, 25816, 10565, 5>>, <<13963, 25167, 2413, 25135, 10>>, <<1717, 30572, 30199, 4155, 10>>,
            <<30894, 24006, 12734, 8149, 15>>, <<26755, 10891, 8916, 25372>>, <<31584, 2338, 28069, 5101, 13>>>>

\* widths for which the package defines the permutation
P2Widths(field) == IF field = "goldilocks" THEN {8, 12}
                   ELSE IF field \in {"koalabear", "babybear"} THEN {16, 24} ELSE {2, 3}

P2Mu(field, q, t) ==
  CASE t = 2 -> <<One, Two>>
    [] t = 3 -> <<One, One, Two>>
    [] field = "koalabear" /\ t = 16 -> Fracs(q, Koala16)
    [] field = "koalabear" /\ t = 24 -> Fracs(q, Koala24)
    [] field = "babybear" /\ t = 16  -> Fracs(q, Baby16)
    [] field = "babybear" /\ t = 24  -> Fracs(q, Baby24)
    [] field = "goldilocks" /\ t = 8  -> Gold8
    [] field = "goldilocks" /\ t = 12 -> Gold12

\* the parameter record consumed by Hashes!P2Perm; rk = constants handed over by the harness
P2Make(field, q, t, rf, rp, rk) ==
  [q |-> q, t |-> t, rf |-> rf, rp |-> rp, d |-> P2Degree(field), rk |-> rk,
   m4 |-> P2M4(field), mu |-> P2Mu(field, q, t)]
=============================================================================
