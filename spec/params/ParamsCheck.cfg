SPECIFICATION Spec
INVARIANTS FieldOk CurveOk
CHECK_DEADLOCK FALSE
