--------------------------- MODULE TraceEccUtils ---------------------------
(* Extension X02 (not one of the listed properties): the integer utilities of   *)
(* package ecc that the GLV scalar multiplications and the pairing loops are    *)
(* built on.                                                                    *)
(*   NafDecomposition(a)   the non-adjacent form of a >= 0: digits in           *)
(*                         {-1, 0, 1}, sum d_i 2^i = a, no two adjacent         *)
(*                         non-zero digits, leading digit non-zero (the NAF is  *)
(*                         unique, so this fixes every digit)                   *)
(*   PrecomputeLattice     V1, V2 in the kernel of (a, b) -> a + b lambda mod r,*)
(*                         Det = v11 v22 - v12 v21 and |Det| = r (a basis of    *)
(*                         the kernel).  When lambda is a primitive cube root   *)
(*                         of unity mod r (the GLV case: the kernel is an ideal *)
(*                         of Z[w], both successive minima are about sqrt r)    *)
(*                         and r has at least 64 bits, the entries have at most *)
(*                         half the bits of r plus two.  For arbitrary lambda   *)
(*                         no short basis need exist (lambda = 2), and below 32 *)
(*                         bits the fixed-point roundings have no precision:    *)
(*                         shortness is not judged there.                       *)
(*   SplitScalar(s)        (u, v) with u + v lambda = s mod r for every integer *)
(*                         s, and for 0 <= s < r and r of at least 64 bits      *)
(*                         |u|, |v| <= 2 (|V1| + |V2|) (sup norms): the         *)
(*                         rounding to the nearest lattice vector GLV relies on *)
(*   NextPowerOfTwo(n)     the least power of two >= n (1 for n = 0), panic     *)
(*                         exactly when it does not fit 64 bits                 *)
(* Digits d are logged as d + 1 (0, 1, 2).                                      *)
EXTENDS TraceKernel, BigNat, SequencesExt

ZMul(a, b) == ZInt(a.neg # b.neg, Mul(a.mag, b.mag))
ZAdd(a, b) == IF a.neg = b.neg THEN ZInt(a.neg, Add(a.mag, b.mag))
              ELSE IF Lt(a.mag, b.mag) THEN ZInt(b.neg, Sub(b.mag, a.mag)) ELSE ZInt(a.neg, Sub(a.mag, b.mag))
ZSub(a, b) == ZAdd(a, ZInt(~b.neg, b.mag))
ZNat(n) == ZInt(FALSE, n)
MaxN(a, b) == IF Lt(a, b) THEN b ELSE a

\* ---- NAF ------------------------------------------------------------------
NafValue(ds) ==
  LET pos == FoldLeft(LAMBDA acc, i : IF ds[i] = 2 THEN Add(acc, Shl(One, i - 1)) ELSE acc, Zero, [i \in 1..Len(ds) |-> i])
      neg == FoldLeft(LAMBDA acc, i : IF ds[i] = 0 THEN Add(acc, Shl(One, i - 1)) ELSE acc, Zero, [i \in 1..Len(ds) |-> i])
  IN ZSub(ZNat(pos), ZNat(neg))
JudgeNaf(e) ==
  IF Panicked(e) THEN {"panic"}
  ELSE IF e.len # Len(e.ds) THEN {"length"}
  ELSE (IF \E i \in 1..Len(e.ds) : e.ds[i] \notin {0, 1, 2} THEN {"digit"} ELSE {})
       \cup (IF NafValue(e.ds) # ZNat(e.a) THEN {"value"} ELSE {})
       \cup (IF \E i \in 1..(Len(e.ds) - 1) : e.ds[i] # 1 /\ e.ds[i + 1] # 1 THEN {"adjacent"} ELSE {})
       \cup (IF Len(e.ds) > 0 /\ e.ds[Len(e.ds)] = 1 THEN {"leading-zero"} ELSE {})
       \cup (IF e.aafter # e.a THEN {"mutated"} ELSE {})

\* ---- lattice --------------------------------------------------------------
InKernel(v, r, lambda) == Mod(Add(ZMod(v[1], r), Mul(ZMod(v[2], r), lambda)), r) = Zero
Sup(v) == MaxN(v[1].mag, v[2].mag)
CubeRoot(r, lambda) == lambda # One /\ Mod(Add(Add(Mul(lambda, lambda), lambda), One), r) = Zero
JudgeLattice(e) ==
  IF Panicked(e) THEN {"panic"}
  ELSE LET det == ZSub(ZMul(e.V1[1], e.V2[2]), ZMul(e.V1[2], e.V2[1]))
           half == (BitLen(e.r) + 1) \div 2
       IN (IF InKernel(e.V1, e.r, e.lambda) /\ InKernel(e.V2, e.r, e.lambda) THEN {} ELSE {"not-in-kernel"})
          \cup (IF e.Det = det THEN {} ELSE {"det-field"})
          \cup (IF det.mag = e.r THEN {} ELSE {"not-a-basis"})
          \cup (IF BitLen(e.r) >= 64 /\ CubeRoot(e.r, e.lambda) /\ ~Lt(MaxN(Sup(e.V1), Sup(e.V2)), Shl(One, half + 2))
                THEN {"not-short"} ELSE {})

JudgeSplit(e) ==
  IF Panicked(e) THEN {"panic"}
  ELSE (IF Mod(Add(ZMod(e.u, e.r), Mul(ZMod(e.v, e.r), e.lambda)), e.r) = ZMod(e.s, e.r) THEN {} ELSE {"congruence"})
       \cup (IF BitLen(e.r) >= 64 /\ ~e.s.neg /\ Lt(e.s.mag, e.r)
                /\ Lt(Mul(FromInt(2), Add(Sup(e.V1), Sup(e.V2))), MaxN(e.u.mag, e.v.mag)) THEN {"not-short"} ELSE {})
       \cup (IF e.safter # e.s THEN {"mutated"} ELSE {})

\* ---- NextPowerOfTwo ----------------------------------------------------------
Two64 == Shl(One, 64)
Pow2Geq(n) == IF n = Zero THEN One ELSE IF Shl(One, BitLen(n) - 1) = n THEN n ELSE Shl(One, BitLen(n))
JudgeNextPow(e) ==
  LET want == Pow2Geq(e.n) IN
  IF ~Lt(want, Two64) THEN (IF Panicked(e) THEN {} ELSE {"missing-panic"})
  ELSE IF Panicked(e) THEN {"panic"}
  ELSE IF e.out # want THEN {"value"} ELSE {}

Judge(e) ==
  CASE e.op = "Naf" -> JudgeNaf(e)
    [] e.op = "Lattice" -> JudgeLattice(e)
    [] e.op = "Split" -> JudgeSplit(e)
    [] e.op = "NextPow2" -> JudgeNextPow(e)
    [] OTHER -> {"unknown-op"}

Init == KInit
Step == HasNext /\ Advance(Judge(Ev))
Next == Step \/ Finish
Spec == Init /\ [][Next]_<<l, bad>>
=============================================================================
