---- MODULE TraceField_TTrace_1790989198 ----
EXTENDS Sequences, TLCExt, Toolbox, TraceField, Naturals, TLC

_expression ==
    LET TraceField_TEExpression == INSTANCE TraceField_TEExpression
    IN TraceField_TEExpression!expression
----

_trace ==
    LET TraceField_TETrace == INSTANCE TraceField_TETrace
    IN TraceField_TETrace!trace
----

_inv ==
    ~(
        TLCGet("level") = Len(_TETrace)
        /\
        bad = ({})
        /\
        regs = ((0 :> <<>> @@ 1 :> <<>> @@ 2 :> <<>> @@ 3 :> <<>>))
        /\
        l = (36)
    )
----

_init ==
    /\ bad = _TETrace[1].bad
    /\ l = _TETrace[1].l
    /\ regs = _TETrace[1].regs
----

_next ==
    /\ \E i,j \in DOMAIN _TETrace:
        /\ \/ /\ j = i + 1
              /\ i = TLCGet("level")
        /\ bad  = _TETrace[i].bad
        /\ bad' = _TETrace[j].bad
        /\ l  = _TETrace[i].l
        /\ l' = _TETrace[j].l
        /\ regs  = _TETrace[i].regs
        /\ regs' = _TETrace[j].regs

\* Uncomment the ASSUME below to write the states of the error trace
\* to the given file in Json format. Note that you can pass any tuple
\* to `JsonSerialize`. For example, a sub-sequence of _TETrace.
    \* ASSUME
    \*     LET J == INSTANCE Json
    \*         IN J!JsonSerialize("TraceField_TTrace_1790989198.json", _TETrace)

=============================================================================

 Note that you can extract this module `TraceField_TEExpression`
  to a dedicated file to reuse `expression` (the module in the 
  dedicated `TraceField_TEExpression.tla` file takes precedence 
  over the module `TraceField_TEExpression` below).

---- MODULE TraceField_TEExpression ----
EXTENDS Sequences, TLCExt, Toolbox, TraceField, Naturals, TLC

expression == 
    [
        \* To hide variables of the `TraceField` spec from the error trace,
        \* remove the variables below.  The trace will be written in the order
        \* of the fields of this record.
        bad |-> bad
        ,l |-> l
        ,regs |-> regs
        
        \* Put additional constant-, state-, and action-level expressions here:
        \* ,_stateNumber |-> _TEPosition
        \* ,_badUnchanged |-> bad = bad'
        
        \* Format the `bad` variable as Json value.
        \* ,_badJson |->
        \*     LET J == INSTANCE Json
        \*     IN J!ToJson(bad)
        
        \* Lastly, you may build expressions over arbitrary sets of states by
        \* leveraging the _TETrace operator.  For example, this is how to
        \* count the number of times a spec variable changed up to the current
        \* state in the trace.
        \* ,_badModCount |->
        \*     LET F[s \in DOMAIN _TETrace] ==
        \*         IF s = 1 THEN 0
        \*         ELSE IF _TETrace[s].bad # _TETrace[s-1].bad
        \*             THEN 1 + F[s-1] ELSE F[s-1]
        \*     IN F[_TEPosition - 1]
    ]

=============================================================================



Parsing and semantic processing can take forever if the trace below is long.
 In this case, it is advised to uncomment the module below to deserialize the
 trace from a generated binary file.

\*
\*---- MODULE TraceField_TETrace ----
\*EXTENDS IOUtils, TraceField, TLC
\*
\*trace == IODeserialize("TraceField_TTrace_1790989198.bin", TRUE)
\*
\*=============================================================================
\*

---- MODULE TraceField_TETrace ----
EXTENDS TraceField, TLC

trace == 
    <<
    ([bad |-> {},regs |-> (0 :> <<>> @@ 1 :> <<>> @@ 2 :> <<>> @@ 3 :> <<>>),l |-> 2]),
    ([bad |-> {},regs |-> (0 :> <<>> @@ 1 :> <<>> @@ 2 :> <<>> @@ 3 :> <<>>),l |-> 3]),
    ([bad |-> {},regs |-> (0 :> <<>> @@ 1 :> <<>> @@ 2 :> <<>> @@ 3 :> <<>>),l |-> 4]),
    ([bad |-> {},regs |-> (0 :> <<>> @@ 1 :> <<>> @@ 2 :> <<>> @@ 3 :> <<>>),l |-> 5]),
    ([bad |-> {},regs |-> (0 :> <<>> @@ 1 :> <<>> @@ 2 :> <<>> @@ 3 :> <<>>),l |-> 6]),
    ([bad |-> {},regs |-> (0 :> <<>> @@ 1 :> <<>> @@ 2 :> <<>> @@ 3 :> <<>>),l |-> 7]),
    ([bad |-> {},regs |-> (0 :> <<>> @@ 1 :> <<>> @@ 2 :> <<>> @@ 3 :> <<>>),l |-> 8]),
    ([bad |-> {},regs |-> (0 :> <<>> @@ 1 :> <<>> @@ 2 :> <<>> @@ 3 :> <<>>),l |-> 9]),
    ([bad |-> {},regs |-> (0 :> <<>> @@ 1 :> <<>> @@ 2 :> <<>> @@ 3 :> <<>>),l |-> 10]),
    ([bad |-> {},regs |-> (0 :> <<>> @@ 1 :> <<>> @@ 2 :> <<>> @@ 3 :> <<>>),l |-> 11]),
    ([bad |-> {},regs |-> (0 :> <<>> @@ 1 :> <<>> @@ 2 :> <<>> @@ 3 :> <<>>),l |-> 12]),
    ([bad |-> {},regs |-> (0 :> <<>> @@ 1 :> <<>> @@ 2 :> <<>> @@ 3 :> <<>>),l |-> 13]),
    ([bad |-> {},regs |-> (0 :> <<>> @@ 1 :> <<>> @@ 2 :> <<>> @@ 3 :> <<>>),l |-> 14]),
    ([bad |-> {},regs |-> (0 :> <<>> @@ 1 :> <<>> @@ 2 :> <<>> @@ 3 :> <<>>),l |-> 15]),
    ([bad |-> {},regs |-> (0 :> <<>> @@ 1 :> <<>> @@ 2 :> <<>> @@ 3 :> <<>>),l |-> 16]),
    ([bad |-> {},regs |-> (0 :> <<>> @@ 1 :> <<>> @@ 2 :> <<>> @@ 3 :> <<>>),l |-> 17]),
    ([bad |-> {},regs |-> (0 :> <<>> @@ 1 :> <<>> @@ 2 :> <<>> @@ 3 :> <<>>),l |-> 18]),
    ([bad |-> {},regs |-> (0 :> <<>> @@ 1 :> <<>> @@ 2 :> <<>> @@ 3 :> <<>>),l |-> 19]),
    ([bad |-> {},regs |-> (0 :> <<>> @@ 1 :> <<>> @@ 2 :> <<>> @@ 3 :> <<>>),l |-> 20]),
    ([bad |-> {},regs |-> (0 :> <<>> @@ 1 :> <<>> @@ 2 :> <<>> @@ 3 :> <<>>),l |-> 21]),
    ([bad |-> {},regs |-> (0 :> <<>> @@ 1 :> <<>> @@ 2 :> <<>> @@ 3 :> <<>>),l |-> 22]),
    ([bad |-> {},regs |-> (0 :> <<>> @@ 1 :> <<>> @@ 2 :> <<>> @@ 3 :> <<>>),l |-> 23]),
    ([bad |-> {},regs |-> (0 :> <<>> @@ 1 :> <<>> @@ 2 :> <<>> @@ 3 :> <<>>),l |-> 24]),
    ([bad |-> {},regs |-> (0 :> <<>> @@ 1 :> <<>> @@ 2 :> <<>> @@ 3 :> <<>>),l |-> 25]),
    ([bad |-> {},regs |-> (0 :> <<>> @@ 1 :> <<>> @@ 2 :> <<>> @@ 3 :> <<>>),l |-> 26]),
    ([bad |-> {},regs |-> (0 :> <<>> @@ 1 :> <<>> @@ 2 :> <<>> @@ 3 :> <<>>),l |-> 27]),
    ([bad |-> {},regs |-> (0 :> <<>> @@ 1 :> <<>> @@ 2 :> <<>> @@ 3 :> <<>>),l |-> 28]),
    ([bad |-> {},regs |-> (0 :> <<>> @@ 1 :> <<>> @@ 2 :> <<>> @@ 3 :> <<>>),l |-> 29]),
    ([bad |-> {},regs |-> (0 :> <<>> @@ 1 :> <<>> @@ 2 :> <<>> @@ 3 :> <<>>),l |-> 30]),
    ([bad |-> {},regs |-> (0 :> <<>> @@ 1 :> <<>> @@ 2 :> <<>> @@ 3 :> <<>>),l |-> 31]),
    ([bad |-> {},regs |-> (0 :> <<>> @@ 1 :> <<>> @@ 2 :> <<>> @@ 3 :> <<>>),l |-> 32]),
    ([bad |-> {},regs |-> (0 :> <<>> @@ 1 :> <<>> @@ 2 :> <<>> @@ 3 :> <<>>),l |-> 33]),
    ([bad |-> {},regs |-> (0 :> <<>> @@ 1 :> <<>> @@ 2 :> <<>> @@ 3 :> <<>>),l |-> 34]),
    ([bad |-> {},regs |-> (0 :> <<>> @@ 1 :> <<>> @@ 2 :> <<>> @@ 3 :> <<>>),l |-> 35]),
    ([bad |-> {},regs |-> (0 :> <<>> @@ 1 :> <<>> @@ 2 :> <<>> @@ 3 :> <<>>),l |-> 36])
    >>
----


=============================================================================

---- CONFIG TraceField_TTrace_1790989198 ----

INVARIANT
    _inv

CHECK_DEADLOCK
    \* CHECK_DEADLOCK off because of PROPERTY or INVARIANT above.
    FALSE

INIT
    _init

NEXT
    _next

CONSTANT
    _TETrace <- _trace

ALIAS
    _expression
=============================================================================
\* Generated on Sat Oct 03 01:00:00 UTC 2026