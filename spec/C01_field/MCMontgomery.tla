----------------------------- MODULE MCMontgomery -----------------------------
(* The word-level Montgomery multiplication of the element templates            *)
(* (mul_cios.go / mul_nocarry.go: Algorithm 2 of "Faster Montgomery             *)
(* Multiplication and Multi-Scalar-Multiplication for SNARKs"), transcribed     *)
(* with words of WBits bits and NLimbs limbs, and model-checked against its      *)
(* specification  z = x*y*R^-1 mod q,  z < q  for EVERY odd modulus q with a     *)
(* non-zero top limb and EVERY pair of reduced operands.                         *)
(*                                                                               *)
(* NoCarry = TRUE selects the variant that drops the extra carry word; the       *)
(* generator uses it only when the top bit of q is 0 and the remaining bits of   *)
(* the top word are not all 1 (NoCarryOK).  With Restrict = FALSE the variant    *)
(* is run on every modulus and TLC exhibits a modulus for which it is wrong      *)
(* (negative self-test: the model bites exactly where the documented             *)
(* precondition says it must).                                                   *)
EXTENDS Integers, Sequences, TLC

CONSTANTS WBits, NLimbs, NoCarry, Restrict

RECURSIVE Pow2(_)
Pow2(k) == IF k = 0 THEN 1 ELSE 2 * Pow2(k-1)
W == Pow2(WBits)
R == Pow2(WBits * NLimbs)
Limb(x, i) == (x \div Pow2(WBits * i)) % W          \* i = 0 least significant
RECURSIVE FromLimbs(_,_)
FromLimbs(t, i) == IF i > Len(t) THEN 0 ELSE t[i] * Pow2(WBits * (i-1)) + FromLimbs(t, i+1)

\* -q^-1 mod W (q odd)
QInvNeg(q) == CHOOSE m \in 0..(W-1) : (m * (q % W) + 1) % W = 0

\* one outer iteration i of CIOS on the accumulator t (sequence of NLimbs + 2 words)
RECURSIVE MulAdd(_,_,_,_,_,_)      \* t[j] += x[j]*yi + C for j = 1..N, returns <<t, C>>
MulAdd(t, x, yi, j, C, N) ==
  IF j > N THEN <<t, C>>
  ELSE LET v == t[j] + Limb(x, j-1) * yi + C
       IN MulAdd([t EXCEPT ![j] = v % W], x, yi, j+1, v \div W, N)
RECURSIVE Reduce(_,_,_,_,_,_)      \* t[j-1] = t[j] + m*q[j] + C for j = 2..N, returns <<t, C>>
Reduce(t, q, m, j, C, N) ==
  IF j > N THEN <<t, C>>
  ELSE LET v == t[j] + m * Limb(q, j-1) + C
       IN Reduce([t EXCEPT ![j-1] = v % W], q, m, j+1, v \div W, N)

Outer(t, x, yi, q) ==
  LET N == NLimbs
      a == MulAdd(t, x, yi, 1, 0, N)
      t1 == a[1]
      s1 == t1[N+1] + a[2]                          \* (t[N+1], t[N]) = t[N] + C
      t2 == [t1 EXCEPT ![N+1] = s1 % W, ![N+2] = IF NoCarry THEN 0 ELSE s1 \div W]
      m == (t2[1] * QInvNeg(q)) % W
      c0 == (t2[1] + m * Limb(q, 0)) \div W
      b == Reduce(t2, q, m, 2, c0, N)
      t3 == b[1]
      s2 == t3[N+1] + b[2]                          \* (C, t[N-1]) = t[N] + C
      t4 == [t3 EXCEPT ![N] = s2 % W, ![N+1] = (t3[N+2] + s2 \div W) % W, ![N+2] = 0]
  IN t4

RECURSIVE Loop(_,_,_,_,_)
Loop(t, x, y, q, i) == IF i >= NLimbs THEN t ELSE Loop(Outer(t, x, Limb(y, i), q), x, y, q, i+1)

MontMul(x, y, q) ==
  LET t == Loop([k \in 1..(NLimbs+2) |-> 0], x, y, q, 0)
      v == FromLimbs(SubSeq(t, 1, NLimbs), 1)
  IN \* final conditional subtraction: if the extra word is set or the value is not below q
     IF t[NLimbs+1] # 0 THEN (v + R - q) % R
     ELSE IF v >= q THEN v - q ELSE v

NoCarryOK(q) == LET top == Limb(q, NLimbs - 1)
                IN top < W \div 2 /\ top # (W \div 2) - 1          \* top bit 0, not all remaining bits 1

VARIABLES q, x, y
vars == <<q, x, y>>
Moduli == {m \in 3..(R-1) : m % 2 = 1 /\ Limb(m, NLimbs-1) # 0 /\ (~(NoCarry /\ Restrict) \/ NoCarryOK(m))}
Init == q \in Moduli /\ x \in 0..(q-1) /\ y \in 0..(q-1)
Next == UNCHANGED vars
Spec == Init /\ [][Next]_vars

\* z*R = x*y (mod q) and z fully reduced
MulCorrect == LET z == MontMul(x, y, q) IN z < q /\ (z * R) % q = (x * y) % q
=============================================================================
