SPECIFICATION Spec
CONSTANTS WBits = 3  NLimbs = 2  NoCarry = FALSE  Restrict = TRUE
INVARIANT MulCorrect
CHECK_DEADLOCK FALSE
