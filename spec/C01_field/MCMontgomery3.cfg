SPECIFICATION Spec
CONSTANTS WBits = 2  NLimbs = 3  NoCarry = FALSE  Restrict = TRUE
INVARIANT MulCorrect
CHECK_DEADLOCK FALSE
