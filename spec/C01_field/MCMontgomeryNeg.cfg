SPECIFICATION Spec
CONSTANTS WBits = 3  NLimbs = 2  NoCarry = TRUE  Restrict = FALSE
INVARIANT MulCorrect
CHECK_DEADLOCK FALSE
