--------------------------- MODULE MCFieldMachine ---------------------------
(* Exhaustive model checking of the field register machine at small primes.   *)
(* State: modulus q (chosen initially from Primes) and two registers holding  *)
(* abstract values.  Every action is one arithmetic entry point with its      *)
(* PrimeField definition; the invariants are the field laws that make these   *)
(* definitions the intended mathematical operations (the oracle judging the   *)
(* real code in TraceField is exactly these operators at cryptographic q).    *)
EXTENDS PrimeField, TLC

Primes == {3, 5, 7, 13, 17, 31, 97}
Exps == {[neg |-> n, mag |-> FromInt(k)] : n \in BOOLEAN, k \in 0..3}

VARIABLES qi, a, b
vars == <<qi, a, b>>
q == FromInt(qi)
Elems == {FromInt(x) : x \in 0..(qi-1)}

Init == qi \in Primes /\ a \in {FromInt(x) : x \in 0..(qi-1)} /\ b = Zero

Op2(f(_,_,_)) == a' = f(q, a, b) /\ UNCHANGED <<qi, b>>
Op1(f(_,_))   == a' = f(q, a) /\ UNCHANGED <<qi, b>>
Next == \/ Op2(FAdd) \/ Op2(FSub) \/ Op2(FMul) \/ Op2(FDiv)
        \/ Op1(FNeg) \/ Op1(FDouble) \/ Op1(FSquare) \/ Op1(FInv) \/ Op1(FHalve)
        \/ \E k \in {3, 5, 13} : a' = FMulSmall(q, a, k) /\ UNCHANGED <<qi, b>>
        \/ \E z \in Exps : a' = FExp(q, a, z) /\ UNCHANGED <<qi, b>>
        \/ (a' = b /\ b' = a /\ UNCHANGED qi)                        \* swap
        \/ (a' = FAdd(q, a, b) /\ b' = FSub(q, a, b) /\ UNCHANGED qi) \* butterfly
Spec == Init /\ [][Next]_vars

Closed == InField(q, a) /\ InField(q, b)

FieldLaws ==
  /\ FAdd(q, a, b) = FAdd(q, b, a) /\ FMul(q, a, b) = FMul(q, b, a)
  /\ FAdd(q, a, Zero) = a /\ FMul(q, a, One) = a /\ FMul(q, a, Zero) = Zero
  /\ FAdd(q, a, FNeg(q, a)) = Zero
  /\ FSub(q, a, b) = FAdd(q, a, FNeg(q, b))
  /\ (a # Zero => FMul(q, a, FInv(q, a)) = One) /\ FInv(q, Zero) = Zero
  /\ FDiv(q, a, b) = FMul(q, a, FInv(q, b))
  /\ FDouble(q, a) = FAdd(q, a, a) /\ FSquare(q, a) = FMul(q, a, a)
  /\ FDouble(q, FHalve(q, a)) = a
  /\ \A c \in Elems : FMul(q, a, FAdd(q, b, c)) = FAdd(q, FMul(q, a, b), FMul(q, a, c))
  /\ \A c \in Elems : FMul(q, FMul(q, a, b), c) = FMul(q, a, FMul(q, b, c))

ExpLaws ==
  /\ FExp(q, a, ZInt(FALSE, Zero)) = One                                   \* x^0 = 1, also 0^0
  /\ FExp(q, a, ZInt(FALSE, Pred(q))) = (IF a = Zero THEN Zero ELSE One)   \* Fermat
  /\ FExp(q, a, ZInt(TRUE, One)) = FInv(q, a)
  /\ \A k \in 0..4 : FExp(q, a, ZInt(TRUE, FromInt(k))) = FInv(q, FExp(q, a, ZInt(FALSE, FromInt(k))))
  /\ \A k \in 0..3 : FExp(q, a, ZInt(FALSE, FromInt(k + 1))) = FMul(q, a, FExp(q, a, ZInt(FALSE, FromInt(k))))
  /\ FExp(q, a, ZInt(FALSE, Add(q, Two))) = FMul(q, a, FSquare(q, a))      \* exponent q+2 = 3 mod (q-1)

\* Euler criterion <=> existence of a root; Legendre multiplicative
SquareLaws ==
  /\ FIsSquare(q, a) <=> \E x \in Elems : FSquare(q, x) = a
  /\ FLegendre(q, FMul(q, a, b)) = FLegendre(q, a) * FLegendre(q, b)
  /\ FLexLargest(q, a) <=> (a # Zero /\ ~FLexLargest(q, FNeg(q, a)))

\* Montgomery projection is a bijection compatible with the operations (R = 2^8 here)
MontLaws ==
  LET R == FromInt(256) IN
  /\ FromMont(q, R, ToMont(q, R, a)) = a
  /\ ToMont(q, R, FMul(q, a, b)) = FMul(q, FMul(q, ToMont(q, R, a), ToMont(q, R, b)), FInv(q, Mod(R, q)))
=============================================================================
