SPECIFICATION Spec
INVARIANTS Closed FieldLaws ExpLaws SquareLaws MontLaws
CHECK_DEADLOCK FALSE
