----------------------------- MODULE TraceField -----------------------------
(* Trace validation for C01: the register machine over raw (Montgomery)       *)
(* field elements.  Every event of the harness log is one action; the logged  *)
(* raw limbs are projected by val == FromMont and judged against PrimeField.   *)
(* Rejected events are accumulated in `bad` with a reason, never blocking.     *)
EXTENDS TraceKernel, PrimeField, FieldParams

VARIABLE regs          \* register index (0..3) -> raw limbs as BigNat

P == FieldP(Hdr.field)
q == P.q
R == Shl(One, P.w * P.n)
RmodQ == Mod(R, q)
Rinv == InvMod(RmodQ, q)
val(raw) == MulMod(raw, Rinv, q)
Canon(raw) == InField(q, raw)
TwoTo64 == Shl(One, 64)

Init == KInit /\ regs = [i \in 0..3 |-> Zero]

S(e, i) == regs[e.s[i]]                 \* raw source operand i (1-based)
V(e, i) == val(regs[e.s[i]])            \* its abstract value

\* judgement of a value-producing event: canonical and equal to the expected abstract value
Arith(e, expected) ==
  IF Panicked(e) THEN {"panic"}
  ELSE IF ~Canon(e.out) THEN {"noncanonical"}
  ELSE IF val(e.out) # expected THEN {"value"} ELSE {}

RawIs(e, expectedRaw) ==
  IF Panicked(e) THEN {"panic"} ELSE IF e.out # expectedRaw THEN {"value"} ELSE {}

Ret(e, expected) ==
  IF Panicked(e) THEN {"panic"} ELSE IF e.ret # expected THEN {"ret"} ELSE {}

Vals(v) == [i \in 1..Len(v) |-> val(v[i])]
AllCanon(v) == \A i \in 1..Len(v) : Canon(v[i])

\* element-wise vector result
VecJudge(e, mismatch, expected) ==
  IF mismatch THEN (IF Panicked(e) THEN {} ELSE {"nopanic"})
  ELSE IF Panicked(e) THEN {"panic"}
  ELSE (IF Len(e.vout) # Len(expected) THEN {"length"}
        ELSE IF ~AllCanon(e.vout) THEN {"noncanonical"}
        ELSE IF \E i \in 1..Len(expected) : val(e.vout[i]) # expected[i] THEN {"value"} ELSE {})
       \cup (IF e.vaafter # e.va THEN {"mutated"} ELSE {})
       \cup (IF Has(e, "vb") /\ e.vbafter # e.vb THEN {"mutated"} ELSE {})

ScalarJudge(e, mismatch, expected) ==
  IF mismatch THEN (IF Panicked(e) THEN {} ELSE {"nopanic"})
  ELSE Arith(e, expected)
       \cup (IF ~Panicked(e) /\ e.vaafter # e.va THEN {"mutated"} ELSE {})
       \cup (IF ~Panicked(e) /\ Has(e, "vb") /\ e.vbafter # e.vb THEN {"mutated"} ELSE {})

Judge(e) ==
  CASE e.op = "Load"    -> IF Canon(e.out) THEN {} ELSE {"badload"}
    [] e.op = "Dump"    -> IF \A i \in 0..3 : e.regs[i+1] = regs[i] THEN {} ELSE {"clobber"}
    [] e.op = "Add"     -> Arith(e, FAdd(q, V(e,1), V(e,2)))
    [] e.op = "Sub"     -> Arith(e, FSub(q, V(e,1), V(e,2)))
    [] e.op = "Mul"     -> Arith(e, FMul(q, V(e,1), V(e,2)))
    [] e.op = "Div"     -> Arith(e, FDiv(q, V(e,1), V(e,2)))
    [] e.op = "Neg"     -> Arith(e, FNeg(q, V(e,1)))
    [] e.op = "Double"  -> Arith(e, FDouble(q, V(e,1)))
    [] e.op = "Square"  -> Arith(e, FSquare(q, V(e,1)))
    [] e.op = "Inverse" -> Arith(e, FInv(q, V(e,1)))
    [] e.op = "Set"     -> RawIs(e, S(e,1))
    [] e.op = "Halve"   -> Arith(e, FHalve(q, val(regs[e.d])))
    [] e.op = "MulBy3"  -> Arith(e, FMulSmall(q, val(regs[e.d]), 3))
    [] e.op = "MulBy5"  -> Arith(e, FMulSmall(q, val(regs[e.d]), 5))
    [] e.op = "MulBy13" -> Arith(e, FMulSmall(q, val(regs[e.d]), 13))
    [] e.op = "Exp"     -> Arith(e, FExp(q, V(e,1), e.k))
    [] e.op = "Mul2ExpNegN" -> Arith(e, FMul(q, V(e,1), FInv(q, PowMod(Two, FromInt(e.n), q))))
    [] e.op = "Select"  -> RawIs(e, IF e.c = 0 THEN S(e,1) ELSE S(e,2))
    [] e.op = "SetZero" -> RawIs(e, Zero)
    [] e.op = "SetOne"  -> Arith(e, One)
    [] e.op = "SetRandom" -> IF Panicked(e) THEN {"panic"} ELSE IF Canon(e.out) THEN {} ELSE {"noncanonical"}
    [] e.op = "Sqrt"    ->
         IF Panicked(e) THEN {"panic"}
         ELSE IF FIsSquare(q, V(e,1))
              THEN (IF e.nil THEN {"nil"}
                    ELSE IF ~Canon(e.out) THEN {"noncanonical"}
                    ELSE IF FSquare(q, val(e.out)) # V(e,1) THEN {"value"} ELSE {})
              ELSE (IF e.nil THEN {} ELSE {"notnil"})
    [] e.op = "Butterfly" ->
         IF Panicked(e) THEN {"panic"}
         ELSE (IF ~Canon(e.out) \/ ~Canon(e.out2) THEN {"noncanonical"} ELSE {})
              \cup (IF val(e.out) # FAdd(q, val(regs[e.d]), V(e,1)) THEN {"value"} ELSE {})
              \cup (IF val(e.out2) # FSub(q, val(regs[e.d]), V(e,1)) THEN {"value2"} ELSE {})
    [] e.op = "IsZero"  -> Ret(e, V(e,1) = Zero)
    [] e.op = "IsOne"   -> Ret(e, V(e,1) = One)
    [] e.op = "Legendre" -> Ret(e, FLegendre(q, V(e,1)))
    [] e.op = "LexicographicallyLargest" -> Ret(e, FLexLargest(q, V(e,1)))
    [] e.op = "IsUint64" -> Ret(e, BitLen(V(e,1)) <= 64)
    [] e.op = "FitsOnOneWord" -> Ret(e, BitLen(S(e,1)) <= P.w)          \* documented on the raw limbs
    [] e.op = "BitLen"  -> Ret(e, BitLen(S(e,1)))                        \* documented on the raw limbs
    [] e.op = "Uint64"  -> IF Panicked(e) THEN {"panic"}
                           ELSE IF BitLen(V(e,1)) <= 64 /\ e.retn # V(e,1) THEN {"ret"} ELSE {}
    [] e.op = "Cmp"     -> Ret(e, Cmp(V(e,1), V(e,2)))
    [] e.op = "Equal"   -> Ret(e, V(e,1) = V(e,2))
    [] e.op = "NotEqual" -> Ret(e, IF V(e,1) = V(e,2) THEN 0 ELSE 1)
    [] e.op = "BatchInvert" ->
         IF Panicked(e) THEN {"panic"}
         ELSE (IF Len(e.vout) # Len(e.vin) THEN {"length"}
               ELSE IF ~AllCanon(e.vout) THEN {"noncanonical"}
               ELSE IF \E i \in 1..Len(e.vin) : val(e.vout[i]) # FInv(q, val(e.vin[i])) THEN {"value"} ELSE {})
              \cup (IF e.vafter # e.vin THEN {"mutated"} ELSE {})
    [] e.op = "VecAdd"  -> VecJudge(e, Len(e.va) # Len(e.vb) \/ Len(e.va) # e.lr,
                                    [i \in 1..Len(e.va) |-> FAdd(q, val(e.va[i]), val(e.vb[i]))])
    [] e.op = "VecSub"  -> VecJudge(e, Len(e.va) # Len(e.vb) \/ Len(e.va) # e.lr,
                                    [i \in 1..Len(e.va) |-> FSub(q, val(e.va[i]), val(e.vb[i]))])
    [] e.op = "VecMul"  -> VecJudge(e, Len(e.va) # Len(e.vb) \/ Len(e.va) # e.lr,
                                    [i \in 1..Len(e.va) |-> FMul(q, val(e.va[i]), val(e.vb[i]))])
    [] e.op = "VecScalarMul" -> VecJudge(e, Len(e.va) # e.lr,
                                    [i \in 1..Len(e.va) |-> FMul(q, val(e.va[i]), val(e.x))])
    \* sort.Sort over Vector's sort.Interface: a permutation of the operand, ascending in VALUE (Less is Cmp = -1)
    [] e.op = "VecSort" ->
         IF Panicked(e) THEN {"panic"}
         ELSE IF Len(e.vout) # Len(e.va) THEN {"length"}
         ELSE IF ~AllCanon(e.vout) THEN {"noncanonical"}
         ELSE (IF \E i \in 1..(Len(e.vout)-1) : Lt(val(e.vout[i+1]), val(e.vout[i])) THEN {"order"} ELSE {})
              \cup (IF \E i \in 1..Len(e.va) : Cardinality({j \in 1..Len(e.va) : e.vout[j] = e.va[i]})
                                                # Cardinality({j \in 1..Len(e.va) : e.va[j] = e.va[i]}) THEN {"not-a-permutation"} ELSE {})
    [] e.op = "VecSum"  -> ScalarJudge(e, FALSE, FSum(q, Vals(e.va)))
    [] e.op = "VecInnerProduct" -> ScalarJudge(e, Len(e.va) # Len(e.vb),
                                    IF Len(e.va) # Len(e.vb) THEN Zero ELSE FDot(q, Vals(e.va), Vals(e.vb)))
    [] OTHER -> {"unknown-op"}

NextRegs(e) ==
  IF Has(e, "d") /\ Has(e, "out")
  THEN IF e.op = "Butterfly" THEN [regs EXCEPT ![e.d] = e.out, ![e.s[1]] = e.out2]
       ELSE [regs EXCEPT ![e.d] = e.out]
  ELSE regs

Step == /\ HasNext
        /\ Advance(Judge(Ev))
        /\ regs' = NextRegs(Ev)

Next == Step \/ (Finish /\ UNCHANGED regs)
Spec == Init /\ [][Next]_<<l, bad, regs>>
=============================================================================
