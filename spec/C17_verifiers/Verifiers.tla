------------------------------ MODULE Verifiers ------------------------------
(* C17 - argument-system verifiers accept honest proofs and reject well-formed  *)
(* forgeries.  One abstract machine for the thirteen Verify entry points of the  *)
(* eight proof systems of gnark-crypto.                                          *)
(*                                                                               *)
(* Abstract state                                                                *)
(*   vs       the entry point under test ("" before the first Prove)             *)
(*   forged   the forgery operators applied to the honest (statement, proof)     *)
(*            object since the last Prove                                        *)
(*   broken   the verifier checks those operators falsify                        *)
(*   verdict  reply of the last Verify ("none" | "accept" | "reject")            *)
(*   failing  the first check, in the order of the code, that made it reject     *)
(* Actions = the public entry points: Prove(s) (the library's prover on an       *)
(* admissible true statement), Forge(op) (the adversary edits one component or   *)
(* mounts a named multi-component forgery), Verify.                              *)
(*                                                                               *)
(* Per entry point s the table V[s] transcribes the verifier FROM THE CODE:      *)
(*   checks  the checks it is supposed to perform, in code order.  Checks the    *)
(*           property's mechanism list names but the code does not contain are   *)
(*           listed too; the constant Absent says which ones an implementation   *)
(*           lacks (Absent = {} is the intended design, AsCode = what was found) *)
(*   reads   component class -> checks falsified (with overwhelming probability  *)
(*           over the Fiat-Shamir challenges) when that single component is      *)
(*           replaced by a different value: random, zero/identity, the value     *)
(*           from another honest proof, or a shifted value.  A component a check *)
(*           reads only through a challenge is listed with that check.  {} = a   *)
(*           component no check depends on (substituting it must be accepted).   *)
(*   tgt     named multi-component forgeries built by the harness with the real  *)
(*           prover's pieces -> the checks they falsify (all others are kept     *)
(*           true by construction).                                              *)
(* The property: Verify accepts <=> broken = {} (Sound/Complete), every check is *)
(* the only broken one for some operator (IndividuallyNecessary).                *)
EXTENDS Naturals, Sequences, FiniteSets, TLC

CONSTANTS Absent,     \* set of <<entry point, check>> the implementation does not perform
          MaxOps,     \* model checking only: number of operators composed on one proof
          DropOps     \* self-test only: named forgeries <<entry point, name>> withheld from the catalogue

Kinds == {"random", "zero", "other", "shift"}

KZG3 == {"identity", "batch-kzg", "shift-kzg"}

V == [
  \* ecc/*/fr/pedersen  VerifyingKey.Verify(commitment, knowledgeProof): e(C, -sigma G2) e(pok, G2) = 1
  pedersen |-> [
    checks |-> <<"subgroup", "pairing">>,
    reads  |-> [commitment |-> {"pairing"}, pok |-> {"pairing"}, vkG |-> {"pairing"}, vkGSigmaNeg |-> {"pairing"}],
    tgt    |-> [offgroup |-> {"subgroup"}, wrongsigma |-> {"pairing"}]],
  \* BatchVerifyMultiVk(vk[], commitments[], pok[], combinationCoeff)
  pedersenbatch |-> [
    checks |-> <<"lengths", "subgroup", "sameG2", "pairing">>,
    reads  |-> [commitment |-> {"pairing"}, pok |-> {"pairing"}, coeff |-> {"pairing"},
                vkGSigmaNeg |-> {"pairing"}, vkGi |-> {"sameG2"}, vkG0 |-> {"sameG2", "pairing"}],
    tgt    |-> [lencommitments |-> {"lengths"}, lenpok |-> {"lengths"}, offgroup |-> {"subgroup"}, wrongsigma |-> {"pairing"}]],
  \* ecc/*/shplonk BatchVerify: gamma, z by Fiat-Shamir, then e(F + zW', [1]) = e(W', [x]).
  \* fsbind: the folding challenge must be bound to everything the prover chooses before it, the claimed values included
  shplonk |-> [
    checks |-> <<"lengths", "fsbind", "quotient">>,
    reads  |-> [W |-> {"quotient"}, WPrime |-> {"quotient"}, cv |-> {"quotient"}, digest |-> {"quotient"},
                point |-> {"quotient"}, data |-> {"quotient"}, vk |-> {"quotient"}],
    tgt    |-> [lencv |-> {"lengths"}, lenpoints |-> {"lengths"}, cancelcommon |-> {"fsbind"}, falsevalue |-> {"quotient"}]],
  \* ecc/*/fflonk BatchVerify: outer claimed values fold to the inner ones, then shplonk
  fflonk |-> [
    checks |-> <<"shape", "folding", "lengths", "fsbind", "quotient">>,
    reads  |-> [cvouter |-> {"folding"}, cvinner |-> {"folding", "quotient"}, W |-> {"quotient"}, WPrime |-> {"quotient"},
                digest |-> {"quotient"}, point |-> {"folding", "quotient"}, data |-> {"quotient"}, vk |-> {"quotient"}],
    tgt    |-> [shapeouter |-> {"shape"}, leninner |-> {"lengths"}, consistentcv |-> {"quotient"}, cancelcommon |-> {"fsbind"}]],
  \* ecc/*/fr/permutation Verify(vk, proof)
  \* size-pow2: the claimed size must be a power of two (what Prove enforces), otherwise "g has order size" is not what
  \* the order test g^(size/2) # 1, g^(2(size/2)) = 1 establishes and the domain is not the orbit of g
  permutation |-> [
    checks |-> <<"identity", "batch-kzg", "shift-kzg", "size-pow2", "generator">>,
    reads  |-> [size |-> {"identity", "size-pow2", "generator"}, g |-> {"shift-kzg", "generator"},
                t1 |-> {"identity", "batch-kzg"}, t2 |-> {"identity", "batch-kzg"},
                z |-> KZG3, q |-> KZG3,
                batchedH |-> {"batch-kzg"}, batchedcv |-> {"identity", "batch-kzg"},
                shiftedH |-> {"shift-kzg"}, shiftedcv |-> {"identity", "shift-kzg"}, vk |-> {"batch-kzg", "shift-kzg"}],
    tgt    |-> [falsestatement |-> {"identity"}, compensatedcv |-> {"batch-kzg"}, freegenerator |-> {"generator"},
                oddsize |-> {"size-pow2"}]],
  \* ecc/*/fr/plookup VerifyLookupVector(vk, proof)
  plookupvec |-> [
    checks |-> <<"batch-kzg", "shift-kzg", "size-pow2", "generator", "identity">>,
    reads  |-> [size |-> {"size-pow2", "generator", "identity"}, g |-> {"shift-kzg", "generator", "identity"},
                h1 |-> KZG3, h2 |-> KZG3, t |-> KZG3, z |-> KZG3, f |-> {"identity", "batch-kzg"}, h |-> KZG3,
                batchedH |-> {"batch-kzg"}, batchedcv |-> {"identity", "batch-kzg"},
                shiftedH |-> {"shift-kzg"}, shiftedcv |-> {"identity", "shift-kzg"}, vk |-> {"batch-kzg", "shift-kzg"}],
    tgt    |-> [falsestatement |-> {"identity"}, compensatedcv |-> {"batch-kzg"}, oddsize |-> {"size-pow2"}]],
  \* VerifyLookupTables(vk, proof): fold rows with lambda, folded f = inner f, the permutation argument must
  \* tie the folded t rows to the inner (sorted) t (permlink), inner lookup
  plookuptab |-> [
    checks |-> <<"lengths", "folded-f", "permutation", "permlink", "lookup">>,
    reads  |-> [fs |-> {"folded-f"}, ts |-> {"folded-f", "permlink"},
                foldedf |-> {"folded-f", "lookup"}, foldedt |-> {"permlink", "lookup"}, foldedother |-> {"lookup"},
                permt |-> {"permutation", "permlink"}, permother |-> {"permutation"}, vk |-> {"permutation", "lookup"}],
    tgt    |-> [lents |-> {"lengths"}, otherperm |-> {"permlink"}, faketable |-> {"permlink"}, falsestatement |-> {"lookup"}]],
  \* ecc/*/fr/fri VerifyProofOfProximity(proof)
  fripp |-> [
    checks |-> <<"merkle-full", "merkle-neighbour", "root-equal", "folding", "final">>,
    reads  |-> [root0 |-> {"merkle-full", "merkle-neighbour", "root-equal", "folding", "final"},
                root1 |-> {"merkle-full", "merkle-neighbour", "root-equal"},
                leaffull |-> {"merkle-full", "folding", "final"}, leafnb |-> {"merkle-neighbour", "folding", "final"},
                sibfull |-> {"merkle-full"}, sibnb |-> {"merkle-neighbour"}, path |-> {"merkle-full", "merkle-neighbour"},
                numleaves |-> {"merkle-full", "merkle-neighbour"},
                evaluation |-> {"merkle-full", "merkle-neighbour", "folding", "final"}, id |-> {}],
    \* farfunction: the library prover run on a function far from the code - caught by the single query with
    \* probability 1 - 1/rho only (const nbRounds = 1): the trace specification accepts both verdicts for it
    tgt    |-> [freeentry1 |-> {"root-equal"}, corruptlevel |-> {"folding"}, shiftevaluation |-> {"final"}, farfunction |-> {"final"}]],
  \* VerifyOpening(position, openingProof, pp)
  friopen |-> [
    checks |-> <<"root-match", "merkle-path", "claimed-value">>,
    reads  |-> [merkleroot |-> {"root-match", "merkle-path"}, leaf |-> {"merkle-path", "claimed-value"}, sibling |-> {"merkle-path"},
                numleaves |-> {"merkle-path"}, position |-> {"merkle-path"}, claimedvalue |-> {"claimed-value"}, index |-> {}],
    tgt    |-> [otherpolynomial |-> {"root-match"}]],
  \* field/koalabear/vortex Params.Verify(input)
  vortex |-> [
    checks |-> <<"claim", "rs", "column-merkle", "colcomb">>,
    reads  |-> [ualphasel |-> {"claim", "rs", "colcomb"}, ualphaunsel |-> {"claim", "rs"},
                column |-> {"column-merkle", "colcomb"}, merkleproof |-> {"column-merkle"}, merkleroot |-> {"column-merkle"},
                cv |-> {"claim"}, x |-> {"claim"}, alpha |-> {"claim", "colcomb"}, selected |-> {"column-merkle", "colcomb"}],
    tgt    |-> [shiftcodeword |-> {"colcomb"}, shiftconstantclaim |-> {"colcomb"}, noncodeword |-> {"rs"}]],
  \* ecc/*/mpcsetup UpdateProof.Verify(challenge, dst, representations...)
  mpcupdate |-> [
    checks |-> <<"subgroup", "nonzero", "types", "pok", "g1-update", "g2-update">>,
    reads  |-> [commitment |-> {"pok", "g2-update"}, pok |-> {"pok", "g1-update"}, challenge |-> {"pok", "g1-update"}, dst |-> {"pok", "g1-update"},
                g1next |-> {"g1-update"}, g1prev |-> {"g1-update"}, g2next |-> {"g2-update"}, g2prev |-> {"g2-update"}],
    tgt    |-> [offgroup |-> {"subgroup"}, zerocontribution |-> {"nonzero"}, lenmismatch |-> {"types"}, wrongpok |-> {"pok"}]],
  \* SameRatioMany(slices...)
  mpcratio |-> [
    checks |-> <<"minlength", "bothgroups", "nonzero", "pairing">>,
    reads  |-> [g1elem |-> {"pairing"}, g2elem |-> {"pairing"}],
    tgt    |-> [shortslice |-> {"minlength"}, onegroup |-> {"bothgroups"}, zerofirst |-> {"nonzero"}, otherratio |-> {"pairing"}, mirrored |-> {"pairing"}]],
  \* ecc/*/kzg MpcSetup.Verify(next): the NEXT srs must be a geometric sequence with the ratio of the next [x]_2
  mpckzg |-> [
    checks |-> <<"challenge", "size", "subgroup", "update-proof", "next-ratio">>,
    reads  |-> [challenge |-> {"challenge"}, g1power |-> {"next-ratio"}, g2 |-> {"update-proof", "next-ratio"},
                proofcommitment |-> {"update-proof"}, proofpok |-> {"update-proof"}],
    tgt    |-> [sizemismatch |-> {"size"}, offgroup |-> {"subgroup"}, notgeometric |-> {"next-ratio"}, rescaled |-> {"update-proof"}]]
]

Schemes == DOMAIN V
Checks(s) == {V[s].checks[i] : i \in 1..Len(V[s].checks)}
Comps(s) == DOMAIN V[s].reads
Tgts(s) == DOMAIN V[s].tgt

\* checks no operator of the catalogue isolates, with the reason (the catalogue is grown when TLC reports another one)
NotIsolated == {
  <<"plookupvec", "generator">>    \* a free-generator forgery needs h1, h2, t, z of degree 2n with coupled constraints: not built
}
\* components no check depends on: substituting them must be ACCEPTED
Free == {<<"fripp", "id">>,        \* ProofOfProximity.ID is never read
         <<"friopen", "index">>}   \* OpeningProof.index: the verifier takes the position from its own argument
\* single substitutions the documented behaviour accepts: an empty next.challenge means "not provided"
NeutralSub == {<<"mpckzg", "challenge", "zero">>}

SubOp(c, k) == [k |-> "sub", c |-> c, s |-> k]
TgtOp(n) == [k |-> "tgt", c |-> n, s |-> ""]
Ops(s) == {SubOp(c, k) : c \in Comps(s), k \in Kinds} \cup {TgtOp(n) : n \in {n \in Tgts(s) : <<s, n>> \notin DropOps}}

\* the checks one operator falsifies
Breaks(s, op) == IF op.k = "sub" THEN (IF <<s, op.c, op.s>> \in NeutralSub THEN {} ELSE V[s].reads[op.c])
                 ELSE V[s].tgt[op.c]
BrokenBy(s, ops) == UNION {Breaks(s, op) : op \in ops}
AbsentOf(s) == {c \in Checks(s) : <<s, c>> \in Absent}
\* what an implementation lacking AbsentOf(s) replies
Effective(s, br) == br \ AbsentOf(s)
VerdictOf(s, br) == IF Effective(s, br) = {} THEN "accept" ELSE "reject"
FirstFailing(s, br) ==
  LET eff == Effective(s, br) IN
  IF eff = {} THEN "" ELSE V[s].checks[CHOOSE i \in 1..Len(V[s].checks) : V[s].checks[i] \in eff /\ \A j \in 1..(i - 1) : V[s].checks[j] \notin eff]

VARIABLES vs, forged, broken, verdict, failing
mvars == <<vs, forged, broken, verdict, failing>>

MInit == vs = "" /\ forged = {} /\ broken = {} /\ verdict = "none" /\ failing = ""

\* the library's prover on an admissible, true statement of entry point s
Prove(s) == vs' = s /\ forged' = {} /\ broken' = {} /\ verdict' = "none" /\ failing' = ""
\* the adversary applies one more operator
Forge(op) == /\ vs # "" /\ op \in Ops(vs) /\ op \notin forged
             /\ forged' = forged \cup {op}
             /\ broken' = broken \cup Breaks(vs, op)
             /\ verdict' = "none" /\ failing' = ""
             /\ UNCHANGED vs
\* the verifier entry point
Verify == /\ vs # ""
          /\ verdict' = VerdictOf(vs, broken)
          /\ failing' = FirstFailing(vs, broken)
          /\ UNCHANGED <<vs, forged, broken>>

MNext == \/ \E s \in Schemes : Prove(s)
         \/ (vs # "" /\ Cardinality(forged) < MaxOps /\ \E op \in Ops(vs) : Forge(op))
         \/ Verify
MSpec == MInit /\ [][MNext]_mvars

-------------------------------------------------------------------------------
\* the tables are well formed
TablesOK == \A s \in Schemes :
  /\ \A c \in Comps(s) : V[s].reads[c] \subseteq Checks(s)
  /\ \A n \in Tgts(s) : V[s].tgt[n] \subseteq Checks(s) /\ V[s].tgt[n] # {}
  /\ \A i, j \in 1..Len(V[s].checks) : i # j => V[s].checks[i] # V[s].checks[j]
  /\ \A p \in NotIsolated : p[1] \in Schemes /\ p[2] \in Checks(p[1])
  /\ \A p \in Absent : p[1] \in Schemes /\ p[2] \in Checks(p[1])

\* completeness: an honest proof of a true statement is accepted
Complete == (verdict # "none" /\ forged = {}) => verdict = "accept"
\* soundness on the catalogue: whatever is accepted falsifies no check
Sound == verdict = "accept" => broken = {}
\* ... and the two together: acceptance coincides with "no check is falsified"
AcceptIffUnbroken == verdict # "none" => (verdict = "accept" <=> broken = {})
\* the error reported is the first falsified check in code order
FirstInOrder == verdict = "reject" => (failing \in broken /\ failing = FirstFailing(vs, broken))
\* every check is the only falsified one for some operator (individually necessary), unless listed with a reason
IndividuallyNecessary == \A s \in Schemes : \A c \in Checks(s) :
  (\E op \in Ops(s) : Breaks(s, op) = {c}) \/ <<s, c>> \in NotIsolated
\* ... and every check is falsified by some operator at all (no check is out of reach of the catalogue)
EveryCheckReached == \A s \in Schemes : \A c \in Checks(s) : \E op \in Ops(s) : c \in Breaks(s, op)
\* the isolation exemptions are not stale
ExemptionsNeeded == \A p \in NotIsolated : ~\E op \in Ops(p[1]) : Breaks(p[1], op) = {p[2]}
\* a component no check reads is declared as such, and only those
NoSilentFree == \A s \in Schemes : \A c \in Comps(s) : (V[s].reads[c] = {}) <=> (<<s, c>> \in Free)
=============================================================================
