SPECIFICATION Spec
CONSTANTS
  RR = 5
  N = 2
INVARIANTS SingleIff BatchComplete BatchSound FoldedIff
CHECK_DEADLOCK FALSE
