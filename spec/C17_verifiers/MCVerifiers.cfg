SPECIFICATION MSpec
CONSTANTS
  Absent <- NoneAbsent
  DropOps <- NoDrop
  MaxOps = 2
INVARIANTS Complete Sound AcceptIffUnbroken FirstInOrder
CHECK_DEADLOCK FALSE
