SPECIFICATION MSpec
CONSTANTS
  Absent <- NoneAbsent
  DropOps <- DropVortex
  MaxOps = 1
INVARIANTS Sound
CHECK_DEADLOCK FALSE
