SPECIFICATION Spec
CONSTANTS
  RR = 3
  N = 2
INVARIANTS SingleIff BatchComplete BatchSound FoldedIff
CHECK_DEADLOCK FALSE
