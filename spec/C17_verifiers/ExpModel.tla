------------------------------ MODULE ExpModel ------------------------------
(* The pairing checks of the known-trapdoor schemes stated in the exponent:      *)
(* every group element is written [s]G for the generator G of its group, the     *)
(* pairing e([a]G1, [b]G2) = e(G1, G2)^(a b), so a product of pairings is one    *)
(* iff the corresponding bilinear form vanishes modulo the group order r.        *)
(* Scalars are BigNat values below r.  Used at r = 5, 7 by MCExponent            *)
(* (exhaustive) and at the real group orders by TraceVerifiers.                  *)
EXTENDS BigNat, SequencesExt

XMul(r, a, b) == MulMod(a, b, r)
XAdd(r, a, b) == AddMod(a, b, r)
XSum(r, f(_), n) == FoldLeft(LAMBDA acc, i : AddMod(acc, f(i), r), Zero, [i \in 1..n |-> i])
XPow(r, a, k) == PowMod(a, FromInt(k), r)

\* Pedersen VerifyingKey.Verify: e(C, GSigmaNeg) e(pok, G) = 1 with C = [c]G1, pok = [p]G1, G = [g]G2, GSigmaNeg = [gs]G2
PedAccept1(r, c, p, g, gs) == XAdd(r, XMul(r, c, gs), XMul(r, p, g)) = Zero
\* an honest key: gs = -sigma g; the relation the scheme is meant to enforce: p = sigma c
PedHonestGS(r, sigma, g) == SubMod(Zero, XMul(r, sigma, g), r)

\* BatchVerifyMultiVk with coefficient rho: prod_i e([rho^(i-1)] C_i, GS_i) e(fold(pok), G_1) = 1,
\* fold(pok) = sum_i rho^(i-1) pok_i, or pok_1 when a single (already folded) proof is given
PedFold(r, rho, p) == IF Len(p) = 1 THEN p[1] ELSE XSum(r, LAMBDA i : XMul(r, XPow(r, rho, i - 1), p[i]), Len(p))
PedAcceptN(r, rho, c, p, g1, gs) ==
  XAdd(r, XSum(r, LAMBDA i : XMul(r, XPow(r, rho, i - 1), XMul(r, c[i], gs[i])), Len(c)), XMul(r, PedFold(r, rho, p), g1)) = Zero

\* same ratio: all sequences geometric with the common ratio rho
Geometric(r, s, rho) == \A j \in 1..(Len(s) - 1) : s[j + 1] = XMul(r, rho, s[j])
=============================================================================
