SPECIFICATION MSpec
CONSTANTS
  Absent <- DropOne
  DropOps <- NoDrop
  MaxOps = 1
INVARIANTS Sound
CHECK_DEADLOCK FALSE
