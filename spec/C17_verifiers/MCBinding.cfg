SPECIFICATION Spec
CONSTANTS
  P = 7
  Bound = TRUE
INVARIANTS Complete Sound1 NoLateForgery
CHECK_DEADLOCK FALSE
