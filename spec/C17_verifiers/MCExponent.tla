----------------------------- MODULE MCExponent -----------------------------
(* Exhaustive check, at a toy group order RR, that the exponent form of the       *)
(* Pedersen checks (ExpModel) enforces exactly the relation the scheme is meant   *)
(* to enforce.  State: a key per commitment (trapdoor sigma_i, common G2 scalar   *)
(* g), commitments c_i, proofs p_i (all scalars), chosen arbitrarily; actions:    *)
(* VerifySingle(i), VerifyBatch(rho) (individual proofs) and VerifyFolded(rho)    *)
(* (the prover folded the proofs with rho).                                       *)
(*   SingleIff     Verify accepts  <=>  p_i = sigma_i c_i                         *)
(*   BatchComplete all proofs valid => every rho accepts                          *)
(*   BatchSound    some proof invalid => at most N-1 of the RR coefficients       *)
(*                 accept (Schwartz-Zippel: the verdict is a polynomial of degree *)
(*                 < N in rho) - the soundness error of the batch check           *)
(*   FoldedIff     a folded proof is accepted <=> it is sum rho^(i-1) sigma_i c_i *)
EXTENDS ExpModel, Naturals, FiniteSets, TLC

CONSTANTS RR, N
r == FromInt(RR)
S == {FromInt(x) : x \in 0..(RR - 1)}
SNZ == {FromInt(x) : x \in 1..(RR - 1)}

VARIABLES g, sigma, c, p, last, verdict
vars == <<g, sigma, c, p, last, verdict>>

Init == /\ g \in SNZ /\ sigma \in [1..N -> SNZ] /\ c \in [1..N -> S] /\ p \in [1..N -> S]
        /\ last = <<"none">> /\ verdict = "none"
GS == [i \in 1..N |-> PedHonestGS(r, sigma[i], g)]
V(b) == IF b THEN "accept" ELSE "reject"
VerifySingle(i) == /\ verdict' = V(PedAccept1(r, c[i], p[i], g, GS[i])) /\ last' = <<"single", i>>
                   /\ UNCHANGED <<g, sigma, c, p>>
VerifyBatch(rho) == /\ verdict' = V(PedAcceptN(r, rho, c, p, g, GS)) /\ last' = <<"batch", rho>>
                    /\ UNCHANGED <<g, sigma, c, p>>
\* p[1] plays the role of the single folded proof
VerifyFolded(rho) == /\ verdict' = V(PedAcceptN(r, rho, c, <<p[1]>>, g, GS)) /\ last' = <<"folded", rho>>
                     /\ UNCHANGED <<g, sigma, c, p>>
Next == (\E i \in 1..N : VerifySingle(i)) \/ (\E rho \in S : VerifyBatch(rho) \/ VerifyFolded(rho))
Spec == Init /\ [][Next]_vars

Valid(i) == p[i] = XMul(r, sigma[i], c[i])
SingleIff == last[1] = "single" => (verdict = "accept" <=> Valid(last[2]))
Accepting == {rho \in S : PedAcceptN(r, rho, c, p, g, GS)}
BatchComplete == (\A i \in 1..N : Valid(i)) => Accepting = S
BatchSound == (\E i \in 1..N : ~Valid(i)) => Cardinality(Accepting) <= N - 1
FoldedIff == last[1] = "folded" =>
  (verdict = "accept" <=> p[1] = XSum(r, LAMBDA i : XMul(r, XPow(r, last[2], i - 1), XMul(r, sigma[i], c[i])), N))
\* negative self-test: "a batch is accepted only if every proof is valid" is FALSE for a fixed coefficient
BatchExact == last[1] = "batch" => (verdict = "accept" => \A i \in 1..N : Valid(i))
=============================================================================
