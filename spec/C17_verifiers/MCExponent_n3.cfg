SPECIFICATION Spec
CONSTANTS
  RR = 3
  N = 3
INVARIANTS SingleIff BatchComplete BatchSound FoldedIff
CHECK_DEADLOCK FALSE
