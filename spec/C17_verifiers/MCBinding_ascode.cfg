SPECIFICATION Spec
CONSTANTS
  P = 7
  Bound = FALSE
INVARIANTS NoLateForgery
CHECK_DEADLOCK FALSE
