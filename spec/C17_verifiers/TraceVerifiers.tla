---------------------------- MODULE TraceVerifiers ----------------------------
(* Trace validation for C17: replays the ndjson logs of harness/c17*.go - one    *)
(* event per call of a real prover / verifier entry point - against the machine  *)
(* Verifiers (intended design: Absent = {}) and judges every reply.              *)
(*                                                                               *)
(* Events (header: family, curve, fr = scalar field name)                        *)
(*   Prove / PedSetup / PedCommit / PedBatchProve   the real prover (or the      *)
(*       forger, fn = "forger") produced the object of scenario sc; the raw      *)
(*       statement is logged (Montgomery limbs) and becomes the context ctx      *)
(*   Verify   fn = entry point, forge = sequence of operators [k, c, s, old,     *)
(*       new, at] applied to the honest object, acc / err / panic = the raw      *)
(*       reply, pre / post = digests of every argument before / after the call,  *)
(*       plus the statement-level raw data actually passed                       *)
(*                                                                               *)
(* Judgement of a Verify event                                                   *)
(*   broken   = checks falsified by the effective operators (a substitution      *)
(*              whose old and new digests coincide is not effective), from the   *)
(*              tables of Verifiers                                              *)
(*   truth    = the statement as passed is true, DECIDED HERE from the logged     *)
(*              raw data: polynomial evaluation (shplonk, fflonk), multiset       *)
(*              equality (permutation), inclusion (plookup), degree bound (fri),  *)
(*              claimed value = authenticated leaf (fri opening)                  *)
(*   expected = reject if broken # {} or ~truth, accept otherwise; for Pedersen   *)
(*              and the setup ceremony, where every point is logged with its      *)
(*              discrete logarithm, expected = the algebraic relation evaluated   *)
(*              in the exponent (TLC recomputes every point from its scalar)      *)
(* Reasons: "panic", "accepted-forgery", "rejected-valid",                        *)
(* "accepted-false-statement", "mutated" (an argument changed), "prover-error",   *)
(* "prover-value" (the prover's claimed values / points are not the specified     *)
(* ones), "badpoint" (a logged point is not [s]G), "unknown-op", "no-context".    *)
(* Where the property is silent both verdicts are accepted (expected = "any"):    *)
(* a statement-level substitution that leaves the statement true (e.g. another    *)
(* point for a constant polynomial), the single-query FRI on a far function       *)
(* (soundness error 1/rho by construction), the empty Pedersen batch, an unused   *)
(* challenge (one-row Vortex matrix).  Error texts are logged, not compared.      *)
EXTENDS TraceKernel, Verifiers, PrimeField, CurveParams, ExpModel, FiniteSets

TraceAbsent == {}
NoDrop == {}

VARIABLES ctx,      \* the last Prove-like event (<<>> = none)
          pedreg,   \* Pedersen setups: j -> [sigma, b]
          known     \* verified <<group, scalar, point>> triples
tvars == <<vs, forged, broken, verdict, failing, ctx, pedreg, known>>

R(c, reason) == IF c THEN {} ELSE {reason}
RangeOf(s) == {s[i] : i \in 1..Len(s)}

\* ---------------------------------------------------------------- scalar field --------------------
FrP == FieldP(Hdr.fr)
q == FrP.q
FrRinv == InvMod(Rem(Shl(One, FrP.w * FrP.n), q), q)
Val(raw) == MulMod(raw, FrRinv, q)
Vals(s) == [i \in 1..Len(s) |-> Val(s[i])] \o <<>>
PolyEval(c, x) == FoldLeft(LAMBDA acc, i : FAdd(q, FMul(q, acc, x), c[Len(c) + 1 - i]), Zero, [i \in 1..Len(c) |-> i])
Count(s, x) == Cardinality({i \in 1..Len(s) : s[i] = x})
SameMultiset(a, b) == Len(a) = Len(b) /\ \A i \in 1..Len(a) : Count(a, a[i]) = Count(b, a[i])
RECURSIVE NextPow2From(_, _)
NextPow2From(p, n) == IF p >= n THEN p ELSE NextPow2From(2 * p, n)

\* ---------------------------------------------------------------- statement truth ------------------
ShpTruth(e) ==
  /\ Len(e.cv) = Len(e.polys) /\ Len(e.points) = Len(e.polys)
  /\ \A i \in 1..Len(e.polys) :
       /\ Len(e.cv[i]) = Len(e.points[i])
       /\ e.polys[i] = <<>> \/ LET c == Vals(e.polys[i]) IN
            \A j \in 1..Len(e.points[i]) : PolyEval(c, Val(e.points[i][j])) = Val(e.cv[i][j])

\* fflonk: the claimed values of pack i are p_ij(x^t), t = number of (padded) polynomials of the pack
FflTruth(e) ==
  /\ Len(e.cv) = Len(e.packs) /\ Len(e.points) = Len(e.packs)
  /\ \A i \in 1..Len(e.packs) :
       LET t == Len(e.cv[i]) IN
       /\ t >= Len(e.packs[i])
       /\ \A j \in 1..t : Len(e.cv[i][j]) = Len(e.points[i])
       /\ e.packs[i] = <<>> \/
            \A k \in 1..Len(e.points[i]) :
              LET xt == PowMod(Val(e.points[i][k]), FromInt(t), q) IN
              \A j \in 1..t : Val(e.cv[i][j][k]) = (IF j <= Len(e.packs[i]) THEN PolyEval(Vals(e.packs[i][j]), xt) ELSE Zero)

PermTruth(c) == SameMultiset(Vals(c.t1), Vals(c.t2))
PlvTruth(c) == LET t == RangeOf(Vals(c.t)) IN \A x \in RangeOf(Vals(c.f)) : x \in t
PltTruth(c) ==
  LET f == [i \in 1..Len(c.f) |-> Vals(c.f[i])] \o <<>>
      t == [i \in 1..Len(c.t) |-> Vals(c.t[i])] \o <<>>
      tcols == {[i \in 1..Len(t) |-> t[i][k]] : k \in 1..Len(t[1])}
  IN /\ Len(f) = Len(t)
     /\ \A j \in 1..Len(f[1]) : [i \in 1..Len(f) |-> f[i][j]] \in tcols
FriTruth(c) == c.n <= NextPow2From(1, c.size)
FriOpenTruth(e) == Val(e.cv) = Rem(FromBytesBE(e.leaf), q)

HasCtx(e) == ctx # <<>> /\ ctx.sc = e.sc
\* components of the statement whose substitution can leave the statement true
\* (the extra transcript data is the verifier's context, not a proof component: a proof whose quotients vanish - every
\* polynomial of degree below the size of its point set - is valid under every challenge)
StmtComps(s) == CASE s = "shplonk" -> {"point", "cv", "data"} [] s = "fflonk" -> {"point", "cvouter", "data"} [] OTHER -> {}
\* forgeries whose rejection is only probabilistic by construction of the scheme (both verdicts accepted)
Probabilistic == {<<"fripp", "farfunction">>}

Truth(e) ==
  CASE e.scheme = "shplonk" -> ShpTruth(e)
    [] e.scheme = "fflonk" -> FflTruth(e)
    [] e.scheme = "permutation" -> PermTruth(ctx)
    [] e.scheme = "plookupvec" -> PlvTruth(ctx)
    [] e.scheme = "plookuptab" -> PltTruth(ctx)
    [] e.scheme = "fripp" -> FriTruth(ctx)
    [] e.scheme = "friopen" -> FriOpenTruth(e)
    [] OTHER -> TRUE
\* the data the truth is computed from is the one the verifier is given, unless an operator replaced a commitment
\* to it inside the proof (then only the operator table speaks)
TruthApplies(e, ops) ==
  CASE e.scheme \in {"permutation", "plookupvec", "plookuptab"} -> \A o \in ops : o.k = "sub" => o.c \notin {"t1", "t2", "f", "t", "fs", "ts", "foldedf", "foldedt", "permt", "size", "g"}
    [] OTHER -> TRUE

\* ---------------------------------------------------------------- operators -----------------------
OpOf(o) == [k |-> o.k, c |-> o.c, s |-> o.s]
KnownOp(s, o) == IF o.k = "sub" THEN o.c \in Comps(s) /\ o.s \in Kinds ELSE o.k = "tgt" /\ o.c \in Tgts(s)
\* a substitution that did not change the component is not an operator; alpha does not enter a one-row Vortex statement
EffectiveOp(e, o) ==
  /\ o.k = "sub" => o.old # o.new
  /\ ~(e.scheme = "vortex" /\ o.k = "sub" /\ o.c = "alpha" /\ HasCtx(e) /\ ctx.numRow = 1)
EffOps(e) == {OpOf(e.forge[i]) : i \in {i \in 1..Len(e.forge) : EffectiveOp(e, e.forge[i])}}

\* ---------------------------------------------------------------- groups (exponent model) ----------
C1 == GroupCurve(Hdr.curve, "G1")
C2 == GroupCurve(Hdr.curve, "G2")
FpP == FieldP(Hdr.curve \o "/fp")
FpRinv == InvMod(Rem(Shl(One, FpP.w * FpP.n), C1.F.q), C1.F.q)
ROrd == GroupOrder(Hdr.curve)
Gen1 == GroupGen(Hdr.curve, "G1")
Gen2 == GroupGen(Hdr.curve, "G2")
Aff1(pt) == AffOfAff(C1, [X |-> TVal(C1.F, 0, FpRinv, pt.X), Y |-> TVal(C1.F, 0, FpRinv, pt.Y)])
Aff2(pt) == AffOfAff(C2, [X |-> TVal(C2.F, C2.k, FpRinv, pt.X), Y |-> TVal(C2.F, C2.k, FpRinv, pt.Y)])
Canon1(pt) == TCanon(C1.F, 0, pt.X) /\ TCanon(C1.F, 0, pt.Y)
Canon2(pt) == TCanon(C2.F, C2.k, pt.X) /\ TCanon(C2.F, C2.k, pt.Y)
\* a logged point with its discrete logarithm: [g, s, pt]
Tri(g, rec) == <<g, rec.s, rec.pt>>
Holds(t) == IF t[1] = "G1" THEN Canon1(t[3]) /\ Aff1(t[3]) = WMulNat(C1, t[2], Gen1)
            ELSE Canon2(t[3]) /\ Aff2(t[3]) = WMulNat(C2, t[2], Gen2)
KnownTris(g, recs) == {Tri(g, recs[i]) : i \in {i \in 1..Len(recs) : recs[i].known}}
AllKnown(recs) == \A i \in 1..Len(recs) : recs[i].known
InSub1(rec) == rec.known \/ WInSubgroup(C1, ROrd, Aff1(rec.pt))
InSub2(rec) == rec.known \/ WInSubgroup(C2, ROrd, Aff2(rec.pt))
Sc(rec) == rec.s
Scs(recs) == [i \in 1..Len(recs) |-> Sc(recs[i])] \o <<>>
MulR(a, b) == MulMod(a, b, ROrd)
AddR(a, b) == AddMod(a, b, ROrd)
SumR(f(_), n) == FoldLeft(LAMBDA acc, i : AddR(acc, f(i)), Zero, [i \in 1..n |-> i])
PowR(a, k) == PowMod(a, FromInt(k), ROrd)
RVal(raw) == MulMod(raw, InvMod(Rem(Shl(One, FrP.w * FrP.n), ROrd), ROrd), ROrd)      \* fr element -> scalar (fr = Z/r)

\* the triples an event logs
Flat(ss) == FoldLeft(LAMBDA acc, s : acc \o s, <<>>, ss)
EventTris(e) ==
  CASE e.op = "PedSetup" -> KnownTris("G2", <<e.key.G, e.key.GS>>) \cup KnownTris("G1", e.B) \cup KnownTris("G1", e.BS)
    [] e.op = "Verify" /\ e.scheme \in {"pedersen", "pedersenbatch"} ->
         KnownTris("G1", e.C) \cup KnownTris("G1", e.P)
         \cup UNION {KnownTris("G2", <<e.keys[i].G, e.keys[i].GS>>) : i \in 1..Len(e.keys)}
    [] e.op = "Verify" /\ e.scheme = "mpcupdate" ->
         KnownTris("G1", <<e.commit>>) \cup KnownTris("G1", e.g1p) \cup KnownTris("G1", e.g1n)
         \cup KnownTris("G2", e.g2p) \cup KnownTris("G2", e.g2n)
    [] e.op = "Verify" /\ e.scheme = "mpcratio" -> KnownTris("G1", Flat(e.g1)) \cup KnownTris("G2", Flat(e.g2))
    [] OTHER -> {}

\* Pedersen: e(C, GS) e(P, G) = 1  <=>  c gs + p g = 0 (mod r), points in the subgroup
PedAllKnown(e) == AllKnown(e.C) /\ AllKnown(e.P) /\ \A i \in 1..Len(e.keys) : e.keys[i].G.known /\ e.keys[i].GS.known
PedInSub(e) == (\A i \in 1..Len(e.C) : InSub1(e.C[i])) /\ (\A i \in 1..Len(e.P) : InSub1(e.P[i]))
PedRel1(e) == PedAccept1(ROrd, Sc(e.C[1]), Sc(e.P[1]), Sc(e.keys[1].G), Sc(e.keys[1].GS))
PedLens(e) == Len(e.C) = Len(e.keys) /\ (Len(e.P) = Len(e.keys) \/ Len(e.P) = 1)
PedSameG(e) == \A i \in 1..Len(e.keys) : e.keys[i].G.pt = e.keys[1].G.pt
PedRelN(e) == PedAcceptN(ROrd, RVal(e.rho), Scs(e.C), Scs(e.P), Sc(e.keys[1].G), [i \in 1..Len(e.keys) |-> Sc(e.keys[i].GS)] \o <<>>)

\* ---------------------------------------------------------------- expected verdict -----------------
TableExpect(e) ==
  LET ops == EffOps(e)
      br == BrokenBy(e.scheme, ops)
      truth == Truth(e)
  IN IF \E o \in ops : <<e.scheme, o.c>> \in Probabilistic THEN "any"
     ELSE IF br # {} THEN (IF truth /\ \A o \in ops : o.k = "sub" /\ o.c \in StmtComps(e.scheme) THEN "any" ELSE "reject")
     ELSE IF truth THEN "accept" ELSE "reject"

PedExpect(e) ==
  IF e.scheme = "pedersen"
  THEN IF PedAllKnown(e) THEN (IF PedRel1(e) THEN "accept" ELSE "reject")
       ELSE IF ~PedInSub(e) THEN "reject" ELSE TableExpect(e)
  ELSE IF Len(e.keys) = 0 THEN "any"                                \* the empty batch: nothing to verify, the property is silent
       ELSE IF ~PedLens(e) THEN "reject"
       ELSE IF ~PedAllKnown(e) THEN (IF ~PedInSub(e) THEN "reject" ELSE TableExpect(e))
       ELSE IF PedSameG(e) /\ PedRelN(e) THEN "accept" ELSE "reject"

\* mpcsetup.UpdateProof.Verify: commitment [x]G1 != 0 in the subgroup, pok = [x]R in the subgroup, next = [x]prev everywhere
UpdLensOK(e) == e.lens[1] = e.lens[2] /\ e.lens[3] = e.lens[4] /\ e.lens[5] = e.lens[6] /\ e.lens[7] = e.lens[8]
UpdExpect(e) ==
  IF ~e.commit.known THEN "reject"                                   \* outside the subgroup (the harness has no other unknown commitment)
  ELSE IF Sc(e.commit) = Zero THEN "reject"
  ELSE IF ~UpdLensOK(e) THEN "reject"
  ELSE IF ~(AllKnown(e.g1p) /\ AllKnown(e.g1n) /\ AllKnown(e.g2p) /\ AllKnown(e.g2n)) THEN TableExpect(e)
  ELSE LET x == Sc(e.commit)
           pok == Aff2(e.pok)
       IN IF /\ Canon2(e.pok) /\ WInSubgroup(C2, ROrd, pok) /\ pok = WMulNat(C2, x, Aff2(e.R))
             /\ \A i \in 1..Len(e.g1p) : Sc(e.g1n[i]) = MulR(x, Sc(e.g1p[i]))
             /\ \A i \in 1..Len(e.g2p) : Sc(e.g2n[i]) = MulR(x, Sc(e.g2p[i]))
          THEN "accept" ELSE "reject"

\* mpcsetup.SameRatioMany: every slice has length >= 2, both groups present, a non-zero first element in each group,
\* all slices geometric with one common ratio
Geo(s, rho) == Geometric(ROrd, s, rho)
RatioExpect(e) ==
  LET s1 == [i \in 1..Len(e.g1) |-> Scs(e.g1[i])] \o <<>>
      s2 == [i \in 1..Len(e.g2) |-> Scs(e.g2[i])] \o <<>>
      all == s1 \o s2
  IN IF ~(\A i \in 1..Len(e.g1) : AllKnown(e.g1[i])) \/ ~(\A i \in 1..Len(e.g2) : AllKnown(e.g2[i])) THEN TableExpect(e)
     ELSE IF \E i \in 1..Len(all) : Len(all[i]) < 2 THEN "reject"
     ELSE IF Len(s1) = 0 \/ Len(s2) = 0 THEN "reject"
     ELSE IF ~(\E i \in 1..Len(s1) : s1[i][1] # Zero) \/ ~(\E i \in 1..Len(s2) : s2[i][1] # Zero) THEN "reject"
     ELSE LET i0 == CHOOSE i \in 1..Len(s1) : s1[i][1] # Zero
              rho == MulR(s1[i0][2], InvMod(s1[i0][1], ROrd))
          IN IF \A i \in 1..Len(all) : Geo(all[i], rho) THEN "accept" ELSE "reject"

Expect(e) ==
  CASE e.scheme \in {"pedersen", "pedersenbatch"} -> PedExpect(e)
    [] e.scheme = "mpcupdate" -> UpdExpect(e)
    [] e.scheme = "mpcratio" -> RatioExpect(e)
    [] OTHER -> TableExpect(e)

NeedsCtx(e) == e.scheme \in {"permutation", "plookupvec", "plookuptab", "fripp"}

\* C17 speaks of WELL-FORMED proof objects and admissible statements.  A proof whose slices have the wrong shape
\* (a row of claimed values shorter than its point set, a missing pack) and the empty Pedersen batch are outside it:
\* the verifier must still not ACCEPT them, but a crash instead of an error is only observed (DESIGN.md 11.4).
MalformedObject(e) ==
  \/ (e.scheme = "pedersenbatch" /\ Len(e.keys) = 0)
  \/ (e.scheme = "shplonk" /\ \E i \in 1..Len(e.forge) : e.forge[i].k = "tgt" /\ e.forge[i].c = "lencv")
  \/ (e.scheme = "fflonk" /\ \E i \in 1..Len(e.forge) : e.forge[i].k = "tgt" /\ e.forge[i].c = "shapeouter")

JudgeVerify(e) ==
  IF e.scheme \notin Schemes THEN {"unknown-op"}
  ELSE IF \E i \in 1..Len(e.forge) : ~KnownOp(e.scheme, e.forge[i]) THEN {"unknown-op"}
  ELSE IF NeedsCtx(e) /\ ~HasCtx(e) THEN {"no-context"}
  ELSE R(e.pre = e.post, "mutated") \cup
       (IF Panicked(e) THEN (IF MalformedObject(e) THEN {} ELSE {"panic"})
        ELSE LET x == Expect(e) IN
             R(~(x = "reject" /\ e.acc), "accepted-forgery")
             \cup R(~(x = "accept" /\ ~e.acc), "rejected-valid")
             \* soundness stated on the data alone: whatever is accepted is a true statement (unless the scheme itself
             \* only rejects with some probability: expected = "any")
             \cup R(~(x # "any" /\ e.acc /\ TruthApplies(e, EffOps(e)) /\ ~Truth(e)), "accepted-false-statement"))

\* ---------------------------------------------------------------- prover events -------------------
JudgeProve(e) ==
  IF Has(e, "err") THEN {"prover-error"}                 \* every statement the harness submits is admissible
  ELSE IF e.scheme = "shplonk" /\ e.fn = "shplonk.BatchOpen" THEN R(ShpTruth(e), "prover-value")
  ELSE IF e.scheme = "fflonk" /\ e.fn = "fflonk.BatchOpen" THEN R(FflTruth(e), "prover-value")
  ELSE {}

JudgePedSetup(e) ==
  LET sg == e.sigma IN
  R(/\ Sc(e.key.GS) = NegMod(MulR(sg, Sc(e.key.G)), ROrd)
    /\ Len(e.B) = Len(e.BS) /\ \A i \in 1..Len(e.B) : Sc(e.BS[i]) = MulR(sg, Sc(e.B[i])), "badpoint")

\* Commit(v) = [sum v_i b_i] G1, ProveKnowledge(v) = [sigma sum v_i b_i] G1
JudgePedCommit(e) ==
  IF e.j \notin DOMAIN pedreg THEN {"no-context"}
  ELSE IF Has(e, "errC") \/ Has(e, "errP") THEN {"prover-error"}
  ELSE LET st == pedreg[e.j]
           c == SumR(LAMBDA i : MulR(RVal(e.v[i]), st.b[i]), Len(e.v))
       IN R(Len(e.v) = Len(st.b) /\ c = e.c, "badpoint")
          \cup R(Canon1(e.C) /\ Aff1(e.C) = WMulNat(C1, c, Gen1), "prover-value")
          \cup R(Canon1(e.Pk) /\ Aff1(e.Pk) = WMulNat(C1, MulR(st.sigma, c), Gen1), "prover-value")

JudgePedBatchProve(e) ==
  IF Has(e, "err") THEN {"prover-error"}
  ELSE R(Canon1(e.Pk) /\ Aff1(e.Pk) = WMulNat(C1, e.p, Gen1), "prover-value")

\* ---------------------------------------------------------------- replay --------------------------
Init == KInit /\ MInit /\ ctx = <<>> /\ pedreg = <<>> /\ known = {}

Step ==
  /\ HasNext
  /\ LET e == Ev
         fresh == EventTris(e) \ known
         wrong == {t \in fresh : ~Holds(t)}
         j == CASE e.op = "Verify" -> JudgeVerify(e)
                [] e.op = "Prove" -> JudgeProve(e)
                [] e.op = "PedSetup" -> JudgePedSetup(e)
                [] e.op = "PedCommit" -> JudgePedCommit(e)
                [] e.op = "PedBatchProve" -> JudgePedBatchProve(e)
                [] OTHER -> {"unknown-op"}
     IN /\ Advance(j \cup R(wrong = {}, "badpoint"))
        /\ known' = known \cup (fresh \ wrong)
        /\ ctx' = IF e.op \in {"Prove", "PedSetup"} THEN e ELSE ctx
        /\ pedreg' = IF e.op = "PedSetup" THEN (e.j :> [sigma |-> e.sigma, b |-> Scs(e.B)]) @@ pedreg ELSE pedreg
        \* the machine of Verifiers, driven by the log
        /\ IF e.op = "Verify" /\ e.scheme \in Schemes /\ \A i \in 1..Len(e.forge) : KnownOp(e.scheme, e.forge[i])
           THEN LET ops == EffOps(e)  br == BrokenBy(e.scheme, ops) IN
                /\ vs' = e.scheme /\ forged' = ops /\ broken' = br
                /\ verdict' = VerdictOf(e.scheme, br) /\ failing' = FirstFailing(e.scheme, br)
           ELSE IF e.op # "Verify" /\ Has(e, "scheme") /\ e.scheme \in Schemes THEN Prove(e.scheme)
           ELSE UNCHANGED mvars

Next == Step \/ (Finish /\ UNCHANGED tvars)
Spec == Init /\ [][Next]_<<l, bad, vs, forged, broken, verdict, failing, ctx, pedreg, known>>
=============================================================================
