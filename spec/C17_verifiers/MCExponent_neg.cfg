SPECIFICATION Spec
CONSTANTS
  RR = 3
  N = 2
INVARIANTS BatchExact
CHECK_DEADLOCK FALSE
