---------------------------- MODULE MCVerifiers ----------------------------
(* Exhaustive model checking of the verifier machine: every entry point, every   *)
(* composition of at most MaxOps forgery operators, Verify after each.           *)
(*   MCVerifiers.cfg         Absent = {} : the intended design.  Complete,       *)
(*                           Sound, AcceptIffUnbroken, FirstInOrder hold in      *)
(*                           every state; the catalogue theorems (ASSUME below)  *)
(*                           hold: every check is individually necessary.        *)
(*   MCVerifiers_ascode.cfg  Absent = AsCode : the checks the code was found not *)
(*                           to perform.  TLC must report Sound violated (the    *)
(*                           defects F12, F18, F21 and the new ones shown      *)
(*                           on the design: negative self-test).                 *)
(*   MCVerifiers_nocheck.cfg Absent = one arbitrary present check (permutation   *)
(*                           generator): Sound must be violated as well - no     *)
(*                           check can be dropped silently.                      *)
(*   MCVerifiers_nocatalogue.cfg  the two Vortex forgeries that isolate the      *)
(*                           column-vs-UAlpha check are withheld: the theorem    *)
(*                           IndividuallyNecessary (ASSUME) must fail - a check  *)
(*                           no operator isolates is reported, not overlooked.   *)
EXTENDS Verifiers

NoneAbsent == {}
AsCode == {<<"shplonk", "fsbind">>, <<"fflonk", "fsbind">>,       \* F18: gamma is not bound to the claimed values
           <<"vortex", "colcomb">>,                               \* F12: opened columns are never compared with UAlpha
           <<"fripp", "root-equal">>,                             \* F21: the two MerkleRoot fields of an interaction are never compared
           <<"friopen", "claimed-value">>,                        \* VerifyOpening never looks at ClaimedValue
           <<"plookuptab", "permlink">>,                          \* the folded ts commitment (comt) is computed and never used
           <<"mpckzg", "next-ratio">>,                            \* SameRatioMany is run on the previous srs, not on next
           <<"permutation", "size-pow2">>, <<"plookupvec", "size-pow2">>}   \* the claimed size is taken from the proof unchecked
DropOne == {<<"permutation", "generator">>}
NoDrop == {}
DropVortex == {<<"vortex", "shiftcodeword">>, <<"vortex", "shiftconstantclaim">>}

ASSUME TablesOK
ASSUME IndividuallyNecessary
ASSUME EveryCheckReached
ASSUME ExemptionsNeeded
ASSUME NoSilentFree
=============================================================================
