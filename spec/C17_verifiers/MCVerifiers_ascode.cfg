SPECIFICATION MSpec
CONSTANTS
  Absent <- AsCode
  DropOps <- NoDrop
  MaxOps = 1
INVARIANTS Sound
CHECK_DEADLOCK FALSE
