------------------------------ MODULE MCBinding ------------------------------
(* Why the SHPLONK folding challenge must be bound to the claimed values (check   *)
(* "fsbind" of Verifiers), on the smallest instance: two polynomials f1, f2 are   *)
(* opened at one COMMON point a, T = {a, a}.  With e_i = f_i(a) - v_i the errors  *)
(* of the claimed values, the folded numerator is (X - a)[(f1 - v1) + gamma (f2 - *)
(* v2)] and the quotient W exists, i.e. the verifier's pairing check can be       *)
(* satisfied, iff (X - a)^2 divides it, iff e1 + gamma e2 = 0 in F_P.             *)
(* Machine: the prover announces the errors (Claim), the verifier draws gamma     *)
(* (Challenge), the verifier decides (Verify).  Bound = TRUE: Claim must precede  *)
(* Challenge (gamma is a hash of the claimed values).  Bound = FALSE: the code as *)
(* it is - gamma depends on points and digests only, the prover may claim after   *)
(* having seen it.                                                                *)
(*   Sound1        for every wrong claim made BEFORE the challenge at most one    *)
(*                 gamma accepts (soundness error 1/P)                            *)
(*   NoLateForgery no accepted wrong claim was made after the challenge:          *)
(*                 violated for Bound = FALSE (defect F18 on the design)          *)
EXTENDS Naturals, FiniteSets, TLC
CONSTANTS P, Bound
VARIABLES e1, e2, gamma, claimedAfter, verdict
vars == <<e1, e2, gamma, claimedAfter, verdict>>
None == P
Init == e1 = None /\ e2 = None /\ gamma = None /\ claimedAfter = FALSE /\ verdict = "none"
Claim(a, b) == /\ e1 = None /\ (Bound => gamma = None)
               /\ e1' = a /\ e2' = b /\ claimedAfter' = (gamma # None) /\ UNCHANGED <<gamma, verdict>>
Challenge(c) == /\ gamma = None /\ (Bound => e1 # None)
                /\ gamma' = c /\ UNCHANGED <<e1, e2, claimedAfter, verdict>>
Accepts(a, b, c) == (a + c * b) % P = 0
Verify == /\ e1 # None /\ gamma # None /\ verdict = "none"
          /\ verdict' = IF Accepts(e1, e2, gamma) THEN "accept" ELSE "reject"
          /\ UNCHANGED <<e1, e2, gamma, claimedAfter>>
Next == (\E a, b \in 0..(P - 1) : Claim(a, b)) \/ (\E c \in 0..(P - 1) : Challenge(c)) \/ Verify
Spec == Init /\ [][Next]_vars
Wrong == e1 # None /\ (e1 # 0 \/ e2 # 0)
Complete == (verdict # "none" /\ e1 = 0 /\ e2 = 0) => verdict = "accept"
Sound1 == (Wrong /\ ~claimedAfter) => Cardinality({c \in 0..(P - 1) : Accepts(e1, e2, c)}) <= 1
NoLateForgery == ~(verdict = "accept" /\ Wrong /\ claimedAfter)
=============================================================================
