SPECIFICATION Spec
CONSTANTS
  Absent <- TraceAbsent
  DropOps <- NoDrop
  MaxOps = 1
CHECK_DEADLOCK FALSE
