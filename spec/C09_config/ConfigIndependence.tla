------------------------- MODULE ConfigIndependence -------------------------
(* C09: one merged event carries the replies of the SAME call (same inputs, same *)
(* seed) under every CPU configuration: default (ADX + AVX-512), AVX-512 off,    *)
(* ADX off, and the purego build.  The property is that the configuration is not *)
(* observable: all replies - value or panic - are identical.  /verif/check builds*)
(* the merged trace from the per-configuration logs and refuses to merge logs    *)
(* whose inputs differ (that would be a harness fault, exit 2).                  *)
EXTENDS TraceKernel

Configs == Hdr.configs                      \* e.g. <<"default", "noavx512", "noadx", "purego">>

\* set of configurations whose reply differs from the reference configuration (the first one)
Deviating(e) == {i \in 2..Len(e.r) : e.r[i] # e.r[1]}

Judge(e) ==
  IF Len(e.r) # Len(Configs) THEN {"harness-merge"}
  ELSE {"config-dependent:" \o Configs[i] : i \in Deviating(e)}

Init == KInit
Step == HasNext /\ Advance(Judge(Ev))
Next == Step \/ Finish
Spec == Init /\ [][Next]_<<l, bad>>
=============================================================================
