SPECIFICATION Spec
CONSTANTS MaxN = 300  CheckFirst = FALSE
INVARIANTS Coverage PanicIndependent
CHECK_DEADLOCK FALSE
