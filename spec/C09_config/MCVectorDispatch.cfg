SPECIFICATION Spec
CONSTANTS MaxN = 300  CheckFirst = TRUE
INVARIANTS Coverage PanicIndependent
CHECK_DEADLOCK FALSE
