-------------------------- MODULE MCVectorDispatch --------------------------
(* Design-level model of the implementation dispatch of the vector operations   *)
(* (vector_ops_asm.go templates): which index ranges go to the assembly kernel  *)
(* and which to the generic loop, as a function of the length n and of the      *)
(* AVX-512 flag.  For the results to be configuration independent every index   *)
(* 0..n-1 must be processed exactly once by exactly one of the two code paths,  *)
(* whatever the flag; and the panic-or-not behaviour (length mismatch) must not *)
(* depend on the flag either.  Two variants of the 4-word InnerProduct are      *)
(* modelled: CheckFirst = TRUE (lengths compared before the n = 0 shortcut,     *)
(* the repaired code) and FALSE (shortcut first, the code before fix 950cc54:   *)
(* TLC then finds the configuration-dependent panic).                           *)
EXTENDS Integers, FiniteSets, TLC

CONSTANTS MaxN, CheckFirst
Block == 16
MinSumN == 112

VARIABLES n, m, avx
vars == <<n, m, avx>>
Init == n \in 0..MaxN /\ m \in {n, n + 1, 0} /\ avx \in BOOLEAN
Next == UNCHANGED vars
Spec == Init /\ [][Next]_vars

Rng(a, b) == a..(b - 1)
\* [asm index set, generic index set] per operation
SmallAddSub == IF ~avx THEN <<{}, Rng(0, n)>>
               ELSE <<Rng(0, (n \div Block) * Block), Rng(n - (n % Block), n)>>
MulScalar   == IF n = 0 THEN <<{}, {}>>
               ELSE IF ~avx THEN <<{}, Rng(0, n)>>
               ELSE <<Rng(0, (n \div Block) * Block), IF n % Block # 0 THEN Rng(n - (n % Block), n) ELSE {}>>
Sum4w       == IF n = 0 THEN <<{}, {}>>
               ELSE IF ~avx \/ n <= MinSumN THEN <<{}, Rng(0, n)>> ELSE <<Rng(0, n), {}>>
AddSub4w    == IF n = 0 THEN <<{}, {}>> ELSE <<Rng(0, n), {}>>      \* whole vector in assembly, both flags

ExactlyOnce(p) == p[1] \cap p[2] = {} /\ p[1] \cup p[2] = Rng(0, n)
Coverage == ExactlyOnce(SmallAddSub) /\ ExactlyOnce(MulScalar) /\ ExactlyOnce(Sum4w) /\ ExactlyOnce(AddSub4w)

\* InnerProduct(receiver of length n, argument of length m): does the call panic?
InnerPanics(flag) ==
  IF flag THEN (IF CheckFirst THEN n # m ELSE (n # 0 /\ n # m))      \* assembly build
  ELSE n # m                                                         \* generic code compares first
PanicIndependent == InnerPanics(TRUE) = InnerPanics(FALSE)
=============================================================================
