SPECIFICATION Spec
CONSTANTS R = 7  KMax = 2  DomA3 = {0, 1, 6}  DomB3 = {0, 1, 6}  FilterMode = "ok"  InPlace = TRUE
INVARIANTS NonDegenerate Refines MillerOk LinesTrackQ
CHECK_DEADLOCK FALSE
