--------------------------- MODULE PairingMachine ---------------------------
(* C05 - the pairing component in the EXPONENT MODEL.                          *)
(*                                                                             *)
(* G1, G2 and GT are cyclic of prime order R.  A point of G1 is denoted by the  *)
(* exponent a of [a]G1 (0 = the point at infinity), a point of G2 by b, an     *)
(* element of GT by the exponent e of gT^e where gT = e(G1, G2) # 1.  In this   *)
(* model the property reads:                                                    *)
(*     every computation variant applied to ([a_i]G1), ([b_i]G2), i = 1..k,     *)
(*     returns the exponent  Sum_i a_i * b_i  mod R  (pairs with an infinite    *)
(*     argument contribute 0), PairingCheck returns TRUE exactly when that      *)
(*     exponent is 0, and a call whose two argument lists differ in length is   *)
(*     answered by an error.                                                    *)
(*                                                                             *)
(* The only state of the component is the store of precomputed-lines objects    *)
(* (the argument of the fixed-Q variants): object id = the caller's slice, one  *)
(* slot per PrecomputeLines(Q) result.  A slot remembers the exponent b of the  *)
(* Q it was computed from and a digest of its content.  Every entry point other *)
(* than PrecomputeLines is PURE: the store - in particular a lines object that  *)
(* has been used - is left as it is, so the i-th use of a lines object gives    *)
(* the same reply as the first.                                                 *)
(*                                                                             *)
(* Exponents are BigNat values (the same module serves the toy model of         *)
(* MCPairing, R in {5, 7}, and trace validation at R ~ 2^254 .. 2^377).         *)
EXTENDS BigNat, Sequences, SequencesExt

VARIABLE lobj          \* lines store: id -> sequence of [b |-> exponent, dig |-> content digest]

Idx(n) == [i \in 1..n |-> i]

\* Sum_i as[i] * bs[i] mod R  (Len(as) = Len(bs))
ExpSum(as, bs, R) ==
  FoldLeft(LAMBDA acc, i : AddMod(acc, MulMod(as[i], bs[i], R), R), Zero, Idx(Len(as)))

\* the documented argument check of MillerLoop / MillerLoopFixedQ
SizeOk(n, m) == n >= 1 /\ n = m

(* ---- replies (the specification of each public entry point) --------------- *)
\* Pair, MillerLoop ; FinalExponentiation, MillerLoopFixedQ ; FinalExponentiation, PairFixedQ ...
PairReply(as, bs, R) ==
  IF SizeOk(Len(as), Len(bs)) THEN [err |-> FALSE, exp |-> ExpSum(as, bs, R)] ELSE [err |-> TRUE]
\* PairingCheck, PairingCheckFixedQ
CheckReply(as, bs, R) ==
  IF SizeOk(Len(as), Len(bs)) THEN [err |-> FALSE, ok |-> ExpSum(as, bs, R) = Zero] ELSE [err |-> TRUE]
\* FinalExponentiation(z, _z...) multiplies its arguments first: the exponents of several
\* Miller-loop results add up
SplitReply(as1, bs1, as2, bs2, R) ==
  IF SizeOk(Len(as1), Len(bs1)) /\ SizeOk(Len(as2), Len(bs2))
  THEN [err |-> FALSE, exp |-> AddMod(ExpSum(as1, bs1, R), ExpSum(as2, bs2, R), R)] ELSE [err |-> TRUE]

(* ---- the lines store -------------------------------------------------------- *)
MInit == lobj = <<>>
LinesOf(id) == IF id \in DOMAIN lobj THEN lobj[id] ELSE <<>>
LinesBs(id) == LET s == LinesOf(id) IN [i \in 1..Len(s) |-> s[i].b] \o <<>>
LinesDigs(id) == LET s == LinesOf(id) IN [i \in 1..Len(s) |-> s[i].dig] \o <<>>

\* PrecomputeLines(Q = [b]G2), result stored as the next slot of object id
MPrecompute(id, b, dig) ==
  lobj' = [x \in DOMAIN lobj \cup {id} |->
             IF x = id THEN Append(LinesOf(id), [b |-> b, dig |-> dig]) ELSE lobj[x]]
\* every other entry point
MPure == UNCHANGED lobj

\* replies of the fixed-Q variants on object id
FixedPairReply(as, id, R) == PairReply(as, LinesBs(id), R)
FixedCheckReply(as, id, R) == CheckReply(as, LinesBs(id), R)
=============================================================================
