SPECIFICATION Spec
CONSTANTS R = 7  KMax = 3  DomA3 = {0, 1, 3, 6}  DomB3 = {0, 1, 6}  FilterMode = "ok"  InPlace = FALSE
INVARIANTS NonDegenerate Refines MillerOk LinesReadOnly LinesTrackQ
CHECK_DEADLOCK FALSE
