SPECIFICATION Spec
CONSTANTS R = 7  KMax = 2  DomA3 = {0, 1, 6}  DomB3 = {0, 1, 6}  FilterMode = "shifted"  InPlace = FALSE
INVARIANTS NonDegenerate Refines MillerOk LinesReadOnly LinesTrackQ
CHECK_DEADLOCK FALSE
