SPECIFICATION Spec
CONSTANTS R = 5  KMax = 3  DomA3 = {0, 1, 2, 3, 4}  DomB3 = {0, 1, 2, 3, 4}  FilterMode = "ok"  InPlace = FALSE
INVARIANTS NonDegenerate Refines MillerOk LinesReadOnly LinesTrackQ
CHECK_DEADLOCK FALSE
