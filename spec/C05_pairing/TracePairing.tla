---------------------------- MODULE TracePairing ----------------------------
(* Trace validation for C05: replays an ndjson log of the real pairing code of  *)
(* one curve against PairingMachine (the exponent model) and judges every reply. *)
(*                                                                               *)
(* Event 1 (op "Generators") logs the library's generators and gT = Pair(G1,G2):  *)
(*   the generators must be the documented ones (CurveParams), gT canonical,      *)
(*   gT # 1 and gT^r = 1 (exact order r), all computed with the generic Tower     *)
(*   arithmetic.                                                                  *)
(* Every other event logs the exponents a_i, b_i together with the raw            *)
(* coordinates of the points actually passed to the library.  The spec verifies   *)
(* (once per distinct point, remembered in ok1 / ok2) that the coordinates are    *)
(* [a_i]G1 / [b_i]G2 by double-and-add on the textbook law (Weierstrass!WMulNat), *)
(* and then demands                                                               *)
(*   Pair / MillerLoop;FinalExponentiation / FinalExponentiation(f1, f2) of a     *)
(*   split / PairFixedQ / MillerLoopFixedQ;FinalExponentiation / MillerLoopDirect  *)
(*        = gT ^ (Sum a_i b_i mod r)      (generic Tower!TExp, canonical output)   *)
(*   PairingCheck / PairingCheckFixedQ  <=>  Sum a_i b_i = 0 mod r                 *)
(*   different lengths of the two argument lists  =>  error (and no error else)    *)
(*   arguments (points, lines) are not modified; no panic.                         *)
(* The raw Miller-loop value is not compared (it is defined only up to factors    *)
(* killed by the final exponentiation).  When both lists are empty the property   *)
(* is silent: the library's error and the empty product 1 are both accepted.      *)
(*                                                                               *)
(* Lines objects: PrecomputeLines events fill the store of PairingMachine (lobj)  *)
(* with the exponent b of Q and a SHA-256 digest of the raw content.  A fixed-Q   *)
(* event logs the digests before and after the call.  A wrong value returned on   *)
(* lines whose digest still is the recorded one is "value"; on lines that an      *)
(* EARLIER call has modified it is "value-after-lines-mutation"; a call that      *)
(* changes the digest is "lines-mutated" (finding F4, repaired by 2bf8fc5: the     *)
(* last two reasons were reported on every fixed-Q call of the 7 curves before).  *)
EXTENDS TraceKernel, CurveParams, PairingMachine

VARIABLES ok1, ok2      \* verified <<exponent, raw point>> pairs of G1 / G2

Curve == Hdr.curve
C1 == G1Curve(Curve)
C2 == G2Curve(Curve)
F == C1.F
K2 == C2.k
KT == GTLevel(Curve)
FPar == FieldP(Curve \o "/fp")
Rinv == InvMod(Rem(Shl(One, FPar.w * FPar.n), F.q), F.q)
ROrder == GroupOrder(Curve)
HalfR == Shr(ROrder, 1)
Gen1 == GroupGen(Curve, "G1")
Gen2 == GroupGen(Curve, "G2")
GTOne == TOne(F, KT)

\* raw (Montgomery) coordinates -> abstract values
PV(k, p) == [X |-> TVal(F, k, Rinv, p.X), Y |-> TVal(F, k, Rinv, p.Y)]
PCanon(k, p) == TCanon(F, k, p.X) /\ TCanon(F, k, p.Y)
GTV(raw) == TVal(F, KT, Rinv, raw)

\* the logged point is the canonical affine encoding of [a]G
IsMul(C, k, gen, a, p) == PCanon(k, p) /\ AffOfAff(C, PV(k, p)) = WMulNat(C, a, gen)

(* ---- the generator pairing (event 1) ---------------------------------------- *)
GenEv == Trace[2]
GT1 == GTV(GenEv.gt)
GT1inv == TInv(F, KT, GT1)
\* gT^e; exponents above r/2 through the inverse (valid because gT^r = 1 is judged at event 1)
GTPow(e) == IF Le(e, HalfR) THEN TExp(F, KT, GT1, e) ELSE TExp(F, KT, GT1inv, Sub(ROrder, e))

JudgeGenerators(e) ==
  IF Panicked(e) THEN {"panic"}
  ELSE IF Has(e, "err") THEN {"unexpected-error"}
  ELSE (IF PCanon(0, e.g1) /\ AffOfAff(C1, PV(0, e.g1)) = Gen1 /\ PCanon(K2, e.g2) /\ AffOfAff(C2, PV(K2, e.g2)) = Gen2
        THEN {} ELSE {"generator"})
       \cup (IF ~TCanon(F, KT, e.gt) THEN {"noncanonical"}
             ELSE IF GT1 = GTOne THEN {"degenerate"}
             ELSE IF TExp(F, KT, GT1, ROrder) # GTOne THEN {"order"} ELSE {})

(* ---- argument verification ---------------------------------------------------- *)
Red(v) == [i \in 1..Len(v) |-> Rem(v[i], ROrder)] \o <<>>
New1(e) == IF Has(e, "a") /\ Has(e, "P") /\ Len(e.a) = Len(e.P)
           THEN {<<e.a[i], e.P[i]>> : i \in 1..Len(e.a)} \ ok1 ELSE {}
New2(e) == IF e.op = "PrecomputeLines" THEN {<<e.b, e.Q>>} \ ok2
           ELSE IF Has(e, "b") /\ Has(e, "Q") /\ Len(e.b) = Len(e.Q)
           THEN {<<e.b[i], e.Q[i]>> : i \in 1..Len(e.b)} \ ok2 ELSE {}
Good1(e) == {x \in New1(e) : IsMul(C1, 0, Gen1, x[1], x[2])}
Good2(e) == {x \in New2(e) : IsMul(C2, K2, Gen2, x[1], x[2])}
ShapeOk(e) == /\ Has(e, "a") /\ Has(e, "P") /\ Len(e.a) = Len(e.P)
              /\ (Has(e, "b") <=> Has(e, "Q")) /\ (Has(e, "b") => Len(e.b) = Len(e.Q))
InputsOk(e) == ShapeOk(e) /\ Good1(e) = New1(e) /\ Good2(e) = New2(e)

\* read-only arguments
Untouched(e) == (Has(e, "Pafter") => e.Pafter = e.P) /\ (Has(e, "Qafter") => e.Qafter = e.Q)

(* ---- replies -------------------------------------------------------------------- *)
FixedOps == {"PairFixedQ", "MillerLoopFixedQFE", "PairingCheckFixedQ"}
ValueOps == {"Pair", "MillerLoopFE", "MillerLoopFE2", "MillerLoopFEeach", "MillerLoopDirectFE", "PairFixedQ", "MillerLoopFixedQFE"}
CheckOps == {"PairingCheck", "PairingCheckFixedQ"}

Bs(e) == IF e.op \in FixedOps THEN LinesBs(e.lid) ELSE Red(e.b)
Want(e) ==
  LET as == Red(e.a)  bs == Bs(e)
  IN IF e.op = "MillerLoopFE2"
     THEN LET j == e.split  n == Len(as)
          IN SplitReply(SubSeq(as, 1, j), SubSeq(bs, 1, j), SubSeq(as, j + 1, n), SubSeq(bs, j + 1, n), ROrder)
     ELSE IF e.op \in CheckOps THEN CheckReply(as, bs, ROrder) ELSE PairReply(as, bs, ROrder)

\* the caller's lines still are what PrecomputeLines returned
LinesClean(e) == e.digs = LinesDigs(e.lid)
WrongValue(e) == IF e.op \in FixedOps /\ ~LinesClean(e) THEN "value-after-lines-mutation" ELSE "value"

JudgeReply(e) ==
  LET want == Want(e)
      bothEmpty == Len(e.a) = 0 /\ Len(Bs(e)) = 0
  IN IF want.err
     THEN (IF Has(e, "err") THEN {}
           ELSE IF bothEmpty /\ Has(e, "out") /\ TCanon(F, KT, e.out) /\ GTV(e.out) = GTOne THEN {}   \* empty product
           ELSE IF bothEmpty /\ Has(e, "ret") /\ e.ret = TRUE THEN {}
           ELSE {"missing-error"})
     ELSE IF Has(e, "err") THEN {"unexpected-error"}
     ELSE IF e.op \in CheckOps
          THEN (IF ~Has(e, "ret") THEN {"no-reply"} ELSE IF e.ret # want.ok THEN {WrongValue(e)} ELSE {})
          ELSE (IF ~Has(e, "out") THEN {"no-reply"}
                ELSE IF ~TCanon(F, KT, e.out) THEN {"noncanonical"}
                ELSE IF GTV(e.out) # GTPow(want.exp) THEN {WrongValue(e)} ELSE {})

JudgeCall(e) ==
  IF ~InputsOk(e) THEN {"badinput"}
  ELSE IF Panicked(e) THEN {"panic"}
  ELSE JudgeReply(e)
       \cup (IF Untouched(e) THEN {} ELSE {"mutated"})
       \cup (IF e.op \in FixedOps /\ e.digsafter # e.digs THEN {"lines-mutated"} ELSE {})

JudgePrecompute(e) ==
  IF Good2(e) # New2(e) THEN {"badinput"}
  ELSE IF Panicked(e) THEN {"panic"}
  ELSE IF e.Qafter # e.Q THEN {"mutated"} ELSE {}

Judge(e) ==
  IF l = 2 THEN (IF e.op = "Generators" THEN JudgeGenerators(e) ELSE {"protocol"})
  ELSE IF e.op = "PrecomputeLines" THEN JudgePrecompute(e)
  ELSE IF e.op \in ValueOps \cup CheckOps THEN JudgeCall(e)
  ELSE {"unknown-op"}

Init == KInit /\ MInit /\ ok1 = {} /\ ok2 = {}
Step == /\ HasNext
        /\ Advance(Judge(Ev))
        /\ IF l > 2 /\ Ev.op = "PrecomputeLines" /\ Has(Ev, "dig")
           THEN MPrecompute(Ev.lid, Rem(Ev.b, ROrder), Ev.dig) ELSE MPure
        /\ ok1' = IF l > 2 THEN ok1 \cup Good1(Ev) ELSE ok1
        /\ ok2' = IF l > 2 THEN ok2 \cup Good2(Ev) ELSE ok2
Next == Step \/ (Finish /\ UNCHANGED <<lobj, ok1, ok2>>)
Spec == Init /\ [][Next]_<<l, bad, lobj, ok1, ok2>>
=============================================================================
