----------------------------- MODULE MCPairing -----------------------------
(* Design-level model of the pairing code for C05: the algorithms of            *)
(* ecc/<curve>/pairing.go, transcribed step by step, run on a REAL toy pairing   *)
(* and checked exhaustively to implement PairingMachine (the exponent model).    *)
(*                                                                               *)
(* Toy pairing (embedding degree 2, the same shape as the library's curves:      *)
(* a = 0, G2 on a twist over the base field, sparse lines, denominators and      *)
(* projective scalings killed by the final exponentiation):                      *)
(*   E  : y^2 = x^3 + 1 over F_p,  p = 2 mod 3 (supersingular, #E = p + 1),       *)
(*        p = 3 mod 4 so that F_p^2 = F_p[u]/(u^2 + 1);   G1 = E(F_p)[R]           *)
(*   E' : y^2 = x^3 - 1 (quadratic twist), psi(X, Y) = (-X, uY);  G2 = E'(F_p)[R]  *)
(*   e(P, Q) = f_{R-1, psi(Q)}(P) ^ ((p^2 - 1)/R)      (reduced Tate pairing; the  *)
(*        last addition of f_R is a vertical line in F_p)                         *)
(*   (p, R) = (59, 5): loop counter 100b (doublings only),                        *)
(*   (p, R) = (83, 7): loop counter 110b (doubling and addition steps).           *)
(* With the tangent/chord slope lambda' ON THE TWIST, the line through psi(T)     *)
(* evaluated at P = (xP, yP) is  yP + u (lambda' xP + lambda' X_T - Y_T).         *)
(*                                                                               *)
(* What is transcribed from the code:                                             *)
(*   MillerLoop      size check; filtering of pairs with an infinite argument;    *)
(*                   homogeneous projective doubleStep / addMixedStep (formulas   *)
(*                   of eprint 2013/722 4.3 as in the code) whose line            *)
(*                   coefficients (r0, r1, r2) are scaled by an F_p factor;       *)
(*                   one squaring shared by all pairs; first iteration unrolled   *)
(*                   (no squaring; pair 1: line assigned to the result, pair 2:   *)
(*                   line x line, pairs >= 3: result x line)                      *)
(*   FinalExponentiation(z, _z...)   product of the arguments, easy part          *)
(*                   conj(z)/z, early return on 1, hard part ^((p+1)/R)           *)
(*   PrecomputeLines affine doubleStep / addStep with the convention 1/0 = 0,     *)
(*                   line = (R0, R1) = (-lambda', lambda' X - Y)                  *)
(*   MillerLoopFixedQ no filtering; evaluation of the stored lines at             *)
(*                   (-x/y, 1/y) (batch inversion, 1/0 = 0): 1 + u (R0 (-x/y) +   *)
(*                   R1 / y).  InPlace = TRUE scales the stored lines in place    *)
(*                   (what the code did up to fix 2bf8fc5 - finding F4: TLC       *)
(*                   shows the second use of a lines object returning a wrong     *)
(*                   value, MCPairingNegInPlace.cfg); InPlace = FALSE works on    *)
(*                   a private copy (the repaired code, satisfies the property).  *)
(*                                                                               *)
(* The machine runs, for EVERY pair of exponent vectors (as, bs) in Z_R^k,        *)
(* k <= KMax (0 = infinity at any position), a session over all entry points;    *)
(* each reply is compared with the reply of PairingMachine mapped to GT by        *)
(* e |-> gT^e, gT = e(G1, G2).                                                    *)
EXTENDS PairingMachine, Weierstrass, TLC

CONSTANTS R,            \* group order: 5 or 7
          KMax,         \* number of pairs: 1..KMax
          DomA3, DomB3, \* exponent domains used when k >= 3 (k <= 2: all of Z_R)
          FilterMode,   \* "ok" | "shifted" (negative self-test: the pair dropped is the NEXT one)
          InPlace       \* TRUE: MillerLoopFixedQ scales the caller's lines in place

Toy == CASE R = 5 -> [p |-> 59, g1 |-> <<28, 51>>, g2 |-> <<58, 36>>, lc |-> <<0, 0, 1>>]
         [] R = 7 -> [p |-> 83, g1 |-> <<11, 81>>, g2 |-> <<42, 47>>, lc |-> <<0, 1, 1>>]
Pq == FromInt(Toy.p)
RR == FromInt(R)
F == [q |-> Pq, T |-> <<[deg |-> 2, nr |-> Sub(Pq, One)]>>]          \* u^2 = -1
E1 == [F |-> F, k |-> 0, a |-> Zero, b |-> One]
E2 == [F |-> F, k |-> 0, a |-> Zero, b |-> Sub(Pq, One)]
Bt == E2.b                                                              \* twist coefficient
Gen1 == Pt(FromInt(Toy.g1[1]), FromInt(Toy.g1[2]))
Gen2 == Pt(FromInt(Toy.g2[1]), FromInt(Toy.g2[2]))
LCBit(i) == Toy.lc[i + 1]                                               \* LoopCounter[i], 0-based as in the code
Top == Len(Toy.lc) - 2                                                  \* first iteration
Desc(n) == [j \in 1..(n + 1) |-> n + 1 - j]                             \* n, n-1, ..., 0
One2 == TOne(F, 1)

ASSUME ParamsOk ==
  /\ WOnCurve(E1, Gen1) /\ ~Gen1.inf /\ WMulNat(E1, RR, Gen1) = Inf
  /\ WOnCurve(E2, Gen2) /\ ~Gen2.inf /\ WMulNat(E2, RR, Gen2) = Inf
  /\ Rem(Succ(Pq), RR) = Zero /\ Toy.p % 3 = 2 /\ Toy.p % 4 = 3

(* ---- base-field shorthands -------------------------------------------------- *)
m(a, b) == MulMod(a, b, Pq)
ad(a, b) == AddMod(a, b, Pq)
sb(a, b) == SubMod(a, b, Pq)
ng(a) == SubMod(Zero, a, Pq)
iv(a) == InvMod(a, Pq)                       \* 0 |-> 0 (the library's convention)
db(a) == ad(a, a)
tr(a) == ad(db(a), a)
Half == iv(Two)
hv(a) == m(a, Half)
M2(a, b) == TMul(F, 1, a, b)

(* ---- points in the library's affine encoding: infinity = (0, 0) -------------- *)
AffRec(P) == IF P.inf THEN [X |-> Zero, Y |-> Zero] ELSE [X |-> P.x, Y |-> P.y]
IsInf(p) == p.X = Zero /\ p.Y = Zero
G1Tab == [a \in 1..R |-> AffRec(WMulNat(E1, FromInt(a - 1), Gen1))] \o <<>>
G2Tab == [b \in 1..R |-> AffRec(WMulNat(E2, FromInt(b - 1), Gen2))] \o <<>>
PtsG1(v) == [i \in 1..Len(v) |-> G1Tab[v[i] + 1]] \o <<>>
PtsG2(v) == [i \in 1..Len(v) |-> G2Tab[v[i] + 1]] \o <<>>

(* ---- MillerLoop -------------------------------------------------------------- *)
\* g2Proj.doubleStep: T <- 2T, tangent line (scaled by -2yz)
DoubleStep(T) ==
  LET A == hv(m(T.x, T.y))   B == m(T.y, T.y)   C == m(T.z, T.z)
      D == tr(C)             E == m(Bt, D)      Ff == tr(E)
      G == hv(ad(B, Ff))
      H == sb(m(ad(T.y, T.z), ad(T.y, T.z)), ad(B, C))
      I == sb(E, B)          J == m(T.x, T.x)   K == tr(m(E, E))
  IN [T |-> [x |-> m(sb(B, Ff), A), y |-> sb(m(G, G), K), z |-> m(B, H)],
      l |-> [r0 |-> ng(H), r1 |-> ng(tr(J)), r2 |-> I]]
\* g2Proj.addMixedStep: T <- T + a, chord line (scaled by L)
AddMixedStep(T, a) ==
  LET O == sb(T.y, m(a.Y, T.z))     L == sb(T.x, m(a.X, T.z))
      C == m(O, O)   D == m(L, L)   E == m(L, D)   Ff == m(T.z, C)   G == m(T.x, D)
      H == sb(ad(E, Ff), db(G))     t1 == m(T.y, E)
  IN [T |-> [x |-> m(L, H), y |-> sb(m(sb(G, H), O), t1), z |-> m(E, T.z)],
      l |-> [r0 |-> L, r1 |-> O, r2 |-> sb(m(a.X, O), m(L, a.Y))]]
\* line evaluation at P: r0 yP + u (r1 xP + r2)
EvalLine(l, p) == << m(l.r0, p.Y), ad(m(l.r1, p.X), l.r2) >>

\* "filter infinity points": indices of the pairs kept
Keep(Ps, Qs) ==
  LET n == Len(Ps)
      infinite(k) == IsInf(Ps[k]) \/ IsInf(Qs[k])
  IN IF FilterMode = "ok" THEN SelectSeq(Idx(n), LAMBDA k : ~infinite(k))
     ELSE SelectSeq(Idx(n), LAMBDA j : ~\E k \in 1..n : infinite(k) /\ j = (k % n) + 1)

MillerLoop(Ps, Qs) ==
  IF ~(Len(Ps) # 0 /\ Len(Ps) = Len(Qs)) THEN [err |-> TRUE]
  ELSE
    LET keep == Keep(Ps, Qs)
        n == Len(keep)
        p == [j \in 1..n |-> Ps[keep[j]]] \o <<>>
        q == [j \in 1..n |-> Qs[keep[j]]] \o <<>>
        T0 == [j \in 1..n |-> [x |-> q[j].X, y |-> q[j].Y, z |-> One]] \o <<>>
        \* the lines contributed by pair k in iteration i (one tangent, plus one chord when the bit is set)
        PairStep(T, k, i) ==
          LET d == DoubleStep(T)
              l1 == EvalLine(d.l, p[k])
          IN IF LCBit(i) = 0 THEN [T |-> d.T, f |-> l1]
             ELSE LET s == AddMixedStep(d.T, q[k])
                  IN [T |-> s.T, f |-> M2(EvalLine(s.l, p[k]), l1)]            \* l x l
        Iter(st, i) ==
          LET sq == IF i = Top THEN st.res ELSE M2(st.res, st.res)            \* first iteration: Square(1) skipped
          IN FoldLeft(LAMBDA s, k :
                        LET ps == PairStep(s.T[k], k, i)
                        IN [T |-> [s.T EXCEPT ![k] = ps.T],
                            res |-> IF i = Top /\ k = 1 THEN ps.f                 \* assign the line to the result
                                    ELSE IF i = Top /\ k = 2 THEN M2(ps.f, s.res) \* line x line
                                    ELSE M2(s.res, ps.f)],                      \* result x line
                      [T |-> st.T, res |-> sq], Idx(n))
    IN [err |-> FALSE, val |-> FoldLeft(Iter, [T |-> T0, res |-> One2], Desc(Top)).res]

(* ---- FinalExponentiation(z, _z...) ------------------------------------------- *)
HardExp == Div(Succ(Pq), RR)
FinalExp(zs) ==
  LET z == FoldLeft(M2, zs[1], Tail(zs))
      t == M2(TConj(F, 1, z), TInv(F, 1, z))                  \* easy part z^(p-1)
  IN IF t = One2 THEN t ELSE TExp(F, 1, t, HardExp)

(* ---- PrecomputeLines / MillerLoopFixedQ --------------------------------------- *)
LineZ == [R0 |-> Zero, R1 |-> Zero]
MkLine(lam, T) == [R0 |-> ng(lam), R1 |-> sb(m(lam, T.X), T.Y)]
AffDoubleStep(T) ==
  LET lam == m(tr(m(T.X, T.X)), iv(db(T.Y)))
      xr == sb(sb(m(lam, lam), T.X), T.X)
  IN [T |-> [X |-> xr, Y |-> sb(m(lam, sb(T.X, xr)), T.Y)], l |-> MkLine(lam, T)]
AffAddStep(T, a) ==
  LET lam == m(sb(a.Y, T.Y), iv(sb(a.X, T.X)))
      xr == sb(sb(m(lam, lam), T.X), a.X)
  IN [T |-> [X |-> xr, Y |-> sb(m(lam, sb(T.X, xr)), T.Y)], l |-> MkLine(lam, T)]
\* table [d, a]: d[i+1] the tangent of iteration i, a[i+1] the chord (only where the bit is set)
NoLines == [j \in 1..(Top + 1) |-> LineZ] \o <<>>
PrecomputeLines(Q) ==
  LET st == FoldLeft(LAMBDA s, i :
                       LET d == AffDoubleStep(s.T)
                       IN IF LCBit(i) = 0 THEN [T |-> d.T, d |-> [s.d EXCEPT ![i + 1] = d.l], a |-> s.a]
                          ELSE LET c == AffAddStep(d.T, Q)
                               IN [T |-> c.T, d |-> [s.d EXCEPT ![i + 1] = d.l], a |-> [s.a EXCEPT ![i + 1] = c.l]],
                     [T |-> Q, d |-> NoLines, a |-> NoLines], Desc(Top))
  IN [d |-> st.d, a |-> st.a]

MillerLoopFixedQ(Ps, lns) ==
  IF ~(Len(Ps) # 0 /\ Len(Ps) = Len(lns)) THEN [err |-> TRUE, lines |-> lns]
  ELSE
    LET n == Len(Ps)
        yInv == [k \in 1..n |-> iv(Ps[k].Y)] \o <<>>                       \* fp.BatchInvert: 0 |-> 0
        xNegOverY == [k \in 1..n |-> ng(m(Ps[k].X, yInv[k]))] \o <<>>
        Scale(l, k) == [R0 |-> m(l.R0, xNegOverY[k]), R1 |-> m(l.R1, yInv[k])]
        Sparse(l) == << One, ad(l.R0, l.R1) >>                            \* 1 + u (R0 + R1)
        Iter(st, i) ==
          FoldLeft(LAMBDA s, k :
                     LET ld == Scale(s.lines[k].d[i + 1], k)
                         la == Scale(s.lines[k].a[i + 1], k)
                         f == IF LCBit(i) = 0 THEN Sparse(ld) ELSE M2(Sparse(ld), Sparse(la))
                         tab == IF LCBit(i) = 0 THEN [s.lines[k] EXCEPT !.d[i + 1] = ld]
                                ELSE [s.lines[k] EXCEPT !.d[i + 1] = ld, !.a[i + 1] = la]
                     IN [lines |-> IF InPlace THEN [s.lines EXCEPT ![k] = tab] ELSE s.lines,
                         res |-> M2(s.res, f)],
                   [lines |-> st.lines, res |-> M2(st.res, st.res)], Idx(n))
        fin == FoldLeft(Iter, [lines |-> lns, res |-> One2], Desc(Top))
    IN [err |-> FALSE, val |-> fin.res, lines |-> fin.lines]

(* ---- the four computation variants as the public entry points compose them ----- *)
Pair(Ps, Qs) == LET f == MillerLoop(Ps, Qs) IN IF f.err THEN f ELSE [err |-> FALSE, val |-> FinalExp(<<f.val>>)]
PairingCheck(Ps, Qs) == LET f == Pair(Ps, Qs) IN IF f.err THEN f ELSE [err |-> FALSE, ok |-> f.val = One2]
PairFixedQ(Ps, lns) ==
  LET f == MillerLoopFixedQ(Ps, lns)
  IN IF f.err THEN f ELSE [err |-> FALSE, val |-> FinalExp(<<f.val>>), lines |-> f.lines]
PairingCheckFixedQ(Ps, lns) ==
  LET f == PairFixedQ(Ps, lns) IN IF f.err THEN f ELSE [err |-> FALSE, ok |-> f.val = One2, lines |-> f.lines]

(* ---- target group ----------------------------------------------------------------- *)
GT1 == Pair(<<G1Tab[2]>>, <<G2Tab[2]>>).val                  \* gT = e(G1, G2)
GTPow(e) == TExp(F, 1, GT1, e)

(* ---- the session machine ------------------------------------------------------------ *)
VARIABLES as, bs,      \* exponent vectors (the arguments [as[i]]G1, [bs[i]]G2), chosen at Init
          pc,          \* position in the session
          ml,          \* register holding a MillerLoop result
          lines,       \* content of the caller's lines slice (object 1 of the store lobj)
          out          \* last reply and the reply PairingMachine specifies: [got, want] (<<>> = none yet)
vars == <<as, bs, pc, ml, lines, out, lobj>>

K == Len(as)
Ps == PtsG1(as)
Qs == PtsG2(bs)
BN(v) == [i \in 1..Len(v) |-> FromInt(v[i])] \o <<>>
Drop(s) == SubSeq(s, 1, Len(s) - 1)

Vecs(k, D3) == [1..k -> IF k <= 2 THEN 0..(R - 1) ELSE D3]
Init == /\ \E k \in 1..KMax : as \in Vecs(k, DomA3) /\ bs \in Vecs(k, DomB3)
        /\ pc = 0 /\ ml = <<>> /\ lines = <<>> /\ out = <<>>
        /\ MInit

Reply(got, want) == out' = [got |-> got, want |-> want]

\* Pair(P, Q)
DoPair == /\ pc = 0 /\ pc' = 1
          /\ Reply(Pair(Ps, Qs), PairReply(BN(as), BN(bs), RR))
          /\ MPure /\ UNCHANGED <<as, bs, ml, lines>>
\* f, err := MillerLoop(P, Q)
DoMillerLoop == /\ pc = 1 /\ pc' = 2
                /\ ml' = MillerLoop(Ps, Qs)
                /\ MPure /\ UNCHANGED <<as, bs, lines, out>>
\* FinalExponentiation(&f)
DoFinalExp == /\ pc = 2 /\ pc' = 3
              /\ Reply([err |-> FALSE, val |-> FinalExp(<<ml.val>>)], PairReply(BN(as), BN(bs), RR))
              /\ ml' = <<>>
              /\ MPure /\ UNCHANGED <<as, bs, lines>>
\* FinalExponentiation(&f1, &f2) on the Miller loops of a split of the pairs at j
DoSplit == /\ pc = 3 /\ pc' = 4
           /\ IF K < 2 THEN UNCHANGED out
              ELSE \E j \in 1..(K - 1) :
                     LET f1 == MillerLoop(SubSeq(Ps, 1, j), SubSeq(Qs, 1, j))
                         f2 == MillerLoop(SubSeq(Ps, j + 1, K), SubSeq(Qs, j + 1, K))
                     IN Reply([err |-> FALSE, val |-> FinalExp(<<f1.val, f2.val>>)],
                              SplitReply(SubSeq(BN(as), 1, j), SubSeq(BN(bs), 1, j),
                                         SubSeq(BN(as), j + 1, K), SubSeq(BN(bs), j + 1, K), RR))
           /\ MPure /\ UNCHANGED <<as, bs, ml, lines>>
\* PairingCheck(P, Q)
DoCheck == /\ pc = 4 /\ pc' = 5
           /\ Reply(PairingCheck(Ps, Qs), CheckReply(BN(as), BN(bs), RR))
           /\ MPure /\ UNCHANGED <<as, bs, ml, lines>>
\* argument lists of different lengths (includes the empty list against one element when K = 1)
DoMismatch == /\ pc = 5 /\ pc' = 6
              /\ \/ Reply(Pair(Drop(Ps), Qs), PairReply(Drop(BN(as)), BN(bs), RR))
                 \/ Reply(PairingCheck(Ps, Drop(Qs)), CheckReply(BN(as), Drop(BN(bs)), RR))
              /\ MPure /\ UNCHANGED <<as, bs, ml, lines>>
\* lines = append(lines, PrecomputeLines(Q[i])), one call per step
DoPrecompute == /\ pc = 6
                /\ LET i == Len(lines) + 1
                       tab == PrecomputeLines(Qs[i])
                   IN /\ lines' = Append(lines, tab)
                      /\ MPrecompute(1, FromInt(bs[i]), tab)           \* toy "digest" = the content itself
                      /\ pc' = IF i = K THEN 7 ELSE 6
                /\ UNCHANGED <<as, bs, ml, out>>
\* two uses of the same lines object, in every order of the two fixed-Q entry points
DoPairFixedQ == /\ pc \in {7, 8} /\ pc' = pc + 1
                /\ LET f == PairFixedQ(Ps, lines)
                   IN Reply([err |-> f.err, val |-> f.val], FixedPairReply(BN(as), 1, RR)) /\ lines' = f.lines
                /\ MPure /\ UNCHANGED <<as, bs, ml>>
DoCheckFixedQ == /\ pc \in {7, 8} /\ pc' = pc + 1
                 /\ LET f == PairingCheckFixedQ(Ps, lines)
                    IN Reply([err |-> f.err, ok |-> f.ok], FixedCheckReply(BN(as), 1, RR)) /\ lines' = f.lines
                 /\ MPure /\ UNCHANGED <<as, bs, ml>>
\* fewer points than lines
DoFixedMismatch == /\ pc = 9 /\ pc' = 10
                   /\ LET f == PairFixedQ(Drop(Ps), lines)
                      IN Reply([err |-> f.err], FixedPairReply(Drop(BN(as)), 1, RR)) /\ lines' = f.lines
                   /\ MPure /\ UNCHANGED <<as, bs, ml>>

Next == \/ DoPair \/ DoMillerLoop \/ DoFinalExp \/ DoSplit \/ DoCheck \/ DoMismatch
        \/ DoPrecompute \/ DoPairFixedQ \/ DoCheckFixedQ \/ DoFixedMismatch
Spec == Init /\ [][Next]_vars

(* ---- properties ------------------------------------------------------------------------ *)
\* the generator pairing has exact order R
NonDegenerate == GT1 # One2 /\ TExp(F, 1, GT1, RR) = One2
\* every reply is the one PairingMachine specifies, mapped to GT by e |-> gT^e:
\* bilinearity, agreement of the variants, infinity contributes 1, exact PairingCheck, errors
Matches(got, want) ==
  /\ got.err = want.err
  /\ ~want.err => IF "exp" \in DOMAIN want THEN got.val = GTPow(want.exp) ELSE got.ok = want.ok
Refines == out = <<>> \/ Matches(out.got, out.want)
\* the Miller-loop register is an error exactly on a size mismatch (never in this session)
MillerOk == ml = <<>> \/ ~ml.err
\* a lines object is a read-only argument: its content stays what PrecomputeLines returned
LinesReadOnly == \A i \in 1..Len(lines) : lines[i] = LinesOf(1)[i].dig
LinesTrackQ == Len(lines) = Len(LinesOf(1)) /\ \A i \in 1..Len(lines) : LinesOf(1)[i].b = FromInt(bs[i])
=============================================================================
