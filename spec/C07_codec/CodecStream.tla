----------------------------- MODULE CodecStream -----------------------------
(* The streaming Encoder / Decoder of gnark-crypto (ecc/<curve>/marshal.go,     *)
(* fr.Vector.ReadFrom/WriteTo) as a state machine over a sequence of units      *)
(* (bytes in trace validation, small abstract units in model checking).         *)
(*                                                                             *)
(* Item types are terms:  LeafT(t)  a fixed-shape value decoded by Leaf         *)
(*                                  (integers, field elements, points)          *)
(*                        VecT(ty)  a length prefix of PL units followed by     *)
(*                                  that many items of type ty                  *)
(* so []fr.Element = VecT(LeafT("fr")), [][]fr.Element = VecT(VecT(..)),        *)
(* [][][]fr.Element, []G1Affine = VecT(LeafT("g1")), [][]uint64, ...            *)
(*                                                                             *)
(* The leaf codecs are parameters (substituted in the cfg files):               *)
(*   Leaf(t, w, p, ctx)  decodes a leaf of type t from w after offset p:        *)
(*                       [ok |-> TRUE, v, n]  or  [ok |-> FALSE, why]           *)
(*   SerLeaf(t, v, ctx)  the units of leaf value v                              *)
(*   PL, PrefixVal(units), PrefixUnits(n)   the length prefix                   *)
(*                                                                             *)
(* ParseItem is the SPECIFIED decoder: an item is accepted iff the prefix is    *)
(* complete and every one of its sub-items is accepted - an error met anywhere  *)
(* inside an item is the reply of the call that decodes the item, whatever      *)
(* follows it.                                                                 *)
(*                                                                             *)
(* State: outbuf  what reached the writer        wcnt  Encoder.BytesWritten     *)
(*        wire    what the reader will deliver   pos   units taken from it      *)
(*        cnt     Decoder.BytesRead                                             *)
(* One action per public entry point (NewEncoder, Encode, NewDecoder, Decode),  *)
(* fault actions (Truncate, Corrupt) between an encoder and a decoder.          *)
EXTENDS Integers, Sequences, SequencesExt

CONSTANTS PL, PrefixVal(_), PrefixUnits(_), Leaf(_,_,_,_), SerLeaf(_,_,_)

LeafT(t) == [k |-> "leaf", t |-> t]
VecT(ty) == [k |-> "vec", of |-> ty]

PErr(why) == [ok |-> FALSE, why |-> why]
POk(v, n) == [ok |-> TRUE, v |-> v, n |-> n]

RECURSIVE ParseItem(_,_,_,_)
ParseItem(ty, w, p, ctx) ==
  IF ty.k = "leaf" THEN Leaf(ty.t, w, p, ctx)
  ELSE IF Len(w) - p < PL THEN PErr("short")
  ELSE LET n0 == PrefixVal(SubSeq(w, p + 1, p + PL))
           \* every item takes at least one unit: a count beyond the remaining units fails in any case ("short"),
           \* so the loop is cut there (keeps the evaluation bounded by the length of the wire)
           n == IF n0 > Len(w) - p THEN Len(w) - p + 1 ELSE n0
           res == FoldLeft(LAMBDA acc, i :
                             IF ~acc.ok THEN acc
                             ELSE LET r == ParseItem(ty.of, w, acc.p, ctx)
                                  IN IF r.ok THEN [ok |-> TRUE, v |-> Append(acc.v, r.v), p |-> acc.p + r.n, why |-> ""]
                                     ELSE [ok |-> FALSE, v |-> <<>>, p |-> acc.p, why |-> r.why],
                           [ok |-> TRUE, v |-> <<>>, p |-> p + PL, why |-> ""],
                           [i \in 1..n |-> i])
       IN IF res.ok THEN POk(res.v, res.p - p) ELSE PErr(res.why)

RECURSIVE SerItem(_,_,_)
SerItem(ty, v, ctx) ==
  IF ty.k = "leaf" THEN SerLeaf(ty.t, v, ctx)
  ELSE FoldLeft(LAMBDA acc, i : acc \o SerItem(ty.of, v[i], ctx), PrefixUnits(Len(v)), [i \in 1..Len(v) |-> i])

--------------------------------------------------------------------------------
VARIABLES outbuf, wcnt, wire, pos, cnt
svars == <<outbuf, wcnt, wire, pos, cnt>>

SInit == outbuf = <<>> /\ wcnt = 0 /\ wire = <<>> /\ pos = 0 /\ cnt = 0

\* NewEncoder(w): an empty writer, counter 0
NewEncoder == outbuf' = <<>> /\ wcnt' = 0 /\ UNCHANGED <<wire, pos, cnt>>
\* Encode(v): `taken` units reached the writer, the counter reads newcnt afterwards
Encode(taken, newcnt) == outbuf' = outbuf \o taken /\ wcnt' = newcnt /\ UNCHANGED <<wire, pos, cnt>>
\* NewDecoder(r) on a reader that will deliver w
NewDecoder(w) == wire' = w /\ pos' = 0 /\ cnt' = 0 /\ UNCHANGED <<outbuf, wcnt>>
\* Decode(&v): `used` units were taken from the reader, the counter reads newcnt afterwards
Decode(used, newcnt) == pos' = pos + used /\ cnt' = newcnt /\ UNCHANGED <<outbuf, wcnt, wire>>

\* faults applied to the encoder output before it is handed to a decoder
Truncated(k) == SubSeq(outbuf, 1, k)
Corrupted(i, b) == [outbuf EXCEPT ![i] = b]

\* the specified reply of Decode(&v) for an item of type ty, and the specified output of Encode(v)
DecodeReply(ty, ctx) == ParseItem(ty, wire, pos, ctx)
EncodeUnits(ty, v, ctx) == SerItem(ty, v, ctx)
=============================================================================
