SPECIFICATION Spec
CONSTANTS
  Strict0 = TRUE
  MaxPokes = 2
INVARIANTS Sound Canonical RoundTrip RoundTripLonger AcceptSet TruncRefused EulerInv
CHECK_DEADLOCK FALSE
