SPECIFICATION Spec
CONSTANTS
  Strict0 = FALSE
  MaxPokes = 1
INVARIANTS Sound Canonical RoundTrip RoundTripLonger TruncRefused
CHECK_DEADLOCK FALSE
