SPECIFICATION Spec
CONSTANTS
  MaxItems = 1
  KeepErr = TRUE
  KeepWErr = FALSE
  CountPartialFixed = TRUE
  PL = 1
  PrefixVal <- AbsPrefixVal
  PrefixUnits <- AbsPrefixUnits
  Leaf <- AbsLeaf
  SerLeaf <- AbsSerLeaf
INVARIANTS Refines CountersExact RoundTrip TruncationMet WriterErrorSeen
CHECK_DEADLOCK FALSE
