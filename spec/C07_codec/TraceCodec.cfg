SPECIFICATION Spec
CHECK_DEADLOCK FALSE
CONSTANTS
  PL = 4
  PrefixVal <- RealPrefixVal
  PrefixUnits <- RealPrefixUnits
  Leaf <- RealLeaf
  SerLeaf <- RealSerLeaf
