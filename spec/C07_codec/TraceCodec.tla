------------------------------ MODULE TraceCodec ------------------------------
(* Trace validation for C07 (short-Weierstrass groups G1/G2, GT, streams): replays    *)
(* the ndjson log of the real gnark-crypto code (harness/c07.go) and judges every     *)
(* reply against PointCodec (decision procedure over byte strings) and CodecStream    *)
(* (Encoder / Decoder state machine).  One trace = one curve (header: curve).          *)
(*                                                                                     *)
(* Events                                                                              *)
(*   KnowNot     xs: x coordinates with no point above them (verified here by the Euler  *)
(*               criterion, once; again only to save recomputation).                     *)
(*   Know        pts: affine points the harness will use (roots of x^3+ax+b it knows).  *)
(*               Each is VERIFIED here (canonical, on the curve) and its subgroup       *)
(*               membership computed once; the table only saves recomputation and       *)
(*               supplies square roots - it is never trusted.                           *)
(*   Bytes / RawBytes / Marshal     p -> out                                            *)
(*   SetBytes / Unmarshal           buf -> n, err, out (the receiver afterwards)        *)
(*   GTBytes / GTMarshal / GTSetBytes / GTUnmarshal                                     *)
(*   NewEncoder(raw)  Encode(ty, val) -> out (what the writer received), n0, n, err     *)
(*   NewDecoder(sg, src)            src: the encoder output as is / truncated at k /    *)
(*                                  one byte overwritten / arbitrary bytes              *)
(*   Decode(ty) -> used (bytes the reader handed out), n0, n (BytesRead), err, val      *)
(*                                                                                     *)
(* Reasons: "panic"; "accepted-<why>" (the specification refuses the input for <why>   *)
(* in short/flag/padding/noncanonical/noroot/sign0/offcurve/subgroup and the call       *)
(* returned no error); "spurious-error"; "value"; "noncanonical" (result limbs not      *)
(* reduced); "consumed"; "counter" (BytesRead/BytesWritten did not move by the bytes    *)
(* actually consumed/produced); "counter-continuity"; "bytes" (wrong encoding);         *)
(* "mutated" (a read-only argument changed); "swallowed-writer-error"; "badinput" /     *)
(* "nowitness" (harness faults, never a verdict on the code).                           *)
(* Error texts are not compared.  After an error the receiver and the position of the   *)
(* stream are unspecified: the position is re-based on the bytes the reader handed out. *)
(* When the writer refuses a Write the property only demands an error (the quantifier   *)
(* of C07 ranges over reader-side faults): output and counter of that call are not      *)
(* judged.                                                                              *)
EXTENDS TraceKernel, CurveParams, PointCodec, CodecStream

Cn == Hdr.curve
HasG2 == Cn \in PairingCurves
C1 == G1Curve(Cn)
C2 == G2Curve(Cn)
Crv(g) == IF g = "G1" THEN C1 ELSE C2
FPar == FieldP(Cn \o "/fp")
RPar == FieldP(Cn \o "/fr")
Fq == FPar.q
Rq == RPar.q
Rinv == InvMod(Rem(Shl(One, FPar.w * FPar.n), Fq), Fq)
RRinv == InvMod(Rem(Shl(One, RPar.w * RPar.n), Rq), Rq)
FCtx == C1.F

\* flag scheme per curve, transcribed from the doc comments of ecc/<curve>/marshal.go
Scheme == IF Cn \in {"bn254", "grumpkin", "stark-curve"} THEN "bn"
          ELSE IF Cn = "secp256k1" THEN "raw" ELSE "zcash"
L1 == [scheme |-> Scheme, nB |-> FPar.bytes, d |-> 1]
L2 == [scheme |-> Scheme, nB |-> FPar.bytes, d |-> TDegree(FCtx, C2.k)]
Lay(g) == IF g = "G1" THEN L1 ELSE L2

\* (|F| - 1) / 2 for the coordinate field of each group (Euler criterion)
EulerExp1 == Shr(Pred(Fq), 1)
EulerExp2 == Shr(Pred(FoldLeft(LAMBDA acc, i : Mul(acc, Fq), One, [i \in 1..TDegree(FCtx, C2.k) |-> i])), 1)
IsSquare(g, z) == LET C == Crv(g) IN
                  z = CZero(C) \/ TExp(C.F, C.k, z, IF g = "G1" THEN EulerExp1 ELSE EulerExp2) = TOne(C.F, C.k)

VARIABLES rawmode, sgopt, memo, nonsq
tvars == <<outbuf, wcnt, wire, pos, cnt, rawmode, sgopt, memo, nonsq>>

CV(g, raw) == TVal(Crv(g).F, Crv(g).k, Rinv, raw)
CC(g, raw) == TCanon(Crv(g).F, Crv(g).k, raw)
PointCanon(g, p) == CC(g, p.X) /\ CC(g, p.Y)
AbsPoint(g, p) == AffOfAff(Crv(g), [X |-> CV(g, p.X), Y |-> CV(g, p.Y)])

\* ---------------------------------------------------------------------------------------------
\* verified witness table
MemoEntry(k) == LET C == Crv(k.g)
                    P == AbsPoint(k.g, k)
                IN [g |-> k.g, x |-> P.x, y |-> P.y, yy |-> TMul(C.F, C.k, P.y, P.y),
                    sub |-> WMulNat(C, Rq, P) = Inf]
KnowOk(k) == PointCanon(k.g, k) /\ ~AbsPoint(k.g, k).inf /\ WOnCurve(Crv(k.g), AbsPoint(k.g, k))

RootTV(g, mm, ns, z) ==
  LET S == {m \in mm : m.g = g /\ m.yy = z} IN
  IF <<g, z>> \in ns THEN [ex |-> FALSE, wit |-> FALSE]
  ELSE IF S # {} THEN [ex |-> TRUE, wit |-> TRUE, y |-> (CHOOSE m \in S : TRUE).y]
  ELSE IF z = CZero(Crv(g)) THEN [ex |-> TRUE, wit |-> TRUE, y |-> z]
  ELSE IF IsSquare(g, z) THEN [ex |-> TRUE, wit |-> FALSE] ELSE [ex |-> FALSE, wit |-> FALSE]
InSubTV(g, mm, P) ==
  LET C == Crv(g)
      S == {m \in mm : m.g = g /\ m.x = P.x /\ (m.y = P.y \/ m.y = TNeg(C.F, C.k, P.y))}
  IN IF S # {} THEN (CHOOSE m \in S : TRUE).sub ELSE WMulNat(C, Rq, P) = Inf

DecodeTV(g, bs, sg, mm, ns) ==
  DecodePoint(Crv(g), Lay(g), bs, sg, TRUE, LAMBDA z : RootTV(g, mm, ns, z), LAMBDA P : InSubTV(g, mm, P))

\* x coordinates the harness claims to have no point above them: verified once by the Euler criterion
NonSqOf(g, xraw) == Rhs(Crv(g), CV(g, xraw))
KnowNotOk(g, xraw) == CC(g, xraw) /\ ~IsSquare(g, NonSqOf(g, xraw))

\* ---------------------------------------------------------------------------------------------
\* leaf codecs of the stream machine (substituted for Leaf / SerLeaf / PrefixVal / PrefixUnits in the cfg)
MinI(a, b) == IF a < b THEN a ELSE b
GroupOfLeaf(t) == IF t = "g1" THEN "G1" ELSE "G2"
FixedInt(w, p, n) == IF Len(w) - p < n THEN PErr("short") ELSE POk(FromBytesBE(SubSeq(w, p + 1, p + n)), n)
ElemLeaf(w, p, par) == IF Len(w) - p < par.bytes THEN PErr("short")
                       ELSE LET x == FromBytesBE(SubSeq(w, p + 1, p + par.bytes))
                            IN IF Lt(x, par.q) THEN POk(x, par.bytes) ELSE PErr("noncanonical")
RealLeaf(t, w, p, ctx) ==
  CASE t = "u64" -> FixedInt(w, p, 8)
    [] t = "u32" -> FixedInt(w, p, 4)
    [] t = "fr" -> ElemLeaf(w, p, RPar)
    [] t = "fp" -> ElemLeaf(w, p, FPar)
    [] t \in {"g1", "g2"} ->
         LET g == GroupOfLeaf(t)
             R == DecodeTV(g, SubSeq(w, p + 1, MinI(Len(w), p + RSize(Lay(g)))), ctx.sg, ctx.memo, ctx.nonsq)
         IN IF R.ok THEN POk(R.pt, R.n) ELSE PErr(R.why)
RealSerLeaf(t, v, ctx) ==
  CASE t = "u64" -> ToBytesBE(v, 8)
    [] t = "u32" -> ToBytesBE(v, 4)
    [] t = "fr" -> ToBytesBE(v, RPar.bytes)
    [] t = "fp" -> ToBytesBE(v, FPar.bytes)
    [] t \in {"g1", "g2"} -> EncodePoint(Crv(GroupOfLeaf(t)), Lay(GroupOfLeaf(t)), v, IF ctx.raw THEN "r" ELSE "c")
\* big-endian uint32; values beyond the 31-bit integers of TLC are clamped (ParseItem clamps to the wire length anyway)
RealPrefixVal(bs) == IF bs[1] >= 8 THEN 134217727 ELSE ((bs[1] * 256 + bs[2]) * 256 + bs[3]) * 256 + bs[4]
RealPrefixUnits(n) == ToBytesBE(FromInt(n), 4)

TyOf(s) ==
  CASE s \in {"u64", "u32", "fr", "fp", "g1", "g2"} -> LeafT(s)
    [] s = "su64" -> VecT(LeafT("u64"))
    [] s = "ssu64" -> VecT(VecT(LeafT("u64")))
    [] s = "vfr" -> VecT(LeafT("fr"))
    [] s = "vfp" -> VecT(LeafT("fp"))
    [] s = "vvfr" -> VecT(VecT(LeafT("fr")))
    [] s = "vvvfr" -> VecT(VecT(VecT(LeafT("fr"))))
    [] s = "sg1" -> VecT(LeafT("g1"))
    [] s = "sg2" -> VecT(LeafT("g2"))

\* logged raw values (Montgomery limbs as one integer, nested arrays) -> abstract values
RECURSIVE AbsVal(_,_)
AbsVal(ty, raw) ==
  IF ty.k = "vec" THEN [i \in 1..Len(raw) |-> AbsVal(ty.of, raw[i])] \o <<>>
  ELSE CASE ty.t \in {"u64", "u32"} -> raw
         [] ty.t = "fr" -> MulMod(raw, RRinv, Rq)
         [] ty.t = "fp" -> MulMod(raw, Rinv, Fq)
         [] ty.t \in {"g1", "g2"} -> AbsPoint(GroupOfLeaf(ty.t), raw)
RECURSIVE CanonVal(_,_)
CanonVal(ty, raw) ==
  IF ty.k = "vec" THEN \A i \in 1..Len(raw) : CanonVal(ty.of, raw[i])
  ELSE CASE ty.t = "u64" -> IsNat(raw) /\ BitLen(raw) <= 64
         [] ty.t = "u32" -> IsNat(raw) /\ BitLen(raw) <= 32
         [] ty.t = "fr" -> IsNat(raw) /\ Lt(raw, Rq)
         [] ty.t = "fp" -> IsNat(raw) /\ Lt(raw, Fq)
         [] ty.t \in {"g1", "g2"} -> PointCanon(GroupOfLeaf(ty.t), raw)
\* what may be handed to Encode: canonical limbs, points on their curve
RECURSIVE ValidVal(_,_)
ValidVal(ty, raw) ==
  IF ty.k = "vec" THEN \A i \in 1..Len(raw) : ValidVal(ty.of, raw[i])
  ELSE CanonVal(ty, raw) /\ (ty.t \in {"g1", "g2"} => WOnCurve(Crv(GroupOfLeaf(ty.t)), AbsPoint(GroupOfLeaf(ty.t), raw)))

IsErr(e) == Has(e, "err")

\* ---------------------------------------------------------------------------------------------
\* single-point methods and byte-slice helpers
ModeOfOp(op) == IF op = "Bytes" THEN "c" ELSE "r"
JudgeBytes(e) ==
  IF ~PointCanon(e.g, e.p) \/ ~WOnCurve(Crv(e.g), AbsPoint(e.g, e.p)) THEN {"badinput"}
  ELSE IF Panicked(e) THEN {"panic"}
  ELSE (IF e.out # EncodePoint(Crv(e.g), Lay(e.g), AbsPoint(e.g, e.p), ModeOfOp(e.op)) THEN {"bytes"} ELSE {})
       \cup (IF e.pa # e.p THEN {"mutated"} ELSE {})

PointValue(g, out, want) == IF ~PointCanon(g, out) THEN {"noncanonical"}
                            ELSE IF AbsPoint(g, out) # want THEN {"value"} ELSE {}
JudgeSetBytes(e) ==
  LET R == DecodeTV(e.g, e.buf, TRUE, memo, nonsq) IN
  IF Panicked(e) THEN {"panic"}
  ELSE IF ~R.ok /\ R.why = "nowitness" THEN {"nowitness"}
  ELSE (IF e.bufa # e.buf THEN {"mutated"} ELSE {}) \cup
       (IF R.ok
        THEN IF IsErr(e) THEN {"spurious-error"}
             ELSE (IF e.op = "SetBytes" /\ e.n # R.n THEN {"consumed"} ELSE {}) \cup PointValue(e.g, e.out, R.pt)
        ELSE IF IsErr(e) THEN {} ELSE {"accepted-" \o R.why})

\* GT (not a value type of the property text; covered on the side): the coefficients of the tower element, each
\* nB bytes big endian, highest first (E12, E6) or lowest first (E24: bls24-315/317), exact length.  E12.SetBytes
\* refuses coefficients >= p; E24 / E6 reduce them: both are accepted here (the property does not speak about GT),
\* but an accepted string must denote the value of its coefficients mod p.
GTk == GTLevel(Cn)
GTSize == TDegree(FCtx, GTk) * FPar.bytes
GTLay == [scheme |-> "raw", nB |-> FPar.bytes, d |-> TDegree(FCtx, GTk)]
GTC == [F |-> FCtx, k |-> GTk]
GTVal(raw) == TVal(FCtx, GTk, Rinv, raw)
GTFwd == Cn \in {"bls24-315", "bls24-317"}
GTBytesOf(v) == LET fl == IF GTFwd THEN TFlat(FCtx, GTk, v) ELSE Rev(TFlat(FCtx, GTk, v))
                IN Concat([i \in 1..Len(fl) |-> ToBytesBE(fl[i], FPar.bytes)] \o <<>>)
GTOfChunks(ch) == LET red == [i \in 1..Len(ch) |-> Rem(ch[i], Fq)] \o <<>>
                  IN TUnflat(FCtx, GTk, IF GTFwd THEN red ELSE Rev(red))
JudgeGTBytes(e) ==
  IF ~TCanon(FCtx, GTk, e.v) THEN {"badinput"}
  ELSE IF Panicked(e) THEN {"panic"}
  ELSE (IF e.out # GTBytesOf(GTVal(e.v)) THEN {"bytes"} ELSE {})
       \cup (IF e.va # e.v THEN {"mutated"} ELSE {})
JudgeGTSetBytes(e) ==
  LET okLen == Len(e.buf) = GTSize
      ch == Chunks(GTLay, e.buf)
      canon == okLen /\ CanonChunks(GTC, ch)
  IN IF Panicked(e) THEN {"panic"}
     ELSE (IF e.bufa # e.buf THEN {"mutated"} ELSE {}) \cup
          (IF ~okLen THEN (IF IsErr(e) THEN {} ELSE {"accepted-length"})
           ELSE IF IsErr(e) THEN (IF canon THEN {"spurious-error"} ELSE {})
           ELSE IF ~TCanon(FCtx, GTk, e.out) THEN {"noncanonical"}
           ELSE IF GTVal(e.out) # GTOfChunks(ch) THEN {"value"} ELSE {})

\* ---------------------------------------------------------------------------------------------
\* streams
IsPrefixOf(a, b) == Len(a) <= Len(b) /\ SubSeq(b, 1, Len(a)) = a

JudgeEncode(e) ==
  LET ty == TyOf(e.ty) IN
  IF ~ValidVal(ty, e.val) THEN {"badinput"}
  ELSE IF Panicked(e) THEN {"panic"}
  ELSE LET B == EncodeUnits(ty, AbsVal(ty, e.val), [raw |-> rawmode]) IN
       (IF e.vala # e.val THEN {"mutated"} ELSE {}) \cup
       (IF Has(e, "werr")
        THEN (IF IsErr(e) THEN {} ELSE {"swallowed-writer-error"})
        ELSE (IF IsErr(e) THEN {"spurious-error"} ELSE {})
             \cup (IF e.out # B THEN {"bytes"} ELSE {})
             \cup (IF e.n - e.n0 # Len(e.out) THEN {"counter"} ELSE {})
             \cup (IF e.n0 # wcnt THEN {"counter-continuity"} ELSE {}))

SrcOk(s) == CASE s.k = "enc" -> TRUE
              [] s.k = "trunc" -> s.at \in 0..Len(outbuf)
              [] s.k = "corrupt" -> s.at \in 1..Len(outbuf) /\ s.b \in 0..255
              [] s.k = "bytes" -> TRUE
              [] OTHER -> FALSE
WireOf(e) == CASE e.src.k = "enc" -> outbuf
               [] e.src.k = "trunc" -> Truncated(e.src.at)
               [] e.src.k = "corrupt" -> Corrupted(e.src.at, e.src.b)
               [] e.src.k = "bytes" -> e.wire

JudgeDecode(e) ==
  LET ty == TyOf(e.ty)
      R == DecodeReply(ty, [sg |-> sgopt, memo |-> memo, nonsq |-> nonsq])
  IN IF Panicked(e) THEN {"panic"}
     ELSE IF ~R.ok /\ R.why = "nowitness" THEN {"nowitness"}
     ELSE (IF e.n0 # cnt THEN {"counter-continuity"} ELSE {})
          \cup (IF e.n - e.n0 # e.used THEN {"counter"} ELSE {})
          \cup (IF R.ok
                THEN IF IsErr(e) THEN {"spurious-error"}
                     ELSE (IF e.used # R.n THEN {"consumed"} ELSE {})
                          \cup (IF ~CanonVal(ty, e.val) THEN {"noncanonical"}
                                ELSE IF AbsVal(ty, e.val) # R.v THEN {"value"} ELSE {})
                ELSE IF IsErr(e) THEN {} ELSE {"accepted-" \o R.why})

\* ---------------------------------------------------------------------------------------------
\* structured objects (keys, opening proofs): on the wire, the concatenation of their items in declaration order
ObjCtxW(e) == [raw |-> e.raw]
ObjBytes(e) == FoldLeft(LAMBDA acc, i : acc \o EncodeUnits(TyOf(e.items[i].ty), AbsVal(TyOf(e.items[i].ty), e.items[i].val), ObjCtxW(e)),
                        <<>>, [i \in 1..Len(e.items) |-> i])
JudgeObjWrite(e) ==
  IF \E i \in 1..Len(e.items) : ~ValidVal(TyOf(e.items[i].ty), e.items[i].val) THEN {"badinput"}
  ELSE IF Panicked(e) THEN {"panic"}
  ELSE LET B == ObjBytes(e) IN
       (IF \E i \in 1..Len(e.items) : e.itemsa[i] # e.items[i].val THEN {"mutated"} ELSE {}) \cup
       (IF Has(e, "werr")
        THEN (IF IsErr(e) THEN {} ELSE {"swallowed-writer-error"})
        ELSE (IF IsErr(e) THEN {"spurious-error"} ELSE {})
             \cup (IF e.out # B THEN {"bytes"} ELSE {})
             \cup (IF e.n # Len(e.out) THEN {"counter"} ELSE {}))

ObjParse(e) ==
  FoldLeft(LAMBDA acc, i :
             IF ~acc.ok THEN acc
             ELSE LET r == ParseItem(TyOf(e.tys[i]), e.wire, acc.p, [sg |-> e.sg, memo |-> memo, nonsq |-> nonsq])
                  IN IF r.ok THEN [ok |-> TRUE, vs |-> Append(acc.vs, r.v), p |-> acc.p + r.n, why |-> ""]
                     ELSE [ok |-> FALSE, vs |-> <<>>, p |-> acc.p, why |-> r.why],
           [ok |-> TRUE, vs |-> <<>>, p |-> 0, why |-> ""], [i \in 1..Len(e.tys) |-> i])
JudgeObjRead(e) ==
  LET R == ObjParse(e)
      structOk == ~e.eqlen \/ Len(R.vs[1]) = Len(R.vs[2])
  IN IF Panicked(e) THEN {"panic"}
     ELSE IF ~R.ok /\ R.why = "nowitness" THEN {"nowitness"}
     ELSE (IF e.n # e.used THEN {"counter"} ELSE {})
          \cup (IF R.ok /\ structOk
                THEN IF IsErr(e) THEN {"spurious-error"}
                     ELSE (IF e.used # R.p THEN {"consumed"} ELSE {})
                          \cup (IF \E i \in 1..Len(e.tys) : ~CanonVal(TyOf(e.tys[i]), e.vals[i]) THEN {"noncanonical"}
                                ELSE IF [i \in 1..Len(e.tys) |-> AbsVal(TyOf(e.tys[i]), e.vals[i])] \o <<>> # R.vs THEN {"value"} ELSE {})
                ELSE IF IsErr(e) THEN {} ELSE {"accepted-" \o (IF R.ok THEN "length-mismatch" ELSE R.why)})

\* ---------------------------------------------------------------------------------------------
Judge(e) ==
  CASE e.op = "Know" -> IF \A i \in 1..Len(e.pts) : KnowOk(e.pts[i]) THEN {} ELSE {"badinput"}
    [] e.op = "KnowNot" -> IF \A i \in 1..Len(e.xs) : <<e.g, NonSqOf(e.g, e.xs[i])>> \in nonsq' THEN {} ELSE {"badinput"}
    [] e.op \in {"Bytes", "RawBytes", "Marshal"} -> JudgeBytes(e)
    [] e.op \in {"SetBytes", "Unmarshal"} -> JudgeSetBytes(e)
    [] e.op \in {"GTBytes", "GTMarshal"} -> JudgeGTBytes(e)
    [] e.op \in {"GTSetBytes", "GTUnmarshal"} -> JudgeGTSetBytes(e)
    [] e.op = "NewEncoder" -> IF Panicked(e) THEN {"panic"} ELSE {}
    [] e.op = "Encode" -> JudgeEncode(e)
    [] e.op = "NewDecoder" -> IF ~SrcOk(e.src) THEN {"badinput"} ELSE IF Panicked(e) THEN {"panic"} ELSE {}
    [] e.op = "Decode" -> JudgeDecode(e)
    [] e.op = "ObjWrite" -> JudgeObjWrite(e)
    [] e.op = "ObjRead" -> JudgeObjRead(e)
    [] OTHER -> {"unknown-op"}

\* successor state: per the specification; quantities that belong to the environment (what the writer
\* received, how many bytes the reader handed out) are taken from the log
Apply(e) ==
  CASE e.op = "Know" ->
         /\ memo' = memo \cup {MemoEntry(e.pts[i]) : i \in {j \in 1..Len(e.pts) : KnowOk(e.pts[j])}}
         /\ UNCHANGED <<svars, rawmode, sgopt, nonsq>>
    [] e.op = "KnowNot" ->
         /\ nonsq' = nonsq \cup {<<e.g, NonSqOf(e.g, e.xs[i])>> : i \in {j \in 1..Len(e.xs) : KnowNotOk(e.g, e.xs[j])}}
         /\ UNCHANGED <<svars, rawmode, sgopt, memo>>
    [] e.op = "NewEncoder" -> NewEncoder /\ rawmode' = e.raw /\ UNCHANGED <<sgopt, memo, nonsq>>
    [] e.op = "Encode" ->
         /\ Encode(IF Has(e, "out") THEN e.out ELSE <<>>, IF Has(e, "n") THEN e.n ELSE wcnt)
         /\ UNCHANGED <<rawmode, sgopt, memo, nonsq>>
    [] e.op = "NewDecoder" ->
         /\ NewDecoder(IF SrcOk(e.src) THEN WireOf(e) ELSE <<>>)
         /\ sgopt' = e.sg /\ UNCHANGED <<rawmode, memo, nonsq>>
    [] e.op = "Decode" ->
         /\ Decode(IF Has(e, "used") THEN e.used ELSE 0, IF Has(e, "n") THEN e.n ELSE cnt)
         /\ UNCHANGED <<rawmode, sgopt, memo, nonsq>>
    [] OTHER -> UNCHANGED tvars

Init == KInit /\ SInit /\ rawmode = FALSE /\ sgopt = TRUE /\ memo = {} /\ nonsq = {}
Step == HasNext /\ Apply(Ev) /\ Advance(Judge(Ev))
Next == Step \/ (Finish /\ UNCHANGED tvars)
Spec == Init /\ [][Next]_<<l, bad, outbuf, wcnt, wire, pos, cnt, rawmode, sgopt, memo, nonsq>>
=============================================================================
