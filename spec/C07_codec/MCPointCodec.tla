----------------------------- MODULE MCPointCodec -----------------------------
(* Exhaustive check of the point codec PointCodec on small curves whose base   *)
(* field fits the payload bits of one byte (p < 32), with one-byte             *)
(* coefficients, so that the whole space of byte strings around every encoding *)
(* is explored.                                                                *)
(*                                                                             *)
(* State machine of one codec round:                                           *)
(*   idle --Enc(mode)--> enc --Poke(i,b)/Trunc(k)/Extend(b)-->* enc --Dec--> dec --Reset--> idle *)
(*   P      the point held by the caller          buf   the byte string         *)
(*   reply  what SetBytes / Decoder.Decode answers for buf                      *)
(*   nf     number of fault actions applied to buf since Enc                    *)
(* Enc is Bytes() / RawBytes(); Poke overwrites one byte (flag bits x payload   *)
(* classes < p, = p, > p, no root, off curve, outside the subgroup, non-zero    *)
(* padding all arise), Trunc cuts the string, Extend appends a byte; Dec is     *)
(* SetBytes (sg) or a Decoder with NoSubgroupChecks (~sg).                      *)
(*                                                                             *)
(* Curves: prime order; cofactor 4 with three points of order two (y = 0);      *)
(* a # 0; and a curve over F_p2 (two-coefficient coordinates, lexicographic    *)
(* rule on towers).  r = the largest prime factor of the group order.           *)
EXTENDS PointCodec, TLC, FiniteSets

CONSTANTS Strict0,      \* TRUE: the specification; FALSE: y = 0 accepted under both sign flags (the code as it is, F6)
          MaxPokes

\* curve descriptors: [p, d, a, b] ; d = 2 means F_p[u]/(u^2 + 1) and a, b given as pairs
SmallCurves == { [p |-> 11, d |-> 1, a |-> <<1>>, b |-> <<6>>],        \* 13 points, prime order, a # 0
                 [p |-> 7,  d |-> 1, a |-> <<0>>, b |-> <<1>>],        \* 12 points = Z2 x Z6: r = 3, three points with y = 0
                 [p |-> 13, d |-> 1, a |-> <<0>>, b |-> <<3>>],        \* payload values = p and > p fit 5 bits
                 [p |-> 7,  d |-> 2, a |-> <<0, 0>>, b |-> <<1, 1>>] } \* over F_49, b = 1 + u

VARIABLES cv, sch, sg, P, buf, reply, ph, nf, pts, r, valid, pbase     \* pts, r, valid, pbase: computed once per curve at Init
vars == <<cv, sch, sg, P, buf, reply, ph, nf, pts, r, valid, pbase>>
fixed == <<cv, sch, sg, pts, r, valid, pbase>>

Fld(c) == [q |-> FromInt(c.p), T |-> IF c.d = 1 THEN <<>> ELSE <<[deg |-> 2, nr |-> FromInt(c.p - 1)]>>]
Lvl(c) == IF c.d = 1 THEN 0 ELSE 1
Coef(c, s) == IF c.d = 1 THEN FromInt(s[1]) ELSE <<FromInt(s[1]), FromInt(s[2])>>
C(c) == [F |-> Fld(c), k |-> Lvl(c), a |-> Coef(c, c.a), b |-> Coef(c, c.b)]
Lay(c, s) == [scheme |-> s, nB |-> 1, d |-> c.d]
BaseEl(c) == {FromInt(x) : x \in 0..(c.p - 1)}
El(c) == IF c.d = 1 THEN BaseEl(c) ELSE {<<x, y>> : x \in BaseEl(c), y \in BaseEl(c)}
CurvePts(c) == {Inf} \cup {p \in {Pt(x, y) : x \in El(c), y \in El(c)} : WOnCurve(C(c), p)}

\* largest prime factor of n (small)
IsPrime(n) == n > 1 /\ \A k \in 2..(n-1) : n % k # 0
LargestPrimeFactor(n) == CHOOSE q \in 1..n : IsPrime(q) /\ n % q = 0 /\ \A q2 \in 1..n : (IsPrime(q2) /\ n % q2 = 0) => q2 <= q

Cc == C(cv)
Ly == Lay(cv, sch)
InSubP(p) == WMulNat(Cc, FromInt(r), p) = Inf

\* square roots by enumeration
RootsOf(z) == {y \in El(cv) : TMul(Cc.F, Cc.k, y, y) = z}
RootEnum(z) == IF RootsOf(z) = {} THEN [ex |-> FALSE, wit |-> FALSE]
               ELSE [ex |-> TRUE, wit |-> TRUE, y |-> CHOOSE y \in RootsOf(z) : TRUE]
Decode(bs) == DecodePoint(Cc, Ly, bs, sg, Strict0, RootEnum, InSubP)

None == [ok |-> FALSE, why |-> "none"]
Modes == IF sch = "raw" THEN {"r"} ELSE {"c", "r"}

Init == /\ cv \in SmallCurves
        /\ sch \in (IF cv.p = 11 THEN {"bn", "zcash", "raw"} ELSE {"bn", "zcash"})     \* the flag-less raw-only form on one curve
        /\ sg \in BOOLEAN
        /\ pts = CurvePts(cv)
        /\ r = LargestPrimeFactor(Cardinality(pts))
        /\ valid = (IF sg THEN {p \in pts : WMulNat(C(cv), FromInt(r), p) = Inf} ELSE pts)
        /\ pbase = {Inf} \cup {CHOOSE p \in valid : ~p.inf}
                    \cup (IF \E p \in pts : WMulNat(C(cv), FromInt(r), p) # Inf
                          THEN {CHOOSE p \in pts : WMulNat(C(cv), FromInt(r), p) # Inf} ELSE {})
        /\ P \in valid
        /\ buf = <<>> /\ reply = None /\ ph = "idle" /\ nf = 0

Enc(mode) == /\ ph = "idle"
             /\ buf' = EncodePoint(Cc, Ly, P, mode)
             /\ ph' = "enc" /\ nf' = 0
             /\ UNCHANGED <<fixed, P, reply>>

\* byte values tried at position i: the flag byte takes every flag pattern x payload class, the others every class
Payload == (0..(cv.p + 2)) \cup {FlagDiv(Ly) - 1}
PokeVals(i) == IF i = 1 /\ sch # "raw"
               THEN {f * FlagDiv(Ly) + v : f \in 0..(Pow2(FlagBits(Ly)) - 1), v \in {x \in Payload : x < FlagDiv(Ly)}}
               ELSE (0..(cv.p + 2)) \cup {255}
\* points from which byte strings are mutated (mutating both bytes of a raw string reaches every string anyway)
Poke(i, b) == /\ ph = "enc" /\ nf < MaxPokes /\ P \in pbase
              /\ i \in 1..Len(buf) /\ buf[i] # b
              /\ buf' = [buf EXCEPT ![i] = b]
              /\ nf' = nf + 1
              /\ UNCHANGED <<fixed, P, reply, ph>>
Trunc(k) == /\ ph = "enc" /\ nf = 0 /\ k < Len(buf)
            /\ buf' = SubSeq(buf, 1, k)
            /\ nf' = MaxPokes + 1
            /\ UNCHANGED <<fixed, P, reply, ph>>
Extend(b) == /\ ph = "enc" /\ nf = 0
             /\ buf' = Append(buf, b)
             /\ nf' = MaxPokes + 2                   \* a longer buffer: only the encoding is consumed
             /\ UNCHANGED <<fixed, P, reply, ph>>
Dec == /\ ph = "enc"
       /\ reply' = Decode(buf)
       /\ ph' = "dec"
       /\ UNCHANGED <<fixed, P, buf, nf>>
Reset == /\ ph = "dec"
         /\ \E p \in valid : P' = p
         /\ buf' = <<>> /\ reply' = None /\ ph' = "idle" /\ nf' = 0
         /\ UNCHANGED fixed

Next == \/ \E m \in Modes : Enc(m)
        \/ (ph = "enc" /\ nf < MaxPokes /\ P \in pbase /\ \E i \in 1..Len(buf) : \E b \in PokeVals(i) : Poke(i, b))
        \/ (ph = "enc" /\ nf = 0 /\ \E k \in 0..(Len(buf) - 1) : Trunc(k))
        \/ \E b \in {0, 255} : Extend(b)
        \/ Dec
        \/ Reset
Spec == Init /\ [][Next]_vars

--------------------------------------------------------------------------------
Done == ph = "dec"
IsPrefixOf(a, b) == Len(a) <= Len(b) /\ SubSeq(b, 1, Len(a)) = a

\* an accepted string denotes a point of the curve, of the subgroup unless checks are off, inside the buffer
Sound == (Done /\ reply.ok) => /\ WOnCurve(Cc, reply.pt)
                               /\ (sg => InSubP(reply.pt))
                               /\ reply.n <= Len(buf)
\* re-encoding in the same mode gives the identical bytes; only alias: the all-zero raw string
Canonical == (Done /\ reply.ok) => IsCanonicalFor(Cc, Ly, buf, reply)
\* encoding any valid element and decoding it returns the same element (also from a longer buffer)
RoundTrip == (Done /\ nf = 0) => (reply.ok /\ reply.pt = P /\ reply.n = Len(buf))
RoundTripLonger == (Done /\ nf = MaxPokes + 2) => (reply.ok /\ reply.pt = P /\ reply.n = Len(buf) - 1)
\* the decoder accepts exactly the strings that begin with the encoding of a valid element (or the zero alias)
AcceptSet == Done =>
  (reply.ok <=> \/ \E Q \in valid, m \in Modes : IsPrefixOf(EncodePoint(Cc, Ly, Q, m), buf)
                \/ (Len(buf) >= RSize(Ly) /\ AllZero(SubSeq(buf, 1, RSize(Ly)))))
\* a truncated encoding is always refused
TruncRefused == (Done /\ nf = MaxPokes + 1) => ~reply.ok
\* the Euler criterion used by trace validation agrees with the existence of a root
Order == Pow2(0) * (IF cv.d = 1 THEN cv.p ELSE cv.p * cv.p)
Euler(z) == z = CZero(Cc) \/ TExp(Cc.F, Cc.k, z, FromInt((Order - 1) \div 2)) = TOne(Cc.F, Cc.k)
EulerInv == (ph = "idle") => \A z \in El(cv) : Euler(z) <=> RootsOf(z) # {}
=============================================================================
