------------------------------ MODULE PointCodec ------------------------------
(* Byte codecs of short-Weierstrass group elements (gnark-crypto               *)
(* ecc/<curve>/marshal.go), as a decision procedure over byte strings.          *)
(*                                                                             *)
(* A layout is  L == [scheme, nB, d]                                           *)
(*   scheme  "bn"     2 flag bits (mask 0b11 << 6): 00 raw, 01 compressed      *)
(*                    infinity, 10 compressed smallest y, 11 compressed         *)
(*                    largest y          (bn254, grumpkin, stark-curve)         *)
(*           "zcash"  3 flag bits (mask 0b111 << 5): 000 raw, 010 raw          *)
(*                    infinity, 100 smallest, 101 largest, 110 compressed       *)
(*                    infinity, 001/011/111 invalid   (the bls12, bls24, bw6 curves)   *)
(*           "raw"    no flag bits, raw form only (secp256k1)                   *)
(*   nB      bytes of one base-field element (big endian)                       *)
(*   d       base-field coefficients of one coordinate (1, 2 or 4)              *)
(* A coordinate is written highest coefficient first (E2: A1 | A0, E4:          *)
(* B1.A1 | B1.A0 | B0.A1 | B0.A0), the flags sit in the top bits of byte 1.     *)
(*                                                                             *)
(* What a decoder must accept (property C07): the string has a valid flag      *)
(* pattern and the length its flags announce, every coefficient is canonical   *)
(* (< p), an infinity encoding has an all-zero payload, the denoted (x, y) is   *)
(* on the curve - for a compressed string: x^3 + a x + b is a square and y is   *)
(* the root selected by the lexicographic rule - and, when subgroup checks are  *)
(* on, in the subgroup of order r.  Every accepted string is the encoding of   *)
(* the point it denotes, except that raw coordinates (0, 0) (the all-zero raw   *)
(* string) also denote the point at infinity.  A compressed string for a point  *)
(* with y = 0 must therefore carry the "smallest" flag (0 is not larger than   *)
(* -0); the constant-like parameter `strict0` turns that clause off to model   *)
(* the code as it is (negative self-test, finding F6).                         *)
(*                                                                             *)
(* Square roots are not computed here: the operator argument Root(rhs) returns *)
(* [ex |-> a root exists, wit |-> a root is known, y |-> that root]; model     *)
(* checking passes enumeration, trace validation passes verified witnesses     *)
(* and the Euler criterion.  InSub(P) decides subgroup membership.             *)
EXTENDS Weierstrass

FlagBits(L) == CASE L.scheme = "bn" -> 2 [] L.scheme = "zcash" -> 3 [] OTHER -> 0
FlagDiv(L) == Pow2(8 - FlagBits(L))                   \* 64, 32 or 256
CSize(L) == L.nB * L.d                                \* compressed size
RSize(L) == 2 * L.nB * L.d                            \* raw size

KindOfFlag(L, f) ==
  CASE L.scheme = "bn" -> (CASE f = 0 -> "raw" [] f = 1 -> "cinf" [] f = 2 -> "small" [] OTHER -> "large")
    [] L.scheme = "zcash" -> (CASE f = 0 -> "raw" [] f = 2 -> "rawinf" [] f = 4 -> "small" [] f = 5 -> "large"
                                [] f = 6 -> "cinf" [] OTHER -> "invalid")
    [] OTHER -> "raw"
FlagOfKind(L, k) ==
  CASE L.scheme = "bn" -> (CASE k = "raw" -> 0 [] k = "rawinf" -> 0 [] k = "cinf" -> 1 [] k = "small" -> 2 [] k = "large" -> 3)
    [] L.scheme = "zcash" -> (CASE k = "raw" -> 0 [] k = "rawinf" -> 2 [] k = "small" -> 4 [] k = "large" -> 5 [] k = "cinf" -> 6)
    [] OTHER -> 0

\* coefficients of a tower element, X^0 first, and back
RECURSIVE TFlat(_,_,_)
TFlat(F, k, a) == IF k = 0 THEN <<a>>
                  ELSE FoldLeft(LAMBDA acc, i : acc \o TFlat(F, k-1, a[i]), <<>>, [i \in 1..Deg(F,k) |-> i])
RECURSIVE TUnflat(_,_,_)
TUnflat(F, k, s) == IF k = 0 THEN s[1]
                    ELSE LET m == Len(s) \div Deg(F,k)
                         IN [i \in 1..Deg(F,k) |-> TUnflat(F, k-1, SubSeq(s, (i-1)*m + 1, i*m))] \o <<>>

Rev(s) == [i \in 1..Len(s) |-> s[Len(s) + 1 - i]] \o <<>>
AllZero(bs) == \A i \in 1..Len(bs) : bs[i] = 0
Zeros(n) == [i \in 1..n |-> 0] \o <<>>
Concat(ss) == FoldLeft(LAMBDA acc, x : acc \o x, <<>>, ss)

\* the d big-endian numbers of a coordinate, in wire order (highest coefficient first)
Chunks(L, bs) == [i \in 1..L.d |-> FromBytesBE(SubSeq(bs, (i-1)*L.nB + 1, i*L.nB))] \o <<>>
CanonChunks(C, cs) == \A i \in 1..Len(cs) : Lt(cs[i], C.F.q)
CoordOf(C, cs) == TUnflat(C.F, C.k, Rev(cs))
CoordBytes(C, L, a) == LET fl == Rev(TFlat(C.F, C.k, a))
                       IN Concat([i \in 1..L.d |-> ToBytesBE(fl[i], L.nB)] \o <<>>)
WithFlag(L, bs, kind) == <<bs[1] + FlagOfKind(L, kind) * FlagDiv(L)>> \o SubSeq(bs, 2, Len(bs))
Unflag(L, bs) == <<bs[1] % FlagDiv(L)>> \o SubSeq(bs, 2, Len(bs))

Rhs(C, x) == TAdd(C.F, C.k, TAdd(C.F, C.k, TMul(C.F, C.k, TMul(C.F, C.k, x, x), x), TMul(C.F, C.k, C.a, x)), C.b)
CZero(C) == TZero(C.F, C.k)

\* ---------------------------------------------------------------------------------------------
\* encoding.  mode "c" = Bytes(), mode "r" = RawBytes() / Marshal()
EncodePoint(C, L, P, mode) ==
  IF mode = "c"
  THEN IF P.inf THEN WithFlag(L, Zeros(CSize(L)), "cinf")
       ELSE WithFlag(L, CoordBytes(C, L, P.x), IF TLexLargest(C.F, C.k, P.y) THEN "large" ELSE "small")
  ELSE IF P.inf THEN WithFlag(L, Zeros(RSize(L)), "rawinf")
       ELSE CoordBytes(C, L, P.x) \o CoordBytes(C, L, P.y)

\* ---------------------------------------------------------------------------------------------
\* decoding: [ok |-> TRUE, pt, n (bytes consumed), mode] or [ok |-> FALSE, why]
DErr(why) == [ok |-> FALSE, why |-> why]
DOk(P, n, mode) == [ok |-> TRUE, pt |-> P, n |-> n, mode |-> mode]

DecodePoint(C, L, bs, sg, strict0, Root(_), InSub(_)) ==
  LET cs == CSize(L)
      rs == RSize(L)
  IN
  IF Len(bs) < (IF L.scheme = "raw" THEN rs ELSE cs) THEN DErr("short")
  ELSE LET kind == KindOfFlag(L, bs[1] \div FlagDiv(L)) IN
  IF kind = "invalid" THEN DErr("flag")
  ELSE IF kind \in {"raw", "rawinf"} /\ Len(bs) < rs THEN DErr("short")
  ELSE IF kind = "cinf" THEN (IF AllZero(Unflag(L, SubSeq(bs, 1, cs))) THEN DOk(Inf, cs, "c") ELSE DErr("padding"))
  ELSE IF kind = "rawinf" THEN (IF AllZero(Unflag(L, SubSeq(bs, 1, rs))) THEN DOk(Inf, rs, "r") ELSE DErr("padding"))
  ELSE LET xc == Chunks(L, Unflag(L, SubSeq(bs, 1, cs))) IN
  IF ~CanonChunks(C, xc) THEN DErr("noncanonical")
  ELSE LET x == CoordOf(C, xc) IN
  IF kind = "raw"
  THEN LET yc == Chunks(L, SubSeq(bs, cs + 1, rs)) IN
       IF ~CanonChunks(C, yc) THEN DErr("noncanonical")
       ELSE LET y == CoordOf(C, yc)
                P == Pt(x, y)
            IN IF x = CZero(C) /\ y = CZero(C) THEN DOk(Inf, rs, "r")      \* raw (0,0): the point at infinity
               ELSE IF ~WOnCurve(C, P) THEN DErr("offcurve")
               ELSE IF sg /\ ~InSub(P) THEN DErr("subgroup")
               ELSE DOk(P, rs, "r")
  ELSE \* compressed, "small" or "large"
       LET rt == Root(Rhs(C, x)) IN
       IF ~rt.ex THEN DErr("noroot")
       ELSE IF ~rt.wit THEN DErr("nowitness")                              \* harness did not supply the root (never a verdict on the code)
       ELSE IF strict0 /\ rt.y = CZero(C) /\ kind = "large" THEN DErr("sign0")
       ELSE LET y == IF TLexLargest(C.F, C.k, rt.y) = (kind = "large") THEN rt.y ELSE TNeg(C.F, C.k, rt.y)
                P == Pt(x, y)
            IN IF sg /\ ~InSub(P) THEN DErr("subgroup") ELSE DOk(P, cs, "c")

\* an accepted string is the encoding of its point; the only alias is the all-zero raw string
IsCanonicalFor(C, L, bs, R) ==
  \/ EncodePoint(C, L, R.pt, R.mode) = SubSeq(bs, 1, R.n)
  \/ (R.mode = "r" /\ R.pt.inf /\ AllZero(SubSeq(bs, 1, R.n)))
=============================================================================
