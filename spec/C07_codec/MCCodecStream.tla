---------------------------- MODULE MCCodecStream ----------------------------
(* Exhaustive model checking of the stream machine CodecStream over abstract    *)
(* units 0..3, with an OPERATIONAL model of the Decoder / Encoder written the   *)
(* way the Go code is written (loops with an `err` variable, ReadFull, counters *)
(* bumped by what each read returned, two-phase decoding of point slices),      *)
(* against the specified replies ParseItem / SerItem.                           *)
(*                                                                             *)
(* Leaves (Leaf / SerLeaf are substituted by AbsLeaf / AbsSerLeaf in the cfg):  *)
(*   "u"  fixed-size integer, 2 units, every value valid (binary.Read)          *)
(*   "e"  field element, 2 units <<hi, lo>>, canonical iff hi < 2               *)
(*   "p"  point: header h = 0 compressed and valid (1 unit), 1 compressed       *)
(*        without a root (found in phase 2 of a slice), 2 raw: one more unit    *)
(*        y, valid iff y < 2, 3 invalid flag                                    *)
(* Vectors: "v" = []e (Vector.ReadFrom / WriteTo), "vv" = [][]e, "vvv",         *)
(* "ps" = []p; the length prefix is one unit.                                   *)
(*                                                                             *)
(* Machine: enc --Encode(ty, v)*--> enc --Handover(as is | Truncate(k) |        *)
(* Corrupt(i, b))--> dec --Decode*--> done (a scenario stops at the first        *)
(* error).  Every program of at most MaxItems items over the value alphabet,    *)
(* every truncation point, every corruption of every unit by every other unit.  *)
(* Encoder side: EncodeRefused - the writer refuses the j-th Write of an item.  *)
(*                                                                             *)
(* Constants (TRUE = the specification, FALSE = the code as it is):             *)
(*   KeepErr           loops over inner vectors stop at the first error (F5)    *)
(*   KeepWErr          same for the writer error in Encode (F5b)                *)
(*   CountPartialFixed a truncated fixed-size value counts the bytes it did     *)
(*                     consume (F19)                                            *)
EXTENDS CodecStream, TLC

CONSTANTS MaxItems, KeepErr, KeepWErr, CountPartialFixed

VARIABLES prog, ph, nx, reply, ref, fault, wrep
vars == <<outbuf, wcnt, wire, pos, cnt, prog, ph, nx, reply, ref, fault, wrep>>

\* ---------------------------------------------------------------------------------------------
\* abstract leaf codecs
AbsPrefixVal(us) == us[1]
AbsPrefixUnits(n) == <<n>>
AbsLeaf(t, w, p, ctx) ==
  CASE t = "u" -> IF Len(w) - p < 2 THEN PErr("short") ELSE POk(SubSeq(w, p + 1, p + 2), 2)
    [] t = "e" -> IF Len(w) - p < 2 THEN PErr("short")
                  ELSE IF w[p + 1] >= 2 THEN PErr("noncanonical") ELSE POk(SubSeq(w, p + 1, p + 2), 2)
    [] t = "p" -> IF Len(w) - p < 1 THEN PErr("short")
                  ELSE LET h == w[p + 1] IN
                       CASE h = 0 -> POk(<<0>>, 1)
                         [] h = 1 -> PErr("noroot")
                         [] h = 3 -> PErr("flag")
                         [] h = 2 -> IF Len(w) - p < 2 THEN PErr("short")
                                     ELSE IF w[p + 2] >= 2 THEN PErr("noncanonical") ELSE POk(SubSeq(w, p + 1, p + 2), 2)
AbsSerLeaf(t, v, ctx) == v

TermOf(ty) == CASE ty \in {"u", "e", "p"} -> LeafT(ty)
                [] ty = "v" -> VecT(LeafT("e"))
                [] ty = "vv" -> VecT(VecT(LeafT("e")))
                [] ty = "vvv" -> VecT(VecT(VecT(LeafT("e"))))
                [] ty = "ps" -> VecT(LeafT("p"))

\* values that may be encoded
E1 == <<0, 0>>
E2 == <<1, 1>>
PA == <<0>>
PR == <<2, 1>>
ValuesOf(ty) ==
  CASE ty = "u" -> {<<0, 1>>, <<3, 2>>}
    [] ty = "e" -> {E1, E2}
    [] ty = "p" -> {PA, PR}
    [] ty = "v" -> {<<>>, <<E1>>, <<E1, E2>>}
    [] ty = "vv" -> {<<>>, <<<<E1>>>>, <<<<E1>>, <<E2>>>>, <<<<>>, <<E1, E2>>>>, <<<<E1>>, <<>>, <<E2>>>>}
    [] ty = "vvv" -> {<<<<<<E1>>>>>>, <<<<<<E1>>, <<E2>>>>, <<<<E1>>>>>>}
    [] ty = "ps" -> {<<>>, <<PA>>, <<PA, PR>>, <<PR, PA, PA>>}
Types == {"u", "e", "p", "v", "vv", "vvv", "ps"}

\* ---------------------------------------------------------------------------------------------
\* the decoder as coded.  A result is [ok, v, used (units taken from the reader), counted (added to BytesRead)]
Res(ok, v, used, counted) == [ok |-> ok, v |-> v, used |-> used, counted |-> counted]
Got(w, p, n) == IF Len(w) - p >= n THEN n ELSE Len(w) - p            \* what io.ReadFull obtains

OpU(w, p) == IF Got(w, p, 2) = 2 THEN Res(TRUE, SubSeq(w, p + 1, p + 2), 2, 2)
             ELSE Res(FALSE, <<>>, Got(w, p, 2), IF CountPartialFixed THEN Got(w, p, 2) ELSE 0)
OpE(w, p) == IF Got(w, p, 2) < 2 THEN Res(FALSE, <<>>, Got(w, p, 2), Got(w, p, 2))
             ELSE IF w[p + 1] >= 2 THEN Res(FALSE, <<>>, 2, 2) ELSE Res(TRUE, SubSeq(w, p + 1, p + 2), 2, 2)
\* single point: read the compressed size, look at the flags, read more for a raw point, then setBytes
OpP(w, p) ==
  IF Got(w, p, 1) < 1 THEN Res(FALSE, <<>>, 0, 0)
  ELSE LET h == w[p + 1] IN
       CASE h = 0 -> Res(TRUE, <<0>>, 1, 1)
         [] h = 1 -> Res(FALSE, <<>>, 1, 1)
         [] h = 3 -> Res(FALSE, <<>>, 1, 1)
         [] h = 2 -> IF Got(w, p + 1, 1) < 1 THEN Res(FALSE, <<>>, 1, 1)
                     ELSE IF w[p + 2] >= 2 THEN Res(FALSE, <<>>, 2, 2) ELSE Res(TRUE, SubSeq(w, p + 1, p + 2), 2, 2)

\* a loop of n iterations of Body(offset) -> Res; `stop` = return at the first error, otherwise the error
\* variable is overwritten by every iteration (the value returned at the end is the last one)
Loop(n, p0, stop, Body(_)) ==
  FoldLeft(LAMBDA acc, i :
             IF acc.ret THEN acc
             ELSE LET r == Body(acc.p)
                  IN [ok |-> r.ok, v |-> Append(acc.v, r.v), p |-> acc.p + r.used, c |-> acc.c + r.counted,
                      ret |-> (~r.ok /\ stop), allok |-> acc.allok /\ r.ok],
           [ok |-> TRUE, v |-> <<>>, p |-> p0, c |-> 0, ret |-> FALSE, allok |-> TRUE],
           [i \in 1..n |-> i])

\* fr.Vector.ReadFrom: returns at the first error
OpV(w, p) ==
  IF Got(w, p, 1) < 1 THEN Res(FALSE, <<>>, 0, 0)
  ELSE LET L == Loop(w[p + 1], p + 1, TRUE, LAMBDA q : OpE(w, q))
       IN Res(L.ok, L.v, L.p - p, 1 + L.c)
\* Decode(*[][]fr.Element): for i { read64, err = ReadFrom(); dec.n += read64 }; return err
OpVV(w, p) ==
  IF Got(w, p, 1) < 1 THEN Res(FALSE, <<>>, 0, 0)
  ELSE LET L == Loop(w[p + 1], p + 1, KeepErr, LAMBDA q : OpV(w, q))
       IN Res(L.ok, L.v, L.p - p, 1 + L.c)
\* Decode(*[]G1Affine): phase 1 parses sequentially (flags, canonical x, raw points completely) and returns at the
\* first error; phase 2 recovers y of the compressed entries in parallel and counts the failures
OpPS(w, p) ==
  IF Got(w, p, 1) < 1 THEN Res(FALSE, <<>>, 0, 0)
  ELSE LET L == Loop(w[p + 1], p + 1, TRUE,
                     LAMBDA q : IF Got(w, q, 1) < 1 THEN Res(FALSE, <<>>, 0, 0)
                                ELSE IF w[q + 1] = 1 THEN Res(TRUE, <<1>>, 1, 1)       \* phase 1 accepts, phase 2 will fail
                                ELSE OpP(w, q))
           nbErrs == IF L.ok THEN Len(SelectSeq(L.v, LAMBDA x : x = <<1>>)) ELSE 0
       IN IF ~L.ok THEN Res(FALSE, <<>>, L.p - p, 1 + L.c)
          ELSE IF nbErrs # 0 THEN Res(FALSE, <<>>, L.p - p, 1 + L.c)
          ELSE Res(TRUE, L.v, L.p - p, 1 + L.c)

\* Decode(*[][][]fr.Element): for i { n, err = readUint32(); if err != nil {return}; for j { read64, err = ReadFrom(); ... } }; return err
\* - the error of an inner vector is overwritten by the next ReadFrom and by the next readUint32
OpVVVcode(w, p) ==
  IF Got(w, p, 1) < 1 THEN Res(FALSE, <<>>, 0, 0)
  ELSE LET L == FoldLeft(LAMBDA acc, i :
                           IF acc.ret THEN acc
                           ELSE IF Got(w, acc.p, 1) < 1 THEN [acc EXCEPT !.ok = FALSE, !.ret = TRUE]
                           ELSE LET M == Loop(w[acc.p + 1], acc.p + 1, KeepErr, LAMBDA s : OpV(w, s))
                                IN [ok |-> M.ok, v |-> Append(acc.v, M.v), p |-> M.p, c |-> acc.c + 1 + M.c,
                                    ret |-> (~M.ok /\ KeepErr)],
                         [ok |-> TRUE, v |-> <<>>, p |-> p + 1, c |-> 0, ret |-> FALSE],
                         [i \in 1..w[p + 1] |-> i])
       IN Res(L.ok, L.v, L.p - p, 1 + L.c)

OpDecode(ty, w, p) ==
  CASE ty = "u" -> OpU(w, p) [] ty = "e" -> OpE(w, p) [] ty = "p" -> OpP(w, p)
    [] ty = "v" -> OpV(w, p) [] ty = "vv" -> OpVV(w, p) [] ty = "vvv" -> OpVVVcode(w, p) [] ty = "ps" -> OpPS(w, p)

\* ---------------------------------------------------------------------------------------------
\* the encoder as coded, when the writer refuses the j-th Write call of the item.  The Write calls of an item come in
\* groups: a group whose error is checked at once ("hard": prefixes, leaves, vectors written by WriteTo) and groups
\* inside a loop whose error variable is overwritten by the next iteration.
RECURSIVE NCalls(_,_)
NCalls(ty, v) == IF ty \in {"u", "e", "p"} THEN 1
                 ELSE LET inner == CASE ty = "v" -> "e" [] ty = "vv" -> "v" [] ty = "vvv" -> "vv" [] ty = "ps" -> "p"
                      IN 1 + FoldLeft(LAMBDA acc, i : acc + NCalls(inner, v[i]), 0, [i \in 1..Len(v) |-> i])
\* groups of an item: sequence of [n |-> number of Write calls, hard |-> BOOLEAN]
Groups(ty, v) ==
  CASE ty \in {"u", "e", "p"} -> <<[n |-> 1, hard |-> TRUE]>>
    [] ty \in {"v", "ps"} -> <<[n |-> NCalls(ty, v), hard |-> TRUE]>>       \* returns at the first failed Write
    [] ty = "vv" -> <<[n |-> 1, hard |-> TRUE]>> \o [i \in 1..Len(v) |-> [n |-> NCalls("v", v[i]), hard |-> KeepWErr]]
    [] ty = "vvv" -> <<[n |-> 1, hard |-> TRUE]>> \o
                     FoldLeft(LAMBDA acc, i : acc \o <<[n |-> 1, hard |-> TRUE]>> \o
                                              [j \in 1..Len(v[i]) |-> [n |-> NCalls("v", v[i][j]), hard |-> KeepWErr]],
                              <<>>, [i \in 1..Len(v) |-> i])
\* the error returned by Encode when Write call number j (1-based within the item) is refused
OpEncodeErr(ty, v, j) ==
  LET gs == Groups(ty, v)
      R == FoldLeft(LAMBDA acc, g :
                      IF acc.ret THEN acc
                      ELSE LET hit == j > acc.seen /\ j <= acc.seen + g.n
                           IN [err |-> hit, seen |-> acc.seen + g.n, ret |-> hit /\ g.hard],
                    [err |-> FALSE, seen |-> 0, ret |-> FALSE], gs)
  IN R.err

\* ---------------------------------------------------------------------------------------------
NoRes == Res(TRUE, <<>>, 0, 0)
NoFault == [k |-> "none"]

Init == /\ SInit
        /\ prog = <<>> /\ ph = "enc" /\ nx = 1
        /\ reply = NoRes /\ ref = POk(<<>>, 0) /\ fault = NoFault /\ wrep = [refused |-> FALSE, err |-> FALSE]

EncodeAct(ty, v) ==
  /\ ph = "enc" /\ Len(prog) < MaxItems
  /\ LET us == EncodeUnits(TermOf(ty), v, <<>>) IN Encode(us, wcnt + Len(us))
  /\ prog' = Append(prog, [ty |-> ty, v |-> v])
  /\ wrep' = [refused |-> FALSE, err |-> FALSE]
  /\ UNCHANGED <<ph, nx, reply, ref, fault>>

\* the writer refuses Write call j of this item: only the reply of Encode is modelled (the stream is abandoned)
EncodeRefused(ty, v, j) ==
  /\ ph = "enc" /\ Len(prog) < MaxItems
  /\ wrep' = [refused |-> TRUE, err |-> OpEncodeErr(ty, v, j)]
  /\ ph' = "done"
  /\ UNCHANGED <<outbuf, wcnt, wire, pos, cnt, prog, nx, reply, ref, fault>>

Handover(f, w) ==
  /\ ph = "enc" /\ prog # <<>>
  /\ NewDecoder(w)
  /\ fault' = f /\ ph' = "dec" /\ nx' = 1
  /\ UNCHANGED <<prog, reply, ref, wrep>>

DecodeAct ==
  /\ ph = "dec" /\ nx <= Len(prog)
  /\ LET r == OpDecode(prog[nx].ty, wire, pos) IN
       /\ Decode(r.used, cnt + r.counted)
       /\ reply' = r
       /\ ref' = DecodeReply(TermOf(prog[nx].ty), <<>>)
       /\ ph' = IF r.ok /\ nx < Len(prog) THEN "dec" ELSE "done"
  /\ nx' = nx + 1
  /\ UNCHANGED <<prog, fault, wrep>>

Next ==
  \/ \E ty \in Types : \E v \in ValuesOf(ty) : EncodeAct(ty, v)
  \/ \E ty \in Types : \E v \in ValuesOf(ty) : \E j \in 1..NCalls(ty, v) : EncodeRefused(ty, v, j)
  \/ Handover([k |-> "enc"], outbuf)
  \/ \E c \in 0..(Len(outbuf) - 1) : Handover([k |-> "trunc", at |-> c], Truncated(c))
  \/ \E i \in 1..Len(outbuf) : \E b \in (0..3) \ {outbuf[i]} : Handover([k |-> "corrupt", at |-> i, b |-> b], Corrupted(i, b))
  \/ DecodeAct
Spec == Init /\ [][Next]_vars

\* ---------------------------------------------------------------------------------------------
Decoded == ph \in {"dec", "done"} /\ nx > 1
\* the reply of every Decode is the specified one: an error met anywhere inside the item is returned
\* (never nil with a wrong value), an accepted item has the specified value and length
Refines == Decoded => /\ reply.ok = ref.ok
                      /\ ref.ok => (reply.v = ref.v /\ reply.used = ref.n)
\* BytesRead = units taken from the reader, BytesWritten = units handed to the writer - in every state
CountersExact == cnt = pos /\ wcnt = Len(outbuf)
\* without a fault every item comes back as it was encoded
RoundTrip == (Decoded /\ fault.k = "enc") => (reply.ok /\ reply.v = prog[nx - 1].v)
\* a truncated stream always ends in an error (from the call that meets the truncation: earlier calls are RoundTrip-like)
TruncationMet == (ph = "done" /\ fault.k = "trunc") => ~reply.ok
\* a refused Write is reported by the Encode call during which it happened
WriterErrorSeen == wrep.refused => wrep.err
=============================================================================
