----------------------------- MODULE TraceCodecEd -----------------------------
(* Trace validation for C07, twisted Edwards companions (ecc/<curve>/twistededwards,  *)
(* bandersnatch): PointAffine.Bytes / Marshal / SetBytes / Unmarshal.                 *)
(*                                                                                     *)
(* The format is the one of RFC 8032 section 3.1 / 5.1.2-5.1.3, which the package     *)
(* documents as its reference: y in little endian, the top bit of the last byte is     *)
(* the sign of x ("x is negative" = lexicographically largest).  A string is accepted *)
(* iff it has at least the size of a point, y is canonical (< q), x^2 = (1 - y^2) /    *)
(* (a - d y^2) is a square, and the sign bit is not set when x = 0; the value is the   *)
(* point (x, y) of the curve whose x has the announced sign.  Accepted strings         *)
(* re-encode to the identical bytes.  The square root is not computed here: an         *)
(* accepted reply is judged by the relation (on the curve, same y, announced sign),    *)
(* existence by the Euler criterion.                                                   *)
(* Membership in the prime-order subgroup is NOT demanded of these decoders: they      *)
(* offer no switch for it and RFC 8032 decoding does not check it.                     *)
(*                                                                                     *)
(* Reasons: "panic", "accepted-<why>" (why in short/noncanonical/noroot/sign0),        *)
(* "spurious-error", "value", "noncanonical" (result limbs), "consumed", "bytes",      *)
(* "mutated", "badinput".                                                              *)
EXTENDS TraceKernel, TwistedEdwards, PrimeField, FieldParams, EdwardsParams

EP == EdwardsP(Hdr.edwards)
FPar == FieldP(EP.field)
q == FPar.q
nB == FPar.bytes
E == [q |-> q, a |-> EP.a, d |-> EP.d]
Rinv == InvMod(Rem(Shl(One, FPar.w * FPar.n), q), q)
V(raw) == MulMod(raw, Rinv, q)
CC(raw) == IsNat(raw) /\ Lt(raw, q)
PCanon(p) == CC(p.X) /\ CC(p.Y)
Abs(p) == [x |-> V(p.X), y |-> V(p.Y)]

DErr(why) == [ok |-> FALSE, why |-> why]
DecodeEd(bs) ==
  IF Len(bs) < nB THEN DErr("short")
  ELSE LET sign == bs[nB] \div 128
           y == FromBytesLE([i \in 1..nB |-> IF i = nB THEN bs[i] % 128 ELSE bs[i]] \o <<>>)
       IN IF ~Lt(y, q) THEN DErr("noncanonical")
          ELSE LET yy == FMul(q, y, y)
                   v == FSub(q, E.a, FMul(q, E.d, yy))
                   xx == FDiv(q, FSub(q, One, yy), v)
               IN IF v = Zero \/ FLegendre(q, xx) = -1 THEN DErr("noroot")
                  ELSE IF xx = Zero /\ sign = 1 THEN DErr("sign0")
                  ELSE [ok |-> TRUE, y |-> y, xx |-> xx, neg |-> sign = 1, n |-> nB]

EncodeEd(P) == LET le == ToBytesLE(P.y, nB)
               IN [i \in 1..nB |-> IF i = nB /\ FLexLargest(q, P.x) THEN le[i] + 128 ELSE le[i]] \o <<>>

IsErr(e) == Has(e, "err")

JudgeBytes(e) ==
  IF ~PCanon(e.p) \/ ~EOnCurve(E, Abs(e.p)) THEN {"badinput"}
  ELSE IF Panicked(e) THEN {"panic"}
  ELSE (IF e.out # EncodeEd(Abs(e.p)) THEN {"bytes"} ELSE {})
       \cup (IF e.pa # e.p THEN {"mutated"} ELSE {})

JudgeSetBytes(e) ==
  LET R == DecodeEd(e.buf) IN
  IF Panicked(e) THEN {"panic"}
  ELSE (IF e.bufa # e.buf THEN {"mutated"} ELSE {}) \cup
       (IF R.ok
        THEN IF IsErr(e) THEN {"spurious-error"}
             ELSE (IF e.op = "SetBytes" /\ e.n # R.n THEN {"consumed"} ELSE {}) \cup
                  (IF ~PCanon(e.out) THEN {"noncanonical"}
                   ELSE LET P == Abs(e.out)
                        IN IF P.y # R.y \/ FMul(q, P.x, P.x) # R.xx \/ FLexLargest(q, P.x) # R.neg THEN {"value"} ELSE {})
        ELSE IF IsErr(e) THEN {} ELSE {"accepted-" \o R.why})

Judge(e) ==
  CASE e.op \in {"Bytes", "Marshal"} -> JudgeBytes(e)
    [] e.op \in {"SetBytes", "Unmarshal"} -> JudgeSetBytes(e)
    [] OTHER -> {"unknown-op"}

Init == KInit
Step == HasNext /\ Advance(Judge(Ev))
Next == Step \/ Finish
Spec == Init /\ [][Next]_<<l, bad>>
=============================================================================
