-------------------------------- MODULE Tower --------------------------------
(* Generic arithmetic in towers of extensions of a prime field, by the        *)
(* textbook quotient-ring definitions.                                         *)
(*                                                                             *)
(* A field context is  F == [q |-> prime (BigNat), T |-> <<L1, ..., Ln>>]      *)
(* where level k is  F_{k-1}[X] / (X^deg - nr),  Lk == [deg |-> 2 or 3,        *)
(* nr |-> element of level k-1].  An element of level 0 is a BigNat in [0,q);  *)
(* an element of level k is a tuple of Lk.deg elements of level k-1            *)
(* (coefficient of X^0 first).  Representations are canonical, so TLA+         *)
(* equality is field equality.  Every operator takes (F, k).                   *)
(*                                                                             *)
(* Nothing here knows about Karatsuba, lazy reduction, sparse operands,        *)
(* cyclotomic tricks or Frobenius tables: this is the definition the           *)
(* library's specialised routines are judged against.                          *)
EXTENDS BigNat, SequencesExt

Deg(F, k) == F.T[k].deg
Nr(F, k)  == F.T[k].nr

RECURSIVE TZero(_,_)
TZero(F, k) == IF k = 0 THEN Zero ELSE [i \in 1..Deg(F,k) |-> TZero(F, k-1)] \o <<>>
RECURSIVE TOne(_,_)
TOne(F, k) == IF k = 0 THEN One
              ELSE <<TOne(F, k-1)>> \o [i \in 1..(Deg(F,k)-1) |-> TZero(F, k-1)]
\* embedding of a base-field element (BigNat < q)
RECURSIVE TEmbed(_,_,_)
TEmbed(F, k, x) == IF k = 0 THEN x
                   ELSE <<TEmbed(F, k-1, x)>> \o [i \in 1..(Deg(F,k)-1) |-> TZero(F, k-1)]
\* the generator X of level k (k >= 1)
TGen(F, k) == <<TZero(F, k-1), TOne(F, k-1)>> \o [i \in 1..(Deg(F,k)-2) |-> TZero(F, k-1)]

RECURSIVE TIn(_,_,_)
TIn(F, k, a) == IF k = 0 THEN IsNat(a) /\ Lt(a, F.q)
                ELSE Len(a) = Deg(F,k) /\ \A i \in 1..Deg(F,k) : TIn(F, k-1, a[i])

RECURSIVE TAdd(_,_,_,_)
TAdd(F, k, a, b) == IF k = 0 THEN AddMod(a, b, F.q)
                    ELSE [i \in 1..Deg(F,k) |-> TAdd(F, k-1, a[i], b[i])] \o <<>>
RECURSIVE TSub(_,_,_,_)
TSub(F, k, a, b) == IF k = 0 THEN SubMod(a, b, F.q)
                    ELSE [i \in 1..Deg(F,k) |-> TSub(F, k-1, a[i], b[i])] \o <<>>
RECURSIVE TNeg(_,_,_)
TNeg(F, k, a) == IF k = 0 THEN SubMod(Zero, a, F.q)
                 ELSE [i \in 1..Deg(F,k) |-> TNeg(F, k-1, a[i])] \o <<>>
TDouble(F, k, a) == TAdd(F, k, a, a)

RECURSIVE TMul(_,_,_,_)
TMul(F, k, a, b) ==
  IF k = 0 THEN MulMod(a, b, F.q)
  ELSE LET M(x, y) == TMul(F, k-1, x, y)
           A(x, y) == TAdd(F, k-1, x, y)
           N(x)    == TMul(F, k-1, Nr(F, k), x)        \* X^deg = nr
       IN IF Deg(F, k) = 2
          THEN << A(M(a[1], b[1]), N(M(a[2], b[2]))),
                  A(M(a[1], b[2]), M(a[2], b[1])) >>
          ELSE << A(M(a[1], b[1]), N(A(M(a[2], b[3]), M(a[3], b[2])))),
                  A(A(M(a[1], b[2]), M(a[2], b[1])), N(M(a[3], b[3]))),
                  A(A(M(a[1], b[3]), M(a[2], b[2])), M(a[3], b[1])) >>
TSquare(F, k, a) == TMul(F, k, a, a)

\* scalar multiplication by a lower-level element (coefficient-wise)
TScale(F, k, a, c) == [i \in 1..Deg(F,k) |-> TMul(F, k-1, a[i], c)] \o <<>>

\* inverse by descent through the norm to the level below; 0 |-> 0
RECURSIVE TInv(_,_,_)
TInv(F, k, a) ==
  IF k = 0 THEN InvMod(a, F.q)
  ELSE LET M(x, y) == TMul(F, k-1, x, y)
           A(x, y) == TAdd(F, k-1, x, y)
           S(x, y) == TSub(F, k-1, x, y)
           N(x)    == TMul(F, k-1, Nr(F, k), x)
       IN IF Deg(F, k) = 2
          THEN LET norm == S(M(a[1], a[1]), N(M(a[2], a[2])))     \* a1^2 - nr a2^2
                   ni   == TInv(F, k-1, norm)
               IN << M(a[1], ni), TNeg(F, k-1, M(a[2], ni)) >>
          ELSE LET t1 == S(M(a[1], a[1]), N(M(a[2], a[3])))        \* a1^2 - nr a2 a3
                   t2 == S(N(M(a[3], a[3])), M(a[1], a[2]))        \* nr a3^2 - a1 a2
                   t3 == S(M(a[2], a[2]), M(a[1], a[3]))           \* a2^2 - a1 a3
                   norm == A(M(a[1], t1), N(A(M(a[3], t2), M(a[2], t3))))
                   ni == TInv(F, k-1, norm)
               IN << M(t1, ni), M(t2, ni), M(t3, ni) >>
TDiv(F, k, a, b) == TMul(F, k, a, TInv(F, k, b))

\* conjugation of a quadratic level (X |-> -X)
TConj(F, k, a) == << a[1], TNeg(F, k-1, a[2]) >>

\* a^e for a BigNat e (square and multiply, most significant bit first).  Written as a fold
\* (SequencesExt!FoldLeft evaluates eagerly in a loop): TLC's recursive operators pass their
\* arguments lazily, so an accumulator recursion nests thousands of frames and gets quadratic.
BitsDesc(e) == [j \in 1..BitLen(e) |-> BitLen(e) - j]
TExp(F, k, a, e) ==
  FoldLeft(LAMBDA acc, i : LET s == TMul(F, k, acc, acc)
                           IN IF Bit(e, i) = 1 THEN TMul(F, k, s, a) ELSE s,
           TOne(F, k), BitsDesc(e))
\* integer exponent [neg, mag]; 0^(-n) = 0 since TInv(0) = 0
TExpZ(F, k, a, z) == IF z.neg THEN TExp(F, k, TInv(F, k, a), z.mag) ELSE TExp(F, k, a, z.mag)

\* Frobenius by definition: x |-> x^q (q the characteristic)
RECURSIVE TFrobN(_,_,_,_)
TFrobN(F, k, a, n) == IF n = 0 THEN a ELSE TFrobN(F, k, TExp(F, k, a, F.q), n-1)
TFrob(F, k, a) == TExp(F, k, a, F.q)

\* total extension degree of level k over the prime field
RECURSIVE TDegree(_,_)
TDegree(F, k) == IF k = 0 THEN 1 ELSE Deg(F, k) * TDegree(F, k-1)

\* projection of raw Montgomery limbs (leaf = raw integer) to abstract values
RECURSIVE TVal(_,_,_,_)
TVal(F, k, rinv, raw) == IF k = 0 THEN MulMod(raw, rinv, F.q)
                         ELSE [i \in 1..Deg(F,k) |-> TVal(F, k-1, rinv, raw[i])] \o <<>>
RECURSIVE TCanon(_,_,_)
TCanon(F, k, raw) == IF k = 0 THEN IsNat(raw) /\ Lt(raw, F.q)
                     ELSE Len(raw) = Deg(F,k) /\ \A i \in 1..Deg(F,k) : TCanon(F, k-1, raw[i])

\* lexicographic "largest" rule used for point compression: compare from the top coefficient
RECURSIVE TLexLargest(_,_,_)
TLexLargest(F, k, a) ==
  IF k = 0 THEN Cmp(a, Shr(Pred(F.q), 1)) > 0
  ELSE LET nz == {i \in 1..Deg(F,k) : a[i] # TZero(F, k-1)}
       IN IF nz = {} THEN FALSE
          ELSE TLexLargest(F, k-1, a[CHOOSE i \in nz : \A j \in nz : j <= i])
=============================================================================
