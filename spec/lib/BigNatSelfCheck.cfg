SPECIFICATION Spec
INVARIANTS Agree0 Agree1 Agree2 Agree3 Agree4 Agree5
CHECK_DEADLOCK FALSE
