-------------------------------- MODULE PolyFFT --------------------------------
(* Univariate polynomials over F_q as coefficient sequences (c[1] is the      *)
(* constant term), on BigNat values in [0,q).                                 *)
EXTENDS PrimeField

\* x mod q (MulMod is served by the BigNat accelerator; the infix-named Mod is not overridable in TLC)
FRed(q, x) == MulMod(x, One, q)

\* value at x by Horner's rule (tail recursive: the accumulator carries the result)
RECURSIVE PolyHornerR(_,_,_,_,_)
PolyHornerR(q, c, x, i, acc) ==
  IF i = 0 THEN acc ELSE PolyHornerR(q, c, x, i-1, FAdd(q, FMul(q, acc, x), c[i]))
PolyEval(q, c, x) == PolyHornerR(q, c, x, Len(c), Zero)

\* 1, x, x^2, ..., x^(n-1)  (n >= 1), built by doubling so that the cost is linear
RECURSIVE PowTable(_,_,_)
PowTable(q, x, n) ==
  IF n <= 1 THEN <<One>>
  ELSE LET h == (n + 1) \div 2
           T == PowTable(q, x, h)
           xh == PowMod(x, FromInt(h), q)
       IN T \o ([i \in 1..(n - h) |-> FMul(q, T[i], xh)] \o <<>>)

\* coefficients of p(s*X): c[j] * s^j
PolyScaleArg(q, c, s) ==
  IF Len(c) = 0 THEN c
  ELSE LET T == PowTable(q, s, Len(c)) IN [j \in 1..Len(c) |-> FMul(q, c[j], T[j])] \o <<>>

VecScale(q, c, k) == [j \in 1..Len(c) |-> FMul(q, c[j], k)] \o <<>>
VecAdd(q, a, b) == [j \in 1..Len(a) |-> FAdd(q, a[j], b[j])] \o <<>>
=============================================================================
