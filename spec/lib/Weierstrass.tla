----------------------------- MODULE Weierstrass -----------------------------
(* Short Weierstrass curves  y^2 = x^3 + a x + b  over a (tower) field, with   *)
(* the textbook affine chord-and-tangent group law.  A curve is                *)
(*   C == [F |-> field context, k |-> level of the coordinate field,           *)
(*         a |-> element, b |-> element]                                       *)
(* A point is  Inf == [inf |-> TRUE]  or  [inf |-> FALSE, x |-> _, y |-> _].   *)
(* The library's Jacobian / extended-Jacobian / projective representations     *)
(* are projected to affine by AffOfJac / AffOfXYZZ / AffOfProj; the library's  *)
(* affine encoding of infinity is (0,0).                                       *)
EXTENDS Tower

Inf == [inf |-> TRUE]
Pt(x, y) == [inf |-> FALSE, x |-> x, y |-> y]

LOCAL cM(C, u, v) == TMul(C.F, C.k, u, v)
LOCAL cA(C, u, v) == TAdd(C.F, C.k, u, v)
LOCAL cS(C, u, v) == TSub(C.F, C.k, u, v)
LOCAL cI(C, u)    == TInv(C.F, C.k, u)
LOCAL cZero(C)    == TZero(C.F, C.k)

WOnCurve(C, P) ==
  P.inf \/ cM(C, P.y, P.y) = cA(C, cA(C, cM(C, cM(C, P.x, P.x), P.x), cM(C, C.a, P.x)), C.b)

WNeg(C, P) == IF P.inf THEN P ELSE Pt(P.x, TNeg(C.F, C.k, P.y))

WDouble(C, P) ==
  IF P.inf \/ P.y = cZero(C) THEN Inf                          \* 2-torsion doubles to O
  ELSE LET xx == cM(C, P.x, P.x)
           lam == cM(C, cA(C, cA(C, cA(C, xx, xx), xx), C.a), cI(C, cA(C, P.y, P.y)))
           x3 == cS(C, cS(C, cM(C, lam, lam), P.x), P.x)
           y3 == cS(C, cM(C, lam, cS(C, P.x, x3)), P.y)
       IN Pt(x3, y3)

WAdd(C, P, Q) ==
  IF P.inf THEN Q
  ELSE IF Q.inf THEN P
  ELSE IF P.x = Q.x
       THEN (IF P.y = Q.y THEN WDouble(C, P) ELSE Inf)          \* same x: equal or opposite
       ELSE LET lam == cM(C, cS(C, Q.y, P.y), cI(C, cS(C, Q.x, P.x)))
                x3 == cS(C, cS(C, cM(C, lam, lam), P.x), Q.x)
                y3 == cS(C, cM(C, lam, cS(C, P.x, x3)), P.y)
            IN Pt(x3, y3)
WSub(C, P, Q) == WAdd(C, P, WNeg(C, Q))

\* [e]P for a BigNat e: double-and-add, most significant bit first (a fold, see Tower!TExp)
WMulNat(C, e, P) ==
  FoldLeft(LAMBDA acc, i : LET d == WDouble(C, acc)
                           IN IF Bit(e, i) = 1 THEN WAdd(C, d, P) ELSE d,
           Inf, BitsDesc(e))
\* [z]P for an integer z = [neg, mag]
WMul(C, z, P) == IF z.neg THEN WNeg(C, WMulNat(C, z.mag, P)) ELSE WMulNat(C, z.mag, P)

WInSubgroup(C, r, P) == WOnCurve(C, P) /\ WMulNat(C, r, P) = Inf

(* projections of the library's coordinate systems (arguments are abstract values) *)
AffOfAff(C, p) == IF p.X = cZero(C) /\ p.Y = cZero(C) THEN Inf ELSE Pt(p.X, p.Y)
AffOfJac(C, p) ==
  IF p.Z = cZero(C) THEN Inf
  ELSE LET zi == cI(C, p.Z)  zi2 == cM(C, zi, zi)
       IN Pt(cM(C, p.X, zi2), cM(C, p.Y, cM(C, zi2, zi)))
AffOfXYZZ(C, p) ==
  IF p.ZZ = cZero(C) THEN Inf
  ELSE Pt(cM(C, p.X, cI(C, p.ZZ)), cM(C, p.Y, cI(C, p.ZZZ)))
AffOfProj(C, p) ==
  IF p.Z = cZero(C) THEN Inf
  ELSE LET zi == cI(C, p.Z) IN Pt(cM(C, p.X, zi), cM(C, p.Y, zi))
=============================================================================
