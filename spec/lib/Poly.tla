-------------------------------- MODULE Poly --------------------------------
(* Polynomials over the prime field F_q as mathematical objects: the          *)
(* definitions every polynomial entry point is judged against.                *)
(*   univariate : coefficient sequences c (c[1] = constant term, <<>> = 0),   *)
(*                Horner, DFT on a subgroup / coset by its definition,        *)
(*                bit reversal, interpolation conditions                      *)
(*   multilinear: bookkeeping tables t of length 2^n, t[b+1] = value at the   *)
(*                hypercube point (b_1..b_n), b_1 the MOST significant bit    *)
(* q is passed explicitly (as in PrimeField).  All sequences are forced to    *)
(* tuples (\o <<>>) so that repeated indexing does not re-evaluate them.      *)
EXTENDS PrimeField

Force(f) == f \o <<>>

RECURSIVE Log2(_)
Log2(n) == IF n <= 1 THEN 0 ELSE 1 + Log2(n \div 2)
IsPow2(n) == n >= 1 /\ Pow2(Log2(n)) = n

-----------------------------------------------------------------------------
(* univariate *)

RECURSIVE PEvalR(_,_,_,_,_)
PEvalR(q, c, x, i, acc) ==
  IF i = 0 THEN acc ELSE PEvalR(q, c, x, i-1, FAdd(q, FMul(q, acc, x), c[i]))
PEval(q, c, x) == PEvalR(q, c, x, Len(c), Zero)          \* sum c[i] x^(i-1)

RECURSIVE PowTabR(_,_,_,_)
PowTabR(q, w, n, acc) ==
  IF Len(acc) >= n THEN acc ELSE PowTabR(q, w, n, Append(acc, FMul(q, acc[Len(acc)], w)))
PowTab(q, w, n) == IF n = 0 THEN <<>> ELSE PowTabR(q, w, n, <<One>>)   \* <<w^0, .., w^(n-1)>>

FPowInt(q, a, k) == PowMod(a, FromInt(k), q)             \* k >= 0

RECURSIVE TrimZ(_)
TrimZ(c) == IF Len(c) = 0 THEN c ELSE IF c[Len(c)] = Zero THEN TrimZ(SubSeq(c, 1, Len(c)-1)) ELSE c
PolyEq(a, b) == TrimZ(a) = TrimZ(b)                      \* same polynomial, any padding
ZeroSeq(n) == Force([i \in 1..n |-> Zero])
PadTo(c, n) == IF Len(c) >= n THEN c ELSE c \o ZeroSeq(n - Len(c))
Coef(c, i) == IF i <= Len(c) THEN c[i] ELSE Zero         \* 1-based
PolyAdd(q, a, b) == LET n == IF Len(a) >= Len(b) THEN Len(a) ELSE Len(b)
                    IN Force([i \in 1..n |-> FAdd(q, Coef(a, i), Coef(b, i))])
PolyScale(q, k, a) == Force([i \in 1..Len(a) |-> FMul(q, k, a[i])])
RECURSIVE FProdR(_,_,_)
FProdR(q, s, i) == IF i > Len(s) THEN One ELSE FMul(q, s[i], FProdR(q, s, i+1))
FProd(q, s) == FProdR(q, s, 1)                           \* the empty product is 1

(* bit reversal of the k low bits; permutation of a sequence of length 2^k *)
RECURSIVE BitRevR(_,_,_)
BitRevR(i, k, acc) == IF k = 0 THEN acc ELSE BitRevR(i \div 2, k-1, 2*acc + (i % 2))
BitRev(i, k) == BitRevR(i, k, 0)
BitRevPerm(s) == LET k == Log2(Len(s)) IN Force([i \in 1..Len(s) |-> s[BitRev(i-1, k) + 1]])

(* DFT by definition: values of the polynomial a at w^0 .. w^(n-1), n = Len(a), w of order n *)
DFT(q, a, w) == LET n == Len(a)  pw == PowTab(q, w, n)
                IN Force([k \in 1..n |-> PEval(q, a, pw[k])])
IDFT(q, v, w) == LET n == Len(v)  pw == PowTab(q, FInv(q, w), n)  ninv == FInv(q, FromInt(n))
                 IN Force([j \in 1..n |-> FMul(q, ninv, PEval(q, v, pw[j]))])
ScaleGeom(q, a, g) == LET pw == PowTab(q, g, Len(a)) IN Force([i \in 1..Len(a) |-> FMul(q, a[i], pw[i])])
CosetDFT(q, a, w, g) == DFT(q, ScaleGeom(q, a, g), w)             \* values at g w^k
CosetIDFT(q, v, w, g) == ScaleGeom(q, IDFT(q, v, w), FInv(q, g))

(* f interpolates v on the range 0..Len(v)-1 with Len(f) = Len(v) (this determines f) *)
InterpolatesRange(q, f, v) ==
  /\ Len(f) = Len(v)
  /\ \A i \in 1..Len(v) : PEval(q, f, FromInt(i-1)) = v[i]

-----------------------------------------------------------------------------
(* multilinear *)

\* bit i (1-based, 1 = most significant) of b in an n-bit word
MLBit(b, n, i) == (b \div Pow2(n - i)) % 2

RECURSIVE EqWeightR(_,_,_,_,_,_)
EqWeightR(q, n, b, x, i, acc) ==
  IF i > n THEN acc
  ELSE EqWeightR(q, n, b, x, i+1,
                 FMul(q, acc, IF MLBit(b, n, i) = 1 THEN x[i] ELSE FSub(q, One, x[i])))
\* prod_i (b_i x_i + (1-b_i)(1-x_i)): the multilinear Lagrange weight of hypercube point b at x
EqWeight(q, b, x) == EqWeightR(q, Len(x), b, x, 1, One)

\* value of the multilinear extension of table t (Len(t) = 2^Len(x)) at x
MLEval(q, t, x) == FSum(q, Force([b \in 1..Len(t) |-> FMul(q, t[b], EqWeight(q, b-1, x))]))

\* table of the (n-1)-variate polynomial obtained by fixing X_1 = r
MLFold(q, t, r) == LET mid == Len(t) \div 2
                   IN Force([i \in 1..mid |-> FAdd(q, t[i], FMul(q, r, FSub(q, t[i+mid], t[i])))])

\* table of  m0 * Eq(qs, * )
EqTable(q, qs, m0) == Force([b \in 1..Pow2(Len(qs)) |-> FMul(q, m0, EqWeight(q, b-1, qs))])

RECURSIVE EvalEqR(_,_,_,_,_)
EvalEqR(q, a, b, i, acc) ==
  IF i > Len(a) THEN acc
  ELSE EvalEqR(q, a, b, i+1,
               FMul(q, acc, FAdd(q, FMul(q, a[i], b[i]), FMul(q, FSub(q, One, a[i]), FSub(q, One, b[i])))))
\* prod_i (a_i b_i + (1-a_i)(1-b_i)); the empty product is 1
EvalEqDef(q, a, b) == EvalEqR(q, a, b, 1, One)
=============================================================================
