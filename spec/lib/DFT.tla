-------------------------------- MODULE DFT ---------------------------------
(* The discrete Fourier transform over F_q on a multiplicative subgroup <w>   *)
(* of order n = 2^k (or on the coset s<w>), its inverse, and the bit-reversal *)
(* permutation.  DFTDef is the DEFINITION (evaluation of the input polynomial *)
(* at w^0..w^(n-1)); FastDFT is the textbook radix-2 recursion used by trace  *)
(* validation at sizes where the quadratic definition is too slow.  Their     *)
(* equality is model-checked in spec/C10_fft/MCDFT.                            *)
EXTENDS PolyFFT

RECURSIVE Log2(_)
Log2(n) == IF n <= 1 THEN 0 ELSE 1 + Log2(n \div 2)          \* floor(log2 n), n >= 1
IsPow2(n) == n >= 1 /\ Pow2(Log2(n)) = n                      \* n < 2^30
RECURSIVE NextPow2(_)
NextPow2(m) == IF m <= 1 THEN 1 ELSE 2 * NextPow2((m + 1) \div 2)

\* the k-bit reversal of i
RECURSIVE RevBits(_,_)
RevBits(i, k) == IF k = 0 THEN 0 ELSE (i % 2) * Pow2(k-1) + RevBits(i \div 2, k-1)

\* <<rev(0), ..., rev(2^k - 1)>> built by doubling: rev_k(i) = 2 rev_(k-1)(i) for i < 2^(k-1), and
\* 2 rev_(k-1)(i - 2^(k-1)) + 1 above (linear cost; equal to RevBits by MCDFT!BitRevLaw)
RECURSIVE RevTable(_)
RevTable(k) == IF k = 0 THEN <<0>>
               ELSE LET T == RevTable(k-1)
                        h == Len(T)
                    IN ([i \in 1..h |-> 2 * T[i]] \o <<>>) \o ([i \in 1..h |-> 2 * T[i] + 1] \o <<>>)

\* the bit-reversal permutation of a sequence whose length is a power of two (0-based index i |-> rev(i))
BitRevPerm(v) == IF Len(v) <= 2 THEN v
                 ELSE LET T == RevTable(Log2(Len(v))) IN [i \in 1..Len(v) |-> v[T[i] + 1]] \o <<>>

\* w is a primitive n-th root of unity, n = 2^k
IsPrimitiveRoot(q, w, n) ==
  /\ InField(q, w)
  /\ PowMod(w, FromInt(n), q) = One
  /\ (n > 1 => PowMod(w, FromInt(n \div 2), q) = Pred(q))

(* ---- definitions ---- *)
\* y[i] = x(w^i): the evaluations of the polynomial x on the domain, natural order
DFTDef(q, w, x) == [i \in 1..Len(x) |-> PolyEval(q, x, PowMod(w, FromInt(i-1), q))] \o <<>>
\* y[i] = x(s*w^i): the evaluations on the coset s<w>
CosetDFTDef(q, w, s, x) ==
  [i \in 1..Len(x) |-> PolyEval(q, x, FMul(q, s, PowMod(w, FromInt(i-1), q)))] \o <<>>
\* interpolation: the coefficients of the polynomial of degree < n taking the values y on <w>
IDFTDef(q, w, y) ==
  LET ninv == FInv(q, FRed(q, FromInt(Len(y))))
      winv == FInv(q, w)
  IN [j \in 1..Len(y) |-> FMul(q, ninv, PolyEval(q, y, PowMod(winv, FromInt(j-1), q)))] \o <<>>
\* ... taking the values y on the coset s<w>
CosetIDFTDef(q, w, s, y) == PolyScaleArg(q, IDFTDef(q, w, y), FInv(q, s))

(* ---- radix-2 evaluation of the same functions ---- *)
\* DFT of x[off+1], x[off+1+stride], ... (m entries) w.r.t. the root pw[stride+1]; pw[i+1] = w^i
RECURSIVE FastR(_,_,_,_,_,_)
FastR(q, x, pw, off, stride, m) ==
  IF m = 1 THEN <<x[off+1]>>
  ELSE LET h == m \div 2
           E == FastR(q, x, pw, off, 2*stride, h)
           O == FastR(q, x, pw, off+stride, 2*stride, h)
           T == [k \in 1..h |-> FMul(q, pw[(k-1)*stride+1], O[k])] \o <<>>
       IN ([k \in 1..h |-> FAdd(q, E[k], T[k])] \o <<>>) \o ([k \in 1..h |-> FSub(q, E[k], T[k])] \o <<>>)
FastDFT(q, w, x) == IF Len(x) <= 1 THEN x ELSE FastR(q, x, PowTable(q, w, Len(x)), 0, 1, Len(x))
FastIDFT(q, w, y) == VecScale(q, FastDFT(q, FInv(q, w), y), FInv(q, FRed(q, FromInt(Len(y)))))

\* the definition below DefMax points, the recursion above (equal by MCDFT)
DefMax == 16
DFT(q, w, x)  == IF Len(x) <= DefMax THEN DFTDef(q, w, x) ELSE FastDFT(q, w, x)
IDFT(q, w, y) == IF Len(y) <= DefMax THEN IDFTDef(q, w, y) ELSE FastIDFT(q, w, y)
CosetDFT(q, w, s, x)  == IF Len(x) <= DefMax THEN CosetDFTDef(q, w, s, x) ELSE FastDFT(q, w, PolyScaleArg(q, x, s))
CosetIDFT(q, w, s, y) == IF Len(y) <= DefMax THEN CosetIDFTDef(q, w, s, y)
                         ELSE PolyScaleArg(q, FastIDFT(q, w, y), FInv(q, s))
=============================================================================
