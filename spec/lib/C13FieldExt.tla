----------------------------- MODULE C13FieldExt -----------------------------
(* Squares, square roots and the RFC 9380 sign function in prime fields and in  *)
(* towers of QUADRATIC extensions (Tower.tla contexts), by the textbook          *)
(* definitions:                                                                  *)
(*   FIsSq / TIsSq   Euler criterion, descending through the norm                *)
(*   FSqrt           x^((q+1)/4) for q = 3 mod 4, Tonelli-Shanks otherwise       *)
(*   TSqrt           a0 + a1 X in K[X]/(X^2 - nr):  with s = sqrt(N(a)),         *)
(*                   t = (a0 + s)/2 (or (a0 - s)/2 when that is not a square),   *)
(*                   sqrt(a) = x0 + (a1 / 2 x0) X,  x0 = sqrt(t)                 *)
(*   TSgn0           RFC 9380 section 4.1: parity of the first non-zero          *)
(*                   coordinate, coordinates in tower order (depth first)        *)
(* Which of the two roots FSqrt/TSqrt return is irrelevant to their users (the   *)
(* sign is always fixed afterwards with TSgn0).  Checked exhaustively at small   *)
(* fields by spec/C13_hash2curve/MCFieldExt.                                     *)
EXTENDS Tower

\* ---------------------------------------------------------------------- prime fields
FIsSq(q, a) == a = Zero \/ PowMod(a, Shr(Pred(q), 1), q) = One

\* q - 1 = 2^s * t, t odd
TwoAdicity(q) == LET m == Pred(q)
                 IN CHOOSE s \in 0..BitLen(m) : Bit(m, s) = 1 /\ \A j \in 0..(s-1) : Bit(m, j) = 0
\* the least non-residue
NonResidue(q) == CHOOSE n \in 2..1000 : /\ ~FIsSq(q, FromInt(n))
                                        /\ \A j \in 2..(n-1) : FIsSq(q, FromInt(j))

\* least i in 1..m-1 with tt^(2^i) = 1 (tt # 1, tt^(2^m) = 1... returns 0 when there is none)
LeastOrderExp(q, tt, m) ==
  FoldLeft(LAMBDA st, j : IF st.found THEN st
                          ELSE LET c == MulMod(st.cur, st.cur, q)
                               IN [cur |-> c, i |-> j, found |-> c = One],
           [cur |-> tt, i |-> 0, found |-> FALSE], [j \in 1..(m-1) |-> j]).i

TonelliShanks(q, a) ==
  LET s == TwoAdicity(q)
      t == Shr(Pred(q), s)
      z == PowMod(FromInt(NonResidue(q)), t, q)
      init == [r |-> PowMod(a, Shr(Succ(t), 1), q), c |-> z, tt |-> PowMod(a, t, q), m |-> s]
      step(st, j) == IF st.tt = One THEN st
                     ELSE LET i == LeastOrderExp(q, st.tt, st.m)
                              b == PowMod(st.c, Shl(One, st.m - i - 1), q)
                              c2 == MulMod(b, b, q)
                          IN [r |-> MulMod(st.r, b, q), c |-> c2, tt |-> MulMod(st.tt, c2, q), m |-> i]
  IN FoldLeft(step, init, [j \in 1..s |-> j]).r

\* a root of a (a MUST be a square; otherwise the result is meaningless)
FSqrt(q, a) == IF a = Zero THEN Zero
               ELSE IF Bit(q, 1) = 1 THEN PowMod(a, Shr(Succ(q), 2), q)      \* q = 3 mod 4
               ELSE TonelliShanks(q, a)

\* ---------------------------------------------------------------------- towers (quadratic levels)
\* norm to the level below of a = a1 + a2 X, X^2 = nr
TNorm2(F, k, a) == TSub(F, k-1, TMul(F, k-1, a[1], a[1]), TMul(F, k-1, Nr(F, k), TMul(F, k-1, a[2], a[2])))

RECURSIVE TIsSq(_,_,_)
TIsSq(F, k, a) == IF k = 0 THEN FIsSq(F.q, a) ELSE TIsSq(F, k-1, TNorm2(F, k, a))

RECURSIVE TSqrt(_,_,_)
TSqrt(F, k, a) ==
  IF k = 0 THEN FSqrt(F.q, a)
  ELSE LET z0 == TZero(F, k-1)
           two == TEmbed(F, k-1, Two)
       IN IF a[2] = z0
          THEN (IF TIsSq(F, k-1, a[1]) THEN <<TSqrt(F, k-1, a[1]), z0>>
                ELSE <<z0, TSqrt(F, k-1, TDiv(F, k-1, a[1], Nr(F, k)))>>)      \* a1 = nr * (a1/nr), sqrt = X sqrt(a1/nr)
          ELSE LET s == TSqrt(F, k-1, TNorm2(F, k, a))
                   t1 == TDiv(F, k-1, TAdd(F, k-1, a[1], s), two)
                   t == IF TIsSq(F, k-1, t1) THEN t1 ELSE TDiv(F, k-1, TSub(F, k-1, a[1], s), two)
                   x0 == TSqrt(F, k-1, t)
               IN <<x0, TDiv(F, k-1, a[2], TMul(F, k-1, two, x0))>>

\* RFC 9380 sgn0
RECURSIVE TSgn0(_,_,_)
TSgn0(F, k, a) ==
  IF k = 0 THEN (IF a = Zero THEN 0 ELSE a[1] % 2)            \* base 2^15 digits, least significant first
  ELSE LET nz == {i \in 1..Deg(F, k) : a[i] # TZero(F, k-1)}
       IN IF nz = {} THEN 0
          ELSE TSgn0(F, k-1, a[CHOOSE i \in nz : \A j \in nz : i <= j])
=============================================================================
