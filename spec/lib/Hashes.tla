------------------------------- MODULE Hashes -------------------------------
(* Mathematical definitions of the algebraic hash functions of gnark-crypto,   *)
(* written from the documents the packages cite, not from the Go code:         *)
(*   MiMC      Miyaguchi-Preneel over the cipher  E_k(m): m <- (m + k + c_i)^d *)
(*             for every round constant c_i, then m + k                        *)
(*   Poseidon2 eprint 2023/323: initial external layer, rf/2 full rounds,      *)
(*             rp partial rounds, rf/2 full rounds; external layer circ(2,1,..)*)
(*             for t in {2,3} and circ(2*M4, M4, .., M4) for 4 | t; internal   *)
(*             layer J + diag(mu); compression = feed-forward of the right half*)
(*   ring-SIS  sum_i A_i * M_i in F_q[X]/(X^d + 1), M = little-endian limbs    *)
(* Vectors are sequences of BigNat values in [0,q).  Every operator returning  *)
(* a vector forces it (\o <<>>) because TLC function constructors are lazy.    *)
EXTENDS PrimeField

SBox(q, d, x) == PowMod(x, FromInt(d), q)

\* --------------------------------------------------------------------------
\* MiMC.  cs: round constants (any naturals, reduced mod q here)
RECURSIVE MiMCRounds(_, _, _, _, _, _)
MiMCRounds(q, d, cs, k, m, i) ==
  IF i > Len(cs) THEN m
  ELSE MiMCRounds(q, d, cs, k, SBox(q, d, FAdd(q, FAdd(q, m, k), MulMod(cs[i], One, q))), i + 1)

MiMCEncrypt(q, d, cs, k, m) == FAdd(q, MiMCRounds(q, d, cs, k, m, 1), k)

\* one Miyaguchi-Preneel step: h' = E_h(m) + h + m
MiMCStep(q, d, cs, h, m) == FAdd(q, FAdd(q, MiMCEncrypt(q, d, cs, h, m), h), m)

RECURSIVE MiMCFoldR(_, _, _, _, _, _)
MiMCFoldR(q, d, cs, h, ms, i) ==
  IF i > Len(ms) THEN h ELSE MiMCFoldR(q, d, cs, MiMCStep(q, d, cs, h, ms[i]), ms, i + 1)
\* digest (as a field element) of the message ms started from chaining value h
MiMCFold(q, d, cs, h, ms) == MiMCFoldR(q, d, cs, h, ms, 1)

\* --------------------------------------------------------------------------
\* Poseidon2.  P = [q, t, rf, rp, d, rk, m4, mu]
\*   rk  flat sequence of round constants in derivation order: rf/2 rounds of t, rp rounds of 1, rf/2 rounds of t
\*   m4  <<>> for t in {2,3}; otherwise the 4x4 matrix (rows of small integers) of the external layer
\*   mu  diagonal of the internal layer: M_I = J + diag(mu), J the all-ones matrix
P2ExtCirc(q, x) == LET s == FSum(q, x) IN [i \in 1..Len(x) |-> FAdd(q, s, x[i])] \o <<>>

P2M4Dot(q, row, x, b) ==
  FAdd(q, FAdd(q, FMulSmall(q, x[b+1], row[1]), FMulSmall(q, x[b+2], row[2])),
          FAdd(q, FMulSmall(q, x[b+3], row[3]), FMulSmall(q, x[b+4], row[4])))

RECURSIVE P2ColSum(_, _, _, _)
P2ColSum(q, y, j, k) == IF 4*k + j > Len(y) THEN Zero ELSE FAdd(q, y[4*k + j], P2ColSum(q, y, j, k + 1))

\* circ(2*M4, M4, .., M4) * x  =  y + (column sums of y), y = blockdiag(M4) * x
P2ExtM4(q, M, x) ==
  LET y == [i \in 1..Len(x) |-> P2M4Dot(q, M[((i-1) % 4) + 1], x, ((i-1) \div 4) * 4)] \o <<>>
      cs == [j \in 1..4 |-> P2ColSum(q, y, j, 0)] \o <<>>
  IN [i \in 1..Len(x) |-> FAdd(q, y[i], cs[((i-1) % 4) + 1])] \o <<>>

P2Ext(P, x) == IF P.t < 4 THEN P2ExtCirc(P.q, x) ELSE P2ExtM4(P.q, P.m4, x)

P2Int(P, x) == LET s == FSum(P.q, x)
               IN [i \in 1..Len(x) |-> FAdd(P.q, s, FMul(P.q, P.mu[i], x[i]))] \o <<>>

P2RK(P, k) == MulMod(P.rk[k], One, P.q)

P2FullRound(P, x, off) ==
  P2Ext(P, [i \in 1..P.t |-> SBox(P.q, P.d, FAdd(P.q, x[i], P2RK(P, off + i)))] \o <<>>)

P2PartialRound(P, x, off) ==
  P2Int(P, [i \in 1..P.t |-> IF i = 1 THEN SBox(P.q, P.d, FAdd(P.q, x[1], P2RK(P, off + 1))) ELSE x[i]] \o <<>>)

RECURSIVE P2Rounds(_, _, _)
P2Rounds(P, x, r) ==
  LET h == P.rf \div 2 IN
  IF r > P.rf + P.rp THEN x
  ELSE IF r <= h THEN P2Rounds(P, P2FullRound(P, x, (r - 1) * P.t), r + 1)
  ELSE IF r <= h + P.rp THEN P2Rounds(P, P2PartialRound(P, x, h * P.t + (r - h - 1)), r + 1)
  ELSE P2Rounds(P, P2FullRound(P, x, h * P.t + P.rp + (r - h - P.rp - 1) * P.t), r + 1)

P2NbConstants(t, rf, rp) == rf * t + rp
P2Perm(P, x) == P2Rounds(P, P2Ext(P, x), 1)

\* 2-to-1 compression of two blocks of t/2 elements: right + (second half of the permuted state)
P2Compress(P, left, right) ==
  LET n == P.t \div 2
      y == P2Perm(P, left \o right)
  IN [i \in 1..n |-> FAdd(P.q, right[i], y[n + i])] \o <<>>

RECURSIVE P2MDFoldR(_, _, _, _)
P2MDFoldR(P, cv, blocks, i) ==
  IF i > Len(blocks) THEN cv ELSE P2MDFoldR(P, P2Compress(P, cv, blocks[i]), blocks, i + 1)
\* Merkle-Damgard over the compressor
P2MDFold(P, cv, blocks) == P2MDFoldR(P, cv, blocks, 1)

\* --------------------------------------------------------------------------
\* ring-SIS
\* limbs of the canonical value v of an element of eb bytes, lb bytes per limb, little endian
SisLimbsOf(v, eb, lb) == [j \in 1..(eb \div lb) |-> MulMod(Shr(v, 8 * lb * (j - 1)), One, Shl(One, 8 * lb))] \o <<>>

\* all limbs of the input, element after element
SisLimbs(vs, eb, lb) ==
  LET per == eb \div lb IN
  [i \in 1..(Len(vs) * per) |-> MulMod(Shr(vs[((i - 1) \div per) + 1], 8 * lb * ((i - 1) % per)), One, Shl(One, 8 * lb))] \o <<>>

\* coefficient k (0-based) of a * m mod X^d + 1; a has d coefficients, m is the slice off+1 .. off+d of limbs (zero beyond its end)
RECURSIVE SisCoefR(_, _, _, _, _, _, _)
SisCoefR(q, d, a, limbs, off, k, j) ==
  IF j >= d \/ off + j + 1 > Len(limbs) THEN Zero
  ELSE LET mj == limbs[off + j + 1]
           term == IF mj = Zero THEN Zero
                   ELSE IF j <= k THEN FMul(q, a[k - j + 1], mj)
                   ELSE FNeg(q, FMul(q, a[d + k - j + 1], mj))
       IN FAdd(q, term, SisCoefR(q, d, a, limbs, off, k, j + 1))

RECURSIVE SisSumR(_, _, _, _, _, _)
SisSumR(q, d, A, limbs, k, i) ==
  IF i > Len(A) \/ (i - 1) * d >= Len(limbs) THEN Zero
  ELSE FAdd(q, SisCoefR(q, d, A[i], limbs, (i - 1) * d, k, 0), SisSumR(q, d, A, limbs, k, i + 1))

\* A: key polynomials (each d coefficients in [0,q)); vs: canonical values of the input elements
SisHash(q, d, A, vs, eb, lb) ==
  LET limbs == SisLimbs(vs, eb, lb)
  IN [k \in 1..d |-> SisSumR(q, d, A, limbs, k - 1, 1)] \o <<>>
=============================================================================
