------------------------------- MODULE BigNat -------------------------------
(***************************************************************************)
(* Arbitrary-precision naturals for TLC.                                   *)
(*                                                                         *)
(* A natural is a tuple of digits in base 2^15, least significant first,   *)
(* canonical = no most-significant zero digit; 0 is <<>>.  Because the     *)
(* representation is canonical, TLA+ equality is numeric equality.         *)
(*                                                                         *)
(* Every public operator X is defined as the pure-TLA+ operator PX.  When  *)
(* /verif/accel/classes is on TLC's classpath, tlc2.module.BigNat overrides*)
(* the public operators with java.math.BigInteger; the P* operators are    *)
(* never overridden, so  X(args) = PX(args)  cross-checks the accelerator  *)
(* against the definition (spec/lib/BigNatSelfCheck.tla).                  *)
(***************************************************************************)
EXTENDS Integers, Sequences

Base == 32768
DigitBits == 15

Zero == <<>>
One  == <<1>>
Two  == <<2>>

IsNat(a) == /\ DOMAIN a = 1..Len(a)
            /\ \A i \in 1..Len(a) : a[i] \in 0..(Base-1)
            /\ (Len(a) > 0 => a[Len(a)] # 0)

RECURSIVE PNorm(_)
PNorm(a) == IF Len(a) = 0 THEN a
            ELSE IF a[Len(a)] = 0 THEN PNorm(SubSeq(a, 1, Len(a)-1)) ELSE a

RECURSIVE PFromInt(_)
PFromInt(n) == IF n = 0 THEN <<>> ELSE <<n % Base>> \o PFromInt(n \div Base)

RECURSIVE PToIntR(_,_)
PToIntR(a, i) == IF i > Len(a) THEN 0 ELSE a[i] + Base * PToIntR(a, i+1)
PToInt(a) == PToIntR(a, 1)          \* only for values < 2^31

Dig(a, i) == IF i <= Len(a) THEN a[i] ELSE 0

PCmp(a, b) ==
  IF Len(a) # Len(b) THEN (IF Len(a) < Len(b) THEN -1 ELSE 1)
  ELSE LET D == {i \in 1..Len(a) : a[i] # b[i]}
       IN IF D = {} THEN 0
          ELSE LET k == CHOOSE i \in D : \A j \in D : j <= i
               IN IF a[k] < b[k] THEN -1 ELSE 1

RECURSIVE PAddR(_,_,_,_)
PAddR(a, b, i, c) ==
  IF i > Len(a) /\ i > Len(b) THEN (IF c = 0 THEN <<>> ELSE <<c>>)
  ELSE LET x == Dig(a,i) + Dig(b,i) + c
       IN <<x % Base>> \o PAddR(a, b, i+1, x \div Base)
PAdd(a, b) == PAddR(a, b, 1, 0)

RECURSIVE PSubR(_,_,_,_)
PSubR(a, b, i, c) ==       \* a >= b
  IF i > Len(a) THEN <<>>
  ELSE LET x == Dig(a,i) - Dig(b,i) - c
       IN IF x < 0 THEN <<x + Base>> \o PSubR(a, b, i+1, 1)
                   ELSE <<x>> \o PSubR(a, b, i+1, 0)
PSub(a, b) == PNorm(PSubR(a, b, 1, 0))

RECURSIVE PMulDigR(_,_,_,_)
PMulDigR(a, d, i, c) ==
  IF i > Len(a) THEN (IF c = 0 THEN <<>> ELSE <<c>>)
  ELSE LET x == a[i] * d + c
       IN <<x % Base>> \o PMulDigR(a, d, i+1, x \div Base)
PMulDig(a, d) == IF d = 0 THEN <<>> ELSE PMulDigR(a, d, 1, 0)

PShlDigits(a, k) == IF Len(a) = 0 THEN a ELSE [i \in 1..k |-> 0] \o a

RECURSIVE PMulR(_,_,_)
PMulR(a, b, i) ==
  IF i > Len(b) THEN <<>>
  ELSE PAdd(PShlDigits(PMulDig(a, b[i]), i-1), PMulR(a, b, i+1))
PMul(a, b) == IF Len(a) = 0 \/ Len(b) = 0 THEN <<>> ELSE PMulR(a, b, 1)

RECURSIVE Pow2(_)
Pow2(k) == IF k = 0 THEN 1 ELSE 2 * Pow2(k-1)      \* small k only (k <= 30)

PBit(a, i) == (Dig(a, (i \div DigitBits) + 1) \div Pow2(i % DigitBits)) % 2

RECURSIVE TopBit(_,_)
TopBit(d, k) == IF d < Pow2(k) THEN k ELSE TopBit(d, k+1)   \* bit length of a digit
PBitLen(a) == IF Len(a) = 0 THEN 0 ELSE (Len(a)-1) * DigitBits + TopBit(a[Len(a)], 0)

PDouble(a) == PAdd(a, a)

\* binary long division, most significant bit first; state <<q, r>>
RECURSIVE PDivModR(_,_,_,_,_)
PDivModR(a, m, i, q, r) ==
  IF i < 0 THEN <<q, r>>
  ELSE LET r2 == IF PBit(a, i) = 1 THEN PAdd(PDouble(r), One) ELSE PDouble(r)
           ge == PCmp(r2, m) >= 0
       IN PDivModR(a, m, i-1,
                   IF ge THEN PAdd(PDouble(q), One) ELSE PDouble(q),
                   IF ge THEN PSub(r2, m) ELSE r2)
PDivMod(a, m) == PDivModR(a, m, PBitLen(a) - 1, <<>>, <<>>)     \* m # 0
PDiv(a, m) == PDivMod(a, m)[1]
PMod(a, m) == PDivMod(a, m)[2]

PAddMod(a, b, m) == PMod(PAdd(a, b), m)
PSubMod(a, b, m) == LET x == PMod(a, m)  y == PMod(b, m)
                    IN IF PCmp(x, y) >= 0 THEN PSub(x, y) ELSE PSub(PAdd(x, m), y)
PMulMod(a, b, m) == PMod(PMul(a, b), m)

RECURSIVE PPowModR(_,_,_,_,_)
PPowModR(a, e, m, i, acc) ==
  IF i < 0 THEN acc
  ELSE LET s == PMulMod(acc, acc, m)
       IN PPowModR(a, e, m, i-1, IF PBit(e, i) = 1 THEN PMulMod(s, a, m) ELSE s)
PPowMod(a, e, m) == IF m = One THEN Zero ELSE PPowModR(PMod(a, m), e, m, PBitLen(e) - 1, One)

\* inverse modulo a PRIME m by Fermat; 0 |-> 0 (the library's convention)
PInvMod(a, m) == PPowMod(a, PSub(m, Two), m)

RECURSIVE PShlR(_,_)
PShlR(a, k) == IF k = 0 THEN a ELSE PShlR(PDouble(a), k-1)
RECURSIVE PShrR(_,_)
PShrR(a, k) == IF k = 0 THEN a ELSE PShrR(PDiv(a, Two), k-1)

RECURSIVE PFromBytesBER(_,_,_)
PFromBytesBER(s, i, acc) ==
  IF i > Len(s) THEN acc
  ELSE PFromBytesBER(s, i+1, PAdd(PMulDig(acc, 256), PFromInt(s[i])))
PFromBytesBE(s) == PFromBytesBER(s, 1, <<>>)

RECURSIVE PToBytesLER(_,_)
PToBytesLER(a, n) ==      \* n bytes, little endian (truncating)
  IF n = 0 THEN <<>>
  ELSE LET qr == PDivMod(a, <<256>>) IN <<PToInt(qr[2])>> \o PToBytesLER(qr[1], n-1)
Reverse(s) == [i \in 1..Len(s) |-> s[Len(s) + 1 - i]]

-----------------------------------------------------------------------------
(* Public operators (overridden by tlc2.module.BigNat when on the classpath) *)

FromInt(n) == PFromInt(n)
ToInt(a) == PToInt(a)
Cmp(a, b) == PCmp(a, b)
Add(a, b) == PAdd(a, b)
Sub(a, b) == PSub(a, b)                    \* requires a >= b
Mul(a, b) == PMul(a, b)
Div(a, b) == PDiv(a, b)                    \* requires b # 0
Rem(a, b) == PMod(a, b)                    \* requires b # 0  (accelerated; the Java name "Mod" is reserved by TLC for %)
Mod(a, b) == Rem(a, b)
AddMod(a, b, m) == PAddMod(a, b, m)
SubMod(a, b, m) == PSubMod(a, b, m)
MulMod(a, b, m) == PMulMod(a, b, m)
PowMod(a, e, m) == PPowMod(a, e, m)
InvMod(a, m) == PInvMod(a, m)              \* m prime; 0 |-> 0
Bit(a, i) == PBit(a, i)
BitLen(a) == PBitLen(a)
Shl(a, k) == PShlR(a, k)
Shr(a, k) == PShrR(a, k)
FromBytesBE(s) == PFromBytesBE(s)
FromBytesLE(s) == PFromBytesBE(Reverse(s))
ToBytesLE(a, n) == PToBytesLER(a, n)       \* low n bytes
ToBytesBE(a, n) == Reverse(PToBytesLER(a, n))

Lt(a, b) == Cmp(a, b) < 0
Le(a, b) == Cmp(a, b) <= 0
IsZero(a) == a = <<>>
IsOdd(a) == Len(a) > 0 /\ a[1] % 2 = 1
Pred(a) == Sub(a, One)
Succ(a) == Add(a, One)
NegMod(a, m) == SubMod(Zero, a, m)

(* Signed integers: [neg |-> BOOLEAN, mag |-> nat]; -0 is not canonical *)
ZInt(neg, mag) == [neg |-> neg /\ mag # <<>>, mag |-> mag]
ZMod(z, m) == IF z.neg THEN NegMod(z.mag, m) ELSE Mod(z.mag, m)
=============================================================================
