-------------------------------- MODULE PolyKZG --------------------------------
(* Univariate polynomials over a prime field F_q by the textbook definitions.  *)
(* A polynomial is the sequence of its coefficients, constant term first       *)
(* (p[1] = coefficient of X^0), every coefficient a BigNat in [0,q); trailing  *)
(* zero coefficients are allowed (the length is part of the value, as in the   *)
(* library's []fr.Element); <<>> is "no polynomial".  q is passed explicitly.  *)
(* All loops are folds (SequencesExt!FoldLeft is an eager Java loop).          *)
EXTENDS PrimeField

PIdx(n) == [j \in 1..n |-> j] \o <<>>                  \* <<1, ..., n>>
PDesc(n) == [j \in 1..n |-> n + 1 - j] \o <<>>         \* <<n, ..., 1>>

PIsPoly(q, p) == DOMAIN p = 1..Len(p) /\ \A i \in 1..Len(p) : InField(q, p[i])

\* p(x) by Horner's rule, top coefficient first; the empty polynomial evaluates to 0
PEval(q, p, x) == FoldLeft(LAMBDA acc, i : FAdd(q, FMul(q, acc, x), p[i]), Zero, PDesc(Len(p)))

\* sum_i p[i] * s[i] over the positions of p (s at least as long): an inner product / multi-exponentiation
PDot(q, p, s) == FoldLeft(LAMBDA acc, i : FAdd(q, acc, FMul(q, p[i], s[i])), Zero, PIdx(Len(p)))

\* <<x^0, x^1, ..., x^(n-1)>>
PPowers(q, x, n) ==
  IF n = 0 THEN <<>>
  ELSE FoldLeft(LAMBDA acc, i : Append(acc, FMul(q, acc[Len(acc)], x)), <<Mod(One, q)>>, PIdx(n - 1))

\* coefficient i (1-based) of p padded with zeros
PCoef(p, i) == IF i <= Len(p) THEN p[i] ELSE Zero
PAddPoly(q, a, b) ==
  LET n == IF Len(a) >= Len(b) THEN Len(a) ELSE Len(b)
  IN [i \in 1..n |-> FAdd(q, PCoef(a, i), PCoef(b, i))] \o <<>>
PScale(q, c, a) == [i \in 1..Len(a) |-> FMul(q, c, a[i])] \o <<>>

\* sum_k cs[k] * ps[k]  (a linear combination of polynomials, length = the longest)
PLinComb(q, cs, ps) ==
  FoldLeft(LAMBDA acc, k : PAddPoly(q, acc, PScale(q, cs[k], ps[k])), <<>>, PIdx(Len(ps)))

\* Euclidean division of p (length n >= 1) by (X - a): p = quo * (X - a) + rem with Len(quo) = n - 1.
\* Synthetic division: quo[n-1] = p[n], quo[k-1] = p[k] + a * quo[k], rem = p[1] + a * quo[1].
PDivLinear(q, p, a) ==
  LET n == Len(p)
      quo == IF n <= 1 THEN <<>>
             ELSE FoldLeft(LAMBDA acc, k : <<FAdd(q, p[k], FMul(q, a, acc[1]))>> \o acc,
                           <<p[n]>>, [j \in 1..(n - 2) |-> n - j] \o <<>>)        \* k = n-1, ..., 2
      rem == IF n = 0 THEN Zero
             ELSE IF n = 1 THEN p[1] ELSE FAdd(q, p[1], FMul(q, a, quo[1]))
  IN [quo |-> quo, rem |-> rem]

\* quo * (X - a) + v, coefficient by coefficient (the inverse of PDivLinear)
PMulLinearAdd(q, quo, a, v) ==
  LET m == Len(quo)
  IN IF m = 0 THEN <<v>>
     ELSE [k \in 1..(m + 1) |->
             IF k = 1 THEN FSub(q, v, FMul(q, a, quo[1]))
             ELSE IF k = m + 1 THEN quo[m]
             ELSE FSub(q, quo[k - 1], FMul(q, a, quo[k]))] \o <<>>
=============================================================================
