----------------------------- MODULE TraceKernel -----------------------------
(* Shared plumbing of every trace-validation spec.                            *)
(*   Trace   the ndjson log written by the Go harness (env VERIF_TRACE);      *)
(*           line 1 is a header record, every other line one event            *)
(*   l       cursor (index of the next event)                                 *)
(*   bad     set of <<event index, reason>>: TLC never stops at the first     *)
(*           rejected event, one run classifies the whole log                 *)
(* A trace spec defines its machine variables and a JudgeStep; the final      *)
(* Finish action prints the verdict lines parsed by /verif/check.             *)
EXTENDS Integers, Sequences, TLC, Json, IOUtils

TraceFile == IOEnv.VERIF_TRACE
Trace == ndJsonDeserialize(TraceFile)
Hdr == Trace[1]
NEvents == Len(Trace) - 1

Has(e, f) == f \in DOMAIN e
Panicked(e) == Has(e, "panic")

VARIABLES l, bad

KInit == l = 2 /\ bad = {}
Ev == Trace[l]
HasNext == l <= Len(Trace)
\* advance the cursor recording the reasons (a set of strings) for which event l is rejected
Advance(reasons) == /\ l' = l + 1
                    /\ bad' = bad \cup {<<l, r>> : r \in reasons}
Finished == l = Len(Trace) + 1
Finish == /\ Finished
          /\ PrintT(<<"VERIF_BAD", ToJson(bad)>>)
          /\ PrintT(<<"VERIF_DONE", NEvents>>)
          /\ l' = l + 1
          /\ UNCHANGED bad
=============================================================================
