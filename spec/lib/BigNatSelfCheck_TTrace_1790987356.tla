---- MODULE BigNatSelfCheck_TTrace_1790987356 ----
EXTENDS Sequences, TLCExt, Toolbox, Naturals, TLC, BigNatSelfCheck

_expression ==
    LET BigNatSelfCheck_TEExpression == INSTANCE BigNatSelfCheck_TEExpression
    IN BigNatSelfCheck_TEExpression!expression
----

_trace ==
    LET BigNatSelfCheck_TETrace == INSTANCE BigNatSelfCheck_TETrace
    IN BigNatSelfCheck_TETrace!trace
----

_inv ==
    ~(
        TLCGet("level") = Len(_TETrace)
        /\
        i = (20)
    )
----

_init ==
    /\ i = _TETrace[1].i
----

_next ==
    /\ \E i,j \in DOMAIN _TETrace:
        /\ \/ /\ j = i + 1
              /\ i = TLCGet("level")
        /\ i  = _TETrace[i].i
        /\ i' = _TETrace[j].i

\* Uncomment the ASSUME below to write the states of the error trace
\* to the given file in Json format. Note that you can pass any tuple
\* to `JsonSerialize`. For example, a sub-sequence of _TETrace.
    \* ASSUME
    \*     LET J == INSTANCE Json
    \*         IN J!JsonSerialize("BigNatSelfCheck_TTrace_1790987356.json", _TETrace)

=============================================================================

 Note that you can extract this module `BigNatSelfCheck_TEExpression`
  to a dedicated file to reuse `expression` (the module in the 
  dedicated `BigNatSelfCheck_TEExpression.tla` file takes precedence 
  over the module `BigNatSelfCheck_TEExpression` below).

---- MODULE BigNatSelfCheck_TEExpression ----
EXTENDS Sequences, TLCExt, Toolbox, Naturals, TLC, BigNatSelfCheck

expression == 
    [
        \* To hide variables of the `BigNatSelfCheck` spec from the error trace,
        \* remove the variables below.  The trace will be written in the order
        \* of the fields of this record.
        i |-> i
        
        \* Put additional constant-, state-, and action-level expressions here:
        \* ,_stateNumber |-> _TEPosition
        \* ,_iUnchanged |-> i = i'
        
        \* Format the `i` variable as Json value.
        \* ,_iJson |->
        \*     LET J == INSTANCE Json
        \*     IN J!ToJson(i)
        
        \* Lastly, you may build expressions over arbitrary sets of states by
        \* leveraging the _TETrace operator.  For example, this is how to
        \* count the number of times a spec variable changed up to the current
        \* state in the trace.
        \* ,_iModCount |->
        \*     LET F[s \in DOMAIN _TETrace] ==
        \*         IF s = 1 THEN 0
        \*         ELSE IF _TETrace[s].i # _TETrace[s-1].i
        \*             THEN 1 + F[s-1] ELSE F[s-1]
        \*     IN F[_TEPosition - 1]
    ]

=============================================================================



Parsing and semantic processing can take forever if the trace below is long.
 In this case, it is advised to uncomment the module below to deserialize the
 trace from a generated binary file.

\*
\*---- MODULE BigNatSelfCheck_TETrace ----
\*EXTENDS IOUtils, TLC, BigNatSelfCheck
\*
\*trace == IODeserialize("BigNatSelfCheck_TTrace_1790987356.bin", TRUE)
\*
\*=============================================================================
\*

---- MODULE BigNatSelfCheck_TETrace ----
EXTENDS TLC, BigNatSelfCheck

trace == 
    <<
    ([i |-> 1]),
    ([i |-> 2]),
    ([i |-> 3]),
    ([i |-> 4]),
    ([i |-> 5]),
    ([i |-> 6]),
    ([i |-> 7]),
    ([i |-> 8]),
    ([i |-> 9]),
    ([i |-> 10]),
    ([i |-> 11]),
    ([i |-> 12]),
    ([i |-> 13]),
    ([i |-> 14]),
    ([i |-> 15]),
    ([i |-> 16]),
    ([i |-> 17]),
    ([i |-> 18]),
    ([i |-> 19]),
    ([i |-> 20])
    >>
----


=============================================================================

---- CONFIG BigNatSelfCheck_TTrace_1790987356 ----

INVARIANT
    _inv

CHECK_DEADLOCK
    \* CHECK_DEADLOCK off because of PROPERTY or INVARIANT above.
    FALSE

INIT
    _init

NEXT
    _next

CONSTANT
    _TETrace <- _trace

ALIAS
    _expression
=============================================================================
\* Generated on Sat Oct 03 00:29:49 UTC 2026