--------------------------- MODULE BigNatSelfCheck ---------------------------
(* Cross-validates the Java accelerator (public operators of BigNat) against *)
(* the pure TLA+ definitions (P* operators) on a boundary lattice plus       *)
(* seeded pseudo-random operands.  One state per operand tuple.              *)
EXTENDS BigNat, TLC, IOUtils

Seed == IF "VERIF_SEED" \in DOMAIN IOEnv THEN atoi(IOEnv.VERIF_SEED) % 30000 ELSE 1
N == IF "SELFCHECK_N" \in DOMAIN IOEnv THEN atoi(IOEnv.SELFCHECK_N) ELSE 40

\* linear congruential digits (all arithmetic below 2^31)
RECURSIVE Lcg(_,_)
Lcg(x, k) == IF k = 0 THEN x ELSE Lcg((x * 1103 + 12345) % Base, k-1)
RndDigits(s, len) == PNorm([j \in 1..len |-> Lcg((s * 31 + j * 7 + 1) % Base, 3)])

Ones(len) == [j \in 1..len |-> Base - 1]
PowB(len) == [j \in 1..len |-> 0] \o <<1>>

Lattice == << <<>>, <<1>>, <<2>>, <<Base-1>>, PowB(1), PAdd(PowB(1), One), Ones(2), Ones(17), PowB(17),
              PAdd(PowB(17), One), Ones(18), PowB(4), PSub(PowB(5), One), <<3>>, <<0, 0, 0, 16384>>,
              <<16384>>, <<32767, 0, 32767>>, <<1, 0, 0, 0, 0, 0, 0, 0, 0, 0, 0, 0, 0, 0, 0, 0, 0, 1>> >>

Operand(k) == IF k <= Len(Lattice) THEN Lattice[k]
              ELSE RndDigits(Seed + k, 1 + ((k * 7 + Seed) % 20))

\* a 257-bit-ish odd modulus from the stream and small primes
Mods == << <<13>>, <<257>>, <<32749>>, PAdd(PowB(2), <<3>>), RndDigits(Seed + 999, 17) \o <<1>>, Ones(17) >>

VARIABLE i
Init == i = 1
Next == i < N /\ i' = i + 1
Spec == Init /\ [][Next]_i

A == Operand(i)
B == Operand(((i * 5 + 3) % (N + 7)) + 1)
C == Operand(((i * 11 + 1) % (N + 13)) + 1)
M == Mods[(i % Len(Mods)) + 1]
Hi == IF PCmp(A, B) >= 0 THEN A ELSE B
Lo == IF PCmp(A, B) >= 0 THEN B ELSE A
SmallE == PFromInt(Lcg(Seed + i, 2) % 23)

\* small operands (<= 4 digits) for the checks that need the pure long division
As == IF Len(A) <= 4 THEN A ELSE SubSeq(A, 1, 3) \o <<1 + (i % 7)>>
Bs == IF Len(B) <= 3 THEN B ELSE SubSeq(B, 1, 2) \o <<1 + (i % 5)>>
Ms == IF Len(M) <= 2 THEN M ELSE SubSeq(M, 1, 1) \o <<3 + (i % 9)>>
PowTwo(k) == [j \in 1..(k \div DigitBits) |-> 0] \o <<Pow2(k % DigitBits)>>

RECURSIVE NaivePow(_,_,_)
NaivePow(a, e, m) == IF e = 0 THEN Mod(One, m) ELSE MulMod(NaivePow(a, e-1, m), a, m)

Agree0 ==
  /\ IsNat(A) /\ IsNat(B) /\ IsNat(C) /\ IsNat(M)
Agree1 ==
  \* (1) accelerator = pure definition, full size, for the division-free operators
  /\ Cmp(A, B) = PCmp(A, B)
  /\ Lt(A, B) = (PCmp(A, B) < 0) /\ Le(A, B) = (PCmp(A, B) <= 0)
  /\ Add(A, B) = PAdd(A, B)
  /\ Sub(Hi, Lo) = PSub(Hi, Lo)
  /\ Mul(A, B) = PMul(A, B)
  /\ BitLen(A) = PBitLen(A)
  /\ \A k \in {0, 1, 14, 15, 16, 29, 30, 44, 45, 100, 254, 255, 256} : Bit(A, k) = PBit(A, k)
  /\ Shl(A, i % 40) = PMul(A, PowTwo(i % 40))
Agree2 ==
  \* (2) accelerator = pure definition on small operands for the division-based operators
  /\ (Bs # <<>> => Div(As, Bs) = PDiv(As, Bs) /\ Mod(As, Bs) = PMod(As, Bs))
  /\ AddMod(As, Bs, Ms) = PAddMod(As, Bs, Ms)
  /\ SubMod(As, Bs, Ms) = PSubMod(As, Bs, Ms)
  /\ MulMod(As, Bs, Ms) = PMulMod(As, Bs, Ms)
  /\ PowMod(As, SmallE, Ms) = PPowMod(As, SmallE, Ms)
  /\ Shr(As, i % 40) = PShrR(As, i % 40)
  /\ ToBytesLE(As, 9) = PToBytesLER(As, 9) /\ ToBytesBE(As, 9) = Reverse(PToBytesLER(As, 9))
  /\ FromBytesBE(ToBytesBE(As, 9)) = PFromBytesBE(ToBytesBE(As, 9))
Agree3 ==
  \* (3) full-size division-based operators, by their defining identities evaluated with the
  \*     pure division-free operators (PMul, PAdd, PCmp, PSub)
  /\ (B # <<>> => LET q == Div(A, B)  r == Mod(A, B)
                  IN IsNat(q) /\ IsNat(r) /\ PAdd(PMul(q, B), r) = A /\ PCmp(r, B) < 0)
  /\ LET r == MulMod(A, B, M)  q == Div(PMul(A, B), M)
     IN IsNat(r) /\ PAdd(PMul(q, M), r) = PMul(A, B) /\ PCmp(r, M) < 0
  /\ LET r == AddMod(A, B, M)  q == Div(PAdd(A, B), M)
     IN PAdd(PMul(q, M), r) = PAdd(A, B) /\ PCmp(r, M) < 0
  /\ LET r == SubMod(A, B, M) IN PCmp(r, M) < 0 /\ AddMod(r, B, M) = Mod(A, M)
  /\ PowMod(A, SmallE, M) = NaivePow(A, PToInt(SmallE), M)
  /\ PowMod(A, PAdd(B, C), M) = MulMod(PowMod(A, B, M), PowMod(A, C, M), M)
  /\ LET k == i % 40  s == Shr(A, k)  low == PSub(A, PMul(s, PowTwo(k)))
     IN IsNat(s) /\ PCmp(PMul(s, PowTwo(k)), A) <= 0 /\ PCmp(low, PowTwo(k)) < 0
  /\ LET bs == ToBytesBE(A, 100)
     IN /\ FromBytesBE(bs) = A /\ FromBytesLE(Reverse(bs)) = A /\ ToBytesLE(A, 100) = Reverse(bs)
        /\ PFromBytesBE(bs) = A
Agree4 ==
  \* (4) sanity of the pure definitions themselves
  /\ PSub(PAdd(A, B), B) = A
  /\ (Bs # <<>> => PAdd(PMul(PDiv(As, Bs), Bs), PMod(As, Bs)) = As /\ PCmp(PMod(As, Bs), Bs) < 0)
  /\ PMul(A, PAdd(B, C)) = PAdd(PMul(A, B), PMul(A, C))
Agree5 ==
  \* (5) prime moduli: inverse law (0 |-> 0), accelerator vs Fermat definition on small primes
  /\ LET p == Mods[(i % 3) + 1]  x == Mod(A, p)
     IN /\ InvMod(A, p) = PInvMod(x, p)
        /\ (x # <<>> => MulMod(x, InvMod(x, p), p) = One)
        /\ (x = <<>> => InvMod(x, p) = <<>>)
  /\ (Len(A) <= 2 => FromInt(ToInt(A)) = A /\ ToInt(A) = PToInt(A) /\ PFromInt(PToInt(A)) = A)

Agree == Agree0 /\ Agree1 /\ Agree2 /\ Agree3 /\ Agree4 /\ Agree5
=============================================================================
