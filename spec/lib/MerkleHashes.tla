---------------------------- MODULE MerkleHashes ----------------------------
(* The hash primitives the Merkle trees of C16 are instantiated with, as      *)
(* mathematical definitions over BigNat values (no gnark-crypto code is       *)
(* involved in evaluating them):                                              *)
(*   MiMCBytes     MiMC-x^5 block cipher in Miyaguchi-Preneel mode over F_q    *)
(*                 (gnark-crypto ecc/<curve>/fr/mimc), on byte strings         *)
(*   P2Perm16      Poseidon2 permutation, width 16, S-box x^3, external        *)
(*                 matrix circ(2M4,M4,M4,M4), internal matrix J + diag(V)      *)
(*                 (KoalaBear parameters of Plonky3 / gnark-crypto)            *)
(*   P2Compress    the Vortex 2-to-1 compression: first 8 lanes of            *)
(*                 P2Perm16(a \o b)                                            *)
(* Round constants are parameters (the harness derives them with              *)
(* x/crypto/sha3 directly from the documented seeds and passes them in the    *)
(* trace header).  Byte strings are sequences of 0..255.                      *)
EXTENDS PrimeField, HashOps

\* a mod m.  (BigNat!Mod is not accelerated - TLC binds the Java method name Mod to the operator % -
\* so the reduction goes through the accelerated AddMod.)
Red(a, m) == AddMod(a, Zero, m)

\* ---------------------------------------------------------------- MiMC ----
\* E_k(m): for every round constant c: m <- (m + k + c)^5 ; finally m + k
RECURSIVE MiMCEncR(_,_,_,_,_)
MiMCEncR(q, rc, k, m, i) ==
  IF i > Len(rc) THEN AddMod(m, k, q)
  ELSE LET t  == AddMod(Add(m, k), rc[i], q)
           t2 == MulMod(t, t, q)
           t4 == MulMod(t2, t2, q)
       IN MiMCEncR(q, rc, k, MulMod(t4, t, q), i + 1)
MiMCEnc(q, rc, k, m) == MiMCEncR(q, rc, k, m, 1)

\* Miyaguchi-Preneel chaining over a sequence of field elements, h0 = 0
RECURSIVE MiMCChainR(_,_,_,_,_)
MiMCChainR(q, rc, ms, i, h) ==
  IF i > Len(ms) THEN h
  ELSE MiMCChainR(q, rc, ms, i + 1, AddMod(Add(MiMCEnc(q, rc, h, ms[i]), h), ms[i], q))
MiMCElems(q, rc, ms) == MiMCChainR(q, rc, ms, 1, Zero)

SubBytes(s, a, b) == [i \in 1..(b - a + 1) |-> s[a + i - 1]]      \* s[a..b]
\* blocks of nb bytes, big endian; the input length must be a multiple of nb
Blocks(s, nb) == [j \in 1..(Len(s) \div nb) |-> FromBytesBE(SubBytes(s, (j-1)*nb + 1, j*nb))]
\* well-formed input of the byte-oriented MiMC: whole blocks, each a canonical element
MiMCInputOK(q, nb, s) == Len(s) % nb = 0 /\ \A j \in 1..(Len(s) \div nb) : Lt(Blocks(s, nb)[j], q)
MiMCBytes(q, nb, rc, s) == ToBytesBE(MiMCElems(q, rc, Blocks(s, nb)), nb)

\* ----------------------------------------------------------- Poseidon2 ----
\* state: sequence of 16 elements of F_p
M4 == << <<2,3,1,1>>, <<1,2,3,1>>, <<1,1,2,3>>, <<3,1,1,2>> >>
SmallMul(x, k) == IF k = 1 THEN x ELSE IF k = 2 THEN Add(x, x) ELSE Add(Add(x, x), x)
\* y = diag(M4,M4,M4,M4) * s  (not reduced), then out[4i+j] = y[4i+j] + sum_k y[4k+j]
P2MatExt(p, s) ==
  LET y == [n \in 1..16 |->
              LET b == 4 * ((n - 1) \div 4)   r == M4[((n - 1) % 4) + 1]
              IN Add(Add(SmallMul(s[b+1], r[1]), SmallMul(s[b+2], r[2])),
                     Add(SmallMul(s[b+3], r[3]), SmallMul(s[b+4], r[4])))] \o <<>>
      c == [j \in 1..4 |-> Add(Add(y[j], y[4 + j]), Add(y[8 + j], y[12 + j]))] \o <<>>
  IN [n \in 1..16 |-> Red(Add(y[n], c[((n - 1) % 4) + 1]), p)] \o <<>>

\* diagonal of the internal matrix minus the all-ones matrix (KoalaBear, width 16):
\* [-2, 1, 2, 1/2, 3, 4, -1/2, -3, -4, 1/2^8, 1/8, 1/2^24, -1/2^8, -1/8, -1/16, -1/2^24]
P2Diag16(p) ==
  LET inv(k) == InvMod(Shl(One, k), p)  neg(x) == SubMod(Zero, x, p)
  IN << neg(Two), One, Two, inv(1), FromInt(3), FromInt(4), neg(inv(1)), neg(FromInt(3)), neg(FromInt(4)),
        inv(8), inv(3), inv(24), neg(inv(8)), neg(inv(3)), neg(inv(4)), neg(inv(24)) >>
RECURSIVE SumSeq(_,_)
SumSeq(s, i) == IF i > Len(s) THEN Zero ELSE Add(s[i], SumSeq(s, i + 1))
P2MatInt(p, dg, s) ==
  LET sum == SumSeq(s, 1)
  IN [n \in 1..16 |-> Red(Add(sum, Mul(dg[n], s[n])), p)] \o <<>>

Cube(p, x) == MulMod(MulMod(x, x, p), x, p)
P2Full(p, rk, s) == P2MatExt(p, [n \in 1..16 |-> Cube(p, AddMod(s[n], rk[n], p))] \o <<>>)
P2Partial(p, dg, rk, s) ==
  P2MatInt(p, dg, [n \in 1..16 |-> IF n = 1 THEN Cube(p, AddMod(s[1], rk[1], p)) ELSE s[n]] \o <<>>)

\* rks: sequence of rF + rP round-key vectors (BigNat): full rounds carry 16 keys, partial rounds 1
RECURSIVE P2Rounds(_,_,_,_,_,_)
P2Rounds(p, dg, rks, half, i, s) ==
  IF i > Len(rks) THEN s
  ELSE P2Rounds(p, dg, rks, half, i + 1,
                IF i <= half \/ i > Len(rks) - half THEN P2Full(p, rks[i], s) ELSE P2Partial(p, dg, rks[i], s))
\* rF = 2*half full rounds
P2Perm16(p, dg, rks, half, s) == P2Rounds(p, dg, rks, half, 1, P2MatExt(p, s))
P2Compress(p, dg, rks, half, a, b) == SubBytes(P2Perm16(p, dg, rks, half, a \o b), 1, 8) \o <<>>
=============================================================================
