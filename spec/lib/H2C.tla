--------------------------------- MODULE H2C ---------------------------------
(* RFC 9380 "Hashing to Elliptic Curves" as mathematical definitions (no state):  *)
(*   section 5.3.1  expand_message_xmd over SHA-256 (HashOps!SHA256, the JDK)      *)
(*   section 5.2    hash_to_field, L = ceil((ceil(log2 p) + 128) / 8)              *)
(*   section 4.1    sgn0 (C13FieldExt!TSgn0), inv0 (Tower!TInv maps 0 to 0)        *)
(*   section 6.6.1  Shallue - van de Woestijne map, constants derived from Z       *)
(*   section 6.6.2  simplified SWU map on y^2 = x^3 + A x + B, A B # 0             *)
(*   section 6.6.3 / appendix E   isogeny map as a pair of rational functions      *)
(*   section 7      clear_cofactor(P) = [h_eff]P                                   *)
(*   section 3      encode_to_curve / hash_to_curve                                *)
(* Everything is the NON-straight-line text of the RFC: it is the definition the   *)
(* constant-time straight-line code of the library is judged against (and against  *)
(* which MCHashToCurve checks the straight-line programs of appendix F for every   *)
(* input of small fields).                                                         *)
(* Field elements of level k are Tower.tla values; a curve is a Weierstrass.tla    *)
(* record [F, k, a, b]; points are Inf / Pt(x, y).                                 *)
EXTENDS C13FieldExt, Weierstrass, HashOps
LOCAL INSTANCE Bitwise

-----------------------------------------------------------------------------
(* expand_message_xmd, H = SHA-256: b_in_bytes = 32, s_in_bytes = 64 *)

Ceil(a, b) == (a + b - 1) \div b
BInBytes == 32
I2OSP2(n) == <<(n \div 256) % 256, n % 256>>
XorBytes(a, b) == [i \in 1..Len(a) |-> a[i] ^^ b[i]] \o <<>>
ZPad == [i \in 1..64 |-> 0] \o <<>>

\* "ABORT if ell > 255 or len_in_bytes > 65535 or len(DST) > 255"
XmdAborts(dst, len) == Ceil(len, BInBytes) > 255 \/ len > 65535 \/ Len(dst) > 255

\* <<b_1, ..., b_max(ell,1)>>
XmdBlocks(msg, dst, len) ==
  LET ell == Ceil(len, BInBytes)
      dstp == dst \o <<Len(dst)>>                                             \* DST_prime
      b0 == SHA256(ZPad \o msg \o I2OSP2(len) \o <<0>> \o dstp)
      b1 == SHA256(b0 \o <<1>> \o dstp)
  IN FoldLeft(LAMBDA acc, i : Append(acc, SHA256(XorBytes(b0, acc[i-1]) \o <<i>> \o dstp)),
              <<b1>>, [i \in 1..(IF ell > 1 THEN ell - 1 ELSE 0) |-> i + 1])

\* uniform_bytes (defined when ~XmdAborts)
Xmd(msg, dst, len) == SubSeq(FlattenSeq(XmdBlocks(msg, dst, len)), 1, len)

-----------------------------------------------------------------------------
(* hash_to_field for a prime field of `bits` bits: count elements *)

H2FL(bits) == 16 + Ceil(bits, 8)
H2FAborts(bits, dst, count) == XmdAborts(dst, count * H2FL(bits))
HashToField(q, bits, msg, dst, count) ==
  LET L == H2FL(bits)
      ub == Xmd(msg, dst, count * L)
  IN [i \in 1..count |-> Rem(FromBytesBE(SubSeq(ub, (i-1) * L + 1, i * L)), q)] \o <<>>

\* element of level k from a flat sequence of prime-field coordinates starting at index i (tower order)
RECURSIVE FromFlat(_,_,_,_)
FromFlat(F, k, s, i) ==
  IF k = 0 THEN s[i]
  ELSE LET d == TDegree(F, k-1)
       IN [j \in 1..Deg(F, k) |-> FromFlat(F, k-1, s, i + (j-1) * d)] \o <<>>
RECURSIVE ToFlat(_,_,_)
ToFlat(F, k, a) == IF k = 0 THEN <<a>> ELSE FlattenSeq([j \in 1..Deg(F, k) |-> ToFlat(F, k-1, a[j])])

\* n elements of the level-k field from msg: u_i = (e_(m i), ..., e_(m i + m - 1))
HashToFieldExt(F, k, bits, msg, dst, n) ==
  LET m == TDegree(F, k)
      e == HashToField(F.q, bits, msg, dst, n * m)
  IN [i \in 1..n |-> FromFlat(F, k, e, (i-1) * m + 1)] \o <<>>

-----------------------------------------------------------------------------
(* maps.  C: curve record; all arithmetic in (C.F, C.k) *)

hM(C, a, b) == TMul(C.F, C.k, a, b)
hA(C, a, b) == TAdd(C.F, C.k, a, b)
hS(C, a, b) == TSub(C.F, C.k, a, b)
hN(C, a) == TNeg(C.F, C.k, a)
hD(C, a, b) == TDiv(C.F, C.k, a, b)
hI0(C, a) == TInv(C.F, C.k, a)                      \* inv0
hSq(C, a) == TMul(C.F, C.k, a, a)
hE(C, n) == TEmbed(C.F, C.k, FromInt(n))
hZ0(C) == TZero(C.F, C.k)
hIsSq(C, a) == TIsSq(C.F, C.k, a)                    \* is_square (0 is a square)
hRt(C, a) == TSqrt(C.F, C.k, a)
Sgn0(C, a) == TSgn0(C.F, C.k, a)

\* g(x) = x^3 + a x + b
GX(C, x) == hA(C, hA(C, hM(C, hSq(C, x), x), hM(C, C.a, x)), C.b)

\* y = sqrt(g(x)) with the sign of u: "If sgn0(u) != sgn0(y), set y = -y"
WithSign(C, u, x) == LET y == hRt(C, GX(C, x))
                     IN Pt(x, IF Sgn0(C, u) # Sgn0(C, y) THEN hN(C, y) ELSE y)

\* --- Shallue - van de Woestijne (6.6.1).  Constants of appendix F.1 from Z:
\*   c1 = g(Z), c2 = -Z/2, c3 = sqrt(-g(Z) (3 Z^2 + 4 A)) with sgn0(c3) = 0, c4 = -4 g(Z) / (3 Z^2 + 4 A)
SvdwConsts(C, Z) ==
  LET gz == GX(C, Z)
      h == hA(C, hM(C, hE(C, 3), hSq(C, Z)), hM(C, hE(C, 4), C.a))
      r == hRt(C, hN(C, hM(C, gz, h)))
  IN [c1 |-> gz,
      c2 |-> hD(C, hN(C, Z), hE(C, 2)),
      c3 |-> IF Sgn0(C, r) = 1 THEN hN(C, r) ELSE r,
      c4 |-> hD(C, hN(C, hM(C, hE(C, 4), gz)), h)]

\* conditions on Z (6.6.1): g(Z) # 0; -(3Z^2+4A)/(4g(Z)) # 0 and square; g(Z) or g(-Z/2) square
SvdwZOk(C, Z) ==
  LET gz == GX(C, Z)
      h == hA(C, hM(C, hE(C, 3), hSq(C, Z)), hM(C, hE(C, 4), C.a))
      t == hD(C, hN(C, h), hM(C, hE(C, 4), gz))
  IN /\ gz # hZ0(C)
     /\ t # hZ0(C) /\ hIsSq(C, t)
     /\ (hIsSq(C, gz) \/ hIsSq(C, GX(C, hD(C, hN(C, Z), hE(C, 2)))))

\* the three candidate abscissas and the selected one; K == SvdwConsts(C, Z)
SvdwCandidates(C, Z, K, u) ==
  LET tv1a == hM(C, hSq(C, u), K.c1)
      tv2 == hA(C, hE(C, 1), tv1a)
      tv1 == hS(C, hE(C, 1), tv1a)
      tv3 == hI0(C, hM(C, tv1, tv2))
      tv5 == hM(C, hM(C, hM(C, u, tv1), tv3), K.c3)
  IN [x1 |-> hS(C, K.c2, tv5),
      x2 |-> hA(C, K.c2, tv5),
      x3 |-> hA(C, Z, hM(C, K.c4, hSq(C, hM(C, hSq(C, tv2), tv3)))),
      exceptional |-> hM(C, tv1, tv2) = hZ0(C)]
SvdwX(C, Z, K, u) ==
  LET c == SvdwCandidates(C, Z, K, u)
  IN IF hIsSq(C, GX(C, c.x1)) THEN c.x1 ELSE IF hIsSq(C, GX(C, c.x2)) THEN c.x2 ELSE c.x3
MapSvdw(C, Z, K, u) == WithSign(C, u, SvdwX(C, Z, K, u))

\* --- simplified SWU (6.6.2) on C (A # 0, B # 0)
SswuZOk(C, Z) ==
  /\ ~hIsSq(C, Z) /\ Z # hN(C, hE(C, 1))
  /\ C.a # hZ0(C) /\ C.b # hZ0(C)
  /\ hIsSq(C, GX(C, hD(C, C.b, hM(C, Z, C.a))))
SswuParts(C, Z, u) ==
  LET zu2 == hM(C, Z, hSq(C, u))
      tv1 == hI0(C, hA(C, hSq(C, zu2), zu2))
      x1 == IF tv1 = hZ0(C) THEN hD(C, C.b, hM(C, Z, C.a))
            ELSE hM(C, hD(C, hN(C, C.b), C.a), hA(C, hE(C, 1), tv1))
  IN [x1 |-> x1, x2 |-> hM(C, zu2, x1), exceptional |-> tv1 = hZ0(C)]
SswuX(C, Z, u) == LET p == SswuParts(C, Z, u) IN IF hIsSq(C, GX(C, p.x1)) THEN p.x1 ELSE p.x2
MapSswu(C, Z, u) == WithSign(C, u, SswuX(C, Z, u))

\* --- isogeny map (x', y') |-> (xn(x')/xd(x'), y' yn(x')/yd(x')); coefficients by increasing degree,
\* denominators monic with the leading 1 omitted; a zero denominator maps to the identity (6.6.3)
PolyEval(C, coefs, monic, x) ==
  FoldLeft(LAMBDA acc, i : hA(C, hM(C, acc, x), coefs[i]),
           IF monic THEN hE(C, 1) ELSE hZ0(C), [j \in 1..Len(coefs) |-> Len(coefs) + 1 - j])
IsoMap(C, iso, P) ==
  IF P.inf THEN Inf
  ELSE LET xd == PolyEval(C, iso.xd, TRUE, P.x)
           yd == PolyEval(C, iso.yd, TRUE, P.x)
       IN IF xd = hZ0(C) \/ yd = hZ0(C) THEN Inf
          ELSE Pt(hD(C, PolyEval(C, iso.xn, FALSE, P.x), xd),
                  hM(C, P.y, hD(C, PolyEval(C, iso.yn, FALSE, P.x), yd)))

-----------------------------------------------------------------------------
(* A suite S (built by the users of this module):                                  *)
(*   C      target curve            r     order of the subgroup                    *)
(*   map    "svdw" | "sswu"         Z     constant of the map                      *)
(*   K      SvdwConsts (svdw)       E1    curve the SSWU map lands on (sswu)       *)
(*   hasiso, iso                    heff  [neg, mag]                               *)
(*   bits   of the base prime                                                      *)
MapToCurve(S, u) == IF S.map = "svdw" THEN MapSvdw(S.C, S.Z, S.K, u) ELSE MapSswu(S.E1, S.Z, u)
MapExceptional(S, u) == IF S.map = "svdw" THEN SvdwCandidates(S.C, S.Z, S.K, u).exceptional
                        ELSE SswuParts(S.E1, S.Z, u).exceptional
\* the curve MapToCurve lands on
MapCurve(S) == IF S.map = "svdw" THEN S.C ELSE S.E1
\* map_to_curve of the RFC: including the isogeny
MapToE(S, u) == IF S.hasiso THEN IsoMap(S.C, S.iso, MapToCurve(S, u)) ELSE MapToCurve(S, u)
ClearCofactor(S, P) == WMul(S.C, S.heff, P)
MapToGroup(S, u) == ClearCofactor(S, MapToE(S, u))
Us(S, msg, dst, n) == HashToFieldExt(S.C.F, S.C.k, S.bits, msg, dst, n)
EncodeToCurve(S, msg, dst) == MapToGroup(S, Us(S, msg, dst, 1)[1])
HashToCurve(S, msg, dst) == LET u == Us(S, msg, dst, 2)
                            IN ClearCofactor(S, WAdd(S.C, MapToE(S, u[1]), MapToE(S, u[2])))
H2CAborts(S, dst, n) == H2FAborts(S.bits, dst, n * TDegree(S.C.F, S.C.k))
InGroup(S, P) == WOnCurve(S.C, P) /\ WMulNat(S.C, S.r, P) = Inf
=============================================================================
