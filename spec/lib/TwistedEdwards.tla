---------------------------- MODULE TwistedEdwards ----------------------------
(* Twisted Edwards curves  a x^2 + y^2 = 1 + d x^2 y^2  over a prime field,    *)
(* with the unified affine addition law.  E == [q, a, d]; a point is a record  *)
(* [x, y]; the identity is (0,1).  Projective (X:Y:Z) and extended             *)
(* (X:Y:T:Z, T = XY/Z) representations project by division by Z.               *)
EXTENDS BigNat, SequencesExt

LOCAL M(E, u, v) == MulMod(u, v, E.q)
LOCAL A(E, u, v) == AddMod(u, v, E.q)
LOCAL S(E, u, v) == SubMod(u, v, E.q)
LOCAL I(E, u)    == InvMod(u, E.q)

EId == [x |-> Zero, y |-> One]
EOnCurve(E, P) ==
  LET xx == M(E, P.x, P.x)  yy == M(E, P.y, P.y)
  IN A(E, M(E, E.a, xx), yy) = A(E, One, M(E, E.d, M(E, xx, yy)))
EAdd(E, P, Q) ==
  LET x1y2 == M(E, P.x, Q.y)  y1x2 == M(E, P.y, Q.x)
      y1y2 == M(E, P.y, Q.y)  x1x2 == M(E, P.x, Q.x)
      t == M(E, E.d, M(E, x1x2, y1y2))
  IN [x |-> M(E, A(E, x1y2, y1x2), I(E, A(E, One, t))),
      y |-> M(E, S(E, y1y2, M(E, E.a, x1x2)), I(E, S(E, One, t)))]
ENeg(E, P) == [x |-> S(E, Zero, P.x), y |-> P.y]
EDouble(E, P) == EAdd(E, P, P)
EMulNat(E, e, P) ==
  FoldLeft(LAMBDA acc, i : LET d == EAdd(E, acc, acc)
                           IN IF Bit(e, i) = 1 THEN EAdd(E, d, P) ELSE d,
           EId, [j \in 1..BitLen(e) |-> BitLen(e) - j])
EMul(E, z, P) == IF z.neg THEN ENeg(E, EMulNat(E, z.mag, P)) ELSE EMulNat(E, z.mag, P)
AffOfEProj(E, p) == LET zi == I(E, p.Z) IN [x |-> M(E, p.X, zi), y |-> M(E, p.Y, zi)]
\* extended coordinates are consistent when T*Z = X*Y
EExtConsistent(E, p) == M(E, p.T, p.Z) = M(E, p.X, p.Y)
=============================================================================
