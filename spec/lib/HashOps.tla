------------------------------- MODULE HashOps -------------------------------
(* Standard byte-oriented hash functions as uninterpreted operators, realised  *)
(* by the JDK (java.security.MessageDigest) through the TLC module override    *)
(* accel/tlc2/module/HashOps.java.  Byte strings are sequences of 0..255.      *)
(* Without the accelerator on the classpath these operators cannot be          *)
(* evaluated (TLC reports the CHOOSE below) - they are never model-checked     *)
(* symbolically, only evaluated on concrete recorded bytes.                    *)
EXTENDS Naturals, Sequences

SHA256(bytes) == CHOOSE d \in Seq(0..255) : FALSE     \* 32-byte digest (override)
SHA512(bytes) == CHOOSE d \in Seq(0..255) : FALSE     \* 64-byte digest (override)
SHA3x256(bytes) == CHOOSE d \in Seq(0..255) : FALSE   \* FIPS-202 SHA3-256 (override)
=============================================================================
