----------------------------- MODULE PrimeField -----------------------------
(* Arithmetic of the prime field F_q on BigNat values in [0,q): the           *)
(* mathematical definition every field entry point is judged against.        *)
(* q is passed explicitly so that one TLC run can serve several fields.       *)
EXTENDS BigNat, SequencesExt

InField(q, a) == IsNat(a) /\ Lt(a, q)

FAdd(q, a, b) == AddMod(a, b, q)
FSub(q, a, b) == SubMod(a, b, q)
FNeg(q, a)    == SubMod(Zero, a, q)
FMul(q, a, b) == MulMod(a, b, q)
FSquare(q, a) == MulMod(a, a, q)
FDouble(q, a) == AddMod(a, a, q)
FInv(q, a)    == InvMod(a, q)                       \* 0 |-> 0
FDiv(q, a, b) == MulMod(a, InvMod(b, q), q)         \* a/0 = 0
FHalve(q, a)  == MulMod(a, InvMod(Two, q), q)
FMulSmall(q, a, k) == MulMod(a, FromInt(k), q)
\* x^k for k in Z given as [neg, mag]; 0^0 = 1, 0^(-k) = 0 because Inv(0) = 0
FExp(q, a, z) == IF z.neg THEN PowMod(InvMod(a, q), z.mag, q) ELSE PowMod(a, z.mag, q)
FExpNat(q, a, e) == PowMod(a, e, q)

QHalf(q) == Shr(Pred(q), 1)                          \* (q-1)/2
FLegendre(q, a) == IF a = Zero THEN 0
                   ELSE IF PowMod(a, QHalf(q), q) = One THEN 1 ELSE -1
FIsSquare(q, a) == FLegendre(q, a) # -1               \* Euler criterion (q odd prime)
FCmp(a, b) == Cmp(a, b)                               \* order of the canonical representatives
FLexLargest(q, a) == Cmp(a, QHalf(q)) > 0

\* Montgomery representation: raw = a * R mod q
FromMont(q, R, raw) == MulMod(raw, InvMod(Mod(R, q), q), q)
ToMont(q, R, a)     == MulMod(a, Mod(R, q), q)

\* pure definitions used by the small-constant model checking (no accelerator needed)
FSum(q, s) == FoldLeft(LAMBDA acc, x : FAdd(q, acc, x), Zero, s)
FDot(q, s, t) == FoldLeft(LAMBDA acc, i : FAdd(q, acc, FMul(q, s[i], t[i])), Zero, [i \in 1..Len(s) |-> i])
=============================================================================
