----------------------------- MODULE TowerCyclo -----------------------------
(* Extension of Tower.tla for property C06:                                     *)
(*  (1) Frobenius through the table  X_k^p  (one generic exponentiation per     *)
(*      level, then coefficient-wise): the ring-homomorphism form of x |-> x^p. *)
(*      MCTowerMachine checks TFrobX = TExp(.., q) on every reachable element.  *)
(*  (2) the order-2 automorphism ("conjugation") of any level of even degree,   *)
(*      membership in the cyclotomic subgroup G_{Phi_n(p)}, n = 6m.             *)
(*  (3) elements of a level built as quadratic-over-cubic (E12 = E6[w], E6 =    *)
(*      E2[v]; E24 = E12[i], E12 = E4[w]; BW6: E6 = E3[v], E3 = Fp[u]) seen as   *)
(*      six coordinates g0..g5 over the base level b = k-2, in the library's    *)
(*      naming:  x = (g0 + g1 v + g2 v^2) + (g3 + g4 v + g5 v^2) w.             *)
(*  (4) TRANSCRIPTIONS of the library's specialised routines on such elements:  *)
(*      Granger-Scott cyclotomic square, Karabina compressed square and          *)
(*      decompression (documented variant and the variants found in the code),  *)
(*      Rubin-Silverberg torus compression, sparse line products.  They are     *)
(*      compared with the generic operators by MCTowerMachine on whole          *)
(*      cyclotomic subgroups at small p; the trace specification judges the     *)
(*      real code with the GENERIC operators only.                              *)
EXTENDS Tower

\* ---------------------------------------------------------------------------
\* (1) Frobenius
XPowTable(F) == [k \in 1..Len(F.T) |-> TExp(F, k, TGen(F, k), F.q)] \o <<>>     \* xp[k] = X_k^p
Up(F, k, c) == <<c>> \o [i \in 1..(Deg(F,k)-1) |-> TZero(F, k-1)]               \* level k-1 -> level k

RECURSIVE TFrobX(_,_,_,_)
TFrobX(F, xp, k, a) ==
  IF k = 0 THEN a
  ELSE LET X1 == xp[k]
           c1 == TFrobX(F, xp, k-1, a[1])
           c2 == TFrobX(F, xp, k-1, a[2])
           s2 == TAdd(F, k, Up(F, k, c1), TScale(F, k, X1, c2))
       IN IF Deg(F, k) = 2 THEN s2
          ELSE TAdd(F, k, s2, TScale(F, k, TMul(F, k, X1, X1), TFrobX(F, xp, k-1, a[3])))
RECURSIVE TFrobXN(_,_,_,_,_)
TFrobXN(F, xp, k, a, n) == IF n = 0 THEN a ELSE TFrobXN(F, xp, k, TFrobX(F, xp, k, a), n-1)

\* p^n as a BigNat
RECURSIVE QPow(_,_)
QPow(q, n) == IF n = 0 THEN One ELSE Mul(q, QPow(q, n-1))

\* ---------------------------------------------------------------------------
\* (2) conjugation = x^(p^(n/2)), n = [level k : F_p]; for a quadratic level it is X |-> -X
ConjX(F, xp, k, a) == IF Deg(F, k) = 2 THEN TConj(F, k, a) ELSE TFrobXN(F, xp, k, a, TDegree(F, k) \div 2)
\* cyclotomic subgroup of a level of degree n = 6m: x # 0 and x^(p^2m - p^m + 1) = 1
InCyclo(F, xp, k, a) ==
  LET m == TDegree(F, k) \div 6
      fm == TFrobXN(F, xp, k, a, m)
      f2m == TFrobXN(F, xp, k, fm, m)
  IN a # TZero(F, k) /\ TMul(F, k, f2m, a) = fm
PhiN(F, k) == LET m == TDegree(F, k) \div 6 IN Succ(Sub(QPow(F.q, 2*m), QPow(F.q, m)))
\* Legendre symbol in F_{p^n}
LegendreX(F, k, a) ==
  IF a = TZero(F, k) THEN 0
  ELSE IF TExp(F, k, a, Shr(Pred(QPow(F.q, TDegree(F, k))), 1)) = TOne(F, k) THEN 1 ELSE -1
\* lexicographic comparison, most significant coordinate first (as TLexLargest)
RECURSIVE TCmp(_,_,_,_)
TCmp(F, k, a, b) ==
  IF k = 0 THEN Cmp(a, b)
  ELSE LET D == {i \in 1..Deg(F,k) : a[i] # b[i]}
       IN IF D = {} THEN 0 ELSE TCmp(F, k-1, a[CHOOSE i \in D : \A j \in D : j <= i], b[CHOOSE i \in D : \A j \in D : j <= i])
\* the element by which the library's MulByNonResidue of level k multiplies: the non-residue defining level k+1,
\* documented as (0,1[,0]) = X_k for the top level of a tower
NonRes(F, k) == IF k < Len(F.T) THEN Nr(F, k+1) ELSE TGen(F, k)

\* ---------------------------------------------------------------------------
\* (3) six coordinates over the base level b = k-2 (level k quadratic over level k-1 cubic)
G(x, i) == x[(i \div 3) + 1][(i % 3) + 1]                     \* i in 0..5
S6(s) == << <<s[1], s[2], s[3]>>, <<s[4], s[5], s[6]>> >>     \* s = <<g0, ..., g5>>
Coords(x) == <<x[1][1], x[1][2], x[1][3], x[2][1], x[2][2], x[2][3]>>
Is23(F, k) == k >= 2 /\ Deg(F, k) = 2 /\ Deg(F, k-1) = 3

\* ---------------------------------------------------------------------------
\* (4) transcriptions.  B = base level arithmetic, E(.) = multiplication by the cubic non-residue
GrangerScott(F, k, x) ==
  LET b == k - 2
      M(u, v) == TMul(F, b, u, v)   A(u, v) == TAdd(F, b, u, v)   Sb(u, v) == TSub(F, b, u, v)
      D(u) == TAdd(F, b, u, u)      E(u) == TMul(F, b, Nr(F, k-1), u)
      T3m2(t, g) == A(D(Sb(t, g)), t)             \* 3t - 2g   (Sub, Double, Add as in the code)
      T3p2(t, g) == A(D(A(t, g)), t)              \* 3t + 2g
      g0 == G(x,0)  g1 == G(x,1)  g2 == G(x,2)  g3 == G(x,3)  g4 == G(x,4)  g5 == G(x,5)
      t6 == Sb(Sb(M(A(g4, g0), A(g4, g0)), M(g4, g4)), M(g0, g0))        \* 2 g4 g0
      t7 == Sb(Sb(M(A(g2, g3), A(g2, g3)), M(g2, g2)), M(g3, g3))        \* 2 g2 g3
      t8 == E(Sb(Sb(M(A(g5, g1), A(g5, g1)), M(g5, g5)), M(g1, g1)))     \* 2 g5 g1 E
      t0 == A(E(M(g4, g4)), M(g0, g0))
      t2 == A(E(M(g2, g2)), M(g3, g3))
      t4 == A(E(M(g5, g5)), M(g1, g1))
  IN S6(<<T3m2(t0, g0), T3m2(t2, g1), T3m2(t4, g2), T3p2(t8, g3), T3p2(t6, g4), T3p2(t7, g5)>>)

\* Karabina: the four coordinates (g1, g2, g3, g5) of x^2 from those of x; returned as <<z1, z2, z3, z5>>
KarabinaSquare(F, k, x) ==
  LET b == k - 2
      M(u, v) == TMul(F, b, u, v)   A(u, v) == TAdd(F, b, u, v)   Sb(u, v) == TSub(F, b, u, v)
      D(u) == TAdd(F, b, u, u)      E(u) == TMul(F, b, Nr(F, k-1), u)
      g1 == G(x,1)  g2 == G(x,2)  g3 == G(x,3)  g5 == G(x,5)
      t0 == M(g1, g1)   t1 == M(g5, g5)
      t5a == Sb(M(A(g1, g5), A(g1, g5)), A(t0, t1))       \* 2 g1 g5
      t3 == M(A(g3, g2), A(g3, g2))
      t2 == M(g3, g3)
      t6a == E(t5a)
      z3 == A(D(A(t6a, g3)), t6a)                          \* 6 E g1 g5 + 2 g3
      t5b == A(t0, E(t1))                                  \* E g5^2 + g1^2
      z2 == A(D(Sb(t5b, g2)), t5b)
      t1b == M(g2, g2)
      t5c == A(t2, E(t1b))                                 \* g3^2 + E g2^2
      z1 == A(D(Sb(t5c, g1)), t5c)
      t5d == Sb(t3, A(t2, t1b))                            \* 2 g3 g2
      z5 == A(t5d, D(A(t5d, g5)))
  IN <<z1, z2, z3, z5>>

\* Decompression of (g1, g2, g3, g5); the input x carries arbitrary values in its g0 and g4 slots.
\* variant "doc"     : the branch is taken on g3 (C1.B0), as the doc comment states          (E24, BW6 code)
\* variant "e12code" : the branch is taken on g5 (C1.B2), as ecc/*/internal/fptower/e12.go does
\* variant "bw6sep"  : "doc", but g0 is computed from the INPUT's g4 slot (ecc/bw6-*/e6.go when z and x differ)
KarabinaDecompress(F, k, x, variant) ==
  LET b == k - 2
      M(u, v) == TMul(F, b, u, v)   A(u, v) == TAdd(F, b, u, v)   Sb(u, v) == TSub(F, b, u, v)
      D(u) == TAdd(F, b, u, u)      E(u) == TMul(F, b, Nr(F, k-1), u)
      Z == TZero(F, b)
      g1 == G(x,1)  g2 == G(x,2)  g3 == G(x,3)  g5 == G(x,5)
      degenerate == IF variant = "e12code" THEN g5 = Z ELSE g3 = Z
      num == IF degenerate THEN D(M(g1, g5))
             ELSE LET t0 == M(g1, g1) IN A(E(M(g5, g5)), A(D(Sb(t0, g2)), t0))
      den == IF degenerate THEN g2 ELSE D(D(g3))
      g4 == TDiv(F, b, num, den)                            \* Div by 0 = 0 (Inverse(0) = 0)
      g4sq == IF variant = "bw6sep" THEN G(x,4) ELSE g4
      t1 == M(g2, g1)
      t2 == A(Sb(D(Sb(M(g4sq, g4sq), t1)), t1), M(g3, g5))  \* 2 g4^2 - 3 g2 g1 + g3 g5
      g0 == A(E(t2), TOne(F, b))
  IN IF degenerate /\ g2 = Z THEN TOne(F, k) ELSE S6(<<g0, g1, g2, g3, g4, g5>>)

\* Rubin-Silverberg torus T2 compression over the cubic level
TorusCompress(F, k, x) == TMul(F, k-1, TAdd(F, k-1, x[1], TOne(F, k-1)), TInv(F, k-1, x[2]))    \* x[2] # 0
TorusDecompress(F, k, c) == TDiv(F, k, <<c, TOne(F, k-1)>>, <<c, TNeg(F, k-1, TOne(F, k-1))>>)

\* sparse line products (M-type (c0,c1,0,0,c4,0) and D-type (c0,0,0,c3,c4,0)), as in e12_pairing.go
Cub(F, k, a, c0, c1) ==        \* E6.MulBy01: a * (c0, c1, 0) in the cubic level k
  LET b == k - 1
      M(u, v) == TMul(F, b, u, v)   A(u, v) == TAdd(F, b, u, v)   Sb(u, v) == TSub(F, b, u, v)
      E(u) == TMul(F, b, Nr(F, k), u)
      aa == M(a[1], c0)   bb == M(a[2], c1)
      t0 == A(E(Sb(M(c1, A(a[2], a[3])), bb)), aa)
      t2 == A(Sb(M(c0, A(a[1], a[3])), aa), bb)
      t1 == Sb(Sb(M(A(c0, c1), A(a[1], a[2])), aa), bb)
  IN <<t0, t1, t2>>
MulBy034T(F, k, z, c0, c3, c4) ==
  LET c == k - 1
      a == TScale(F, c, z[1], c0)
      bb == Cub(F, c, z[2], c3, c4)
      d == Cub(F, c, TAdd(F, c, z[1], z[2]), TAdd(F, k-2, c0, c3), c4)
  IN << TAdd(F, c, TMul(F, c, TGen(F, c), bb), a), TAdd(F, c, TNeg(F, c, TAdd(F, c, a, bb)), d) >>
MulBy014T(F, k, z, c0, c1, c4) ==
  LET c == k - 1
      a == Cub(F, c, z[1], c0, c1)
      bb == TMul(F, c, z[2], <<TZero(F, k-2), c4, TZero(F, k-2)>>)
      d == TAdd(F, k-2, c1, c4)
      z1 == TSub(F, c, TSub(F, c, Cub(F, c, TAdd(F, c, z[2], z[1]), c0, d), a), bb)
  IN << TAdd(F, c, TMul(F, c, TGen(F, c), bb), a), z1 >>
=============================================================================
