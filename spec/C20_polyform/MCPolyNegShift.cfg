SPECIFICATION Spec
CONSTANTS
  Variant = "code-shift"
  Polys <- PolysHeap
  ShiftSet <- ShiftsAll
  Cards <- CardsAll
  MaxSteps = 1
  MaxObjs = 1
INVARIANTS TypeOK RepInd EvalInv
CHECK_DEADLOCK FALSE
