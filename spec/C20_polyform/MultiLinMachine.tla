--------------------------- MODULE MultiLinMachine ---------------------------
(* C20 - the machines of package polynomial: the bookkeeping table of a        *)
(* multilinear polynomial (MultiLin.Fold / Evaluate / Eq, EvalEq) and the      *)
(* cached Lagrange basis behind InterpolateOnRange.                            *)
(*   tbl    current bookkeeping table (t[b+1] = value at (b_1..b_n), b_1 MSB)  *)
(*   orig   table loaded last, fixed = the values X_1.. were fixed to since    *)
(*   cache  n -> Lagrange basis on 0..n-1 (sequence of coefficient vectors)    *)
(*   lastv, lastf  argument and result of the last InterpolateOnRange          *)
(* Definitions (Spec) come from Poly; the *Algo operators transcribe the       *)
(* loops of the implementation.                                                *)
EXTENDS Poly, TLC

CONSTANT Variant               \* "intended" | "code-evaleq" (negative self-test)
VARIABLES tbl, orig, fixed, cache, lastv, lastf,
          fq                   \* the modulus, fixed by Init (a variable because the trace specification takes
                               \* it from the trace header: TLC re-evaluates overridden constants at every use)
avars == <<tbl, orig, fixed, cache, lastv, lastf, fq>>
FQ == fq

-----------------------------------------------------------------------------
(* multilinear *)
FoldOp(t, r) == MLFold(FQ, t, r)
RECURSIVE FoldAll(_,_,_)
FoldAll(t, xs, i) == IF i > Len(xs) THEN t ELSE FoldAll(FoldOp(t, xs[i]), xs, i+1)
\* MultiLin.Evaluate: clone, fold every coordinate in order, return entry 0
EvaluateAlgo(t, xs) == FoldAll(t, xs, 1)[1]
EvaluateSpec(t, xs) == MLEval(FQ, t, xs)

\* MultiLin.Eq: in-place doubling, round i splits every block on bit i+1
RECURSIVE EqRound(_,_,_,_,_)
EqRound(m, qs, n, i, j) ==        \* i: 0-based round, j: 0-based block
  IF j >= Pow2(i) THEN m
  ELSE LET j0 == j * Pow2(n - i)
           j1 == j0 + Pow2(n - 1 - i)
           hi == FMul(FQ, qs[i+1], m[j0+1])
       IN EqRound([m EXCEPT ![j1+1] = hi, ![j0+1] = FSub(FQ, m[j0+1], hi)], qs, n, i, j+1)
RECURSIVE EqRounds(_,_,_,_)
EqRounds(m, qs, n, i) == IF i >= n THEN m ELSE EqRounds(EqRound(m, qs, n, i, 0), qs, n, i+1)
EqAlgo(t, qs) == EqRounds(t, qs, Len(qs), 0)
EqSpec(t, qs) == EqTable(FQ, qs, t[1])

\* EvalEq: prod (1 + 2 q h - q - h), the first factor assigned, the others multiplied in
RECURSIVE EvalEqLoop(_,_,_,_)
EvalEqLoop(a, b, i, acc) ==
  IF i > Len(a) THEN acc
  ELSE LET nxt == FSub(FQ, FAdd(FQ, FDouble(FQ, FMul(FQ, a[i], b[i])), One), FAdd(FQ, a[i], b[i]))
       IN EvalEqLoop(a, b, i+1, IF i = 1 THEN nxt ELSE FMul(FQ, acc, nxt))
EvalEqAlgo(a, b) == EvalEqLoop(a, b, 1, IF Variant = "code-evaleq" THEN Zero ELSE One)
EvalEqSpec(a, b) == EvalEqDef(FQ, a, b)

-----------------------------------------------------------------------------
(* interpolation on 0..n-1 through the cached Lagrange basis *)
\* p * (X - c)
MulLin(p, c) == Force([i \in 1..(Len(p)+1) |->
                   FSub(FQ, IF i > 1 THEN p[i-1] ELSE Zero, IF i <= Len(p) THEN FMul(FQ, c, p[i]) ELSE Zero)])
RECURSIVE NumerR(_,_,_,_)
NumerR(n, lidx, i, acc) ==       \* prod_{i # l} (X - i)
  IF i >= n THEN acc ELSE NumerR(n, lidx, i+1, IF i = lidx THEN acc ELSE MulLin(acc, Mod(FromInt(i), FQ)))
LagrangePoly(n, lidx) ==
  LET num == NumerR(n, lidx, 0, <<One>>)
  IN PolyScale(FQ, FInv(FQ, PEval(FQ, num, Mod(FromInt(lidx), FQ))), num)
LagrangeBasis(n) == Force([k \in 1..n |-> LagrangePoly(n, k-1)])
RECURSIVE InterpSum(_,_,_,_)
InterpSum(v, basis, i, acc) ==
  IF i > Len(v) THEN acc ELSE InterpSum(v, basis, i+1, PolyAdd(FQ, acc, PolyScale(FQ, v[i], basis[i])))
InterpolateAlgo(v, basis) == InterpSum(v, basis, 1, <<>>)

-----------------------------------------------------------------------------
(* actions *)
Load(t)  == tbl' = t /\ orig' = t /\ fixed' = <<>> /\ UNCHANGED <<cache, lastv, lastf, fq>>
Fold(r)  == /\ Len(tbl) >= 2
            /\ tbl' = FoldOp(tbl, r) /\ fixed' = Append(fixed, r)
            /\ UNCHANGED <<orig, cache, lastv, lastf, fq>>
EqAct(qs) == /\ Len(tbl) = Pow2(Len(qs))
             /\ tbl' = EqAlgo(tbl, qs) /\ orig' = EqSpec(tbl, qs) /\ fixed' = <<>>
             /\ UNCHANGED <<cache, lastv, lastf, fq>>
Interpolate(v) ==
  LET n == Len(v)
      basis == IF n \in DOMAIN cache THEN cache[n] ELSE LagrangeBasis(n) IN
  /\ cache' = (n :> basis) @@ cache
  /\ lastv' = v /\ lastf' = InterpolateAlgo(v, basis)
  /\ UNCHANGED <<tbl, orig, fixed, fq>>
=============================================================================
