SPECIFICATION Spec
CONSTANTS
  Variant = "intended"
INVARIANTS FoldInv CubeInv EvalInv EqInv EvalEqInv
CHECK_DEADLOCK FALSE
