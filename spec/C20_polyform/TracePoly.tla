------------------------------ MODULE TracePoly ------------------------------
(* Trace validation for C20, part "iop": replays the ndjson log of the real    *)
(* iop.Polynomial code against the PolyForm machine.                           *)
(* Arguments are logged as canonical values (built by the harness), replies as *)
(* raw Montgomery limbs; val() projects them.  Every reply is judged:          *)
(*   - after every mutating call the complete stored vector, basis, layout and *)
(*     size (SnapBad) - equivalent to "the object still denotes the ghost      *)
(*     polynomial" because (polynomial, basis, layout, length) determine the   *)
(*     vector.  The layout chosen by a basis conversion is not part of the     *)
(*     property: the specification follows the logged layout there.            *)
(*   - Evaluate / GetCoeff against the value of the shifted ghost polynomial   *)
(*   - derived builders against their definitions, inputs must be unchanged    *)
(*     (or converted to Lagrange form where documented)                        *)
(*   - panics are always rejected; an error is demanded where documented       *)
(* Where nothing is claimed (coset form on a handle whose coset was never      *)
(* recorded, canonical GetCoeff under a shift, division by a zero denominator  *)
(* in a ratio) the reply is accepted.                                          *)
EXTENDS TraceKernel, PolyForm, FieldParams

FP == FieldP(Hdr.field)
HQ == FP.q
MontR == Shl(One, FP.w * FP.n)
MontRinv == InvMod(Mod(MontR, HQ), HQ)
val(raw) == MulMod(raw, MontRinv, HQ)
Canon(raw) == InField(HQ, raw)
\* the field context of the machine, from the header: the generator of the largest domain and the coset
\* shift are the library's own (raw); ParamsOK demands exact order nmax / a coset off the subgroup
HCtx == MkCtx(HQ, Hdr.nmax, val(Hdr.w), val(Hdr.g))

Vals(rs) == Force([i \in 1..Len(rs) |-> val(rs[i])])
AllCanon(rs) == \A i \in 1..Len(rs) : Canon(rs[i])

Init == /\ l = 2 /\ objs = <<>> /\ vecs = <<>> /\ blobs = <<>>
        /\ ctxp = HCtx
        /\ bad = (IF Canon(Hdr.w) /\ Canon(Hdr.g) /\ ParamsOK THEN {} ELSE {<<1, "hdr-params">>})

-----------------------------------------------------------------------------
\* a logged snapshot s = [basis, layout, size, cv] against the specified handle o on the struct vr
SnapBad(s, o, vr) ==
  (IF s.basis # vr.basis \/ s.layout # vr.layout THEN {"form"} ELSE {})
  \cup (IF s.size # o.size THEN {"size"} ELSE {})
  \cup (IF Len(s.cv) # Len(vr.cv) THEN {"length"}
        ELSE IF ~AllCanon(s.cv) THEN {"noncanonical"}
        ELSE IF Vals(s.cv) # vr.cv THEN {"vector"} ELSE {})
SnapOf(st, id, s) == SnapBad(s, st.objs[id], st.vecs[st.objs[id].vec])
Mutated(st, ids, after) ==
  IF \E k \in 1..Len(ids) : SnapOf(st, ids[k], after[k]) # {} THEN {"mutated"} ELSE {}

AllLive(ids) == \A k \in 1..Len(ids) : Live(St, ids[k])
LenOf(st, id) == Len(st.vecs[st.objs[id].vec].cv)

\* basis conversion whose resulting layout follows the log (when the log shows a legal layout)
ConvFollow(st, kind, id, card, lay) ==
  LET ns0 == DoConv(st, kind, id, card) IN
  IF lay \in Layouts /\ lay # VRec(ns0, id).layout /\ IsPow2(LenOf(ns0, id))
  THEN DoLayout(ns0, IF lay = REGULAR THEN "ToRegular" ELSE "ToBitReverse", id)
  ELSE ns0

\* ToLagrange(domain of cardinality n) on a list of handles, in order
RECURSIVE ConvAll(_,_,_,_,_)
ConvAll(st, ids, n, after, k) ==
  IF k > Len(ids) THEN st
  ELSE ConvAll(ConvFollow(st, "ToLagrange", ids[k], n, IF k <= Len(after) THEN after[k].layout ELSE 0),
               ids, n, after, k+1)

SameLens(ids) == \A k \in 1..Len(ids) : LenOf(St, ids[k]) = LenOf(St, ids[1])
ExprEx(e) == [k0 |-> e.ex.k0, a |-> e.ex.a, b |-> e.ex.b]

-----------------------------------------------------------------------------
(* successor state per the specification *)

ExprErr(e) == ~SameLens(e.xs) \/ e.rmode = 2
DivideErr(e) == VRec(St, e.id).basis # LAGRANGECOSET
DivideEnabled(e) ==
  LET o == objs[e.id]  N == LenOf(St, e.id) IN
  /\ IsPow2(e.card0) /\ IsPow2(e.card1) /\ e.card1 <= FN /\ e.card1 % e.card0 = 0
  /\ (DivideErr(e) \/ (o.size = e.card0 /\ N = e.card1 /\ ~o.unspec /\ o.shift >= 0))
\* the size recorded on the quotient is not documented (the code copies the size of the input): follow the
\* log when it shows a legal size
DivideSize(e) ==
  IF Has(e, "st") /\ e.st.size >= 1 /\ IsPow2(e.st.size) /\ e.card1 % e.st.size = 0 THEN e.st.size ELSE objs[e.id].size
ShufIds(e) == e.num \o e.den
ShufErr(e) ==
  LET n == LenOf(St, e.num[1]) IN
  Len(e.num) # Len(e.den) \/ ~SameLens(ShufIds(e)) \/ ~IsPow2(n) \/ (e.dom # 0 /\ e.dom # n)
CopyErr(e) ==
  LET n == LenOf(St, e.ents[1]) IN ~SameLens(e.ents) \/ ~IsPow2(n) \/ (e.dom # 0 /\ e.dom # n)

AfterOf(e) == IF Has(e, "after") THEN e.after ELSE <<>>

\* inputs of a ratio builder after ToLagrange, then the result
ShufBuilt(e) ==
  LET n   == LenOf(St, e.num[1])
      s1  == ConvAll(St, ShufIds(e), n, AfterOf(e), 1)
      nv  == ShuffledNumDen(s1, e.num, e.beta, n)
      dv  == ShuffledNumDen(s1, e.den, e.beta, n)
      unspec == \E i \in 1..(n-1) : dv[i] = Zero
  IN [st |-> DoBuilt(s1, e.dst, BuilderVector(RatioValues(nv, dv), e.basis, e.layout), e.basis, e.layout, n, unspec),
      unspec |-> unspec]
CopyBuilt(e) ==
  LET n   == LenOf(St, e.ents[1])
      s1  == ConvAll(St, e.ents, n, AfterOf(e), 1)
      nv  == CopyNum(s1, e.ents, e.beta, e.gamma, n)
      dv  == CopyDen(s1, e.ents, e.perm, e.beta, e.gamma, n)
      unspec == \E i \in 1..(n-1) : dv[i] = Zero
  IN [st |-> DoBuilt(s1, e.dst, BuilderVector(RatioValues(nv, dv), e.basis, e.layout), e.basis, e.layout, n, unspec),
      unspec |-> unspec]

Known(e) ==      \* the handles an event refers to exist (anything else is a harness fault)
  CASE e.op \in ConvKinds \cup LayoutKinds \cup {"Clone", "ShallowClone", "Shift", "SetSize", "Size", "Evaluate",
                  "GetCoeff", "Coeffs", "WriteTo", "Drop", "Divide"} -> Live(St, e.id)
    [] e.op = "ReadFrom" -> e.blob \in DOMAIN blobs
    [] e.op = "Expr" -> Len(e.xs) >= 1 /\ AllLive(e.xs)
    [] e.op = "RatioShuffled" -> Len(e.num) >= 1 /\ Len(e.den) >= 1 /\ AllLive(ShufIds(e))
    [] e.op = "RatioCopy" -> Len(e.ents) >= 1 /\ AllLive(e.ents)
    [] OTHER -> TRUE

Enabled(e) ==
  CASE e.op \in ConvKinds -> ConvEnabled(VRec(St, e.id), e.card)
    [] e.op \in LayoutKinds -> LayoutEnabled(VRec(St, e.id))
    [] e.op = "New" -> FormOK(e.basis, e.layout, Len(e.c)) /\ \A i \in 1..Len(e.c) : Canon(e.c[i])
    [] e.op = "Divide" -> DivideEnabled(e)
    [] e.op = "Expr" -> ExprErr(e) \/ FormOK(e.basis, e.layout, LenOf(St, e.xs[1]))
    [] e.op = "RatioShuffled" -> ShufErr(e) \/ (\A k \in 1..Len(ShufIds(e)) : ~objs[ShufIds(e)[k]].unspec)
    [] e.op = "RatioCopy" -> CopyErr(e) \/ (/\ \A k \in 1..Len(e.ents) : ~objs[e.ents[k]].unspec
                                             /\ Len(e.perm) = Len(e.ents) * LenOf(St, e.ents[1])
                                             /\ \A j \in 1..Len(e.perm) : e.perm[j] \in 0..(Len(e.perm)-1))
    [] OTHER -> TRUE

NS(e) ==
  CASE e.op = "Reset"        -> EmptySt
    [] e.op = "Drop"         -> DoDrop(St, e.id)
    [] e.op = "New"          -> DoNew(St, e.id, e.c, e.basis, e.layout)
    [] e.op \in ConvKinds    -> ConvFollow(St, e.op, e.id, e.card, IF Has(e, "st") THEN e.st.layout ELSE 0)
    [] e.op \in LayoutKinds  -> DoLayout(St, e.op, e.id)
    [] e.op = "Clone"        -> DoClone(St, e.id, e.dst)
    [] e.op = "ShallowClone" -> DoShallow(St, e.id, e.dst)
    [] e.op = "Shift"        -> DoShift(St, e.id, e.k)
    [] e.op = "SetSize"      -> DoSetSize(St, e.id, e.size)
    [] e.op = "WriteTo"      -> DoWrite(St, e.id, e.blob)
    [] e.op = "ReadFrom"     -> IF Has(e, "trunc") THEN St ELSE DoRead(St, e.blob, e.dst)
    [] e.op = "Expr"         -> IF ExprErr(e) THEN St
                                ELSE DoBuilt(St, e.dst, ExprVector(St, e.xs, ExprEx(e), e.layout), e.basis, e.layout,
                                             objs[e.xs[1]].size, FALSE)
    [] e.op = "Divide"       -> IF DivideErr(e) THEN St
                                ELSE DoBuilt(St, e.dst, DivideVector(objs[e.id], VRec(St, e.id)), CANONICAL, REGULAR,
                                             DivideSize(e), FALSE)
    [] e.op = "RatioShuffled" -> IF ShufErr(e) THEN St ELSE ShufBuilt(e).st
    [] e.op = "RatioCopy"    -> IF CopyErr(e) THEN St ELSE CopyBuilt(e).st
    [] OTHER                 -> St

-----------------------------------------------------------------------------
(* judgement of the reply *)

NoPanic(e, r) == IF Panicked(e) THEN {"panic"} ELSE r
RetSame(e) == IF e.same THEN {} ELSE {"retptr"}

\* the argument handed to Horner / barycentric evaluation lies on the domain of the stored vector
OnDomain(o, vr, x) ==
  LET x1 == IF vr.basis = LAGRANGECOSET THEN FDiv(FQ, x, o.coset) ELSE x
  IN FPowInt(FQ, FMul(FQ, x1, ShiftGen(o)), Len(vr.cv)) = One

JEvaluate(e) ==
  LET o == objs[e.id]  vr == VRec(St, e.id)  n == Len(vr.cv) IN
  IF Panicked(e) THEN {"panic"}
  ELSE IF ~Canon(e.out) THEN {"noncanonical"}
  ELSE IF ~(Observable(o, vr) /\ SizeOK(o, n)) THEN {}
  ELSE IF val(e.out) = EvalSpec(o, e.x) THEN {}
  ELSE IF ~(o.shift \in 0..5) THEN {"value:shift-outside-0..5"}
  ELSE IF vr.basis # CANONICAL /\ OnDomain(o, vr, e.x) THEN {"value:lagrange-at-domain-point"}
  ELSE {"value"}

JGetCoeff(e) ==
  LET o == objs[e.id]  vr == VRec(St, e.id)  n == Len(vr.cv) IN
  IF ~(e.i \in 0..(n-1)) \/ o.size < 1 THEN {"harness:index"}
  ELSE IF Panicked(e) THEN (IF e.i + (n \div o.size) * o.shift < 0 THEN {"panic:negative-index"} ELSE {"panic"})
  ELSE IF ~Canon(e.out) THEN {"noncanonical"}
  ELSE IF ~(CoeffSpecified(o, vr) /\ SizeOK(o, n) /\ n % o.size = 0) THEN {}
  ELSE IF val(e.out) = CoeffSpec(o, vr, e.i) THEN {} ELSE {"value"}

JBuilt(e, errExpected, ns, ids, unspec) ==
  IF Panicked(e) THEN {"panic"}
  ELSE IF errExpected THEN (IF Has(e, "err") THEN {} ELSE {"noerror"}) \cup Mutated(St, ids, e.after)
  ELSE IF Has(e, "err") THEN {"error"}
  ELSE (IF unspec THEN {r \in SnapOf(ns, e.dst, e.st) : r # "vector"} ELSE SnapOf(ns, e.dst, e.st))
       \cup Mutated(ns, ids, e.after)

\* DivideShifted (self-contained, no state): a of size n in canonical form, moved to the coset s<w_N> of a domain built with
\* its own shift s (the library's default when none was asked for), divided by X^n - 1.  Contract of DivideByXMinusOne:
\* R canonical regular with R(x) (x^n - 1) = a(x) on that coset, i.e.  R (X^n - 1) = a  mod (X^N - s^N).
\* All words are raw; the identity is linear in (a, R), so it holds on the raw words as well.
JDivShifted(e) ==
  IF Panicked(e) THEN {"panic"}
  ELSE IF Has(e, "err") THEN {"error"}
  ELSE
  LET n == e.n  N == e.N  R == e.out  a == e.a
      s == IF e.s1 = Zero THEN FG ELSE e.s1
      c == FPowInt(FQ, s, N)
      lhs(k) == FAdd(FQ, FSub(FQ, IF k >= n THEN R[k-n+1] ELSE Zero, R[k+1]),
                         IF k < n THEN FMul(FQ, c, R[k+N-n+1]) ELSE Zero)
  IN IF Len(R) # N \/ e.basis # CANONICAL \/ e.layout # REGULAR THEN {"form"}
     ELSE IF \E i \in 1..N : ~Canon(R[i]) THEN {"noncanonical"}
     ELSE IF \A k \in 0..(N-1) : lhs(k) = (IF k < n THEN a[k+1] ELSE Zero) THEN {} ELSE {"value:divide-shifted-domain"}

Judge(e, ns) ==
  IF ~Known(e) THEN {"harness:unknown-handle"}
  ELSE IF ~Enabled(e) THEN {"harness:not-enabled"}
  ELSE
  CASE e.op \in {"Reset", "Drop"} -> {}
    [] e.op = "Domain" ->
         NoPanic(e, IF e.rcard # e.card \/ ~Canon(e.gen) \/ ~Canon(e.cgen) THEN {"domain"}
                    ELSE IF val(e.gen) # Wn(e.card) THEN {"generator"}
                    ELSE IF val(e.cgen) # FG THEN {"coset-shift"} ELSE {})
    [] e.op = "New" -> NoPanic(e, SnapOf(ns, e.id, e.st))
    [] e.op \in ConvKinds ->
         IF Panicked(e) THEN (IF e.op = "ToLagrangeCoset" /\ e.card = 1 THEN {"panic:coset-card-1"} ELSE {"panic"})
         ELSE SnapOf(ns, e.id, e.st) \cup RetSame(e)
    [] e.op \in LayoutKinds -> NoPanic(e, SnapOf(ns, e.id, e.st) \cup RetSame(e))
    [] e.op = "Clone" ->
         NoPanic(e, SnapOf(ns, e.dst, e.st)
                    \cup (IF Has(e, "cap") /\ e.capout < e.cap THEN {"capacity"} ELSE {})
                    \cup (IF e.capout < Len(e.st.cv) THEN {"capacity"} ELSE {}))
    [] e.op = "ShallowClone" -> NoPanic(e, SnapOf(ns, e.dst, e.st))
    [] e.op = "Shift" -> NoPanic(e, RetSame(e))
    [] e.op = "SetSize" -> NoPanic(e, {})
    [] e.op = "Size" -> NoPanic(e, IF e.ret = objs[e.id].size THEN {} ELSE {"size"})
    [] e.op = "Coeffs" -> SnapOf(St, e.id, e.st)
    [] e.op = "Evaluate" -> JEvaluate(e)
    [] e.op = "GetCoeff" -> JGetCoeff(e)
    [] e.op = "WriteTo" ->
         NoPanic(e, (IF Has(e, "err") THEN {"error"} ELSE {}) \cup (IF e.n # e.nbytes THEN {"count"} ELSE {}))
    [] e.op = "ReadFrom" ->
         IF Panicked(e) THEN {"panic"}
         ELSE IF Has(e, "trunc") THEN (IF Has(e, "err") THEN {} ELSE {"noerror"}) \cup (IF e.n > e.trunc THEN {"count"} ELSE {})
         ELSE IF Has(e, "err") THEN {"error"}
         ELSE SnapOf(ns, e.dst, e.st) \cup (IF e.n # e.total THEN {"count"} ELSE {})
    [] e.op = "Expr" -> JBuilt(e, ExprErr(e), ns, e.xs, FALSE)
    [] e.op = "Divide" -> JBuilt(e, DivideErr(e), ns, <<e.id>>, FALSE)
    [] e.op = "DivideShifted" -> JDivShifted(e)
    [] e.op = "RatioShuffled" ->
         IF Panicked(e) /\ Len(e.num) = 1 /\ Len(e.den) = 1 THEN {"panic:ratio-single-pair"}
         ELSE JBuilt(e, ShufErr(e), ns, ShufIds(e), IF ShufErr(e) THEN FALSE ELSE ShufBuilt(e).unspec)
    [] e.op = "RatioCopy" -> JBuilt(e, CopyErr(e), ns, e.ents, IF CopyErr(e) THEN FALSE ELSE CopyBuilt(e).unspec)
    [] OTHER -> {"unknown-op"}

Step == /\ HasNext
        /\ LET e == Ev
               ns == IF Known(e) /\ Enabled(e) THEN NS(e) ELSE St
           IN Advance(Judge(e, ns)) /\ Apply(ns)

Next == Step \/ (Finish /\ UNCHANGED mvars)
Spec == Init /\ [][Next]_<<l, bad, objs, vecs, blobs, ctxp>>
=============================================================================
