SPECIFICATION Spec
CONSTANTS
  Variant = "intended"
  Polys <- PolysHeap
  ShiftSet <- ShiftsAll
  Cards <- CardsAll
  MaxSteps = 3
  MaxObjs = 2
INVARIANTS TypeOK RepInd EvalInv CoeffInv RoundTripInv
CHECK_DEADLOCK FALSE
