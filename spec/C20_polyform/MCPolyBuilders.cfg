SPECIFICATION Spec
CONSTANTS
  Variant = "intended"
  Polys <- PolysHeap
  ShiftSet <- ShiftsFew
  Cards <- CardsAll
  MaxSteps = 2
  MaxObjs = 1
INVARIANTS TypeOK RepInd DivideInv BuilderInv PolyLaws
CHECK_DEADLOCK FALSE
