----------------------------- MODULE MCMultiLin -----------------------------
(* Exhaustive check of the bookkeeping-table and interpolation machines at     *)
(* q = 5 (tables of 1, 2, 4 entries: all of them; 8 entries: a spanning family)*)
(* Invariants: folding fixes the leading variable of the multilinear extension *)
(* (FoldInv, at every point of F_q^k), the extension interpolates the table    *)
(* (CubeInv), Evaluate-by-folding = definition (EvalInv), the in-place Eq      *)
(* loops produce m[0]*Eq(q,.) (EqInv), EvalEq is the product formula incl. the *)
(* empty product (EvalEqInv), the cached basis is the Lagrange basis and the   *)
(* result interpolates (InterpInv).                                            *)
EXTENDS MultiLinMachine
MCQ == FromInt(5)
El == {FromInt(x) : x \in 0..4}
T0 == {<<>>}
T1 == {<<x>> : x \in El}
T2 == {<<x, y>> : x \in El, y \in El}
T3 == {Append(t, x) : t \in T2, x \in El}
T4 == {Append(t, x) : t \in T3, x \in El}
Tuples(k) == CASE k = 0 -> T0 [] k = 1 -> T1 [] k = 2 -> T2 [] k = 3 -> T3 [] k = 4 -> T4
Unit8(i, a) == Force([j \in 1..8 |-> IF j = i THEN FromInt(a) ELSE Zero])
Tables == Tuples(0 + 1) \cup Tuples(2) \cup Tuples(4)
          \cup {Unit8(i, a) : i \in 1..8, a \in {1, 3}}
          \cup {Force([j \in 1..8 |-> FromInt((j * j + 1) % 5)])}
NVars(t) == Log2(Len(t))
Cube4 == {<<FromInt(a), FromInt(b), FromInt(c), FromInt(d)>> : a \in 0..1, b \in 0..1, c \in 0..1, d \in 0..1}

Init == /\ fq = MCQ
        /\ tbl \in Tables /\ orig = tbl /\ fixed = <<>>
        /\ cache = <<>> /\ lastv = <<>> /\ lastf = <<>>
Next == \/ \E r \in El : Fold(r)
        \/ (fixed = <<>> /\ orig = tbl /\ NVars(tbl) <= 2 /\ \E qs \in Tuples(NVars(tbl)) : EqAct(qs))
Spec == Init /\ [][Next]_avars

\* the interpolation machine on its own (every value vector of length 1..3, in every order of lengths)
InitI == /\ fq = MCQ
         /\ tbl = <<Zero>> /\ orig = tbl /\ fixed = <<>>
         /\ cache = <<>> /\ lastv = <<>> /\ lastf = <<>>
NextI == \E k \in 1..3 : \E v \in Tuples(k) : Interpolate(v)
SpecI == InitI /\ [][NextI]_avars

FoldInv == \A rest \in Tuples(NVars(tbl)) : EvaluateSpec(tbl, rest) = EvaluateSpec(orig, fixed \o rest)
CubeInv == \A b \in 0..(Len(tbl)-1) :
             EvaluateSpec(tbl, Force([i \in 1..NVars(tbl) |-> FromInt(MLBit(b, NVars(tbl), i))])) = tbl[b+1]
EvalInv == \A xs \in Tuples(NVars(tbl)) : EvaluateAlgo(tbl, xs) = EvaluateSpec(tbl, xs)
EqInv   == tbl = orig \/ fixed # <<>>            \* EqAct stores algorithm and definition side by side
\* the current table read as a vector q of Len(tbl) coordinates, against every h (4 coordinates: against the
\* hypercube and itself); and the empty product
EvalEqInv ==
  /\ EvalEqAlgo(<<>>, <<>>) = One
  /\ Len(tbl) <= 2 => \A h \in Tuples(Len(tbl)) :
        /\ EvalEqAlgo(tbl, h) = EvalEqSpec(tbl, h)
        /\ EvaluateSpec(EqTable(FQ, tbl, One), h) = EvalEqSpec(tbl, h)
  /\ Len(tbl) = 4 => \A h \in Cube4 \cup {tbl} : EvalEqAlgo(tbl, h) = EvalEqSpec(tbl, h)
InterpInv == /\ InterpolatesRange(FQ, lastf, lastv)
             /\ \A n \in DOMAIN cache : cache[n] = LagrangeBasis(n)
             /\ \A n \in DOMAIN cache : \A k \in 1..n : \A i \in 0..(n-1) :
                   PEval(FQ, cache[n][k], FromInt(i)) = (IF i = k-1 THEN One ELSE Zero)
=============================================================================
