SPECIFICATION Spec
CONSTANTS
  Variant = "code-bary"
  Polys <- PolysHeap
  ShiftSet <- ShiftsAll
  Cards <- CardsAll
  MaxSteps = 1
  MaxObjs = 1
INVARIANTS TypeOK RepInd EvalInv
CHECK_DEADLOCK FALSE
