SPECIFICATION Spec
CONSTANTS
  Variant = "intended"
CHECK_DEADLOCK FALSE
