SPECIFICATION Spec
CONSTANTS
  Variant = "intended"
  Polys <- PolysGraph
  ShiftSet <- ShiftsNone
  Cards <- CardsAll
  MaxSteps = 4
  MaxObjs = 1
INVARIANTS TypeOK RepInd EvalInv CoeffInv
CHECK_DEADLOCK FALSE
