SPECIFICATION SpecI
CONSTANTS
  Variant = "intended"
INVARIANTS InterpInv
CHECK_DEADLOCK FALSE
