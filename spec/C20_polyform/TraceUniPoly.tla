---------------------------- MODULE TraceUniPoly ----------------------------
(* Trace validation for C20, part "poly": package polynomial of every curve.   *)
(* Univariate helpers (Eval, Add, Sub, Scale, Set, Clone, Equal), interpolation*)
(* on a range, and the multilinear bookkeeping table (machine variable tbl:    *)
(* MLLoad sets it, MLFold (Fold, or FoldParallel whose task is run over         *)
(* `chunks` ranges) / MLEq rewrite it, the other calls read it).               *)
(* Arguments are logged as canonical values, replies as raw Montgomery limbs.  *)
(* Semantics taken from the code's documentation where the property is silent: *)
(* Sub on operands of different lengths returns nil (accepted: anything but a  *)
(* panic); MultiLin.Add / Eq with a destination of the wrong size panic;       *)
(* InterpolateOnRange refuses more than 255 points.                            *)
EXTENDS TraceKernel, MultiLinMachine, FieldParams

FP == FieldP(Hdr.field)
HQ == FP.q
MontR == Shl(One, FP.w * FP.n)
MontRinv == InvMod(Mod(MontR, HQ), HQ)
val(raw) == MulMod(raw, MontRinv, HQ)
Canon(raw) == InField(HQ, raw)
Vals(rs) == Force([i \in 1..Len(rs) |-> val(rs[i])])
AllCanon(rs) == \A i \in 1..Len(rs) : Canon(rs[i])

Init == KInit /\ fq = HQ /\ tbl = <<>> /\ orig = <<>> /\ fixed = <<>> /\ cache = <<>> /\ lastv = <<>> /\ lastf = <<>>

\* a logged raw vector against the specified values
VecIs(raws, expected, reason) ==
  IF Len(raws) # Len(expected) THEN {"length"}
  ELSE IF ~AllCanon(raws) THEN {"noncanonical"}
  ELSE IF Vals(raws) # expected THEN {reason} ELSE {}
ElemIs(raw, expected, reason) ==
  IF ~Canon(raw) THEN {"noncanonical"} ELSE IF val(raw) # expected THEN {reason} ELSE {}
NoPanic(e, r) == IF Panicked(e) THEN {"panic"} ELSE r
MustPanic(e) == IF Panicked(e) THEN {} ELSE {"nopanic"}
Min2(a, b) == IF a < b THEN a ELSE b
NV == Log2(Len(tbl))

Judge(e) ==
  CASE e.op = "Eval" -> NoPanic(e, ElemIs(e.out, PEval(FQ, e.p, e.x), "value"))
    [] e.op = "Clone" -> NoPanic(e, VecIs(e.out, e.p, "value") \cup VecIs(e.after, e.p, "mutated"))
    [] e.op = "Scale" -> NoPanic(e, VecIs(e.out, PolyScale(FQ, e.c, e.p), "value") \cup VecIs(e.after, e.p, "mutated"))
    [] e.op = "ScaleInPlace" -> NoPanic(e, VecIs(e.out, PolyScale(FQ, e.c, e.p), "value"))
    [] e.op = "Set" -> NoPanic(e, VecIs(e.out, e.p, "value") \cup VecIs(e.after, e.p, "mutated"))
    [] e.op = "Add" ->
         IF Panicked(e) THEN (IF Min2(Len(e.p1), Len(e.p2)) = 0 THEN {"panic:add-empty-operand"} ELSE {"panic"})
         ELSE VecIs(e.out, PolyAdd(FQ, e.p1, e.p2), "value")
              \cup (IF e.same THEN {} ELSE {"retptr"})
              \cup (IF e.mode # "p1" THEN VecIs(e.after1, e.p1, "mutated") ELSE {})
              \cup (IF e.mode # "p2" THEN VecIs(e.after2, e.p2, "mutated") ELSE {})
    [] e.op = "Sub" ->
         IF Panicked(e) THEN {"panic"}
         ELSE IF e.rl = Len(e.p1) /\ e.rl = Len(e.p2)
              THEN (IF e.nil THEN {"nil"} ELSE {})
                   \cup VecIs(e.out, Force([i \in 1..e.rl |-> FSub(FQ, e.p1[i], e.p2[i])]), "value")
                   \cup VecIs(e.after1, e.p1, "mutated") \cup VecIs(e.after2, e.p2, "mutated")
              ELSE {}
    [] e.op = "Equal" -> NoPanic(e, IF e.ret = (e.p1 = e.p2) THEN {} ELSE {"ret"})
    [] e.op = "Interpolate" ->
         IF e.n > 255 THEN {}                               \* refused (panic) as documented
         ELSE NoPanic(e, IF ~AllCanon(e.out) THEN {"noncanonical"}
                         ELSE IF InterpolatesRange(FQ, Vals(e.out), e.v) THEN {} ELSE {"value"})
    [] e.op = "MLLoad" -> {}
    [] e.op = "NumVars" -> NoPanic(e, IF IsPow2(e.n) /\ e.ret # Log2(e.n) THEN {"ret"} ELSE {})
    [] e.op = "MLSum" -> NoPanic(e, ElemIs(e.out, FSum(FQ, tbl), "value"))
    [] e.op = "MLClone" -> NoPanic(e, VecIs(e.out, tbl, "value") \cup VecIs(e.after, tbl, "mutated"))
    [] e.op = "MLEvaluate" ->
         IF Len(e.xs) # NV THEN {"harness:arity"}
         ELSE NoPanic(e, ElemIs(e.out, EvaluateSpec(tbl, e.xs), "value") \cup VecIs(e.after, tbl, "mutated"))
    [] e.op = "MLFold" ->
         IF Len(tbl) < 2 THEN {"harness:fold"} ELSE NoPanic(e, VecIs(e.out, FoldOp(tbl, e.r), "value"))
    [] e.op = "MLAdd" ->
         IF e.rl = Len(e.a) /\ e.rl = Len(e.b)
         THEN NoPanic(e, VecIs(e.out, PolyAdd(FQ, e.a, e.b), "value"))
         ELSE MustPanic(e)
    [] e.op = "MLEq" ->
         IF Len(tbl) = Pow2(Len(e.qs)) THEN NoPanic(e, VecIs(e.out, EqSpec(tbl, e.qs), "value")) ELSE MustPanic(e)
    [] e.op = "EvalEq" ->
         IF Len(e.q) # Len(e.h) THEN {"harness:arity"}
         ELSE NoPanic(e, ElemIs(e.out, EvalEqSpec(e.q, e.h),
                                IF Len(e.q) = 0 THEN "value:empty-product" ELSE "value"))
    [] OTHER -> {"unknown-op"}

NextTbl(e) ==
  CASE e.op = "MLLoad" -> e.t
    [] e.op = "MLFold" /\ Len(tbl) >= 2 -> FoldOp(tbl, e.r)
    [] e.op = "MLEq" /\ Len(tbl) = Pow2(Len(e.qs)) -> EqSpec(tbl, e.qs)
    [] OTHER -> tbl

Step == /\ HasNext
        /\ Advance(Judge(Ev))
        /\ tbl' = NextTbl(Ev)
        /\ orig' = (IF Ev.op \in {"MLLoad", "MLEq"} THEN NextTbl(Ev) ELSE orig)
        /\ fixed' = (IF Ev.op \in {"MLLoad", "MLEq"} THEN <<>> ELSE IF Ev.op = "MLFold" THEN Append(fixed, Ev.r) ELSE fixed)
        /\ UNCHANGED <<cache, lastv, lastf, fq>>

Next == Step \/ (Finish /\ UNCHANGED avars)
Spec == Init /\ [][Next]_<<l, bad, tbl, orig, fixed, cache, lastv, lastf, fq>>
=============================================================================
