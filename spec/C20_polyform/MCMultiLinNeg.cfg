SPECIFICATION Spec
CONSTANTS
  Variant = "code-evaleq"
INVARIANTS EvalEqInv
CHECK_DEADLOCK FALSE
