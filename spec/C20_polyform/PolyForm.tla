------------------------------ MODULE PolyForm ------------------------------
(* C20 - the machine of iop.Polynomial objects.                               *)
(*                                                                            *)
(* Abstract state                                                             *)
(*   vecs   : vector id -> [cv, basis, layout]: the struct `polynomial` shared *)
(*            by a handle and its shallow clones (stored coefficient vector   *)
(*            = sequence of F_q values, and the form it is to be read in)     *)
(*   objs   : handle id -> [vec, shift, size, coset, ghost, unspec]           *)
(*            the struct `Polynomial`; ghost = coefficient vector of the      *)
(*            polynomial P the handle denoted when it was created (never      *)
(*            touched by an action); unspec = result of a builder on inputs   *)
(*            for which the definition gives no value (nothing claimed)       *)
(*   blobs  : blob id -> snapshot of a handle written by WriteTo              *)
(* The handle denotes  P'(X) = P(w_size^shift X), w_size the generator of the *)
(* subgroup of order size.  One operator per public entry point, modelled on  *)
(* what the code does (form-indexed dispatch to the FFT contracts of C10:     *)
(* DIF maps natural order to bit-reversed order, DIT the converse).           *)
(* The property: no action changes the polynomial denoted by the stored       *)
(* vector (RepInd), and the observations Evaluate / GetCoeff return values of *)
(* P' (EvalSpec / CoeffSpec).                                                 *)
EXTENDS Poly, TLC, FiniteSets

CONSTANT Variant     \* "intended" | "code-shift" | "code-bary": the latter two reproduce one defect of the
                     \* implementation each (used only by the negative self-tests: the invariants must bite)

VARIABLES objs, vecs, blobs,
          ctxp       \* the field context, fixed by Init and never changed: [q, n, w, g, wtab] (see MkCtx).
                     \* It is a variable and not a set of CONSTANTS because the trace specification takes it
                     \* from the trace header: TLC re-evaluates overridden constants at every use.
mvars == <<objs, vecs, blobs, ctxp>>

FQ == ctxp.q         \* modulus (BigNat)
FN == ctxp.n         \* cardinality of the largest domain, a power of two (Int)
FW == ctxp.w         \* generator of the subgroup of order FN (BigNat)
FG == ctxp.g         \* coset shift of every domain (BigNat), FG^FN # 1
MkCtx(q, n, w, g) == [q |-> q, n |-> n, w |-> w, g |-> g, wtab |-> PowTab(q, w, n)]

CANONICAL == 1
LAGRANGE == 2
LAGRANGECOSET == 4
REGULAR == 8
BITREVERSE == 16
Bases == {CANONICAL, LAGRANGE, LAGRANGECOSET}
Layouts == {REGULAR, BITREVERSE}

NextPow2(n) == IF IsPow2(n) THEN n ELSE Pow2(Log2(n) + 1)

WTab == ctxp.wtab    \* <<w^0, .., w^(FN-1)>>
\* (generator of the subgroup of order n)^k for a power of two n <= FN and any integer k
Wpow(n, k) == WTab[((FN \div n) * (k % n)) + 1]
Wn(n) == Wpow(n, 1)
GInv == FInv(FQ, FG)

ParamsOK == /\ IsPow2(FN)
            /\ FPowInt(FQ, FW, FN) = One
            /\ (FN > 1 => FPowInt(FQ, FW, FN \div 2) = Pred(FQ))     \* exact order FN
            /\ FG # Zero /\ InField(FQ, FG)
            /\ FPowInt(FQ, FG, FN) # One                              \* the coset misses the subgroup

-----------------------------------------------------------------------------
(* Representation: natural order view, decoding and encoding *)

NatOrd(layout, cv) == IF layout = REGULAR THEN cv ELSE BitRevPerm(cv)    \* an involution

Denote(basis, layout, cv) ==
  LET a == NatOrd(layout, cv)  n == Len(cv) IN
  CASE basis = CANONICAL     -> a
    [] basis = LAGRANGE      -> IDFT(FQ, a, Wn(n))
    [] basis = LAGRANGECOSET -> CosetIDFT(FQ, a, Wn(n), FG)

Encode(P, basis, layout) ==
  LET n == Len(P) IN
  NatOrd(layout, CASE basis = CANONICAL     -> P
                [] basis = LAGRANGE      -> DFT(FQ, P, Wn(n))
                [] basis = LAGRANGECOSET -> CosetDFT(FQ, P, Wn(n), FG))

\* a well-formed stored vector: every form except canonical/regular needs a power-of-two length
FormOK(basis, layout, n) ==
  /\ basis \in Bases /\ layout \in Layouts /\ n >= 1 /\ n <= FN
  /\ (basis # CANONICAL \/ layout # REGULAR) => IsPow2(n)

-----------------------------------------------------------------------------
(* The FFT entry points as specified by C10 (len(a) = cardinality of the domain) *)

FFT(a, dec, coset) ==
  LET n == Len(a)
      i1 == IF dec = "DIT" THEN BitRevPerm(a) ELSE a
      i2 == IF coset THEN ScaleGeom(FQ, i1, FG) ELSE i1
      o1 == DFT(FQ, i2, Wn(n))
  IN IF dec = "DIF" THEN BitRevPerm(o1) ELSE o1

FFTInv(a, dec, coset) ==
  LET n == Len(a)
      i1 == IF dec = "DIT" THEN BitRevPerm(a) ELSE a
      o1 == IDFT(FQ, i1, Wn(n))
      o2 == IF coset THEN ScaleGeom(FQ, o1, GInv) ELSE o1
  IN IF dec = "DIF" THEN BitRevPerm(o2) ELSE o2

Grow(cv, card) == PadTo(cv, card)

-----------------------------------------------------------------------------
(* Conversions on the shared struct vr = [cv, basis, layout]: the dispatch tables of polynomial.go *)

IsForm(vr, b, lay) == vr.basis = b /\ vr.layout = lay
VR(cv, b, lay) == [cv |-> cv, basis |-> b, layout |-> lay]

\* enabling condition: the domain matches the stored vector; only a canonical/regular vector may
\* be extended (zero padding keeps the polynomial only there)
ConvEnabled(vr, card) ==
  /\ IsPow2(card) /\ card <= FN
  /\ IF IsForm(vr, CANONICAL, REGULAR) THEN card >= Len(vr.cv) ELSE card = Len(vr.cv)

ToLagrangeOp(vr, card) ==
  LET cv == Grow(vr.cv, card) IN
  CASE IsForm(vr, CANONICAL, REGULAR)        -> VR(FFT(cv, "DIF", FALSE), LAGRANGE, BITREVERSE)
    [] IsForm(vr, CANONICAL, BITREVERSE)     -> VR(FFT(cv, "DIT", FALSE), LAGRANGE, REGULAR)
    [] vr.basis = LAGRANGE                   -> VR(cv, vr.basis, vr.layout)
    [] IsForm(vr, LAGRANGECOSET, REGULAR)    -> VR(FFT(FFTInv(cv, "DIF", TRUE), "DIT", FALSE), LAGRANGE, REGULAR)
    [] IsForm(vr, LAGRANGECOSET, BITREVERSE) -> VR(FFT(FFTInv(cv, "DIT", TRUE), "DIF", FALSE), LAGRANGE, BITREVERSE)

ToCanonicalOp(vr, card) ==
  LET cv == Grow(vr.cv, card) IN
  CASE vr.basis = CANONICAL                  -> VR(cv, vr.basis, vr.layout)
    [] IsForm(vr, LAGRANGE, REGULAR)         -> VR(FFTInv(cv, "DIF", FALSE), CANONICAL, BITREVERSE)
    [] IsForm(vr, LAGRANGE, BITREVERSE)      -> VR(FFTInv(cv, "DIT", FALSE), CANONICAL, REGULAR)
    [] IsForm(vr, LAGRANGECOSET, REGULAR)    -> VR(FFTInv(cv, "DIF", TRUE), CANONICAL, BITREVERSE)
    [] IsForm(vr, LAGRANGECOSET, BITREVERSE) -> VR(FFTInv(cv, "DIT", TRUE), CANONICAL, REGULAR)

\* (ToLagrangeCoset also records the coset of the domain on the handle, on every path: see DoConv)
ToLagrangeCosetOp(vr, card) ==
  LET cv == Grow(vr.cv, card) IN
  CASE IsForm(vr, CANONICAL, REGULAR)        -> VR(FFT(cv, "DIF", TRUE), LAGRANGECOSET, BITREVERSE)
    [] IsForm(vr, CANONICAL, BITREVERSE)     -> VR(FFT(cv, "DIT", TRUE), LAGRANGECOSET, REGULAR)
    [] IsForm(vr, LAGRANGE, REGULAR)         -> VR(FFT(FFTInv(cv, "DIF", FALSE), "DIT", TRUE), LAGRANGECOSET, REGULAR)
    [] IsForm(vr, LAGRANGE, BITREVERSE)      -> VR(FFT(FFTInv(cv, "DIT", FALSE), "DIF", TRUE), LAGRANGECOSET, BITREVERSE)
    [] vr.basis = LAGRANGECOSET              -> VR(cv, vr.basis, vr.layout)

ConvOp(kind, vr, card) ==
  CASE kind = "ToLagrange"      -> ToLagrangeOp(vr, card)
    [] kind = "ToCanonical"     -> ToCanonicalOp(vr, card)
    [] kind = "ToLagrangeCoset" -> ToLagrangeCosetOp(vr, card)
ConvKinds == {"ToLagrange", "ToCanonical", "ToLagrangeCoset"}

LayoutEnabled(vr) == IsPow2(Len(vr.cv))
LayoutOp(kind, vr) ==
  LET want == IF kind = "ToRegular" THEN REGULAR ELSE BITREVERSE IN
  IF vr.layout = want THEN vr ELSE VR(BitRevPerm(vr.cv), vr.basis, want)
LayoutKinds == {"ToRegular", "ToBitReverse"}

-----------------------------------------------------------------------------
(* State transformers.  st = [objs, vecs, blobs] *)

St == [objs |-> objs, vecs |-> vecs, blobs |-> blobs]
Apply(ns) == objs' = ns.objs /\ vecs' = ns.vecs /\ blobs' = ns.blobs /\ UNCHANGED ctxp
EmptySt == [objs |-> <<>>, vecs |-> <<>>, blobs |-> <<>>]

Live(st, id) == id \in DOMAIN st.objs
VRec(st, id) == st.vecs[st.objs[id].vec]
Vec(st, id) == VRec(st, id).cv

NewObj(v, size, ghost) ==
  [vec |-> v, shift |-> 0, size |-> size, coset |-> Zero, ghost |-> ghost, unspec |-> FALSE]

\* NewPolynomial(&cv, form): a fresh handle on a fresh struct (vector ids are the creating handle ids)
DoNew(st, id, cv, basis, layout) ==
  [st EXCEPT !.objs = (id :> NewObj(id, Len(cv), Denote(basis, layout, cv))) @@ st.objs,
             !.vecs = (id :> VR(cv, basis, layout)) @@ st.vecs]

DoConv(st, kind, id, card) ==
  LET o == st.objs[id] IN
  [st EXCEPT !.vecs = [st.vecs EXCEPT ![o.vec] = ConvOp(kind, st.vecs[o.vec], card)],
             !.objs = [st.objs EXCEPT ![id].coset = IF kind = "ToLagrangeCoset" THEN FG ELSE o.coset]]
DoLayout(st, kind, id) ==
  LET o == st.objs[id] IN [st EXCEPT !.vecs = [st.vecs EXCEPT ![o.vec] = LayoutOp(kind, st.vecs[o.vec])]]

\* Clone: deep copy (own struct); ShallowClone: copy of the handle, same struct (vector AND form shared)
DoClone(st, id, dst) ==
  [st EXCEPT !.objs = (dst :> [st.objs[id] EXCEPT !.vec = dst]) @@ st.objs,
             !.vecs = (dst :> VRec(st, id)) @@ st.vecs]
DoShallow(st, id, dst) == [st EXCEPT !.objs = (dst :> st.objs[id]) @@ st.objs]

\* the harness forgets a handle (garbage): the struct goes with its last handle
DoDrop(st, id) ==
  LET v == st.objs[id].vec
      rest == [j \in (DOMAIN st.objs) \ {id} |-> st.objs[j]]
      used == \E j \in DOMAIN rest : rest[j].vec = v
  IN [st EXCEPT !.objs = rest,
                !.vecs = IF used THEN st.vecs ELSE [u \in (DOMAIN st.vecs) \ {v} |-> st.vecs[u]]]

\* result handle of a derived builder: fresh struct, shift 0, no coset recorded
DoBuilt(st, dst, cv, basis, layout, size, unspecified) ==
  [st EXCEPT !.objs = (dst :> [NewObj(dst, size, Denote(basis, layout, cv)) EXCEPT !.unspec = unspecified]) @@ st.objs,
             !.vecs = (dst :> VR(cv, basis, layout)) @@ st.vecs]

DoShift(st, id, k)    == [st EXCEPT !.objs = [st.objs EXCEPT ![id].shift = k]]
DoSetSize(st, id, sz) == [st EXCEPT !.objs = [st.objs EXCEPT ![id].size = sz]]

\* WriteTo / ReadFrom: the round trip yields a handle denoting the same (shifted) polynomial.
\* The byte format is not part of the property.  The code stores the shift as a uint32: a negative
\* shift s is read back as 2^32 + s, which is the same power of w_size whenever size divides 2^32
\* (checked by RoundTripShiftOK below); the specification keeps the integer s.
DoWrite(st, id, blob) == [st EXCEPT !.blobs = (blob :> [o |-> st.objs[id], vr |-> VRec(st, id)]) @@ st.blobs]
DoRead(st, blob, dst) ==
  [st EXCEPT !.objs = (dst :> [st.blobs[blob].o EXCEPT !.vec = dst]) @@ st.objs,
             !.vecs = (dst :> st.blobs[blob].vr) @@ st.vecs]
RoundTripShiftOK(o) ==
  LET n == NextPow2(o.size)
      e == ZMod(ZInt(o.shift < 0, FromInt(IF o.shift < 0 THEN -o.shift ELSE o.shift)), Shl(One, 32)) IN
  PowMod(Wn(n), e, FQ) = Wpow(n, o.shift)

-----------------------------------------------------------------------------
(* Observations: what the property demands (Spec) and what the algorithms compute (Algo) *)

SizeOK(o, n) == o.size >= 1 /\ NextPow2(o.size) <= FN /\ (o.shift # 0 => (IsPow2(o.size) /\ n % o.size = 0))
ShiftGen(o) == Wpow(NextPow2(o.size), o.shift)                     \* w_size^shift, any integer shift
\* Evaluate has a defined value unless, in coset form, no coset was ever recorded on this handle
Observable(o, vr) == ~o.unspec /\ (vr.basis = LAGRANGECOSET => o.coset # Zero)

\* value of the denoted shifted polynomial P'(x) = P(w_size^shift x)
EvalSpec(o, x) == PEval(FQ, o.ghost, FMul(FQ, x, ShiftGen(o)))

\* barycentric evaluation on the subgroup of order n of the values a (natural order)
BaryAlgo(a, x) ==
  LET n == Len(a)
      pw == PowTab(FQ, Wn(n), n)
      hit == {i \in 1..n : pw[i] = x} IN
  IF hit # {} /\ Variant # "code-bary" THEN a[CHOOSE i \in hit : TRUE]
  ELSE LET c == FMul(FQ, FSub(FQ, FPowInt(FQ, x, n), One), FInv(FQ, FromInt(n)))      \* (x^n - 1)/n
       IN FMul(FQ, c, FSum(FQ, Force([i \in 1..n |->
                 FMul(FQ, a[i], FMul(FQ, pw[i], FInv(FQ, FSub(FQ, x, pw[i]))))])))

\* Polynomial.Evaluate: divide by the coset, multiply by the shift power, Horner or barycentric
EvalAlgo(o, vr, x) ==
  LET x1 == IF vr.basis = LAGRANGECOSET THEN FDiv(FQ, x, o.coset) ELSE x
      g  == IF Variant = "code-shift" /\ ~(o.shift \in 0..5) THEN Zero ELSE ShiftGen(o)
      x2 == IF o.shift = 0 THEN x1 ELSE FMul(FQ, x1, g)
      a  == NatOrd(vr.layout, vr.cv) IN
  IF vr.basis = CANONICAL THEN PEval(FQ, a, x2) ELSE BaryAlgo(a, x2)

\* Polynomial.GetCoeff(i), 0 <= i < n: index arithmetic with the shift, then the layout
CoeffIndex(o, n, i) == (i + (n \div o.size) * o.shift) % n
CoeffAlgo(o, vr, i) == NatOrd(vr.layout, vr.cv)[CoeffIndex(o, Len(vr.cv), i) + 1]
\* ... which the property reads as a value of P' on the (coset of the) domain of the stored vector;
\* in canonical form only the unshifted coefficient has a meaning
CoeffSpecified(o, vr) == ~o.unspec /\ (vr.basis = CANONICAL => o.shift = 0)
CoeffSpec(o, vr, i) ==
  LET n == Len(vr.cv) IN
  CASE vr.basis = CANONICAL     -> Coef(o.ghost, i + 1)
    [] vr.basis = LAGRANGE      -> EvalSpec(o, Wpow(n, i))
    [] vr.basis = LAGRANGECOSET -> EvalSpec(o, FMul(FQ, FG, Wpow(n, i)))

-----------------------------------------------------------------------------
(* The property on a state *)

RepIndOf(st) == \A id \in DOMAIN st.objs :
  LET o == st.objs[id]  vr == st.vecs[o.vec] IN
  ~o.unspec => PolyEq(Denote(vr.basis, vr.layout, vr.cv), o.ghost)

-----------------------------------------------------------------------------
(* Derived builders (definitions) *)

\* Expression families of the harness: f(i, x_1..x_m) = k0*i + sum_j a_j x_j + b * prod_j x_j
ExprVal(ex, i, xs) ==
  LET lin == FSum(FQ, Force([j \in 1..Len(xs) |-> FMul(FQ, ex.a[j], xs[j])]))
  IN FAdd(FQ, FAdd(FQ, FMul(FQ, ex.k0, Mod(FromInt(i), FQ)), lin), FMul(FQ, ex.b, FProd(FQ, xs)))

\* iop.Evaluate(f, r, form, x...): entry idx(i) of the result is f(i, x_1.GetCoeff(i), ..)
ExprVector(st, ids, ex, layout) ==
  LET n == Len(Vec(st, ids[1]))
      nat == Force([i \in 1..n |->
                ExprVal(ex, i-1, Force([j \in 1..Len(ids) |-> CoeffAlgo(st.objs[ids[j]], VRec(st, ids[j]), i-1)]))])
  IN NatOrd(layout, nat)

\* DivideByXMinusOne(a, [d0, d1]): a in coset form on the domain of cardinality N = Len(vector),
\* size = n = cardinality of d0.  Result: canonical regular R with
\*   R(g w_N^i) * ((g w_N^i)^n - 1) = a'(g w_N^i)   for all i  (a' the shifted a)
DivideVector(o, vr) ==
  LET N == Len(vr.cv)
      n == o.size
      vals == Force([i \in 1..N |->
                FMul(FQ, CoeffAlgo(o, vr, i-1),
                     FInv(FQ, FSub(FQ, FPowInt(FQ, FMul(FQ, FG, Wpow(N, i-1)), n), One)))])
  IN CosetIDFT(FQ, vals, Wn(N), FG)

\* accumulating ratio: Z[1] = 1, Z[i+1] = Z[i] * num[i] / den[i]; values on the domain in natural order
RECURSIVE RatioR(_,_,_)
RatioR(num, den, acc) ==
  IF Len(acc) >= Len(num) THEN acc
  ELSE LET i == Len(acc) IN RatioR(num, den, Append(acc, FMul(FQ, acc[i], FDiv(FQ, num[i], den[i]))))
RatioValues(num, den) == RatioR(num, den, <<One>>)

\* values of object id on its domain in natural order, ignoring the shift (the builders read Coefficients())
LagValues(st, id) == NatOrd(VRec(st, id).layout, Vec(st, id))

\* BuildRatioShuffledVectors after the inputs were put in Lagrange form:
\*   num[i] = prod_j (beta - N_j(w^(i-1))),  den[i] = prod_j (beta - D_j(w^(i-1)))
ShuffledNumDen(st, ids, beta, n) ==
  Force([i \in 1..n |->
     FProd(FQ, Force([j \in 1..Len(ids) |-> FSub(FQ, beta, LagValues(st, ids[j])[i])]))])

\* BuildRatioCopyConstraint: support id[i + j n] = g^j w^i; sigma given as indices into the support
Support(n, k) == LET j == k \div n  i == k % n IN FMul(FQ, FPowInt(FQ, FG, j), Wpow(n, i))
CopyNum(st, ids, beta, gamma, n) ==
  Force([i \in 1..n |->
     FProd(FQ, Force([j \in 1..Len(ids) |->
        FAdd(FQ, FAdd(FQ, FMul(FQ, beta, Support(n, (i-1) + (j-1)*n)), gamma), LagValues(st, ids[j])[i])]))])
CopyDen(st, ids, perm, beta, gamma, n) ==
  Force([i \in 1..n |->
     FProd(FQ, Force([j \in 1..Len(ids) |->
        FAdd(FQ, FAdd(FQ, FMul(FQ, beta, Support(n, perm[(i-1) + (j-1)*n + 1])), gamma), LagValues(st, ids[j])[i])]))])

\* the result object of a builder: Lagrange values z (natural order) delivered in the expected form
BuilderVector(z, basis, layout) == Encode(IDFT(FQ, z, Wn(Len(z))), basis, layout)
=============================================================================
