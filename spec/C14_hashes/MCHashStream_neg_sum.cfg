SPECIFICATION Spec
CONSTANTS
  Kind = "md"
  Variant = "sumabsorbs"
  MaxBlocks = 3
INVARIANTS ReplyOK
CHECK_DEADLOCK FALSE
