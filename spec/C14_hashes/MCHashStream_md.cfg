SPECIFICATION Spec
CONSTANTS
  Kind = "md"
  Variant = "spec"
  MaxBlocks = 3
INVARIANTS Canonical DigestOfConcatenation ReplyOK SplitInvariance ErrKeepsState
CHECK_DEADLOCK FALSE
