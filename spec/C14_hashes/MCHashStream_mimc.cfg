SPECIFICATION Spec
CONSTANTS
  Kind = "mimc"
  Variant = "spec"
  MaxBlocks = 3
INVARIANTS Canonical DigestOfConcatenation ReplyOK SplitInvariance ErrKeepsState
CHECK_DEADLOCK FALSE
