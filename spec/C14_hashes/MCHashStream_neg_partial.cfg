SPECIFICATION Spec
CONSTANTS
  Kind = "mimc"
  Variant = "partial"
  MaxBlocks = 3
INVARIANTS ErrKeepsState
CHECK_DEADLOCK FALSE
