SPECIFICATION Spec
INVARIANT Law
CHECK_DEADLOCK FALSE
