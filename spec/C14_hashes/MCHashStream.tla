---------------------------- MODULE MCHashStream ----------------------------
(* Exhaustive model checking of the streaming hash object at toy parameters:    *)
(* field F_13, elements of 2 bytes, MiMC with 3 rounds of x^5 / Merkle-Damgard   *)
(* over a width-2 Poseidon2.  The machine is written the way the Go code works   *)
(* (MiMC: Write only parses and buffers elements, Sum/State fold the buffer into *)
(* h and flush it; Merkle-Damgard: Write compresses block by block) with one     *)
(* action per public entry point.  Ghost variables record the history since the  *)
(* last Reset / SetState; the invariants state property C14 on the design:       *)
(*   the digest is the one-piece hash (Hashes!MiMCFold / P2MDFold) of the        *)
(*   concatenated accepted blocks, whatever the sequence of Write/Sum/State/     *)
(*   SetState/Reset calls and however writes are split at block boundaries;      *)
(*   Sum(b) = b \o digest; a failed Write reporting n bytes has absorbed exactly *)
(*   those; restoring a saved state continues the saved history.                 *)
(* Variant # "spec" models the defects suspected in the code (negative self-     *)
(* tests): "partial" = MiMC keeps the valid prefix of a rejected write (F9),     *)
(* "sumabsorbs" = Merkle-Damgard Sum(b) writes b into the state (F10).           *)
EXTENDS HashStream, TLC

CONSTANTS Kind, Variant, MaxBlocks

Q13 == FromInt(13)
ToyP == [q |-> Q13, t |-> 2, rf |-> 2, rp |-> 2, d |-> 5,
         rk |-> <<FromInt(3), FromInt(9), FromInt(4), FromInt(11), FromInt(6), FromInt(2)>>,
         m4 |-> <<>>, mu |-> <<One, Two>>]
H == [kind |-> Kind, q |-> Q13, eb |-> 2, n |-> 1, le |-> FALSE, d |-> 5,
      cs |-> <<FromInt(7), FromInt(2), FromInt(10)>>, P |-> ToyP]
Lazy == Kind = "mimc"

\* write arguments: empty, short (padded), one / two / three blocks, non-canonical blocks in first and second
\* position, ragged lengths (blocks + 1 byte)
Inputs == { <<>>, <<5>>, <<13>>, <<0,5>>, <<0,0>>, <<0,13>>, <<0,5,0,0>>, <<0,5,0,13>>, <<0,13,0,5>>,
            <<0,5,5>>, <<0,5,0,0,5>>, <<0,5,0,5,0,0>> }
SumArgs == { <<>>, <<0,5>>, <<7>> }
BadStates == { <<0,13>>, <<5>> }

VARIABLES h, data,                \* implementation state: chaining value, parsed but not yet hashed blocks
          saved,                  \* <<>> or <<record>>: bytes returned by State() with the ghost history they stand for
          gbase, gmsg,            \* ghost: chaining value at the last Reset/SetState, blocks accepted since
          aligned, flat,          \* ghost: all writes since then were whole blocks; their concatenation
          reply                   \* what the last call returned
vars == <<h, data, saved, gbase, gmsg, aligned, flat, reply>>

Cur == AbsorbAll(H, h, data)      \* chaining value the object stands for

Init == /\ h = IV(H) /\ data = <<>> /\ saved = <<>> /\ gbase = IV(H) /\ gmsg = <<>>
        /\ aligned = TRUE /\ flat = <<>> /\ reply = [op |-> "New"]

Take(ch, k) == SubSeq(ch, 1, k)

Write(p) ==
  LET ch == Chunks(H, p)
      nv == NValid(H, ch)
      ok == WriteOK(H, p)
      \* blocks really taken over / number of bytes reported
      kept == IF ok THEN Len(ch) ELSE IF Lazy THEN (IF Variant = "partial" THEN nv ELSE 0) ELSE nv
      told == IF ok THEN Len(ch) ELSE IF Lazy THEN 0 ELSE nv
      nh == IF Lazy THEN h ELSE AbsorbK(H, h, ch, kept)
      nd == IF Lazy THEN data \o Take(ch, kept) ELSE data
  IN /\ Len(gmsg) + Len(ch) <= MaxBlocks
     /\ h' = nh /\ data' = nd
     /\ gmsg' = gmsg \o Take(ch, told)
     /\ aligned' = (aligned /\ (~ok \/ TailLen(H, p) = 0))
     /\ flat' = IF ok /\ TailLen(H, p) = 0 THEN flat \o p ELSE flat
     /\ reply' = [op |-> "Write", err |-> ~ok, n |-> IF ok THEN Len(p) ELSE told * BS(H),
                  moved |-> AbsorbAll(H, nh, nd) # Cur]
     /\ UNCHANGED <<saved, gbase>>

Sum(b) ==
  IF Variant = "sumabsorbs" /\ ~Lazy
  THEN \* merkleDamgardHasher.Sum as written: Write(b), return the state
       LET ch == Chunks(H, b) IN
       /\ WriteOK(H, b)
       /\ h' = AbsorbAll(H, h, ch)
       /\ reply' = [op |-> "Sum", b |-> b, out |-> Digest(H, AbsorbAll(H, h, ch)), moved |-> AbsorbAll(H, h, ch) # Cur]
       /\ UNCHANGED <<data, saved, gbase, gmsg, aligned, flat>>
  ELSE /\ h' = Cur /\ data' = <<>>                 \* MiMC flushes; a no-op for Merkle-Damgard
       /\ reply' = [op |-> "Sum", b |-> b, out |-> b \o Digest(H, Cur), moved |-> FALSE]
       /\ UNCHANGED <<saved, gbase, gmsg, aligned, flat>>

Reset == /\ h' = IV(H) /\ data' = <<>> /\ gbase' = IV(H) /\ gmsg' = <<>> /\ aligned' = TRUE /\ flat' = <<>>
         /\ reply' = [op |-> "Reset"] /\ UNCHANGED saved

State == /\ h' = Cur /\ data' = <<>>
         /\ saved' = <<[s |-> Digest(H, Cur), gbase |-> gbase, gmsg |-> gmsg, aligned |-> aligned, flat |-> flat]>>
         /\ reply' = [op |-> "State", out |-> Digest(H, Cur)]
         /\ UNCHANGED <<gbase, gmsg, aligned, flat>>

SetStateSaved ==
  /\ saved # <<>>
  /\ h' = DecodeState(H, saved[1].s) /\ data' = <<>>
  /\ gbase' = saved[1].gbase /\ gmsg' = saved[1].gmsg /\ aligned' = saved[1].aligned /\ flat' = saved[1].flat
  /\ reply' = [op |-> "SetState", err |-> FALSE] /\ UNCHANGED saved

SetStateBad(s) ==
  /\ ~StateValid(H, s)
  /\ reply' = [op |-> "SetState", err |-> TRUE]
  /\ UNCHANGED <<h, data, saved, gbase, gmsg, aligned, flat>>

Next == \/ \E p \in Inputs : Write(p)
        \/ \E b \in SumArgs : Sum(b)
        \/ Reset \/ State \/ SetStateSaved
        \/ \E s \in BadStates : SetStateBad(s)
Spec == Init /\ [][Next]_vars

\* ---- property C14 on the design
Expected == OneShot(H, gbase, gmsg)
Canonical == \A j \in 1..H.n : InField(H.q, Cur[j])
DigestOfConcatenation == Cur = Expected
ReplyOK == /\ reply.op = "Sum" => reply.out = reply.b \o Digest(H, Expected)
           /\ reply.op = "State" => reply.out = Digest(H, Expected)
\* splitting writes at block boundaries: same state as a single Write of the concatenation
SplitInvariance == aligned => /\ WriteOK(H, flat)
                              /\ Cur = AbsorbAll(H, gbase, Chunks(H, flat))
Invs == Canonical /\ DigestOfConcatenation /\ ReplyOK /\ SplitInvariance

\* a Write that reports an error and zero bytes leaves the object where it was; Sum never moves it
\* (reply.moved records whether the call changed the chaining value the object stands for)
ErrKeepsState == (reply.op = "Write" /\ reply.err /\ reply.n = 0) \/ reply.op = "Sum" => ~reply.moved
=============================================================================
