----------------------------- MODULE TraceHashes -----------------------------
(* Trace validation for C14.  One trace = one hash family on one field:          *)
(*   family "mimc"  MiMC stream objects (constructor / registry), package Sum      *)
(*   family "p2"    Poseidon2: Permutation, Compress, Merkle-Damgard stream objects *)
(*   family "sis"   ring-SIS Hash                                                  *)
(* Header: field, family, name; le (MiMC byte order); cs = MiMC constants and      *)
(* p2[i] = [t, rf, rp, rk] Poseidon2 round constants, both re-derived by the        *)
(* harness with legacy Keccak (x/crypto/sha3) - NOT read from the library; mdp =   *)
(* index in p2 of the parameters of the hash wrapper; sis[i] = [logd, lb, max, key] *)
(* with the key re-derived with blake2b.  Degrees, round numbers, matrices and      *)
(* default parameters come from the frozen HashParams.                             *)
(* Stream events carry sc (scenario); a "New" event starts a fresh object.         *)
(* The machine state is the abstract chaining value of HashStream.                 *)
EXTENDS TraceKernel, HashStream, FieldParams, HashParams, HashOps

VARIABLE st          \* [cv |-> chaining value, undef |-> state unspecified (see SetState)]

F == FieldP(Hdr.field)
q == F.q
R == Shl(One, F.w * F.n)
Rinv == InvMod(MulMod(R, One, q), q)
val(raw) == MulMod(raw, Rinv, q)
Canon(raw) == InField(q, raw)
Vals(v) == [i \in 1..Len(v) |-> val(v[i])] \o <<>>
AllCanon(v) == \A i \in 1..Len(v) : Canon(v[i])

\* Poseidon2 parameter sets of this trace (evaluated once)
P2s == [i \in 1..Len(Hdr.p2) |->
          P2Make(Hdr.field, q, Hdr.p2[i].t, Hdr.p2[i].rf, Hdr.p2[i].rp,
                 [k \in 1..Len(Hdr.p2[i].rk) |-> MulMod(Hdr.p2[i].rk[k], One, q)] \o <<>>)] \o <<>>
\* a parameter set is usable iff the package defines the width and the harness handed over the right number of constants
P2Usable(i) == /\ P2s[i].t \in P2Widths(Hdr.field)
               /\ Len(P2s[i].rk) = P2NbConstants(P2s[i].t, P2s[i].rf, P2s[i].rp)

MiMCcs == [k \in 1..Len(Hdr.cs) |-> MulMod(Hdr.cs[k], One, q)] \o <<>>

\* the streaming object of this trace
H == IF Hdr.family = "mimc"
     THEN [kind |-> "mimc", q |-> q, eb |-> F.bytes, n |-> 1, le |-> Hdr.le,
           d |-> MiMCP(Hdr.field).d, cs |-> MiMCcs, P |-> <<>>]
     ELSE [kind |-> "md", q |-> q, eb |-> F.bytes, n |-> P2s[Hdr.mdp].t \div 2, le |-> FALSE,
           d |-> 0, cs |-> <<>>, P |-> P2s[Hdr.mdp]]

\* sanity of what the harness handed over, judged on the "Params" event
JParams(e) ==
  IF Hdr.family = "mimc"
  THEN (IF Len(Hdr.cs) # MiMCP(Hdr.field).rounds THEN {"harness-constants"} ELSE {})
       \* (the S-box degree 5 divides r-1 on bls24-315, so x^5 is not a bijection there: a design observation that the
       \*  property "computes its definition" does not cover - recorded in DESIGN.md, not judged)
  ELSE IF Hdr.family = "p2"
  THEN (IF <<P2s[Hdr.mdp].t, P2s[Hdr.mdp].rf, P2s[Hdr.mdp].rp>> # P2Default(Hdr.field) THEN {"harness-default-params"} ELSE {})
  ELSE {}

Init == KInit /\ st = [cv |-> <<>>, undef |-> TRUE]

Rsn(c, r) == IF c THEN {r} ELSE {}
BytesPrefixOf(b, s) == Len(b) <= Len(s) /\ SubSeq(s, 1, Len(b)) = b

\* ------------------------------------------------------------------ stream object
\* Write(p): p = bytes of the slice, pafter = the same bytes after the call, n / err = reply.
\* Success: the reply count is not part of the property; both len(p) and the padded length are accepted
\* (the code reports the padded length for short writes).  Failure: the object must stand for the first
\* n reported bytes (io.Writer: n bytes consumed), n a whole number of leading valid blocks.
WChunks(e) == Chunks(H, e.p)
WKept(e) == LET nv == NValid(H, WChunks(e))
            IN IF WriteOK(H, e.p) THEN Len(WChunks(e))
               ELSE IF ~Panicked(e) /\ Has(e, "err") /\ e.n % BS(H) = 0 /\ e.n \div BS(H) <= nv /\ e.n >= 0
                    THEN e.n \div BS(H) ELSE 0
JWrite(e) ==
  IF Panicked(e) THEN {"panic"}
  ELSE Rsn(e.pafter # e.p, "mutated")
       \cup (IF st.undef THEN {}
             ELSE LET ok == WriteOK(H, e.p)
                      nv == NValid(H, WChunks(e))
                  IN Rsn(ok /\ Has(e, "err"), "spurious-error")
                     \cup Rsn(~ok /\ ~Has(e, "err"), "swallowed-error")
                     \cup Rsn(ok /\ ~Has(e, "err") /\ e.n \notin {Len(e.p), Len(WChunks(e)) * BS(H)}, "count")
                     \cup Rsn(~ok /\ Has(e, "err") /\ ~(e.n >= 0 /\ e.n % BS(H) = 0 /\ e.n \div BS(H) <= nv), "count"))
NWrite(e) == IF st.undef THEN st ELSE [st EXCEPT !.cv = AbsorbK(H, st.cv, WChunks(e), WKept(e))]

\* MiMC WriteString(s): "writes a string that doesn't necessarily consist of field elements" - one block, the element
\* hash_to_field(s, DST "string:") of RFC 9380 (expand_message_xmd over SHA-256)
LOCAL H2 == INSTANCE H2C
StringDST == <<115, 116, 114, 105, 110, 103, 58>>
StringElem(e) == H2!HashToField(q, F.bits, e.p, StringDST, 1)[1]
JWriteString(e) ==
  IF Panicked(e) THEN {"panic"}
  ELSE Rsn(e.pafter # e.p, "mutated") \cup Rsn(Has(e, "err"), "spurious-error")
NWriteString(e) ==
  IF st.undef \/ Panicked(e) \/ Has(e, "err") \/ H.kind # "mimc" THEN st
  ELSE [st EXCEPT !.cv = <<MiMCStep(H.q, H.d, H.cs, st.cv[1], StringElem(e))>>]

\* Sum(b) = b \o digest, the object does not move
JSum(e) ==
  IF Panicked(e) THEN {"panic"}
  ELSE IF st.undef THEN {}
  ELSE LET dg == Digest(H, st.cv) IN
       IF e.out = e.b \o dg THEN {}
       ELSE IF Len(e.out) = Len(e.b) + Len(dg) /\ BytesPrefixOf(e.b, e.out) THEN {"digest"} ELSE {"append"}

JState(e) ==
  IF Panicked(e) THEN {"panic"}
  ELSE IF st.undef THEN {}
  ELSE Rsn(e.out # Digest(H, st.cv), "digest")

\* SetState(s).  A valid state (a block of canonical elements) must be accepted and makes the object stand
\* for it.  For an invalid s the property is silent: an error must leave the object unchanged; silent
\* acceptance (Merkle-Damgard wrapper) leaves the object unspecified until the next Reset/SetState/New.
JSetState(e) ==
  IF Panicked(e) THEN {"panic"}
  ELSE Rsn(StateValid(H, e.s) /\ Has(e, "err"), "spurious-error") \cup Rsn(e.safter # e.s, "mutated")
NSetState(e) ==
  IF StateValid(H, e.s) THEN [cv |-> DecodeState(H, e.s), undef |-> FALSE]
  ELSE IF Panicked(e) \/ Has(e, "err") THEN st
  ELSE [st EXCEPT !.undef = TRUE]

JSize(e) == IF Panicked(e) THEN {"panic"} ELSE Rsn(e.ret # BS(H), "size")

\* ------------------------------------------------------------------ functions
\* package-level mimc.Sum(msg): digest of a fresh object
JMimcSum(e) ==
  IF Panicked(e) THEN {"panic"}
  ELSE LET ok == WriteOK(H, e.p) IN
       Rsn(ok /\ Has(e, "err"), "spurious-error") \cup Rsn(~ok /\ ~Has(e, "err"), "swallowed-error")
       \cup Rsn(ok /\ ~Has(e, "err") /\ e.out # Digest(H, AbsorbAll(H, IV(H), Chunks(H, e.p))), "digest")

\* Permutation.Permutation(in): raw Montgomery limbs before (in) and after (out) the call
JPerm(e) ==
  IF Panicked(e) THEN {"panic"}
  ELSE LET P == P2s[e.pi] IN
       IF Len(e.in) # P.t
       THEN Rsn(~Has(e, "err"), "swallowed-error") \cup Rsn(e.out # e.in, "mutated")
       ELSE IF Has(e, "err") THEN {"spurious-error"}
       ELSE IF ~AllCanon(e.out) THEN {"noncanonical"}
       ELSE Rsn(Vals(e.out) # P2Perm(P, Vals(e.in)), "value")

\* Compress(l, r) on byte strings
JCompress(e) ==
  IF Panicked(e) THEN {"panic"}
  ELSE LET P == P2s[e.pi]
           n == P.t \div 2
           HC == [kind |-> "md", q |-> q, eb |-> F.bytes, n |-> n, le |-> FALSE, d |-> 0, cs |-> <<>>, P |-> P]
           ok == P.t = 2 * n /\ BlockValid(HC, FALSE, e.l) /\ BlockValid(HC, FALSE, e.r)
       IN Rsn(e.lafter # e.l \/ e.rafter # e.r, "mutated")
          \cup Rsn(ok /\ Has(e, "err"), "spurious-error") \cup Rsn(~ok /\ ~Has(e, "err"), "swallowed-error")
          \cup Rsn(ok /\ ~Has(e, "err") /\
                   e.out # Digest(HC, P2Compress(P, ElemsOf(HC, FALSE, e.l), ElemsOf(HC, FALSE, e.r))), "value")

\* ring-SIS.  The reference the library is tested against (sis.sage, "careful Montgomery constant") reads every limb as a
\* Montgomery residue: coefficient = limb * R^-1 with R = 2^(8 * element bytes) (= the Montgomery radix of the field), so
\* Hash(v) = R^-1 * sum_i A_i * M_i mod X^d + 1.  That documented reference is what is demanded here (the Go doc comment
\* omits the constant factor; the scaling is a fixed unit and does not affect the SIS problem).
SisScale(v) == [k \in 1..Len(v) |-> FMul(q, Rinv, v[k])] \o <<>>
SisKey(i) == [a \in 1..Len(Hdr.sis[i].key) |->
                [c \in 1..Len(Hdr.sis[i].key[a]) |-> MulMod(Hdr.sis[i].key[a][c], One, q)] \o <<>>] \o <<>>
SisKeys == [i \in 1..Len(Hdr.sis) |-> SisKey(i)] \o <<>>
TwoTo(k) == ToInt(Shl(One, k))
\* number of polynomials for max elements: ceil(max * (eb / lb) / d)
SisNPoly(S) == LET limbs == S.max * (F.bytes \div S.lb)  d == TwoTo(S.logd)
               IN (limbs + d - 1) \div d
\* the key the library derived (A, raw Montgomery) against the documented derivation
JSisNew(e) ==
  IF Panicked(e) THEN {"panic"}
  ELSE IF Has(e, "err") THEN {"spurious-error"}
  ELSE LET S == Hdr.sis[e.si] IN
       IF Len(e.A) # SisNPoly(S) THEN {"key-size"}
       ELSE Rsn(\E a \in 1..Len(e.A) : ~AllCanon(e.A[a]) \/ Vals(e.A[a]) # SisKeys[e.si][a], "key")
JSisHash(e) ==
  IF Panicked(e) THEN {"panic"}
  ELSE LET S == Hdr.sis[e.si]
           d == TwoTo(S.logd)
           ok == Len(e.v) <= S.max /\ e.reslen = d
       IN Rsn(e.vafter # e.v, "mutated")
          \cup Rsn(ok /\ Has(e, "err"), "spurious-error") \cup Rsn(~ok /\ ~Has(e, "err"), "swallowed-error")
          \cup (IF ok /\ ~Has(e, "err")
                THEN (IF ~AllCanon(e.out) THEN {"noncanonical"}
                      ELSE Rsn(Vals(e.out) # SisScale(SisHash(q, d, SisKeys[e.si], Vals(e.v), F.bytes, S.lb)), "value"))
                ELSE {})

Judge(e) ==
  CASE e.op = "Params"   -> JParams(e)
    \* GetConstants: the documented round constants (as integers below q), a copy on every call
    [] e.op = "MimcConstants" -> IF Panicked(e) THEN {"panic"}
                                 ELSE Rsn(e.cs # MiMCcs, "constants") \cup Rsn(e.cs2 # e.cs, "shared-constants")
    [] e.op = "New"      -> Rsn(Panicked(e), "panic")
    [] e.op = "Write"    -> JWrite(e)
    [] e.op = "WriteString" -> JWriteString(e)
    [] e.op = "Sum"      -> JSum(e)
    [] e.op = "State"    -> JState(e)
    [] e.op = "SetState" -> JSetState(e)
    [] e.op = "Reset"    -> Rsn(Panicked(e), "panic")
    [] e.op = "Size"     -> JSize(e)        \* Size(): number of bytes Sum returns
    [] e.op = "BlockSize" -> JSize(e)       \* block = one compression input = digest size in both constructions
    \* hash.Hash(id).Size(): the registry table holds base-field sizes and disagrees with the digest size for curves with
    \* |fp| # |fr| - an observation outside the stated property (DESIGN.md), so only a panic is rejected here
    [] e.op = "HashSize" -> IF Panicked(e) THEN {"panic"} ELSE {}
    [] e.op = "Scribble" -> {}              \* the caller overwrote a slice it had passed / been returned: no effect allowed
    [] e.op = "MimcSum"  -> JMimcSum(e)
    [] e.op = "Perm"     -> JPerm(e)
    [] e.op = "Compress" -> JCompress(e)
    [] e.op = "SisNew"   -> JSisNew(e)
    [] e.op = "SisHash"  -> JSisHash(e)
    [] OTHER -> {"unknown-op"}

NextSt(e) ==
  CASE e.op = "New"      -> [cv |-> IV(H), undef |-> FALSE]
    [] e.op = "Reset"    -> [cv |-> IV(H), undef |-> FALSE]
    [] e.op = "Write"    -> NWrite(e)
    [] e.op = "WriteString" -> NWriteString(e)
    [] e.op = "SetState" -> NSetState(e)
    [] OTHER -> st

Step == /\ HasNext
        /\ Advance(Judge(Ev))
        /\ st' = NextSt(Ev)

Next == Step \/ (Finish /\ UNCHANGED st)
Spec == Init /\ [][Next]_<<l, bad, st>>
=============================================================================
