----------------------------- MODULE HashStream -----------------------------
(* The streaming hash object of gnark-crypto (hash.Hash + StateStorer) as a     *)
(* function of an abstract state, for the two constructions of the library:     *)
(*   kind "mimc"  MiMC digest: chaining value h (one element), block = 1 element *)
(*   kind "md"    Merkle-Damgard over the Poseidon2 compressor: chaining value   *)
(*                = n = t/2 elements, block = n elements                         *)
(* H = [kind, q, eb (bytes per element), n, le (little-endian block decoding),   *)
(*      d, cs (MiMC)  |  P (Poseidon2 parameter record)]                         *)
(* Abstract state: cv, the chaining value after everything absorbed so far (a   *)
(* sequence of n field elements).  The digest is the big-endian encoding of cv. *)
(* Used by MCHashStream (exhaustive, toy field) and TraceHashes (real code).    *)
EXTENDS Hashes

BS(H) == H.eb * H.n                       \* block size in bytes = digest size = state size
ZeroBytes(k) == [i \in 1..k |-> 0]
PadLeft(H, p) == ZeroBytes(BS(H) - Len(p)) \o p
DecodeElem(le, b) == IF le THEN FromBytesLE(b) ELSE FromBytesBE(b)
ElemsOf(H, le, blk) == [j \in 1..H.n |-> DecodeElem(le, SubSeq(blk, (j-1) * H.eb + 1, j * H.eb))] \o <<>>
\* a block is a sequence of canonical field elements
BlockValid(H, le, blk) == Len(blk) = BS(H) /\ \A j \in 1..H.n : Lt(ElemsOf(H, le, blk)[j], H.q)

NFull(H, p) == Len(p) \div BS(H)
TailLen(H, p) == Len(p) % BS(H)
\* MiMC: a write longer than a block must be a whole number of blocks; only a write shorter than one block is
\* left-padded.  Merkle-Damgard wrapper (documented): the last, short block of any write is padded.
Ragged(H, p) == H.kind = "mimc" /\ NFull(H, p) > 0 /\ TailLen(H, p) # 0

\* the blocks a Write(p) presents to the compression function, in order
Chunks(H, p) ==
  LET full == [i \in 1..NFull(H, p) |-> SubSeq(p, (i-1) * BS(H) + 1, i * BS(H))] \o <<>>
  IN IF TailLen(H, p) = 0 \/ Ragged(H, p) THEN full
     ELSE full \o <<PadLeft(H, SubSeq(p, NFull(H, p) * BS(H) + 1, Len(p)))>>

RECURSIVE NValidR(_, _, _)
NValidR(H, ch, i) == IF i > Len(ch) \/ ~BlockValid(H, H.le, ch[i]) THEN i - 1 ELSE NValidR(H, ch, i + 1)
NValid(H, ch) == NValidR(H, ch, 1)          \* number of leading valid blocks

\* Write(p) succeeds iff p is a sequence of canonical field elements
WriteOK(H, p) == ~Ragged(H, p) /\ NValid(H, Chunks(H, p)) = Len(Chunks(H, p))

Absorb(H, cv, blk) ==
  IF H.kind = "mimc" THEN <<MiMCStep(H.q, H.d, H.cs, cv[1], ElemsOf(H, H.le, blk)[1])>>
  ELSE P2Compress(H.P, cv, ElemsOf(H, H.le, blk))

RECURSIVE AbsorbR(_, _, _, _, _)
AbsorbR(H, cv, ch, i, k) == IF i > k THEN cv ELSE AbsorbR(H, Absorb(H, cv, ch[i]), ch, i + 1, k)
AbsorbK(H, cv, ch, k) == AbsorbR(H, cv, ch, 1, k)      \* absorb the first k blocks of ch
AbsorbAll(H, cv, ch) == AbsorbK(H, cv, ch, Len(ch))

IV(H) == [j \in 1..H.n |-> Zero] \o <<>>

RECURSIVE EncodeR(_, _, _)
EncodeR(H, cv, j) == IF j > Len(cv) THEN <<>> ELSE ToBytesBE(cv[j], H.eb) \o EncodeR(H, cv, j + 1)
Digest(H, cv) == EncodeR(H, cv, 1)          \* Sum(nil) and State()

\* the state encoding is always big endian
StateValid(H, s) == BlockValid(H, FALSE, s)
DecodeState(H, s) == ElemsOf(H, FALSE, s)

\* the definition the streaming object has to agree with: the hash of a list of blocks started from base,
\* computed in one piece by the library-level folds (MiMCFold / P2MDFold)
RECURSIVE BlockElems(_, _, _)
BlockElems(H, blocks, i) == IF i > Len(blocks) THEN <<>> ELSE <<ElemsOf(H, H.le, blocks[i])>> \o BlockElems(H, blocks, i + 1)
OneShot(H, base, blocks) ==
  IF H.kind = "mimc"
  THEN <<MiMCFold(H.q, H.d, H.cs, base[1], [i \in 1..Len(blocks) |-> ElemsOf(H, H.le, blocks[i])[1]] \o <<>>)>>
  ELSE P2MDFold(H.P, base, BlockElems(H, blocks, 1))
=============================================================================
