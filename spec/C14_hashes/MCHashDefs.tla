----------------------------- MODULE MCHashDefs -----------------------------
(* Self-check of the definitions in Hashes / HashParams at toy size (exhaustive): *)
(*   1. the MiMC cipher is a permutation of F_13 for every key (d = 5)             *)
(*   2. the Poseidon2 permutation is a bijection for t = 2, 3 (circ layers) and    *)
(*      t = 4 (M4 block, J + diag) over F_13 - and is NOT when d divides q - 1     *)
(*      (the condition the trace spec checks on the real parameters)               *)
(*   3. the fast external layer equals the published matrix circ(2*M4, M4, .., M4) *)
(*      for both 4x4 blocks and t = 8, 12, 16, 24 over the real small fields       *)
(*   4. ring-SIS equals schoolbook polynomial multiplication reduced mod X^d + 1,  *)
(*      for all a, m in F_3[X]/(X^4+1) and F_5[X]/(X^2+1); limbs recompose          *)
(* One state per case (variable c) so that every law is evaluated exactly once.    *)
EXTENDS Hashes, HashParams, FieldParams, FiniteSets, TLC

VARIABLE c
NCases == 24
Init == c = 0
Next == c < NCases /\ c' = c + 1
Spec == Init /\ [][Next]_c

Q13 == FromInt(13)
El(n) == {FromInt(x) : x \in 0..(n-1)}
CS == <<FromInt(7), FromInt(2), FromInt(10)>>
MiMCIsPerm(k) == Cardinality({MiMCEncrypt(Q13, 5, CS, FromInt(k), m) : m \in El(13)}) = 13

Toy(t, d, m4, mu) == [q |-> Q13, t |-> t, rf |-> 2, rp |-> 2, d |-> d,
                      rk |-> [i \in 1..(2 * t + 2) |-> FromInt((7 * i + 3) % 13)] \o <<>>, m4 |-> m4, mu |-> mu]
RECURSIVE Pow(_, _)
Pow(b, e) == IF e = 0 THEN 1 ELSE b * Pow(b, e - 1)
Image(P) == {P2Perm(P, x) : x \in [1..P.t -> El(13)]}
Bijective(P) == Cardinality(Image(P)) = Pow(13, P.t)

\* published matrix form of the external layer
ExtEntry(M, i, j) == (IF (i - 1) \div 4 = (j - 1) \div 4 THEN 2 ELSE 1) * M[((i - 1) % 4) + 1][((j - 1) % 4) + 1]
RECURSIVE RowDot(_, _, _, _, _)
RowDot(q, M, x, i, j) == IF j > Len(x) THEN Zero ELSE FAdd(q, FMulSmall(q, x[j], ExtEntry(M, i, j)), RowDot(q, M, x, i, j + 1))
ExtByMatrix(q, M, x) == [i \in 1..Len(x) |-> RowDot(q, M, x, i, 1)] \o <<>>
TestVec(q, t, k) == [i \in 1..t |-> IF k = 0 THEN FromInt(i * i + 1) ELSE IF i = k THEN Pred(q) ELSE Zero] \o <<>>
ExtAgrees(field, M, t) == LET q == FieldP(field).q IN
                          \A k \in 0..t : P2ExtM4(q, M, TestVec(q, t, k)) = ExtByMatrix(q, M, TestVec(q, t, k))

\* schoolbook product in F_q[X], then X^d = -1
RECURSIVE ConvR(_, _, _, _, _, _)
ConvR(q, a, m, k, i, d) == IF i >= d THEN Zero
                           ELSE FAdd(q, IF k - i >= 0 /\ k - i < d THEN FMul(q, a[i + 1], m[k - i + 1]) ELSE Zero, ConvR(q, a, m, k, i + 1, d))
School(q, d, a, m) == [k \in 0..(d - 1) |-> FSub(q, ConvR(q, a, m, k, 0, d), ConvR(q, a, m, k + d, 0, d))]
SisAgrees(n, d) == LET q == FromInt(n) IN
  \A a \in [1..d -> El(n)] : \A m \in [1..d -> El(n)] :
     LET h == SisHash(q, d, <<a>>, m, 1, 1)  s == School(q, d, a, m) IN \A k \in 1..d : h[k] = s[k - 1]
\* two polynomials, input shorter than the key: only the limbs present contribute
SisTwo == LET q == FromInt(5)  a1 == <<One, Two>>  a2 == <<FromInt(3), FromInt(4)>>
          IN \A m \in [1..3 -> El(5)] :
               SisHash(q, 2, <<a1, a2>>, m, 1, 1) =
                 [k \in 1..2 |-> FAdd(q, SisHash(q, 2, <<a1>>, SubSeq(m, 1, 2), 1, 1)[k], SisHash(q, 2, <<a2>>, <<m[3]>>, 1, 1)[k])]
RECURSIVE Recompose(_, _, _)
Recompose(l, bits, j) == IF j > Len(l) THEN Zero ELSE Add(Shl(l[j], bits * (j - 1)), Recompose(l, bits, j + 1))
LimbsOK == \A x \in {0, 1, 255, 256, 65535, 65536, 16909060, 2130706432} : \A lb \in {1, 2} :
             /\ Len(SisLimbsOf(FromInt(x), 4, lb)) = 4 \div lb
             /\ Recompose(SisLimbsOf(FromInt(x), 4, lb), 8 * lb, 1) = FromInt(x)
             /\ \A j \in 1..(4 \div lb) : BitLen(SisLimbsOf(FromInt(x), 4, lb)[j]) <= 8 * lb
             /\ SisLimbs(<<FromInt(x), FromInt(16909060), FromInt(x)>>, 4, lb) =
                  SisLimbsOf(FromInt(x), 4, lb) \o SisLimbsOf(FromInt(16909060), 4, lb) \o SisLimbsOf(FromInt(x), 4, lb)

Law ==
  CASE c \in 0..12 -> MiMCIsPerm(c)
    [] c = 13 -> Bijective(Toy(2, 5, <<>>, <<One, Two>>))
    [] c = 14 -> Bijective(Toy(3, 5, <<>>, <<One, One, Two>>))
    [] c = 15 -> Bijective(Toy(4, 5, M4Paper, <<One, Two, FromInt(3), FromInt(4)>>))
    [] c = 16 -> ~Bijective(Toy(2, 3, <<>>, <<One, Two>>))          \* 3 | 13 - 1: x^3 is not a permutation
    [] c = 17 -> ExtAgrees("koalabear", M4Plonky3, 16) /\ ExtAgrees("koalabear", M4Plonky3, 24)
    [] c = 18 -> ExtAgrees("babybear", M4Plonky3, 16) /\ ExtAgrees("babybear", M4Plonky3, 24)
    [] c = 19 -> ExtAgrees("goldilocks", M4Paper, 8) /\ ExtAgrees("goldilocks", M4Paper, 12)
    [] c = 20 -> SisAgrees(3, 4)
    [] c = 21 -> SisAgrees(5, 2)
    [] c = 22 -> SisTwo
    [] c = 23 -> LimbsOK
    [] c = 24 -> \A f \in {"koalabear", "babybear", "goldilocks"} : \A t \in P2Widths(f) :
                   Len(P2Mu(f, FieldP(f).q, t)) = t /\ \A i \in 1..t : InField(FieldP(f).q, P2Mu(f, FieldP(f).q, t)[i])
=============================================================================
