SPECIFICATION Spec
CONSTANTS
  Bug = "none"
  Fields = {1}
  Mode = "free"
INVARIANTS TypeOK Lenient StrictAcceptance TextSetters ReadOnly RoundTripHistory RoundTripLaws
CHECK_DEADLOCK FALSE
