----------------------------- MODULE TraceCodec -----------------------------
(* Trace validation for C08: replays the ndjson log of the real conversion     *)
(* entry points (23 fields) against FieldCodec, the operators model-checked    *)
(* in MCElemCodec / MCVecCodec.                                                *)
(*                                                                            *)
(* Machine state                                                              *)
(*   z     the element register, RAW Montgomery limbs as one BigNat            *)
(*   vec   the vector register, sequence of raw elements                       *)
(*   wire  what the last encoder really returned, with the abstract value it   *)
(*         stood for: a decoder event flagged "rt" was fed exactly these bytes  *)
(*         / this text / this integer and must give that value back ("and back *)
(*         returns the same element").                                         *)
(* The harness logs raw observations only (limbs, bytes, character codes,      *)
(* [neg,mag] integers, error strings, panics); val() below is the projection   *)
(* to the abstract element.  Judge(e) returns the set of reasons for which      *)
(* event e is rejected; the machine always continues from the SPECIFIED        *)
(* successor state.                                                            *)
EXTENDS TraceKernel, FieldCodec, FieldParams

VARIABLES z, vec, wire

P == FieldP(Hdr.field)
q == P.q
R == Shl(One, P.w * P.n)
RmodQ == Rem(R, q)
Rinv == InvMod(RmodQ, q)
val(raw) == MulMod(raw, Rinv, q)
mont(v) == MulMod(v, RmodQ, q)
Canon(raw) == IsNat(raw) /\ Lt(raw, q)
Vals(v) == [i \in 1..Len(v) |-> val(v[i])] \o <<>>
Monts(v) == [i \in 1..Len(v) |-> mont(v[i])] \o <<>>
AllCanon(v) == \A i \in 1..Len(v) : Canon(v[i])

NoWire == [kind |-> "none", base |-> 0, data |-> <<>>, v |-> Zero]
Init == /\ KInit /\ z = Zero /\ vec = <<>> /\ wire = NoWire
        /\ Assert(P.bytes = P.n * WB(P), "field parameters: bytes # n*w/8")

Errd(e) == Has(e, "err")
Cond(c, reason) == IF c THEN {} ELSE {reason}

-----------------------------------------------------------------------------
(* What each setter / decoder is specified to do: [ok, v]                      *)
(* ok = TRUE : no error, register := v      ok = FALSE: an error is reported   *)
(* free = TRUE: the property does not fix the outcome (only "no panic")         *)

IntArg(e) == e.k                                    \* [neg, mag]
SpecIface(e) ==                                     \* SetInterface by dynamic type class
  CASE e.kind = "int"   -> [ok |-> TRUE, v |-> RemZ(e.k, q)]
    [] e.kind = "big"   -> [ok |-> TRUE, v |-> SetBigInt(P, e.k)]
    [] e.kind = "str"   -> SetString(P, e.s)
    [] e.kind = "bytes" -> [ok |-> TRUE, v |-> SetBytes(P, e.b)]
    [] e.kind = "elem"  -> [ok |-> TRUE, v |-> val(e.raw)]
    [] OTHER            -> [ok |-> FALSE, v |-> Zero]            \* nil, nil pointers, unsupported types

SpecSet(e) ==
  CASE e.op \in {"SetUint64", "NewElement"} -> [ok |-> TRUE, v |-> Rem(e.u, q), free |-> FALSE]
    [] e.op = "SetInt64"  -> [ok |-> TRUE, v |-> RemZ(e.k, q), free |-> FALSE]
    [] e.op = "SetBigInt" -> [ok |-> TRUE, v |-> SetBigInt(P, e.k), free |-> FALSE]
    [] e.op \in {"SetBytes", "Unmarshal"} -> [ok |-> TRUE, v |-> SetBytes(P, e.b), free |-> FALSE]
    [] e.op = "SetBytesCanonical" -> SetBytesCanonical(P, e.b) @@ [free |-> FALSE]
    [] e.op = "BEElement" -> DecBE(P, e.b) @@ [free |-> FALSE]
    [] e.op = "LEElement" -> DecLE(P, e.b) @@ [free |-> FALSE]
    [] e.op = "SetString" -> SetString(P, e.s) @@ [free |-> FALSE]
    [] e.op = "UnmarshalJSON" ->
         LET r == UnmarshalJSON(P, e.s) IN [ok |-> r.ok, v |-> r.v, free |-> r.toolong \/ ~r.wellformed]
    [] e.op = "SetInterface" -> SpecIface(e) @@ [free |-> FALSE]

\* the decoder was fed the wire: was it really, and does the element come back?
RTInput(e) ==
  CASE wire.kind \in {"BE", "LE"} -> Has(e, "b") /\ e.b = wire.data
    [] wire.kind = "Int"   -> Has(e, "k") /\ e.k = wire.data
    [] wire.kind = "Limbs" -> Has(e, "k") /\ ~e.k.neg /\ e.k.mag = FromLimbs(P, wire.data)
    [] wire.kind = "Text"  -> Has(e, "s") /\ e.s = (CASE wire.base = 16 -> <<48, 120>> [] wire.base = 2 -> <<48, 98>>
                                                     [] wire.base = 8 -> <<48, 111>> [] OTHER -> <<>>) \o wire.data
    [] wire.kind = "JSON"  -> Has(e, "s") /\ e.s = wire.data
    [] OTHER -> FALSE
RoundTrip(e, r) ==
  IF ~(Has(e, "rt") /\ e.rt) THEN {}
  ELSE IF ~RTInput(e) THEN {"rt-input"}            \* the harness did not feed the wire: the trace is not what it claims
  ELSE IF ~r.ok \/ r.v # wire.v THEN {"roundtrip"} ELSE {}

\* read-only arguments
ArgKept(e) == (IF Has(e, "bafter") /\ e.bafter # e.b THEN {"mutated-arg"} ELSE {})
              \cup (IF Has(e, "kafter") /\ e.kafter # e.k THEN {"mutated-arg"} ELSE {})

JudgeSet(e) ==
  LET r == SpecSet(e) IN
  IF Panicked(e) THEN {"panic"}
  ELSE IF r.free THEN Cond(Canon(e.out), "noncanonical")
                      \cup (IF ~Errd(e) /\ r.ok /\ val(e.out) # r.v THEN {"value"} ELSE {})
  ELSE (IF r.ok
        THEN (IF Errd(e) THEN {"error"}
              ELSE IF ~Canon(e.out) THEN {"noncanonical"}
              ELSE IF val(e.out) # r.v THEN {"value"} ELSE {})
             \cup (IF Has(e, "retnil") /\ e.retnil THEN {"retnil"} ELSE {})
        ELSE (IF ~Errd(e) THEN {"noerror"} ELSE {})              \* a swallowed error
             \cup Cond(Canon(e.out), "noncanonical")
             \* SetString documents: z unchanged and (nil, error); SetInterface forwards it
             \cup (IF e.op \in {"SetString", "SetInterface"} /\ Errd(e) /\ e.out # z THEN {"clobbered"} ELSE {})
             \cup (IF Has(e, "retnil") /\ Errd(e) /\ ~e.retnil THEN {"retnotnil"} ELSE {}))
       \cup ArgKept(e) \cup RoundTrip(e, r)

NextZSet(e) ==
  LET r == SpecSet(e) IN
  IF r.ok /\ ~r.free THEN mont(r.v)
  ELSE IF ~Panicked(e) /\ Canon(e.out) THEN e.out       \* outcome not fixed by the property: follow the code
  ELSE z

-----------------------------------------------------------------------------
(* Observers: the element must not change, the output is the encoding of val(z) *)

v0 == val(z)
NilText == <<60, 110, 105, 108, 62>>     \* "<nil>"
NullText == <<110, 117, 108, 108>>       \* "null"

SpecGet(e) ==          \* expected `ret`
  CASE e.op \in {"Bytes", "Marshal", "PutBE"} -> EncBE(P, v0)
    [] e.op = "PutLE"  -> EncLE(P, v0)
    [] e.op \in {"BigInt", "ToBigIntRegular"} -> ZInt(FALSE, v0)
    [] e.op = "Bits"   -> Limbs(P, v0)
    [] e.op = "Text"   -> ElemText(P, v0, e.base)
    [] e.op = "String" -> ElemText(P, v0, 10)
    [] e.op = "MarshalJSON" -> ElemJSON(P, v0)
    [] e.op = "TextNil" -> NilText
    [] e.op = "MarshalJSONNil" -> NullText

Getters == {"Bytes", "Marshal", "PutBE", "PutLE", "BigInt", "ToBigIntRegular", "Bits", "Text", "String",
            "MarshalJSON", "TextNil", "MarshalJSONNil"}
WireKind(e) == CASE e.op \in {"Bytes", "Marshal", "PutBE"} -> "BE" [] e.op = "PutLE" -> "LE"
                 [] e.op \in {"BigInt", "ToBigIntRegular"} -> "Int" [] e.op = "Bits" -> "Limbs"
                 [] e.op \in {"Text", "String"} -> "Text" [] e.op = "MarshalJSON" -> "JSON" [] OTHER -> "none"

Kept(e) == IF Has(e, "zafter") /\ e.zafter # z THEN {"mutated"} ELSE {}

JudgeGet(e) ==
  IF e.op = "Text" /\ e.base \notin 2..36
  THEN {}                                                   \* outside the documented domain (the code panics)
  ELSE IF Panicked(e) THEN {"panic"}
  ELSE (IF Errd(e) THEN {"error"} ELSE IF e.ret # SpecGet(e) THEN {"value"} ELSE {})
       \cup Kept(e)
       \cup (IF e.op = "BigInt" /\ ~e.same THEN {"notsame"} ELSE {})   \* BigInt fills and returns its argument

JudgeU64(e) ==
  IF Panicked(e) THEN {"panic"}
  ELSE Kept(e) \cup
       (IF e.op = "IsUint64" THEN Cond(e.ret = (BitLen(v0) <= 64), "ret")
        ELSE IF BitLen(v0) <= 64 /\ e.ret # v0 THEN {"value"} ELSE {})  \* Uint64: undefined when it does not fit

-----------------------------------------------------------------------------
(* Vectors                                                                    *)

vv == Vals(vec)
RECURSIVE JoinText(_,_,_)
JoinText(ts, i, sep) == IF i > Len(ts) THEN <<>>
                        ELSE (IF i > 1 THEN sep ELSE <<>>) \o ts[i] \o JoinText(ts, i+1, sep)
VecText(f(_)) == <<91>> \o JoinText([i \in 1..Len(vec) |-> f(vv[i])] \o <<>>, 1, <<44>>) \o <<93>>
T10(v) == ElemText(P, v, 10)
TJ(v) == ElemJSON(P, v)

Stream(e) == IF Has(e, "cut") THEN SubSeq(e.s, 1, e.cut) ELSE e.s     \* what the reader can obtain before EOF / I/O error

JudgeVWrite(e) ==
  IF Panicked(e) THEN {"panic"}
  ELSE (IF Errd(e) THEN {"error"}
        ELSE (IF e.ret # VecEnc(P, vv) THEN {"value"} ELSE {})
             \cup (IF Has(e, "n") /\ e.n # 4 + Len(vec) * P.bytes THEN {"count"} ELSE {}))
       \cup (IF e.vafter # vec THEN {"mutated"} ELSE {})
\* a writer that fails after `budget` bytes: the error must surface
JudgeVWriteFail(e) ==
  IF Panicked(e) THEN {"panic"}
  ELSE (IF e.budget < 4 + Len(vec) * P.bytes THEN Cond(Errd(e), "noerror") ELSE Cond(~Errd(e), "error"))
       \cup (IF e.vafter # vec THEN {"mutated"} ELSE {})

\* readers: sync (ReadFrom, UnmarshalBinary) and async agree on the accepted streams.
\* Bytes after the announced elements belong to whatever follows in the stream: they must not be consumed
\* ("overread").  UnmarshalBinary of a slice with such trailing bytes succeeds in the code; the property speaks
\* of the stream readers, so this is accepted here (the elements and the count are still judged).
JudgeVRead(e) ==
  LET r == VecDec(P, Stream(e))
      reported == Errd(e) \/ Has(e, "cherr")
  IN IF Panicked(e) THEN {"panic"}
     ELSE (IF r.ok
           THEN (IF reported THEN {"error"}
                 ELSE IF Len(e.vout) # Len(r.vs) THEN {"length"}
                 ELSE IF ~AllCanon(e.vout) THEN {"noncanonical"}
                 ELSE IF Vals(e.vout) # r.vs THEN {"value"} ELSE {})
                \cup (IF ~reported /\ Has(e, "n") /\ e.n # r.n THEN {"count"} ELSE {})
                \cup (IF ~reported /\ Has(e, "consumed") /\ e.consumed # r.n THEN {"overread"} ELSE {})
           ELSE Cond(reported, "noerror"))
          \cup (IF Has(e, "closed") /\ ~e.closed THEN {"notclosed"} ELSE {})      \* the channel must be closed in the end
          \cup (IF Has(e, "safter") /\ e.safter # e.s THEN {"mutated-arg"} ELSE {})
          \cup (IF Has(e, "rt") /\ e.rt
                THEN (IF wire.kind # "Vec" \/ e.s # wire.data THEN {"rt-input"}
                      ELSE IF ~r.ok \/ r.vs # wire.v THEN {"roundtrip"} ELSE {})
                ELSE {})

\* encoding/json over a Vector: "[" elements "," ... "]"; tokens: JSON integer literal or quoted SetString text
SplitStep(st, c) == IF c = 44 THEN [acc |-> st.acc \o <<st.cur>>, cur |-> <<>>] ELSE [acc |-> st.acc, cur |-> st.cur \o <<c>>]
Tokens(s) == IF Len(s) = 2 THEN <<>>
             ELSE LET st == SE!FoldLeft(SplitStep, [acc |-> <<>>, cur |-> <<>>], SubSeq(s, 2, Len(s)-1))
                  IN st.acc \o <<st.cur>>
ArrayShaped(s) == Len(s) >= 2 /\ s[1] = 91 /\ s[Len(s)] = 93
IsJSONInt(t) == LET i == IF Len(t) > 0 /\ t[1] = 45 THEN 2 ELSE 1 IN
                /\ Len(t) >= i /\ \A j \in i..Len(t) : t[j] \in 48..57
                /\ (t[i] = 48 => Len(t) = i)
TokOK(t) == IF Len(t) >= 2 /\ t[1] = 34 /\ t[Len(t)] = 34 THEN SetString(P, SubSeq(t, 2, Len(t)-1)).ok
            ELSE IsJSONInt(t)
TokLong(t) == Len(t) > 3 * P.bits          \* refused by the code; outcome not fixed by the property
TokVal(t) == UnmarshalJSON(P, t).v
JudgeVJSONUnmarshal(e) ==
  LET ts == IF ArrayShaped(e.s) THEN Tokens(e.s) ELSE <<>> IN
  IF Panicked(e) THEN {"panic"}
  ELSE IF ~ArrayShaped(e.s) THEN Cond(Errd(e), "noerror")
  ELSE IF \E i \in 1..Len(ts) : TokLong(ts[i]) THEN {}
  ELSE IF \A i \in 1..Len(ts) : TokOK(ts[i])
       THEN (IF Errd(e) THEN {"error"}
             ELSE IF Len(e.vout) # Len(ts) THEN {"length"}
             ELSE IF ~AllCanon(e.vout) THEN {"noncanonical"}
             ELSE IF \E i \in 1..Len(ts) : val(e.vout[i]) # TokVal(ts[i]) THEN {"value"} ELSE {})
            \cup (IF Has(e, "rt") /\ e.rt
                  THEN (IF wire.kind # "VJSON" \/ e.s # wire.data THEN {"rt-input"}
                        ELSE IF Errd(e) \/ Vals(e.vout) # wire.v THEN {"roundtrip"} ELSE {})
                  ELSE {})
       ELSE Cond(Errd(e), "noerror")

JudgeVText(e, expected) ==
  IF Panicked(e) THEN {"panic"}
  ELSE (IF Errd(e) THEN {"error"} ELSE IF e.ret # expected THEN {"value"} ELSE {})
       \cup (IF e.vafter # vec THEN {"mutated"} ELSE {})

-----------------------------------------------------------------------------
Setters == {"SetUint64", "NewElement", "SetInt64", "SetBigInt", "SetBytes", "Unmarshal", "SetBytesCanonical",
            "BEElement", "LEElement", "SetString", "UnmarshalJSON", "SetInterface"}
VReaders == {"VReadFrom", "VUnmarshalBinary", "VAsyncReadFrom"}

Judge(e) ==
  CASE e.op = "Load"  -> Cond(Canon(e.out), "badload")
    [] e.op = "VLoad" -> Cond(AllCanon(e.v), "badload")
    [] e.op \in Setters -> JudgeSet(e)
    [] e.op \in Getters -> JudgeGet(e)
    [] e.op \in {"Uint64", "IsUint64"} -> JudgeU64(e)
    [] e.op \in {"VWriteTo", "VMarshalBinary", "VMarshalBinaryDiscard"} -> JudgeVWrite(e)
    [] e.op = "VWriteToFail" -> JudgeVWriteFail(e)
    [] e.op \in VReaders -> JudgeVRead(e)
    [] e.op = "VString" -> JudgeVText(e, VecText(T10))
    [] e.op = "VJSONMarshal" -> JudgeVText(e, VecText(TJ))
    [] e.op = "VJSONUnmarshal" -> JudgeVJSONUnmarshal(e)
    [] OTHER -> {"unknown-op"}

NextZ(e) == CASE e.op = "Load" -> e.out
              [] e.op \in Setters -> NextZSet(e)
              [] OTHER -> z
NextVec(e) ==
  CASE e.op = "VLoad" -> e.v
    [] e.op \in VReaders ->
         LET r == VecDec(P, Stream(e)) IN
         IF r.ok THEN Monts(r.vs) ELSE IF ~Panicked(e) /\ AllCanon(e.vout) THEN e.vout ELSE <<>>
    [] e.op = "VJSONUnmarshal" ->
         IF ~Panicked(e) /\ AllCanon(e.vout) THEN e.vout ELSE <<>>
    [] OTHER -> vec
NextWire(e) ==
  IF e.op \in Getters /\ WireKind(e) # "none" /\ ~Panicked(e) /\ Has(e, "ret")
  THEN [kind |-> WireKind(e), base |-> IF e.op = "Text" THEN e.base ELSE 10, data |-> e.ret, v |-> v0]
  ELSE IF e.op \in {"VWriteTo", "VMarshalBinary"} /\ ~Panicked(e) /\ Has(e, "ret")
  THEN [kind |-> "Vec", base |-> 0, data |-> e.ret, v |-> vv]
  ELSE IF e.op = "VJSONMarshal" /\ ~Panicked(e) /\ Has(e, "ret")
  THEN [kind |-> "VJSON", base |-> 0, data |-> e.ret, v |-> vv]
  ELSE IF Has(e, "rt") /\ e.rt THEN wire          \* several decoders may be fed the same wire
  ELSE IF e.op = "VMarshalBinaryDiscard" THEN wire \* an encoding made and dropped while an earlier one is still held:
                                                  \* the held bytes are the caller's, a later round trip starts from them
  ELSE IF e.op \in {"Load", "VLoad"} THEN wire
  ELSE NoWire

Step == /\ HasNext
        /\ Advance(Judge(Ev))
        /\ z' = NextZ(Ev) /\ vec' = NextVec(Ev) /\ wire' = NextWire(Ev)

Next == Step \/ (Finish /\ UNCHANGED <<z, vec, wire>>)
Spec == Init /\ [][Next]_<<l, bad, z, vec, wire>>
=============================================================================
