SPECIFICATION Spec
CONSTANTS
  Bug = "none"
  Fields = {2}
  Mode = "inputs"
INVARIANTS TypeOK Lenient StrictAcceptance TextSetters ReadOnly RoundTripHistory RoundTripLaws
CHECK_DEADLOCK FALSE
