----------------------------- MODULE MCVecCodec -----------------------------
(* Exhaustive model checking of the vector codec (C08): WriteTo /             *)
(* MarshalBinary, the synchronous readers (ReadFrom, UnmarshalBinary) and the  *)
(* asynchronous reader, whose validation runs as parallel tasks.               *)
(*                                                                            *)
(* The asynchronous reader is modelled as the library runs it: header, bulk    *)
(* read of the body into the vector's memory, then `execute` splits the        *)
(* index range into tasks; every task walks its range, converts a valid        *)
(* element in place, and on the first invalid one bumps a shared error counter *)
(* and RETURNS (the rest of its range stays unconverted); after the join an    *)
(* error is sent on the channel iff the counter is non-zero.  TLC explores     *)
(* every interleaving of the tasks.                                            *)
(*                                                                            *)
(* Field: q = 13, one byte per element, so an element byte is valid iff < 13.  *)
EXTENDS FieldCodec, Integers, Sequences, FiniteSets

CONSTANTS MaxLen,     \* longest vector
          MaxCpu      \* the asynchronous reader is run with 1..MaxCpu tasks

qn == 13
P == [q |-> FromInt(qn), w |-> 8, n |-> 1, bytes |-> 1, bits |-> 4]

VARIABLES vec,      \* the vector register: sequence of abstract elements
          stream,   \* the bytes the next reader will see
          last,     \* record of the last completed call
          phase,    \* "idle" | "running" (asynchronous validation in flight) | "done"
          mem,      \* async: the vector's memory, per cell [conv |-> FALSE, b |-> raw bytes] or [conv |-> TRUE, v |-> element]
          tasks,    \* async: sequence of [lo, pos, hi, live]
          cnt,      \* async: shared error counter
          res       \* async: [err |-> immediate error, cherr |-> error delivered on the channel]
vars == <<vec, stream, last, phase, mem, tasks, cnt, res>>

RECURSIVE StringsOver(_,_)
StringsOver(A, k) == IF k = 0 THEN {<<>>} ELSE {<<a>> \o s : a \in A, s \in StringsOver(A, k-1)}
UpTo(A, k) == UNION {StringsOver(A, j) : j \in 0..k}

Elems  == {FromInt(0), FromInt(5), FromInt(12)}
Vecs   == UpTo(Elems, MaxLen)
Bodies == UpTo({0, 12, 13}, MaxLen + 1)                  \* 13 = q: the smallest invalid element byte
Streams == {<<0, 0, 0, L>> \o b : L \in 0..MaxLen, b \in Bodies}
           \cup {<<>>, <<0>>, <<0, 0>>, <<0, 0, 0>>}                                   \* truncated header
           \cup {<<0, 0, 1, 0>> \o b : b \in UpTo({0}, 2)} \cup {<<255, 255, 255, 255>>, <<1, 0, 0, 0, 0>>}   \* length far beyond the data
           \cup {<<0, 0, 0, 1, 255>>, <<0, 0, 0, 2, 12, 255>>}

Idle == /\ phase' = "idle" /\ mem' = <<>> /\ tasks' = <<>> /\ cnt' = 0 /\ res' = [err |-> FALSE, cherr |-> FALSE]

Init == /\ vec = <<>> /\ stream = <<>> /\ last = [op |-> "init"]
        /\ phase = "idle" /\ mem = <<>> /\ tasks = <<>> /\ cnt = 0 /\ res = [err |-> FALSE, cherr |-> FALSE]

\* the application fills the vector
VSet(v) == /\ phase = "idle" /\ stream = <<>> /\ vec = <<>> /\ v # <<>>
           /\ vec' = v /\ last' = [op |-> "set"] /\ UNCHANGED stream /\ Idle
\* WriteTo / MarshalBinary
VWrite == /\ phase = "idle" /\ last.op \in {"init", "set"}
          /\ stream' = VecEnc(P, vec) /\ last' = [op |-> "write", v |-> vec] /\ UNCHANGED vec /\ Idle
\* arbitrary bytes arrive instead
VFeed(s) == /\ phase = "idle" /\ last.op = "init"
            /\ stream' = s /\ last' = [op |-> "feed"] /\ UNCHANGED vec /\ Idle
\* ReadFrom / UnmarshalBinary
VRead == /\ phase = "idle" /\ last.op \in {"write", "feed"}
         /\ LET r == VecDec(P, stream) IN
            /\ vec' = (IF r.ok THEN r.vs ELSE <<>>)
            /\ last' = [op |-> "read", ok |-> r.ok, n |-> IF r.ok THEN r.n ELSE 0, before |-> vec]
         /\ UNCHANGED stream /\ Idle

\* AsyncReadFrom, step 1: header and bulk read (no validation yet)
AStart(ncpu) ==
  /\ phase = "idle" /\ last.op \in {"write", "feed"}
  /\ LET short == Len(stream) < 4 \/ Lt(FromInt(Len(stream) - 4), FromBytesBE(SubSeq(stream, 1, 4)))
         count == IF short THEN 0 ELSE ToInt(FromBytesBE(SubSeq(stream, 1, 4)))
     IN IF short \/ count = 0
        THEN /\ phase' = "done" /\ res' = [err |-> short, cherr |-> FALSE]
             /\ mem' = <<>> /\ tasks' = <<>> /\ cnt' = 0
        ELSE /\ phase' = "running" /\ res' = [err |-> FALSE, cherr |-> FALSE] /\ cnt' = 0
             /\ mem' = [i \in 1..count |-> [conv |-> FALSE, b |-> <<stream[4 + i]>>]]
             /\ tasks' = LET T == ExecTasks(count, ncpu)
                         IN [t \in 1..Len(T) |-> [lo |-> T[t][1], pos |-> T[t][1], hi |-> T[t][2], live |-> TRUE]]
  /\ last' = [op |-> "async", before |-> vec] /\ UNCHANGED <<vec, stream>>
\* one element of one task
AWork(t) ==
  /\ phase = "running" /\ tasks[t].live /\ tasks[t].pos < tasks[t].hi
  /\ LET i == tasks[t].pos + 1
         d == DecBE(P, mem[i].b)
     IN IF d.ok
        THEN /\ mem' = [mem EXCEPT ![i] = [conv |-> TRUE, v |-> d.v]]
             /\ tasks' = [tasks EXCEPT ![t].pos = @ + 1] /\ UNCHANGED cnt
        ELSE /\ cnt' = (IF Bug = "async_nocount" THEN cnt ELSE cnt + 1)
             /\ tasks' = [tasks EXCEPT ![t].live = FALSE] /\ UNCHANGED mem
  /\ UNCHANGED <<vec, stream, last, phase, res>>
TaskDone(t) == ~tasks[t].live \/ tasks[t].pos = tasks[t].hi
\* the join: the channel delivers the verdict
AJoin == /\ phase = "running" /\ \A t \in 1..Len(tasks) : TaskDone(t)
         /\ phase' = "done" /\ res' = [err |-> FALSE, cherr |-> cnt > 0]
         /\ vec' = (IF cnt = 0 /\ \A i \in 1..Len(mem) : mem[i].conv THEN [i \in 1..Len(mem) |-> mem[i].v] ELSE <<>>)
         /\ UNCHANGED <<stream, last, mem, tasks, cnt>>

Next == \/ \E v \in Vecs : VSet(v)
        \/ VWrite
        \/ \E s \in Streams : VFeed(s)
        \/ VRead
        \/ \E c \in 1..MaxCpu : AStart(c)
        \/ \E t \in 1..Len(tasks) : AWork(t)
        \/ AJoin
Spec == Init /\ [][Next]_vars

-----------------------------------------------------------------------------
(* The property, with native integers                                        *)

\* s starts with the encoding of a vector of elements below q: length prefix L, then L valid element bytes
RefAccept(s) == /\ Len(s) >= 4 /\ s[1] = 0 /\ s[2] = 0 /\ s[3] = 0
                /\ Len(s) - 4 >= s[4]
                /\ \A i \in 1..s[4] : s[4 + i] < qn
RefVec(s) == [i \in 1..s[4] |-> FromInt(s[4 + i])]

TypeOK == /\ \A i \in 1..Len(vec) : IsNat(vec[i]) /\ Lt(vec[i], P.q)
          /\ cnt \in 0..MaxLen

\* serialisation round-trips for every length (incl. 0) and consumes exactly its own bytes
VecRoundTrip == /\ VecDec(P, VecEnc(P, vec)) = [ok |-> TRUE, vs |-> vec, n |-> 4 + Len(vec)]
                /\ Len(VecEnc(P, vec)) = 4 + Len(vec)
                /\ VecDec(P, VecEnc(P, vec) \o <<13, 255>>) = [ok |-> TRUE, vs |-> vec, n |-> 4 + Len(vec)]
RoundTripHistory == (last.op = "read" /\ Len(stream) > 0 /\ \E v \in Vecs \cup {<<>>} : stream = VecEnc(P, v))
                       => last.ok /\ stream = VecEnc(P, vec)

\* the synchronous readers accept exactly the encodings of vectors of integers below q
SyncAcceptance == last.op = "read" =>
                    /\ last.ok <=> RefAccept(stream)
                    /\ last.ok => vec = RefVec(stream) /\ last.n = 4 + stream[4]

\* the asynchronous reader reports an error (at once, or on the channel) for exactly the same streams, whatever the schedule
AsyncAcceptance == phase = "done" =>
                    /\ (res.err \/ res.cherr) <=> ~RefAccept(stream)
                    /\ ~(res.err \/ res.cherr) => (stream[4] > 0 => vec = RefVec(stream))
\* `execute` splits 0..count-1 into consecutive non-empty ranges: no element is skipped or validated twice
Partition == phase = "running" =>
               /\ Len(tasks) >= 1 /\ tasks[1].lo = 0 /\ tasks[Len(tasks)].hi = Len(mem)
               /\ \A t \in 1..Len(tasks) : tasks[t].lo < tasks[t].hi /\ tasks[t].pos \in tasks[t].lo..tasks[t].hi
               /\ \A t \in 1..(Len(tasks)-1) : tasks[t].hi = tasks[t+1].lo
\* the counter counts the tasks that met an invalid element; converted cells are exactly the walked prefixes
AsyncBookkeeping == phase = "running" =>
               /\ cnt = Cardinality({t \in 1..Len(tasks) : ~tasks[t].live})
               /\ \A t \in 1..Len(tasks) : \A i \in (tasks[t].lo + 1)..tasks[t].hi : mem[i].conv <=> i <= tasks[t].pos
\* ExecTasks itself, for more sizes than the machine reaches (checked once, as an assumption)
ExecLaw == \A c \in 1..12 : \A k \in 1..5 :
             LET T == ExecTasks(c, k) IN
             /\ Len(T) = (IF c < k THEN c ELSE k) /\ T[1][1] = 0 /\ T[Len(T)][2] = c
             /\ \A t \in 1..Len(T) : T[t][1] < T[t][2]
             /\ \A t \in 1..(Len(T)-1) : T[t][2] = T[t+1][1]
ASSUME ExecLaw
=============================================================================
