----------------------------- MODULE FieldCodec -----------------------------
(* Conversions of prime-field elements (property C08), written once and used  *)
(* by the exhaustive machines (MCElemCodec, MCVecCodec: small constants) and   *)
(* by the trace validation of the real code (TraceCodec: 23 fields).           *)
(*                                                                            *)
(* A field is a record P = [q, w, n, bytes, bits]: modulus, limb width in      *)
(* bits, number of limbs, length of the fixed byte encoding (= n*w/8), bit     *)
(* length of q.  Abstract elements are BigNat values in [0,q).  Byte strings   *)
(* are sequences of 0..255, text is a sequence of character codes, a signed    *)
(* integer is [neg, mag] (BigNat!ZInt).                                        *)
(*                                                                            *)
(* The operators are OPERATIONAL: they follow what the library does (limbs     *)
(* assembled from byte groups, limb-wise comparison with the modulus before    *)
(* the Montgomery conversion, fast path for canonical length, reduction of     *)
(* anything else, Go's number grammar for text).  The DECLARATIVE statements   *)
(* of the property (residue modulo q, "exactly the fixed-length encodings of   *)
(* integers below q", round trips) are the invariants of the MC machines.      *)
EXTENDS BigNat, TLC
SE == INSTANCE SequencesExt      \* FoldLeft (named instance: BigNat and SequencesExt both define Reverse)

CONSTANT Bug     \* "none" in every real use; the negative self-tests select a seeded design error

-----------------------------------------------------------------------------
(* Limbs ("regular form": little-endian words of the integer, not Montgomery) *)

WB(P) == P.w \div 8                                   \* bytes per limb
\* a mod m.  (BigNat!Mod has no working accelerator override - TLC takes the Java method name Mod for
\* the operator % - so the residue is taken with AddMod, whose override loads.)
RemZ(z, m) == IF z.neg THEN SubMod(Zero, z.mag, m) ELSE Rem(z.mag, m)      \* Euclidean residue of a signed integer
TwoTo(k) == Shl(One, k)
Limb(v, w, i) == Rem(Shr(v, w * (i-1)), TwoTo(w))     \* i = 1 is the least significant limb
Limbs(P, v) == [i \in 1..P.n |-> Limb(v, P.w, i)] \o <<>>
RECURSIVE FromLimbsR(_,_,_)
FromLimbsR(P, ls, i) == IF i > P.n THEN Zero ELSE Add(Shl(ls[i], P.w * (i-1)), FromLimbsR(P, ls, i+1))
FromLimbs(P, ls) == FromLimbsR(P, ls, 1)

\* smallerThanModulus: limb-wise comparison from the most significant limb down
RECURSIVE LimbsBelowQ(_,_,_)
LimbsBelowQ(P, ls, i) ==
  IF i = 0 THEN Bug = "accept_q"                       \* all limbs equal: value = q, NOT smaller
  ELSE LET qi == Limb(P.q, P.w, i) IN
       IF Lt(ls[i], qi) THEN TRUE
       ELSE IF Lt(qi, ls[i]) THEN FALSE
       ELSE LimbsBelowQ(P, ls, i-1)

-----------------------------------------------------------------------------
(* Strict decoders: bigEndian.Element, littleEndian.Element, SetBytesCanonical *)
(* Result: [ok, v]; v is meaningful only when ok.                              *)

LimbBE(P, b, i) == FromBytesBE(SubSeq(b, P.bytes - i * WB(P) + 1, P.bytes - (i-1) * WB(P)))
LimbLE(P, b, i) == FromBytesLE(SubSeq(b, (i-1) * WB(P) + 1, i * WB(P)))
LimbLEbug(P, b, i) == IF Bug = "le_as_be" THEN LimbBE(P, b, i) ELSE LimbLE(P, b, i)

DecodeLimbs(P, ls) == IF LimbsBelowQ(P, ls, P.n) THEN [ok |-> TRUE, v |-> FromLimbs(P, ls)]
                      ELSE [ok |-> FALSE, v |-> Zero]
DecBE(P, b) == DecodeLimbs(P, [i \in 1..P.n |-> LimbBE(P, b, i)] \o <<>>)      \* Len(b) = P.bytes
DecLE(P, b) == DecodeLimbs(P, [i \in 1..P.n |-> LimbLEbug(P, b, i)] \o <<>>)

SetBytesCanonical(P, b) == IF Len(b) # P.bytes THEN [ok |-> FALSE, v |-> Zero] ELSE DecBE(P, b)

-----------------------------------------------------------------------------
(* Lenient setters: always succeed, result = residue modulo q                 *)

\* SetBigInt: v = q -> 0; 0 <= v < q -> v (fast path); anything else reduced (Euclidean modulus)
SetBigInt(P, z) == IF ~z.neg /\ z.mag = P.q THEN Zero
                   ELSE IF ~z.neg /\ Lt(z.mag, P.q) THEN z.mag
                   ELSE RemZ(z, P.q)
\* SetBytes / Unmarshal: big-endian unsigned integer of ANY length
SetBytes(P, b) == IF Len(b) = P.bytes /\ DecBE(P, b).ok THEN DecBE(P, b).v
                  ELSE SetBigInt(P, ZInt(FALSE, FromBytesBE(b)))

-----------------------------------------------------------------------------
(* Encoders: PutElement / Bytes / Marshal / Bits / BigInt                      *)

RECURSIVE EncBER(_,_,_)
EncBER(P, v, i) == IF i = 0 THEN <<>> ELSE ToBytesBE(Limb(v, P.w, i), WB(P)) \o EncBER(P, v, i-1)
EncBE(P, v) == EncBER(P, v, P.n)
RECURSIVE EncLER(_,_,_)
EncLER(P, v, i) == IF i > P.n THEN <<>> ELSE ToBytesLE(Limb(v, P.w, i), WB(P)) \o EncLER(P, v, i+1)
EncLE(P, v) == EncLER(P, v, 1)

-----------------------------------------------------------------------------
(* Text.  Character codes: '0'=48 '9'=57 'a'=97 'A'=65 '-'=45 '+'=43 '_'=95    *)
(* '"'=34 '['=91 ']'=93 ','=44                                                 *)

DigitCode(d) == IF d < 10 THEN 48 + d ELSE 87 + d          \* lower-case letters for 10..35
RECURSIVE NatText(_,_)
NatText(a, base) == IF Lt(a, FromInt(base)) THEN <<DigitCode(ToInt(a))>>
                    ELSE NatText(Div(a, FromInt(base)), base) \o <<DigitCode(ToInt(Rem(a, FromInt(base))))>>

MaxUint16 == FromInt(65535)
\* Element.Text(base), base in 2..36: in base 10 the values -65535..-1 are printed with a sign
ElemText(P, v, base) ==
  IF base = 10 /\ v # Zero /\ Le(Sub(P.q, v), MaxUint16) /\ Bug # "no_sign"
  THEN <<45>> \o NatText(Sub(P.q, v), 10)
  ELSE NatText(v, base)
\* MarshalJSON: a JSON number when the decimal text has at most 15 characters, else a JSON string
ElemJSON(P, v) == LET t == ElemText(P, v, 10) IN IF Len(t) <= 15 THEN t ELSE <<34>> \o t \o <<34>>

\* Go's number grammar (math/big Int.SetString(s, 0)), which SetString / UnmarshalJSON document:
\* optional sign; prefix 0b 0o 0x (either case) or a leading 0 (octal), otherwise decimal; '_' only
\* between a prefix and a digit or between digits; at least one digit; the whole text is consumed.
DigitVal(c) == IF c \in 48..57 THEN c - 48 ELSE IF c \in 97..122 THEN c - 87 ELSE IF c \in 65..90 THEN c - 55 ELSE 99
\* The scan is a left fold over the characters (SequencesExt!FoldLeft: linear, no deep recursion on long
\* texts).  State: prev (0 = nothing yet, 1 = digit or the 0 of a prefix, 2 = underscore), cnt = digits seen,
\* acc = magnitude, sepbad = a misplaced '_', dead = a character that is not part of the number.
ScanStep(base, st, c) ==
  IF st.dead THEN st
  ELSE IF c = 95 THEN [st EXCEPT !.sepbad = @ \/ st.prev # 1, !.prev = 2]
  ELSE LET d == DigitVal(c) IN
       IF d >= base THEN [st EXCEPT !.dead = TRUE]            \* not fully consumed: SetString fails
       ELSE [st EXCEPT !.prev = 1, !.cnt = @ + 1, !.acc = Add(Mul(@, FromInt(base)), FromInt(d))]
ScanDigits(s, pos, base, prev) ==
  LET st == SE!FoldLeft(LAMBDA t, c : ScanStep(base, t, c),
                        [prev |-> prev, cnt |-> 0, acc |-> Zero, sepbad |-> FALSE, dead |-> FALSE],
                        SubSeq(s, pos, Len(s)))
  IN [ok |-> ~st.dead /\ ~st.sepbad /\ st.prev # 2 /\ st.cnt > 0, mag |-> IF st.dead THEN Zero ELSE st.acc]
ScanNat(s, i) ==          \* magnitude starting at position i
  IF i > Len(s) THEN [ok |-> FALSE, mag |-> Zero]
  ELSE IF s[i] # 48 THEN ScanDigits(s, i, 10, 0)
  ELSE IF i = Len(s) THEN [ok |-> TRUE, mag |-> Zero]            \* "0"
  ELSE LET c == s[i+1] IN
       IF c \in {98, 66} THEN ScanDigits(s, i+2, 2, 1)
       ELSE IF c \in {111, 79} THEN ScanDigits(s, i+2, 8, 1)
       ELSE IF c \in {120, 88} THEN ScanDigits(s, i+2, 16, 1)
       ELSE ScanDigits(s, i+1, 8, 1)             \* leading 0: octal
ParseNumber(s) ==          \* [ok, z]
  IF Len(s) = 0 THEN [ok |-> FALSE, z |-> ZInt(FALSE, Zero)]
  ELSE LET signed == s[1] \in {45, 43}
           r == ScanNat(s, IF signed THEN 2 ELSE 1)
       IN [ok |-> r.ok, z |-> ZInt(s[1] = 45, r.mag)]

\* SetString: [ok, v]; on ~ok the receiver is left unchanged and (nil, error) is returned
SetString(P, s) == LET r == ParseNumber(s) IN [ok |-> r.ok, v |-> IF r.ok THEN SetBigInt(P, r.z) ELSE Zero]

\* UnmarshalJSON(data): one leading and one trailing '"' are dropped independently, then SetString's
\* grammar.  Inputs longer than 3*bits characters are refused ("toolong"; such a text is never
\* produced by MarshalJSON and the property does not say what happens: either outcome is accepted).
\* wellformed: the quotes are balanced (number token or string token); otherwise the input is not
\* JSON and only "no panic" is demanded.
Unquote(s) == LET a == IF Len(s) > 0 /\ s[1] = 34 THEN SubSeq(s, 2, Len(s)) ELSE s
              IN IF Len(a) > 0 /\ a[Len(a)] = 34 THEN SubSeq(a, 1, Len(a) - 1) ELSE a
QuotesBalanced(s) == \/ (Len(s) >= 2 /\ s[1] = 34 /\ s[Len(s)] = 34)
                     \/ (Len(s) >= 1 /\ s[1] # 34 /\ s[Len(s)] # 34)
UnmarshalJSON(P, s) == LET r == SetString(P, Unquote(s))
                       IN [ok |-> r.ok, v |-> r.v, toolong |-> Len(s) > 3 * P.bits, wellformed |-> QuotesBalanced(s)]

-----------------------------------------------------------------------------
(* Vector codec: uint32 big-endian length prefix, then fixed-length big-endian *)
(* elements.                                                                   *)

RECURSIVE VecBody(_,_,_)
VecBody(P, vs, i) == IF i > Len(vs) THEN <<>> ELSE EncBE(P, vs[i]) \o VecBody(P, vs, i+1)
VecEnc(P, vs) == ToBytesBE(FromInt(Len(vs)), 4) \o VecBody(P, vs, 1)

\* what a reader makes of the byte stream s (sync ReadFrom, UnmarshalBinary, AsyncReadFrom agree on it):
\*   ok = FALSE: an error must be reported; why in {"header", "short", "invalid"}
\*   ok = TRUE : vs = the elements, n = number of bytes consumed (nothing beyond is touched)
RECURSIVE VecElems(_,_,_,_)
VecElems(P, s, i, cnt) ==          \* sequence of [ok, v] of the elements i..cnt
  IF i > cnt THEN <<>>
  ELSE <<DecBE(P, SubSeq(s, 4 + (i-1) * P.bytes + 1, 4 + i * P.bytes))>> \o VecElems(P, s, i+1, cnt)
VecDec(P, s) ==
  IF Len(s) < 4 THEN [ok |-> FALSE, why |-> "header"]
  ELSE LET L == FromBytesBE(SubSeq(s, 1, 4)) IN
       IF Lt(FromInt(Len(s) - 4), Mul(L, FromInt(P.bytes))) THEN [ok |-> FALSE, why |-> "short"]
       ELSE LET cnt == ToInt(L)
                es  == VecElems(P, s, 1, cnt)
            IN IF \A i \in 1..cnt : es[i].ok
               THEN [ok |-> TRUE, vs |-> [i \in 1..cnt |-> es[i].v] \o <<>>, n |-> 4 + cnt * P.bytes]
               ELSE [ok |-> FALSE, why |-> "invalid"]

\* `execute`: the partition of 0..cnt-1 into tasks used by the asynchronous reader (cnt > 0)
\* returns a sequence of [lo, hi) pairs
ExecTasks(cnt, ncpu) ==
  LET per0 == cnt \div ncpu
      nt   == IF per0 < 1 THEN cnt ELSE ncpu
      per  == IF per0 < 1 THEN 1 ELSE per0
      extra == cnt - nt * per
      lo(i) == (i-1) * per + (IF i-1 < extra THEN i-1 ELSE extra)       \* i in 1..nt
  IN [i \in 1..nt |-> <<lo(i), lo(i) + per + (IF i-1 < extra THEN 1 ELSE 0)>>] \o <<>>
=============================================================================
