SPECIFICATION Spec
CONSTANT Bug = "none"
CHECK_DEADLOCK FALSE
