SPECIFICATION Spec
CONSTANTS
  Bug = "async_nocount"
  MaxLen = 4
  MaxCpu = 3
INVARIANTS AsyncAcceptance
CHECK_DEADLOCK FALSE
