SPECIFICATION Spec
CONSTANTS
  Bug = "none"
  Fields = {4, 5, 6}
  Mode = "laws"
INVARIANTS TypeOK Lenient StrictAcceptance TextSetters ReadOnly RoundTripHistory RoundTripLaws
CHECK_DEADLOCK FALSE
