SPECIFICATION Spec
CONSTANTS
  Bug = "none"
  Fields = {3, 4}
  Mode = "inputs"
INVARIANTS TypeOK Lenient StrictAcceptance TextSetters ReadOnly RoundTripHistory RoundTripLaws
CHECK_DEADLOCK FALSE
