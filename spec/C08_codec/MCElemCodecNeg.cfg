SPECIFICATION Spec
CONSTANTS
  Bug = "accept_q"
  Fields = {1}
  Mode = "free"
INVARIANTS StrictAcceptance
CHECK_DEADLOCK FALSE
