---------------------------- MODULE MCElemCodec ----------------------------
(* Exhaustive model checking of the element-conversion machine (C08).         *)
(*                                                                            *)
(* State: the field P (chosen initially), the element register z (abstract    *)
(* value), the wire (output of the last encoder, consumed by the next         *)
(* decoder) and `last`, the record of the last call (entry point, input,      *)
(* outcome) on which the acceptance invariants are stated.                    *)
(* One action per public entry point; its effect is the OPERATIONAL           *)
(* definition of FieldCodec (what the library does).  The invariants are the  *)
(* DECLARATIVE statements of the property, written with TLC's native          *)
(* integers and quantifiers, i.e. independently of BigNat and of the          *)
(* limb-wise algorithms they judge.                                           *)
EXTENDS FieldCodec, Integers, Sequences, FiniteSets

CONSTANTS Fields,     \* set of indices into FieldTable
          Mode        \* "free"  : every element, free interleaving of ALL entry points, boundary input sets
                      \* "inputs": one call of every decoder / setter on the WIDE input sets (all byte strings of
                      \*           length <= 2, all integers -2q..2^(8*Bytes)+q, all texts of length <= 4)
                      \* "values": every element through every encoder and back
                      \* "laws"  : every element as an initial state, no step: the state laws on all q values of larger fields
Wide == Mode = "inputs"

FieldTable == <<
  [qn |-> 13,    w |-> 8,  n |-> 1, bytes |-> 1, bits |-> 4,  alpha |-> {0, 12, 13, 255}],
  [qn |-> 251,   w |-> 8,  n |-> 1, bytes |-> 1, bits |-> 8,  alpha |-> {0, 1, 250, 251, 255}],
  [qn |-> 257,   w |-> 8,  n |-> 2, bytes |-> 2, bits |-> 9,  alpha |-> {0, 1, 2, 255}],
  [qn |-> 65521, w |-> 8,  n |-> 2, bytes |-> 2, bits |-> 16, alpha |-> {0, 240, 241, 255}],
  [qn |-> 65521, w |-> 16, n |-> 1, bytes |-> 2, bits |-> 16, alpha |-> {0, 240, 241, 255}],
  [qn |-> 70001, w |-> 8,  n |-> 3, bytes |-> 3, bits |-> 17, alpha |-> {0, 1, 17, 113, 255}] >>

VARIABLES fi, z, wire, last
vars == <<fi, z, wire, last>>

F  == FieldTable[fi]
P  == [q |-> FromInt(F.qn), w |-> F.w, n |-> F.n, bytes |-> F.bytes, bits |-> F.bits]
qi == F.qn
NB == F.bytes

-----------------------------------------------------------------------------
(* Input sets                                                                *)

RECURSIVE StringsOver(_,_)
StringsOver(A, k) == IF k = 0 THEN {<<>>} ELSE {<<a>> \o s : a \in A, s \in StringsOver(A, k-1)}
UpTo(A, k) == UNION {StringsOver(A, j) : j \in 0..k}

\* "inputs" mode: byte strings of every length 0..2*NB+1 - ALL strings of length <= 2, boundary alphabet beyond;
\* "free" mode (interleavings matter, not inputs): strings over the two bytes around q, plus a few
ByteInputs == IF Wide
              THEN {<<>>} \cup {<<a>> : a \in 0..255} \cup {<<a, c>> : a \in 0..255, c \in 0..255} \cup UNION {StringsOver(F.alpha, j) : j \in 3..(2*NB+1)}
              ELSE UpTo({qi - 1, qi}, 2*NB+1) \cup {<<0>>, <<255>>, <<1, 0>>, <<0, 0, 1>>}
FixedInputs == {b \in ByteInputs : Len(b) = NB}

Pow256(k) == IF k = 0 THEN 1 ELSE IF k = 1 THEN 256 ELSE IF k = 2 THEN 65536 ELSE 16777216
\* "inputs": every integer of the range -2q..2^(8NB)+q; "free": the boundaries
IntInputs == IF Wide THEN (-2*qi)..(Pow256(NB) + qi)
             ELSE {-qi - 1, -qi, -1, 0, 1, qi - 1, qi, qi + 1, 2*qi, Pow256(NB) - 1, Pow256(NB), Pow256(NB) + qi}

\* text: "inputs": every string of length <= 4 over signs, digits on both sides of each base, prefix letters,
\* '_', a non-digit; "free": a fixed list
TextAlpha == {45, 43, 48, 49, 55, 57, 95, 120, 98, 102, 71}        \* - + 0 1 7 9 _ x b f G
TextList == {<<>>, <<48>>, <<45, 49>>, <<43, 57>>, <<49, 55>>, <<49, 95, 55>>, <<95, 49>>, <<49, 95>>, <<48, 120, 102>>,
             <<48, 88, 70, 70>>, <<48, 79, 55, 55>>, <<48, 66, 49, 48, 49>>, <<48, 111, 95, 49, 55>>, <<48, 57>>, <<48, 55>>,
             <<48, 120>>, <<45>>, <<71>>, <<49, 95, 95, 49>>, <<45, 48>>, <<48, 95, 55>>}
TextInputs == IF Wide THEN UpTo(TextAlpha, 4) \cup TextList ELSE TextList
JSONInputs == IF Wide
              THEN {<<34>> \o s \o <<34>> : s \in UpTo(TextAlpha, 2)} \cup UpTo(TextAlpha, 2)
                   \cup {<<34>> \o s : s \in UpTo(TextAlpha, 1)} \cup {s \o <<34>> : s \in UpTo(TextAlpha, 1)}
              ELSE {<<34, 49, 55, 34>>, <<49, 55>>, <<34, 45, 49, 34>>, <<34>>, <<34, 34>>, <<34, 49>>, <<49, 34>>, <<34, 71, 34>>}
Bases == {2, 8, 10, 16, 36}

-----------------------------------------------------------------------------
(* Native-integer reference semantics (independent of BigNat)                 *)

RECURSIVE NatBE(_,_)                     \* big-endian value modulo m by Horner (stays below 256*m)
NatBE(s, m) == IF Len(s) = 0 THEN 0 ELSE (NatBE(SubSeq(s, 1, Len(s)-1), m) * 256 + s[Len(s)]) % m
Rev(s) == [i \in 1..Len(s) |-> s[Len(s) + 1 - i]]
RECURSIVE ValBE(_)                       \* exact value, for Len(s) <= 3
ValBE(s) == IF Len(s) = 0 THEN 0 ELSE ValBE(SubSeq(s, 1, Len(s)-1)) * 256 + s[Len(s)]
ValLE(s) == ValBE(Rev(s))
Congruent(a, b) == (a - b) % qi = 0      \* a = b (mod q) on native integers
zi == ToInt(z)

\* reference reading of Go's number grammar: positional, no scanning automaton
IsDigitOf(c, base) == DigitVal(c) < base
NumBody(s, i, base, sepFirstOk) ==       \* s[i..] is a non-empty run of digits with single '_' separators
  /\ i <= Len(s)
  /\ \A j \in i..Len(s) : s[j] = 95 \/ IsDigitOf(s[j], base)
  /\ s[Len(s)] # 95
  /\ \A j \in i..Len(s) : s[j] = 95 => (j < Len(s) /\ s[j+1] # 95 /\ (j > i \/ sepFirstOk))
DigitPos(s, i) == {j \in i..Len(s) : s[j] # 95}
RECURSIVE PowI(_,_)
PowI(b, k) == IF k = 0 THEN 1 ELSE b * PowI(b, k-1)
BodyVal(s, i, base) ==                   \* value of the digits, native (short inputs only)
  LET D == DigitPos(s, i)
      RECURSIVE Sum(_)
      Sum(S) == IF S = {} THEN 0
                ELSE LET j == CHOOSE x \in S : TRUE
                     IN DigitVal(s[j]) * PowI(base, Cardinality({k \in D : k > j})) + Sum(S \ {j})
  IN Sum(D)
RefNumber(s) ==                          \* [ok, val] with val a native integer
  LET i == IF Len(s) > 0 /\ s[1] \in {45, 43} THEN 2 ELSE 1
      sg == IF Len(s) > 0 /\ s[1] = 45 THEN -1 ELSE 1
      pre(cs) == Len(s) >= i + 1 /\ s[i] = 48 /\ s[i+1] \in cs
  IN IF Len(s) < i THEN [ok |-> FALSE, val |-> 0]
     ELSE IF pre({98, 66})  THEN [ok |-> NumBody(s, i+2, 2, TRUE),  val |-> sg * BodyVal(s, i+2, 2)]
     ELSE IF pre({111, 79}) THEN [ok |-> NumBody(s, i+2, 8, TRUE),  val |-> sg * BodyVal(s, i+2, 8)]
     ELSE IF pre({120, 88}) THEN [ok |-> NumBody(s, i+2, 16, TRUE), val |-> sg * BodyVal(s, i+2, 16)]
     ELSE IF s[i] = 48 /\ Len(s) > i THEN [ok |-> NumBody(s, i+1, 8, TRUE), val |-> sg * BodyVal(s, i+1, 8)]
     ELSE [ok |-> NumBody(s, i, 10, FALSE), val |-> sg * BodyVal(s, i, 10)]

-----------------------------------------------------------------------------
(* The machine                                                               *)

NoWire == [kind |-> "none", base |-> 0, data |-> <<>>]
Live == /\ Mode = "inputs" => last.op = "init"    \* "inputs": histories of one call
        /\ Mode # "laws"

Init == /\ fi \in Fields
        /\ z \in (IF Mode = "inputs" THEN {FromInt(1)} ELSE {FromInt(x) : x \in 0..(FieldTable[fi].qn - 1)})
        /\ wire = NoWire
        /\ last = [op |-> "init"]

\* lenient setters
ASetBytes(b) == /\ z' = SetBytes(P, b) /\ wire' = NoWire
                /\ last' = [op |-> "SetBytes", b |-> b] /\ UNCHANGED fi
ASetBigInt(k) ==
                 /\ z' = SetBigInt(P, ZInt(k < 0, FromInt(IF k < 0 THEN -k ELSE k)))
                 /\ wire' = NoWire /\ last' = [op |-> "SetBigInt", k |-> k] /\ UNCHANGED fi
\* strict decoders: on error the register keeps its value
Strict(op, b, r) == /\ z' = (IF r.ok THEN r.v ELSE z) /\ wire' = NoWire
                    /\ last' = [op |-> op, b |-> b, ok |-> r.ok, before |-> z] /\ UNCHANGED fi
ASetBytesCanonical(b) == Strict("SetBytesCanonical", b, SetBytesCanonical(P, b))
ABEElement(b) == Strict("BEElement", b, DecBE(P, b))
ALEElement(b) == Strict("LEElement", b, DecLE(P, b))
\* text
AText(op, s, r) == /\ z' = (IF r.ok THEN r.v ELSE z) /\ wire' = NoWire
                   /\ last' = [op |-> op, s |-> s, ok |-> r.ok, before |-> z] /\ UNCHANGED fi
ASetString(s) == AText("SetString", s, SetString(P, s))
AUnmarshalJSON(s) == LET r == UnmarshalJSON(P, s) IN AText("UnmarshalJSON", s, [ok |-> r.ok /\ ~r.toolong, v |-> r.v])
\* encoders: read-only on z, output on the wire
EmitB(kind, base, data) == /\ wire' = [kind |-> kind, base |-> base, data |-> data]
                          /\ last' = [op |-> kind, before |-> z] /\ UNCHANGED <<fi, z>>
Emit(kind, data) == EmitB(kind, 0, data)
APutBE == Emit("BE", EncBE(P, z))
APutLE == Emit("LE", EncLE(P, z))
ABits  == Emit("Limbs", Limbs(P, z))
ABigInt == Emit("Int", z)
AText10 == Emit("Dec", ElemText(P, z, 10))
ATextB(b) == EmitB("Text", b, ElemText(P, z, b))
AMarshalJSON == Emit("JSON", ElemJSON(P, z))
\* a decoder fed with the wire: the round trip of the property as a history
Back(r) == /\ z' = (IF r.ok THEN r.v ELSE FromInt(0)) /\ wire' = NoWire
           /\ last' = [op |-> "Back", ok |-> r.ok, before |-> z] /\ UNCHANGED fi
Prefix(b) == CASE b = 2 -> <<48, 98>> [] b = 8 -> <<48, 111>> [] b = 16 -> <<48, 120>> [] OTHER -> <<>>
ABack ==
  \/ wire.kind = "BE" /\ (Back(DecBE(P, wire.data)) \/ Back(SetBytesCanonical(P, wire.data))
                          \/ Back([ok |-> TRUE, v |-> SetBytes(P, wire.data)]))
  \/ wire.kind = "LE" /\ Back(DecLE(P, wire.data))
  \/ wire.kind = "Limbs" /\ Back([ok |-> TRUE, v |-> SetBigInt(P, ZInt(FALSE, FromLimbs(P, wire.data)))])
  \/ wire.kind = "Int" /\ Back([ok |-> TRUE, v |-> SetBigInt(P, ZInt(FALSE, wire.data))])
  \/ wire.kind = "Dec" /\ (Back(SetString(P, wire.data)) \/ Back(UnmarshalJSON(P, wire.data)))
  \/ wire.kind = "JSON" /\ Back(UnmarshalJSON(P, wire.data))
  \/ wire.kind = "Text" /\ wire.base \in {2, 8, 16} /\ Back(SetString(P, Prefix(wire.base) \o wire.data))

Next == Live /\
        \/ (Mode \in {"free", "inputs"} /\
             \/ \E b \in ByteInputs : ASetBytes(b) \/ ASetBytesCanonical(b)
             \/ \E c \in FixedInputs : ABEElement(c) \/ ALEElement(c)
             \/ \E k \in IntInputs : ASetBigInt(k)
             \/ \E s \in TextInputs : ASetString(s)
             \/ \E t \in JSONInputs : AUnmarshalJSON(t))
        \/ (Mode \in {"free", "values"} /\ (APutBE \/ APutLE \/ ABits \/ ABigInt \/ AText10 \/ AMarshalJSON \/ ABack
                             \/ \E bb \in Bases : ATextB(bb)))
Spec == Init /\ [][Next]_vars

-----------------------------------------------------------------------------
(* The property                                                              *)

\* every register value is a canonical element
InF(v) == IsNat(v) /\ Lt(v, P.q)
TypeOK == InF(z)

\* lenient setters produce the residue modulo q (integers of any sign and size, bytes of any length)
Lenient ==
  /\ last.op = "SetBytes"  => 0 <= zi /\ zi < qi /\ zi = NatBE(last.b, qi)
  /\ last.op = "SetBigInt" => 0 <= zi /\ zi < qi /\ Congruent(last.k, zi)

\* strict decoders accept exactly the fixed-length encodings of the integers below q
FixedVal(op, b) == IF op = "LEElement" THEN ValLE(b) ELSE ValBE(b)
StrictAcceptance ==
  last.op \in {"SetBytesCanonical", "BEElement", "LEElement"} =>
    /\ last.ok <=> (Len(last.b) = NB /\ FixedVal(last.op, last.b) < qi)
    /\ last.ok => zi = FixedVal(last.op, last.b)
    /\ ~last.ok => z = last.before
    /\ (qi <= 300 /\ last.op # "LEElement") =>
         (last.ok <=> \E x \in 0..(qi-1) : last.b = ToBytesBE(FromInt(x), NB))     \* the property's wording, literally
    /\ (qi <= 300 /\ last.op = "LEElement") =>
         (last.ok <=> \E x \in 0..(qi-1) : last.b = ToBytesLE(FromInt(x), NB))

\* numeric strings: Go's grammar, residue modulo q; invalid text is an error and leaves z alone
TextSetters ==
  /\ last.op = "SetString" =>
       LET r == RefNumber(last.s) IN
       /\ last.ok <=> r.ok
       /\ last.ok => Congruent(r.val, zi)
       /\ ~last.ok => z = last.before
  /\ last.op = "UnmarshalJSON" =>
       LET r == RefNumber(Unquote(last.s)) IN
       /\ last.ok <=> (r.ok /\ Len(last.s) <= 3 * F.bits)
       /\ last.ok => Congruent(r.val, zi)
       /\ ~last.ok => z = last.before

\* encoders do not modify the element, and every encoder/decoder pair is the identity on [0,q)
ReadOnly == last.op \in {"BE", "LE", "Limbs", "Int", "Dec", "JSON", "Text"} => z = last.before
RoundTripHistory == last.op = "Back" => last.ok /\ z = last.before

\* the same as state laws on the current element (also covers the states no history reaches twice)
TextVal(s, base) == BodyVal(s, 1, base)
RoundTripLaws ==
  Mode # "inputs" =>        \* ("inputs" explores inputs from one element; the laws are on elements: other modes)
  LET be == EncBE(P, z)  le == EncLE(P, z) IN
  /\ Len(be) = NB /\ Len(le) = NB /\ le = Rev(be)
  /\ be = ToBytesBE(z, NB)                                   \* the exposed bytes are the integer in [0,q)
  /\ ValBE(be) = zi /\ ValLE(le) = zi
  /\ DecBE(P, be) = [ok |-> TRUE, v |-> z] /\ DecLE(P, le) = [ok |-> TRUE, v |-> z]
  /\ SetBytesCanonical(P, be) = [ok |-> TRUE, v |-> z] /\ SetBytes(P, be) = z
  /\ FromLimbs(P, Limbs(P, z)) = z /\ \A i \in 1..P.n : Lt(Limbs(P, z)[i], TwoTo(P.w))
  /\ SetBigInt(P, ZInt(FALSE, z)) = z
  /\ SetString(P, ElemText(P, z, 10)) = [ok |-> TRUE, v |-> z]
  /\ UnmarshalJSON(P, ElemJSON(P, z)).ok /\ UnmarshalJSON(P, ElemJSON(P, z)).v = z
  /\ UnmarshalJSON(P, ElemJSON(P, z)).wellformed /\ ~UnmarshalJSON(P, ElemJSON(P, z)).toolong
  /\ \A b \in {2, 8, 16} : SetString(P, Prefix(b) \o ElemText(P, z, b)) = [ok |-> TRUE, v |-> z]
  /\ \A b \in Bases : b # 10 => TextVal(ElemText(P, z, b), b) = zi
  /\ LET t == ElemText(P, z, 10) IN
       IF t[1] = 45 THEN (qi - zi) \in 1..65535 /\ TextVal(SubSeq(t, 2, Len(t)), 10) = qi - zi
       ELSE (zi = 0 \/ qi - zi > 65535) /\ TextVal(t, 10) = zi
=============================================================================
