SPECIFICATION Spec
CONSTANTS
  Bug = "none"
  Fields = {1, 2, 3}
  Mode = "values"
INVARIANTS TypeOK Lenient StrictAcceptance TextSetters ReadOnly RoundTripHistory RoundTripLaws
CHECK_DEADLOCK FALSE
