SPECIFICATION Spec
CONSTANTS
  Bug = "none"
  MaxLen = 4
  MaxCpu = 3
INVARIANTS TypeOK VecRoundTrip RoundTripHistory SyncAcceptance AsyncAcceptance Partition AsyncBookkeeping
CHECK_DEADLOCK FALSE
