------------------------- MODULE TracePedersenHash -------------------------
(* Extension X01 (not one of the listed properties): the Starknet Pedersen hash *)
(* of ecc/stark-curve/pedersen-hash computes its definition                     *)
(*                                                                              *)
(*   Pedersen(a, b) = x( S + [a mod 2^248] P0 + [a div 2^248] P1                *)
(*                         + [b mod 2^248] P2 + [b div 2^248] P3 )              *)
(*   PedersenArray(e_1 .. e_n) = H(..H(H(0, e_1), e_2).., n)                    *)
(*                                                                              *)
(* on the STARK curve, with the shift point S and the four base points of the   *)
(* reference implementation (transcribed here from the package documentation's  *)
(* source, checked to be on the curve by the ASSUME below).  The implementation *)
(* uses a 4 x 63 x 16 table of precomputed multiples and nibble look-ups; the   *)
(* specification uses double-and-add on the textbook affine law.                *)
EXTENDS TraceKernel, CurveParams

Cv == GroupCurve("stark-curve", "G1")
F == Cv.F
K == Cv.k
FPar == FieldP("stark-curve/fp")
q == F.q
Rinv == InvMod(Rem(Shl(One, FPar.w * FPar.n), q), q)
V(raw) == MulMod(raw, Rinv, q)
Canon(raw) == IsNat(raw) /\ Lt(raw, q)

Shift == Pt(<<26628, 8596, 30977, 10494, 29493, 21134, 17416, 13701, 5745, 13118, 8109, 28892, 28686, 11264, 27184, 29173, 1182>>  \* 2089986280348253421170679821480865132823066470938446095505822317253594081284
           ,
            <<9866, 23584, 29849, 514, 27677, 7178, 6320, 12552, 21326, 21533, 29723, 13988, 24372, 30939, 4814, 1663, 970>>  \* 1713931329540660377023406109199410414810705867260802078187082345529207694986
           )
P0 == Pt(<<25723, 12247, 17893, 1030, 12481, 10973, 731, 21513, 25999, 31059, 6487, 25508, 31081, 32719, 29419, 5182, 564>>  \* 996781205833008774514500082376783249102396023663454813447423147977397232763
           ,
         <<22037, 20796, 6715, 30337, 19654, 19858, 30558, 154, 14740, 16028, 8016, 17577, 8680, 11766, 16446, 11128, 944>>  \* 1668503676786377725805489344771023921079126552019160156920634619255970485781
           )
P1 == Pt(<<9080, 29973, 19638, 15668, 395, 19398, 12407, 1231, 13209, 11038, 6489, 27993, 13305, 1974, 23986, 11129, 1274>>  \* 2251563274489750535117886426533222435294046428347329203627021249169616184184
           ,
         <<13645, 8171, 21408, 2887, 15173, 20292, 32330, 5040, 342, 31880, 913, 7942, 14353, 14652, 12876, 1218, 1018>>  \* 1798716007562728905295480679789526322175868328062420237419143593021674992973
           )
P2 == Pt(<<27031, 31322, 19394, 21787, 4339, 24893, 12753, 25416, 19264, 3054, 23917, 18567, 18276, 20925, 22959, 9824, 1210>>  \* 2138414695194151160943305727036575959195309218611738193261179310511854807447
           ,
         <<8604, 25750, 31902, 16552, 26564, 7349, 26263, 25314, 24522, 23504, 6931, 14578, 29881, 11939, 15728, 6158, 64>>  \* 113410276730064486255102093846540133784865286929052426931474106396135072156
           )
P3 == Pt(<<514, 4939, 17585, 7039, 12893, 10230, 4661, 21288, 15148, 13511, 9176, 9829, 18148, 22915, 11321, 366, 1347>>  \* 2379962749567351885752724891227938183011949129833673362440656643086021394946
           ,
         <<9254, 21304, 12767, 15598, 25000, 1194, 24079, 19542, 9678, 12636, 2467, 16419, 19252, 9888, 3572, 15775, 439>>  \* 776496453633298175483985398648758586525933812536653089401905292063708816422
           )

ASSUME \A P \in {Shift, P0, P1, P2, P3} : WOnCurve(Cv, P)

Two248 == Shl(One, 248)
Lo(a) == Rem(a, Two248)
Hi(a) == Div(a, Two248)

\* the hash point; the hash is its abscissa (0 by the code's convention when the point is the point at infinity)
HPoint(a, b) ==
  WAdd(Cv, WAdd(Cv, WAdd(Cv, WAdd(Cv, Shift, WMulNat(Cv, Lo(a), P0)), WMulNat(Cv, Hi(a), P1)),
                WMulNat(Cv, Lo(b), P2)), WMulNat(Cv, Hi(b), P3))
H(a, b) == LET R == HPoint(a, b) IN IF R.inf THEN Zero ELSE R.x

RECURSIVE HArr(_, _, _)
HArr(es, i, acc) == IF i > Len(es) THEN H(acc, FromInt(Len(es))) ELSE HArr(es, i + 1, H(acc, V(es[i])))

Judge(e) ==
  IF Panicked(e) THEN {"panic"}
  ELSE CASE e.op = "Pedersen" ->
              (IF ~(Canon(e.a) /\ Canon(e.b)) THEN {"badinput"}
               ELSE IF ~Canon(e.out) THEN {"noncanonical"}
               ELSE IF V(e.out) # H(V(e.a), V(e.b)) THEN {"value"} ELSE {})
              \cup (IF e.aafter = e.a /\ e.bafter = e.b THEN {} ELSE {"mutated"})
         [] e.op = "PedersenArray" ->
              (IF \E i \in 1..Len(e.es) : ~Canon(e.es[i]) THEN {"badinput"}
               ELSE IF ~Canon(e.out) THEN {"noncanonical"}
               ELSE IF V(e.out) # HArr(e.es, 1, Zero) THEN {"value"} ELSE {})
              \cup (IF e.esafter = e.es THEN {} ELSE {"mutated"})
         [] OTHER -> {"unknown-op"}

Init == KInit
Step == HasNext /\ Advance(Judge(Ev))
Next == Step \/ Finish
Spec == Init /\ [][Next]_<<l, bad>>
=============================================================================
