----------------------------- MODULE MCTranscript -----------------------------
(* Exhaustive model checking of the Fiat-Shamir transcript on every call       *)
(* history up to MaxDepth over the alphabet                                    *)
(*   Bind(name | unknown, v in 2 values)  ComputeChallenge(name | unknown)     *)
(*   MutBound (the caller overwrites every slice it has passed to Bind)        *)
(*   MutRet   (the caller overwrites every challenge slice it was handed)      *)
(*                                                                             *)
(* Two layers run in lock step:                                                *)
(*  - the sequential specification FSTranscript (value semantics), driven with *)
(*    an injective abstract hash H;                                            *)
(*  - a heap-level model of the Go object: byte slices are locations of `heap`,*)
(*    the object keeps locations (ibnd, ival), the caller keeps the locations  *)
(*    it handed in / was handed out (cbound, cret) and may overwrite them.     *)
(*    The three copy decisions of the code are constants:                      *)
(*      CopyOnBind    Bind stores a copy of its argument     (code: yes)       *)
(*      CopyOnStore   the cached value is a copy of h.Sum    (code: yes)       *)
(*      CopyOnReturn  a repeated ComputeChallenge returns a copy of the cache  *)
(*                    (intended design: yes; see MCTranscript_F11.cfg)         *)
(* The property = invariants Refines/ReplyInv/ChainInv/PrefixInv + the action  *)
(* properties below.                                                           *)
EXTENDS FSTranscript, FiniteSets, TLC

CONSTANTS NNames, MaxDepth, CopyOnBind, CopyOnStore, CopyOnReturn

VARIABLES heap,    \* sequence of slice contents, location = index (allocation appends)
          ibnd,    \* i -> sequence of locations of the stored bindings
          ival,    \* i -> location of the cached challenge value (0 = none)
          cbound,  \* locations of the slices the caller passed to successful Bind calls
          cret,    \* locations of the slices the caller got back from ComputeChallenge
          reply,   \* reply of the heap-level model to the last call
          areply,  \* reply prescribed by the specification
          op,      \* the last event
          depth

vars == <<names, bnd, done, val, prev, heap, ibnd, ival, cbound, cret, reply, areply, op, depth>>

\* all byte strings are sequences of naturals
NameOf(i) == <<10 + i>>          \* i = 0: a name that was not declared
Vals == {<<1>>, <<2>>}
Junk == <<0>>                    \* what a slice holds after the caller overwrote it

\* injective abstract hash of a sequence of byte strings (length-prefixed flattening)
RECURSIVE Flat(_)
Flat(s) == IF s = <<>> THEN <<>> ELSE <<Len(Head(s))>> \o Head(s) \o Flat(Tail(s))
H(input) == <<99>> \o Flat(input)

NoReply == [err |-> FALSE, v |-> NoVal]
ErrReply == [err |-> TRUE, v |-> NoVal]

Init == /\ names = [i \in 1..NNames |-> NameOf(i)]
        /\ bnd = [i \in 1..NNames |-> <<>>]
        /\ done = [i \in 1..NNames |-> FALSE]
        /\ val = [i \in 1..NNames |-> NoVal]
        /\ prev = 0
        /\ heap = <<>> /\ ibnd = [i \in 1..NNames |-> <<>>] /\ ival = [i \in 1..NNames |-> 0]
        /\ cbound = {} /\ cret = {}
        /\ reply = NoReply /\ areply = NoReply
        /\ op = [k |-> "New", nm |-> <<>>, v |-> <<>>]
        /\ depth = 0

Deref(locs) == [k \in 1..Len(locs) |-> heap[locs[k]]]

\* what the object feeds the hash for challenge i: it reads its stored slices through the heap
IHashInput(i) == <<names[i]>> \o (IF i > 1 THEN <<heap[ival[prev]]>> ELSE <<>>) \o Deref(ibnd[i])

DoBind(nm, v) ==
  LET i == Idx(nm)
      ok == BindOutcome(i) = "ok"
      a == Len(heap) + 1               \* the caller's slice
  IN /\ op' = [k |-> "Bind", nm |-> nm, v |-> v]
     /\ Bind(nm, v)
     /\ areply' = IF BindErr(nm) THEN ErrReply ELSE NoReply
     /\ IF ok
        THEN /\ heap' = IF CopyOnBind THEN heap \o <<v, v>> ELSE heap \o <<v>>
             /\ ibnd' = [ibnd EXCEPT ![i] = Append(@, IF CopyOnBind THEN a + 1 ELSE a)]
             /\ cbound' = cbound \cup {a}
             /\ reply' = NoReply
        ELSE /\ UNCHANGED <<heap, ibnd, cbound>>
             /\ reply' = ErrReply
     /\ UNCHANGED <<ival, cret>>

DoCompute(nm) ==
  LET i == Idx(nm)
      oc == ComputeOutcome(i)
      r == Len(heap) + 1               \* the slice handed to the caller
      d == IF oc = "fresh" THEN H(HashInput(i)) ELSE NoVal        \* specification
      di == IF oc = "fresh" THEN H(IHashInput(i)) ELSE NoVal      \* heap-level model
  IN /\ op' = [k |-> "Compute", nm |-> nm, v |-> <<>>]
     /\ Compute(nm, d)
     /\ areply' = IF ComputeErr(nm) THEN ErrReply ELSE [err |-> FALSE, v |-> ComputeValue(nm, d)]
     /\ CASE oc = "fresh" ->
               /\ heap' = IF CopyOnStore THEN heap \o <<di, di>> ELSE heap \o <<di>>
               /\ ival' = [ival EXCEPT ![i] = IF CopyOnStore THEN r + 1 ELSE r]
               /\ cret' = cret \cup {r}
               /\ reply' = [err |-> FALSE, v |-> di]
          [] oc = "cached" ->
               /\ reply' = [err |-> FALSE, v |-> heap[ival[i]]]
               /\ IF CopyOnReturn
                  THEN heap' = Append(heap, heap[ival[i]]) /\ cret' = cret \cup {r}
                  ELSE heap' = heap /\ cret' = cret \cup {ival[i]}
               /\ UNCHANGED ival
          [] OTHER -> reply' = ErrReply /\ UNCHANGED <<heap, ival, cret>>
     /\ UNCHANGED <<ibnd, cbound>>

\* caller-side events: overwrite the slices the caller holds
Overwrite(locs) == heap' = [x \in 1..Len(heap) |-> IF x \in locs THEN Junk ELSE heap[x]]
CallerEvent(kind, locs) ==
  /\ \E x \in locs : heap[x] # Junk
  /\ Overwrite(locs)
  /\ op' = [k |-> kind, nm |-> <<>>, v |-> <<>>]
  /\ Stutter
  /\ reply' = NoReply /\ areply' = NoReply
  /\ UNCHANGED <<ibnd, ival, cbound, cret>>

Next == /\ depth < MaxDepth
        /\ depth' = depth + 1
        /\ \/ \E i \in 0..NNames, v \in Vals : DoBind(NameOf(i), v)
           \/ \E i \in 0..NNames : DoCompute(NameOf(i))
           \/ CallerEvent("MutBound", cbound)
           \/ CallerEvent("MutRet", cret)

Spec == Init /\ [][Next]_vars

--------------------------------------------------------------------------------
\* each computed challenge equals the hash of its name, the previous challenge value (all but the
\* first) and the values bound to it in binding order - now and in every later state
ChainInv == \A i \in 1..N : done[i] => val[i] = H(HashInput(i))

\* no aliasing: what the object holds, read through the heap, is what the specification holds,
\* whatever the caller did to the slices it handed in or was handed out
Refines == \A i \in 1..N :
             /\ Deref(ibnd[i]) = bnd[i]
             /\ done[i] => (ival[i] # 0 /\ heap[ival[i]] = val[i])

\* every reply (error or bytes) of the heap-level model is the reply the specification prescribes
ReplyInv == reply = areply

\* a reply is an error exactly in the three refused situations
ErrorCases ==
  LET i == Idx(op.nm) IN
  /\ op.k = "Bind" => (areply.err <=> (i = 0 \/ done[i]))        \* done is not changed by Bind
  /\ op.k = "Compute" => (areply.err <=> (i = 0 \/ ~done[i]))    \* refused <=> still not computed
  /\ op.k \in {"MutBound", "MutRet", "New"} => ~areply.err

\* refused calls leave the transcript unchanged
ErrorsChangeNothing == [][areply'.err => UNCHANGED tvars]_vars
\* caller-side mutations are stutters of the transcript
CallerEventsChangeNothing == [][op'.k \in {"MutBound", "MutRet"} => UNCHANGED tvars]_vars
\* recomputing returns the same bytes and changes nothing
RecomputeSame == [][\A i \in 1..N : (done[i] /\ op'.k = "Compute" /\ op'.nm = names[i])
                                      => (areply' = [err |-> FALSE, v |-> val[i]] /\ UNCHANGED tvars)]_vars
\* a computed challenge and its bindings are final; bindings only grow at the end
Final == [][\A i \in 1..N : /\ done[i] => (done'[i] /\ val'[i] = val[i] /\ bnd'[i] = bnd[i])
                           /\ Len(bnd'[i]) >= Len(bnd[i])
                           /\ SubSeq(bnd'[i], 1, Len(bnd[i])) = bnd[i]]_vars
\* a challenge can only be computed right after its predecessor
InOrder == [][\A i \in 1..N : (~done[i] /\ done'[i]) => (prev = i - 1 /\ prev' = i /\ op'.nm = names[i])]_vars
=============================================================================
