SPECIFICATION Spec
CONSTANTS
  NNames = 3
  MaxDepth = 5
  CopyOnBind = FALSE
  CopyOnStore = TRUE
  CopyOnReturn = TRUE
INVARIANTS PrefixInv ChainInv Refines ReplyInv ErrorCases
PROPERTIES ErrorsChangeNothing CallerEventsChangeNothing RecomputeSame Final InOrder
CHECK_DEADLOCK FALSE
