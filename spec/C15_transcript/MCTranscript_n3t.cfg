SPECIFICATION Spec
CONSTANTS
  NNames = 3
  MaxDepth = 7
  CopyOnBind = TRUE
  CopyOnStore = TRUE
  CopyOnReturn = TRUE
INVARIANTS PrefixInv ChainInv Refines ReplyInv ErrorCases
PROPERTIES ErrorsChangeNothing CallerEventsChangeNothing RecomputeSame Final InOrder
CHECK_DEADLOCK FALSE
