----------------------------- MODULE FSTranscript -----------------------------
(* Sequential specification of the Fiat-Shamir transcript                      *)
(* (gnark-crypto fiat-shamir/transcript.go), value semantics.                  *)
(*                                                                             *)
(* Abstract state, modelled on the fields of the Go object:                    *)
(*   names  the declared challenge names in order (position i-1 in the code)   *)
(*   bnd    i -> sequence of the values bound to challenge i, in binding order *)
(*   done   i -> challenge i has been computed (isComputed)                    *)
(*   val    i -> its value (meaningful only where done[i])                     *)
(*   prev   position+1 of the `previous` pointer, 0 = nil                      *)
(* Names, bound values and challenge values are all sequences of naturals      *)
(* (bytes in trace validation, small codes in model checking).                 *)
(*                                                                             *)
(* The hash is NOT part of this module: the action Compute takes the digest of *)
(* HashInput(i) as an argument.  MCTranscript passes an injective term,        *)
(* TraceTranscript passes SHA-256 of the prescribed input / the digest seen at *)
(* the hash.Hash interface of the real run.                                    *)
EXTENDS Naturals, Sequences

VARIABLES names, bnd, done, val, prev
tvars == <<names, bnd, done, val, prev>>

N == Len(names)
NoVal == <<>>

\* position (1-based) of a name, 0 when it was not declared
Idx(nm) == IF \E i \in 1..N : names[i] = nm THEN CHOOSE i \in 1..N : names[i] = nm ELSE 0

\* NewTranscript(h, ns...)
New(ns) == /\ names' = ns
           /\ bnd'   = [i \in 1..Len(ns) |-> <<>>]
           /\ done'  = [i \in 1..Len(ns) |-> FALSE]
           /\ val'   = [i \in 1..Len(ns) |-> NoVal]
           /\ prev'  = 0

\* what Bind(names[i], _) does in the current state
BindOutcome(i) == IF i = 0 THEN "unknown"            \* errChallengeNotFound
                  ELSE IF done[i] THEN "computed"    \* errChallengeAlreadyComputed
                  ELSE "ok"

\* what ComputeChallenge(names[i]) does in the current state
ComputeOutcome(i) == IF i = 0 THEN "unknown"                        \* errChallengeNotFound
                     ELSE IF done[i] THEN "cached"                  \* same bytes again
                     ELSE IF i > 1 /\ prev # i - 1 THEN "order"     \* errPreviousChallengeNotComputed
                     ELSE "fresh"

\* the sequence of byte strings the hash must be fed for a fresh challenge i:
\* name, previous challenge value (all but the first), bound values in binding order
HashInput(i) == <<names[i]>> \o (IF i > 1 THEN <<val[i - 1]>> ELSE <<>>) \o bnd[i]

BindErr(nm) == BindOutcome(Idx(nm)) # "ok"
ComputeErr(nm) == ComputeOutcome(Idx(nm)) \in {"unknown", "order"}

\* Bind(nm, v): appends a COPY of v (value semantics) or is refused and changes nothing
Bind(nm, v) ==
  LET i == Idx(nm) IN
  IF BindOutcome(i) = "ok"
  THEN bnd' = [bnd EXCEPT ![i] = Append(@, v)] /\ UNCHANGED <<names, done, val, prev>>
  ELSE UNCHANGED tvars

\* ComputeChallenge(nm) where d is the digest of HashInput(Idx(nm)): a fresh challenge is cached
\* and becomes the previous one; a cached one, an unknown name, an out-of-order request change nothing
Compute(nm, d) ==
  LET i == Idx(nm) IN
  IF ComputeOutcome(i) = "fresh"
  THEN /\ val' = [val EXCEPT ![i] = d]
       /\ done' = [done EXCEPT ![i] = TRUE]
       /\ prev' = i
       /\ UNCHANGED <<names, bnd>>
  ELSE UNCHANGED tvars

\* the reply of ComputeChallenge(nm) when it is not an error
ComputeValue(nm, d) == IF ComputeOutcome(Idx(nm)) = "cached" THEN val[Idx(nm)] ELSE d

\* every caller-side event (mutating a slice that was bound earlier, mutating a returned
\* challenge, using the hash object between calls) and every refused call is a stutter
Stutter == UNCHANGED tvars

--------------------------------------------------------------------------------
\* state properties every reachable state of the machine satisfies (checked in MCTranscript)
\* computed challenges form a prefix of the declared order and prev points at the last of them
PrefixInv == \A i \in 1..N : done[i] <=> i <= prev
=============================================================================
