---------------------------- MODULE TraceTranscript ----------------------------
(* Trace validation for C15: replays the ndjson log of the real                *)
(* fiatshamir.Transcript (harness/c15.go) against the sequential specification *)
(* FSTranscript, event by event.                                               *)
(*                                                                             *)
(* The hash handed to NewTranscript is a recording wrapper around the real     *)
(* SHA-256 / MiMC: a ComputeChallenge event carries `hops`, every Reset ("R"), *)
(* Write ("W": bytes b, ok) and Sum ("S": pre = the successful writes since the*)
(* last Reset, d = digest) the transcript performed during the call.  So the   *)
(* hash is an uninterpreted function observed at its interface:                *)
(*   (1) some Sum saw exactly the prescribed input  name, previous value,      *)
(*       bindings in order                 (else "fed")                        *)
(*   (2) the returned challenge is the digest of that Sum  (else "value")      *)
(*   (3) for SHA-256 the returned challenge is HashOps!SHA256 of the           *)
(*       prescribed input                  (else "sha256")                     *)
(* "Exactly the prescribed input": a streaming hash (hk = "sha256") only sees  *)
(* the concatenation, so write boundaries are not compared; MiMC (hk = "mimc") *)
(* pads every short write to a block, so the sequence of non-empty writes is   *)
(* compared.                                                                   *)
(*                                                                             *)
(* Other reasons: "panic"; "swallowed-error" (a call the specification refuses *)
(* returned no error); "spurious-error"; "swallowed-hash-error" (the hash       *)
(* refused a write and the call still returned a challenge); "recompute" (a    *)
(* repeated ComputeChallenge returned other bytes); "mutated-arg" (Bind wrote  *)
(* to its argument); "state" (the private fields of the object, read by        *)
(* reflection after the event, differ from the specified successor state -     *)
(* this is how "refused calls and caller-side mutations leave the transcript   *)
(* unchanged" is observed at the very event).                                  *)
(* The property is silent about a hash that refuses a Write (MiMC: not a field *)
(* element) or panics in it (op "X"; MiMC does on some lengths, that is C14):  *)
(* the specification then accepts an error (resp. the hash's panic), requires  *)
(* that what was written so far is the beginning of the prescribed input and   *)
(* that nothing changes.  Error texts are not compared, only presence.         *)
EXTENDS TraceKernel, FSTranscript, HashOps

Init == KInit /\ names = <<>> /\ bnd = <<>> /\ done = <<>> /\ val = <<>> /\ prev = 0

RECURSIVE Concat(_)
Concat(s) == IF s = <<>> THEN <<>> ELSE Head(s) \o Concat(Tail(s))
NonEmpty(s) == SelectSeq(s, LAMBDA x : x # <<>>)

Blocky == Hdr.hk = "mimc"
Feeds(pre, F) == IF Blocky THEN NonEmpty(pre) = NonEmpty(F) ELSE Concat(pre) = Concat(F)

IsErr(e) == Has(e, "err")
Ops(e, kind) == IF Has(e, "hops") THEN SelectSeq(e.hops, LAMBDA h : h.k = kind) ELSE <<>>
Sums(e) == Ops(e, "S")
RangeOf(s) == {s[k] : k \in 1..Len(s)}
HashRefused(e) == \E w \in RangeOf(Ops(e, "W")) : ~w.ok       \* a Write returned an error (or panicked)
HashPanicked(e) == Ops(e, "X") # <<>>                          \* the real hash panicked inside the call
HashFailed(e) == HashRefused(e) \/ HashPanicked(e)
GoodSums(e, F) == {s \in RangeOf(Sums(e)) : Feeds(s.pre, F)}
\* when the hash refuses a write: everything the transcript tried to write in this call, the
\* refused string included, must be the beginning of the prescribed input
IsPrefix(a, b) == Len(a) <= Len(b) /\ SubSeq(b, 1, Len(a)) = a
Attempted(e) == LET w == Ops(e, "W") IN [k \in 1..Len(w) |-> w[k].b]
RefusedOnPrescribed(e, F) == IF Blocky THEN IsPrefix(NonEmpty(Attempted(e)), NonEmpty(F))
                             ELSE IsPrefix(Concat(Attempted(e)), Concat(F))

\* the value a fresh challenge takes in the specification
Digest(e, F) ==
  IF Hdr.hk = "sha256" THEN SHA256(Concat(F))
  ELSE IF GoodSums(e, F) # {} THEN (CHOOSE s \in GoodSums(e, F) : TRUE).d
  ELSE IF Has(e, "ret") THEN e.ret ELSE NoVal       \* already rejected as "fed"

JudgeBind(e) ==
  IF Panicked(e) THEN {"panic"}
  ELSE (IF BindErr(e.name) /\ ~IsErr(e) THEN {"swallowed-error"} ELSE {})
       \cup (IF ~BindErr(e.name) /\ IsErr(e) THEN {"spurious-error"} ELSE {})
       \cup (IF e.valafter # e.val THEN {"mutated-arg"} ELSE {})

JudgeCompute(e) ==
  LET i == Idx(e.name)
      oc == ComputeOutcome(i)
  IN
  IF Panicked(e)
  THEN \* a panic raised by the hash itself (op "X" seen by the recorder, e.g. MiMC on a 33-byte write: that
       \* is property C14) is not the transcript's; any other panic is
       IF ~HashPanicked(e) THEN {"panic"}
       ELSE IF oc = "fresh" /\ ~RefusedOnPrescribed(e, HashInput(i)) THEN {"fed"} ELSE {}
  ELSE CASE oc \in {"unknown", "order"} -> IF IsErr(e) THEN {} ELSE {"swallowed-error"}
         [] oc = "cached" -> IF IsErr(e) THEN {"spurious-error"}
                             ELSE IF e.ret # val[i] THEN {"recompute"} ELSE {}
         [] oc = "fresh" ->
              LET F == HashInput(i) IN
              IF HashFailed(e) THEN (IF IsErr(e) THEN {} ELSE {"swallowed-hash-error"})
                                    \cup (IF RefusedOnPrescribed(e, F) THEN {} ELSE {"fed"})
              ELSE IF IsErr(e) THEN {"spurious-error"}
              ELSE (IF GoodSums(e, F) = {} THEN {"fed"}
                    ELSE IF \A s \in GoodSums(e, F) : s.d # e.ret THEN {"value"} ELSE {})
                   \cup (IF Hdr.hk = "sha256" /\ e.ret # SHA256(Concat(F)) THEN {"sha256"} ELSE {})

Judge(e) ==
  CASE e.op = "New"      -> IF Panicked(e) THEN {"panic"} ELSE {}
    [] e.op = "Bind"     -> JudgeBind(e)
    [] e.op = "Compute"  -> JudgeCompute(e)
    [] e.op \in {"MutBound", "MutRet", "Pollute"} -> {}        \* caller-side events: judged by their effect
    [] OTHER -> {"unknown-op"}

\* successor state per the SPECIFICATION (never per the reply)
Apply(e) ==
  CASE e.op = "New"     -> New(e.names)
    [] e.op = "Bind"    -> Bind(e.name, e.val)
    [] e.op = "Compute" ->
         LET i == Idx(e.name) IN
         IF ComputeOutcome(i) = "fresh" /\ ~HashFailed(e)
         THEN Compute(e.name, Digest(e, HashInput(i))) ELSE Stutter
    [] OTHER -> Stutter

\* the private state of the Go object after the event against the successor state
SnapJudge(e) ==
  IF ~Has(e, "st") THEN {}
  ELSE LET st == e.st
           n == Len(names')
       IN IF \/ Len(st.ch) # n
             \/ st.prev # prev'
             \/ (prev' > 0 /\ st.pv # val'[prev'])
             \/ \E i \in 1..n : \/ st.ch[i].nm # names'[i]
                                \/ st.ch[i].b # bnd'[i]
                                \/ st.ch[i].c # done'[i]
                                \/ (done'[i] /\ st.ch[i].v # val'[i])
          THEN {"state"} ELSE {}

Step == /\ HasNext
        /\ Apply(Ev)
        /\ Advance(Judge(Ev) \cup SnapJudge(Ev))

Next == Step \/ (Finish /\ UNCHANGED tvars)
Spec == Init /\ [][Next]_<<l, bad, names, bnd, done, val, prev>>
=============================================================================
