SPECIFICATION Spec
CONSTANTS
  NNames = 1
  MaxDepth = 8
  CopyOnBind = TRUE
  CopyOnStore = TRUE
  CopyOnReturn = TRUE
INVARIANTS PrefixInv ChainInv Refines ReplyInv ErrorCases
PROPERTIES ErrorsChangeNothing CallerEventsChangeNothing RecomputeSame Final InOrder
CHECK_DEADLOCK FALSE
