SPECIFICATION Spec
CONSTANTS Q = 3  Style = "inplace"  MaxMethods = 1
INVARIANTS AliasSafe
CHECK_DEADLOCK FALSE
