----------------------------- MODULE TraceAlias -----------------------------
(* Trace validation for C19.  The harness log of one family of types (header   *)
(* kind = field | ext | poly | tower | group | edwards | eisenstein) is         *)
(* replayed through                                                            *)
(* the campaign machine of Alias.tla:                                          *)
(*   Method  a method discovered by reflection is announced: key, class of     *)
(*           every pointer / slice position, type names                        *)
(*   Call    one aliasing pattern (set partition `part`) on one choice of      *)
(*           contents `in`: the method was run on fresh copies (ref) and on    *)
(*           one object per block (ali); both observations are logged raw      *)
(*   End     the method is closed                                              *)
(* Judgement of a Call (C19): legal pattern; same value of the receiver (of    *)
(* every destination) and same returned values in both arrangements; every     *)
(* position that is not a destination's object unchanged in both; no panic.    *)
(* Where the arithmetic oracle is cheap (field / tower / vector / polynomial /  *)
(* point add-double-neg) the reference run is also compared with it, otherwise *)
(* the reference run is the oracle.                                            *)
(* Judgement of an End: every pattern TLC enumerates for the announced classes *)
(* was exercised (coverage is checked, not assumed).                           *)
EXTENDS TraceKernel, Alias, CurveParams, TwistedEdwards, EdwardsParams

Kind == Hdr.kind

(* ---- the prime field under the trace and its Montgomery radix ---- *)
BaseName == CASE Kind \in {"field", "poly", "ext"} -> Hdr.field
              [] Kind \in {"tower", "group"} -> Hdr.curve \o "/fp"
              [] Kind = "edwards" -> EdwardsP(Hdr.edwards).field
FPar == FieldP(BaseName)
Q0 == FPar.q
Rinv == InvMod(Rem(Shl(One, FPar.w * FPar.n), Q0), Q0)
V0(raw) == MulMod(raw, Rinv, Q0)

\* extension towers of the small fields, transcribed from field/<name>/extensions/doc.go:
\*   koalabear  F[u]/(u^2-3),  F2[v]/(v^2-u);  babybear  u^2-11, v^2-u;  goldilocks  u^2-7
ExtSpec(name) == CASE name = "koalabear" -> <<L(2, "int", 3), L(2, "gen", 0)>>
                   [] name = "babybear" -> <<L(2, "int", 11), L(2, "gen", 0)>>
                   [] name = "goldilocks" -> <<L(2, "int", 7)>>
FCtx == CASE Kind \in {"tower", "group"} -> FieldCtx(Hdr.curve)
          [] Kind = "ext" -> [q |-> Q0, T |-> MkT(Q0, ExtSpec(Hdr.field), Len(ExtSpec(Hdr.field)))]
          [] OTHER -> [q |-> Q0, T |-> <<>>]

(* ---- types ---- *)
TowerTys == {"Element", "E2", "E3", "E4", "E6", "E12", "E24"}
TyDeg(ty) == CASE ty = "Element" -> 1 [] ty = "E2" -> 2 [] ty = "E3" -> 3 [] ty = "E4" -> 4
               [] ty = "E6" -> 6 [] ty = "E12" -> 12 [] ty = "E24" -> 24
HasLvl(ty) == ty \in TowerTys /\ \E k \in 0..Len(FCtx.T) : TDegree(FCtx, k) = TyDeg(ty)
Lvl(ty) == CHOOSE k \in 0..Len(FCtx.T) : TDegree(FCtx, k) = TyDeg(ty)
SliceTys == {"Vector", "Polynomial", "MultiLin", "[]Element"}
AbsT(ty, raw) == TVal(FCtx, Lvl(ty), Rinv, raw)
AbsS(raw) == [i \in 1..Len(raw) |-> V0(raw[i])]
CanonS(raw) == \A i \in 1..Len(raw) : IsNat(raw[i]) /\ Lt(raw[i], Q0)

(* ---- short Weierstrass groups (kind = group) ---- *)
Cv == GroupCurve(Hdr.curve, Hdr.g)
GK == Cv.k
CV(raw) == TVal(Cv.F, GK, Rinv, raw)
CC(raw) == TCanon(Cv.F, GK, raw)
PTag(ty) == CASE ty \in {"G1Affine", "G2Affine"} -> "aff"
              [] ty \in {"G1Jac", "G2Jac"} -> "jac"
              [] ty \in {"g1JacExtended", "g2JacExtended"} -> "ext"
              [] OTHER -> "none"
PCanon(ty, v) == CASE PTag(ty) = "aff" -> CC(v.X) /\ CC(v.Y)
                   [] PTag(ty) = "jac" -> CC(v.X) /\ CC(v.Y) /\ CC(v.Z)
                   [] PTag(ty) = "ext" -> CC(v.X) /\ CC(v.Y) /\ CC(v.ZZ) /\ CC(v.ZZZ)
PProj(ty, v) == CASE PTag(ty) = "aff" -> AffOfAff(Cv, [X |-> CV(v.X), Y |-> CV(v.Y)])
                  [] PTag(ty) = "jac" -> AffOfJac(Cv, [X |-> CV(v.X), Y |-> CV(v.Y), Z |-> CV(v.Z)])
                  [] PTag(ty) = "ext" -> AffOfXYZZ(Cv, [X |-> CV(v.X), Y |-> CV(v.Y), ZZ |-> CV(v.ZZ), ZZZ |-> CV(v.ZZZ)])
PWellFormed(ty, v) == PTag(ty) # "ext" \/
  LET zz == CV(v.ZZ)  zzz == CV(v.ZZZ)
  IN TMul(Cv.F, GK, TMul(Cv.F, GK, zz, zz), zz) = TMul(Cv.F, GK, zzz, zzz)
POk(ty, v) == PCanon(ty, v) /\ PWellFormed(ty, v) /\ WOnCurve(Cv, PProj(ty, v))

(* ---- twisted Edwards companions (kind = edwards) ---- *)
EPar == EdwardsP(Hdr.edwards)
ECv == [q |-> Q0, a |-> EPar.a, d |-> EPar.d]
EdTys == {"PointAffine", "PointProj", "PointExtended"}
ECanon(ty, v) == LET c(x) == IsNat(x) /\ Lt(x, Q0) IN
                 CASE ty = "PointAffine" -> c(v.X) /\ c(v.Y)
                   [] ty = "PointProj" -> c(v.X) /\ c(v.Y) /\ c(v.Z)
                   [] ty = "PointExtended" -> c(v.X) /\ c(v.Y) /\ c(v.Z) /\ c(v.T)
EWellFormed(ty, v) == CASE ty = "PointAffine" -> TRUE
                        [] ty = "PointProj" -> V0(v.Z) # Zero
                        [] ty = "PointExtended" -> V0(v.Z) # Zero /\
                             EExtConsistent(ECv, [X |-> V0(v.X), Y |-> V0(v.Y), Z |-> V0(v.Z), T |-> V0(v.T)])
EProj(ty, v) == IF ty = "PointAffine" THEN [x |-> V0(v.X), y |-> V0(v.Y)]
                ELSE AffOfEProj(ECv, [X |-> V0(v.X), Y |-> V0(v.Y), Z |-> V0(v.Z)])
EOk(ty, v) == ECanon(ty, v) /\ EWellFormed(ty, v) /\ EOnCurve(ECv, EProj(ty, v))

(* ---- "the same value" ---- *)
\* Raw equality; for projective point types two different representatives of one point are the same
\* value (the property speaks of the value computed, not of the representative).
SameVal(ty, a, b) ==
  \/ a = b
  \/ /\ Kind = "group" /\ PTag(ty) \in {"jac", "ext"}
     /\ PCanon(ty, a) /\ PCanon(ty, b) /\ PWellFormed(ty, a) /\ PWellFormed(ty, b)
     /\ PProj(ty, a) = PProj(ty, b)
  \/ /\ Kind = "edwards" /\ ty \in {"PointProj", "PointExtended"}
     /\ ECanon(ty, a) /\ ECanon(ty, b) /\ EWellFormed(ty, a) /\ EWellFormed(ty, b)
     /\ EProj(ty, a) = EProj(ty, b)

\* returned values: "self" = the receiver pointer itself, else a value, a nil, a bool/int, an error
RetVal(r, run) == IF r.k = "self" THEN run.out ELSE r.v
RetEq(ty, a, ra, b, rb) ==
  IF a.k \in {"self", "v"} /\ b.k \in {"self", "v"}
  THEN (a.k = "self" /\ b.k = "self") \/ (IF a.k = b.k THEN a.v = b.v ELSE SameVal(ty, RetVal(a, ra), RetVal(b, rb)))
  ELSE a.k = b.k /\ (a.k \in {"nil", "ok"} \/ a.v = b.v)
RetsSame(ty, e) == /\ Len(e.ref.ret) = Len(e.ali.ret)
                   /\ \A i \in 1..Len(e.ref.ret) : RetEq(ty, e.ref.ret[i], e.ref, e.ali.ret[i], e.ali)

(* ---- arithmetic oracles for the reference run (only the cheap, unambiguous operations) ---- *)
N == Len(cur.cls)
AllTy(ty) == \A i \in 1..N : cur.tys[i] = ty
Want(ok, v) == [ok |-> ok, v |-> v]
NoWant == [ok |-> FALSE]

\* field and tower elements: z.Op(x [, y]) on one type
TowerWant(e) ==
  LET ty == cur.tys[1]  F == FCtx  k == Lvl(ty)  m == cur.m
      A(i) == AbsT(ty, e.in[i])
  IN IF ~(HasLvl(ty) /\ AllTy(ty)) THEN NoWant
     ELSE IF N = 3 /\ m \in {"Add", "Sub", "Mul", "Div", "Select"} THEN
          Want(TRUE, CASE m = "Add" -> TAdd(F, k, A(2), A(3))
                       [] m = "Sub" -> TSub(F, k, A(2), A(3))
                       [] m = "Mul" -> TMul(F, k, A(2), A(3))
                       [] m = "Div" -> TDiv(F, k, A(2), A(3))
                       [] m = "Select" -> IF e.x[1] = 0 THEN A(2) ELSE A(3))
     ELSE IF N = 2 /\ m \in {"Double", "Neg", "Square", "Inverse", "Set", "MulAssign"} THEN
          Want(TRUE, CASE m = "Double" -> TAdd(F, k, A(2), A(2))
                       [] m = "Neg" -> TNeg(F, k, A(2))
                       [] m = "Square" -> TMul(F, k, A(2), A(2))
                       [] m = "Inverse" -> TInv(F, k, A(2))
                       [] m = "Set" -> A(2)
                       [] m = "MulAssign" -> TMul(F, k, A(1), A(2)))
     ELSE IF N = 2 /\ m = "Conjugate" /\ k >= 1 /\ Deg(F, k) = 2 THEN Want(TRUE, TConj(F, k, A(2)))
     ELSE IF N = 2 /\ m = "MulByNonResidue" /\ k + 1 <= Len(F.T) THEN Want(TRUE, TMul(F, k, A(2), Nr(F, k + 1)))
     ELSE NoWant
TowerJudge(e) ==
  LET ty == cur.tys[1]  w == TowerWant(e) IN
  IF HasLvl(ty) /\ AllTy(ty) /\ N = 2 /\ cur.m = "Equal"
  THEN (IF e.ref.ret[1].v = (AbsT(ty, e.in[1]) = AbsT(ty, e.in[2])) THEN {} ELSE {"oracle/ret"})
  ELSE IF ty = "Element" /\ AllTy(ty) /\ N = 2 /\ cur.m = "Cmp"
  THEN (IF e.ref.ret[1].v = Cmp(V0(e.in[1]), V0(e.in[2])) THEN {} ELSE {"oracle/ret"})
  ELSE IF ~w.ok THEN {}
  ELSE IF ~TCanon(FCtx, Lvl(ty), e.ref.out) THEN {"oracle/noncanonical"}
  ELSE IF AbsT(ty, e.ref.out) # w.v THEN {"oracle/value"} ELSE {}

\* vectors and polynomials: element-wise operations on slices of field elements
At(s, i) == IF i <= Len(s) THEN s[i] ELSE Zero
MaxLen(a, b) == IF Len(a) >= Len(b) THEN Len(a) ELSE Len(b)
SliceJudge(e) ==
  LET m == cur.m
      S(i) == AbsS(e.in[i])
      allSlices == \A i \in 1..N : cur.tys[i] \in SliceTys
      sameLen == \A i \in 1..N : cur.tys[i] \in SliceTys => Len(e.in[i]) = Len(e.in[1])
      w == IF allSlices /\ N = 3 /\ m = "Add" /\ (sameLen \/ cur.tys[1] = "Polynomial")
             THEN Want(TRUE, [i \in 1..MaxLen(S(2), S(3)) |-> AddMod(At(S(2), i), At(S(3), i), Q0)])
           ELSE IF allSlices /\ N = 3 /\ m = "Sub" /\ sameLen
             THEN Want(TRUE, [i \in 1..Len(S(2)) |-> SubMod(S(2)[i], S(3)[i], Q0)])
           ELSE IF allSlices /\ N = 3 /\ m = "Mul" /\ sameLen
             THEN Want(TRUE, [i \in 1..Len(S(2)) |-> MulMod(S(2)[i], S(3)[i], Q0)])
           ELSE IF allSlices /\ N = 2 /\ m = "Set" THEN Want(TRUE, S(2))
           ELSE IF N = 3 /\ m = "ScalarMul" /\ cur.tys = <<"Vector", "Vector", "Element">> /\ sameLen
             THEN Want(TRUE, [i \in 1..Len(S(2)) |-> MulMod(S(2)[i], V0(e.in[3]), Q0)])
           ELSE IF N = 3 /\ m = "Scale" /\ cur.tys = <<"Polynomial", "Element", "Polynomial">>
             THEN Want(TRUE, [i \in 1..Len(e.in[3]) |-> MulMod(V0(e.in[2]), S(3)[i], Q0)])
           ELSE NoWant
  IN
  IF allSlices /\ N = 2 /\ m = "InnerProduct" /\ sameLen
  THEN (IF V0(e.ref.ret[1].v) = FoldLeft(LAMBDA acc, i : AddMod(acc, MulMod(S(1)[i], S(2)[i], Q0), Q0), Zero,
                                         [i \in 1..Len(S(1)) |-> i])
        THEN {} ELSE {"oracle/ret"})
  ELSE IF allSlices /\ N = 2 /\ m = "Equal"
  THEN (IF e.ref.ret[1].v = (Len(S(1)) = Len(S(2)) /\ \A i \in 1..Len(S(1)) : S(1)[i] = S(2)[i]) THEN {} ELSE {"oracle/ret"})
  ELSE IF ~w.ok THEN {}
  ELSE IF ~CanonS(e.ref.out) THEN {"oracle/noncanonical"}
  ELSE IF Len(e.ref.out) # Len(w.v) \/ \E i \in 1..Len(w.v) : V0(e.ref.out[i]) # w.v[i] THEN {"oracle/value"} ELSE {}

\* points of short Weierstrass groups: the textbook affine law (only on curve points)
GroupJudge(e) ==
  LET ty == cur.tys[1]  m == cur.m
      P(i) == PProj(ty, e.in[i])
      okIn == AllTy(ty) /\ PTag(ty) # "none" /\ \A i \in 1..N : POk(ty, e.in[i])
      w == IF N = 3 /\ m \in {"Add", "Sub"}
             THEN Want(TRUE, IF m = "Add" THEN WAdd(Cv, P(2), P(3)) ELSE WSub(Cv, P(2), P(3)))
           ELSE IF N = 2 /\ m \in {"Double", "double", "Neg", "Set", "AddAssign", "SubAssign", "add"}
             THEN Want(TRUE, CASE m \in {"Double", "double"} -> WDouble(Cv, P(2))
                               [] m = "Neg" -> WNeg(Cv, P(2))
                               [] m = "Set" -> P(2)
                               [] m \in {"AddAssign", "add"} -> WAdd(Cv, P(1), P(2))
                               [] m = "SubAssign" -> WSub(Cv, P(1), P(2)))
           ELSE NoWant
  IN IF ~okIn THEN {}
     ELSE IF N = 2 /\ m = "Equal" THEN (IF e.ref.ret[1].v = (P(1) = P(2)) THEN {} ELSE {"oracle/ret"})
     ELSE IF ~w.ok THEN {}
     ELSE IF ~(PCanon(ty, e.ref.out) /\ PWellFormed(ty, e.ref.out)) THEN {"oracle/malformed"}
     ELSE IF PProj(ty, e.ref.out) # w.v THEN {"oracle/value"} ELSE {}

\* twisted Edwards points: the unified affine law.  MixedAdd / MixedDouble are deliberately left to the
\* reference run (their domain, Z = 1 operands, is C02's business: open finding F23).
EdJudge(e) ==
  LET ty == cur.tys[1]  m == cur.m
      P(i) == EProj(ty, e.in[i])
      okIn == AllTy(ty) /\ ty \in EdTys /\ \A i \in 1..N : EOk(ty, e.in[i])
      w == IF N = 3 /\ m = "Add" THEN Want(TRUE, EAdd(ECv, P(2), P(3)))
           ELSE IF N = 2 /\ m \in {"Double", "Neg", "Set"}
             THEN Want(TRUE, CASE m = "Double" -> EDouble(ECv, P(2)) [] m = "Neg" -> ENeg(ECv, P(2)) [] m = "Set" -> P(2))
           ELSE NoWant
  IN IF ~okIn THEN {}
     ELSE IF N = 2 /\ m = "Equal" THEN (IF e.ref.ret[1].v = (P(1) = P(2)) THEN {} ELSE {"oracle/ret"})
     ELSE IF ~w.ok THEN {}
     ELSE IF ~(ECanon(ty, e.ref.out) /\ EWellFormed(ty, e.ref.out)) THEN {"oracle/malformed"}
     ELSE IF EProj(ty, e.ref.out) # w.v THEN {"oracle/value"} ELSE {}

Oracle(e) ==
  CASE Kind \in {"field", "poly"} -> (IF cur.tys[1] \in SliceTys THEN SliceJudge(e) ELSE TowerJudge(e))
    [] Kind \in {"ext", "tower"} -> TowerJudge(e)
    [] Kind = "group" -> GroupJudge(e)
    [] Kind = "edwards" -> EdJudge(e)
    [] OTHER -> {}

(* ---- judgement of the events ---- *)
LegalCall(e) == /\ e.key = cur.key
                /\ Len(e.part) = N /\ Len(e.in) = N
                /\ IsRGS(e.part) /\ Refines(e.part, cur.cls) /\ Apart(e.part, cur.outs)
Completed(run) == ~Has(run, "panic")

JudgeCall(e) ==
  IF e.key # cur.key \/ Len(e.part) # N \/ Len(e.in) # N THEN {"protocol"}
  ELSE IF ~(IsRGS(e.part) /\ Refines(e.part, cur.cls) /\ Apart(e.part, cur.outs)) THEN {"badpartition"}
  ELSE IF ~InputsRespect(e.part, e.in) THEN {"badinput"}
  ELSE IF ~(Completed(e.ref) /\ Completed(e.ali)) THEN
       (IF Completed(e.ref) THEN {} ELSE {"panic/ref"}) \cup (IF Completed(e.ali) THEN {} ELSE {"panic/aliased"})
  ELSE LET ty == cur.tys[1] IN
       (IF \A d \in cur.outs : SameVal(cur.tys[d], Post(e.ali.out, e.ali.after, d), Post(e.ref.out, e.ref.after, d))
        THEN {} ELSE {"value"})
       \cup (IF RetsSame(ty, e) THEN {} ELSE {"ret"})
       \cup (IF OperandsKept(e.part, cur.outs, e.in, e.ali.after) THEN {} ELSE {"mutated/aliased"})
       \cup (IF OperandsKept(Discrete(N), cur.outs, e.in, e.ref.after) THEN {} ELSE {"mutated/ref"})
       \cup Oracle(e)

\* An operand of a component type that points INTO the receiver object (z.MulByE2(z, &z.B0)). The property speaks of operands
\* being the same object, not of overlapping ones, and the unmodified library is not safe under interior pointers in its sparse
\* multiplications (MulBy01 / MulBy014 of the sextic and higher towers give other values): these runs are recorded, never judged.
JudgeInterior(e) == IF e.key # cur.key \/ Len(e.in) # N THEN {"protocol"} ELSE {}

MethodRec(e) == [key |-> e.key, cls |-> e.cls, outs |-> {e.outs[i] : i \in 1..Len(e.outs)}, tys |-> e.tys, m |-> e.m, ty |-> e.ty]
JudgeMethod(e) ==
  (IF cur # NoMethod THEN {"protocol"} ELSE {})
  \cup (IF /\ Len(e.cls) >= 2 /\ Len(e.tys) = Len(e.cls) /\ IsRGS(e.cls)
            /\ 1 \in MethodRec(e).outs /\ MethodRec(e).outs \subseteq 1..Len(e.cls)
         THEN {} ELSE {"badmethod"})
JudgeEnd(e) ==
  IF e.key # cur.key THEN {"protocol"}
  ELSE IF Missing # {} THEN {"coverage"} ELSE {}

Init == KInit /\ AInit
Step == /\ HasNext
        /\ LET e == Ev IN
           CASE e.op = "Method" -> Advance(JudgeMethod(e)) /\ Begin(MethodRec(e))
             [] e.op = "Call" -> /\ Advance(JudgeCall(e))
                                 /\ IF LegalCall(e) THEN Exercise(e.part) ELSE UNCHANGED <<cur, seen, tally>>
             [] e.op = "Interior" -> Advance(JudgeInterior(e)) /\ UNCHANGED <<cur, seen, tally>>
             [] e.op = "End" -> Advance(JudgeEnd(e)) /\ EndMethod
             [] OTHER -> Advance({"unknown-op"}) /\ UNCHANGED <<cur, seen, tally>>
\* coverage line: methods closed, patterns exercised, methods closed with a pattern missing, a method left open
Cover == PrintT(<<"VERIF_COVER", tally.methods, tally.parts, tally.incomplete, IF cur = NoMethod THEN 0 ELSE 1>>)
Next == Step \/ (Finish /\ Cover /\ UNCHANGED <<cur, seen, tally>>)
Spec == Init /\ [][Next]_<<l, bad, cur, seen, tally>>
=============================================================================
