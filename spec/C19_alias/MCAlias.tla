------------------------------ MODULE MCAlias ------------------------------
(* Exhaustive model of the aliasing campaign on a small object store.           *)
(*                                                                             *)
(* Objects of class 1 are pairs <<a0, a1>> = a0 + a1 u in F_Q[u]/(u^2 + 1)      *)
(* (the shape of E2); objects of class 2 are single coefficients <<c>>.         *)
(* A method is executed on a heap (object id -> content) through a pointer      *)
(* map (position -> object id) in one of two implementation styles:             *)
(*   "temp"     what the library does (mechanisms named in the property): all   *)
(*              operands are read, the result is built in temporaries, then it  *)
(*              is assigned to the receiver;                                    *)
(*   "inplace"  the classical defect: the first coefficient of the receiver is  *)
(*              written before the operands are read again for the second one.  *)
(* Call (followed by Return) runs the method twice on the same contents: on fresh copies (reference, *)
(* one object per position) and on one object per block of the pattern p.       *)
(* AliasSafe is the property C19; it holds for "temp" and TLC refutes it for    *)
(* "inplace" (negative self-test MCAliasNeg.cfg).  All patterns, all contents.  *)
EXTENDS Alias, TLC

CONSTANTS Q, Style, MaxMethods
ASSUME Style \in {"temp", "inplace"}

Elems == 0..(Q - 1)
Pairs == Elems \X Elems
Singles == {<<c>> : c \in Elems}
ContentOf(c) == IF c = 1 THEN Pairs ELSE Singles

M(key, cls, outs) == [key |-> key, cls |-> cls, outs |-> outs]
Methods == { M("Set", <<1, 1>>, {1}), M("Neg", <<1, 1>>, {1}), M("Square", <<1, 1>>, {1}),
             M("MulAssign", <<1, 1>>, {1}),                    \* z = z * x
             M("Add", <<1, 1, 1>>, {1}), M("Mul", <<1, 1, 1>>, {1}),
             M("MulBy01", <<1, 2, 2>>, {1}),                   \* z = z * (c0 + c1 u)
             M("MulByAdd", <<1, 2, 2, 2>>, {1}),               \* z = z * (c0 + c1 u) + c2
             M("MulSub", <<1, 1, 1>>, {1, 3}) }                \* z.MulSub(x, r): z = x * r, r = x - r  (two destinations)
OutsOf(key) == (CHOOSE m \in Methods : m.key = key).outs

Md(x) == (x + Q * Q * Q) % Q
CAdd(a, b) == <<Md(a[1] + b[1]), Md(a[2] + b[2])>>
CMul(a, b) == <<Md(a[1] * b[1] - a[2] * b[2]), Md(a[1] * b[2] + a[2] * b[1])>>
\* the mathematical function of each method on the contents v[1..n] of its positions
F(key, v) ==
  CASE key = "Set"       -> v[2]
    [] key = "Neg"       -> <<Md(0 - v[2][1]), Md(0 - v[2][2])>>
    [] key = "Square"    -> CMul(v[2], v[2])
    [] key = "MulAssign" -> CMul(v[1], v[2])
    [] key = "Add"       -> CAdd(v[2], v[3])
    [] key = "Mul"       -> CMul(v[2], v[3])
    [] key = "MulBy01"   -> CMul(v[1], <<v[2][1], v[3][1]>>)
    [] key = "MulByAdd"  -> CAdd(CMul(v[1], <<v[2][1], v[3][1]>>), <<v[4][1], 0>>)
    [] key = "MulSub"    -> CMul(v[2], v[3])
\* the second destination, for the methods that have one
F2(key, v) == CASE key = "MulSub" -> CAdd(v[2], <<Md(0 - v[3][1]), Md(0 - v[3][2])>>)

Read(h, ptr) == [i \in DOMAIN ptr |-> h[ptr[i]]]
\* the other destination (if any) is computed from the operands read at entry and stored at the end
Second(key, h0, h, ptr) == LET o == OutsOf(key) \ {1} IN
  IF o = {} THEN h ELSE LET d == CHOOSE x \in o : TRUE IN [h EXCEPT ![ptr[d]] = F2(key, Read(h0, ptr))]
ExecTemp(key, h, ptr) == Second(key, h, [h EXCEPT ![ptr[1]] = F(key, Read(h, ptr))], ptr)
ExecInplace(key, h, ptr) ==
  LET r1 == F(key, Read(h, ptr))[1]
      h1 == [h EXCEPT ![ptr[1]] = <<r1, h[ptr[1]][2]>>]          \* first coefficient stored ...
      r2 == F(key, Read(h1, ptr))[2]                              \* ... operands read again
  IN Second(key, h, [h1 EXCEPT ![ptr[1]] = <<r1, r2>>], ptr)
Exec(key, h, ptr) == IF Style = "temp" THEN ExecTemp(key, h, ptr) ELSE ExecInplace(key, h, ptr)

VARIABLES heap, call
vars == <<cur, seen, tally, heap, call>>
NoCall == [part |-> <<>>]

\* class of a block = class of its first position; contents per block
BlockClass(p, cls, b) == cls[CHOOSE i \in 1..Len(p) : p[i] = b /\ \A j \in 1..(i - 1) : p[j] # b]
RECURSIVE BlockValsUpTo(_, _, _)
BlockValsUpTo(p, cls, k) == IF k = 0 THEN {<<>>}
                            ELSE {Append(s, c) : s \in BlockValsUpTo(p, cls, k - 1), c \in ContentOf(BlockClass(p, cls, k))}
BlockVals(p, cls) == BlockValsUpTo(p, cls, NBlocks(p))

Init == AInit /\ heap = <<>> /\ call = NoCall
BeginStep == /\ cur = NoMethod /\ tally.methods < MaxMethods     \* finite campaign
             /\ \E m \in Methods : Begin(m)
             /\ heap' = <<>> /\ call' = NoCall
CallStep == /\ cur # NoMethod /\ call = NoCall
            /\ \E p \in Legal : \E vals \in BlockVals(p, cur.cls) :
                 LET n == Len(p)
                     in == [i \in 1..n |-> vals[p[i]]]
                     refH == Exec(cur.key, in, Discrete(n))       \* fresh copy per position
                     aliH == Exec(cur.key, vals, p)               \* one object per block
                 IN /\ Exercise(p)
                    /\ heap' = aliH
                    /\ call' = [part |-> p, key |-> cur.key, outs |-> cur.outs, in |-> in, refOut |-> refH[1],
                                refAfter |-> [i \in 1..(n - 1) |-> refH[i + 1]]]
\* the call returns: its temporaries and the scratch objects of the campaign are dropped
ReturnStep == /\ call # NoCall
              /\ heap' = <<>> /\ call' = NoCall
              /\ UNCHANGED <<cur, seen, tally>>
EndStep == /\ cur # NoMethod /\ call = NoCall
           /\ EndMethod
           /\ UNCHANGED <<heap, call>>
Next == BeginStep \/ CallStep \/ ReturnStep \/ EndStep
Spec == Init /\ [][Next]_vars

(* ---- properties ---- *)
AliOut == heap[call.part[1]]
AliAfter == [i \in 1..(Len(call.part) - 1) |-> heap[call.part[i + 1]]]

\* C19: same value whatever the arrangement, operands other than the receiver unchanged
AliasSafe == call # NoCall =>
  /\ InputsRespect(call.part, call.in)
  /\ \A d \in call.outs : Post(AliOut, AliAfter, d) = Post(call.refOut, call.refAfter, d)
  /\ OperandsKept(call.part, call.outs, call.in, AliAfter)
  /\ OperandsKept(Discrete(Len(call.part)), call.outs, call.in, call.refAfter)
\* the reference arrangement computes the mathematical function (temp style)
RefCorrect == call # NoCall =>
  /\ call.refOut = F(call.key, call.in)
  /\ \A d \in call.outs \ {1} : call.refAfter[d - 1] = F2(call.key, call.in)

\* coverage bookkeeping: only legal patterns are counted, a method closed before every pattern
\* was exercised is counted as incomplete
CoverageSound == /\ seen \subseteq Legal
                 /\ (Missing = {}) <=> (seen = Legal)
                 /\ tally.incomplete <= tally.methods
\* the pattern enumerator yields exactly the set partitions (Bell numbers), and respects classes
ASSUME /\ Cardinality(RGS(1)) = 1 /\ Cardinality(RGS(2)) = 2 /\ Cardinality(RGS(3)) = 5
       /\ Cardinality(RGS(4)) = 15 /\ Cardinality(RGS(5)) = 52
       /\ \A p \in RGS(5) : IsRGS(p)
       /\ ~IsRGS(<<1, 3>>) /\ ~IsRGS(<<2, 1>>)
       /\ Cardinality(ValidParts(<<1, 2, 2, 2>>, {1})) = 5
       /\ Cardinality(ValidParts(<<1, 2, 2, 3, 3>>, {1})) = 4
       /\ ValidParts(<<1, 1, 2>>, {1}) = {<<1, 2, 3>>, <<1, 1, 2>>}
       /\ Cardinality(ValidParts(<<1, 1, 1, 1>>, {1, 4})) = 10
       /\ ValidParts(<<1, 1, 1>>, {1, 3}) = {<<1, 2, 3>>, <<1, 1, 2>>, <<1, 2, 2>>}
=============================================================================
