SPECIFICATION Spec
CONSTANTS Q = 3  Style = "temp"  MaxMethods = 1
INVARIANTS AliasSafe RefCorrect CoverageSound
CHECK_DEADLOCK FALSE
