------------------------------- MODULE Alias -------------------------------
(* C19 - receiver and operands may alias in every arithmetic method.            *)
(*                                                                             *)
(* The component under test is "a method z.Op(x, y, ...)" seen through its      *)
(* pointer / slice argument positions 1..n (1 = receiver).  Every position has  *)
(* a class (cls[i]); only positions of the same class can be the same object.   *)
(* outs is the set of destination positions (the receiver, plus the second      *)
(* destination of the rare method that documents two, e.g. QuoRem(x, y, r)).    *)
(* An aliasing pattern is a set partition of the positions that refines the     *)
(* classes and keeps two destinations apart (one object cannot hold two         *)
(* results), written as a restricted-growth sequence p (p[i] = block of         *)
(* position i, blocks numbered in order of first appearance).                   *)
(*                                                                             *)
(* The machine below is the protocol of an aliasing campaign:                   *)
(*   Begin(m)     a discovered method is announced (key, classes)               *)
(*   Exercise(p)  the method is called with the objects arranged as p           *)
(*   EndMethod    the method is closed; Missing = patterns never exercised      *)
(* and the judgement operators (what C19 demands of one call) are shared by     *)
(* the exhaustive model MCAlias and by the trace validation TraceAlias.         *)
EXTENDS Integers, Sequences, FiniteSets

SeqMax(p) == IF p = <<>> THEN 0
             ELSE CHOOSE m \in {p[i] : i \in 1..Len(p)} : \A i \in 1..Len(p) : p[i] <= m

\* all set partitions of 1..n as restricted-growth sequences
RECURSIVE RGS(_)
RGS(n) == IF n = 0 THEN {<<>>}
          ELSE UNION {{Append(p, b) : b \in 1..(SeqMax(p) + 1)} : p \in RGS(n - 1)}
IsRGS(p) == \A i \in 1..Len(p) : p[i] \in 1..(SeqMax(SubSeq(p, 1, i - 1)) + 1)

\* p only merges positions of one class
Refines(p, cls) == /\ Len(p) = Len(cls)
                   /\ \A i, j \in 1..Len(p) : p[i] = p[j] => cls[i] = cls[j]
Apart(p, outs) == \A i, j \in outs : i # j => p[i] # p[j]
ValidParts(cls, outs) == {p \in RGS(Len(cls)) : Refines(p, cls) /\ Apart(p, outs)}
Discrete(n) == [i \in 1..n |-> i]                 \* all objects distinct: the reference arrangement
NBlocks(p) == SeqMax(p)

(* ---- what C19 demands of ONE call, observed as                               *)
(*      in[i]      content of position i before the call (both arrangements)    *)
(*      out        content of the receiver after the call                       *)
(*      after[i-1] content of position i (i >= 2) after the call                *)
(*      (Post(out, after, i) = content of position i after the call)            *)

\* positions arranged as one object necessarily start with one content
InputsRespect(p, in) == \A i, j \in 1..Len(p) : p[i] = p[j] => in[i] = in[j]
Post(out, after, i) == IF i = 1 THEN out ELSE after[i - 1]
\* "operands other than the receiver are left unchanged": every position that is not the object of a
\* destination still holds its initial content
OperandsKept(p, outs, in, after) ==
  \A i \in 2..Len(p) : (\A d \in outs : p[i] # p[d]) => after[i - 1] = in[i]

(* ---- the campaign protocol                                                   *)
VARIABLES cur, seen, tally
NoMethod == [key |-> "", cls |-> <<>>, outs |-> {1}]
AInit == /\ cur = NoMethod
         /\ seen = {}
         /\ tally = [methods |-> 0, parts |-> 0, incomplete |-> 0]
Begin(m) == /\ cur' = m
            /\ seen' = {}
            /\ UNCHANGED tally
Exercise(p) == /\ seen' = seen \cup {p}
               /\ UNCHANGED <<cur, tally>>
\* coverage: every aliasing pattern of the current method has to be exercised
Legal == ValidParts(cur.cls, cur.outs)
Missing == Legal \ seen
EndMethod == /\ cur' = NoMethod
             /\ seen' = {}
             /\ tally' = [methods |-> tally.methods + 1,
                          parts |-> tally.parts + Cardinality(seen \cap Legal),
                          incomplete |-> tally.incomplete + (IF Missing = {} THEN 0 ELSE 1)]
=============================================================================
