CONSTANTS
  VLeaf <- McVLeaf
  VZero <- McVZero
  Compress <- McCompress
  PNode <- PT
  MaxN = 66
  Bug = "none"
SPECIFICATION VSpec
INVARIANTS BuildOK OpenOK VerifyVOK PadOK
CHECK_DEADLOCK FALSE
