--------------------------- MODULE MCVortexMerkle ---------------------------
EXTENDS VortexMerkle
McVLeaf(j) == <<"D", j, j>>
McVZero == <<"Z", 0, 0>>
McCompress(a, b) == <<"N", a, b>>
=============================================================================
