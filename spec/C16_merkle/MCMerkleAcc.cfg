CONSTANTS
  LeafData <- McLeafData
  LeafH <- McLeafH
  NodeH <- McNodeH
  RH <- MTH
  MaxN = 40
  MaxH = 5
  Bug = "none"
SPECIFICATION Spec
INVARIANTS ShapeOK RootOK ProveOK ErrOK VerifyOK ProveVerifies
CHECK_DEADLOCK FALSE
