---------------------------- MODULE MCMerkleAcc ----------------------------
(* Exhaustive model checking of the accumulator over injective hash terms:     *)
(* every history of SetIndex / Push / PushSubTree / ReadAll with at most MaxN  *)
(* leaves (hence every decomposition of the leaf sequence into single pushes,  *)
(* cached sub-trees and reader segments), every proof index, and in every      *)
(* reachable state every tampering of the proof.                               *)
EXTENDS MerkleAcc
\* leaf data, leaf hashes and node hashes as free terms: distinct leaves, collision-free hash
McLeafData(j) == <<"D", j, j>>
McLeafH(d)    == <<"L", d, d>>
McNodeH(a, b) == <<"N", a, b>>
=============================================================================
