CONSTANTS
  VLeaf <- TrVLeaf
  VZero <- TrVZero
  Compress <- TrCompress
  PNode <- TrPNode
SPECIFICATION Spec
CHECK_DEADLOCK FALSE
