----------------------------- MODULE TraceMerkle -----------------------------
(* Trace validation for C16, streaming accumulator (accumulator/merkletree).    *)
(* The log of the Go harness (harness/c16.go, files c16_acc_*.ndjson) is        *)
(* replayed event by event against the abstract machine of MerkleSpec; every    *)
(* reply of the real code (roots, proof sets, indices, leaf counts, booleans,   *)
(* errors, panics) is judged against the RFC 6962 definitions evaluated with    *)
(* the real hash (SHA-256 from the JDK / MiMC from MerkleHashes).               *)
(*                                                                              *)
(* Header: hash ("sha256" | "mimc"), leaves = the ambient sequence of pairwise    *)
(* distinct leaves D[0..N) all trees of the file are built from, rc = MiMC round *)
(* constants.  The tree hashes of all ranges that occur in some tree over        *)
(* D[0..n), n <= N, are tabulated once (RT); other ranges are computed on        *)
(* demand by the same recursive definition MTH.                                  *)
EXTENDS TraceKernel, MerkleSpec, MerkleHashes, FieldParams
SeqX == INSTANCE SequencesExt

VARIABLES lastRoot, lastPs,     \* reply of the last Prove / BuildReaderProof: the base of the Verify events
          lastOK,               \* ... and whether that reply was accepted (a rejected reply is reported once, at its
                                \* own event; the tamperings derived from it are then not classified)
          held                  \* <<root, proof set>> as returned by the Prove call marked "hold": the caller keeps those
                                \* slices (no copy) while the tree grows; <<>> = nothing held
tvars == <<base, cur, pidx, ptree, lastRoot, lastPs, lastOK, held>>

D == Hdr.leaves
N == Len(D)
IsMiMC == Hdr.hash = "mimc"
Q == FieldP("bn254/fr").q
RC == IF IsMiMC THEN Hdr.rc ELSE <<>>
HashBytes(s) == IF IsMiMC THEN MiMCBytes(Q, 32, RC, s) ELSE SHA256(s)

TrLeafData(j) == D[j + 1]
TrLeafH(d) == HashBytes(d)               \* leafSum: H(data)
TrNodeH(a, b) == HashBytes(a \o b)       \* nodeSum: H(left || right)

\* ---- table of range hashes, smallest ranges first --------------------------------------
AllRanges == UNION {NodeRanges(0, n) : n \in 1..N}
RangesOfSize(s) == {r \in AllRanges : r[2] - r[1] = s}
RT == SeqX!FoldLeft(LAMBDA m, s :
                 IF RangesOfSize(s) = {} THEN m
                 ELSE m @@ [r \in RangesOfSize(s) |->
                              IF s = 1 THEN TrLeafH(D[r[1] + 1])
                              ELSE LET k == Split(s) IN TrNodeH(m[<<r[1], r[1] + k>>], m[<<r[1] + k, r[2]>>])],
               <<>>, [s \in 1..N |-> s])
TrRH(lo, hi) == IF <<lo, hi>> \in DOMAIN RT THEN RT[<<lo, hi>>] ELSE MTH(lo, hi)

\* ---- helpers ---------------------------------------------------------------------------
\* segments of a byte stream: whole segments of size seg, the last one possibly shorter (ReadAll)
NSegs(stream, seg) == (Len(stream) + seg - 1) \div seg
Seg(stream, seg, j) == SubSeq(stream, (j - 1) * seg + 1, IF j * seg <= Len(stream) THEN j * seg ELSE Len(stream))
\* number of leaves a reader delivers: all segments, or the complete ones before an injected failure
Delivered(e) == IF Has(e, "failat") THEN e.failat \div e.seg ELSE NSegs(e.stream, e.seg)
SegsAre(e, from) ==     \* the harness fed the ambient leaves from position `from` on
  \A j \in 1..Delivered(e) : from + j <= N /\ Seg(e.stream, e.seg, j) = D[from + j]
ReadErrOK(e) == IF Has(e, "failat") THEN Has(e, "err") /\ e.err = "c16: injected read error" ELSE ~Has(e, "err")

R(c, reason) == IF c THEN {} ELSE {reason}
NoPanic(e) == R(~Panicked(e), "panic")
Intact(e) == R(~Has(e, "intact") \/ e.intact, "mutated")
RootIs(e, expected) ==      \* expected = Nil stands for the nil slice
  IF expected = Nil THEN R(Has(e, "rootnil"), "root-not-nil")
  ELSE R(Has(e, "root") /\ e.root = expected, "root")

\* arguments of a Verify event: the last proof reply with the logged delta applied
ArgRoot(e) == IF Has(e, "root") THEN e.root ELSE lastRoot
ArgPs(e) == IF Has(e, "psnil") THEN <<>>
            ELSE IF Has(e, "set") THEN MkReplaceAt(lastPs, e.set.k + 1, e.set.val)
            ELSE IF Has(e, "drop") THEN MkRemoveAt(lastPs, e.drop + 1)
            ELSE IF Has(e, "ins") THEN MkInsertAt(lastPs, e.ins.k + 1, e.ins.val)
            ELSE lastPs
\* what the property demands of VerifyProof(root, ps, idx, nl) in the current state
Expect(e) ==
  IF Has(e, "rootnil") THEN "F"                               \* "False is returned if the ... Merkle root is nil"
  ELSE IF Has(e, "idxd") \/ Has(e, "nld") THEN (IF Has(e, "idxd") /\ ~Has(e, "nld") THEN "F" ELSE "U")   \* index >= 2^31 > nl
  ELSE IF e.idx >= e.nl THEN "F"                              \* out of range (also numLeaves = 0)
  ELSE IF ~lastOK THEN "U"
  ELSE IF ptree /\ e.nl = cur THEN Class(ArgRoot(e), ArgPs(e), e.idx, e.nl, pidx)
  ELSE "U"                                                    \* other leaf counts: not bound by the root

JudgeVerify(e) ==
  LET x == Expect(e)
  IN NoPanic(e) \cup Intact(e)
     \cup (IF Panicked(e) THEN {} ELSE R(x # "T" \/ e.ret, "honest-rejected") \cup R(x # "F" \/ ~e.ret, "tampered-accepted"))
     \cup R(~Has(e, "expect") \/ ~lastOK \/ e.expect = x, "harness-class")      \* the driver's intent and the spec's classification agree

JudgeProve(e) ==
  IF ~ptree THEN {}                      \* documented wrong usage (panics); nothing demanded
  ELSE IF Panicked(e) THEN {"panic"}
  ELSE LET sp == SpecProve
       IN RootIs(e, sp.root)
          \cup (IF sp.ps = Nil THEN R(Has(e, "psnil"), "proof-not-nil") ELSE R(Has(e, "ps") /\ e.ps = sp.ps, "proof"))
          \cup R(Has(e, "idx") /\ e.idx = sp.idx, "index") \cup R(Has(e, "nl") /\ e.nl = sp.nl, "numleaves")

\* ReaderRoot / BuildReaderProof = New; [SetIndex(i)]; ReadAll; Root / Prove on a fresh tree
JudgeReaderRoot(e) ==
  NoPanic(e) \cup R(base = 0 /\ cur = 0 /\ SegsAre(e, 0), "harness-stream")
  \cup (IF Panicked(e) THEN {} ELSE
          R(ReadErrOK(e), "error") \cup
          (IF Has(e, "failat") THEN {} ELSE RootIs(e, IF Delivered(e) = 0 THEN Nil ELSE TrRH(0, Delivered(e)))))
JudgeReaderProof(e) ==
  LET n == Delivered(e)
  IN NoPanic(e) \cup R(base = 0 /\ cur = 0 /\ SegsAre(e, 0), "harness-stream")
     \cup (IF Panicked(e) THEN {}
           ELSE IF Has(e, "failat") THEN R(ReadErrOK(e), "error")
           ELSE IF e.i >= n THEN R(Has(e, "err"), "error-missing") \cup R(Has(e, "psnil"), "proof-not-nil")   \* index not reached
           ELSE R(~Has(e, "err"), "unexpected-error")
                \cup RootIs(e, TrRH(0, n))
                \cup R(Has(e, "ps") /\ e.ps = <<D[e.i + 1]>> \o [k \in 1..Len(SibRanges(e.i, 0, n)) |->
                                                       TrRH(SibRanges(e.i, 0, n)[k].lo, SibRanges(e.i, 0, n)[k].hi)], "proof")
                \cup R(Has(e, "nl") /\ e.nl = n, "numleaves"))

Judge(e) ==
  CASE e.op = "New"      -> R(e.base >= 0 /\ e.base <= N, "harness-base")
    [] e.op = "SetIndex" -> NoPanic(e) \cup R(Has(e, "err") = SpecSetIndexErr, IF SpecSetIndexErr THEN "error-missing" ELSE "unexpected-error")
    [] e.op = "Push"     -> NoPanic(e) \cup Intact(e) \cup R(base + cur < N /\ e.data = D[base + cur + 1], "harness-leaf")
    [] e.op = "PushSubTree" ->
         NoPanic(e) \cup Intact(e)
         \cup R(Has(e, "err") = SpecSubTreeErr(e.h), IF SpecSubTreeErr(e.h) THEN "error-missing" ELSE "unexpected-error")
         \cup R(SpecSubTreeErr(e.h) \/ (base + cur + MkPow2(e.h) <= N /\ e.sum = TrRH(base + cur, base + cur + MkPow2(e.h))), "harness-sum")
    [] e.op = "ReadAll"  -> NoPanic(e) \cup R(SegsAre(e, base + cur), "harness-stream") \cup R(Panicked(e) \/ ReadErrOK(e), "error")
    [] e.op = "Root"     -> NoPanic(e) \cup (IF Panicked(e) THEN {} ELSE RootIs(e, SpecRoot))
    [] e.op = "Prove"    -> JudgeProve(e)
    [] e.op = "Verify"   -> JudgeVerify(e)
    \* Tree.Prove hands out slices aliased with the tree's own buffers, so a later Push changes a proof already returned.
    \* C16 speaks about roots, proofs and verification, not about aliasing of returned values: observed (DESIGN.md), not judged.
    [] e.op = "Held"     -> {}
    [] e.op = "ReaderRoot" -> JudgeReaderRoot(e)
    [] e.op = "BuildReaderProof" -> JudgeReaderProof(e)
    [] OTHER -> {"unknown-op"}

\* successor state per the SPECIFICATION (never per the logged reply), plus the remembered proof reply
KeepLast == UNCHANGED <<lastRoot, lastPs, lastOK, held>>
SetLast(e) == /\ lastRoot' = (IF Has(e, "root") THEN e.root ELSE <<>>)
              /\ lastPs' = (IF Has(e, "ps") THEN e.ps ELSE <<>>)
              /\ lastOK' = (Judge(e) = {})
              /\ held' = (IF Has(e, "hold") THEN <<(IF Has(e, "root") THEN e.root ELSE <<>>), (IF Has(e, "ps") THEN e.ps ELSE <<>>)>> ELSE held)
Act(e) ==
  CASE e.op = "New"         -> ANew(e.base) /\ lastRoot' = <<>> /\ lastPs' = <<>> /\ lastOK' = FALSE /\ held' = <<>>
    [] e.op = "SetIndex"    -> ASetIndex(e.i) /\ KeepLast
    [] e.op = "Push"        -> APush(1) /\ KeepLast
    [] e.op = "PushSubTree" -> APushSubTree(e.h) /\ KeepLast
    [] e.op = "ReadAll"     -> APush(Delivered(e)) /\ KeepLast
    [] e.op = "Prove"       -> UNCHANGED avars /\ SetLast(e)
    [] e.op = "ReaderRoot"  -> base' = 0 /\ cur' = Delivered(e) /\ pidx' = 0 /\ ptree' = FALSE /\ KeepLast
    [] e.op = "BuildReaderProof" -> base' = 0 /\ cur' = Delivered(e) /\ pidx' = e.i /\ ptree' = TRUE /\ SetLast(e)
    [] OTHER                -> UNCHANGED avars /\ KeepLast

\* the header itself: pairwise distinct leaves (the index-tampering argument relies on it)
HdrOK == \A i \in 1..N : \A j \in (i + 1)..N : D[i] # D[j]

Init == KInit /\ AInit /\ lastRoot = <<>> /\ lastPs = <<>> /\ lastOK = FALSE /\ held = <<>>
Step == /\ HasNext
        /\ Advance(Judge(Ev) \cup (IF l = 2 /\ ~HdrOK THEN {"harness-leaves-not-distinct"} ELSE {}))
        /\ Act(Ev)
Next == Step \/ (Finish /\ UNCHANGED tvars)
Spec == Init /\ [][Next]_<<l, bad, base, cur, pidx, ptree, lastRoot, lastPs, lastOK, held>>
=============================================================================
