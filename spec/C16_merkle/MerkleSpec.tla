----------------------------- MODULE MerkleSpec -----------------------------
(* C16, streaming accumulator (accumulator/merkletree): WHAT every public      *)
(* entry point must return, stated on the abstract state of a Tree object      *)
(*     base   index (in the ambient leaf sequence) of the tree's first leaf    *)
(*     cur    number of leaves the tree stands for (Push, ReadAll segments     *)
(*            and cached sub-trees together)                                   *)
(*     pidx   index of the leaf to prove; ptree: SetIndex has been called      *)
(* and on the RFC 6962 definitions: root = MTH over the leaves, proof = leaf   *)
(* data followed by the audit path.  The hash is a parameter: injective terms  *)
(* in model checking (MCMerkleAcc), real SHA-256 / MiMC bytes in trace         *)
(* validation (TraceMerkle).                                                   *)
EXTENDS MerkleShape

CONSTANTS LeafData(_),       \* data of leaf j of the ambient sequence (0-based)
          LeafH(_),          \* hash of a leaf's data
          NodeH(_, _),       \* hash of an inner node from its two children
          RH(_, _)           \* hash of the tree over the leaves [lo,hi); must equal MTH(lo,hi) below
                             \* (the trace spec supplies a table of exactly these values)

VARIABLES base, cur, pidx, ptree
avars == <<base, cur, pidx, ptree>>

\* RFC 6962: MTH({d}) = H(d) ; MTH(D[lo:hi]) = H(MTH(D[lo:lo+k]) || MTH(D[lo+k:hi])), k = Split(hi-lo).
\* (The library omits the 0x00 / 0x01 domain-separation prefixes of the RFC; that is its documented
\* behaviour - leafSum/nodeSum - and not part of this property.)
RECURSIVE MTH(_,_)
MTH(lo, hi) == IF hi - lo = 1 THEN LeafH(LeafData(lo))
               ELSE LET k == Split(hi - lo) IN NodeH(MTH(lo, lo + k), MTH(lo + k, hi))

\* ------------------------------------------------------------------ replies ----
Nil == <<>>                                                  \* the nil / empty slice
SpecRoot == IF cur = 0 THEN Nil ELSE RH(base, base + cur)
HonestRoot(n) == RH(base, base + n)
\* proof set for leaf i of the tree with n leaves: the leaf's data, then the audit path bottom-up
HonestPs(i, n) == LET sr == SibRanges(base + i, base, base + n)
                  IN <<LeafData(base + i)>> \o [k \in 1..Len(sr) |-> RH(sr[k].lo, sr[k].hi)]
\* Prove(): (root, proofSet, proofIndex, numLeaves); nil proof set while the index is not reached
SpecProve == [root |-> SpecRoot,
              ps   |-> IF pidx < cur THEN HonestPs(pidx, cur) ELSE Nil,
              idx  |-> pidx, nl |-> cur]

\* PushSubTree(height, sum) is refused iff the cached tree would contain the leaf to prove, or is
\* taller than the smallest sub-tree already in the accumulator (doc comment of PushSubTree)
SpecSubTreeErr(h) == \/ ptree /\ (cur = pidx \/ (cur < pidx /\ pidx < cur + MkPow2(h)))
                     \/ cur > 0 /\ h > TZ(cur)
\* SetIndex must be called on an empty tree
SpecSetIndexErr == cur > 0

\* ------------------------------------------------------------- verification ----
\* Reference verifier: replay the shape fixed by (i, n); the proof set must have exactly one entry
\* per level.  (nil root / nil proof set are handled by the callers: never accepted.)
RECURSIVE FoldUp(_,_,_,_)
FoldUp(acc, ps, sr, k) ==
  IF k > Len(sr) THEN acc
  ELSE FoldUp(IF sr[k].side = "R" THEN NodeH(acc, ps[k + 1]) ELSE NodeH(ps[k + 1], acc), ps, sr, k + 1)
VerifyModel(root, ps, i, n) ==
  /\ 0 <= i /\ i < n
  /\ LET sr == SibRanges(i, 0, n)
     IN Len(ps) = Len(sr) + 1 /\ FoldUp(LeafH(ps[1]), ps, sr, 1) = root

\* What the PROPERTY says about VerifyProof(root, ps, i, n) for the tree of this object with n leaves
\* (pairwise distinct leaves, collision-free hash):
\*   "T"  the untampered (root, proof set, index) of leaf i          -> must be accepted
\*   "F"  out-of-range index; or exactly one component changed: the root, the leaf, one sibling, one
\*        element dropped or inserted, or the index (proof set honestly made for leaf `made`)
\*                                                                   -> must be rejected
\*   "U"  anything else: the property is silent (only a panic is rejected)
\* MCMerkleAcc checks that this classification agrees with VerifyModel for every tampering.
Class(root, ps, i, n, made) ==
  IF i < 0 \/ i >= n THEN "F"
  ELSE LET hr == HonestRoot(n)  hp == HonestPs(i, n)
       IN IF ps = hp THEN (IF root = hr THEN "T" ELSE "F")
          ELSE IF root # hr THEN "U"
          ELSE IF Len(ps) = 0 THEN "F"
          ELSE IF OneDiff(ps, hp) \/ DropOne(ps, hp) \/ DropOne(hp, ps) THEN "F"
          ELSE IF 0 <= made /\ made < n /\ made # i /\ ps = HonestPs(made, n) THEN "F"
          ELSE "U"

\* ------------------------------------------------------- abstract transitions ----
ANew(b)      == base' = b /\ cur' = 0 /\ pidx' = 0 /\ ptree' = FALSE
ASetIndex(i) == IF SpecSetIndexErr THEN UNCHANGED avars
                ELSE pidx' = i /\ ptree' = TRUE /\ UNCHANGED <<base, cur>>
APush(m)     == cur' = cur + m /\ UNCHANGED <<base, pidx, ptree>>          \* m leaves (Push: m = 1; ReadAll: m segments)
APushSubTree(h) == IF SpecSubTreeErr(h) THEN UNCHANGED avars
                   ELSE cur' = cur + MkPow2(h) /\ UNCHANGED <<base, pidx, ptree>>
AInit == base = 0 /\ cur = 0 /\ pidx = 0 /\ ptree = FALSE
=============================================================================
