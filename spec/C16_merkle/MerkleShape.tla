----------------------------- MODULE MerkleShape -----------------------------
(* Index arithmetic of the two Merkle-tree shapes of C16 - no hashing.         *)
(*  (a) RFC 6962 section 2.1: the tree over the leaf range [lo,hi) splits at   *)
(*      the largest power of two strictly smaller than hi-lo; the audit path   *)
(*      of a leaf is the list of sibling sub-ranges, bottom-up.                *)
(*  (b) the padded perfect binary tree of the Vortex scheme.                   *)
EXTENDS Integers, Sequences

RECURSIVE MkPow2(_)
MkPow2(k) == IF k = 0 THEN 1 ELSE 2 * MkPow2(k - 1)

RECURSIVE SplitR(_,_)
SplitR(n, k) == IF 2 * k < n THEN SplitR(n, 2 * k) ELSE k
Split(n) == SplitR(n, 1)                       \* largest power of two < n   (n >= 2)

RECURSIVE TZ(_)
TZ(c) == IF c % 2 = 1 THEN 0 ELSE 1 + TZ(c \div 2)     \* trailing zero bits of c > 0

\* audit path of leaf m (absolute index, lo <= m < hi) in the tree over [lo,hi):
\* sibling ranges bottom-up; side = "R" when the sibling is the right child
RECURSIVE SibRanges(_,_,_)
SibRanges(m, lo, hi) ==
  IF hi - lo <= 1 THEN <<>>
  ELSE LET k == Split(hi - lo)
       IN IF m < lo + k THEN Append(SibRanges(m, lo, lo + k), [lo |-> lo + k, hi |-> hi, side |-> "R"])
          ELSE Append(SibRanges(m, lo + k, hi), [lo |-> lo, hi |-> lo + k, side |-> "L"])

\* every range that occurs as a node of the tree over [lo,hi)
RECURSIVE NodeRanges(_,_)
NodeRanges(lo, hi) ==
  IF hi - lo <= 1 THEN {<<lo, hi>>}
  ELSE LET k == Split(hi - lo) IN {<<lo, hi>>} \cup NodeRanges(lo, lo + k) \cup NodeRanges(lo + k, hi)

\* (b) depth of the padded tree over n >= 1 leaves: least d with 2^d >= n
RECURSIVE CeilLog2R(_,_)
CeilLog2R(n, d) == IF MkPow2(d) >= n THEN d ELSE CeilLog2R(n, d + 1)
CeilLog2(n) == CeilLog2R(n, 0)
\* bit k (k >= 0) of i >= 0
BitOf(i, k) == (i \div MkPow2(k)) % 2

\* sequence helpers
MkRemoveAt(s, k) == [j \in 1..(Len(s) - 1) |-> IF j < k THEN s[j] ELSE s[j + 1]] \o <<>>
MkInsertAt(s, k, v) == [j \in 1..(Len(s) + 1) |-> IF j < k THEN s[j] ELSE IF j = k THEN v ELSE s[j - 1]] \o <<>>
MkReplaceAt(s, k, v) == [j \in 1..Len(s) |-> IF j = k THEN v ELSE s[j]] \o <<>>
\* a equals b up to exactly one position / a is b with one element removed
OneDiff(a, b) == Len(a) = Len(b) /\ \E k \in 1..Len(a) : a[k] # b[k] /\ \A j \in 1..Len(a) : j # k => a[j] = b[j]
DropOne(a, b) == Len(a) + 1 = Len(b) /\ \E k \in 1..Len(b) : a = MkRemoveAt(b, k)
=============================================================================
