---------------------------- MODULE VortexMerkle ----------------------------
(* The Vortex Merkle tree as the code builds and walks it (level arrays,       *)
(* index bits), next to VortexSpec.  Bug = "none" is the INTENDED design:      *)
(* Open and Verify refuse every index outside [0, 2^depth).  Bug = "ascode"    *)
(* transcribes merkle.go literally - Verify looks only at the low bits of i    *)
(* (parentPos&1, parentPos>>1 on a signed int) and Open tests only i >= 2^d -  *)
(* and is the negative self-test: TLC must report VerifyVOK violated (defect   *)
(* F16 shown on the design).                                                   *)
EXTENDS VortexSpec, FiniteSets
CONSTANTS MaxN, Bug
VARIABLE levels              \* levels[k+1] = nodes of level k (level 0 = root ... level depth = padded leaves)
vvars == <<vn, levels>>

\* BuildMerkleTree: pad, then compress level by level from the leaves up
RECURSIVE BuildUp(_,_)
BuildUp(lv, acc) ==            \* lv: a level (sequence); acc: levels below it, top first
  IF Len(lv) = 1 THEN <<lv>> \o acc
  ELSE BuildUp([k \in 1..(Len(lv) \div 2) |-> Compress(lv[2 * k - 1], lv[2 * k])] \o <<>>, <<lv>> \o acc)
BuildLevels(n) == BuildUp([k \in 1..MkPow2(VDepth(n)) |-> IF k <= n THEN VLeaf(k - 1) ELSE VZero] \o <<>>, <<>>)
CodeDepth == Len(levels) - 1
CodeRootV == levels[1][1]

\* Open(i): [st |-> "ok" | "err" | "panic" (slice index out of range), proof]
ORep(st, proof) == [st |-> st, proof |-> proof]
RECURSIVE OpenWalk(_,_,_)
OpenWalk(level, pos, acc) ==
  IF level = 0 THEN ORep("ok", acc)
  ELSE LET nb == IF pos >= 0 THEN Flip(pos) ELSE pos - 1      \* placeholder for a negative XOR: always negative
       IN IF nb < 0 \/ nb >= Len(levels[level + 1]) THEN ORep("panic", <<>>)
          ELSE OpenWalk(level - 1, pos \div 2, Append(acc, levels[level + 1][nb + 1]))
CodeOpen(i) == IF i >= MkPow2(CodeDepth) THEN ORep("err", <<>>)
               ELSE IF i < 0 /\ Bug = "none" THEN ORep("err", <<>>)
               ELSE OpenWalk(CodeDepth, i, <<>>)

\* proof.Verify(i, leaf, root): TRUE = nil error
RECURSIVE VWalk(_,_,_,_)
VWalk(acc, proof, pos, k) ==
  IF k > Len(proof) THEN acc
  ELSE VWalk(IF pos % 2 = 1 THEN Compress(proof[k], acc) ELSE Compress(acc, proof[k]), proof, pos \div 2, k + 1)
CodeVerifyV(i, leaf, root, proof) ==
  /\ Bug = "none" => (0 <= i /\ i < MkPow2(Len(proof)))
  /\ VWalk(leaf, proof, i, 1) = root

VInit == vn = 0 /\ levels = <<>>
Build(n) == vn' = n /\ levels' = BuildLevels(n)
VNext == \E n \in 1..MaxN : Build(n)
VSpec == VInit /\ [][VNext]_vvars

\* ------------------------------------------------------------- invariants ----
BuildOK == vn > 0 =>
  /\ CodeDepth = VDepth(vn) /\ CodeRootV = SpecVRoot(vn) /\ SpecVRoot(vn) = PT(vn, VDepth(vn), 0)
  /\ \A h \in 0..CodeDepth : \A a \in 0..(MkPow2(CodeDepth - h) - 1) : levels[CodeDepth - h + 1][a + 1] = PT(vn, h, a)
OpenOK == vn > 0 =>
  \A i \in (-MkPow2(CodeDepth) - 1)..(2 * MkPow2(CodeDepth) + 1) :
     CodeOpen(i) = (IF VInRange(vn, i) THEN ORep("ok", SpecOpen(vn, i)) ELSE ORep("err", <<>>))

VX == <<"X", 0, 0>>
VTamperings(i) ==
  LET n == vn  d == VDepth(n)  hr == SpecVRoot(n)  hp == SpecOpen(n, i)  hl == VLeaf(i)
      T(kind, j, l, r, p) == [kind |-> kind, i |-> j, leaf |-> l, root |-> r, proof |-> p]
      others == {VX, VZero, hr, hl} \cup {hp[k] : k \in 1..d}
  IN {T("honest", i, hl, hr, hp)}
     \cup {T("leaf", i, l, hr, hp) : l \in ({VLeaf(j) : j \in 0..(n-1)} \cup others) \ {hl}}
     \cup {T("root", i, hl, r, hp) : r \in others \ {hr}}
     \cup {T("sibling", i, hl, hr, MkReplaceAt(hp, k, v)) : k \in 1..d, v \in others}
     \cup {T("index", j, hl, hr, hp) : j \in (0..(MkPow2(d) - 1)) \ {i}}
     \cup {T("range", j, hl, hr, hp) : j \in {i + MkPow2(d), i + 2 * MkPow2(d), i - MkPow2(d), i - 2 * MkPow2(d), MkPow2(d), -1}}
     \cup {T("drop", i, hl, hr, MkRemoveAt(hp, k)) : k \in 1..d}
     \cup {T("insert", i, hl, hr, MkInsertAt(hp, k, v)) : k \in 1..(d + 1), v \in others}
VSingle == {"leaf", "root", "sibling", "index", "range", "drop", "insert"}
VerifyVOK == vn > 0 =>
  \A i \in 0..(vn - 1) : \A u \in VTamperings(i) :
    LET code == CodeVerifyV(u.i, u.leaf, u.root, u.proof)
        model == VerifyModelV(u.i, u.leaf, u.root, u.proof)
        c == ClassV(vn, u.i, u.leaf, u.root, u.proof, i)
        changed == u.i # i \/ u.leaf # VLeaf(i) \/ u.root # SpecVRoot(vn) \/ u.proof # SpecOpen(vn, i)
    IN /\ code = model
       /\ (u.kind = "honest" => model /\ c = "T")
       /\ (u.kind \in VSingle /\ changed => ~model /\ c = "F")
       /\ (c = "T" => model) /\ (c = "F" => ~model)
\* opening a padding position is structurally valid as well
PadOK == vn > 0 =>
  \A i \in vn..(MkPow2(VDepth(vn)) - 1) :
    VerifyModelV(i, VZero, SpecVRoot(vn), SpecOpen(vn, i)) /\ ClassV(vn, i, VZero, SpecVRoot(vn), SpecOpen(vn, i), i) = "T"
=============================================================================
