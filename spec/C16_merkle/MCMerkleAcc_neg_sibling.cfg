CONSTANTS
  LeafData <- McLeafData
  LeafH <- McLeafH
  NodeH <- McNodeH
  RH <- MTH
  MaxN = 12
  MaxH = 3
  Bug = "sibling"
SPECIFICATION Spec
INVARIANTS ShapeOK RootOK ProveOK ErrOK VerifyOK ProveVerifies
CHECK_DEADLOCK FALSE
