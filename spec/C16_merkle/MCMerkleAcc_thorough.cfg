CONSTANTS
  LeafData <- McLeafData
  LeafH <- McLeafH
  NodeH <- McNodeH
  RH <- MTH
  MaxN = 66
  MaxH = 6
  Bug = "none"
SPECIFICATION Spec
INVARIANTS ShapeOK RootOK ProveOK ErrOK VerifyOK ProveVerifies
CHECK_DEADLOCK FALSE
