----------------------------- MODULE VortexSpec -----------------------------
(* C16, the Poseidon2 Merkle tree of the Vortex scheme                         *)
(* (field/koalabear/vortex/merkle.go): WHAT BuildMerkleTree / Root / Open /    *)
(* MerkleProof.Verify must return for a tree committed to n >= 1 leaf hashes.  *)
(* The tree is the perfect binary tree of depth d = ceil(log2 n) over the       *)
(* leaves padded with zero hashes; a proof is the sibling path bottom-up.       *)
(* The 2-to-1 compression is a parameter (injective terms in model checking,    *)
(* the real Poseidon2 compression in trace validation).                         *)
EXTENDS MerkleShape

CONSTANTS VLeaf(_),          \* leaf hash j (0-based) of the ambient sequence
          VZero,             \* the all-zero hash used for padding
          Compress(_, _),    \* 2-to-1 compression
          PNode(_, _, _)     \* PNode(n, h, a): hash of node a at height h of the padded tree over the first n
                             \* leaves; must equal PT(n, h, a) below (the trace spec supplies a table)

VARIABLE vn                  \* number of leaves of the current tree (0: none built yet)

RECURSIVE PT(_,_,_)
PT(n, h, a) == IF h = 0 THEN (IF a < n THEN VLeaf(a) ELSE VZero)
               ELSE Compress(PT(n, h - 1, 2 * a), PT(n, h - 1, 2 * a + 1))

VDepth(n) == CeilLog2(n)
Flip(a) == IF a % 2 = 0 THEN a + 1 ELSE a - 1            \* a XOR 1 for a >= 0
SpecVRoot(n) == PNode(n, VDepth(n), 0)
VLeafAt(n, i) == IF i < n THEN VLeaf(i) ELSE VZero
VInRange(n, i) == 0 <= i /\ i < MkPow2(VDepth(n))
\* Open(i): the siblings of the nodes on the path of leaf i, bottom-up; an error outside the tree
SpecOpen(n, i) == [k \in 1..VDepth(n) |-> PNode(n, k - 1, Flip(i \div MkPow2(k - 1)))] \o <<>>

\* Reference verifier: position i must lie in the tree spanned by the proof, bit k of i says on which
\* side the k-th sibling goes
RECURSIVE VFold(_,_,_,_)
VFold(acc, proof, i, k) ==
  IF k > Len(proof) THEN acc
  ELSE VFold(IF BitOf(i, k - 1) = 0 THEN Compress(acc, proof[k]) ELSE Compress(proof[k], acc), proof, i, k + 1)
VerifyModelV(i, leaf, root, proof) == 0 <= i /\ i < MkPow2(Len(proof)) /\ VFold(leaf, proof, i, 1) = root

\* What the PROPERTY says about proof.Verify(i, leaf, root) for the tree over n pairwise distinct
\* leaves ("T" must be accepted, "F" must be rejected, "U" unspecified):
ClassV(n, i, leaf, root, proof, made) ==
  IF ~VInRange(n, i) THEN "F"                                   \* out-of-range index
  ELSE LET hr == SpecVRoot(n)  hp == SpecOpen(n, i)  hl == VLeafAt(n, i)
       IN IF leaf = hl /\ root = hr /\ proof = hp THEN "T"
          ELSE IF leaf # hl /\ root = hr /\ proof = hp THEN "F"  \* leaf changed
          ELSE IF leaf = hl /\ root # hr /\ proof = hp THEN "F"  \* root changed
          ELSE IF leaf = hl /\ root = hr /\ (OneDiff(proof, hp) \/ DropOne(proof, hp) \/ DropOne(hp, proof)) THEN "F"
          ELSE IF /\ 0 <= made /\ made < n /\ made # i             \* index changed, everything else honest
                  /\ leaf = VLeaf(made) /\ root = hr /\ proof = SpecOpen(n, made) THEN "F"
          ELSE "U"
=============================================================================
