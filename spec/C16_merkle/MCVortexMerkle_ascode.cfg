CONSTANTS
  VLeaf <- McVLeaf
  VZero <- McVZero
  Compress <- McCompress
  PNode <- PT
  MaxN = 9
  Bug = "ascode"
SPECIFICATION VSpec
INVARIANTS VerifyVOK
CHECK_DEADLOCK FALSE
