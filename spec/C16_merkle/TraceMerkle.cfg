CONSTANTS
  LeafData <- TrLeafData
  LeafH <- TrLeafH
  NodeH <- TrNodeH
  RH <- TrRH
SPECIFICATION Spec
CHECK_DEADLOCK FALSE
