------------------------------ MODULE MerkleAcc ------------------------------
(* C16: the streaming accumulator as the code implements it                    *)
(* (accumulator/merkletree/tree.go, verify.go, readers.go), next to the        *)
(* abstract state of MerkleSpec.  Implementation state:                        *)
(*     stack   sub-tree stack, stack[1] = head = smallest sub-tree, entries    *)
(*             [h |-> height, sum |-> hash]                                    *)
(*     pset    t.proofSet                                                      *)
(* One action per public entry point; the invariants say that what the         *)
(* algorithms return is what MerkleSpec demands (root = MTH, proof = audit      *)
(* path, errors exactly where documented, verification accepts the honest      *)
(* tuple and rejects every single-component tampering).                        *)
EXTENDS MerkleSpec, FiniteSets

CONSTANTS MaxN,      \* bound on the number of leaves
          MaxH,      \* cached sub-trees of height 0..MaxH
          Bug        \* "none", or the name of a deliberately wrong variant (negative self-tests)

VARIABLES stack, pset
vars == <<base, cur, pidx, ptree, stack, pset>>

\* ---------------------------------------------------------------- tree.go ----
\* joinAllSubTrees with t.currentIndex = c
RECURSIVE JoinAll(_,_,_)
JoinAll(st, ps, c) ==
  IF Len(st) >= 2 /\ st[1].h = st[2].h
  THEN LET leaves == MkPow2(st[1].h)
           mid == (c \div leaves) * leaves
           takeHead == IF Bug = "sibling" THEN ~(pidx < mid) ELSE pidx < mid
           ps2 == IF st[1].h = Len(ps) - 1
                  THEN Append(ps, IF takeHead THEN st[1].sum ELSE st[2].sum)
                  ELSE ps
           joined == [h |-> st[2].h + 1, sum |-> NodeH(st[2].sum, st[1].sum)]
       IN JoinAll(<<joined>> \o SubSeq(st, 3, Len(st)), ps2, c)
  ELSE <<st, ps>>

ImplPush(data) ==
  LET ps1 == IF cur = pidx THEN Append(pset, data) ELSE pset
      r == JoinAll(<<[h |-> 0, sum |-> LeafH(data)]>> \o stack, ps1, cur)
  IN stack' = r[1] /\ pset' = r[2]

CodeSubTreeErr(h) ==
  \/ ptree /\ (cur = pidx \/ (cur < pidx /\ pidx < cur + MkPow2(h)))
  \/ stack # <<>> /\ h > stack[1].h /\ Bug # "noheight"
ImplPushSubTree(h, sum) ==
  IF CodeSubTreeErr(h) THEN UNCHANGED <<stack, pset>>
  ELSE LET r == JoinAll(<<[h |-> h, sum |-> sum]>> \o stack, pset, cur)
       IN stack' = r[1] /\ pset' = r[2]

\* Root(): collapse right to left, the taller sub-tree is the left child
RECURSIVE Collapse(_,_,_)
Collapse(acc, st, k) == IF k > Len(st) THEN acc ELSE Collapse(NodeH(st[k].sum, acc), st, k + 1)
CodeRoot(st) == IF st = <<>> THEN Nil ELSE Collapse(st[1].sum, st, 2)

\* Prove()
RECURSIVE ProveJoin(_,_)
ProveJoin(acc, nxt) ==       \* combine the sub-trees smaller than the one containing the proof index
  IF nxt <= Len(stack) /\ stack[nxt].h < Len(pset) - 1
  THEN ProveJoin(NodeH(stack[nxt].sum, acc), nxt + 1) ELSE <<acc, nxt>>
CodeProve ==
  IF stack = <<>> \/ pset = <<>> THEN [root |-> CodeRoot(stack), ps |-> Nil, idx |-> pidx, nl |-> cur]
  ELSE LET j == ProveJoin(stack[1].sum, 2)
           right == j[2] <= Len(stack) /\ stack[j[2]].h = Len(pset) - 1   \* one aggregated right sibling
           ps1 == IF right THEN Append(pset, j[1]) ELSE pset
           from == IF right THEN j[2] + 1 ELSE j[2]                        \* remaining: left siblings
       IN [root |-> CodeRoot(stack),
           ps |-> ps1 \o [k \in 1..(Len(stack) - from + 1) |-> stack[from + k - 1].sum],
           idx |-> pidx, nl |-> cur]

\* -------------------------------------------------------------- verify.go ----
\* VerifyProof(h, root, proofSet, proofIndex i, numLeaves n); Go proofSet[k] is ps[k+1]
RECURSIVE VLoop(_,_,_,_,_,_)
VLoop(ps, i, n, height, sum, stableEnd) ==       \* complete sub-trees
  LET w == MkPow2(height)
      start == (i \div w) * w
      end == start + w - 1
  IN IF end >= n THEN [fail |-> FALSE, height |-> height, sum |-> sum, stableEnd |-> stableEnd]
     ELSE IF Len(ps) <= height THEN [fail |-> TRUE]
     ELSE VLoop(ps, i, n, height + 1,
                IF i - start < MkPow2(height - 1) THEN NodeH(sum, ps[height + 1]) ELSE NodeH(ps[height + 1], sum),
                end)
RECURSIVE VLeft(_,_,_)
VLeft(ps, height, sum) == IF height < Len(ps) THEN VLeft(ps, height + 1, NodeH(ps[height + 1], sum)) ELSE sum
VerifyCode(root, ps, i, n) ==
  IF i >= n /\ Bug # "norange" THEN FALSE
  ELSE IF Len(ps) <= 0 THEN FALSE
  ELSE LET a == VLoop(ps, i, n, 1, LeafH(ps[1]), i)
       IN IF a.fail THEN FALSE
          ELSE IF a.stableEnd # n - 1
               THEN (IF Len(ps) <= a.height THEN FALSE
                     ELSE VLeft(ps, a.height + 1, NodeH(a.sum, ps[a.height + 1])) = root)
               ELSE VLeft(ps, a.height, a.sum) = root

\* ---------------------------------------------------------------- actions ----
Init == AInit /\ stack = <<>> /\ pset = <<>>

SetIndex(i) == ASetIndex(i) /\ UNCHANGED <<stack, pset>>      \* the code tests t.head # nil: see ShapeOK
Push == cur < MaxN /\ APush(1) /\ ImplPush(LeafData(base + cur))
\* a cached sub-tree honestly standing for the next 2^h leaves (refused ones leave everything unchanged)
PushSubTree(h) == cur + MkPow2(h) <= MaxN /\ APushSubTree(h) /\ ImplPushSubTree(h, MTH(base + cur, base + cur + MkPow2(h)))
\* ReadAll over a reader holding the next m segments: m pushes (readers.go)
RECURSIVE PushMany(_,_,_,_)
PushMany(st, ps, c, m) ==
  IF m = 0 THEN <<st, ps>>
  ELSE LET ps1 == IF c = pidx THEN Append(ps, LeafData(base + c)) ELSE ps
           r == JoinAll(<<[h |-> 0, sum |-> LeafH(LeafData(base + c))]>> \o st, ps1, c)
       IN PushMany(r[1], r[2], c + 1, m - 1)
ReadAll(m) == cur + m <= MaxN /\ APush(m) /\ LET r == PushMany(stack, pset, cur, m) IN stack' = r[1] /\ pset' = r[2]

Next == \/ \E i \in 0..MaxN : SetIndex(i)
        \/ Push
        \/ \E h \in 0..MaxH : PushSubTree(h)
        \/ \E m \in 0..3 : ReadAll(m)
Spec == Init /\ [][Next]_vars

\* ------------------------------------------------------------- invariants ----
RECURSIVE SumLeaves(_,_)
SumLeaves(st, k) == IF k > Len(st) THEN 0 ELSE MkPow2(st[k].h) + SumLeaves(st, k + 1)
\* the stack is the binary decomposition of cur (heights strictly increasing from the head)
ShapeOK == /\ SumLeaves(stack, 1) = cur
           /\ \A k \in 1..(Len(stack) - 1) : stack[k].h < stack[k + 1].h
           /\ (stack = <<>>) = (cur = 0)
           /\ cur > 0 => stack[1].h = TZ(cur)
RootOK  == CodeRoot(stack) = SpecRoot /\ SpecRoot = (IF cur = 0 THEN Nil ELSE MTH(base, base + cur))
ProveOK == ptree => CodeProve = SpecProve
ErrOK   == \A h \in 0..MaxH : CodeSubTreeErr(h) = SpecSubTreeErr(h)

\* every tampering of the honest (root, proof set, index) the property speaks about, and more
\* Terms are uniformly shaped triples <<tag, _, _>> so that TLC can compare any two of them.
X == <<"X", 0, 0>>                               \* a hash value that occurs nowhere in the tree
FreshData == <<"D", -1, -1>>                     \* leaf data that occurs nowhere in the tree
Tamperings ==
  LET n == cur  i == pidx  hr == SpecRoot  hp == HonestPs(i, n)
      sibs == {hp[k] : k \in 2..Len(hp)}
      T(kind, r, p, j, m) == [kind |-> kind, root |-> r, ps |-> p, i |-> j, n |-> m]
  IN {T("honest", hr, hp, i, n)}
     \cup {T("root", r, hp, i, n) : r \in ({X, LeafH(hp[1])} \cup sibs) \ {hr}}
     \cup {T("leaf", hr, MkReplaceAt(hp, 1, d), i, n) : d \in ({FreshData} \cup {LeafData(base + j) : j \in 0..(n-1)}) \ {hp[1]}}
     \cup {T("sibling", hr, MkReplaceAt(hp, k, v), i, n) :
             k \in 2..Len(hp), v \in {X, LeafH(hp[1]), hr} \cup sibs}
     \cup {T("index", hr, hp, j, n) : j \in (0..(n-1)) \ {i}}
     \cup {T("range", hr, hp, j, n) : j \in {n, n + 1, n + i, 2 * n + i, i + MkPow2(Len(hp) - 1), i + 64}}
     \cup {T("drop", hr, MkRemoveAt(hp, k), i, n) : k \in 1..Len(hp)}
     \cup {T("insert", hr, MkInsertAt(hp, k, v), i, n) : k \in 2..(Len(hp) + 1), v \in {X, hr} \cup sibs}
     \cup {T("insert", hr, MkInsertAt(hp, 1, d), i, n) : d \in {FreshData, hp[1]}}
     \cup {T("count", hr, hp, i, m) : m \in (0..(MaxN + 2)) \ {n}}
SingleKinds == {"root", "leaf", "sibling", "index", "range", "drop", "insert"}
Changed(u) == u.ps # HonestPs(pidx, cur) \/ u.root # SpecRoot \/ u.i # pidx
VerifyOK ==
  (ptree /\ pidx < cur) =>
    \A u \in Tamperings :
      LET code == VerifyCode(u.root, u.ps, u.i, u.n)
          model == VerifyModel(u.root, u.ps, u.i, u.n)
          c == IF u.n = cur THEN Class(u.root, u.ps, u.i, u.n, pidx) ELSE "U"
      IN /\ code = model                                    \* the algorithm decides exactly the reference predicate
         /\ (u.kind = "honest" => model /\ c = "T")         \* the honest proof verifies
         /\ (u.kind \in SingleKinds /\ Changed(u) => ~model /\ c = "F")   \* every single-component tampering fails
         /\ (c = "T" => model) /\ (c = "F" => ~model)       \* the classification used by trace validation is sound
\* the proof set handed out is the one CodeProve computes from the stack (consistency of the two views)
ProveVerifies == (ptree /\ pidx < cur) => VerifyCode(CodeProve.root, CodeProve.ps, CodeProve.idx, CodeProve.nl)
=============================================================================
