----------------------------- MODULE TraceVortex -----------------------------
(* Trace validation for C16, Poseidon2 Merkle tree of the Vortex scheme          *)
(* (field/koalabear/vortex/merkle.go, hash.go).  Files c16_vortex_*.ndjson:      *)
(* header leaves = ambient sequence of pairwise distinct non-zero leaf hashes    *)
(* (8 raw Montgomery words each), ns = the leaf counts built in this file,       *)
(* rk = Poseidon2 round keys (derived by the harness from the documented seed     *)
(* with x/crypto/sha3).  Every hash in an event is 8 raw 32-bit Montgomery        *)
(* words; replies must be canonical (< p) and equal, as field elements, to the    *)
(* value computed here with the Poseidon2 definition of MerkleHashes.             *)
EXTENDS TraceKernel, VortexSpec, MerkleHashes, FieldParams, FiniteSets
SeqX == INSTANCE SequencesExt

VARIABLES lastProof,    \* proof (field values) returned by the last successful Open
          made,         \* ... and the index it was opened at (-1: none)
          lastOK        \* that reply was accepted
tvars == <<vn, lastProof, made, lastOK>>

P == FieldP("koalabear").q
Rinv == InvMod(Red(Shl(One, 32), P), P)
Val(raw) == MulMod(FromInt(raw), Rinv, P)                \* Montgomery word -> field element
HVal(h) == [k \in 1..8 |-> Val(h[k])] \o <<>>
PInt == ToInt(P)
Canon(h) == Len(h) = 8 /\ \A k \in 1..8 : h[k] >= 0 /\ h[k] < PInt
RK == [i \in 1..Len(Hdr.rk) |-> [j \in 1..Len(Hdr.rk[i]) |-> FromInt(Hdr.rk[i][j])] \o <<>>] \o <<>>
DG == P2Diag16(P)
TrCompress(a, b) == P2Compress(P, DG, RK, 3, a, b)

NL == Len(Hdr.leaves)
VL == [j \in 1..NL |-> HVal(Hdr.leaves[j])] \o <<>>
TrVLeaf(j) == VL[j + 1]
TrVZero == [k \in 1..8 |-> Zero] \o <<>>

\* ---- tables: complete sub-trees over real leaves, all-zero sub-trees, and for each leaf count of
\* ---- this file the nodes that straddle the end of the real leaves --------------------------------
MaxD == CeilLog2(NL)
\* FT[h+1][a+1] = node a at height h all of whose leaves are real ((a+1) 2^h <= NL)
FT == SeqX!FoldLeft(LAMBDA t, h : Append(t, [a \in 1..(NL \div MkPow2(h)) |->
                                               TrCompress(t[h][2 * a - 1], t[h][2 * a])] \o <<>>),
                    <<VL>>, [h \in 1..MaxD |-> h])
ZT == SeqX!FoldLeft(LAMBDA t, h : Append(t, TrCompress(t[h], t[h])), <<TrVZero>>, [h \in 1..MaxD |-> h])
\* straddling node of the tree over n leaves at height h (exists iff n is not a multiple of 2^h): index n \div 2^h
Spine(n) == SeqX!FoldLeft(LAMBDA t, h :
                LET a == n \div MkPow2(h)                                    \* straddling node at height h, if any
                    child(c) == IF (c + 1) * MkPow2(h - 1) <= n THEN FT[h][c + 1]
                                ELSE IF c * MkPow2(h - 1) >= n THEN ZT[h]
                                ELSE t[h - 1]
                IN Append(t, IF n % MkPow2(h) = 0 THEN TrVZero ELSE TrCompress(child(2 * a), child(2 * a + 1))),
              <<>>, [h \in 1..CeilLog2(n) |-> h])
NS == Hdr.ns
ST == SeqX!FoldLeft(LAMBDA m, k : m @@ (NS[k] :> Spine(NS[k])), <<>>, [k \in 1..Len(NS) |-> k])
TrPNode(n, h, a) ==
  IF (a + 1) * MkPow2(h) <= n THEN FT[h + 1][a + 1]
  ELSE IF a * MkPow2(h) >= n THEN ZT[h + 1]
  ELSE IF n \in DOMAIN ST THEN ST[n][h]
  ELSE PT(n, h, a)

\* ---- judgement ---------------------------------------------------------------------------------
R(c, reason) == IF c THEN {} ELSE {reason}
NoPanic(e) == R(~Panicked(e), "panic")
Intact(e) == R(~Has(e, "intact") \/ e.intact, "mutated")
HashIs(raw, expected, reason) == IF ~Canon(raw) THEN {"noncanonical"} ELSE R(HVal(raw) = expected, reason)

JudgeBuild(e) ==
  NoPanic(e) \cup Intact(e) \cup R(e.n >= 1 /\ e.n <= NL, "harness-n")
  \cup (IF Panicked(e) THEN {} ELSE HashIs(e.root, SpecVRoot(e.n), "root") \cup R(e.depth = VDepth(e.n), "depth"))

JudgeOpen(e) ==
  IF VInRange(vn, e.i)
  THEN NoPanic(e) \cup
       (IF Panicked(e) THEN {}
        ELSE IF Has(e, "err") THEN {"unexpected-error"}
        ELSE LET sp == SpecOpen(vn, e.i)
             IN IF Len(e.proof) # Len(sp) THEN {"proof-length"}
                ELSE UNION {HashIs(e.proof[k], sp[k], "proof") : k \in 1..Len(sp)})
  ELSE \* "returns an error of the index is out of range"
       IF Panicked(e) THEN {"panic"} ELSE R(Has(e, "err"), "error-missing")

ArgProof(e) == IF Has(e, "set") THEN MkReplaceAt(lastProof, e.set.k + 1, HVal(e.set.val))
               ELSE IF Has(e, "drop") THEN MkRemoveAt(lastProof, e.drop + 1)
               ELSE IF Has(e, "ins") THEN MkInsertAt(lastProof, e.ins.k + 1, HVal(e.ins.val))
               ELSE lastProof
ExpectV(e) == IF ~lastOK \/ ~Canon(e.leaf) \/ ~Canon(e.root) THEN "U"
              ELSE ClassV(vn, e.i, HVal(e.leaf), HVal(e.root), ArgProof(e), made)
JudgeVerify(e) ==
  LET x == ExpectV(e)  accepted == ~Has(e, "err")
  IN NoPanic(e) \cup Intact(e)
     \cup (IF Panicked(e) THEN {} ELSE R(x # "T" \/ accepted, "honest-rejected") \cup R(x # "F" \/ ~accepted, "tampered-accepted"))
     \cup R(~Has(e, "expect") \/ ~lastOK \/ e.expect = x, "harness-class")

Judge(e) ==
  CASE e.op = "Build"  -> JudgeBuild(e)
    [] e.op = "Open"   -> JudgeOpen(e)
    [] e.op = "Verify" -> JudgeVerify(e)
    [] OTHER -> {"unknown-op"}

Act(e) ==
  CASE e.op = "Build" -> vn' = e.n /\ lastProof' = <<>> /\ made' = -1 /\ lastOK' = FALSE
    [] e.op = "Open"  -> /\ UNCHANGED vn
                         /\ IF Has(e, "proof") /\ \A k \in 1..Len(e.proof) : Canon(e.proof[k])
                            THEN lastProof' = [k \in 1..Len(e.proof) |-> HVal(e.proof[k])] \o <<>> /\ made' = e.i /\ lastOK' = (Judge(e) = {})
                            ELSE UNCHANGED <<lastProof, made, lastOK>>
    [] OTHER -> UNCHANGED tvars

HdrOK == /\ \A i \in 1..NL : Canon(Hdr.leaves[i]) /\ VL[i] # TrVZero
         /\ Cardinality({VL[i] : i \in 1..NL}) = NL

Init == KInit /\ vn = 0 /\ lastProof = <<>> /\ made = -1 /\ lastOK = FALSE
Step == /\ HasNext
        /\ Advance(Judge(Ev) \cup (IF l = 2 /\ ~HdrOK THEN {"harness-leaves"} ELSE {}))
        /\ Act(Ev)
Next == Step \/ (Finish /\ UNCHANGED tvars)
Spec == Init /\ [][Next]_<<l, bad, vn, lastProof, made, lastOK>>
=============================================================================
