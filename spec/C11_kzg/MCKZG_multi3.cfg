SPECIFICATION Spec
CONSTANTS
  Rord <- McR
  Variant = "spec"
  RInt = 3
  Sizes = {2}
  TauSet = {0, 1, 2}
  Mode = "multi"
  MaxBatch = 3
  MaxDepth = 1
INVARIANTS SRSInv MultiSpec
CHECK_DEADLOCK FALSE
