-------------------------------- MODULE MCKZG --------------------------------
(* Exhaustive model checking of the KZG machine at a small prime group order.    *)
(*                                                                               *)
(* Modes (constant Mode), each an exhaustive enumeration of the calls of one     *)
(* family for EVERY trapdoor in TauSet and every SRS size in Sizes:              *)
(*  "single"  Commit(p) for every polynomial of length 0..size+1 (the too long    *)
(*            ones over {0,1}), Open(p, z) for every polynomial of every length   *)
(*            1..size and every point z, Verify(c, h, v, z) for EVERY 4-tuple of  *)
(*            scalars (forged commitments [c]G1 and quotients [h]G1);             *)
(*  "batch"   BatchOpenSinglePoint for every list of <= MaxBatch polynomials,     *)
(*            every point and EVERY challenge gamma; FoldProof /                  *)
(*            BatchVerifySinglePoint for every forged (c_i, v_i, h, z, gamma);    *)
(*  "multi"   BatchVerifyMultiPoints for every list of MaxBatch forged tuples;    *)
(*            the random factors lambda are quantified inside the invariants;     *)
(*  "hist"    call histories up to MaxDepth on one key: Commit, Open of the       *)
(*            committed polynomial, tampering with any stored component, Verify   *)
(*            of the stored tuple (counted), serialisation round trip, re-setup.  *)
(* The invariants are the property:                                              *)
(*   completeness     every admissible Open succeeds, returns p(z) and a proof    *)
(*                    that Verify accepts - constants, zero polynomial, full      *)
(*                    size, roots and z = tau are all in the enumeration;         *)
(*   exact acceptance Verify / BatchVerify accept <=> the claimed relation holds; *)
(*                    every single-component alteration of a true tuple is        *)
(*                    rejected, except the two that yield another TRUE claim      *)
(*                    (any quotient when z = tau, any point when h = 0);          *)
(*   multi-point      accepted <=> the lambda-combination of the defects is 0:    *)
(*                    all claims true => accepted for every lambda; some claim     *)
(*                    false => accepted for at most a fraction 1/r of the lambdas;*)
(*   key reuse        no call changes the registers (action property), and the    *)
(*                    invariants hold after any number of verifications.          *)
EXTENDS KZGMachine, FiniteSets, TLC

CONSTANTS RInt,       \* the prime r as an integer
          Sizes,      \* set of SRS sizes
          TauSet,     \* set of trapdoors (integers)
          Mode, MaxBatch, MaxDepth

McR == FromInt(RInt)
Fr == {FromInt(x) : x \in 0..(RInt - 1)}
FrNZ == Fr \ {Zero}
Polys(n) == {p \o <<>> : p \in [1..n -> Fr]}                       \* all polynomials of length n
PolysUpTo(n) == UNION {Polys(k) : k \in 1..n}
Bits(n) == {p \o <<>> : p \in [1..n -> {Zero, One}]}
Lists(S, n) == {s \o <<>> : s \in [1..n -> S]}
ListsUpTo(S, n) == UNION {Lists(S, k) : k \in 0..n}

VARIABLES op,       \* the last call: kind, arguments, reply
          depth,
          \* registers of the history mode: what a caller holds between calls
          pol,      \* the polynomial last committed (<<>> = none)
          cm,       \* [set, c]        the stored commitment
          pf,       \* [set, h, v, z]  the stored opening proof and its point
          honest,   \* ghost: cm and pf were produced from pol and not altered since
          nver      \* number of verifications performed with this key
vars == <<tau, srs, vk, op, depth, pol, cm, pf, honest, nver>>

NoCm == [set |-> FALSE, c |-> Zero]
NoPf == [set |-> FALSE, h |-> Zero, v |-> Zero, z |-> Zero]

Init == /\ \E t \in TauSet, n \in Sizes :
             /\ tau = FromInt(t) /\ srs = PPowers(McR, FromInt(t), n) /\ vk = <<One, FromInt(t)>>
        /\ op = [k |-> "Setup"]
        /\ depth = 0 /\ pol = <<>> /\ cm = NoCm /\ pf = NoPf /\ honest = FALSE /\ nver = 0

Regs == <<pol, cm, pf, honest, nver>>
Call(o) == op' = o /\ UNCHANGED kvars /\ UNCHANGED Regs

(* ---- mode "single" ----------------------------------------------------------- *)
NextSingle ==
  \/ \E p \in {<<>>} \cup PolysUpTo(KSize) \cup Bits(KSize + 1) : Call([k |-> "Commit", p |-> p, r |-> KCommit(p)])
  \/ \E p \in PolysUpTo(KSize), z \in Fr : Call([k |-> "Open", p |-> p, z |-> z, r |-> KOpen(p, z)])
  \/ \E p \in {<<>>} \cup Bits(KSize + 1) : Call([k |-> "Open", p |-> p, z |-> One, r |-> KOpen(p, One)])
  \/ \E c \in Fr, h \in Fr, v \in Fr, z \in Fr :
        Call([k |-> "Verify", c |-> c, h |-> h, v |-> v, z |-> z, acc |-> KVerify(c, h, v, z)])

(* ---- mode "batch" ------------------------------------------------------------ *)
NextBatch ==
  \/ \E ps \in ListsUpTo(PolysUpTo(KSize), MaxBatch), z \in Fr, g \in Fr :
        Call([k |-> "BatchOpen", ps |-> ps, z |-> z, g |-> g, r |-> KBatchOpen(ps, Len(ps), z, g)])
  \/ \E n \in 0..MaxBatch : \E cs \in Lists(Fr, n), vs \in Lists(Fr, n), h \in Fr, z \in Fr, g \in Fr :
        Call([k |-> "BatchVerify", cs |-> cs, h |-> h, vs |-> vs, z |-> z, g |-> g,
              f |-> KFold(cs, vs, g), acc |-> KBatchVerify(cs, h, vs, z, g)])
  \/ \E cs \in Lists(Fr, 2), vs \in Lists(Fr, 1), g \in Fr :            \* numbers of digests and values differ
        Call([k |-> "BatchVerify", cs |-> cs, h |-> One, vs |-> vs, z |-> One, g |-> g,
              f |-> KFold(cs, vs, g), acc |-> KBatchVerify(cs, One, vs, One, g)])

(* ---- mode "multi" ------------------------------------------------------------ *)
NextMulti ==
  \/ \E cs \in Lists(Fr, MaxBatch), hs \in Lists(Fr, MaxBatch), vs \in Lists(Fr, MaxBatch), zs \in Lists(Fr, MaxBatch) :
        Call([k |-> "Multi", cs |-> cs, hs |-> hs, vs |-> vs, zs |-> zs])
  \/ \E c \in Fr, h \in Fr, v \in Fr, z \in Fr :                          \* a single tuple: plain Verify
        Call([k |-> "Multi", cs |-> <<c>>, hs |-> <<h>>, vs |-> <<v>>, zs |-> <<z>>])
  \/ Call([k |-> "Multi", cs |-> <<>>, hs |-> <<>>, vs |-> <<>>, zs |-> <<>>])
  \/ Call([k |-> "Multi", cs |-> <<One, One>>, hs |-> <<One>>, vs |-> <<One, One>>, zs |-> <<One, One>>])

(* ---- mode "hist" ------------------------------------------------------------- *)
HCommit(p) == /\ op' = [k |-> "Commit", p |-> p, r |-> KCommit(p)]
              /\ pol' = p /\ cm' = [set |-> TRUE, c |-> KCommit(p).c]
              /\ honest' = FALSE                      \* a stored proof is now stale
              /\ UNCHANGED <<pf, nver>> /\ UNCHANGED kvars
HOpen(z) == /\ pol # <<>>
            /\ LET r == KOpen(pol, z) IN
               /\ op' = [k |-> "Open", p |-> pol, z |-> z, r |-> r]
               /\ pf' = [set |-> TRUE, h |-> r.h, v |-> r.v, z |-> z]
               /\ honest' = (cm.set /\ cm.c = KCommit(pol).c)
            /\ UNCHANGED <<pol, cm, nver>> /\ UNCHANGED kvars
HTamper(w, d) == /\ cm.set /\ pf.set
                 /\ op' = [k |-> "Tamper", w |-> w, d |-> d]
                 /\ cm' = IF w = "c" THEN [cm EXCEPT !.c = FAdd(McR, @, d)] ELSE cm
                 /\ pf' = CASE w = "h" -> [pf EXCEPT !.h = FAdd(McR, @, d)]
                            [] w = "v" -> [pf EXCEPT !.v = FAdd(McR, @, d)]
                            [] w = "z" -> [pf EXCEPT !.z = FAdd(McR, @, d)]
                            [] OTHER -> pf
                 /\ honest' = FALSE
                 /\ UNCHANGED <<pol, nver>> /\ UNCHANGED kvars
HVerify == /\ cm.set /\ pf.set
           /\ op' = [k |-> "Verify", c |-> cm.c, h |-> pf.h, v |-> pf.v, z |-> pf.z, acc |-> KVerify(cm.c, pf.h, pf.v, pf.z)]
           /\ nver' = nver + 1
           /\ UNCHANGED <<pol, cm, pf, honest>> /\ UNCHANGED kvars
\* WriteTo then ReadFrom: the registers read back are the registers written
Ser(s) == [i \in 1..Len(s) |-> <<"G1", s[i]>>] \o <<>>
Deser(b) == [i \in 1..Len(b) |-> b[i][2]] \o <<>>
HReload == /\ op' = [k |-> "Reload"]
           /\ srs' = Deser(Ser(srs)) /\ vk' = Deser(Ser(vk)) /\ UNCHANGED tau
           /\ UNCHANGED Regs
HSetup(n, t) == /\ op' = [k |-> "Setup"]
                /\ KSetup(n, t)
                /\ pol' = <<>> /\ cm' = NoCm /\ pf' = NoPf /\ honest' = FALSE /\ nver' = 0
NextHist ==
  \/ \E p \in PolysUpTo(KSize) : HCommit(p)
  \/ \E z \in Fr : HOpen(z)
  \/ \E w \in {"c", "h", "v", "z"}, d \in FrNZ : HTamper(w, d)
  \/ HVerify
  \/ HReload
  \/ \E n \in Sizes, t \in TauSet : HSetup(n, FromInt(t))

Next == /\ depth < MaxDepth
        /\ depth' = depth + 1
        /\ CASE Mode = "single" -> NextSingle
             [] Mode = "batch" -> NextBatch
             [] Mode = "multi" -> NextMulti
             [] Mode = "hist" -> NextHist
Spec == Init /\ [][Next]_vars

--------------------------------------------------------------------------------
(* The property, as invariants over the last call and the registers *)

SRSInv == KSRSInv

\* Commit succeeds exactly on the polynomials that fit, and yields [p(tau)]G1
CommitSpec ==
  op.k = "Commit" =>
    /\ op.r.ok <=> (Len(op.p) >= 1 /\ Len(op.p) <= KSize)
    /\ op.r.ok => op.r.c = PEval(McR, op.p, tau)

\* the in-place synthetic division of the code is Euclidean division by (X - z)
DivisionSpec ==
  op.k = "Open" /\ Len(op.p) >= 1 =>
    LET v == PEval(McR, op.p, op.z)
        d == PDivLinear(McR, op.p, op.z)
    IN /\ d.rem = v
       /\ KDivide(op.p, v, op.z) = d.quo
       /\ PMulLinearAdd(McR, d.quo, op.z, v) = op.p

\* completeness: every admissible Open succeeds with the value p(z) and the quotient commitment
\* [q(tau)]G1, and the pair verifies against the commitment of p
Completeness ==
  op.k = "Open" =>
    IF Len(op.p) >= 1 /\ Len(op.p) <= KSize
    THEN /\ op.r.ok
         /\ op.r.v = PEval(McR, op.p, op.z)
         /\ op.r.h = PEval(McR, PDivLinear(McR, op.p, op.z).quo, tau)
         /\ KClaim(KCommit(op.p).c, op.r.h, op.r.v, op.z)
         /\ KVerify(KCommit(op.p).c, op.r.h, op.r.v, op.z)
    ELSE ~op.r.ok

\* Verify accepts exactly the true claims
ExactAcceptance == op.k = "Verify" => (op.acc <=> KClaim(op.c, op.h, op.v, op.z))

\* every alteration of one component of an accepted tuple is rejected, except those producing another
\* true claim: any quotient when z = tau (c = v is all that is claimed), any point when h = 0 (constant)
Alterations ==
  op.k = "Verify" /\ op.acc =>
    \A d \in FrNZ :
      /\ ~KVerify(FAdd(McR, op.c, d), op.h, op.v, op.z)
      /\ ~KVerify(op.c, op.h, FAdd(McR, op.v, d), op.z)
      /\ KVerify(op.c, FAdd(McR, op.h, d), op.v, op.z) <=> op.z = tau
      /\ KVerify(op.c, op.h, op.v, FAdd(McR, op.z, d)) <=> op.h = Zero

\* batched opening at one point: values, completeness for EVERY challenge
BatchCompleteness ==
  op.k = "BatchOpen" =>
    /\ op.r.ok
    /\ op.r.vs = [i \in 1..Len(op.ps) |-> PEval(McR, op.ps[i], op.z)]
    /\ LET cs == [i \in 1..Len(op.ps) |-> KCommit(op.ps[i]).c] \o <<>>
       IN /\ KBatchClaim(cs, op.r.h, op.r.vs, op.z, op.g)
          /\ KBatchVerify(cs, op.r.h, op.r.vs, op.z, op.g)

FoldSpec ==
  op.k = "BatchVerify" =>
    /\ op.f.ok <=> Len(op.cs) = Len(op.vs)
    /\ op.f.ok => LET gp == PPowers(McR, op.g, Len(op.cs))
                  IN op.f.c = PDot(McR, op.cs, gp) /\ op.f.v = PDot(McR, op.vs, gp)

BatchExactAcceptance ==
  op.k = "BatchVerify" => (op.acc <=> KBatchClaim(op.cs, op.h, op.vs, op.z, op.g))

\* multi-point: exact acceptance for every lambda, and the two consequences
Lambdas(n) == {<<One>> \o t : t \in Lists(Fr, n - 1)}
MultiSpec ==
  op.k = "Multi" =>
    IF ~KMultiShapeOK(op.cs, op.hs, op.vs, op.zs)
    THEN \A lam \in Lambdas(2) : ~KMulti(op.cs, op.hs, op.vs, op.zs, lam)
    ELSE LET n == Len(op.cs)
             A == {lam \in Lambdas(n) : KMulti(op.cs, op.hs, op.vs, op.zs, lam)}
         IN /\ \A lam \in Lambdas(n) : (lam \in A <=> KMultiDefect(op.cs, op.hs, op.vs, op.zs, lam) = Zero)
            /\ KAllClaims(op.cs, op.hs, op.vs, op.zs) => A = Lambdas(n)
            /\ ~KAllClaims(op.cs, op.hs, op.vs, op.zs) => Cardinality(A) * RInt <= Cardinality(Lambdas(n))

\* history mode: a stored honest pair verifies in every reachable state, after any number of verifications
HonestVerifies ==
  honest => /\ cm.set /\ pf.set
            /\ KVerify(cm.c, pf.h, pf.v, pf.z)
            /\ pf.v = PEval(McR, pol, pf.z)
Counted == nver <= depth

\* no call other than a (re-)setup changes the registers of the reference string
KeyIsReadOnly == [][op'.k # "Setup" => UNCHANGED kvars]_vars
=============================================================================
