------------------------------- MODULE TraceKZG -------------------------------
(* Trace validation for C11: replays the ndjson log of the real                  *)
(* ecc/<curve>/kzg package (harness/c11.go) against KZGMachine, event by event.  *)
(* One trace = one curve (header: curve); a NewSRS event starts a scenario and   *)
(* sets the registers of the machine (trapdoor tau, powers of tau).              *)
(*                                                                               *)
(* Group elements.  The machine works on exponents.  A point the code RETURNS is *)
(* compared with [k]G1 for the exponent k the machine prescribes (G1 and its     *)
(* generator from CurveParams, textbook double-and-add of Weierstrass.tla).  A    *)
(* point the harness FORGES comes with the scalar it was built from; the spec     *)
(* recomputes [k]G1 and rejects the event as "badinput" on disagreement, so the   *)
(* acceptance of every (commitment, quotient, value, point) tuple is decided by   *)
(* the machine's relation in F_r - no pairing is evaluated here.  memo caches the *)
(* scalar multiplications already made (exponent |-> affine point).               *)
(*                                                                               *)
(* Fiat-Shamir challenge.  gamma is NOT taken from the log: it is recomputed as   *)
(* SHA-256 / SHA-512 (HashOps, JDK) of the transcript the scheme prescribes       *)
(*   "gamma" || point || digests || claimed values || extra data                  *)
(* reduced mod r.  The digests enter as the bytes logged from G1Affine.Marshal,   *)
(* after checking that they are the big-endian coordinates X || Y of the logged   *)
(* point (all zero, possibly flagged 0x40, for the identity); the codec is C07.   *)
(*                                                                               *)
(* Random factors.  BatchVerifyMultiPoints draws lambda_2.. from crypto/rand; the *)
(* harness substitutes a recording reader and logs the chunks read (rnd).  The    *)
(* spec maps them to lambdas as fr.Element.SetRandom documents (mask the top bits,*)
(* little-endian limbs, resample while >= r) and then decides the call EXACTLY:   *)
(* accepted <=> sum lambda_i * defect_i = 0.  If the chunks do not have that      *)
(* shape the lambdas count as unknown and only the two consequences are demanded: *)
(* all claims true => accepted, some claim false => rejected.                     *)
(*                                                                               *)
(* Reasons: "panic"; "swallowed-error" / "spurious-error" (error where the        *)
(* machine succeeds - this is how the constant polynomial shows up); "value",     *)
(* "quotient", "digest", "noncanonical" (wrong or non reduced output);            *)
(* "accepted-false-claim" / "rejected-true-claim"; "mutated-arg", "mutated-pk",   *)
(* "mutated-vk" (fingerprints of the raw memory before / after); "srs-register",  *)
(* "vk-g1", "vk-g2", "size" (NewSRS); "roundtrip", "write-error", "read-error",   *)
(* "bytes-written", "bytes-read", "not-consumed", "rewrite" (serialisation);      *)
(* "badinput" (the harness's own claims about its inputs do not hold).            *)
(*                                                                               *)
(* Where the property is silent the spec is permissive and says so: a reference   *)
(* string of size < 2, a batch opening whose numbers of digests and polynomials   *)
(* differ (an error or any reply, no panic), an EMPTY batch (an error or the      *)
(* mathematically empty answer, no panic), an MPC setup serialised before its     *)
(* first contribution.  Error texts are never compared.                           *)
EXTENDS TraceKernel, KZGMachine, CurveParams, HashOps

VARIABLES pkfp, vkfp,   \* fingerprints of the proving / verifying key of the scenario
          live,         \* a reference string exists
          memo          \* exponent |-> [exponent]G1 (abstract affine point)
tvars == <<tau, srs, vk, pkfp, vkfp, live, memo>>

Curve == Hdr.curve
Cv1 == G1Curve(Curve)
Cv2 == G2Curve(Curve)
K2 == G2Level(Curve)
FPar == FieldP(Curve \o "/fp")
PQ == FPar.q
PRinv == InvMod(Rem(Shl(One, FPar.w * FPar.n), PQ), PQ)
RPar == FieldP(Curve \o "/fr")
TrR == RPar.q                                             \* cfg: Rord <- TrR
RRinv == InvMod(Rem(Shl(One, RPar.w * RPar.n), TrR), TrR)
G1Gen == GroupGen(Curve, "G1")
G2Gen == GroupGen(Curve, "G2")

R(c, reason) == IF c THEN {} ELSE {reason}
IsErr(e) == Has(e, "err")
Idx(n) == [j \in 1..n |-> j] \o <<>>

(* ---- raw values -> abstract values ------------------------------------------- *)
FrCanon(raw) == IsNat(raw) /\ Lt(raw, TrR)
FrV(raw) == MulMod(raw, RRinv, TrR)
FrSeq(raws) == [i \in 1..Len(raws) |-> FrV(raws[i])] \o <<>>
FrSeqCanon(raws) == \A i \in 1..Len(raws) : FrCanon(raws[i])
ScalarOK(x) == IsNat(x) /\ Lt(x, TrR)                     \* a scalar the harness declares (not Montgomery)
ScalarsOK(xs) == \A i \in 1..Len(xs) : ScalarOK(xs[i])

P1Canon(p) == TCanon(Cv1.F, 0, p.X) /\ TCanon(Cv1.F, 0, p.Y)
P1(p) == AffOfAff(Cv1, [X |-> TVal(Cv1.F, 0, PRinv, p.X), Y |-> TVal(Cv1.F, 0, PRinv, p.Y)])
P2Canon(p) == TCanon(Cv2.F, K2, p.X) /\ TCanon(Cv2.F, K2, p.Y)
P2(p) == AffOfAff(Cv2, [X |-> TVal(Cv2.F, K2, PRinv, p.X), Y |-> TVal(Cv2.F, K2, PRinv, p.Y)])

\* memo extended by the exponents of the sequence ks
Extend(m, ks) ==
  FoldLeft(LAMBDA acc, k : IF k \in DOMAIN acc THEN acc ELSE acc @@ (k :> WMulNat(Cv1, k, G1Gen)), m, ks)
\* a logged point is the canonical representation of [k]G1 (read in the successor memo)
IsMul(p, k) == P1Canon(p) /\ k \in DOMAIN memo' /\ P1(p) = memo'[k]
AreMuls(ps, ks) == Len(ps) = Len(ks) /\ \A i \in 1..Len(ps) : IsMul(ps[i], ks[i])

(* ---- Fiat-Shamir challenge ----------------------------------------------------- *)
Concat(ss) == FoldLeft(LAMBDA acc, s : acc \o s, <<>>, ss)
FrBytes(x) == ToBytesBE(x, RPar.bytes)
GammaName == <<103, 97, 109, 109, 97>>                    \* "gamma"
HashOf(hf, b) == IF hf = "sha512" THEN SHA512(b) ELSE SHA256(b)
Gamma(e, vals) ==
  Rem(FromBytesBE(HashOf(e.hf, GammaName \o FrBytes(FrV(e.z)) \o Concat(e.dbytes)
                                \o Concat([i \in 1..Len(vals) |-> FrBytes(vals[i])] \o <<>>) \o Concat(e.data))), TrR)
\* G1Affine.Marshal: uncompressed big-endian X || Y; the identity is all zero, with or without the curve's
\* "uncompressed infinity" flag 0x40 in the first byte (bn254 has no room for it) - the codec is property C07
PointBytesOK(P, b) ==
  /\ Len(b) = 2 * FPar.bytes
  /\ IF P.inf THEN b[1] \in {0, 64} /\ \A i \in 2..Len(b) : b[i] = 0
     ELSE b = ToBytesBE(P.x, FPar.bytes) \o ToBytesBE(P.y, FPar.bytes)
DBytesOK(e) == /\ Len(e.dbytes) = Len(e.digests)
               /\ \A i \in 1..Len(e.digests) : P1Canon(e.digests[i]) /\ PointBytesOK(P1(e.digests[i]), e.dbytes[i])

(* ---- random factors ------------------------------------------------------------- *)
TopBits == IF RPar.bits % 8 = 0 THEN 8 ELSE RPar.bits % 8
Candidate(chunk) ==                                        \* fr.Element.SetRandom: raw limbs of one attempt
  LET k == Len(chunk) IN FromBytesLE([i \in 1..k |-> IF i = k THEN chunk[i] % Pow2(TopBits) ELSE chunk[i]] \o <<>>)
Lambdas(chunks, m) ==
  LET st == FoldLeft(LAMBDA acc, c :
                       IF Len(c) # RPar.bytes \/ Len(acc.v) >= m THEN [acc EXCEPT !.ok = FALSE]
                       ELSE IF Lt(Candidate(c), TrR) THEN [acc EXCEPT !.v = Append(@, FrV(Candidate(c)))] ELSE acc,
                     [ok |-> TRUE, v |-> <<>>], chunks)
  IN [ok |-> st.ok /\ Len(st.v) = m, v |-> st.v]

(* ---- common judgements ------------------------------------------------------------ *)
KeysSame(e) == R(~Has(e, "pkfp") \/ e.pkfp = pkfp, "mutated-pk") \cup R(~Has(e, "vkfp") \/ e.vkfp = vkfp, "mutated-vk")
ArgsSame(e) == R(~Has(e, "argfpafter") \/ e.argfpafter = e.argfp, "mutated-arg")
PolySame(e) == R(~Has(e, "pfpafter") \/ e.pfpafter = e.pfp, "mutated-arg")

(* ---- NewSRS ------------------------------------------------------------------------- *)
SRSCreated(e) == e.size >= 2 /\ ~Panicked(e) /\ ~IsErr(e) /\ Has(e, "tau") /\ ScalarOK(e.tau)
SRSExps(e) == [k \in 1..Len(e.pk) |-> PowMod(e.tau, FromInt(e.pk[k].i), TrR)] \o <<>>
TauClaimOK(e) ==
  IF Has(e, "quick") THEN PowMod(e.tau, FromInt(4), TrR) = One /\ PowMod(e.tau, Two, TrR) # One    \* a primitive 4th root of unity
  ELSE e.tau = ZMod(e.alpha, TrR)
JudgeNewSRS(e) ==
  IF Panicked(e) THEN {"panic"}
  ELSE IF e.size < 2 THEN {}                               \* outside the property (the code returns ErrMinSRSSize)
  ELSE IF IsErr(e) THEN {"spurious-error"}
  ELSE IF ~SRSCreated(e) \/ ~TauClaimOK(e) THEN {"badinput"}
  ELSE R(e.n = e.size, "size")
       \cup R(\A k \in 1..Len(e.pk) : IsMul(e.pk[k].p, SRSExps(e)[k]), "srs-register")
       \cup R(P1Canon(e.g1) /\ P1(e.g1) = G1Gen, "vk-g1")
       \cup R(/\ P2Canon(e.g2[1]) /\ P2(e.g2[1]) = G2Gen
              /\ P2Canon(e.g2[2]) /\ P2(e.g2[2]) = WMulNat(Cv2, e.tau, G2Gen), "vk-g2")

(* ---- Commit / Open / Verify ---------------------------------------------------------- *)
JudgeCommit(e) ==
  LET rep == KCommit(FrSeq(e.p)) IN
  IF ~FrSeqCanon(e.p) THEN {"badinput"}
  ELSE IF Panicked(e) THEN {"panic"}
  ELSE (IF ~rep.ok THEN R(IsErr(e), "swallowed-error")
        ELSE IF IsErr(e) THEN {"spurious-error"}
        ELSE R(P1Canon(e.out), "noncanonical") \cup R(IsMul(e.out, rep.c), "value"))
       \cup PolySame(e) \cup KeysSame(e)

JudgeOpen(e) ==
  LET rep == KOpen(FrSeq(e.p), FrV(e.z)) IN
  IF ~FrSeqCanon(e.p) \/ ~FrCanon(e.z) THEN {"badinput"}
  ELSE IF Panicked(e) THEN {"panic"}
  ELSE (IF ~rep.ok THEN R(IsErr(e), "swallowed-error")
        ELSE IF IsErr(e) THEN {"spurious-error"}
        ELSE R(FrCanon(e.out.v) /\ P1Canon(e.out.H), "noncanonical")
             \cup R(FrV(e.out.v) = rep.v, "value")
             \cup R(IsMul(e.out.H, rep.h), "quotient"))
       \cup PolySame(e) \cup KeysSame(e)

Verdict(e, want) ==
  IF Panicked(e) THEN {"panic"}
  ELSE (IF want /\ IsErr(e) THEN {"rejected-true-claim"} ELSE {})
       \cup (IF ~want /\ ~IsErr(e) THEN {"accepted-false-claim"} ELSE {})
       \cup ArgsSame(e) \cup KeysSame(e)

JudgeVerify(e) ==
  IF ~(ScalarOK(e.ce) /\ ScalarOK(e.he) /\ FrCanon(e.v) /\ FrCanon(e.z) /\ IsMul(e.C, e.ce) /\ IsMul(e.H, e.he)) THEN {"badinput"}
  ELSE Verdict(e, KVerify(e.ce, e.he, FrV(e.v), FrV(e.z)))

(* ---- batched, single point ------------------------------------------------------------ *)
BatchPolys(e) == [i \in 1..Len(e.polys) |-> FrSeq(e.polys[i])] \o <<>>
BatchOpenReply(e) ==
  LET ps == BatchPolys(e)
      z == FrV(e.z)
  IN KBatchOpen(ps, Len(e.digests), z, Gamma(e, KBatchValues(ps, z)))
JudgeBatchOpen(e) ==
  LET rep == BatchOpenReply(e)
      n == Len(e.polys)
  IN
  IF ~(\A i \in 1..n : FrSeqCanon(e.polys[i])) \/ ~FrCanon(e.z) \/ ~DBytesOK(e) THEN {"badinput"}
  ELSE IF Panicked(e) THEN {"panic"}
  ELSE (IF Len(e.digests) # n THEN {}                       \* not a batch: the property is silent (the code returns an error)
        ELSE IF n = 0 /\ IsErr(e) THEN {}                    \* the empty batch may be refused
        ELSE IF ~rep.ok THEN R(IsErr(e), "swallowed-error")
        ELSE IF IsErr(e) THEN {"spurious-error"}
        ELSE R(FrSeqCanon(e.out.vs) /\ P1Canon(e.out.H), "noncanonical")
             \cup R(FrSeq(e.out.vs) = rep.vs, "value")
             \cup R(IsMul(e.out.H, rep.h), "quotient"))
       \cup ArgsSame(e) \cup KeysSame(e)

FoldReply(e) == LET vs == FrSeq(e.vs) IN KFold(e.des, vs, Gamma(e, vs))
BatchInputsOK(e) == /\ ScalarsOK(e.des) /\ FrSeqCanon(e.vs) /\ FrCanon(e.z) /\ DBytesOK(e)
                    /\ AreMuls(e.digests, e.des)
JudgeFold(e) ==
  LET rep == FoldReply(e) IN
  IF ~BatchInputsOK(e) \/ ~P1Canon(e.H) THEN {"badinput"}
  ELSE IF Panicked(e) THEN {"panic"}
  ELSE (IF Len(e.des) = 0 /\ IsErr(e) THEN {}                \* the empty batch may be refused
        ELSE IF ~rep.ok THEN R(IsErr(e), "swallowed-error")
        ELSE IF IsErr(e) THEN {"spurious-error"}
        ELSE R(FrCanon(e.out.v) /\ P1Canon(e.out.D), "noncanonical")
             \cup R(FrV(e.out.v) = rep.v, "value")
             \cup R(IsMul(e.out.D, rep.c), "digest")
             \cup R(e.out.H = e.H, "quotient"))
       \cup ArgsSame(e)

JudgeBatchVerify(e) ==
  LET vs == FrSeq(e.vs)
      want == KBatchVerify(e.des, e.he, vs, FrV(e.z), Gamma(e, vs))
  IN
  IF ~BatchInputsOK(e) \/ ~ScalarOK(e.he) \/ ~IsMul(e.H, e.he) THEN {"badinput"}
  ELSE IF Len(e.des) = 0 /\ Len(e.vs) = 0 /\ ~Panicked(e) /\ IsErr(e) THEN ArgsSame(e) \cup KeysSame(e)   \* the empty batch may be refused
  ELSE Verdict(e, want)

(* ---- batched, several points ------------------------------------------------------------- *)
MultiInputsOK(e) ==
  /\ ScalarsOK(e.ces) /\ ScalarsOK(e.hes) /\ FrSeqCanon(e.vs) /\ FrSeqCanon(e.zs)
  /\ AreMuls(e.Cs, e.ces) /\ AreMuls(e.Hs, e.hes) /\ Len(e.hes) = Len(e.vs)
JudgeMulti(e) ==
  LET cs == e.ces   hs == e.hes   vs == FrSeq(e.vs)   zs == FrSeq(e.zs)
      n == Len(cs)
      lam == Lambdas(e.rnd, n - 1)
  IN
  IF ~MultiInputsOK(e) THEN {"badinput"}
  ELSE IF ~KMultiShapeOK(cs, hs, vs, zs) THEN Verdict(e, FALSE)
  ELSE IF n = 1 THEN Verdict(e, KVerify(cs[1], hs[1], vs[1], zs[1]))
  ELSE IF lam.ok THEN Verdict(e, KMulti(cs, hs, vs, zs, <<One>> \o lam.v))
  ELSE Verdict(e, KAllClaims(cs, hs, vs, zs))               \* lambdas unknown: up to the 1/r event

(* ---- serialisation round trips ------------------------------------------------------------ *)
JudgeRoundTrip(e) ==
  IF Panicked(e) THEN {"panic"}
  ELSE IF e.what = "MpcSetup" /\ e.contributions = 0 THEN {}   \* not yet a transcript of anything: the property is silent
  ELSE R(~Has(e, "werr"), "write-error")
       \cup R(~Has(e, "rerr"), "read-error")
       \cup R(~Has(e, "nw") \/ e.nw = e.len, "bytes-written")
       \cup R(~Has(e, "nr") \/ e.nr = e.len, "bytes-read")
       \cup R(e.left = 0, "not-consumed")
       \cup R(e.out = e.in, "roundtrip")
       \cup R(e.inafter = e.in, "mutated-arg")
       \cup R(e.wfp2 = e.wfp, "rewrite")

(* ---- the step ------------------------------------------------------------------------------- *)
(* ---- ToLagrangeG1 (extension of the reference-string clause) --------------------------- *)
\* the m monomial points [tau^j]G1 become [L_i(tau)]G1, L_i the Lagrange basis on the subgroup <w> of order m:
\* L_i(tau) = 1/m sum_j (tau / w^i)^j, i.e. the inverse DFT of (tau^j)_j
IsPow2(m) == m >= 1 /\ \E k \in 0..30 : m = 2^k
LagExps(e) ==
  LET ws == [i \in 1..e.m |-> PowMod(e.w, FromInt(i - 1), TrR)]
      minv == InvMod(FromInt(e.m), TrR)
  IN [i \in 1..e.m |->
        LET x == MulMod(tau, InvMod(ws[i], TrR), TrR) IN
        MulMod(minv, FoldLeft(LAMBDA acc, j : Mod(Add(acc, PowMod(x, FromInt(j - 1), TrR)), TrR), Zero, [j \in 1..e.m |-> j]), TrR)] \o <<>>
LagInputsOK(e) == Has(e, "w") /\ ScalarOK(e.w) /\ PowMod(e.w, FromInt(e.m), TrR) = One
                  /\ (e.m = 1 \/ PowMod(e.w, FromInt(e.m \div 2), TrR) # One)
JudgeLagrange(e) ==
  IF Panicked(e) THEN {"panic"}
  ELSE IF ~IsPow2(e.m) THEN R(IsErr(e), "swallowed-error")
  ELSE IF IsErr(e) THEN {"spurious-error"}
  ELSE IF ~LagInputsOK(e) THEN {"badinput"}
  ELSE R(Len(e.out) = e.m, "length") \cup R(Len(e.out) # e.m \/ AreMuls(e.out, LagExps(e)), "value")
       \cup KeysSame(e)

(* ---- MpcSetup.Seal (extension of the setup-transcript clause) --------------------------- *)
\* c = the first non-zero hash_to_field(SHA-256(serialised setup) || beacon || '='^k, "KZG Setup", 1); the sealed string is
\* G1[i] -> [c^i] G1[i], [tau]G2 -> [c][tau]G2, everything else unchanged. Works on points, so the trapdoor need not be known.
LOCAL H2 == INSTANCE H2C
DstKZG == <<75, 90, 71, 32, 83, 101, 116, 117, 112>>      \* "KZG Setup"
SealTry(e, k) == H2!HashToField(TrR, RPar.bits, SHA256(e.wire) \o e.beacon \o [i \in 1..k |-> 61], DstKZG, 1)[1]
SealC(e) == IF SealTry(e, 0) # Zero THEN SealTry(e, 0) ELSE SealTry(e, 1)
SealPointsOK(s) == /\ \A i \in 1..Len(s.g1s) : P1Canon(s.g1s[i])
                   /\ P1Canon(s.vkg1) /\ P2Canon(s.g2[1]) /\ P2Canon(s.g2[2])
JudgeSeal(e) ==
  IF Panicked(e) THEN {"panic"}
  ELSE IF ~SealPointsOK(e.before) THEN {"badinput"}
  ELSE IF ~SealPointsOK(e.after) THEN {"noncanonical"}
  ELSE LET c == SealC(e) IN
       R(Len(e.after.g1s) = Len(e.before.g1s), "size")
       \cup R(Len(e.after.g1s) # Len(e.before.g1s) \/
              \A i \in 1..Len(e.before.g1s) :
                 P1(e.after.g1s[i]) = WMulNat(Cv1, PowMod(c, FromInt(i - 1), TrR), P1(e.before.g1s[i])), "sealed-g1")
       \cup R(P2(e.after.g2[2]) = WMulNat(Cv2, c, P2(e.before.g2[2])), "sealed-g2")
       \cup R(e.after.vkg1 = e.before.vkg1 /\ e.after.g2[1] = e.before.g2[1], "sealed-generators")

NeedsSRS == {"ToLagrangeG1", "Commit", "Open", "Verify", "BatchOpenSinglePoint", "FoldProof", "BatchVerifySinglePoint", "BatchVerifyMultiPoints"}

Judge(e) ==
  IF e.op \in NeedsSRS /\ ~live THEN {"no-srs"}
  ELSE CASE e.op = "NewSRS" -> JudgeNewSRS(e)
         [] e.op = "Commit" -> JudgeCommit(e)
         [] e.op = "Open" -> JudgeOpen(e)
         [] e.op = "Verify" -> JudgeVerify(e)
         [] e.op = "BatchOpenSinglePoint" -> JudgeBatchOpen(e)
         [] e.op = "FoldProof" -> JudgeFold(e)
         [] e.op = "BatchVerifySinglePoint" -> JudgeBatchVerify(e)
         [] e.op = "BatchVerifyMultiPoints" -> JudgeMulti(e)
         [] e.op = "RoundTrip" -> JudgeRoundTrip(e)
         [] e.op = "ToLagrangeG1" -> JudgeLagrange(e)
         [] e.op = "Seal" -> JudgeSeal(e)
         [] OTHER -> {"unknown-op"}

\* exponents whose points the judgement of e needs (inputs the harness declares, outputs the machine prescribes)
OkSeq(xs) == IF ScalarsOK(xs) THEN xs ELSE <<>>
Exps(e) ==
  CASE e.op = "NewSRS" -> IF SRSCreated(e) THEN SRSExps(e) ELSE <<>>
    [] e.op \in NeedsSRS /\ ~live -> <<>>
    [] e.op = "Commit" -> LET rep == KCommit(FrSeq(e.p)) IN IF rep.ok THEN <<rep.c>> ELSE <<>>
    [] e.op = "Open" -> LET rep == KOpen(FrSeq(e.p), FrV(e.z)) IN IF rep.ok THEN <<rep.h>> ELSE <<>>
    [] e.op = "Verify" -> OkSeq(<<e.ce, e.he>>)
    [] e.op = "BatchOpenSinglePoint" -> LET rep == BatchOpenReply(e) IN IF rep.ok THEN <<rep.h>> ELSE <<>>
    [] e.op = "FoldProof" -> OkSeq(e.des) \o (IF ScalarsOK(e.des) /\ FoldReply(e).ok THEN <<FoldReply(e).c>> ELSE <<>>)
    [] e.op = "BatchVerifySinglePoint" -> OkSeq(e.des \o <<e.he>>)
    [] e.op = "BatchVerifyMultiPoints" -> OkSeq(e.ces \o e.hes)
    [] e.op = "ToLagrangeG1" -> IF IsPow2(e.m) /\ ~Panicked(e) /\ ~IsErr(e) /\ LagInputsOK(e) THEN LagExps(e) ELSE <<>>
    [] OTHER -> <<>>

\* successor state per the SPECIFICATION
Apply(e) ==
  /\ memo' = Extend(memo, Exps(e))
  /\ IF e.op = "NewSRS"
     THEN IF SRSCreated(e)
          THEN KSetup(e.size, e.tau) /\ pkfp' = e.pkfp /\ vkfp' = e.vkfp /\ live' = TRUE
          ELSE live' = FALSE /\ UNCHANGED <<tau, srs, vk, pkfp, vkfp>>
     ELSE UNCHANGED <<tau, srs, vk, pkfp, vkfp, live>>

Init == KInit /\ tau = Zero /\ srs = <<>> /\ vk = <<>> /\ pkfp = "" /\ vkfp = "" /\ live = FALSE /\ memo = <<>>
Step == HasNext /\ Apply(Ev) /\ Advance(Judge(Ev))
Next == Step \/ (Finish /\ UNCHANGED tvars)
Spec == Init /\ [][Next]_<<l, bad, tau, srs, vk, pkfp, vkfp, live, memo>>
=============================================================================
