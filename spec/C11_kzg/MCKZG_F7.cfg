SPECIFICATION Spec
CONSTANTS
  Rord <- McR
  Variant = "const-rejected"
  RInt = 5
  Sizes = {2}
  TauSet = {2}
  Mode = "single"
  MaxBatch = 0
  MaxDepth = 1
INVARIANTS SRSInv CommitSpec DivisionSpec Completeness ExactAcceptance Alterations
CHECK_DEADLOCK FALSE
