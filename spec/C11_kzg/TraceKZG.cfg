CONSTANTS
  Rord <- TrR
  Variant = "spec"
SPECIFICATION Spec
CHECK_DEADLOCK FALSE
