------------------------------ MODULE KZGMachine ------------------------------
(* Sequential specification of the KZG polynomial commitment scheme of          *)
(* gnark-crypto (ecc/<curve>/kzg/kzg.go) for a reference string with KNOWN      *)
(* trapdoor tau, in the exponent representation: an element [k]G1 of G1 is the  *)
(* scalar k in F_r, an element [k]G2 of G2 likewise, and the pairing product    *)
(*   e([a]G1, [x]G2) * e([b]G1, [y]G2)   is   a*x + b*y  in F_r                  *)
(* (the exponent of e(G1,G2), a generator of the order-r group GT), so it is 1  *)
(* exactly when a*x + b*y = 0.                                                  *)
(*                                                                              *)
(* Abstract state (the registers of the reference string):                      *)
(*   tau  the trapdoor                                                          *)
(*   srs  <<tau^0, ..., tau^(size-1)>>   exponents of ProvingKey.G1             *)
(*   vk   <<1, tau>>                     exponents of VerifyingKey.G2           *)
(* One operator per public entry point, each modelled on what the code does     *)
(* (multi-exponentiation over the registers, in-place synthetic division, the   *)
(* two-pairing check, Fiat-Shamir folding with challenge gamma, random linear   *)
(* combination with lambda); the PROPERTY is stated separately (KClaim, ...)    *)
(* and related to the machine by the invariants of MCKZG.  The same operators   *)
(* judge the real code in TraceKZG at Rord = the curve's group order.           *)
(*                                                                              *)
(* gamma and lambda are arguments: how gamma is derived from the transcript     *)
(* (SHA-256) and lambda from the random source is the business of TraceKZG.     *)
EXTENDS PolyKZG

CONSTANTS Rord,      \* the prime order r of G1, G2, GT (a BigNat)
          Variant    \* "spec" = the specified design; other values are deliberately wrong
                     \* variants used by the negative self-tests:
                     \*   "const-rejected"  Open refuses an empty quotient (constant polynomials) - the code as it is (F7)
                     \*   "no-negation"     Verify forgets to negate the point

VARIABLES tau, srs, vk
kvars == <<tau, srs, vk>>

KErr == [ok |-> FALSE]

(* ---- reference string ------------------------------------------------------ *)
\* NewSRS(size, tau), size >= 2
KSetup(n, t) == /\ tau' = t
                /\ srs' = PPowers(Rord, t, n)
                /\ vk' = <<One, t>>
KSetupOK(n) == n >= 2                                   \* ErrMinSRSSize otherwise
KSize == Len(srs)
\* the registers are what a reference string with trapdoor tau must hold
KSRSInv == srs = PPowers(Rord, tau, Len(srs)) /\ vk = <<One, tau>> /\ Len(srs) >= 2

(* ---- Commit ---------------------------------------------------------------- *)
KSizeOK(p) == Len(p) >= 1 /\ Len(p) <= KSize            \* ErrInvalidPolynomialSize otherwise
KMsm(p) == PDot(Rord, p, srs)                           \* MultiExp(pk.G1[:len(p)], p)
KCommit(p) == IF KSizeOK(p) THEN [ok |-> TRUE, c |-> KMsm(p)] ELSE KErr

(* ---- Open ------------------------------------------------------------------ *)
\* dividePolyByXminusA(f, fa, a) as the code computes it, in place: f[0] -= fa; for i = n-2 .. 0 : f[i] += f[i+1]*a; f[1:]
KDivide(f, fa, a) ==
  LET n == Len(f)
      g0 == [f EXCEPT ![1] = FSub(Rord, f[1], fa)]
      gn == FoldLeft(LAMBDA acc, i : [acc EXCEPT ![i] = FAdd(Rord, acc[i], FMul(Rord, acc[i + 1], a))], g0, PDesc(n - 1))
  IN SubSeq(gn, 2, n)
\* commitment to a quotient; the empty quotient (of a constant polynomial) is the zero polynomial: [0]G1
KCommitQuotient(h) ==
  IF h = <<>> THEN (IF Variant = "const-rejected" THEN KErr ELSE [ok |-> TRUE, c |-> Zero])
  ELSE [ok |-> TRUE, c |-> KMsm(h)]
KOpen(p, z) ==
  IF ~KSizeOK(p) THEN KErr
  ELSE LET v == PEval(Rord, p, z)
           hc == KCommitQuotient(KDivide(p, v, z))
       IN IF hc.ok THEN [ok |-> TRUE, v |-> v, h |-> hc.c] ELSE KErr

(* ---- Verify ---------------------------------------------------------------- *)
KPairingIsOne(a, b) == FAdd(Rord, FMul(Rord, a, vk[1]), FMul(Rord, b, vk[2])) = Zero
\* total = [v]G1 + [-z]H - C ;  e(total, G2) * e(H, [tau]G2) = 1
KVerify(c, h, v, z) ==
  LET zz == IF Variant = "no-negation" THEN z ELSE FNeg(Rord, z)
      total == FSub(Rord, FAdd(Rord, FMul(Rord, v, One), FMul(Rord, zz, h)), c)
  IN KPairingIsOne(total, h)

(* ---- batched opening at a single point --------------------------------------- *)
KBatchValues(polys, z) == [i \in 1..Len(polys) |-> PEval(Rord, polys[i], z)] \o <<>>
\* BatchOpenSinglePoint(polynomials, digests, point, ...) with challenge g (derived from point, digests, values)
KBatchOpen(polys, ndigests, z, g) ==
  IF ndigests # Len(polys) THEN KErr                                         \* ErrInvalidNbDigests
  ELSE IF \E i \in 1..Len(polys) : ~KSizeOK(polys[i]) THEN KErr               \* ErrInvalidPolynomialSize
  ELSE LET vs == KBatchValues(polys, z)
           gp == PPowers(Rord, g, Len(polys))
           fp == PLinComb(Rord, gp, polys)                                    \* sum_i g^i f_i
           fv == PDot(Rord, vs, gp)                                           \* sum_i g^i f_i(z)
           hc == IF fp = <<>> THEN [ok |-> TRUE, c |-> Zero] ELSE KCommitQuotient(KDivide(fp, fv, z))
       IN IF hc.ok THEN [ok |-> TRUE, vs |-> vs, h |-> hc.c] ELSE KErr
\* FoldProof(digests, proof, point, ...): <<sum_i g^i C_i, sum_i g^i v_i>>, H unchanged
KFold(cs, vs, g) ==
  IF Len(cs) # Len(vs) THEN KErr                                             \* ErrInvalidNbDigests
  ELSE LET gp == PPowers(Rord, g, Len(cs))
       IN [ok |-> TRUE, c |-> PDot(Rord, cs, gp), v |-> PDot(Rord, vs, gp)]
\* BatchVerifySinglePoint
KBatchVerify(cs, h, vs, z, g) ==
  LET f == KFold(cs, vs, g) IN f.ok /\ KVerify(f.c, h, f.v, z)

(* ---- batched verification at several points ---------------------------------- *)
\* BatchVerifyMultiPoints(digests, proofs (H_i, v_i), points) with random factors lam (lam[1] = 1)
KMultiShapeOK(cs, hs, vs, zs) == Len(cs) = Len(hs) /\ Len(cs) = Len(vs) /\ Len(cs) = Len(zs) /\ Len(cs) >= 1
KMulti(cs, hs, vs, zs, lam) ==
  IF ~KMultiShapeOK(cs, hs, vs, zs) THEN FALSE                               \* ErrInvalidNbDigests / ErrZeroNbDigests
  ELSE IF Len(cs) = 1 THEN KVerify(cs[1], hs[1], vs[1], zs[1])
  ELSE LET n == Len(cs)
           fq == PDot(Rord, hs, lam)                                          \* sum lam_i H_i
           fd == PDot(Rord, cs, lam)                                          \* sum lam_i C_i
           fe == PDot(Rord, vs, lam)                                          \* sum lam_i v_i
           lz == [i \in 1..n |-> FMul(Rord, lam[i], zs[i])] \o <<>>
           fpq == PDot(Rord, hs, lz)                                          \* sum lam_i z_i H_i
           total == FAdd(Rord, FSub(Rord, fd, fe), fpq)
       IN KPairingIsOne(total, FNeg(Rord, fq))

(* ---- the property ------------------------------------------------------------ *)
\* the claim "the polynomial committed in [c]G1 takes the value v at z, with quotient commitment [h]G1"
KClaim(c, h, v, z) == FSub(Rord, c, v) = FMul(Rord, FSub(Rord, tau, z), h)
KDefect(c, h, v, z) == FSub(Rord, FSub(Rord, c, v), FMul(Rord, FSub(Rord, tau, z), h))
\* the folded claim of a batch at one point
KBatchClaim(cs, h, vs, z, g) ==
  /\ Len(cs) = Len(vs)
  /\ LET gp == PPowers(Rord, g, Len(cs)) IN KClaim(PDot(Rord, cs, gp), h, PDot(Rord, vs, gp), z)
\* the randomised multi-point check accepts exactly when the lam-combination of the defects vanishes
KMultiDefect(cs, hs, vs, zs, lam) ==
  PDot(Rord, [i \in 1..Len(cs) |-> KDefect(cs[i], hs[i], vs[i], zs[i])] \o <<>>, lam)
KAllClaims(cs, hs, vs, zs) == \A i \in 1..Len(cs) : KClaim(cs[i], hs[i], vs[i], zs[i])
=============================================================================
