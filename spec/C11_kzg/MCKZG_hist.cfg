SPECIFICATION Spec
CONSTANTS
  Rord <- McR
  Variant = "spec"
  RInt = 5
  Sizes = {2}
  TauSet = {0, 3}
  Mode = "hist"
  MaxBatch = 0
  MaxDepth = 4
INVARIANTS SRSInv CommitSpec Completeness ExactAcceptance Alterations HonestVerifies Counted
PROPERTIES KeyIsReadOnly
CHECK_DEADLOCK FALSE
