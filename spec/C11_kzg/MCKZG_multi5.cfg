SPECIFICATION Spec
CONSTANTS
  Rord <- McR
  Variant = "spec"
  RInt = 5
  Sizes = {2}
  TauSet = {0, 1, 2, 3, 4}
  Mode = "multi"
  MaxBatch = 2
  MaxDepth = 1
INVARIANTS SRSInv MultiSpec
CHECK_DEADLOCK FALSE
