SPECIFICATION Spec
CONSTANTS
  Rord <- McR
  Variant = "spec"
  RInt = 17
  Sizes = {2, 3}
  TauSet = {0, 1, 2, 3, 4, 5, 6, 7, 8, 9, 10, 11, 12, 13, 14, 15, 16}
  Mode = "single"
  MaxBatch = 0
  MaxDepth = 1
INVARIANTS SRSInv CommitSpec DivisionSpec Completeness ExactAcceptance Alterations
PROPERTIES KeyIsReadOnly
CHECK_DEADLOCK FALSE
