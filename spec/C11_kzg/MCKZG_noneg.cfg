SPECIFICATION Spec
CONSTANTS
  Rord <- McR
  Variant = "no-negation"
  RInt = 5
  Sizes = {2}
  TauSet = {2}
  Mode = "single"
  MaxBatch = 0
  MaxDepth = 1
INVARIANTS SRSInv CommitSpec DivisionSpec ExactAcceptance
CHECK_DEADLOCK FALSE
