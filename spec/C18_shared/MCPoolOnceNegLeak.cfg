SPECIFICATION Spec
CONSTANTS Clients = {1, 2, 3}  WriteBeforeRead = FALSE  Guarded = TRUE
INVARIANTS NoLeak InitOnce NoStaleRead
PROPERTY AllFinish
CHECK_DEADLOCK FALSE
