SPECIFICATION Spec
CONSTANTS Clients = {1, 2, 3}  WriteBeforeRead = TRUE  Guarded = TRUE
INVARIANTS NoLeak InitOnce NoStaleRead
PROPERTY AllFinish
CHECK_DEADLOCK FALSE
