------------------------------ MODULE MCPoolOnce ------------------------------
(* Design-level models of the two kinds of shared global state behind C18:      *)
(*                                                                              *)
(* (1) the scratch pool (field/pool, polynomial pools): a client Gets a buffer  *)
(*     that may hold ANY previous content, must overwrite it before reading it, *)
(*     uses it, and Puts it back.  Property: the value a client computes never  *)
(*     depends on what other clients left in the buffer (NoLeak).  With         *)
(*     WriteBeforeRead = FALSE (a client reading the recycled buffer) TLC finds *)
(*     the leak.                                                                *)
(* (2) lazily initialised globals (curve parameters, hash constants): guarded   *)
(*     by a once-flag; readers first pass through Do().  Property: no reader    *)
(*     observes the uninitialised value and the value is initialised exactly    *)
(*     once.  With Guarded = FALSE (readers skip Do when a racy `done` flag is  *)
(*     set before the value) TLC finds the stale read.                          *)
EXTENDS Integers, FiniteSets, TLC

CONSTANTS Clients, WriteBeforeRead, Guarded
Secret(c) == c + 10                         \* what client c computes with (its own input)

VARIABLES pool,      \* set of free buffers (their content)
          held,      \* client -> content of the buffer it holds, or -1
          pc,        \* client -> "get" | "write" | "use" | "put" | "init" | "read" | "done"
          result,    \* client -> value it returned, or -1
          initDone, initRunning, value, inits, seen
vars == <<pool, held, pc, result, initDone, initRunning, value, inits, seen>>

Init == /\ pool = {0} /\ held = [c \in Clients |-> -1] /\ pc = [c \in Clients |-> "get"]
        /\ result = [c \in Clients |-> -1]
        /\ initDone = FALSE /\ initRunning = FALSE /\ value = 0 /\ inits = 0 /\ seen = [c \in Clients |-> -1]

Get(c) == /\ pc[c] = "get"
          /\ \/ (\E b \in pool : held' = [held EXCEPT ![c] = b] /\ pool' = pool \ {b})
             \/ (pool = {} /\ held' = [held EXCEPT ![c] = 0] /\ UNCHANGED pool)          \* sync.Pool.New
          /\ pc' = [pc EXCEPT ![c] = IF WriteBeforeRead THEN "write" ELSE "use"]
          /\ UNCHANGED <<result, initDone, initRunning, value, inits, seen>>
Write(c) == /\ pc[c] = "write" /\ held' = [held EXCEPT ![c] = Secret(c)] /\ pc' = [pc EXCEPT ![c] = "use"]
            /\ UNCHANGED <<pool, result, initDone, initRunning, value, inits, seen>>
Use(c) == /\ pc[c] = "use"
          /\ result' = [result EXCEPT ![c] = IF WriteBeforeRead THEN held[c] ELSE held[c] + Secret(c)]
          /\ held' = [held EXCEPT ![c] = Secret(c)]                                       \* the buffer now holds client data
          /\ pc' = [pc EXCEPT ![c] = "put"]
          /\ UNCHANGED <<pool, initDone, initRunning, value, inits, seen>>
Put(c) == /\ pc[c] = "put" /\ pool' = pool \cup {held[c]} /\ held' = [held EXCEPT ![c] = -1]
          /\ pc' = [pc EXCEPT ![c] = "init"]
          /\ UNCHANGED <<result, initDone, initRunning, value, inits, seen>>

\* once-guarded initialisation: Do() runs the initialiser exactly once; others wait until it completed
DoStart(c) == /\ pc[c] = "init" /\ ~initDone /\ ~initRunning /\ initRunning' = TRUE /\ pc' = [pc EXCEPT ![c] = "initing"]
              /\ UNCHANGED <<pool, held, result, initDone, value, inits, seen>>
DoFinish(c) == /\ pc[c] = "initing" /\ value' = 42 /\ inits' = inits + 1 /\ initDone' = TRUE /\ initRunning' = FALSE
               /\ pc' = [pc EXCEPT ![c] = "read"]
               /\ UNCHANGED <<pool, held, result, seen>>
DoSkip(c) == /\ pc[c] = "init"
             /\ (IF Guarded THEN initDone ELSE (initDone \/ initRunning))                 \* unguarded: a racy flag set too early
             /\ pc' = [pc EXCEPT ![c] = "read"]
             /\ UNCHANGED <<pool, held, result, initDone, initRunning, value, inits, seen>>
Read(c) == /\ pc[c] = "read" /\ seen' = [seen EXCEPT ![c] = value] /\ pc' = [pc EXCEPT ![c] = "done"]
           /\ UNCHANGED <<pool, held, result, initDone, initRunning, value, inits>>

Next == \E c \in Clients : Get(c) \/ Write(c) \/ Use(c) \/ Put(c) \/ DoStart(c) \/ DoFinish(c) \/ DoSkip(c) \/ Read(c)
Spec == Init /\ [][Next]_vars /\ WF_vars(Next)

NoLeak == \A c \in Clients : result[c] # -1 => result[c] = Secret(c)      \* a function of the client's own input only
InitOnce == inits <= 1
NoStaleRead == \A c \in Clients : seen[c] # -1 => seen[c] = 42
AllFinish == <>(\A c \in Clients : pc[c] = "done")
=============================================================================
