--------------------------- MODULE TraceSharedUse ---------------------------
(* C18: calls are pure, repeatable and safe to run concurrently on shared        *)
(* read-only objects.  The log holds, per subject f (an exported computation      *)
(* with the objects it must not modify):                                          *)
(*   call   one sequential execution            -> digest of the result           *)
(*   calls  n goroutines executing f at once    -> digests of their results       *)
(*   objs   digests of the shared objects before / after a whole round            *)
(*   race   race-detector reports attributed to f (race build, purego)            *)
(* The machine remembers the FIRST result of every subject (variable first);      *)
(* every later result - other repetition, caller, GOMAXPROCS, task count, the     *)
(* race build, the build with a poisoned big.Int pool - must be identical.        *)
EXTENDS TraceKernel

VARIABLE first        \* subject name -> digest of its first result

Known(f) == f \in DOMAIN first
Expect(e) == IF Known(e.f) THEN first[e.f] ELSE (IF e.op = "call" THEN e.res ELSE e.res[1])

Judge(e) ==
  CASE e.op = "call" ->
         (IF e.res = "panic" THEN {"panic"} ELSE {})
         \cup (IF e.res # Expect(e) THEN {"result-not-repeatable"} ELSE {})
    [] e.op = "calls" ->
         (IF \E k \in 1..Len(e.res) : e.res[k] = "panic" THEN {"panic"} ELSE {})
         \cup (IF \E k \in 1..Len(e.res) : e.res[k] # Expect(e) THEN {"concurrent-result-differs"} ELSE {})
    [] e.op = "objs" -> IF e.before # e.after THEN {"argument-modified"} ELSE {}
    [] e.op = "race" -> {"data-race"}
    [] e.op = "config" -> {}
    [] OTHER -> {"unknown-op"}

NextFirst(e) ==
  IF e.op \in {"call", "calls"} /\ ~Known(e.f)
  THEN [x \in DOMAIN first \cup {e.f} |-> IF x = e.f THEN Expect(e) ELSE first[x]]
  ELSE first

Init == KInit /\ first = [x \in {} |-> ""]
Step == HasNext /\ Advance(Judge(Ev)) /\ first' = NextFirst(Ev)
Next == Step \/ (Finish /\ UNCHANGED first)
Spec == Init /\ [][Next]_<<l, bad, first>>
=============================================================================
