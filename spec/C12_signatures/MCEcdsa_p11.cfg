SPECIFICATION Spec
CONSTANTS
  P = 11
  A = 1
  B = 6
  N = 13
  NBits = 4
  RangeChecks = TRUE
  MaxIssued = 1
INVARIANTS TypeOK Exact RejectsMalformed Complete HonestVerifies RecoverHonest RecoverSound RecoverTotal Codec
PROPERTIES ReadOnly
CHECK_DEADLOCK FALSE
