SPECIFICATION Spec
CONSTANTS
  P = 19
  A = 0
  B = 2
  N = 13
  NBits = 4
  RangeChecks = TRUE
  MaxIssued = 1
INVARIANTS TypeOK Exact RejectsMalformed Complete HonestVerifies RecoverHonest RecoverSound RecoverTotal Codec
PROPERTIES ReadOnly
CHECK_DEADLOCK FALSE
