------------------------------ MODULE TraceEcdsa ------------------------------
(* Trace validation for C12, ECDSA: replays the ndjson log of the real          *)
(* ecc/<curve>/ecdsa packages (10 curves) written by harness/c12.go and judges  *)
(* every reply with the operators of SigSpec - the ones model-checked in        *)
(* MCEcdsa - over the hand-transcribed curve parameters of CurveParams (header  *)
(* field "curve").                                                              *)
(*                                                                              *)
(* Machine state (histories): keys (id -> private scalar, public point), issued *)
(* (signatures handed out by Sign), issuedRec (by SignForRecover, with the      *)
(* recovery id), encs (public-key encodings seen so far, encoding -> point: the *)
(* compressed point format itself is C07; here an encoding produced by Bytes    *)
(* must be read back by SetBytes as the same point with the full length         *)
(* consumed, and two different points never share an encoding).                 *)
(*   GenerateKey    0 < scalar < n, A = [scalar]G                               *)
(*   Sign           a well-formed (r, s) with 0 < r, s < n that satisfies SEC 1 *)
(*                  4.1.4 for m = HashToInt(digest) (m = HashToInt(message) for *)
(*                  the nil hash)                                               *)
(*   SignForRecover the same, and v = 2 (x_P div n) + (y_P mod 2) for the       *)
(*                  commitment point P = [m/s]G + [r/s]Q                        *)
(*   Verify         ok <=> size /\ 0 < r, s < n /\ Q on the curve /\            *)
(*                  x([m/s]G + [r/s]Q) mod n = r  - decided by TLC              *)
(*   RecoverFrom    errors exactly for out-of-range r, s and abscissas of no    *)
(*                  point (leaving the key object unchanged), otherwise the     *)
(*                  unique Q with  P(v, r) = [m/s]G + [r/s]Q;  for a            *)
(*                  SignForRecover output: the signer key                       *)
(*   SigSetBytes, PubSetBytes, PubBytes, PrivSetBytes   codecs, consumed lengths*)
(* Hash: recording wrapper (hops); the code must feed exactly the message;      *)
(* SHA-256 digests are recomputed, MiMC digests are values of an uninterpreted  *)
(* function of the input; a refused write must fail the call.                   *)
(* Not judged: error texts, the length reported with an error, the point at     *)
(* infinity as a key (all-zero raw key, infinity flag of a compressed key),     *)
(* recovery when r + n exceeds the field modulus, keys outside the prime-order  *)
(* subgroup (never produced by SetBytes).                                       *)
EXTENDS TraceKernel, SigSpec, CurveParams, HashOps

Cv == G1Curve(Hdr.curve)
FPar == FieldP(Hdr.curve \o "/fp")
RPar == FieldP(Hdr.curve \o "/fr")
p == FPar.q
nb == Hdr.nb
fb == Hdr.fb
pkb == Hdr.pkb
privb == Hdr.privb
W == [C |-> Cv, G |-> GroupGen(Hdr.curve, "G1"), n |-> RPar.q, p |-> p, nb |-> nb, nbits |-> RPar.bits, fb |-> fb]
Rinv == InvMod(Rem(Shl(One, FPar.w * FPar.n), p), p)
V(raw) == MulMod(raw, Rinv, p)
CC(raw) == IsNat(raw) /\ Lt(raw, p)
CanonPt(a) == CC(a.X) /\ CC(a.Y)
PtOf(a) == AffOfAff(Cv, [X |-> V(a.X), Y |-> V(a.Y)])
ValidKey(Q) == ~Q.inf /\ WOnCurve(Cv, Q)

VARIABLES keys, issued, issuedRec, encs
mvars == <<keys, issued, issuedRec, encs>>

IsErr(e) == Has(e, "err")
RECURSIVE Concat(_)
Concat(s) == IF s = <<>> THEN <<>> ELSE Head(s) \o Concat(Tail(s))
NonEmpty(s) == SelectSeq(s, LAMBDA x : x # <<>>)
RangeOf(s) == {s[k] : k \in 1..Len(s)}
Ops(e, kind) == IF Has(e, "hops") THEN SelectSeq(e.hops, LAMBDA h : h.k = kind) ELSE <<>>
Sums(e) == Ops(e, "S")
HashRefused(e) == \E w \in RangeOf(Ops(e, "W")) : ~w.ok
HashPanicked(e) == Ops(e, "X") # <<>>
Attempted(e) == LET w == Ops(e, "W") IN [k \in 1..Len(w) |-> w[k].b] \o <<>>

Feeds(pre, hk, msg) == IF hk = "mimc" THEN NonEmpty(pre) = NonEmpty(<<msg>>) ELSE Concat(pre) = msg
HashStage(e) ==
  IF e.hk = "nil" THEN [st |-> "ok", m |-> HashToInt(W, e.msg), dg |-> e.msg]
  ELSE IF HashPanicked(e) THEN [st |-> "hash-panic"]
  ELSE IF HashRefused(e)
       THEN (IF IsPrefix(NonEmpty(Attempted(e)), NonEmpty(<<e.msg>>)) THEN [st |-> "refused"] ELSE [st |-> "fed"])
  ELSE LET ss == Sums(e)
           good == {i \in 1..Len(ss) : Feeds(ss[i].pre, e.hk, e.msg)}
       IN IF good = {} THEN [st |-> "fed"]
          ELSE LET s == ss[CHOOSE i \in good : TRUE] IN
               IF e.hk = "sha256" /\ s.d # SHA256(e.msg) THEN [st |-> "sha256"]
               ELSE [st |-> "ok", m |-> HashToInt(W, s.d), dg |-> s.d]

\* ---- Verify --------------------------------------------------------------------
Untouched(e) == IF e.Aafter = e.A /\ e.sigafter = e.sig /\ e.msgafter = e.msg THEN {} ELSE {"mutated-arg"}
Refuses(e, cls) == IF e.ok THEN {"accepted-invalid/" \o cls} ELSE {}
JudgeVerify(e) ==
  IF ~CanonPt(e.A) THEN {"badinput"}
  ELSE IF Panicked(e) THEN (IF HashPanicked(e) THEN {} ELSE {"panic"})
  ELSE Untouched(e) \cup
    (LET Q == PtOf(e.A)
         cls == IF ~ValidKey(Q) THEN "key-offcurve" ELSE EcSigClass(W, e.sig)
     IN IF cls # "ok" THEN Refuses(e, cls)
        ELSE LET hs == HashStage(e) IN
             IF hs.st = "refused" THEN Refuses(e, "hash-refused")
             ELSE IF hs.st # "ok" THEN {hs.st}
             ELSE LET want == EcAccepts(W, Q, hs.m, EcR(W, e.sig), EcS(W, e.sig)) IN
                  (IF e.ok = want THEN {} ELSE IF want THEN {"rejected-valid"} ELSE {"accepted-invalid/equation"})
                  \cup (IF want /\ IsErr(e) THEN {"spurious-error"} ELSE {})
                  \cup (IF [A |-> Q, msg |-> e.msg, hk |-> e.hk, sig |-> e.sig] \in issued /\ ~e.ok THEN {"honest-rejected"} ELSE {}))

\* ---- Sign / SignForRecover -------------------------------------------------------
JudgeSign(e) ==
  IF e.k \notin DOMAIN keys THEN {"badinput"}
  ELSE IF Panicked(e) THEN (IF HashPanicked(e) THEN {} ELSE {"panic"})
  ELSE LET K == keys[e.k] IN
    (IF e.msgafter = e.msg /\ e.privafter = K.priv THEN {} ELSE {"mutated-arg"}) \cup
    (LET hs == HashStage(e) IN
     IF IsErr(e) THEN (IF hs.st = "refused" THEN {} ELSE {"spurious-error"})
     ELSE IF hs.st = "refused" THEN {"swallowed-hash-error"}
     ELSE IF hs.st # "ok" THEN {hs.st}
     ELSE LET cls == EcSigClass(W, e.sig) IN
          IF cls # "ok" THEN {"sig-malformed/" \o cls}
          ELSE IF EcAccepts(W, K.A, hs.m, EcR(W, e.sig), EcS(W, e.sig)) THEN {} ELSE {"sig-invalid"})
SignOk(e) == ~Panicked(e) /\ ~IsErr(e) /\ e.k \in DOMAIN keys /\ Has(e, "sig")

InRange(x) == x # Zero /\ Lt(x, W.n)
JudgeSignRec(e) ==
  IF e.k \notin DOMAIN keys THEN {"badinput"}
  ELSE IF Panicked(e) THEN (IF HashPanicked(e) THEN {} ELSE {"panic"})
  ELSE LET K == keys[e.k]
           hs == HashStage(e)
       IN IF IsErr(e) THEN (IF hs.st = "refused" THEN {} ELSE {"spurious-error"})
          ELSE IF hs.st = "refused" THEN {"swallowed-hash-error"}
          ELSE IF hs.st # "ok" THEN {hs.st}
          ELSE IF Has(e, "negative") \/ ~InRange(e.r) \/ ~InRange(e.s) THEN {"sig-malformed/range"}
          ELSE LET U == EcU(W, K.A, hs.m, e.r, e.s) IN
               IF U.inf \/ Rem(U.x, W.n) # e.r THEN {"sig-invalid"}
               ELSE (IF e.v = EcRecId(W, U) THEN {} ELSE {"recovery-id"})
                    \cup (IF e.msgafter = e.msg THEN {} ELSE {"mutated-arg"})
SignRecOk(e) == ~Panicked(e) /\ ~IsErr(e) /\ e.k \in DOMAIN keys /\ Has(e, "r") /\ HashStage(e).st = "ok"

\* ---- RecoverFrom -----------------------------------------------------------------
JudgeRecover(e) ==
  IF ~CanonPt(e.Abefore) THEN {"badinput"}
  ELSE IF Panicked(e) THEN {"panic"}
  ELSE (IF e.msgafter = e.msg /\ Has(e, "rafter") /\ e.rafter = e.r /\ e.safter = e.s THEN {} ELSE {"mutated-arg"}) \cup
    (LET cls == EcRecClass(W, e.v, e.r, e.s) IN
     IF cls = "x-overflow" THEN {}
     ELSE IF cls # "ok" THEN (IF ~IsErr(e) THEN {"swallowed-error/" \o cls}
                              ELSE IF e.A # e.Abefore THEN {"state-changed-on-error"} ELSE {})
     ELSE IF IsErr(e) THEN {"spurious-error"}
     ELSE IF ~CanonPt(e.A) THEN {"noncanonical"}
     ELSE LET Q == PtOf(e.A)
              m == HashToInt(W, e.msg)
          IN (IF EcRecovers(W, m, e.v, e.r, e.s, Q) THEN {} ELSE {"recovered-key"})
             \cup (IF \E t \in issuedRec : t.dg = e.msg /\ t.v = e.v /\ t.r = e.r /\ t.s = e.s /\ t.A # Q
                   THEN {"recovered-not-signer"} ELSE {}))

\* ---- keys and codecs -------------------------------------------------------------
PrivScalar(b) == FromBytesBE(Slice(b, pkb + 1, privb))
RawEnc(Q) == ToBytesBE(Q.x, fb) \o ToBytesBE(Q.y, fb)
\* the encoding b is (consistently) an encoding of the point Q
EncClass(b, Q) ==
  IF Hdr.raw THEN (IF b = RawEnc(Q) THEN {} ELSE {"pub-encoding"})
  ELSE IF \E t \in encs : (t[1] = b /\ t[2] # Q) THEN {"encoding-collision"}
  ELSE IF \E t \in encs : (t[2] = Q /\ t[1] # b) THEN {"encoding-not-a-function"} ELSE {}
KeyPairClass(priv, Araw) ==
  IF Len(priv) # privb THEN {"priv-size"}
  ELSE IF ~CanonPt(Araw) THEN {"pub-noncanonical"}
  ELSE LET Q == PtOf(Araw)  d == PrivScalar(priv) IN
       IF ~InRange(d) THEN {"scalar-range"}
       ELSE IF ~ValidKey(Q) THEN {"pub-offcurve"}
       ELSE IF Q # WMulNat(Cv, d, W.G) THEN {"pub-not-scalar-times-base"}
       ELSE EncClass(Slice(priv, 1, pkb), Q)
KeyRec(priv, Araw) == [a |-> PrivScalar(priv), A |-> PtOf(Araw), Araw |-> Araw, priv |-> priv]

JudgeGen(e) ==
  IF Has(e, "rdfail") THEN (IF Panicked(e) THEN {"panic"} ELSE IF IsErr(e) THEN {} ELSE {"swallowed-error/reader"})
  ELSE IF Panicked(e) THEN {"panic"}
  ELSE IF IsErr(e) THEN {"spurious-error"}
  ELSE KeyPairClass(e.priv, e.A)

JudgePublic(e) ==
  IF e.k \notin DOMAIN keys THEN {"badinput"}
  ELSE IF Panicked(e) THEN {"panic"}
  ELSE IF CanonPt(e.A) /\ PtOf(e.A) = keys[e.k].A THEN {} ELSE {"public-point"}

JudgePubBytes(e) ==
  IF Panicked(e) THEN {"panic"}
  ELSE IF ~CanonPt(e.A) \/ ~ValidKey(PtOf(e.A)) THEN {}
  ELSE (IF Len(e.out) = pkb THEN EncClass(e.out, PtOf(e.A)) ELSE {"encoding-size"})
       \cup (IF e.Aafter = e.A THEN {} ELSE {"mutated-arg"})

Known(b) == {t \in encs : t[1] = b}
\* the point a public-key encoding must decode to: [st |-> "reject" | "accept" (with Q) | "unknown" | "unjudged"]
DecodeClass(b) ==
  IF Hdr.raw
  THEN LET x == FromBytesBE(Slice(b, 1, fb))  y == FromBytesBE(Slice(b, fb + 1, 2 * fb)) IN
       IF ~Lt(x, p) \/ ~Lt(y, p) THEN [st |-> "reject", why |-> "noncanonical"]
       ELSE IF x = Zero /\ y = Zero THEN [st |-> "unjudged"]
       ELSE IF ~WOnCurve(Cv, Pt(x, y)) THEN [st |-> "reject", why |-> "offcurve"]
       ELSE [st |-> "accept", Q |-> Pt(x, y)]
  ELSE IF Known(b) # {} THEN [st |-> "accept", Q |-> (CHOOSE t \in Known(b) : TRUE)[2]]
  ELSE [st |-> "unknown"]

JudgePubSet(e) ==
  IF Panicked(e) THEN {"panic"}
  ELSE (IF e.bufafter = e.buf THEN {} ELSE {"mutated-arg"}) \cup
    (IF Len(e.buf) < pkb THEN (IF IsErr(e) THEN {} ELSE {"accepted-malformed/short"})
     ELSE LET dc == DecodeClass(Slice(e.buf, 1, pkb)) IN
          IF dc.st = "unjudged" THEN {}
          ELSE IF dc.st = "reject" THEN (IF IsErr(e) THEN {} ELSE {"accepted-malformed/" \o dc.why})
          ELSE IF dc.st = "accept" /\ IsErr(e) THEN {"spurious-error"}
          ELSE IF IsErr(e) THEN {}
          ELSE (IF e.n = pkb THEN {} ELSE {"consumed-length"})
               \cup (IF ~CanonPt(e.A) THEN {"noncanonical"}
                     ELSE IF dc.st = "accept" THEN (IF PtOf(e.A) = dc.Q THEN {} ELSE {"decoded-point"})
                     ELSE IF PtOf(e.A).inf THEN {}          \* the point at infinity as a key: not judged (point formats are C07)
                     ELSE IF ValidKey(PtOf(e.A)) /\ WInSubgroup(Cv, W.n, PtOf(e.A)) THEN {} ELSE {"decoded-point"})
               \cup (IF dc.st = "accept" /\ e.back # Slice(e.buf, 1, pkb) THEN {"roundtrip"} ELSE {}))

JudgePrivSet(e) ==
  IF Panicked(e) THEN {"panic"}
  ELSE (IF e.bufafter = e.buf THEN {} ELSE {"mutated-arg"}) \cup
    (IF Len(e.buf) < privb THEN (IF IsErr(e) THEN {} ELSE {"accepted-malformed/short"})
     ELSE LET dc == DecodeClass(Slice(e.buf, 1, pkb)) IN
          IF dc.st = "reject" THEN (IF IsErr(e) THEN {} ELSE {"accepted-malformed/" \o dc.why})
          ELSE IF dc.st # "accept" THEN {}
          ELSE IF IsErr(e) THEN {"spurious-error"}
          ELSE (IF e.n = privb THEN {} ELSE {"consumed-length"})
               \cup (IF e.back = Slice(e.buf, 1, privb) THEN {} ELSE {"roundtrip"})
               \cup (IF CanonPt(e.A) /\ PtOf(e.A) = dc.Q THEN {} ELSE {"decoded-point"}))
PrivSetRegisters(e) == ~Panicked(e) /\ ~IsErr(e) /\ Has(e, "back") /\ KeyPairClass(e.back, e.A) = {}

JudgeSigSet(e) ==
  IF Panicked(e) THEN {"panic"}
  ELSE (IF e.bufafter = e.buf THEN {} ELSE {"mutated-arg"}) \cup
    (LET cls == EcSigClass(W, e.buf) IN
     IF cls # "ok" THEN (IF IsErr(e) THEN {} ELSE {"accepted-malformed/" \o cls})
     ELSE IF IsErr(e) THEN {"spurious-error"}
     ELSE (IF e.n = 2 * nb THEN {} ELSE {"consumed-length"})
          \cup (IF e.R = Slice(e.buf, 1, nb) /\ e.S = Slice(e.buf, nb + 1, 2 * nb) THEN {} ELSE {"decoded-value"})
          \cup (IF e.back = e.buf THEN {} ELSE {"roundtrip"}))

Judge(e) ==
  CASE e.op = "GenerateKey" -> JudgeGen(e)
    [] e.op = "Public" -> JudgePublic(e)
    [] e.op = "Sign" -> JudgeSign(e)
    [] e.op = "SignForRecover" -> JudgeSignRec(e)
    [] e.op = "Verify" -> JudgeVerify(e)
    [] e.op = "RecoverFrom" -> JudgeRecover(e)
    [] e.op = "SigSetBytes" -> JudgeSigSet(e)
    [] e.op = "PubSetBytes" -> JudgePubSet(e)
    [] e.op = "PubBytes" -> JudgePubBytes(e)
    [] e.op = "PrivSetBytes" -> JudgePrivSet(e)
    [] OTHER -> {"unknown-op"}

\* successor state per the specification
GenRegisters(e) == e.op = "GenerateKey" /\ ~Has(e, "rdfail") /\ ~Panicked(e) /\ ~IsErr(e) /\ KeyPairClass(e.priv, e.A) = {}
\* a returned key pair is registered with the public point the specification assigns to its scalar
SpecKey(priv, Araw) == [a |-> PrivScalar(priv), A |-> WMulNat(Cv, PrivScalar(priv), W.G), Araw |-> Araw, priv |-> priv]
NextKeys(e) ==
  IF e.op = "GenerateKey" /\ ~Has(e, "rdfail") /\ ~Panicked(e) /\ ~IsErr(e) /\ Len(e.priv) = privb
  THEN (e.k :> SpecKey(e.priv, e.A)) @@ keys
  ELSE IF e.op = "PrivSetBytes" /\ PrivSetRegisters(e) THEN (e.k :> KeyRec(e.back, e.A)) @@ keys
  ELSE keys
NextIssued(e) ==
  IF e.op = "Sign" /\ SignOk(e) THEN issued \cup {[A |-> keys[e.k].A, msg |-> e.msg, hk |-> e.hk, sig |-> e.sig]} ELSE issued
NextIssuedRec(e) ==
  IF e.op = "SignForRecover" /\ SignRecOk(e)
  THEN issuedRec \cup {[A |-> keys[e.k].A, dg |-> HashStage(e).dg, v |-> e.v, r |-> e.r, s |-> e.s]} ELSE issuedRec
NextEncs(e) ==
  IF Hdr.raw THEN encs
  ELSE IF GenRegisters(e) THEN encs \cup {<<Slice(e.priv, 1, pkb), PtOf(e.A)>>}
  ELSE IF e.op = "PubBytes" /\ ~Panicked(e) /\ CanonPt(e.A) /\ ValidKey(PtOf(e.A)) /\ Len(e.out) = pkb
       THEN encs \cup {<<e.out, PtOf(e.A)>>}
  ELSE encs

Init == KInit /\ keys = <<>> /\ issued = {} /\ issuedRec = {} /\ encs = {}
Step == /\ HasNext /\ Advance(Judge(Ev))
        /\ keys' = NextKeys(Ev) /\ issued' = NextIssued(Ev) /\ issuedRec' = NextIssuedRec(Ev) /\ encs' = NextEncs(Ev)
Next == Step \/ (Finish /\ UNCHANGED mvars)
Spec == Init /\ [][Next]_<<l, bad, keys, issued, issuedRec, encs>>
=============================================================================
