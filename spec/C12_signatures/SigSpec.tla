------------------------------- MODULE SigSpec -------------------------------
(* C12 - what the two signature schemes of gnark-crypto decide, as pure        *)
(* definitions over byte strings (sequences of 0..255), BigNat integers and    *)
(* the textbook group laws (TwistedEdwards!EAdd, Weierstrass!WAdd).  The same  *)
(* operators are model-checked exhaustively on tiny curves with one-byte       *)
(* encodings (MCEddsa, MCEcdsa) and judge the recorded behaviour of the real   *)
(* code at 253..761 bits (TraceEddsa, TraceEcdsa).                             *)
(*                                                                             *)
(* EdDSA context   D == [E |-> [q, a, d], B |-> base point [x, y],             *)
(*                       l |-> order of B, c |-> cofactor (BigNat),            *)
(*                       nb |-> bytes of a field element]                      *)
(*   signature = enc(R) || S   (2 nb bytes): enc(R) = little-endian y with the *)
(*   sign of x (x lexicographically larger than -x) in bit 7 of the last byte  *)
(*   (RFC 8032 3.1 as the package documents it), S big endian.                 *)
(*   Verify(sig, M, A): parse (0 < y < q, 0 < S < l, y is the ordinate of a    *)
(*   curve point, canonical sign) and  [c][S]B = [c](R + [H(R,A,M)]A)          *)
(*   - the cofactored equation the package documents; H is the whole digest    *)
(*   read as a big-endian integer (not reduced).                               *)
(*                                                                             *)
(* ECDSA context   W == [C |-> Weierstrass curve over F_p (level 0),           *)
(*                       G |-> generator, n |-> its prime order, p |-> modulus,*)
(*                       nb |-> bytes of a scalar, nbits |-> bits of n,        *)
(*                       fb |-> bytes of a coordinate]                         *)
(*   signature = r || s big endian (2 nb bytes).  SEC 1 v2 4.1.4:              *)
(*   0 < r, s < n,  U = [m/s]G + [r/s]Q # O,  U.x mod n = r.                    *)
(*   Recovery (SEC 1 4.1.6 as the package documents it): v = 2*(x_P div n) +   *)
(*   (y_P mod 2);  Q = r^-1 (s P - m G).                                        *)
EXTENDS TwistedEdwards, Weierstrass, PrimeField

Slice(b, i, j) == SubSeq(b, i, j)

\* ---------------------------------------------------------------------------
\* EdDSA
EdQ(D) == D.E.q
EdSg(D, x) == IF FLexLargest(D.E.q, x) THEN 1 ELSE 0
EdEncSg(buf, nb) == buf[nb] \div 128
EdEncY(buf, nb) == FromBytesLE([i \in 1..nb |-> IF i = nb THEN (buf[i] % 128) ELSE buf[i]] \o <<>>)
EdEncode(D, P) ==
  LET yb == ToBytesLE(P.y, D.nb)
  IN [i \in 1..D.nb |-> IF i = D.nb THEN yb[i] + 128 * EdSg(D, P.x) ELSE yb[i]] \o <<>>

\* x^2 = (1 - y^2) / (a - d y^2) on  a x^2 + y^2 = 1 + d x^2 y^2
EdX2(D, y) == LET q == D.E.q  yy == FMul(q, y, y)
              IN [num |-> FSub(q, One, yy), den |-> FSub(q, D.E.a, FMul(q, D.E.d, yy))]
\* y is the ordinate of a point of the curve (a - d y^2 = 0 has no solution x because a # d)
EdHasX(D, y) == LET f == EdX2(D, y) IN f.den # Zero /\ FIsSquare(D.E.q, FDiv(D.E.q, f.num, f.den))
EdXIsZero(D, y) == EdX2(D, y).num = Zero

\* the point P is denoted by the compressed encoding buf[1..nb] (for x = 0 the sign bit is judged by the *Class operators)
EdDenotes(D, buf, P) ==
  /\ IsNat(P.x) /\ IsNat(P.y) /\ Lt(P.x, D.E.q) /\ Lt(P.y, D.E.q)
  /\ P.y = Rem(EdEncY(buf, D.nb), D.E.q)
  /\ EOnCurve(D.E, P)
  /\ (P.x = Zero \/ EdSg(D, P.x) = EdEncSg(buf, D.nb))

\* classification of a candidate signature: "ok" or the reason for which it must be refused
EdSigS(D, buf) == FromBytesBE(Slice(buf, D.nb + 1, 2 * D.nb))
EdSigClass(D, buf) ==
  IF Len(buf) # 2 * D.nb THEN "size"
  ELSE LET y == EdEncY(buf, D.nb)
           S == EdSigS(D, buf)
       IN IF y = Zero THEN "R-zero"
          ELSE IF ~Lt(y, D.E.q) THEN "R-range"
          ELSE IF S = Zero THEN "S-zero"
          ELSE IF ~Lt(S, D.l) THEN "S-range"
          ELSE IF ~EdHasX(D, y) THEN "R-offcurve"
          ELSE IF EdXIsZero(D, y) /\ EdEncSg(buf, D.nb) = 1 THEN "R-noncanonical"
          ELSE "ok"

\* classification of a candidate public key encoding
EdPubClass(D, buf) ==
  IF Len(buf) < D.nb THEN "short"
  ELSE LET y == EdEncY(buf, D.nb)
           yr == Rem(y, D.E.q)
       IN IF ~EdHasX(D, yr) THEN "offcurve"
          ELSE IF ~Lt(y, D.E.q) THEN "y-range"
          ELSE IF EdXIsZero(D, y) /\ EdEncSg(buf, D.nb) = 1 THEN "noncanonical-sign"
          ELSE "ok"

\* the documented (cofactored) verification equation
EdLhs(D, S) == EMulNat(D.E, D.c, EMulNat(D.E, S, D.B))
EdRhs(D, R, h, A) == EMulNat(D.E, D.c, EAdd(D.E, EMulNat(D.E, h, A), R))
EdEquation(D, R, S, h, A) == EdLhs(D, S) = EdRhs(D, R, h, A)
\* both sides are points of the curve (always, when the addition law is complete; on a curve with a non-square
\* coefficient a the law has exceptional pairs outside the prime-order subgroup: then nothing is judged)
EdRegular(D, R, S, h, A) == EOnCurve(D.E, EdLhs(D, S)) /\ EOnCurve(D.E, EdRhs(D, R, h, A))

\* ---------------------------------------------------------------------------
\* ECDSA
EcR(W, buf) == FromBytesBE(Slice(buf, 1, W.nb))
EcS(W, buf) == FromBytesBE(Slice(buf, W.nb + 1, 2 * W.nb))
EcSigClass(W, buf) ==
  IF Len(buf) # 2 * W.nb THEN "size"
  ELSE LET r == EcR(W, buf)  s == EcS(W, buf)
       IN IF r = Zero THEN "r-zero"
          ELSE IF ~Lt(r, W.n) THEN "r-range"
          ELSE IF s = Zero THEN "s-zero"
          ELSE IF ~Lt(s, W.n) THEN "s-range"
          ELSE "ok"

\* the integer a digest stands for, as the package documents it: the leftmost nb bytes, then low bits
\* dropped until the bit length is at most that of n
HashToInt(W, bytes) ==
  LET t == IF Len(bytes) > W.nb THEN Slice(bytes, 1, W.nb) ELSE bytes
      v == FromBytesBE(t)
      ex == BitLen(v) - W.nbits
  IN IF ex > 0 THEN Shr(v, ex) ELSE v

EcU(W, Q, m, r, s) ==
  LET w == InvMod(s, W.n)
  IN WAdd(W.C, WMulNat(W.C, MulMod(m, w, W.n), W.G), WMulNat(W.C, MulMod(r, w, W.n), Q))
\* SEC 1 4.1.4 for 0 < r, s < n
EcAccepts(W, Q, m, r, s) == LET U == EcU(W, Q, m, r, s) IN ~U.inf /\ Rem(U.x, W.n) = r

\* recovery information of the commitment point U
EcRecId(W, U) == 2 * ToInt(Div(U.x, W.n)) + (IF IsOdd(U.y) THEN 1 ELSE 0)
EcRecX(W, v, r) == IF (v \div 2) % 2 = 1 THEN Add(r, W.n) ELSE r
EcRhs(W, x) == LET q == W.p IN FAdd(q, FAdd(q, FMul(q, FMul(q, x, x), x), FMul(q, W.C.a, x)), W.C.b)
EcRecClass(W, v, r, s) ==
  IF s = Zero \/ ~Lt(s, W.n) THEN "s-range"
  ELSE IF r = Zero \/ ~Lt(r, W.n) THEN "r-range"
  ELSE LET x == EcRecX(W, v, r)
       IN IF ~Lt(x, W.p) THEN "x-overflow"
          ELSE IF ~FIsSquare(W.p, EcRhs(W, x)) THEN "no-point"
          ELSE "ok"
\* Q is the key recovered from (m, v, r, s):  Q = r^-1 (s P - m G)  <=>  P = [m/s]G + [r/s]Q
\* with P the point of abscissa r (+ n) and ordinate parity v mod 2
EcRecovers(W, m, v, r, s, Q) ==
  LET U == EcU(W, Q, m, r, s)
  IN WOnCurve(W.C, Q) /\ ~U.inf /\ U.x = EcRecX(W, v, r) /\ (IF IsOdd(U.y) THEN 1 ELSE 0) = v % 2
=============================================================================
