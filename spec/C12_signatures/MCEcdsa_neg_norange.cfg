SPECIFICATION Spec
CONSTANTS
  P = 19
  A = 0
  B = 2
  N = 13
  NBits = 4
  RangeChecks = FALSE
  MaxIssued = 1
INVARIANTS Exact
PROPERTIES ReadOnly
CHECK_DEADLOCK FALSE
