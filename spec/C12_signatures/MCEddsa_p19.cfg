SPECIFICATION Spec
CONSTANTS
  P = 19
  A = 5
  Dd = 2
  L = 7
  Cof = 4
  CanonSign = TRUE
  SZeroGuard = TRUE
  MaxIssued = 1
INVARIANTS TypeOK Exact RejectsMalformed Complete HonestVerifies Codec PubCodec
PROPERTIES ReadOnly
CHECK_DEADLOCK FALSE
