------------------------------- MODULE MCEddsa -------------------------------
(* C12, EdDSA: the signature machine on a tiny complete twisted Edwards curve, *)
(* exhaustively.  Curve  A x^2 + y^2 = 1 + Dd x^2 y^2  over F_P with group     *)
(* order Cof * L, L prime (cfg constants); one byte per field element          *)
(* (nb = 1: y in the low 7 bits, sign of x in bit 7), so the byte-level        *)
(* operators of SigSpec (EdSigClass, EdDenotes, EdEquation, EdEncode) are the  *)
(* ones that judge the real code.                                              *)
(*                                                                             *)
(* The hash is an uninterpreted function: a call that hashes a new (R, A, M)   *)
(* gets ANY digest h in HVals; a triple that was hashed before gets the same   *)
(* digest again (it is kept with the issued signature).                        *)
(*                                                                             *)
(* State: key (private scalar, not reduced mod L - the code uses the pruned    *)
(* 256-bit scalar as it is; 0 = no key), issued (history), reply (pending      *)
(* reply; calls alternate with Ack).  Actions: GenerateKey, Sign (nonce = any  *)
(* r in 0..L+1, not reduced, like the code), Verify, Signature.SetBytes/Bytes, *)
(* PublicKey.SetBytes/Bytes.  On the fresh machine Verify is explored for ALL  *)
(* public keys (every curve point, two off-curve points), all candidate        *)
(* signatures (y in 0..15 with both sign bits - y >= P, y = 0, off-curve y,    *)
(* sign bit on x = 0 -, S in 0..L+1, wrong sizes) and all digests; once        *)
(* signatures are issued, for the issued triples and their one-component       *)
(* mutations.                                                                  *)
(*                                                                             *)
(* Properties: Exact - the acceptance set is { (R, S) well formed :            *)
(* S = dlog(R) + h dlog(A) mod L } with dlog taken after clearing the cofactor *)
(* by repeated addition (no scalar multiplication routine, no equation);       *)
(* Complete / HonestVerifies - issued signatures verify (the code does not     *)
(* retry when S = 0 mod L: that signature is refused by its own verifier; the  *)
(* exception is explicit, MCEddsa_neg_szero shows it is needed);               *)
(* RejectsMalformed; Codec - accepted signature encodings are canonical        *)
(* (SetBytes then Bytes gives the same bytes back, full length consumed);      *)
(* PubCodec; ReadOnly.                                                         *)
EXTENDS SigSpec, TLC, FiniteSets

CONSTANTS P, A, Dd, L, Cof,
          CanonSign,     \* TRUE: as specified; FALSE (negative self-test = the code as it is): sign bit accepted on x = 0
          SZeroGuard,    \* TRUE: completeness is claimed for S # 0 only; FALSE (negative self-test): for every signature
          MaxIssued

E == [q |-> FromInt(P), a |-> FromInt(A), d |-> FromInt(Dd)]
El == {FromInt(x) : x \in 0..(P-1)}
CurvePts == {pt \in [x : El, y : El] : EOnCurve(E, pt)}
RECURSIVE Rep(_,_)
Rep(n, pt) == IF n = 0 THEN EId ELSE EAdd(E, Rep(n-1, pt), pt)       \* repeated addition
BaseB == CHOOSE pt \in CurvePts : pt # EId /\ Rep(L, pt) = EId
D == [E |-> E, B |-> BaseB, l |-> FromInt(L), c |-> FromInt(Cof), nb |-> 1]
OffPts == {pt \in {[x |-> FromInt(1), y |-> FromInt(1)], [x |-> FromInt(2), y |-> FromInt(3)]} : ~EOnCurve(E, pt)}

ASSUME Cardinality(CurvePts) = Cof * L
BTab == [j \in 1..L |-> Rep(j, BaseB)] \o <<>>                         \* BTab[L] = identity
MulB(j) == BTab[((j + L - 1) % L) + 1]
\* dlog of [Cof]pt in <BaseB>, by table lookup
DLcOf(pt) == CHOOSE j \in 0..(L-1) : Rep(Cof, pt) = MulB(j)
DLTab == [pt \in CurvePts |-> DLcOf(pt)]
DLc(pt) == DLTab[pt]

HVals == 0..(2 * L - 1)
SignH == {0, 3, 2 * L - 3}
YVals == 0..(P + 2)
RBytes == YVals \cup {128 + y : y \in YVals}
SigCands == {<<rb, sb>> : rb \in RBytes, sb \in 0..(L + 1)} \cup {<<>>, <<3>>, <<3, 4, 5>>}
PubCands == {<<rb>> : rb \in RBytes} \cup {<<>>} \cup {<<1, 77>>}

VARIABLES key, issued, reply
vars == <<key, issued, reply>>
None == [op |-> "none"]
Idle == reply = None

\* ---- what the machine decides (SigSpec) ------------------------------------
SigClass(sg) == LET c == EdSigClass(D, sg) IN IF ~CanonSign /\ c = "R-noncanonical" THEN "ok" ELSE c
\* decoding table of the 256 one-byte point encodings (NoPt: ordinate of no curve point)
NoPt == [x |-> FromInt(P), y |-> FromInt(P)]
DecTab == [i \in 1..256 |-> LET c == {pt \in CurvePts : EdDenotes(D, <<i - 1>>, pt)}
                            IN IF c = {} THEN NoPt ELSE CHOOSE pt \in c : TRUE] \o <<>>
Decode(enc) == DecTab[enc[1] + 1]
Decide(Apt, sg, h) ==
  IF ~EOnCurve(E, Apt) \/ SigClass(sg) # "ok" THEN [ok |-> FALSE, err |-> TRUE]
  ELSE [ok |-> EdEquation(D, Decode(sg), EdSigS(D, sg), FromInt(h), Apt), err |-> FALSE]

Pub(a) == EMulNat(E, FromInt(a), BaseB)
SignWith(a, r, h) == EdEncode(D, EMulNat(E, FromInt(r), BaseB)) \o ToBytesBE(FromInt((r + h * a) % L), 1)

\* ---- actions ---------------------------------------------------------------
GenerateKey(a) == key' = a /\ issued' = {} /\ reply' = [op |-> "gen", Apt |-> Pub(a)]

Sign(m, r, h) ==
  /\ key # 0 /\ Cardinality(issued) < MaxIssued
  /\ LET sg == SignWith(key, r, h)
     IN /\ issued' = issued \cup {[m |-> m, h |-> h, sig |-> sg]}
        /\ reply' = [op |-> "sign", m |-> m, h |-> h, sig |-> sg]
  /\ UNCHANGED key

Verify(Apt, sg, h) == reply' = ([op |-> "verify", Apt |-> Apt, sig |-> sg, h |-> h] @@ Decide(Apt, sg, h)) /\ UNCHANGED <<key, issued>>
\* exploring Verify for all inputs goes through a Focus step that fixes the key point: one state per key, so that TLC's
\* workers share the evaluations of the equation (the successors of ONE state are computed by one worker)
Focus(Apt) == key = 0 /\ reply' = [op |-> "focus", Apt |-> Apt] /\ UNCHANGED <<key, issued>>
VerifyFocused == reply.op = "focus" /\ \E sg \in SigCands, h \in HVals : Verify(reply.Apt, sg, h)
VerifyAny == \E Apt \in CurvePts \cup OffPts : Focus(Apt)
\* same decoded R (and same A, M) = same hash input = same digest
SameR(s1, s2) == /\ Len(s1) = 2 /\ Len(s2) = 2
                 /\ Decode(s1) # NoPt /\ Decode(s1) = Decode(s2)
VerifyIssuedOrMutated ==
  \E t \in issued :
     \/ Verify(Pub(key), t.sig, t.h)
     \/ \E Apt \in (CurvePts \cup OffPts) \ {Pub(key)}, h \in HVals : Verify(Apt, t.sig, h)        \* other key
     \/ \E h \in HVals : Verify(Pub(key), t.sig, h)                                              \* other message
     \/ \E sg \in SigCands, h \in {0, 1, t.h, 2 * L - 1} : (SameR(sg, t.sig) => h = t.h) /\ Verify(Pub(key), sg, h)  \* other signature

SigSetBytes(buf) ==
  /\ UNCHANGED <<key, issued>>
  /\ reply' = IF SigClass(buf) # "ok" THEN [op |-> "sigset", buf |-> buf, err |-> TRUE, n |-> 0]
              ELSE [op |-> "sigset", buf |-> buf, err |-> FALSE, n |-> 2,
                    back |-> EdEncode(D, Decode(buf)) \o ToBytesBE(EdSigS(D, buf), 1)]        \* Signature.Bytes() of the parsed object
\* PublicKey.SetBytes: refuses short buffers and ordinates of no curve point; y >= P and the sign bit on x = 0 are
\* accepted as the code does (the property speaks of round trips for keys, not of canonical key encodings)
PubSetBytes(buf) ==
  /\ UNCHANGED <<key, issued>>
  /\ LET cls == EdPubClass(D, buf)
     IN reply' = IF cls \in {"short", "offcurve"} THEN [op |-> "pubset", buf |-> buf, err |-> TRUE, n |-> 0, cls |-> cls]
                 ELSE [op |-> "pubset", buf |-> buf, err |-> FALSE, n |-> 1, cls |-> cls, Apt |-> Decode(buf),
                       back |-> EdEncode(D, Decode(buf))]

Ack == ~Idle /\ reply' = None /\ UNCHANGED <<key, issued>>

Init == key = 0 /\ issued = {} /\ reply = None
Calls == \/ \E a \in 1..(L + 1) : GenerateKey(a)
         \/ \E r \in 0..(L + 1), h \in SignH : Sign(0, r, h)
         \/ VerifyAny \/ VerifyIssuedOrMutated
         \/ (key = 0 /\ \E buf \in SigCands : SigSetBytes(buf))
         \/ (key = 0 /\ \E buf \in PubCands : PubSetBytes(buf))
Next == (Idle /\ Calls) \/ VerifyFocused \/ Ack
Spec == Init /\ [][Next]_vars

\* ---- properties ------------------------------------------------------------
TypeOK == key \in 0..(L + 1) /\ Cardinality(issued) <= MaxIssued
WellFormed(sg) == EdSigClass(D, sg) = "ok"
Exact ==
  reply.op = "verify" =>
    (reply.ok <=> /\ reply.Apt \in CurvePts /\ WellFormed(reply.sig)
                  /\ (Cof * ToInt(EdSigS(D, reply.sig))) % L = (DLc(Decode(reply.sig)) + reply.h * DLc(reply.Apt)) % L)
RejectsMalformed == reply.op = "verify" /\ (~WellFormed(reply.sig) \/ reply.Apt \notin CurvePts) => ~reply.ok /\ reply.err
SNonZero(sg) == sg[2] # 0
Complete == reply.op = "sign" /\ (SZeroGuard => SNonZero(reply.sig)) => Decide(Pub(key), reply.sig, reply.h) = [ok |-> TRUE, err |-> FALSE]
HonestVerifies ==
  reply.op = "verify" /\ key # 0 /\ reply.Apt = Pub(key)
     /\ (\E t \in issued : t.sig = reply.sig /\ t.h = reply.h) /\ SNonZero(reply.sig) => reply.ok /\ ~reply.err
Codec == reply.op = "sigset" =>
           /\ (reply.err <=> ~WellFormed(reply.buf))
           /\ (~reply.err => reply.n = Len(reply.buf) /\ reply.back = reply.buf)
PubCodec == reply.op = "pubset" /\ ~reply.err =>
              /\ reply.n = 1 /\ reply.Apt \in CurvePts /\ EdDenotes(D, reply.buf, reply.Apt)
              /\ (reply.cls = "ok" => reply.back = Slice(reply.buf, 1, 1))
\* every curve point has exactly one well-formed encoding: Bytes is injective and SetBytes inverts it
ASSUME \A pt \in CurvePts : Decode(EdEncode(D, pt)) = pt /\ EdPubClass(D, EdEncode(D, pt)) = "ok"
ReadOnly == [][reply'.op \in {"verify", "sigset", "pubset", "none", "focus"} => UNCHANGED <<key, issued>>]_vars
=============================================================================
