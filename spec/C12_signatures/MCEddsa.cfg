SPECIFICATION Spec
CONSTANTS
  P = 13
  A = 1
  Dd = 7
  L = 5
  Cof = 4
  CanonSign = TRUE
  SZeroGuard = TRUE
  MaxIssued = 1
INVARIANTS TypeOK Exact RejectsMalformed Complete HonestVerifies Codec PubCodec
PROPERTIES ReadOnly
CHECK_DEADLOCK FALSE
