---------------------------- MODULE EdParamsCheck ----------------------------
(* The parameters TraceEddsa relies on, checked by TLC itself: for each of the *)
(* 8 twisted Edwards curves of EdwardsParams the base point is on the curve,   *)
(* has order l ([l]B = O, l passes a Fermat test to two bases), a # d, and the *)
(* documented cofactor c is THE cofactor: c * l lies in the Hasse interval     *)
(* (c l - q - 1)^2 <= 4 q, which (l > 4 sqrt q) contains one multiple of l.    *)
(* Also: d is a non-square (the denominators of the law never vanish on the    *)
(* affine curve when a is a square) - reported per curve, not required         *)
(* (bandersnatch has a non-square a: its law is complete on the subgroup only).*)
EXTENDS TwistedEdwards, PrimeField, FieldParams, EdwardsParams, EdSigParams, TLC

VARIABLE name
CInit == name \in EdwardsNames
CNext == UNCHANGED name
CSpec == CInit /\ [][CNext]_name

P(n) == EdwardsP(n)
Q(n) == FieldP(P(n).field).q
E(n) == [q |-> Q(n), a |-> P(n).a, d |-> P(n).d]
B(n) == [x |-> P(n).bx, y |-> P(n).by]
Sq(x) == Mul(x, x)
AbsDiff(a, b) == IF Lt(a, b) THEN Sub(b, a) ELSE Sub(a, b)
ParamsOk ==
  LET n == name  l == P(n).order  c == EdCofactor(n)  qq == Q(n) IN
  /\ EOnCurve(E(n), B(n)) /\ B(n) # EId
  /\ EMulNat(E(n), l, B(n)) = EId
  /\ PowMod(Two, Pred(l), l) = One /\ PowMod(FromInt(3), Pred(l), l) = One
  /\ P(n).a # P(n).d
  /\ Le(Sq(AbsDiff(Mul(c, l), Succ(qq))), Mul(FromInt(4), qq))
  /\ Lt(Mul(FromInt(16), qq), Sq(l))                  \* l > 4 sqrt q
  /\ ~FIsSquare(qq, P(n).d)
=============================================================================
