------------------------------- MODULE MCEcdsa -------------------------------
(* C12, ECDSA: the signature machine on a tiny curve, exhaustively.            *)
(*                                                                             *)
(* Curve  y^2 = x^3 + A x + B  over F_P of prime order N (cfg constants), one  *)
(* byte per scalar / coordinate (nb = fb = 1), NBits = bit length of N, so     *)
(* the byte-level operators of SigSpec (EcSigClass, HashToInt, EcAccepts,      *)
(* EcRecovers) are the ones that judge the real code.                          *)
(*                                                                             *)
(* State: key (private scalar of the current key pair, 0 = none), issued       *)
(* (history: the signatures handed out under the current key), reply (the      *)
(* pending reply of the last call; calls alternate with Ack so that a reply    *)
(* never multiplies the search).  One action per public entry point:           *)
(*   GenerateKey, Sign / SignForRecover (nonce = any k in 1..N-1, the retry    *)
(*   loop of the code is "this k is not taken"), Verify, RecoverFrom,          *)
(*   Signature.SetBytes / Bytes.                                               *)
(* Verify / RecoverFrom do not read the state: on the fresh machine they are   *)
(* explored for ALL keys, digests and byte pairs (r, s) in 0..N+4 (so zero,    *)
(* N, N+1.. are covered) and wrong sizes; once signatures are issued, for the  *)
(* issued triples and every one-component mutation of them.                    *)
(*                                                                             *)
(* Properties: the acceptance set of Verify is exactly the set of signatures   *)
(* some nonce produces under the key with the discrete logarithm of Q          *)
(* (Exact - an independent characterisation: no inverse of s, no u1/u2);       *)
(* every issued signature verifies (Complete, HonestVerifies); malformed       *)
(* signatures are errors (RejectsMalformed); recovery returns the signer key   *)
(* (RecoverHonest) and whatever it returns verifies (RecoverSound); Bytes /    *)
(* SetBytes round trip with the full length consumed (Codec); read-only calls  *)
(* leave the machine unchanged (ReadOnly).                                     *)
EXTENDS SigSpec, TLC, FiniteSets

CONSTANTS P, A, B, N, NBits,
          RangeChecks,   \* TRUE: the specified parser; FALSE (negative self-test): no range checks on r, s
          MaxIssued

Fld == [q |-> FromInt(P), T |-> <<>>]
Cv == [F |-> Fld, k |-> 0, a |-> FromInt(A), b |-> FromInt(B)]
El == {FromInt(x) : x \in 0..(P-1)}
CurvePts == {pt \in {Inf} \cup {Pt(x, y) : x \in El, y \in El} : WOnCurve(Cv, pt)}
AffPts == CurvePts \ {Inf}
Gen == CHOOSE g \in AffPts : TRUE
W == [C |-> Cv, G |-> Gen, n |-> FromInt(N), p |-> FromInt(P), nb |-> 1, nbits |-> NBits, fb |-> 1]

ASSUME Cardinality(CurvePts) = N            \* prime order: every affine point generates

PubTab == [d \in 1..(N-1) |-> WMulNat(Cv, FromInt(d), Gen)] \o <<>>
Pub(d) == PubTab[d]
DLog(Q) == CHOOSE d \in 1..(N-1) : Pub(d) = Q

Digests == {<<>>, <<0>>, <<1>>, <<5>>, <<N - 1>>, <<N>>, <<15>>, <<16>>, <<37>>, <<255>>, <<9, 200>>}
SignDigests == {<<>>, <<5>>, <<37>>}
ByteVals == 0..(N + 4)
SigCands == {<<r, s>> : r \in ByteVals, s \in ByteVals} \cup {<<>>, <<3>>, <<3, 4, 5>>}

VARIABLES key, issued, reply
vars == <<key, issued, reply>>
None == [op |-> "none"]
Idle == reply = None

\* ---- what the machine decides (SigSpec) ------------------------------------
Class(sg) == IF RangeChecks THEN EcSigClass(W, sg) ELSE IF Len(sg) # 2 THEN "size" ELSE "ok"
Decide(Q, dg, sg) ==
  IF Class(sg) # "ok" THEN [ok |-> FALSE, err |-> TRUE]
  ELSE [ok |-> EcAccepts(W, Q, HashToInt(W, dg), EcR(W, sg), EcS(W, sg)), err |-> FALSE]

\* the signature the code computes with nonce k (SEC 1 4.1.3), or "retry"
SignWith(d, dg, k) ==
  LET Pk == PubTab[k]
      r == Rem(Pk.x, W.n)
      s == MulMod(InvMod(FromInt(k), W.n), Add(HashToInt(W, dg), Mul(FromInt(d), r)), W.n)
  IN IF r = Zero \/ s = Zero THEN [retry |-> TRUE]
     ELSE [retry |-> FALSE, sig |-> ToBytesBE(r, 1) \o ToBytesBE(s, 1), v |-> EcRecId(W, Pk)]

RecoverReply(dg, v, sg) ==
  LET r == EcR(W, sg)  s == EcS(W, sg)  m == HashToInt(W, dg)
      cls == EcRecClass(W, v, r, s)
      sol == {Q \in CurvePts : EcRecovers(W, m, v, r, s, Q)}
  IN IF cls # "ok" \/ sol = {} THEN [op |-> "recover", dg |-> dg, v |-> v, sig |-> sg, err |-> TRUE, cls |-> cls]
     ELSE [op |-> "recover", dg |-> dg, v |-> v, sig |-> sg, err |-> FALSE, cls |-> cls, Q |-> CHOOSE Q \in sol : TRUE, nsol |-> Cardinality(sol)]

\* ---- actions ---------------------------------------------------------------
GenerateKey(d) ==
  /\ Idle /\ key' = d /\ issued' = {}
  /\ reply' = [op |-> "gen", Q |-> Pub(d)]

Sign(dg, k) ==
  /\ Idle /\ key # 0 /\ Cardinality(issued) < MaxIssued
  /\ LET t == SignWith(key, dg, k)
     IN /\ ~t.retry
        /\ issued' = issued \cup {[dg |-> dg, sig |-> t.sig, v |-> t.v]}
        /\ reply' = [op |-> "sign", dg |-> dg, sig |-> t.sig, v |-> t.v]
  /\ UNCHANGED key

VerifyReply(Q, dg, sg) == [op |-> "verify", Q |-> Q, dg |-> dg, sig |-> sg] @@ Decide(Q, dg, sg)
Verify(Q, dg, sg) == Idle /\ reply' = VerifyReply(Q, dg, sg) /\ UNCHANGED <<key, issued>>

\* exploring Verify for all inputs goes through a Focus step that fixes the key point: one state per key, so that TLC's
\* workers share the 40 000 evaluations of the equation (the successors of ONE state are computed by one worker)
Focus(Q) == key = 0 /\ reply' = [op |-> "focus", Q |-> Q] /\ UNCHANGED <<key, issued>>
VerifyFocused == reply.op = "focus" /\ \E dg \in Digests, sg \in SigCands : reply' = VerifyReply(reply.Q, dg, sg) /\ UNCHANGED <<key, issued>>
VerifyAny == \E Q \in AffPts : Focus(Q)
VerifyIssuedOrMutated ==
  \E t \in issued :
     \/ Verify(Pub(key), t.dg, t.sig)
     \/ \E Q \in AffPts : Verify(Q, t.dg, t.sig)
     \/ \E dg \in Digests : Verify(Pub(key), dg, t.sig)
     \/ \E sg \in SigCands : Verify(Pub(key), t.dg, sg)

Recover(dg, v, sg) == Idle /\ reply' = RecoverReply(dg, v, sg) /\ UNCHANGED <<key, issued>>
RecoverAny == key = 0 /\ \E dg \in {<<>>, <<5>>, <<37>>}, v \in 0..3, sg \in SigCands : Len(sg) = 2 /\ Recover(dg, v, sg)
RecoverIssued == \E t \in issued : \/ Recover(t.dg, t.v, t.sig)
                                   \/ \E v \in 0..3 : Recover(t.dg, v, t.sig)

SigSetBytes(buf) ==
  /\ Idle /\ UNCHANGED <<key, issued>>
  /\ LET cls == Class(buf)
     IN reply' = IF cls # "ok" THEN [op |-> "sigset", buf |-> buf, err |-> TRUE, n |-> 0]
                 ELSE [op |-> "sigset", buf |-> buf, err |-> FALSE, n |-> 2,
                       back |-> ToBytesBE(EcR(W, buf), 1) \o ToBytesBE(EcS(W, buf), 1)]   \* Signature.Bytes() of the parsed object

Ack == ~Idle /\ reply' = None /\ UNCHANGED <<key, issued>>

Init == key = 0 /\ issued = {} /\ reply = None
Calls == \/ \E d \in 1..(N-1) : GenerateKey(d)
         \/ \E dg \in SignDigests, k \in 1..(N-1) : Sign(dg, k)
         \/ VerifyAny \/ VerifyIssuedOrMutated
         \/ RecoverAny \/ RecoverIssued
         \/ (key = 0 /\ \E buf \in SigCands : SigSetBytes(buf))
Next == (Idle /\ Calls) \/ VerifyFocused \/ Ack
Spec == Init /\ [][Next]_vars

\* ---- properties ------------------------------------------------------------
\* every signature an honest signer with the private key of Q can produce for the digest
HonestSigs(Q, dg) ==
  LET d == DLog(Q)
  IN {SignWith(d, dg, k).sig : k \in {j \in 1..(N-1) : ~SignWith(d, dg, j).retry}}

TypeOK == key \in 0..(N-1) /\ Cardinality(issued) <= MaxIssued
Exact == reply.op = "verify" => (reply.ok <=> reply.sig \in HonestSigs(reply.Q, reply.dg))
RejectsMalformed == reply.op = "verify" /\ EcSigClass(W, reply.sig) # "ok" => ~reply.ok /\ reply.err
Complete == reply.op = "sign" => Decide(Pub(key), reply.dg, reply.sig) = [ok |-> TRUE, err |-> FALSE]
HonestVerifies ==
  reply.op = "verify" /\ key # 0 /\ reply.Q = Pub(key) /\ (\E t \in issued : t.dg = reply.dg /\ t.sig = reply.sig)
     => reply.ok /\ ~reply.err
RecoverHonest ==
  reply.op = "recover" /\ (\E t \in issued : t.dg = reply.dg /\ t.sig = reply.sig /\ t.v = reply.v)
     => ~reply.err /\ reply.Q = Pub(key) /\ reply.nsol = 1
RecoverSound ==
  reply.op = "recover" /\ ~reply.err => reply.nsol = 1 /\ Decide(reply.Q, reply.dg, reply.sig).ok
\* recovery fails only for a reason: out-of-range, abscissa beyond the field, no point with that abscissa
RecoverTotal == reply.op = "recover" /\ reply.err => reply.cls # "ok"
Codec == reply.op = "sigset" =>
           /\ (reply.err <=> EcSigClass(W, reply.buf) # "ok")
           /\ (~reply.err => reply.n = Len(reply.buf) /\ reply.back = reply.buf)
ReadOnly == [][reply'.op \in {"verify", "recover", "sigset", "none", "focus"} => UNCHANGED <<key, issued>>]_vars
=============================================================================
