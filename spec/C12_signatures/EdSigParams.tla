----------------------------- MODULE EdSigParams -----------------------------
(* Cofactors of the twisted Edwards companion curves, transcribed from the     *)
(* curve packages' documented parameters (curve.go: Cofactor) and frozen here; *)
(* validated by EdParamsCheck (Hasse interval).                                *)
EXTENDS BigNat
EdCofactor(name) == IF name \in {"bls12-377", "bls12-381-bandersnatch"} THEN FromInt(4) ELSE FromInt(8)
=============================================================================
