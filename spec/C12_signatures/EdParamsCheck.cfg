SPECIFICATION CSpec
INVARIANTS ParamsOk
CHECK_DEADLOCK FALSE
