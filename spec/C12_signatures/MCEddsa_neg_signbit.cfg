SPECIFICATION Spec
CONSTANTS
  P = 13
  A = 1
  Dd = 7
  L = 5
  Cof = 4
  CanonSign = FALSE
  SZeroGuard = TRUE
  MaxIssued = 1
INVARIANTS Exact
PROPERTIES ReadOnly
CHECK_DEADLOCK FALSE
