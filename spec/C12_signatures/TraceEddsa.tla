------------------------------ MODULE TraceEddsa ------------------------------
(* Trace validation for C12, EdDSA: replays the ndjson log of the real          *)
(* ecc/*/twistededwards/eddsa (and bandersnatch/eddsa) packages written by      *)
(* harness/c12.go and judges every reply with the operators of SigSpec - the    *)
(* ones model-checked in MCEddsa - over the frozen curve parameters of          *)
(* EdwardsParams (header field "curve").                                        *)
(*                                                                              *)
(* Machine state (histories): keys - the key pairs generated or deserialised so *)
(* far (id -> private scalar, public point, encoding); issued - the signatures  *)
(* handed out by Sign.  One event = one public call:                            *)
(*   GenerateKey   A = [scalar]B for the scalar inside PrivateKey.Bytes(), the  *)
(*                 public part of the encoding is the encoding of A             *)
(*   Public        the point of the registered key                              *)
(*   Sign          the returned bytes are a well-formed signature that satisfies*)
(*                 the verification equation for the digest of R || A || M      *)
(*   Verify        ok  <=>  parse (size, 0 < y < q, 0 < S < l, y on the curve,  *)
(*                 canonical sign) /\ A on the curve /\ [c][S]B = [c](R + [H]A) *)
(*                 - TLC decides it independently; a signature issued by Sign   *)
(*                 must verify (history)                                        *)
(*   SigSetBytes, PubSetBytes, PubBytes, PrivSetBytes   codecs with consumed    *)
(*                 lengths                                                      *)
(* The hash is observed at its hash.Hash interface through a recording wrapper  *)
(* (hops): the input the code fed must be  R.x || R.y || A.x || A.y || M        *)
(* (big endian, canonical) with R a point denoted by the first half of the      *)
(* signature ("fed"); SHA-256 digests are recomputed (HashOps), MiMC digests    *)
(* are taken as the value of an uninterpreted function on that input (MiMC      *)
(* itself is C14).  When the hash refuses a write (MiMC: not field elements)    *)
(* the call must fail and must have written a prefix of the prescribed input.   *)
(*                                                                              *)
(* Reasons: panic, mutated-arg, accepted-invalid/<class>, rejected-valid,       *)
(* honest-rejected, spurious-error, swallowed-error/<why>, swallowed-hash-error,*)
(* fed, sha256, sig-size, sig-malformed/<class>, sig-invalid, pub-*, priv-*,    *)
(* accepted-malformed/<class>, consumed-length, roundtrip, decoded-point.       *)
(* Not judged (the property is silent): error texts; the length reported with   *)
(* an error; key encodings with y >= q or the sign bit on x = 0 (the property   *)
(* asks keys to round trip, canonical encodings are demanded of signatures);    *)
(* exceptional pairs of an incomplete addition law (EdRegular).                 *)
EXTENDS TraceKernel, SigSpec, FieldParams, EdwardsParams, EdSigParams, HashOps

EP == EdwardsP(Hdr.curve)
FPar == FieldP(EP.field)
q == FPar.q
nb == Hdr.nb
D == [E |-> [q |-> q, a |-> EP.a, d |-> EP.d], B |-> [x |-> EP.bx, y |-> EP.by], l |-> EP.order,
      c |-> EdCofactor(Hdr.curve), nb |-> nb]
Rinv == InvMod(Rem(Shl(One, FPar.w * FPar.n), q), q)
V(raw) == MulMod(raw, Rinv, q)
CC(raw) == IsNat(raw) /\ Lt(raw, q)
CanonPt(a) == CC(a.X) /\ CC(a.Y)
PtOf(a) == [x |-> V(a.X), y |-> V(a.Y)]

VARIABLES keys, issued
mvars == <<keys, issued>>

IsErr(e) == Has(e, "err")
RECURSIVE Concat(_)
Concat(s) == IF s = <<>> THEN <<>> ELSE Head(s) \o Concat(Tail(s))
NonEmpty(s) == SelectSeq(s, LAMBDA x : x # <<>>)
RangeOf(s) == {s[k] : k \in 1..Len(s)}
Ops(e, kind) == IF Has(e, "hops") THEN SelectSeq(e.hops, LAMBDA h : h.k = kind) ELSE <<>>
Sums(e) == Ops(e, "S")
HashRefused(e) == \E w \in RangeOf(Ops(e, "W")) : ~w.ok
HashPanicked(e) == Ops(e, "X") # <<>>
Attempted(e) == LET w == Ops(e, "W") IN [k \in 1..Len(w) |-> w[k].b] \o <<>>

\* ---- the prescribed hash input ------------------------------------------------
RFrom(cat) == [x |-> FromBytesBE(Slice(cat, 1, nb)), y |-> FromBytesBE(Slice(cat, nb + 1, 2 * nb))]
FeedOf(R, A, msg) == <<ToBytesBE(R.x, nb), ToBytesBE(R.y, nb), ToBytesBE(A.x, nb), ToBytesBE(A.y, nb), msg>>
\* renc: the encoding R must be denoted by, or <<>> when the call returned none (then R only has to be a curve point)
ROk(renc, R) == IF renc = <<>> THEN Lt(R.x, q) /\ Lt(R.y, q) /\ EOnCurve(D.E, R) ELSE EdDenotes(D, renc, R)
GoodFeed(pre, hk, renc, A, msg) ==
  LET cat == Concat(pre) IN
  /\ Len(cat) >= 2 * nb
  /\ LET R == RFrom(cat)
         F == FeedOf(R, A, msg)
     IN /\ ROk(renc, R)
        /\ IF hk = "mimc" THEN NonEmpty(pre) = NonEmpty(F) ELSE cat = Concat(F)
PrefixFeed(att, hk, renc, A, msg) ==
  LET cat == Concat(att) IN
  /\ Len(cat) >= 2 * nb
  /\ LET R == RFrom(cat)
         F == FeedOf(R, A, msg)
     IN /\ ROk(renc, R)
        /\ IF hk = "mimc" THEN IsPrefix(NonEmpty(att), NonEmpty(F)) ELSE IsPrefix(cat, Concat(F))

HashStage(e, renc, A) ==
  IF HashPanicked(e) THEN [st |-> "hash-panic"]
  ELSE IF HashRefused(e)
       THEN (IF PrefixFeed(Attempted(e), e.hk, renc, A, e.msg) THEN [st |-> "refused"] ELSE [st |-> "fed"])
  ELSE LET ss == Sums(e)
           good == {i \in 1..Len(ss) : GoodFeed(ss[i].pre, e.hk, renc, A, e.msg)}
       IN IF good = {} THEN [st |-> "fed"]
          ELSE LET s == ss[CHOOSE i \in good : TRUE]
                   cat == Concat(s.pre)
               IN IF e.hk = "sha256" /\ s.d # SHA256(cat) THEN [st |-> "sha256"]
                  ELSE [st |-> "ok", R |-> RFrom(cat), h |-> FromBytesBE(s.d)]

\* ---- Verify --------------------------------------------------------------------
Untouched(e) == IF e.Aafter = e.A /\ e.sigafter = e.sig /\ e.msgafter = e.msg THEN {} ELSE {"mutated-arg"}
Refuses(e, cls) == IF e.ok THEN {"accepted-invalid/" \o cls} ELSE {}
WasIssued(e, A) == [A |-> A, msg |-> e.msg, hk |-> e.hk, sig |-> e.sig] \in issued

JudgeVerify(e) ==
  IF ~CanonPt(e.A) THEN {"badinput"}
  ELSE IF Panicked(e) THEN (IF HashPanicked(e) THEN {} ELSE {"panic"})
  ELSE Untouched(e) \cup
    (LET A == PtOf(e.A)
         cls == IF e.hk = "nil" THEN "nohash"
                ELSE IF ~EOnCurve(D.E, A) THEN "key-offcurve" ELSE EdSigClass(D, e.sig)
     IN IF cls # "ok" THEN Refuses(e, cls)
        ELSE LET hs == HashStage(e, Slice(e.sig, 1, nb), A) IN
             IF hs.st = "refused" THEN Refuses(e, "hash-refused")
             ELSE IF hs.st # "ok" THEN {hs.st}
             ELSE LET lhs == EdLhs(D, EdSigS(D, e.sig))
                      rhs == EdRhs(D, hs.R, hs.h, A)
                  IN
                  IF ~(EOnCurve(D.E, lhs) /\ EOnCurve(D.E, rhs)) THEN {}      \* exceptional pair of an incomplete law: not judged
                  ELSE LET want == (lhs = rhs) IN
                       (IF e.ok = want THEN {} ELSE IF want THEN {"rejected-valid"} ELSE {"accepted-invalid/equation"})
                       \cup (IF want /\ IsErr(e) THEN {"spurious-error"} ELSE {})
                       \cup (IF WasIssued(e, A) /\ ~e.ok THEN {"honest-rejected"} ELSE {}))

\* ---- Sign ------------------------------------------------------------------------
JudgeSign(e) ==
  IF e.k \notin DOMAIN keys THEN {"badinput"}
  ELSE IF Panicked(e) THEN (IF HashPanicked(e) THEN {} ELSE {"panic"})
  ELSE LET K == keys[e.k] IN
    (IF e.msgafter = e.msg /\ e.privafter = K.priv THEN {} ELSE {"mutated-arg"}) \cup
    (IF e.hk = "nil" THEN (IF IsErr(e) THEN {} ELSE {"swallowed-error/nohash"})
     ELSE IF IsErr(e)
          THEN (IF HashRefused(e) /\ PrefixFeed(Attempted(e), e.hk, <<>>, K.A, e.msg) THEN {} ELSE {"spurious-error"})
     ELSE IF HashRefused(e) THEN {"swallowed-hash-error"}
     ELSE IF Len(e.sig) # 2 * nb THEN {"sig-size"}
     ELSE LET cls == EdSigClass(D, e.sig) IN
          IF cls # "ok" THEN {"sig-malformed/" \o cls}
          ELSE LET hs == HashStage(e, Slice(e.sig, 1, nb), K.A) IN
               IF hs.st # "ok" THEN {hs.st}
               ELSE IF EdEquation(D, hs.R, EdSigS(D, e.sig), hs.h, K.A) THEN {} ELSE {"sig-invalid"})
SignOk(e) == ~Panicked(e) /\ ~IsErr(e) /\ e.k \in DOMAIN keys /\ Has(e, "sig")

\* ---- keys ------------------------------------------------------------------------
PrivScalar(b) == FromBytesBE(Slice(b, nb + 1, 2 * nb))
\* a private-key encoding pub || scalar || randSrc and the point the object holds
KeyPairClass(priv, Araw) ==
  IF Len(priv) # 2 * nb + 32 THEN {"priv-size"}
  ELSE IF ~CanonPt(Araw) THEN {"pub-noncanonical"}
  ELSE LET A == PtOf(Araw) IN
       IF ~EOnCurve(D.E, A) THEN {"pub-offcurve"}
       ELSE IF A # EMulNat(D.E, PrivScalar(priv), D.B) THEN {"pub-not-scalar-times-base"}
       ELSE IF Slice(priv, 1, nb) # EdEncode(D, A) THEN {"pub-encoding"} ELSE {}

JudgeGen(e) ==
  IF Has(e, "rdfail") THEN (IF Panicked(e) THEN {"panic"} ELSE IF IsErr(e) THEN {} ELSE {"swallowed-error/reader"})
  ELSE IF Panicked(e) THEN {"panic"}
  ELSE IF IsErr(e) THEN {"spurious-error"}
  ELSE KeyPairClass(e.priv, e.A)
KeyRec(priv, Araw) == [a |-> PrivScalar(priv), A |-> PtOf(Araw), Araw |-> Araw, priv |-> priv]

JudgePublic(e) ==
  IF e.k \notin DOMAIN keys THEN {"badinput"}
  ELSE IF Panicked(e) THEN {"panic"}
  ELSE IF CanonPt(e.A) /\ PtOf(e.A) = keys[e.k].A THEN {} ELSE {"public-point"}

JudgePrivSet(e) ==
  IF Panicked(e) THEN {"panic"}
  ELSE (IF e.bufafter = e.buf THEN {} ELSE {"mutated-arg"}) \cup
    (IF Len(e.buf) < 2 * nb + 32 THEN (IF IsErr(e) THEN {} ELSE {"swallowed-error/short"})
     ELSE LET cls == EdPubClass(D, e.buf) IN
          IF cls = "offcurve" THEN (IF IsErr(e) THEN {} ELSE {"accepted-malformed/offcurve"})
          ELSE IF cls # "ok" THEN {}
          ELSE IF IsErr(e) THEN {"spurious-error"}
          ELSE (IF e.n = 2 * nb + 32 THEN {} ELSE {"consumed-length"})
               \cup (IF e.back = Slice(e.buf, 1, 2 * nb + 32) THEN {} ELSE {"roundtrip"})
               \cup (IF CanonPt(e.A) /\ EdDenotes(D, e.buf, PtOf(e.A)) THEN {} ELSE {"decoded-point"}))
\* a deserialised key pair is registered when the code accepted it and it is a key pair (A = [scalar]B)
PrivSetRegisters(e) == ~Panicked(e) /\ ~IsErr(e) /\ Has(e, "back") /\ KeyPairClass(e.back, e.A) = {}

JudgePubSet(e) ==
  IF Panicked(e) THEN {"panic"}
  ELSE (IF e.bufafter = e.buf THEN {} ELSE {"mutated-arg"}) \cup
    (LET cls == EdPubClass(D, e.buf) IN
     IF cls \in {"short", "offcurve"} THEN (IF IsErr(e) THEN {} ELSE {"accepted-malformed/" \o cls})
     ELSE IF IsErr(e) THEN (IF cls = "ok" THEN {"spurious-error"} ELSE {})
     ELSE (IF e.n = nb THEN {} ELSE {"consumed-length"})
          \cup (IF CanonPt(e.A) /\ EdDenotes(D, e.buf, PtOf(e.A)) THEN {} ELSE {"decoded-point"})
          \cup (IF cls = "ok" /\ e.back # Slice(e.buf, 1, nb) THEN {"roundtrip"} ELSE {}))

JudgePubBytes(e) ==
  IF Panicked(e) THEN {"panic"}
  ELSE IF ~CanonPt(e.A) \/ ~EOnCurve(D.E, PtOf(e.A)) THEN {}
  ELSE (IF e.out = EdEncode(D, PtOf(e.A)) THEN {} ELSE {"encoding"})
       \cup (IF e.Aafter = e.A THEN {} ELSE {"mutated-arg"})

JudgeSigSet(e) ==
  IF Panicked(e) THEN {"panic"}
  ELSE (IF e.bufafter = e.buf THEN {} ELSE {"mutated-arg"}) \cup
    (LET cls == EdSigClass(D, e.buf) IN
     IF cls # "ok" THEN (IF IsErr(e) THEN {} ELSE {"accepted-malformed/" \o cls})
     ELSE IF IsErr(e) THEN {"spurious-error"}
     ELSE (IF e.n = 2 * nb THEN {} ELSE {"consumed-length"})
          \cup (IF CanonPt(e.R) /\ EdDenotes(D, e.buf, PtOf(e.R)) /\ e.S = Slice(e.buf, nb + 1, 2 * nb) THEN {} ELSE {"decoded-point"})
          \cup (IF e.back = e.buf THEN {} ELSE {"roundtrip"}))

Judge(e) ==
  CASE e.op = "GenerateKey" -> JudgeGen(e)
    [] e.op = "Public" -> JudgePublic(e)
    [] e.op = "Sign" -> JudgeSign(e)
    [] e.op = "Verify" -> JudgeVerify(e)
    [] e.op = "SigSetBytes" -> JudgeSigSet(e)
    [] e.op = "PubSetBytes" -> JudgePubSet(e)
    [] e.op = "PubBytes" -> JudgePubBytes(e)
    [] e.op = "PrivSetBytes" -> JudgePrivSet(e)
    [] OTHER -> {"unknown-op"}

\* successor state per the specification: a returned key pair is registered with the public point the
\* specification assigns to its scalar (a wrong point is recorded at the event, later events go on from the right one)
SpecKey(priv, Araw) == [a |-> PrivScalar(priv), A |-> EMulNat(D.E, PrivScalar(priv), D.B), Araw |-> Araw, priv |-> priv]
NextKeys(e) ==
  IF e.op = "GenerateKey" /\ ~Has(e, "rdfail") /\ ~Panicked(e) /\ ~IsErr(e) /\ Len(e.priv) = 2 * nb + 32
  THEN (e.k :> SpecKey(e.priv, e.A)) @@ keys
  ELSE IF e.op = "PrivSetBytes" /\ PrivSetRegisters(e) THEN (e.k :> KeyRec(e.back, e.A)) @@ keys
  ELSE keys
NextIssued(e) ==
  IF e.op = "Sign" /\ SignOk(e)
  THEN issued \cup {[A |-> keys[e.k].A, msg |-> e.msg, hk |-> e.hk, sig |-> e.sig]}
  ELSE issued

Init == KInit /\ keys = <<>> /\ issued = {}
Step == HasNext /\ Advance(Judge(Ev)) /\ keys' = NextKeys(Ev) /\ issued' = NextIssued(Ev)
Next == Step \/ (Finish /\ UNCHANGED mvars)
Spec == Init /\ [][Next]_<<l, bad, keys, issued>>
=============================================================================
