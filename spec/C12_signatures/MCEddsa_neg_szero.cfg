SPECIFICATION Spec
CONSTANTS
  P = 13
  A = 1
  Dd = 7
  L = 5
  Cof = 4
  CanonSign = TRUE
  SZeroGuard = FALSE
  MaxIssued = 1
INVARIANTS Complete
PROPERTIES ReadOnly
CHECK_DEADLOCK FALSE
