#!/usr/bin/env python3
"""Rewrites the generated tables of DESIGN.md (between <!-- BEGIN x --> / <!-- END x --> markers) from
known-findings.jsonl and seeded/*/meta.json."""
import glob, json, os, re
V = os.path.join(os.path.dirname(os.path.abspath(__file__)), "..")
L = [json.loads(l) for l in open(os.path.join(V, "known-findings.jsonl")) if l.strip()]


def cell(s, n=400):
    s = " ".join(str(s).split()).replace("|", "/")
    return s if len(s) <= n else s[:n - 3] + "..."


fixed = ["| id | property | commit | defect (as observed before the repair) |", "|---|---|---|---|"]
for x in L:
    if x["status"] == "fixed":
        w = re.sub(r"^fixed: property=\S+ \S+ ", "", x["what"])
        fixed.append("| %s | %s | %s | %s |" % (x["id"], x["property"], x.get("commit", ""), cell(w)))
opened = ["| id | property | finding (exact class in known-findings.jsonl `match`) |", "|---|---|---|"]
for x in L:
    if x["status"] != "fixed":
        opened.append("| %s | %s | %s |" % (x["id"], x["property"], cell(x["what"], 600)))
seeded = ["| seeded change | what was changed | what it needs | result of the registered check on the changed tree | strengthening |", "|---|---|---|---|---|"]
for d in sorted(glob.glob(os.path.join(V, "seeded", "*", "meta.json"))):
    m = json.load(open(d))
    c = m.get("confirmed", {})
    seeded.append("| %s | %s | %s | %s | %s |" % (os.path.basename(os.path.dirname(d)), cell(m.get("summary", ""), 260), cell(m.get("needs", ""), 260),
                                                 cell(c.get("result", ""), 300), cell(c.get("strengthened", ""), 300)))
p = os.path.join(V, "DESIGN.md")
s = open(p).read()
for name, rows in (("fixed-table", fixed), ("open-table", opened), ("seeded-table", seeded)):
    a, b = "<!-- BEGIN %s -->" % name, "<!-- END %s -->" % name
    i, j = s.index(a), s.index(b)
    s = s[:i + len(a)] + "\n" + "\n".join(rows) + "\n" + s[j:]
open(p, "w").write(s)
print("DESIGN.md tables: %d fixed, %d open, %d seeded" % (len(fixed) - 2, len(opened) - 2, len(seeded) - 2))
