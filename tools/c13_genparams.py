#!/usr/bin/env python3
"""Prints spec/params/C13Params.tla and spec/params/C13Vectors.tla (C13, hash to curve).

Run ONCE on the pinned tree; the output is committed and frozen (checks never regenerate it: a changed
constant in the tree must disagree with the specification, not move it). Sources are the DOCUMENTED
constants only:
  * internal/generator/config/<curve>.go  HashE1 / HashE2: the map (SvdW / SSWU), Z, the isogenous curve
    (A', B') and the isogeny (for BLS12-381 these are the coefficients of RFC 9380 appendix E.2 / E.3);
  * the hand-written bls24-315 / bls24-317 G2 maps document Z in hash_to_g2.go (z = 1 + v);
  * effective cofactors h_eff of BLS12-381 from RFC 9380 section 8.8;
  * ecc/bls12-381/hash_vectors_test.go: the published test vectors of RFC 9380 appendix J.9 / J.10.
The SvdW constants c1..c4 are NOT copied: the specification derives them from Z by the RFC formulas.
spec/C13_hash2curve/MCH2CParams validates everything with TLC (conditions on Z of RFC 9380 appendix H,
vectors reproduced by the specification alone).

usage: c13_genparams.py params|vectors > file"""
import re
import sys

REPO = "/repo"
CFG = REPO + "/internal/generator/config/"


def digits(x):
    assert x >= 0
    out = []
    while x:
        out.append(x & 0x7FFF)
        x >>= 15
    return "<<" + ", ".join(map(str, out)) + ">>"


def balanced(s, i):
    """s[i] == '{': returns index after the matching '}'."""
    d = 0
    j = i
    while True:
        if s[j] == "{":
            d += 1
        elif s[j] == "}":
            d -= 1
            if d == 0:
                return j + 1
        j += 1


def strip_comments(s):
    return re.sub(r"//[^\n]*", "", s)


def block(s, key):
    m = re.search(key + r"\s*:\s*[&\w\[\]\.]*\{", s)
    if not m:
        return None
    st = m.end() - 1
    return s[st:balanced(s, st)]


def strs(b):
    return re.findall(r'"([^"]*)"', b)


def groups(b):
    """b = '{ {..}, {..} }' -> list of inner blocks"""
    out = []
    i = 1
    while i < len(b) - 1:
        if b[i] == "{":
            j = balanced(b, i)
            out.append(b[i:j])
            i = j
        else:
            i += 1
    return out


def num(s, p):
    return int(s, 0) % p


MODULI = {}


def curve_cfg(name):
    src = strip_comments(open(CFG + name + ".go").read())
    p = int(re.search(r'FpModulus:\s*"(\d+)"', src).group(1))
    return src, p


def flat(vals):
    return "<<" + ", ".join(digits(v) for v in vals) + ">>"


def suite_sswu(src, p, key, with_iso):
    b = block(src, key)
    A = [num(x, p) for x in strs(block(b, "A"))]
    B = [num(x, p) for x in strs(block(b, "B"))]
    Z = [int(x) % p for x in re.findall(r"-?\d+", block(b, "Z")[1:-1])]
    rec = '[map |-> "sswu", Z |-> %s, A |-> %s, B |-> %s' % (flat(Z), flat(A), flat(B))
    if with_iso:
        iso = block(b, "Isogeny")
        parts = []
        for mp in ("XMap", "YMap"):
            mb = block(iso, mp)
            for nd in ("Num", "Den"):
                coefs = [[num(x, p) for x in strs(g)] for g in groups(block(mb, nd))]
                parts.append("<<" + ",\n        ".join(flat(c) for c in coefs) + ">>")
        rec += ",\n      hasiso |-> TRUE,\n      xn |-> %s,\n      xd |-> %s,\n      yn |-> %s,\n      yd |-> %s" % tuple(parts)
    else:
        rec += ", hasiso |-> FALSE"
    return rec


def suite_svdw(Z, p):
    return '[map |-> "svdw", Z |-> %s, hasiso |-> FALSE' % flat([z % p for z in Z])


def params():
    print("------------------------------ MODULE C13Params ------------------------------")
    print("(* Hash-to-curve suites of the 17 groups, frozen (generated once by tools/c13_genparams.py from the    *)")
    print("(* documented constants: generator configuration, RFC 9380 appendix E.2/E.3 and section 8.8).          *)")
    print("(* Field elements are FLAT sequences of their prime-field coordinates (tower order, depth first).      *)")
    print("(*   map     \"svdw\" (RFC 9380 6.6.1, directly on the curve) | \"sswu\" (6.6.2 on the isogenous curve y^2 = x^3 + A x + B) *)")
    print("(*   Z       the constant of the map                                                                   *)")
    print("(*   hasiso  the isogeny to the target curve is specified here (xn/xd, y*yn/yd; coefficients by       *)")
    print("(*           increasing degree, denominators monic with the leading 1 omitted)                         *)")
    print("(*   exact   the whole pipeline (map, isogeny, cofactor clearing [heff]P) is specified: replies are    *)")
    print("(*           compared by value; otherwise map value + validity (on curve, in subgroup, deterministic)  *)")
    print("(*   heff    effective cofactor as [neg, mag]                                                          *)")
    print("EXTENDS BigNat")
    print("")
    print("H2CSuite(name, g) ==")
    print("  CASE")
    first = True

    def emit(name, g, rec, exact, heff):
        nonlocal first
        sep = "     " if first else "  [] "
        first = False
        neg = "TRUE" if heff is not None and heff < 0 else "FALSE"
        mag = digits(abs(heff)) if heff is not None else "<<>>"
        print('%sname = "%s" /\\ g = "%s" ->\n     %s,\n      exact |-> %s, heff |-> [neg |-> %s, mag |-> %s]]' %
              (sep, name, g, rec, "TRUE" if exact else "FALSE", neg, mag))

    # --- SvdW suites: Z from the configuration
    for name in ("bn254", "secp256k1", "stark-curve", "grumpkin"):
        src, p = curve_cfg(name)
        b = block(src, "HashE1")
        z = [int(x, 0) for x in strs(block(b, "z"))]
        emit(name, "G1", suite_svdw(z, p), True, 1)          # CofactorCleaning: false
    src, p = curve_cfg("bn254")
    z = [int(x, 0) for x in strs(block(block(src, "HashE2"), "z"))]
    emit("bn254", "G2", suite_svdw(z, p), False, None)
    # hand-written E4 maps: z.B0.A0 = 1, z.B1.A0 = 1  (ecc/bls24-31x/hash_to_g2.go)
    for name in ("bls24-315", "bls24-317"):
        src, p = curve_cfg(name)
        emit(name, "G2", suite_svdw([1, 0, 1, 0], p), False, None)
    # --- SSWU suites
    for name in ("bls12-377", "bls12-381", "bls24-315", "bls24-317", "bw6-633", "bw6-761"):
        src, p = curve_cfg(name)
        for g, key in (("G1", "HashE1"), ("G2", "HashE2")):
            if block(src, key) is None or "HashSuiteSswu" not in re.search(key + r"\s*:\s*&(\w+)", src).group(1):
                continue
            rfc = name == "bls12-381"
            heff = None
            if rfc:
                # RFC 9380 section 8.8.1 / 8.8.2
                heff = 0xd201000000010001 if g == "G1" else int(
                    "bc69f08f2ee75b3584c6a0ea91b352888e2a8e9145ad7689986ff031508ffe1329c2f178731db956d82bf015d1212b02ec0e"
                    "c69d7477c1ae954cbc06689f6a359894c0adebbf6b4e8020005aaa95551", 16)
            # G1 of the BLS12 / BLS24 curves: "ClearCofactor maps a point in E(Fp) to E(Fp)[r], cf eprint 2019/403 section 5",
            # i.e. h_eff = 1 - x0 with the seed x0 documented in the package comment of ecc/<curve>/<curve>.go
            seeds = {"bls12-377": 9586122913090633729, "bls24-315": -3218079743, "bls24-317": 3640754176}
            if g == "G1" and name in seeds:
                heff = 1 - seeds[name]
            emit(name, g, suite_sswu(src, p, key, True), heff is not None, heff)
    print("=============================================================================")


def vectors():
    src = open(REPO + "/ecc/bls12-381/hash_vectors_test.go").read()
    p = curve_cfg("bls12-381")[1]
    print("------------------------------ MODULE C13Vectors ------------------------------")
    print("(* Published test vectors of RFC 9380 appendix J.9.1/J.9.2 (BLS12381G1_XMD:SHA-256_SSWU_RO_/NU_) and   *)")
    print("(* J.10.1/J.10.2 (BLS12381G2_...), frozen. msg / dst are byte strings, u and P flat coordinate lists.   *)")
    print("EXTENDS BigNat")
    print("")
    print("RFCVectors ==")
    print("  <<")
    items = []
    for var, g, op in (("encodeToG1Vector", "G1", "EncodeTo"), ("hashToG1Vector", "G1", "HashTo"),
                       ("encodeToG2Vector", "G2", "EncodeTo"), ("hashToG2Vector", "G2", "HashTo")):
        m = re.search(var + r"\s*=\s*\w+\{", src)
        st = m.end() - 1
        b = src[st:balanced(src, st)]
        dst = re.search(r'dst:\s*\[\]byte\("([^"]*)"\)', b).group(1)
        cases = groups(block(b, "cases"))
        for c in cases:
            msg = re.search(r'msg:\s*"([^"]*)"', c).group(1)
            pb = block(c, "P")
            px, py = strs(pb)
            us = []
            for k in ("u", "u0", "u1"):
                mu = re.search(r"\b" + k + r':\s*"([^"]*)"', c)
                if mu:
                    us.append([num(x, p) for x in mu.group(1).split(",")])
            coords = lambda s: [num(x, p) for x in s.split(",")]
            items.append('    [g |-> "%s", op |-> "%s",\n     dst |-> <<%s>>,\n     msg |-> <<%s>>,\n     u |-> <<%s>>,\n     P |-> [x |-> %s, y |-> %s]]' %
                         (g, op, ", ".join(str(x) for x in dst.encode()), ", ".join(str(x) for x in msg.encode()),
                          ", ".join(flat(u) for u in us), flat(coords(px)), flat(coords(py))))
    print(",\n".join(items))
    print("  >>")
    print("=============================================================================")


if __name__ == "__main__":
    {"params": params, "vectors": vectors}[sys.argv[1]]()
