import os,sys,re,difflib
a,b=sys.argv[1],sys.argv[2]
bad=0
for root,ds,fs in os.walk(b):
    if '.git' in root: continue
    for f in fs:
        if not f.endswith('.go'): continue
        pb=os.path.join(root,f); pa=os.path.join(a,os.path.relpath(pb,b))
        if not os.path.exists(pa): print("NEW",pb); bad+=1; continue
        sa=open(pa).read(); sb=open(pb).read()
        norm=lambda s: re.sub(r'Copyright 2020-20\d\d','Copyright 2020-20XX',s)
        if norm(sa)!=norm(sb):
            bad+=1
            print("DIFF",os.path.relpath(pb,b))
            d=list(difflib.unified_diff(norm(sa).splitlines(),norm(sb).splitlines(),lineterm='',n=1))
            print("\n".join(d[:30]))
print("differing .go files:",bad)
