#!/bin/sh
# regenerates harness/c09_babybear.go from harness/c09_koalabear.go
sed 's/koalabear/babybear/g; s/Koalabear/Babybear/g; s/generated from this file.*/GENERATED from c09_koalabear.go by tools\/gen_c09.sh. DO NOT EDIT./' /verif/harness/c09_koalabear.go > /verif/harness/c09_babybear.go
