module covfuncs

go 1.23
