// covfuncs: per-function statement coverage from a `go tool covdata textfmt` profile.
// Usage: covfuncs -profile prof.txt -repo /repo -prefix github.com/consensys/gnark-crypto > functions.tsv
// Output lines: package \t file \t function \t exported(0/1) \t covered statements \t total statements
package main

import (
	"bufio"
	"flag"
	"fmt"
	"go/ast"
	"go/parser"
	"go/token"
	"os"
	"path/filepath"
	"sort"
	"strconv"
	"strings"
)

type block struct {
	sl, sc, el, ec int
	n              int
	hit            bool
}

func main() {
	prof := flag.String("profile", "", "textfmt profile")
	repo := flag.String("repo", "/repo", "repository root")
	prefix := flag.String("prefix", "github.com/consensys/gnark-crypto", "module path")
	flag.Parse()
	f, err := os.Open(*prof)
	if err != nil {
		panic(err)
	}
	blocks := map[string]map[string]*block{}
	sc := bufio.NewScanner(f)
	sc.Buffer(make([]byte, 1<<20), 1<<26)
	for sc.Scan() {
		ln := sc.Text()
		if strings.HasPrefix(ln, "mode:") {
			continue
		}
		i := strings.LastIndex(ln, ":")
		file, rest := ln[:i], ln[i+1:]
		if !strings.HasPrefix(file, *prefix+"/") {
			continue
		}
		parts := strings.Fields(rest)
		if len(parts) != 3 {
			continue
		}
		n, _ := strconv.Atoi(parts[1])
		c, _ := strconv.Atoi(parts[2])
		se := strings.Split(parts[0], ",")
		s := strings.Split(se[0], ".")
		e := strings.Split(se[1], ".")
		b := &block{n: n}
		b.sl, _ = strconv.Atoi(s[0])
		b.sc, _ = strconv.Atoi(s[1])
		b.el, _ = strconv.Atoi(e[0])
		b.ec, _ = strconv.Atoi(e[1])
		m := blocks[file]
		if m == nil {
			m = map[string]*block{}
			blocks[file] = m
		}
		if old, ok := m[parts[0]]; ok {
			old.hit = old.hit || c > 0
		} else {
			b.hit = c > 0
			m[parts[0]] = b
		}
	}
	files := make([]string, 0, len(blocks))
	for k := range blocks {
		files = append(files, k)
	}
	sort.Strings(files)
	w := bufio.NewWriter(os.Stdout)
	defer w.Flush()
	for _, file := range files {
		rel := strings.TrimPrefix(file, *prefix+"/")
		path := filepath.Join(*repo, rel)
		fset := token.NewFileSet()
		af, err := parser.ParseFile(fset, path, nil, 0)
		if err != nil {
			continue // overlay-only file (hook shim) or instrumented copy
		}
		for _, d := range af.Decls {
			fd, ok := d.(*ast.FuncDecl)
			if !ok || fd.Body == nil {
				continue
			}
			s, e := fset.Position(fd.Body.Lbrace), fset.Position(fd.Body.Rbrace)
			cov, tot := 0, 0
			for _, b := range blocks[file] {
				if (b.sl > s.Line || (b.sl == s.Line && b.sc >= s.Column)) && (b.el < e.Line || (b.el == e.Line && b.ec <= e.Column+1)) {
					tot += b.n
					if b.hit {
						cov += b.n
					}
				}
			}
			name := fd.Name.Name
			if fd.Recv != nil && len(fd.Recv.List) > 0 {
				t := fd.Recv.List[0].Type
				if st, ok := t.(*ast.StarExpr); ok {
					t = st.X
				}
				if ix, ok := t.(*ast.IndexExpr); ok {
					t = ix.X
				}
				if ix, ok := t.(*ast.IndexListExpr); ok {
					t = ix.X
				}
				if id, ok := t.(*ast.Ident); ok {
					name = id.Name + "." + name
				}
			}
			exp := 0
			if fd.Name.IsExported() {
				exp = 1
			}
			fmt.Fprintf(w, "%s\t%s\t%s\t%d\t%d\t%d\n", filepath.Dir(rel), filepath.Base(rel), name, exp, cov, tot)
		}
	}
}
