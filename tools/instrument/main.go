// instrument rewrites Go source files so that every channel operation, go statement, close and
// WaitGroup call reports to utils/verifhook (a package that /verif injects with `go build -overlay`).
// The copies are generated AT CHECK TIME from /repo's current working tree, so a reordered
// `sem <-` / `chRes <-` in the tree is observed as reordered in the logs. Only calls are added.
//
//	usage: instrument -out <dir> file.go ...     prints "orig<TAB>copy" per file
//
// Discipline: producer-side operations (send, close, go, wg.Done, wg.Add) are reported BEFORE they
// execute, consumer-side operations (receive, wg.Wait) AFTER they complete.
package main

import (
	"bytes"
	"flag"
	"fmt"
	"go/ast"
	"go/format"
	"go/parser"
	"go/token"
	"os"
	"path/filepath"
	"strconv"
	"strings"
)

const hookPath = "github.com/consensys/gnark-crypto/utils/verifhook"

func exprString(fset *token.FileSet, e ast.Expr) string {
	var b bytes.Buffer
	format.Node(&b, fset, e)
	return b.String()
}

func point(kind, fn string, obj ast.Expr, label string) ast.Stmt {
	args := []ast.Expr{
		&ast.BasicLit{Kind: token.STRING, Value: strconv.Quote(kind)},
		&ast.BasicLit{Kind: token.STRING, Value: strconv.Quote(fn)},
		&ast.BasicLit{Kind: token.STRING, Value: strconv.Quote(label)},
	}
	if obj != nil {
		args = append(args, obj)
	} else {
		args = append(args, ast.NewIdent("nil"))
	}
	return &ast.ExprStmt{X: &ast.CallExpr{Fun: &ast.SelectorExpr{X: ast.NewIdent("verifhook"), Sel: ast.NewIdent("Point")}, Args: args}}
}

type rewriter struct {
	fset  *token.FileSet
	fn    string
	nlit  int
	count int
}

func recvChan(e ast.Expr) ast.Expr {
	if u, ok := e.(*ast.UnaryExpr); ok && u.Op == token.ARROW {
		return u.X
	}
	return nil
}

// rewriteList returns the statement list with hook calls inserted.
func (r *rewriter) rewriteList(list []ast.Stmt) []ast.Stmt {
	var out []ast.Stmt
	for _, s := range list {
		var before, after []ast.Stmt
		switch st := s.(type) {
		case *ast.SendStmt:
			before = append(before, point("send", r.fn, st.Chan, exprString(r.fset, st.Chan)))
		case *ast.GoStmt:
			lbl := "func"
			if _, lit := st.Call.Fun.(*ast.FuncLit); !lit {
				lbl = exprString(r.fset, st.Call.Fun)
			}
			before = append(before, point("go", r.fn, nil, lbl))
		case *ast.ExprStmt:
			if ch := recvChan(st.X); ch != nil {
				after = append(after, point("recv", r.fn, ch, exprString(r.fset, ch)))
			} else if c, ok := st.X.(*ast.CallExpr); ok {
				if id, ok := c.Fun.(*ast.Ident); ok && id.Name == "close" && len(c.Args) == 1 {
					before = append(before, point("close", r.fn, c.Args[0], exprString(r.fset, c.Args[0])))
				} else if sel, ok := c.Fun.(*ast.SelectorExpr); ok && len(c.Args) <= 1 {
					recv := &ast.UnaryExpr{Op: token.AND, X: sel.X}
					lbl := exprString(r.fset, sel.X)
					switch sel.Sel.Name {
					case "Done":
						if len(c.Args) == 0 {
							before = append(before, point("wg.Done", r.fn, recv, lbl))
						}
					case "Wait":
						if len(c.Args) == 0 {
							after = append(after, point("wg.Wait", r.fn, recv, lbl))
						}
					}
				}
			}
		case *ast.AssignStmt:
			if len(st.Rhs) == 1 {
				if ch := recvChan(st.Rhs[0]); ch != nil {
					after = append(after, point("recv", r.fn, ch, exprString(r.fset, ch)))
				}
			}
		}
		r.visitStmt(s)
		r.count += len(before) + len(after)
		out = append(out, before...)
		out = append(out, s)
		out = append(out, after...)
	}
	return out
}

func (r *rewriter) visitBlock(b *ast.BlockStmt) {
	if b != nil {
		b.List = r.rewriteList(b.List)
	}
}

// visitExpr looks for function literals inside expressions.
func (r *rewriter) visitExpr(e ast.Node) {
	ast.Inspect(e, func(n ast.Node) bool {
		if fl, ok := n.(*ast.FuncLit); ok {
			saved := r.fn
			r.nlit++
			r.fn = saved + "$" + strconv.Itoa(r.nlit)
			r.visitBlock(fl.Body)
			r.fn = saved
			return false
		}
		return true
	})
}

func (r *rewriter) visitStmt(s ast.Stmt) {
	switch st := s.(type) {
	case *ast.BlockStmt:
		r.visitBlock(st)
	case *ast.IfStmt:
		if st.Init != nil {
			r.visitStmt(st.Init)
		}
		r.visitExpr(st.Cond)
		r.visitBlock(st.Body)
		if st.Else != nil {
			r.visitStmt(st.Else)
		}
	case *ast.ForStmt:
		r.visitBlock(st.Body)
	case *ast.RangeStmt:
		r.visitBlock(st.Body)
	case *ast.SwitchStmt:
		for _, c := range st.Body.List {
			cc := c.(*ast.CaseClause)
			cc.Body = r.rewriteList(cc.Body)
		}
	case *ast.TypeSwitchStmt:
		for _, c := range st.Body.List {
			cc := c.(*ast.CaseClause)
			cc.Body = r.rewriteList(cc.Body)
		}
	case *ast.SelectStmt:
		// communication clauses are left alone (their bodies are instrumented)
		for _, c := range st.Body.List {
			cc := c.(*ast.CommClause)
			cc.Body = r.rewriteList(cc.Body)
		}
	case *ast.LabeledStmt:
		r.visitStmt(st.Stmt)
	case *ast.GoStmt:
		r.visitExpr(st.Call)
	case *ast.DeferStmt:
		r.visitExpr(st.Call)
	case *ast.ExprStmt:
		r.visitExpr(st.X)
	case *ast.AssignStmt:
		for _, e := range st.Rhs {
			r.visitExpr(e)
		}
	case *ast.ReturnStmt:
		for _, e := range st.Results {
			r.visitExpr(e)
		}
	case *ast.DeclStmt:
		r.visitExpr(st.Decl)
	}
}

func main() {
	out := flag.String("out", "", "output directory")
	flag.Parse()
	for i, path := range flag.Args() {
		fset := token.NewFileSet()
		f, err := parser.ParseFile(fset, path, nil, parser.ParseComments)
		if err != nil {
			fmt.Fprintln(os.Stderr, "instrument:", err)
			os.Exit(2)
		}
		r := &rewriter{fset: fset}
		for _, d := range f.Decls {
			if fd, ok := d.(*ast.FuncDecl); ok && fd.Body != nil {
				r.fn = fd.Name.Name
				r.nlit = 0
				r.visitBlock(fd.Body)
			}
		}
		if r.count == 0 {
			continue
		}
		// add the import
		imp := &ast.ImportSpec{Path: &ast.BasicLit{Kind: token.STRING, Value: strconv.Quote(hookPath)}}
		added := false
		for _, d := range f.Decls {
			if gd, ok := d.(*ast.GenDecl); ok && gd.Tok == token.IMPORT {
				gd.Specs = append(gd.Specs, imp)
				if !gd.Lparen.IsValid() {
					gd.Lparen = gd.Pos()
					gd.Rparen = gd.End()
				}
				added = true
				break
			}
		}
		if !added {
			f.Decls = append([]ast.Decl{&ast.GenDecl{Tok: token.IMPORT, Specs: []ast.Spec{imp}}}, f.Decls...)
		}
		var b bytes.Buffer
		if err := format.Node(&b, fset, f); err != nil {
			fmt.Fprintln(os.Stderr, "instrument: format:", err)
			os.Exit(2)
		}
		name := fmt.Sprintf("%03d_%s", i, strings.ReplaceAll(filepath.Base(path), ".go", "_instr.go"))
		dst := filepath.Join(*out, name)
		if err := os.WriteFile(dst, b.Bytes(), 0o644); err != nil {
			fmt.Fprintln(os.Stderr, "instrument:", err)
			os.Exit(2)
		}
		fmt.Printf("%s\t%s\t%d\n", path, dst, r.count)
	}
}
