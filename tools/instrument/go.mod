module instrument

go 1.23.0
