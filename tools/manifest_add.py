#!/usr/bin/env python3
"""usage: tools/manifest_add.py C03 [C04 ...] — registers checks in MANIFEST.json (cloned from the C01 entry)."""
import json, sys
m = json.load(open('/verif/MANIFEST.json'))
tmpl = [c for c in m['checks'] if c['property_id'] == 'C01'][0]
for pid in sys.argv[1:]:
    if any(c['property_id'] == pid for c in m['checks']):
        continue
    m['checks'].append(json.loads(json.dumps(tmpl).replace('C01', pid)))
    m['not_applicable'] = [x for x in m['not_applicable'] if x['property_id'] != pid]
    m['engines'][0]['serves_properties'] = sorted(set(m['engines'][0]['serves_properties']) | {pid})
m['checks'].sort(key=lambda c: c['property_id'])
json.dump(m, open('/verif/MANIFEST.json', 'w'), indent=1)
