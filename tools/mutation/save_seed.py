#!/usr/bin/env python3
import json,os,shutil,glob,sys
p,name,result,by,strengthened=sys.argv[1:6]
src='/tmp/mutout_'+p; dst='/verif/seeded/'+name
os.makedirs(dst,exist_ok=True)
m=json.load(open(src+'/meta.json'))
shutil.copy(src+'/patch.diff',dst+'/patch.diff')
for f in glob.glob(src+'/demo*'):
    if f.endswith('.log'): continue
    if os.path.isdir(f): shutil.copytree(f,dst+'/'+os.path.basename(f),dirs_exist_ok=True)
    else: shutil.copy(f,dst+'/'+os.path.basename(f))
conf=open(src+'/confirm.log').read() if os.path.exists(src+'/confirm.log') else ''
m['confirmed']={'by':'main session','how':'worktree checked to hold exactly patch.diff; demo re-run by the main session with and without the change (%s); existing tests of the touched packages re-run with the change; then VERIF_REPO=/tmp/mut_%s ./check %s --tier quick; the same check on the unchanged tree exits 0'%(' / '.join(l.strip() for l in conf.splitlines()[1:]),p,m.get('property',name[:3])),
 'result':result,'caught_by':[by],'strengthened':strengthened}
json.dump(m,open(dst+'/meta.json','w'),indent=1)
print('saved',dst)
