#!/bin/bash
# confirm_mut.sh <id>: demo fails with the change, passes without it; touched packages' existing tests pass with it
p=$1; W=/tmp/mut_$p; O=/tmp/mutout_$p
export GOFLAGS=-mod=mod GOPROXY=off GOSUMDB=off GOTOOLCHAIN=local
cd $W || exit 9
cmd=$(python3 -c "import json;print(json.load(open('$O/meta.json'))['demo_cmd'])")
echo "demo_cmd: $cmd"
go build ./... || { echo "BUILD FAILS"; exit 1; }
bash -c "$cmd" > $O/demo_with.log 2>&1; w=$?
git diff > /tmp/confirm_patch_$p.diff; git apply -R /tmp/confirm_patch_$p.diff
bash -c "$cmd" > $O/demo_without.log 2>&1; wo=$?
git apply /tmp/confirm_patch_$p.diff; rm -f /tmp/confirm_patch_$p.diff
echo "demo with change exit=$w (expect !=0), without exit=$wo (expect 0)"
pk=$(git diff --name-only | grep '\.go$' | xargs -n1 dirname | sort -u | sed 's#^#./#')
demo=$(git status --short | grep '^??' | awk '{print $2}')
mkdir -p /tmp/demo_hold_$p; for f in $demo; do mv $f /tmp/demo_hold_$p/$(echo $f | tr / _); done
go test -vet=off -count=1 $pk > $O/existing_tests.log 2>&1; t=$?
for f in $demo; do mv /tmp/demo_hold_$p/$(echo $f | tr / _) $f; done; rmdir /tmp/demo_hold_$p
echo "existing tests of touched packages exit=$t"; grep -v "^ok\|no test files" $O/existing_tests.log | head -5
