#!/usr/bin/env python3
import json,sys,glob,os,re
P=sys.argv[1]; suf=sys.argv[2]
tag=P.lower()+suf
tpl=open('' + os.path.join(os.path.dirname(os.path.abspath(__file__)), 'prompt_template.txt') + '').read()
props={json.loads(l)['id']:json.loads(l) for l in open('/verif/properties.jsonl')}
d=props[P]
head,rest=tpl.split('Other authors have already made these changes:\n')
_,tail=rest.split('Choose a DIFFERENT part')
others=''
for m in sorted(glob.glob('/verif/seeded/%s*/meta.json'%P)):
    s=json.load(open(m)).get('summary','')
    others+='  - '+s[:180]+'\n'
mid,deliv=tail.split('PROPERTY C20:')
_,deliv=deliv.split('Deliverables, all under')
proptxt='PROPERTY %s: %s\n%s\nQuantifier: %s\nCode it is anchored in (start reading there): %s\n\n'%(P,d['title'],d['statement'],d['quantifier']['text'],', '.join(d['anchors']['files']))
out=head+'Other authors have already made these changes:\n'+others+'Choose a DIFFERENT part'+mid+proptxt+'Deliverables, all under'+deliv
out=out.replace('c20r7',tag).replace('"property":"C20"','"property":"%s"'%P)
open('/tmp/mut_prompt_%s.txt'%tag,'w').write(out)
print(tag,len(out))
