#!/bin/bash
# try_mut.sh <id> <PROP> : make sure the worktree holds exactly the agent's patch, confirm the demo, run the registered check on it
p=$1; P=$2; W=/tmp/mut_$p; O=/tmp/mutout_$p
cd $W || exit 9
git diff > /tmp/cur_$p.diff
if ! diff -q /tmp/cur_$p.diff $O/patch.diff >/dev/null; then
  echo "worktree diff != patch.diff: restoring"; git checkout -- . && git apply $O/patch.diff || { echo "CANNOT APPLY"; exit 9; }
fi
rm -f /tmp/cur_$p.diff
/tmp/confirm_mut.sh $p > $O/confirm.log 2>&1; tail -3 $O/confirm.log
cd /verif && (VERIF_REPO=$W timeout 5000 ./check $P 2>&1 | cut -c1-300 | tail -8) > $O/check.log 2>&1
grep -v "^KNOWN-FINDING" $O/check.log | tail -4
