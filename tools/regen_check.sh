#!/bin/sh
# Regenerates every generated Go file from the repository's templates in a scratch copy (asmfmt replaced by a no-op: only the
# formatting of .s files depends on it) and compares the .go files with the working tree modulo the copyright year.
# Usage: tools/regen_check.sh [repo]      exit 0 = templates and generated files agree
# With KEEP=<dir> the regenerated copy is kept there (VERIF_REPO=<dir> ./check Cxx then runs a check on regenerated code).
set -e
REPO=${1:-${VERIF_REPO:-/repo}}
V=$(cd "$(dirname "$0")/.." && pwd)
S=${KEEP:-$(mktemp -d /tmp/verif-regen-XXXXXX)}
mkdir -p "$S/bin" "$S/src"
printf '#!/bin/sh\nexit 0\n' > "$S/bin/asmfmt"; chmod +x "$S/bin/asmfmt"
rsync -a --delete --exclude=.git "$REPO"/ "$S/src"/
export GOFLAGS=-mod=mod GOPROXY=off GOSUMDB=off GOTOOLCHAIN=local
(cd "$S/src/internal/generator" && PATH="$S/bin:$PATH" timeout 1200 go run main.go > "$S/log" 2>&1) || { tail -20 "$S/log"; echo "generator failed (infrastructure)"; exit 2; }
python3 "$V/tools/regen_cmp.py" "$REPO" "$S/src" | tail -40 > "$S/cmp.txt"
cat "$S/cmp.txt"
rc=1; grep -q '^differing .go files: 0$' "$S/cmp.txt" && rc=0
[ -n "$KEEP" ] || rm -rf "$S"
exit $rc
