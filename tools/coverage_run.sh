#!/bin/sh
# Statement coverage of gnark-crypto by the drivers of the registered checks (quick tier).
# `go build -cover` cannot open files that exist only in a -overlay, so the drivers are built against a scratch copy of the
# working tree with the hook files materialised; nothing in /repo or /verif/evidence is touched.
# Usage: tools/coverage_run.sh [checks...]     -> coverage/packages.tsv, coverage/unreached_functions.tsv
set -e
V=$(cd "$(dirname "$0")/.." && pwd)
S=$(mktemp -d /tmp/verif-cov-XXXXXX)
trap 'rm -rf "$S"' EXIT
rsync -a --exclude=.git /repo/ "$S/src"/
(cd "$V/hooks" && find . -name '*.go' | while read f; do mkdir -p "$S/src/$(dirname "$f")"; cp "$f" "$S/src/$f"; done)
mkdir -p "$S/cov"
CHECKS=${*:-C01 C02 C03 C04 C05 C06 C07 C08 C09 C10 C11 C12 C13 C14 C15 C16 C17 C18 C19 C20}
for p in $CHECKS; do
  VERIF_REPO="$S/src" VERIF_OUT="$S/out" VERIF_HOOKS_MATERIALIZED=1 VERIF_COVER="$S/cov" "$V/check" $p 2>&1 | grep -v '^KNOWN' | tail -1 | cut -c1-200
done
VERIF_REPO="$S/src" python3 "$V/tools/coverage_report.py" "$S/cov"
