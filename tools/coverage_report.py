#!/usr/bin/env python3
"""Statement coverage of gnark-crypto by the drivers of the registered checks.
  1. VERIF_COVER=<dir> ./check Cxx ...   (every driver is built with -cover and writes counters to <dir>)
  2. tools/coverage_report.py <dir>       -> evidence-like summary on stdout, coverage/packages.tsv, coverage/uncovered_exported.tsv
Coverage says which code the conformance step OBSERVES (a specification decides nothing about code it never observes)."""
import collections, os, subprocess, sys, tempfile
V = os.path.join(os.path.dirname(os.path.abspath(__file__)), "..")
REPO = os.environ.get("VERIF_REPO", "/repo")
d = sys.argv[1]
env = dict(os.environ, GOFLAGS="-mod=mod", GOPROXY="off", GOSUMDB="off", GOTOOLCHAIN="local")
work = tempfile.mkdtemp(prefix="verif-cov-")
prof = os.path.join(work, "prof.txt")
subprocess.run(["go", "tool", "covdata", "textfmt", "-i=" + d, "-o=" + prof], check=True, env=env)
tool = os.path.join(work, "covfuncs")
subprocess.run(["go", "build", "-o", tool, "."], cwd=os.path.join(V, "tools", "covfuncs"), check=True, env=env)
out = subprocess.run([tool, "-profile", prof, "-repo", REPO], check=True, env=env, stdout=subprocess.PIPE, text=True).stdout
pk = collections.OrderedDict()
unc = []
for ln in out.splitlines():
    p, f, fn, exp, c, t = ln.split("\t")
    if p.startswith("cmd/verifharness") or p.startswith("utils/verifhook") or "/generator" in p or f.startswith("verif_"):
        continue  # the drivers and hook shims themselves, and the code generators
    c, t = int(c), int(t)
    a = pk.setdefault(p, [0, 0, 0, 0])
    a[0] += c
    a[1] += t
    a[2] += 1
    if c > 0 or t == 0:
        a[3] += 1
    elif t > 0:
        unc.append((p, f, fn, exp, t))
os.makedirs(os.path.join(V, "coverage"), exist_ok=True)
with open(os.path.join(V, "coverage", "packages.tsv"), "w") as o:
    o.write("package\tstatements covered\tstatements\tpercent\tfunctions reached\tfunctions\n")
    for p, (c, t, n, r) in pk.items():
        o.write("%s\t%d\t%d\t%.1f\t%d\t%d\n" % (p, c, t, 100.0 * c / max(t, 1), r, n))
with open(os.path.join(V, "coverage", "unreached_functions.tsv"), "w") as o:
    o.write("package\tfile\tfunction\texported\tstatements\n")
    for x in unc:
        o.write("%s\t%s\t%s\t%s\t%d\n" % x)
C = sum(a[0] for a in pk.values())
T = sum(a[1] for a in pk.values())
print("packages %d  statements %d / %d (%.1f%%)  functions never reached %d (exported %d)" %
      (len(pk), C, T, 100.0 * C / max(T, 1), len(unc), sum(1 for x in unc if x[3] == "1")))
import shutil
shutil.rmtree(work, ignore_errors=True)
