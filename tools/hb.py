#!/usr/bin/env python3
"""Builds the harness for manual experiments: tools/hb.py <outdir> [race]  ->  <outdir>/harness"""
import os, sys
sys.path.insert(0, os.path.join(os.path.dirname(os.path.abspath(__file__)), ".."))
from vlib import core
out = os.path.abspath(sys.argv[1])
os.makedirs(out, exist_ok=True)
ctx = core.Ctx.__new__(core.Ctx)
ctx.work = out
ctx.prop = "manual"
for k, v in (("tier", "quick"), ("seed", 1)):
    setattr(ctx, k, v)
race = len(sys.argv) > 2 and sys.argv[2] == "race"
print(ctx.build_harness("harness", tags=("verif", "purego") if race else ("verif",), race=race))
