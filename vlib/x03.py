"""X03 (extension, not a listed property) - Eisenstein integers (field/eisenstein): ring operations, Euclidean division, half-GCD."""
import glob
import os

from .core import Crash, log


def run(ctx):
    b = ctx.build_harness("harness")
    tdir = os.path.join(ctx.work, "traces")
    os.makedirs(tdir)
    try:
        log(ctx.run_harness(b, ["x03", "-out", tdir, "-seed", str(ctx.seed), "-tier", ctx.tier]).strip().splitlines()[-1])
        tr = sorted(glob.glob(os.path.join(tdir, "x03_*.ndjson")))
        ctx.validate_traces("X03_eisenstein", "TraceEisenstein", tr)
        ctx.samples = [{"trace": os.path.basename(tr[0]), "events": open(tr[0]).readlines()[150:152]}]
    except Crash as ex:
        ctx.crash_violation(ex, "Eisenstein driver")
    return ctx.finish(
        rule="every unary operation on, and every binary operation / QuoRem / HalfGCD on pairs of, {a0 + a1 w : |a0|, |a1| <= 2 (thorough 4)} "
             "plus random signed operands of 7..400 bits and pure powers of two; a watchdog turns a call that does not return into a "
             "rejected event",
        assumptions=["HalfGCD(0, b) is not judged (no admissible output exists); aliasing of these methods is C19's",
                     "not a listed property: an extension of the specification (DESIGN.md 11.7)"])
