"""C14 — algebraic hashes (MiMC, Poseidon2, ring-SIS) match their specifications and honour streaming semantics."""
import glob
import json
import os

from .core import log

SPEC = "C14_hashes"


def run(ctx):
    # (MC) design-level model checking of the streaming machine at toy parameters (F_13, 2-byte elements):
    # MiMC-style (lazy buffer) and Merkle-Damgard-style (eager) objects, all histories with <= 3 accepted blocks
    ctx.model_check(SPEC, "MCHashStream", cfg="MCHashStream_mimc", workers=8, heap="3g", timeout=600)
    ctx.model_check(SPEC, "MCHashStream", cfg="MCHashStream_md", workers=8, heap="3g", timeout=600)
    # negative self-tests: the machine with the suspected defects of the code must be rejected by the same invariants
    ctx.model_check(SPEC, "MCHashStream", cfg="MCHashStream_neg_partial", expect_violation="ErrKeepsState", workers=2, timeout=300)
    ctx.model_check(SPEC, "MCHashStream", cfg="MCHashStream_neg_sum", expect_violation="ReplyOK", workers=2, timeout=300)
    # definitions: Poseidon2 layers are the published matrices and the permutation is a bijection at toy size,
    # MiMC cipher is a permutation per key, ring-SIS equals schoolbook multiplication reduced mod X^d + 1
    ctx.model_check(SPEC, "MCHashDefs", workers=4, heap="3g", timeout=600)

    # (TV) the real code: every registered hash + LE option + Poseidon2 permutations/compressors + SIS
    b = ctx.build_harness("harness")
    tdir = os.path.join(ctx.work, "traces")
    os.makedirs(tdir)
    out = ctx.run_harness(b, ["c14", "-out", tdir, "-seed", str(ctx.seed), "-tier", ctx.tier, "-config", "default"])
    log("default ", out.strip().splitlines()[-1])
    # small fields again with the AVX-512 kernels switched off (generic Poseidon2 / SIS code paths)
    out = ctx.run_harness(b, ["c14", "-out", tdir, "-seed", str(ctx.seed), "-tier", ctx.tier, "-config", "noavx512",
                              "-small", "-families", "p2,sis"], env={"GODEBUG": "cpu.avx512=off"})
    log("noavx512", out.strip().splitlines()[-1])
    traces = sorted(glob.glob(os.path.join(tdir, "c14_*.ndjson")), key=lambda p: -os.path.getsize(p))
    ctx.validate_traces(SPEC, "TraceHashes", traces, heap="3g", timeout=3000, par=int(os.environ.get("VERIF_PAR", "0")) or None)

    # samples: a few actual events (long byte strings cut)
    def short(line):
        e = json.loads(line)
        return {k: (v if not isinstance(v, list) or len(v) <= 8 else v[:8] + ["...(%d)" % len(v)]) for k, v in e.items()}
    ctx.samples = []
    for pat, lines in (("c14_mimc_bn254_fr_default", (60, 61, 62)), ("c14_p2_bn254_fr_default", (10, 80)), ("c14_sis_koalabear_default", (5,))):
        for tr in traces:
            if pat in tr:
                ls = open(tr).readlines()
                ctx.samples.append({"trace": os.path.basename(tr), "events": [short(ls[i]) for i in lines if i < len(ls)]})
    ops = {}
    for tr in traces:
        with open(tr) as f:
            next(f)
            for ln in f:
                i = ln.find('"op":"')
                op = ln[i + 6:ln.find('"', i + 6)]
                ops[op] = ops.get(op, 0) + 1
    ctx.extra["events_per_op"] = ops
    ctx.extra["configs"] = ["default", "noavx512 (small fields)"]
    return ctx.finish(
        rule="events = one public call each (New/Write/Sum/Reset/State/SetState/Size/BlockSize of every hash registered in hash.Hash "
             "+ MiMC little-endian option, package mimc.Sum, Poseidon2 Permutation/Compress for 4 parameter sets per field on 11 fields, "
             "RSis construction and Hash on 4 fields); histories = all sequences of the 19-symbol call alphabet up to length 2 (3 thorough), "
             "of an 8-symbol alphabet up to length 3 (4), plus seeded random histories; each history is one scenario on a fresh object",
        assumptions=[
            "for-all over messages/histories is sampled on the code (enumerated short histories + boundary lattices + seeded random); "
            "exhaustive only in the toy-field models",
            "MiMC/Poseidon2 round constants and SIS keys are re-derived by the harness with x/crypto/sha3 (legacy Keccak) and "
            "x/crypto/blake2b, which are trusted; degrees, round numbers, matrices and default parameters are frozen in spec/params/HashParams.tla",
            "ring-SIS is judged against the library's sage reference, i.e. limbs are Montgomery residues (Hash = R^-1 * sum A_i*M_i); the Go doc comment omits that constant",
            "Write reply count n on success is not judged (the code reports the padded length for short writes); "
            "SetState with an invalid state that is silently accepted leaves the object unspecified until the next Reset/SetState",
            "java.math.BigInteger behind the BigNat accelerator (cross-checked against the pure TLA+ definitions in setup)"])
