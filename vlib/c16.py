"""C16 — Merkle proofs verify for, and only for, the committed leaf and position."""
import glob
import json
import os
import re

from .core import log

SPEC = "C16_merkle"


def run(ctx):
    thorough = ctx.tier == "thorough"
    # (MC) design level, independent of the code under test: every history / decomposition / index / tampering
    acc_cfg = "MCMerkleAcc_thorough" if thorough else "MCMerkleAcc"
    ctx.model_check(SPEC, "MCMerkleAcc", acc_cfg, workers=8, heap="4g")
    ctx.model_check(SPEC, "MCVortexMerkle", "MCVortexMerkle_thorough" if thorough else "MCVortexMerkle", workers=4)
    # negative self-tests: deliberately wrong variants of the machines must be caught by the invariants
    ctx.model_check(SPEC, "MCMerkleAcc", "MCMerkleAcc_neg_sibling", expect_violation="ProveOK", workers=2)
    ctx.model_check(SPEC, "MCMerkleAcc", "MCMerkleAcc_neg_norange", expect_violation="VerifyOK", workers=2)
    ctx.model_check(SPEC, "MCMerkleAcc", "MCMerkleAcc_neg_noheight", expect_violation="ErrOK", workers=2)
    # merkle.go transcribed literally (no range check in Verify / Open): defect F16 on the design
    ctx.model_check(SPEC, "MCVortexMerkle", "MCVortexMerkle_ascode", expect_violation="VerifyVOK", workers=2)
    ctx.model_check(SPEC, "MCVortexMerkle", "MCVortexMerkle_ascode_open", expect_violation="OpenOK", workers=2)

    # (TV) the real code: model-derived grids / decompositions / tamperings and seeded random histories
    binary = ctx.build_harness("harness")
    tdir = os.path.join(ctx.work, "traces")
    os.makedirs(tdir)
    out = ctx.run_harness(binary, ["c16", "-out", tdir, "-seed", str(ctx.seed), "-tier", ctx.tier])
    log(out.strip().splitlines()[-1])
    acc = sorted(glob.glob(os.path.join(tdir, "c16_acc_*.ndjson")), key=os.path.getsize, reverse=True)
    vx = sorted(glob.glob(os.path.join(tdir, "c16_vortex_*.ndjson")), key=os.path.getsize, reverse=True)
    if not acc or not vx:
        from .core import Infra
        raise Infra("c16 harness wrote no traces")
    par = int(os.environ.get("VERIF_PAR", "0")) or None
    ctx.validate_traces(SPEC, "TraceVortex", vx, heap="2g", par=par, timeout=3000)
    ctx.validate_traces(SPEC, "TraceMerkle", acc, heap="2g", par=par, timeout=3000)

    def sample(path, ops, k=1):
        got = []
        with open(path) as f:
            next(f)
            for ln in f:
                e = json.loads(ln)
                if e.get("op") in ops and len(ln) < 1500:
                    got.append(ln.strip())
                    ops = ops - {e["op"]}
                    if not ops:
                        break
        return got

    ctx.samples = [
        {"trace": os.path.basename(acc[0]), "events": sample(acc[0], {"Prove", "Verify"})},
        {"trace": os.path.basename(vx[0]), "events": sample(vx[0], {"Open", "Verify"})},
    ]
    per_kind = {}
    for t in ctx.tv:
        k = re.sub(r"(_\d+)?\.ndjson$", "", t["trace"][len("c16_"):])
        per_kind[k] = per_kind.get(k, 0) + t["events"]
    ctx.extra["events_per_family"] = per_kind
    ctx.extra["hashes"] = ["sha256 (JDK MessageDigest)", "mimc bn254 (MerkleHashes.tla)", "poseidon2 koalabear t=16 (MerkleHashes.tla)"]
    return ctx.finish(
        rule="events = one public call each of accumulator/merkletree (SetIndex, Push, PushSubTree, ReadAll, Root, Prove, VerifyProof, "
             "ReaderRoot, BuildReaderProof; SHA-256 and MiMC-bn254) and of koalabear/vortex (BuildMerkleTree+Root, Open, MerkleProof.Verify); "
             "inputs: every (n<=130, i<n) with the model's single-component tamperings of (root, proof set, index), every legal "
             "Push/PushSubTree/ReadAll decomposition of short sequences plus the refused calls, seeded random decompositions and readers; "
             "distinct cases = distinct events; states = TLC states of the MC runs plus one per validated event",
        assumptions=[
            "for-all over n and i is exhaustive up to 130 on the code (SHA-256 and Vortex in both tiers, MiMC in thorough; 28 indices x all n in quick), "
            "exhaustive over all histories only on the small-constant models (n<=40 / n<=33)",
            "rejection of tampered proofs is demanded under pairwise distinct leaves and a collision-free hash (the classification Class/ClassV is "
            "proved sound against the reference verifier on injective hash terms by the MC runs)",
            "the leaf count passed to VerifyProof is not tampered with (not bound by the root): other counts are only required not to panic",
            "MiMC and Poseidon2 are the TLA+ definitions of spec/lib/MerkleHashes.tla with round constants derived by the harness from the documented "
            "seeds with x/crypto/sha3; SHA-256 is the JDK's; BigNat arithmetic is java.math.BigInteger behind the cross-checked accelerator",
            "Verify events describe their arguments as a delta against the preceding logged proof; 'intact' is the harness's byte comparison of "
            "argument copies taken before and after the call",
        ])
