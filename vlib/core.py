"""Shared machinery of /verif/check: build the Go harness from /repo's working tree, run TLC
(model checking, behaviour generation, trace validation), classify rejected events against
known-findings.jsonl, write evidence, decide the exit code.

Exit codes: 0 property held on everything explored; 1 VIOLATION (a recorded behaviour of the real
code was rejected by the specification); 2 infrastructure trouble (never a verdict)."""
import concurrent.futures as cf
import fnmatch
import json
import os
import re
import shutil
import subprocess
import sys
import tempfile
import time

VERIF = os.path.dirname(os.path.dirname(os.path.abspath(__file__)))
REPO = os.environ.get("VERIF_REPO", "/repo")     # the registered checks always use /repo; the override serves seeded-change experiments on scratch worktrees
TLA_JARS = "/opt/veriftools/tla/tla2tools.jar:/opt/veriftools/tla/CommunityModules-deps.jar"
GOENV = {"GOFLAGS": "-mod=mod", "GOPROXY": "off", "GOSUMDB": "off", "GOTOOLCHAIN": "local"}
NCPU = os.cpu_count() or 4


class Infra(Exception):
    """Infrastructure failure: exit 2, no verdict."""


class Crash(Exception):
    """The driver process died from a Go panic / fatal error raised inside gnark-crypto code (not in the
    harness): a behaviour of the real code. Carries the first lines of the report."""

    def __init__(self, msg, output):
        super().__init__(msg)
        self.output = output


def classify_crash(out):
    """Returns the panic message if `out` is a Go crash report whose first non-runtime frame of the
    crashing goroutine is gnark-crypto code, else None."""
    m = re.search(r"^(panic: .*|fatal error: .*)$", out, re.M)
    if not m:
        return None
    tail = out[m.start():]
    frames = re.findall(r"^([\w./\-\[\]\*\(\)·]+)\(.*\)\n\t(\S+):\d+", tail, re.M)
    for fn, path in frames:
        if fn.startswith(("runtime.", "panic(", "reflect.", "sync.", "internal/")) or "/go-" in path and "/src/" in path:
            continue
        if path.startswith(REPO + "/") or "consensys/gnark-crypto" in fn:
            return m.group(1)[:200]
        return None
    return None


def log(*a):
    print(*a, flush=True)


def sh(cmd, env=None, cwd=None, timeout=None, check=True, capture=True):
    e = dict(os.environ)
    e.update(GOENV)
    if COVER_DIR:
        e["GOCOVERDIR"] = COVER_DIR     # coverage mode: every driver process writes its counters there
    if env:
        e.update(env)
    p = subprocess.run(cmd, env=e, cwd=cwd, timeout=timeout, stdout=subprocess.PIPE if capture else None,
                       stderr=subprocess.STDOUT if capture else None, text=True)
    if check and p.returncode != 0:
        raise Infra("command failed (%d): %s\n%s" % (p.returncode, " ".join(cmd), (p.stdout or "")[-4000:]))
    return p


# VERIF_COVER=<dir>: drivers are built with statement coverage of every gnark-crypto package and write their counters
# to <dir> (tools/coverage_report.py turns them into the per-package / per-function table of DESIGN.md 11.6)
COVER_DIR = os.environ.get("VERIF_COVER", "")
# evidence and replays go to /verif unless the check is pointed at another tree (seeded-change experiments):
# those runs must not overwrite the evidence of the real tree
OUT = VERIF if "VERIF_REPO" not in os.environ else os.environ.get("VERIF_OUT", os.path.join(REPO, ".verif-out"))


class Ctx:
    def __init__(self, prop, tier, seed):
        self.prop = prop
        self.tier = tier
        self.seed = seed
        self.t0 = time.time()
        self.work = tempfile.mkdtemp(prefix="verif-%s-" % prop)
        self.mc = []          # model-checking results
        self.tv = []          # trace-validation results
        self.rejected = []    # (tracefile, index, reason, event)
        self.samples = []
        self.notes = []
        self.extra = {}
        self.known = load_known(prop)

    def cleanup(self):
        shutil.rmtree(self.work, ignore_errors=True)

    # -- building -------------------------------------------------------------------------
    def modfile(self):
        """go.mod / go.sum for the harness in the work directory (replace => REPO)."""
        mf = os.path.join(self.work, "harness.mod")
        if not os.path.exists(mf):
            txt = open(os.path.join(VERIF, "harness", "go.mod")).read().replace("=> /repo", "=> " + REPO)
            open(mf, "w").write(txt)
            shutil.copy(os.path.join(REPO, "go.sum"), os.path.join(self.work, "harness.sum"))
        return mf

    def build_harness(self, name="harness", tags=("verif",), race=False, extra_flags=(), extra_overlay_dir=None, std_overlay_dir=None):
        hdir = os.path.join(VERIF, "harness")
        extra_flags = tuple(extra_flags) + ("-modfile=" + self.modfile(),)
        out = os.path.join(self.work, name)
        overlay = make_overlay(self.work)
        if extra_overlay_dir or std_overlay_dir:
            # files under extra_overlay_dir/<path> REPLACE /repo/<path> in this build only;
            # files under std_overlay_dir/<path> REPLACE $GOROOT/src/<path> (environment models, e.g. an adversarial sync.Pool)
            ov = json.load(open(overlay))
            goroot = sh(["go", "env", "GOROOT"], timeout=60).stdout.strip()
            for odir, base in ((extra_overlay_dir, REPO), (std_overlay_dir, os.path.join(goroot, "src"))):
                if not odir:
                    continue
                for root, _, files in os.walk(odir):
                    for fn in files:
                        if fn.endswith(".go"):
                            rel = os.path.relpath(os.path.join(root, fn), odir)
                            if not os.path.exists(os.path.join(base, rel)):
                                raise Infra("overlay target %s does not exist" % os.path.join(base, rel))
                            ov["Replace"][os.path.join(base, rel)] = os.path.join(root, fn)
            overlay = os.path.join(self.work, name + "_overlay.json")
            json.dump(ov, open(overlay, "w"))
        cmd = ["go", "build", "-tags", ",".join(tags), "-overlay", overlay, "-o", out]
        if race:
            cmd.append("-race")
        if COVER_DIR and os.environ.get("VERIF_HOOKS_MATERIALIZED") and not extra_overlay_dir and not std_overlay_dir:
            # coverage mode (tools/coverage_run.sh): REPO is a scratch copy with the hooks materialised; -coverpkg only
            # instruments packages of the main module, so the driver is built as a command INSIDE that copy
            os.makedirs(COVER_DIR, exist_ok=True)
            hdir = os.path.join(REPO, "cmd", "verifharness")
            os.makedirs(hdir, exist_ok=True)
            for fn in os.listdir(os.path.join(VERIF, "harness")):
                if fn.endswith(".go"):
                    shutil.copy(os.path.join(VERIF, "harness", fn), hdir)
            cmd = ["go", "build", "-cover", "-covermode=atomic", "-coverpkg=./...", "-tags", ",".join(tags), "-o", out] + (["-race"] if race else []) + ["./cmd/verifharness"]
            hdir = REPO
        else:
            cmd += list(extra_flags) + ["."]
        t = time.time()
        p = sh(cmd, cwd=hdir, timeout=1500, check=False)
        if p.returncode != 0:
            raise Infra("harness build failed:\n" + p.stdout[-6000:])
        log("built %s in %.1fs" % (name, time.time() - t))
        return out

    def build_instrumented(self, files, name="harness_instr", tags=("verif",), race=False):
        """Builds the harness against copies of `files` (paths under /repo) instrumented at check time
        by tools/instrument (sync-point reporting to utils/verifhook)."""
        idir = os.path.join(VERIF, "tools", "instrument")
        tool = os.path.join(self.work, "instrument")
        if not os.path.exists(tool):
            sh(["go", "build", "-o", tool, "."], cwd=idir, timeout=600)
        odir = tempfile.mkdtemp(prefix="instr-", dir=self.work)
        p = sh([tool, "-out", odir] + [os.path.join(REPO, f) for f in files], timeout=600)
        ov = json.load(open(make_overlay(self.work)))
        n = 0
        for ln in p.stdout.splitlines():
            o, c, k = ln.split("\t")
            ov["Replace"][o] = c
            n += int(k)
        ovp = os.path.join(self.work, name + "_overlay.json")
        json.dump(ov, open(ovp, "w"))
        hdir = os.path.join(VERIF, "harness")
        out = os.path.join(self.work, name)
        cmd = ["go", "build", "-modfile=" + self.modfile(), "-tags", ",".join(tags), "-overlay", ovp, "-o", out] + (["-race"] if race else []) + ["."]
        pr = sh(cmd, cwd=hdir, timeout=1800, check=False)
        if pr.returncode != 0:
            raise Infra("instrumented harness build failed:\n" + pr.stdout[-6000:])
        log("built %s with %d sync points in %d files" % (name, n, len(files)))
        self.extra.setdefault("instrumented_sync_points", 0)
        self.extra["instrumented_sync_points"] += n
        return out

    def run_harness(self, binary, args, env=None, timeout=1800):
        if COVER_DIR:
            env = dict(env or {})
            env["GOCOVERDIR"] = COVER_DIR
        p = sh([binary] + args, env=env, timeout=timeout, check=False)
        if p.returncode != 0:
            msg = classify_crash(p.stdout or "")
            if msg:
                raise Crash(msg, p.stdout)
            raise Infra("harness %s failed (%d):\n%s" % (" ".join(args), p.returncode, p.stdout[-4000:]))
        return p.stdout

    def crash_violation(self, ex, what):
        """Records a crash of the driver inside gnark-crypto code as a rejected behaviour."""
        self.rejected.append({"trace": "(process crash)", "index": 0, "reason": "crash",
                              "event": {"op": "crash", "what": what, "msg": str(ex), "report": ex.output[-3000:]},
                              "hdr": {"property": self.prop}})

    # -- TLC ------------------------------------------------------------------------------
    def tlc(self, specdir, module, cfg=None, env=None, workers=1, timeout=1800, heap="2g", pure=False,
            extra=(), simulate=None):
        """Runs TLC on spec/<specdir>/<module>.tla. Returns a result dict."""
        d = os.path.join(VERIF, "spec", specdir)
        meta = tempfile.mkdtemp(prefix="meta-", dir=self.work)
        cp = TLA_JARS if pure else os.path.join(VERIF, "accel", "classes") + ":" + TLA_JARS
        lib = ":".join(os.path.join(VERIF, "spec", x) for x in ("lib", "params"))
        jtmp = os.path.join(self.work, "jtmp")     # TLC unpacks its standard modules into java.io.tmpdir and leaves them there
        os.makedirs(jtmp, exist_ok=True)
        cmd = ["java", "-XX:+UseSerialGC", "-Xss64m", "-Xmx" + heap, "-Djava.io.tmpdir=" + jtmp, "-DTLA-Library=" + lib, "-cp", cp, "tlc2.TLC",
               "-metadir", meta, "-workers", str(workers), "-noGenerateSpecTE",
               "-config", (cfg or module) + ".cfg"]
        if simulate:
            cmd += ["-simulate", simulate]
        cmd += list(extra) + [module + ".tla"]
        e = dict(os.environ)
        e["VERIF_SEED"] = str(self.seed)
        if env:
            e.update(env)
        t = time.time()
        try:
            p = subprocess.run(cmd, cwd=d, env=e, stdout=subprocess.PIPE, stderr=subprocess.STDOUT, text=True,
                               timeout=timeout)
        except subprocess.TimeoutExpired:
            raise Infra("TLC timeout on %s/%s" % (specdir, module))
        finally:
            shutil.rmtree(meta, ignore_errors=True)
        out = p.stdout
        res = {"spec": "%s/%s" % (specdir, cfg or module), "wall_s": round(time.time() - t, 2), "out": out,
               "rc": p.returncode, "generated": 0, "distinct": 0, "bad": None, "done": None, "lines": []}
        m = re.search(r"(\d+) states generated, (\d+) distinct states found", out)
        if m:
            res["generated"], res["distinct"] = int(m.group(1)), int(m.group(2))
        for ln in out.splitlines():
            if ln.startswith('<<"VERIF_BAD"'):
                js = json.loads(ln[len('<<"VERIF_BAD", '):-2])
                res["bad"] = json.loads(js)
            elif ln.startswith('<<"VERIF_DONE"'):
                res["done"] = int(re.search(r"(\d+)>>", ln).group(1))
            elif ln.startswith('<<"VERIF_'):
                res["lines"].append(ln)
        res["violated"] = re.findall(r"Error: Invariant (\S+) is violated|Error: Action property (\S+) is violated|"
                                     r"Error: Temporal properties were violated|Error: Deadlock reached", out)
        res["ok"] = (p.returncode == 0 and "Model checking completed. No error has been found." in out) or \
                    (simulate is not None and p.returncode == 0)
        return res

    def model_check(self, specdir, module, cfg=None, expect_violation=None, **kw):
        """Exhaustive model checking of a design-level config. A failing MC is an infrastructure /
        specification problem (exit 2): it does not depend on the code under test."""
        r = self.tlc(specdir, module, cfg, **kw)
        name = r["spec"]
        if expect_violation:
            if not any(expect_violation in "".join(v) for v in r["violated"]) and expect_violation not in r["out"]:
                raise Infra("negative self-test %s: expected violation of %s not reported\n%s" %
                            (name, expect_violation, r["out"][-3000:]))
            log("MC %-40s negative self-test bites (%s) %.1fs" % (name, expect_violation, r["wall_s"]))
        else:
            if not r["ok"]:
                raise Infra("model checking %s failed:\n%s" % (name, r["out"][-5000:]))
            log("MC %-40s %d states / %d distinct, %.1fs" % (name, r["generated"], r["distinct"], r["wall_s"]))
        self.mc.append({"spec": name, "generated": r["generated"], "distinct": r["distinct"], "wall_s": r["wall_s"],
                        "negative_selftest": bool(expect_violation)})
        return r

    def validate_traces(self, specdir, module, traces, cfg=None, heap="2g", timeout=1800, par=None, env=None):
        """Validates each ndjson trace file with the trace spec (one JVM per file, in parallel)."""
        par = par or NCPU

        def one(tr):
            e = {"VERIF_TRACE": tr}
            if env:
                e.update(env)
            return tr, self.tlc(specdir, module, cfg, env=e, heap=heap, timeout=timeout)

        with cf.ThreadPoolExecutor(max_workers=par) as ex:
            results = list(ex.map(one, traces))
        for tr, r in results:
            nev = count_lines(tr) - 1
            if not r["ok"] or r["done"] is None or r["bad"] is None or r["done"] != nev:
                raise Infra("trace validation of %s did not complete (done=%s of %d)\n%s" %
                            (tr, r["done"], nev, r["out"][-5000:]))
            self.tv.append({"trace": os.path.basename(tr), "events": nev, "states": r["distinct"],
                            "rejected": len(r["bad"]), "wall_s": r["wall_s"]})
            if r["bad"]:
                evs = read_lines(tr, {b[0] for b in r["bad"]})
                hdr = read_lines(tr, {1})[1]
                for idx, reason in r["bad"]:
                    self.rejected.append({"trace": tr, "index": idx, "reason": reason, "event": evs[idx], "hdr": hdr})
        return results

    # -- verdict --------------------------------------------------------------------------
    def finish(self, level="model_checking", rule="", assumptions=()):
        known_hits, violations = [], []
        for r in self.rejected:
            k = match_known(self.known, r)
            (known_hits if k else violations).append((r, k))
        seen = set()
        for r, k in known_hits:
            if k["id"] not in seen:
                seen.add(k["id"])
                log("KNOWN-FINDING: property=%s %s: %s" % (self.prop, k["id"], k["what"]))
        replay = None
        if violations:
            os.makedirs(os.path.join(OUT, "replays"), exist_ok=True)
            replay = os.path.join(OUT, "replays", "%s-seed%d.json" % (self.prop, self.seed))
            with open(replay, "w") as f:
                json.dump({"property": self.prop, "seed": self.seed, "tier": self.tier,
                           "rejected": [dict(r, trace=os.path.basename(r["trace"])) for r, _ in violations[:200]]},
                          f, indent=1)
            for r, _ in violations[:12]:
                log("REJECTED %s #%d reason=%s %s" % (os.path.basename(r["trace"]), r["index"], r["reason"],
                                                      json.dumps(r["event"])[:400]))
        states = sum(m["distinct"] for m in self.mc) + sum(t["states"] for t in self.tv)
        trans = sum(m["generated"] for m in self.mc) + sum(t["events"] for t in self.tv)
        cov = {
            "states": states,
            "transitions": trans,
            "traces_validated_against_impl": len(self.tv),
            "samples": self.samples[:8] or ["(none)"],
            "events_validated": sum(t["events"] for t in self.tv),
            "events_rejected": len(self.rejected),
            "known_finding_events": len(known_hits),
            "model_checking_runs": self.mc,
            "trace_validation_runs": self.tv if len(self.tv) <= 40 else
            {"count": len(self.tv), "events": sum(t["events"] for t in self.tv), "first": self.tv[:5]},
            "rule": rule,
            "exhaustive": False,
        }
        cov.update(self.extra)
        ev = {"property_id": self.prop, "tier": self.tier, "seed": self.seed, "level": level, "coverage": cov,
              "assumptions": list(assumptions) + self.notes, "wall_s": round(time.time() - self.t0, 1),
              "violations": len(violations)}
        # extensions beyond the listed properties (ids X..) keep their evidence apart from the properties' evidence
        evdir = "evidence" if not self.prop.startswith("X") else os.path.join("extras", "evidence")
        os.makedirs(os.path.join(OUT, evdir), exist_ok=True)
        with open(os.path.join(OUT, evdir, self.prop + ".json"), "w") as f:
            json.dump(ev, f, indent=1)
        log("%s tier=%s seed=%d: %d MC runs (%d states), %d traces / %d events validated, %d rejected (%d known), %.0fs" %
            (self.prop, self.tier, self.seed, len(self.mc), sum(m["distinct"] for m in self.mc), len(self.tv),
             cov["events_validated"], len(self.rejected), len(known_hits), time.time() - self.t0))
        if violations:
            log("VIOLATION property=%s replay=%s" % (self.prop, replay))
            return 1
        return 0


def count_lines(path):
    n = 0
    with open(path, "rb") as f:
        for _ in f:
            n += 1
    return n


def read_lines(path, idxs):
    out = {}
    with open(path) as f:
        for i, ln in enumerate(f, 1):
            if i in idxs:
                out[i] = json.loads(ln)
    return out


def make_overlay(work):
    """Overlay that injects /verif/hooks/<pkgpath>/*.go into the corresponding /repo package as new
    files (export shims, build tag verif). Nothing in /repo is modified."""
    rep = {}
    hooks = os.path.join(VERIF, "hooks")
    for root, _, files in os.walk(hooks if not os.environ.get("VERIF_HOOKS_MATERIALIZED") else os.devnull):
        for fn in files:
            if fn.endswith(".go"):
                rel = os.path.relpath(os.path.join(root, fn), hooks)
                rep[os.path.join(REPO, rel)] = os.path.join(root, fn)
    p = os.path.join(work, "overlay.json")
    with open(p, "w") as f:
        json.dump({"Replace": rep}, f)
    return p


# -- known findings ---------------------------------------------------------------------------

def load_known(prop):
    p = os.path.join(VERIF, "known-findings.jsonl")
    out = []
    if os.path.exists(p):
        for ln in open(p):
            ln = ln.strip()
            if not ln or ln.startswith("#"):
                continue
            k = json.loads(ln)
            if k.get("property") == prop and k.get("status") == "open":
                out.append(k)
    return out


def match_known(known, r):
    """A rejected event matches an open finding when every listed key matches: `op`, `reason`, `field`
    (lists / globs against the event, the rejection reason, the trace header) and `expr` (a Python
    expression over the event e and header h) holds."""
    e, h = r["event"], r["hdr"]
    for k in known:
        m = k.get("match", {})
        if "op" in m and not any(fnmatch.fnmatch(str(e.get("op", "")), x) for x in m["op"]):
            continue
        if "reason" in m and r["reason"] not in m["reason"]:
            continue
        if "field" in m and not any(fnmatch.fnmatch(str(h.get("field", h.get("curve", ""))), x) for x in m["field"]):
            continue
        if "config" in m and not any(fnmatch.fnmatch(str(h.get("config", "")), x) for x in m["config"]):
            continue
        if "expr" in m:
            try:
                if not eval(m["expr"], {"__builtins__": {}}, {"e": e, "h": h, "len": len, "any": any, "all": all}):
                    continue
            except Exception:
                continue
        return k
    return None


def main_wrapper(fn, prop):
    import argparse
    ap = argparse.ArgumentParser()
    ap.add_argument("--tier", default=os.environ.get("VERIF_TIER", "quick"))
    ap.add_argument("--replay")
    ap.add_argument("--keep", action="store_true")
    a = ap.parse_args(sys.argv[2:])
    seed = int(os.environ.get("VERIF_SEED", "1"))
    if a.replay:
        # a replay file names the seed and tier of the run that produced it; drivers are deterministic functions of the seed,
        # so re-running the check with them reproduces the recorded rejected events (compared at the end)
        rp = json.load(open(a.replay))
        seed, a.tier = int(rp.get("seed", seed)), rp.get("tier", a.tier)
        log("replay of %s: seed %d, tier %s, %d recorded rejected events" % (a.replay, seed, a.tier, len(rp.get("rejected", []))))
    ctx = Ctx(prop, a.tier, seed)
    try:
        rc = fn(ctx)
    except Crash as ex:
        # a check that did not handle the crash itself: still a behaviour of the real code
        ctx.crash_violation(ex, "driver crashed")
        rc = ctx.finish(rule="driver crashed inside gnark-crypto code before the run completed")
    except Infra as ex:
        log("INFRA-ERROR %s: %s" % (prop, ex))
        rc = 2
    except subprocess.TimeoutExpired as ex:
        log("INFRA-ERROR %s: timeout %s" % (prop, ex))
        rc = 2
    finally:
        if a.replay:
            now = {(os.path.basename(r["trace"]), r["index"], r["reason"]) for r in ctx.rejected}
            was = {(r["trace"], r["index"], r["reason"]) for r in rp.get("rejected", [])}
            log("replay: %d of the %d recorded rejected events recur" % (len(now & was), len(was)))
        if not a.keep:
            ctx.cleanup()
        else:
            log("work dir kept: " + ctx.work)
    sys.exit(rc)
