"""C03 — scalar multiplication equals repeated addition for every integer scalar."""
import glob
import os

from .core import log


def run(ctx):
    # the oracle itself (double-and-add on the textbook law) is model-checked against repeated addition in
    # C02_group/MCGroupLaw.ScalarMulLaws and MCEdwards.ScalarMulLaws; the decomposition/recoding models are C03's own
    ctx.model_check("C02_group", "MCGroupLaw", workers=8, heap="4g")
    ctx.model_check("C03_scalarmul", "MCRecoding", workers=8, heap="4g")
    ctx.model_check("C03_scalarmul", "MCRecoding", cfg="MCRecodingNeg", expect_violation="IndexInRange", workers=2)
    b = ctx.build_harness("harness")
    tdir = os.path.join(ctx.work, "traces")
    os.makedirs(tdir)
    log(ctx.run_harness(b, ["c03", "-out", tdir, "-seed", str(ctx.seed), "-tier", ctx.tier]).strip().splitlines()[-1])
    w = sorted(glob.glob(os.path.join(tdir, "c03_*.ndjson")))
    ed = sorted(glob.glob(os.path.join(tdir, "c03ed_*.ndjson")))
    ctx.validate_traces("C03_scalarmul", "TraceScalarMul", w, timeout=3000)
    ctx.validate_traces("C03_scalarmul", "TraceScalarMulEd", ed)
    ctx.samples = [{"trace": os.path.basename(w[0]), "events": open(w[0]).readlines()[5:7]}]
    return ctx.finish(
        rule="one event per scalar-multiplication call (affine/Jacobian ScalarMultiplication[Base], mulWindowed, mulGLV, Joint*, "
             "BatchScalarMultiplication, Edwards affine/projective/extended); scalars from the lattice {0,+-1,2,r-1,r,r+1,-r,2^64,2^128-1,"
             "2^255,2^256,2^256+5,3r+7,600-bit,-(2^320+1),...} + seeded random; points {G, random kG (rescaled), O}",
        assumptions=["oracle: double-and-add over the textbook affine law (Weierstrass!WMul / TwistedEdwards!EMul), independent of every library formula"])
