"""C11 — KZG openings are complete and verification accepts exactly the true claims."""
import concurrent.futures as cf
import glob
import json
import os

from .core import Crash, Infra, log

SPEC = "C11_kzg"

# (cfg, workers) — measured distinct states in the comments
MC_QUICK = [("MCKZG", 4),          # r=13, sizes 2,3, every trapdoor, every Commit/Open/Verify argument: 1 209 390 states
            ("MCKZG_batch", 4),    # r=5, size 2, batches of <= 2, every gamma:                            526 380
            ("MCKZG_hist", 4),     # r=5, histories of depth 4 on one key (commit/open/tamper/verify/reload): 193 338
            ("MCKZG_multi", 3)]    # r=3, every pair of forged tuples, every lambda:                        19 935
MC_THOROUGH = [("MCKZG_r17", 8),   # r=17, sizes 2,3
               ("MCKZG_multi5", 5),  # r=5, every pair of forged tuples
               ("MCKZG_multi3", 3),  # r=3, every triple of forged tuples
               ("MCKZG_hist5", 4)]   # depth 5
# negative self-tests: deliberately wrong variants of the machine must be caught
MC_NEGATIVE = [("MCKZG_F7", "Completeness"),        # Open refuses the empty quotient (the code as it is: defect F7)
               ("MCKZG_noneg", "ExactAcceptance")]  # Verify forgets to negate the point

# The empty-batch probes (BatchOpenSinglePoint / FoldProof / BatchVerifySinglePoint with zero digests panic, one of them in a
# goroutine) are not driven: C11 quantifies over batch sizes of proofs, totality on the empty batch is not part of the statement.
PROBES = []


def _strip(line, n=1200):
    e = json.loads(line)
    for k in ("in", "out", "inafter", "pk", "g2", "dbytes", "rnd"):
        if k in e and len(json.dumps(e[k])) > 300:
            e[k] = "(%d bytes of json omitted)" % len(json.dumps(e[k]))
    s = json.dumps(e, separators=(",", ":"))
    return e if len(s) <= n else s[:n] + "..."


def _sample(path, ops):
    got = []
    want = set(ops)
    with open(path) as f:
        next(f)
        for ln in f:
            e = json.loads(ln)
            if e.get("op") in want and len(ln) < 6000:
                got.append(_strip(ln))
                want.discard(e["op"])
                if not want:
                    break
    return got


def run(ctx):
    thorough = ctx.tier == "thorough"
    par = int(os.environ.get("VERIF_PAR", "0")) or None
    mcs = MC_QUICK + (MC_THOROUGH if thorough else [])

    def mc_all():
        for cfg, w in mcs:
            # the enumeration is per initial state (one per trapdoor and size): more workers than that do not help
            ctx.model_check(SPEC, "MCKZG", cfg=cfg, workers=w if par else 2 * w, heap="4g", timeout=2400)
        for cfg, inv in MC_NEGATIVE:
            ctx.model_check(SPEC, "MCKZG", cfg=cfg, expect_violation=inv, workers=2)

    # (MC) design level, independent of the code under test; runs beside build + drive (sequentially when VERIF_PAR
    # caps the number of JVMs)
    pool = cf.ThreadPoolExecutor(max_workers=1)
    fut = pool.submit(mc_all)
    if par:
        fut.result()

    # (TV) the real code
    binary = ctx.build_harness("harness")
    tdir = os.path.join(ctx.work, "traces")
    os.makedirs(tdir)
    out = ctx.run_harness(binary, ["c11", "-out", tdir, "-seed", str(ctx.seed), "-tier", ctx.tier])
    log(out.strip().splitlines()[-1])
    # calls that can take the process down (a panic in a goroutine of the library): one process per curve
    pdir = os.path.join(ctx.work, "probes")
    os.makedirs(pdir)
    curves = sorted({os.path.basename(t).split("_")[1] for t in glob.glob(os.path.join(tdir, "c11_*.ndjson"))})
    for probe in PROBES:
        for c in curves:
            try:
                ctx.run_harness(binary, ["c11", "-out", pdir, "-seed", str(ctx.seed), "-tier", ctx.tier, "-curves", c,
                                         "-probe", probe], timeout=300)
            except Crash as ex:
                ctx.crash_violation(ex, "probe %s curve %s: BatchOpenSinglePoint with an empty batch killed the process" % (probe, c))
                ctx.rejected[-1]["hdr"]["curve"] = c
                # keep only what the (valid) prefix of the trace holds
                p = os.path.join(pdir, "c11_%s_probe_%s.ndjson" % (c, probe))
                if os.path.exists(p):
                    os.rename(p, p + ".crashed")
    traces = sorted(glob.glob(os.path.join(tdir, "c11_*.ndjson")) + glob.glob(os.path.join(pdir, "c11_*.ndjson")),
                    key=os.path.getsize, reverse=True)
    if len(traces) < 7:
        raise Infra("c11 harness wrote no traces")
    ctx.validate_traces(SPEC, "TraceKZG", traces, heap="3g", par=par or 8, timeout=3000)
    fut.result()
    pool.shutdown()

    per_curve, per_op = {}, {}
    for t in ctx.tv:
        c = t["trace"].split("_")[1]
        per_curve[c] = per_curve.get(c, 0) + t["events"]
    for tr in traces:
        with open(tr) as f:
            next(f)
            for ln in f:
                op = ln[ln.find('"op":"') + 6:]
                op = op[:op.find('"')]
                per_op[op] = per_op.get(op, 0) + 1
    ctx.extra["events_per_curve"] = per_curve
    ctx.extra["events_per_entry_point"] = per_op
    ctx.extra["harness_summary"] = out.strip().splitlines()[-1]
    ctx.extra["exhaustive_note"] = ("the MC runs enumerate their finite spaces completely (every trapdoor, polynomial, point, forged "
                                   "tuple, challenge and random factor at r = 13 / 5 / 3); at curve size the for-all is sampled")
    first = [t for t in traces if "_bn254_" in t] or traces
    pick = lambda part: [t for t in first if t.endswith("_%s.ndjson" % part)]
    samples = []
    for part, ops in (("single", ["NewSRS", "Open"]), ("forge", ["Verify"]), ("batch", ["BatchVerifySinglePoint"]),
                      ("multi", ["BatchVerifyMultiPoints"]), ("serial", ["RoundTrip"])):
        for t in pick(part)[:1]:
            samples.append({"trace": os.path.basename(t), "events": _sample(t, ops)})
    ctx.samples = samples
    return ctx.finish(
        rule="one event = one public call of ecc/<curve>/kzg on a reference string with known trapdoor (NewSRS, Commit, Open, Verify, "
             "BatchOpenSinglePoint, FoldProof, BatchVerifySinglePoint, BatchVerifyMultiPoints, one write+read round trip of SRS / "
             "ProvingKey / VerifyingKey / OpeningProof / BatchOpeningProof / MpcSetup), judged by TLC against KZGMachine: returned points "
             "against [k]G1 for the exponent the machine prescribes, acceptance of each (commitment, quotient, value, point) tuple against "
             "c - v = (tau - z) h, the Fiat-Shamir challenge recomputed with the JDK's SHA-256/512, the random factors of the multi-point "
             "check recomputed from the recorded random bytes; inputs: every polynomial over {0,1,r-1} of every length on the strings of "
             "size 2 and 3 at z in {0,1,tau}, boundary lengths {1,2,n-1,n} on sizes 8 and 64 (zero, constant, monomial, with a root at z, "
             "z = tau), the model's alteration lattice (each component +-1, the families z = tau and h = 0, swapped / negated / identity), "
             "forged true and false tuples as scalar multiples of G1, batch sizes 0..4 (7 thorough) with equal / different lengths, dirty "
             "hash objects, extra transcript data, chosen random bytes (zero factors, resampling), shape errors, eight kinds of alpha for "
             "NewSRS incl. the quick mode; seeded random polynomials, points, tuples; distinct cases = distinct events; states = TLC states "
             "of the MC runs plus one per validated event",
        assumptions=[
            "the trapdoor is known to the specification: NewSRS(size, alpha) strings only (registers checked against [tau^i]G1, [tau]G2); "
            "strings from the MPC ceremony have no known trapdoor and are covered by their serialisation round trip only",
            "forged tuples are scalar multiples of the generator with the scalar declared by the harness and re-derived by the "
            "specification (every subgroup element is one; points outside the subgroup are outside the property)",
            "the precomputed pairing lines of the verifying key are observed through the verdicts of Verify and through fingerprints of "
            "the raw key memory before/after every call, not recomputed by the specification (pairing correctness is C05)",
            "digests enter the Fiat-Shamir transcript as the bytes G1Affine.Marshal returned; the specification checks them to be the "
            "big-endian coordinates of the logged point, the point codec itself is C07",
            "the random factors of BatchVerifyMultiPoints are recomputed from the bytes read from the substituted crypto/rand.Reader "
            "by the documented mapping of fr.Element.SetRandom; if the bytes do not have that shape only 'all true => accept, some false => "
            "reject' is demanded (a false alarm then needs a 1/r event)",
            "permissive where the property is silent: SRS size < 2, batch opening with different numbers of digests and polynomials "
            "(no panic), an empty batch (an error or the empty answer, no panic), an MPC setup serialised before its first contribution; "
            "error texts are not compared",
            "fingerprints are SHA-256 of the raw limbs walked by reflection (read only); 'mutated-*' compares two such fingerprints",
            "the thorough tier does not re-run on code regenerated from kzg.go.tmpl (DESIGN 2.3a): the seven generated packages are "
            "driven directly",
        ])
