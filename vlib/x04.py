"""X04 (extension, not a listed property) - the curve identifiers of package ecc (names, IDFromString, the two moduli)."""
import glob
import os

from .core import Crash, log


def run(ctx):
    b = ctx.build_harness("harness")
    tdir = os.path.join(ctx.work, "traces")
    os.makedirs(tdir)
    try:
        log(ctx.run_harness(b, ["x04", "-out", tdir, "-seed", str(ctx.seed), "-tier", ctx.tier]).strip().splitlines()[-1])
        tr = sorted(glob.glob(os.path.join(tdir, "x04_*.ndjson")))
        ctx.validate_traces("X04_eccid", "TraceEccID", tr)
        ctx.samples = [{"trace": os.path.basename(tr[0]), "events": open(tr[0]).readlines()[1:3]}]
    except Crash as ex:
        ctx.crash_violation(ex, "ecc identifiers driver")
    return ctx.finish(
        rule="every identifier 0..14: String / ScalarField / BaseField against the table of names and the frozen moduli of <curve>/fr and "
             "<curve>/fp, second call after the caller overwrote the first results; Implemented(); IDFromString on every name in lower, "
             "upper and mixed case, with padding, truncated, with other separators, and on unknown names",
        assumptions=["identifiers outside the table have no name: a panic is accepted there (the code documents it) and nowhere else",
                     "not a listed property: an extension of the specification (DESIGN.md 11.7)"])
