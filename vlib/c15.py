"""C15 — Fiat-Shamir transcript obeys its sequential specification on every call history."""
import glob
import json
import os

from .core import log

SPECDIR = "C15_transcript"

# (cfg, workers) — NNames / MaxDepth are in the cfg files; measured state counts in the comments
MC_QUICK = ["MCTranscript_n1",   # 1 name,  depth 8:     22 011 distinct states
            "MCTranscript_n2",   # 2 names, depth 7:    312 023
            "MCTranscript",      # 3 names, depth 6:    395 629
            "MCTranscript_n4"]   # 4 names, depth 5:    see evidence
MC_THOROUGH = ["MCTranscript_n1t",   # 1 name,  depth 10:   124 486
               "MCTranscript_n2t",   # 2 names, depth 8:  1 489 474
               "MCTranscript_n3t",   # 3 names, depth 7:  2 830 900
               "MCTranscript_n4t"]   # 4 names, depth 6:  1 553 988
# negative self-tests: heap-level variants that alias a slice with the caller must be rejected
MC_NEGATIVE = [("MCTranscript_F11", "Refines"),          # repeated ComputeChallenge returns the cached slice itself
               ("MCTranscript_nobindcopy", "Refines"),   # Bind keeps the caller's slice
               ("MCTranscript_nostorecopy", "Refines")]  # the cache is the slice returned by the first call


def _strip(line, n=900):
    """One logged event as a sample, without the bulky reflection snapshot."""
    e = json.loads(line)
    e.pop("st", None)
    s = json.dumps(e, separators=(",", ":"))
    return e if len(s) <= n else s[:n] + "..."


def run(ctx):
    # (MC) the sequential specification + heap-level model of the object, every history up to MaxDepth
    for cfg in MC_QUICK + (MC_THOROUGH if ctx.tier == "thorough" else []):
        ctx.model_check(SPECDIR, "MCTranscript", cfg=cfg, workers=8, heap="6g", timeout=1500)
    for cfg, inv in MC_NEGATIVE:
        ctx.model_check(SPECDIR, "MCTranscript", cfg=cfg, expect_violation=inv, workers=2)

    # (TV) histories on the real object: exhaustive words over the model's alphabet, edge cases, seeded random
    binary = ctx.build_harness("harness")
    tdir = os.path.join(ctx.work, "traces")
    os.makedirs(tdir)
    out = ctx.run_harness(binary, ["c15", "-out", tdir, "-seed", str(ctx.seed), "-tier", ctx.tier])
    log(out.strip().splitlines()[-1])
    traces = sorted(glob.glob(os.path.join(tdir, "c15_*.ndjson")))
    par = int(os.environ["VERIF_PAR"]) if os.environ.get("VERIF_PAR") else None
    ctx.validate_traces(SPECDIR, "TraceTranscript", traces, par=par)

    per = {}
    for t in ctx.tv:
        key = "_".join(t["trace"].split("_")[1:-1])
        per[key] = per.get(key, 0) + t["events"]
    ctx.extra["events_per_hash_and_generator"] = per
    ctx.extra["harness_summary"] = out.strip().splitlines()[-1]
    ctx.extra["exhaustive_note"] = ("MC runs and the 'exh' traces enumerate their bounded history spaces completely; "
                                   "the for-all over byte values and longer histories is sampled")
    samples = []
    for pat, lines in (("c15_sha256_exh_", (2, 10)), ("c15_mimc_bn254_edge_", (300, 306)), ("c15_sha256_rand_", (2, 8))):
        fs = [t for t in traces if os.path.basename(t).startswith(pat)]
        if fs:
            with open(fs[0]) as f:
                ls = f.readlines()
            samples.append({"trace": os.path.basename(fs[0]), "events": [_strip(x) for x in ls[lines[0] - 1:lines[1]]]})
    ctx.samples = samples
    return ctx.finish(
        rule="one event = one call of NewTranscript / Bind / ComputeChallenge on the real object or one caller-side event "
             "(overwrite a bound slice, overwrite a returned challenge, write into the shared hash), each judged by TLC "
             "against FSTranscript together with the private state read by reflection after the event; histories: all words "
             "of length D over the model alphabet (Bind(name|unknown, 2 values), Compute(name|unknown), MutBound, MutRet) for "
             "1..4 names + drain, directed edge cases (names, lengths, order permutations, refused MiMC writes, shared "
             "slices), seeded random long histories; hashes SHA-256, MiMC bn254, MiMC bw6-761 behind a recording hash.Hash",
        assumptions=[
            "challenge names of one transcript are pairwise distinct (NewTranscript with duplicates is outside the property)",
            "the hash is observed at its hash.Hash interface: SHA-256 digests are recomputed by the JDK (HashOps), MiMC digests "
            "are taken from the real MiMC as an uninterpreted function of the recorded input (MiMC itself is C14)",
            "when the hash refuses a Write (MiMC: not a field element / bad length) the specification accepts an error that "
            "changes nothing; the property text is silent about it",
            "error texts are not compared, only whether a call was refused",
            "private state is read with reflect (read only); if the struct layout changes the harness drops these fields and "
            "the judgement falls back to replies and hash inputs only",
            "byte values and history lengths beyond the enumerated bounds are sampled (seeded), not exhausted",
        ])
