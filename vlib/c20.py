"""C20 — polynomial values are invariant under every change of representation."""
import concurrent.futures as cf
import glob
import json
import os

from .core import log

SPEC = "C20_polyform"
# (module, cfg, expected violated invariant or None)
MC = [("MCPolyForm", "MCPolyHeap", None),          # two handles (Clone / ShallowClone / round trip), integer shifts, SetSize
      ("MCPolyForm", "MCPolyForm", None),          # form graph: every conversion history of length <= 4 from the 6 forms
      ("MCMultiLin", "MCMultiLin", None),          # bookkeeping tables: Fold / Evaluate / Eq / EvalEq
      ("MCPolyForm", "MCPolyBuilders", None),      # quotient by X^n-1, builder delivery in every form, DFT / FFT-contract laws
      ("MCMultiLin", "MCInterp", None),            # cached Lagrange basis on 0..n-1
      ("MCPolyForm", "MCPolyNegShift", "EvalInv"),  # negative self-tests: the implementation's defects, put into the
      ("MCPolyForm", "MCPolyNegBary", "EvalInv"),   # machine, must be caught by the invariants
      ("MCMultiLin", "MCMultiLinNeg", "EvalEqInv")]


def run(ctx):
    # (MC) design-level model checking; independent of the code under test: runs beside build, drive and validation
    ex = cf.ThreadPoolExecutor(max_workers=3)
    try:
        futs = [ex.submit(ctx.model_check, SPEC, mod, cfg, expect_violation=neg, workers=4, heap="3g", timeout=1500)
                for mod, cfg, neg in MC]
        binary = ctx.build_harness("harness")
        # (TV) drive the real code: model-derived histories + seeded random ones, one trace file per scenario family
        tdir = os.path.join(ctx.work, "traces")
        os.makedirs(tdir)
        out = ctx.run_harness(binary, ["c20", "-out", tdir, "-seed", str(ctx.seed), "-tier", ctx.tier])
        log(out.strip().splitlines()[-1])
        iop = sorted(glob.glob(os.path.join(tdir, "c20_iop_*.ndjson")), key=os.path.getsize, reverse=True)
        pol = sorted(glob.glob(os.path.join(tdir, "c20_poly_*.ndjson")))
        par = int(os.environ.get("VERIF_PAR", "0")) or None      # default: one JVM per core
        ctx.validate_traces(SPEC, "TracePoly", iop, heap="3g", par=par, timeout=3000)
        ctx.validate_traces(SPEC, "TraceUniPoly", pol, par=par, timeout=3000)
        for f in futs:
            f.result()
    finally:
        ex.shutdown(wait=True, cancel_futures=True)
    ctx.mc.sort(key=lambda m: m["spec"])
    ctx.tv.sort(key=lambda t: t["trace"])

    def sample(path, ops):
        evs = []
        for ln in open(path):
            e = json.loads(ln)
            if e.get("op") in ops:
                evs.append(ln.strip()[:700])
                ops.remove(e["op"])
            if not ops:
                break
        return {"trace": os.path.basename(path), "events": evs}

    graph = [t for t in iop if t.endswith("_graph.ndjson")]
    build = [t for t in iop if t.endswith("_build.ndjson")]
    ctx.samples = [sample(graph[0], {"New", "ToLagrangeCoset", "Evaluate", "GetCoeff"}),
                   sample(build[0], {"Divide", "RatioCopy"}),
                   sample(pol[0], {"Interpolate", "MLFold", "EvalEq"})]
    ctx.extra["fields_iop"] = sorted({os.path.basename(t).split("_")[2] for t in iop})
    ctx.extra["fields_polynomial"] = sorted({os.path.basename(t).split("_")[2] for t in pol})
    ctx.extra["families"] = sorted({os.path.basename(t).rsplit("_", 1)[1][:-7].rstrip("0123456789") for t in iop})
    return ctx.finish(
        rule="events = one public call each of fr/iop (7 scalar fields) and fr/polynomial (8), judged at its return. Inputs: "
             "(i) every word of length <= 3 (quick: on the field chosen by the seed, <= 2 elsewhere) / 4 (thorough) over {ToCanonical, ToLagrange, ToLagrangeCoset, ToRegular, "
             "ToBitReverse} from each of the 6 forms, on Clones; 15 shift classes x 7 point classes (random, 0, 1, domain, coset, "
             "-w, small) x 6 forms x sizes 1..16 (..64 thorough) incl. vectors extended to a 4x larger domain; clone / "
             "serialisation / SetSize scenarios; expression, quotient and ratio builders in every result form; "
             "(ii) seeded random histories over a heap of <= 4 handles. Distinct cases = distinct events",
        assumptions=[
            "for-all over coefficients, points and histories beyond the bounded enumeration is sampled on the code (seeded); "
            "exhaustive only on the small-constant models (q=17 order-8 domain; q=5 tables)",
            "the FFT entry points are taken at their C10 contract (DIF: natural -> bit-reversed, DIT the converse, coset scaling); "
            "the generator of the largest domain and the coset shift are read from the library and checked by the specification "
            "to have exact order nmax / to lie off the subgroup",
            "the layout chosen by a basis conversion and the serialisation byte format are not part of the property: the "
            "specification follows the logged layout and only demands that the round trip preserves every later observation",
            "not judged (nothing is claimed): Evaluate in coset form on a handle whose coset was never recorded "
            "(NewPolynomial / builders in LagrangeCoset form before ToLagrangeCoset), GetCoeff in canonical form under a shift, "
            "conversions with a domain smaller than the vector or extension of a non canonical/regular vector (not driven), "
            "shifts of the inputs of the ratio builders (they read Coefficients() directly; driven with shift 0 only), "
            "negative shifts inside iop.Evaluate / DivideByXMinusOne (GetCoeff panics in a worker goroutine: would kill the driver)",
            "java.math.BigInteger behind the BigNat accelerator (cross-checked against the pure TLA+ definitions in setup)"])
