"""C02 — point arithmetic implements the group law in every coordinate system."""
import glob
import os

from .core import log


def run(ctx):
    ctx.model_check("C02_group", "MCGroupLaw", workers=8, heap="4g")
    ctx.model_check("C02_group", "MCEdwards", workers=8, heap="4g")
    # EFD formulas + the code's dispatch, transcribed, against the affine law (all pairs, all Z scalings)
    ctx.model_check("C02_group", "MCFormulas", cfg="MCFormulasFull" if ctx.tier == "thorough" else "MCFormulas", workers=8, heap="4g")
    ctx.model_check("C02_group", "MCFormulas", cfg="MCFormulasNeg", expect_violation="FormulasRefineLaw", workers=2)
    b = ctx.build_harness("harness")
    tdir = os.path.join(ctx.work, "traces")
    os.makedirs(tdir)
    log(ctx.run_harness(b, ["c02", "-out", tdir, "-seed", str(ctx.seed), "-tier", ctx.tier]).strip().splitlines()[-1])
    w = sorted(glob.glob(os.path.join(tdir, "c02_*_G?.ndjson")))
    ed = sorted(glob.glob(os.path.join(tdir, "c02ed_*.ndjson")))
    ctx.validate_traces("C02_group", "TraceGroup", w)
    ctx.validate_traces("C02_group", "TraceEdwards", ed)
    ctx.samples = [{"trace": os.path.basename(w[0]), "events": open(w[0]).readlines()[40:42]}]
    return ctx.finish(
        rule="one event per point-method call; operands from {O, +-G, +-2G, 3G, random kG, curve points outside the subgroup, off-curve points} "
             "in affine / Jacobian / extended-Jacobian (and Edwards affine / projective / extended) representatives with random Z scalings; "
             "all ordered pairs x all methods; judged against the textbook affine law over the documented curve equations",
        assumptions=["curve parameters transcribed from package documentation (spec/params/CurveParams.tla), self-checked by ParamsCheck",
                     "operands are built with the library itself (construction only); the spec re-checks every precondition (on curve, canonical)"])
