"""C05 — pairings are bilinear, non-degenerate and identical across computation variants."""
import concurrent.futures as cf
import glob
import json
import os

from .core import log

SPEC = "C05_pairing"


def _sample(ev):
    """A compact rendering of one event for the evidence file (coordinates elided)."""
    keep = {k: ev[k] for k in ("op", "a", "b", "lid", "split", "ret", "err", "panic") if k in ev}
    if "out" in ev:
        keep["out"] = "<GT, %d top-level coefficients>" % len(ev["out"])
    return keep


def run(ctx):
    thorough = ctx.tier == "thorough"
    # (MC) design level: the algorithms of pairing.go transcribed onto a toy pairing (p, r) = (83, 7) and (59, 5),
    # checked exhaustively to implement PairingMachine (exponent model); two negative self-tests. The runs do not
    # depend on the code under test, so they proceed while the harness is built and driven.
    mcs = [("MCPairing", None), ("MCPairing5", None), ("MCPairingNegFilter", "Refines"), ("MCPairingNegInPlace", "Refines")]
    if thorough:
        mcs.insert(2, ("MCPairing5Full", None))
    pool = cf.ThreadPoolExecutor(max_workers=len(mcs))
    futs = [pool.submit(ctx.model_check, SPEC, "MCPairing", cfg=c, expect_violation=x, workers=4, heap="2g", timeout=1500)
            for c, x in mcs]
    try:
        b = ctx.build_harness("harness")
        tdir = os.path.join(ctx.work, "traces")
        os.makedirs(tdir)
        log(ctx.run_harness(b, ["c05", "-out", tdir, "-seed", str(ctx.seed), "-tier", ctx.tier], timeout=3000).strip().splitlines()[-1])
    finally:
        for f in futs:
            f.result()          # re-raises Infra of a failed model-checking run
        pool.shutdown()
    ctx.mc.sort(key=lambda m: m["spec"])
    # (TV) the real code, 7 curves, judged event by event; biggest shards first
    traces = sorted(glob.glob(os.path.join(tdir, "c05_*.ndjson")), key=lambda p: -os.path.getsize(p))
    par = int(os.environ.get("VERIF_PAR", "0")) or None        # default: one JVM per core
    ctx.validate_traces(SPEC, "TracePairing", traces, heap="2g", timeout=3000, par=par)
    first = sorted(traces)[0]
    lines = open(first).readlines()
    ctx.samples = [{"trace": os.path.basename(first),
                    "events": [_sample(json.loads(l)) for l in (lines[1], lines[2], lines[3], lines[5])]}]
    ops = {}
    for tr in traces:
        for ln in open(tr):
            i = ln.find('"op":"')
            if i >= 0:
                op = ln[i + 6:ln.index('"', i + 6)]
                ops[op] = ops.get(op, 0) + 1
    ctx.extra["events_per_entry_point"] = ops
    ctx.extra["curves"] = sorted({os.path.basename(t).split("_")[1] for t in traces})
    return ctx.finish(
        rule="one event per call of Pair / MillerLoop;FinalExponentiation / FinalExponentiation(f1,f2) of a split / PairingCheck / "
             "PrecomputeLines / PairFixedQ / MillerLoopFixedQ;FinalExponentiation / PairingCheckFixedQ (/ MillerLoopDirect on bw6-761) "
             "on vectors ([a_i]G1, [b_i]G2): the vectors of the model-checked toy model (balanced exponents -3..3, 0 = infinity, k = 1, 2, 3) "
             "lifted to the real group order, infinity at each position, k = 4 and 9, cancelling vectors, size mismatches and empty lists, "
             "seeded full-size exponents (a, s/a), full-size cancelling vectors and full-size products; each lines object is used on "
             "fresh lines and three times in a row; distinct cases = distinct events; 7 curves",
        assumptions=[
            "exponent model: arguments are [a]G1 / [b]G2 built with the library's ScalarMultiplication (construction only); the spec re-derives "
            "every distinct point from (a, G) by double-and-add on the textbook law before it trusts the exponent",
            "gT is the logged value of Pair(G1, G2); the spec demands gT != 1, gT^r = 1 and reply = gT^(sum a_i b_i mod r) with the generic "
            "tower arithmetic (spec/lib/Tower.tla), independent of sparse multiplications, cyclotomic squarings and the final exponentiation; "
            "which non-degenerate pairing is computed is not fixed by the property, nor by the spec",
            "the raw MillerLoop value is not compared (defined only up to factors killed by FinalExponentiation); when both argument lists "
            "are empty the library's error and the empty product are both accepted",
            "points outside the r-torsion subgroups are outside the exponent model and are not exercised",
            "lines objects are compared through SHA-256 digests of their raw limbs (harness-side hashing of memory, no library routine)",
            "for-all over scalar vectors is exhaustive only on the toy model (r = 5, 7; k <= 3); on the code it is enumerated small vectors + seeded samples",
        ])
