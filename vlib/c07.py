"""C07 — point and stream codecs round-trip, validate fully and never hide an error."""
import glob
import json
import os

from .core import log

SPECDIR = "C07_codec"


def _strip(line, n=700):
    e = json.loads(line)
    s = json.dumps(e, separators=(",", ":"))
    return e if len(s) <= n else s[:n] + "..."


def run(ctx):
    thorough = ctx.tier == "thorough"
    # (MC) the decision procedure over byte strings on small curves: every flag pattern x payload class around every
    # encoding; acceptance set = encodings of valid elements (+ the all-zero raw alias); Euler criterion <=> root exists
    ctx.model_check(SPECDIR, "MCPointCodec", workers=8, heap="4g", timeout=1500)          # 146 765 distinct states
    ctx.model_check(SPECDIR, "MCPointCodec", cfg="MCPointCodec_F6", expect_violation="Canonical", workers=2)
    # (MC) the stream machine: the decoder / encoder as coded (loops, ReadFull, counters) against the specified replies,
    # every program of <= 2 (thorough: 3) items, every truncation point, every corruption of every unit
    ctx.model_check(SPECDIR, "MCCodecStream", workers=8, heap="4g", timeout=1500)         # 35 446 distinct states
    if thorough:
        ctx.model_check(SPECDIR, "MCCodecStream", cfg="MCCodecStream_thorough", workers=8, heap="6g", timeout=3000)  # 1 336 684
    for cfg, inv in (("MCCodecStream_F5", "Refines"), ("MCCodecStream_F5b", "WriterErrorSeen"),
                     ("MCCodecStream_F19", "CountersExact")):
        ctx.model_check(SPECDIR, "MCCodecStream", cfg=cfg, expect_violation=inv, workers=2)

    # (TV) the real code
    binary = ctx.build_harness("harness")
    tdir = os.path.join(ctx.work, "traces")
    os.makedirs(tdir)
    # address-space limit as a safety net for the shared machine: a decoder that trusts a corrupted length prefix would
    # allocate gigabytes (the driver never feeds such prefixes - resource exhaustion is outside the property)
    cmd = 'ulimit -v 12000000; exec "$0" "$@"'
    out = ctx.run_harness("/bin/sh", ["-c", cmd, binary, "c07", "-out", tdir, "-seed", str(ctx.seed), "-tier", ctx.tier])
    log(out.strip().splitlines()[-1])
    par = int(os.environ["VERIF_PAR"]) if os.environ.get("VERIF_PAR") else None
    w = sorted(glob.glob(os.path.join(tdir, "c07_pt_*.ndjson")) + glob.glob(os.path.join(tdir, "c07_st_*.ndjson")) +
               glob.glob(os.path.join(tdir, "c07_gt_*.ndjson")), key=lambda p: -os.path.getsize(p))
    ed = sorted(glob.glob(os.path.join(tdir, "c07_ed_*.ndjson")))
    ctx.validate_traces(SPECDIR, "TraceCodec", w, par=par, heap="3g", timeout=3000)
    ctx.validate_traces(SPECDIR, "TraceCodecEd", ed, par=par)

    per = {}
    for t in ctx.tv:
        key = t["trace"].split("_")[1]
        per[key] = per.get(key, 0) + t["events"]
    ctx.extra["events_per_part"] = per     # pt = single-point codecs, st = streams, gt = GT, ed = twisted Edwards
    ctx.extra["harness_summary"] = out.strip().splitlines()[-1]
    samples = []
    for pat, rng in (("c07_pt_bn254_G1", (40, 43)), ("c07_st_bn254_b", (60, 64)), ("c07_ed_bn254", (20, 22))):
        fs = [t for t in w + ed if os.path.basename(t).startswith(pat)]
        if fs:
            with open(fs[0]) as f:
                ls = f.readlines()
            samples.append({"trace": os.path.basename(fs[0]), "events": [_strip(x) for x in ls[rng[0]:rng[1]]]})
    ctx.samples = samples
    return ctx.finish(
        rule="one event = one call of Bytes / RawBytes / Marshal / SetBytes / Unmarshal (G1, G2 of the 10 curves, GT, the 8 twisted "
             "Edwards companions), NewEncoder / Encode / NewDecoder / Decode on a stream, judged by TLC against PointCodec (decision "
             "procedure over byte strings: flags, canonical coefficients, padding, root by Euler criterion / verified witness, sign by "
             "the lexicographic rule, on curve, subgroup unless disabled; accepted => re-encodes identically) and CodecStream "
             "(length-prefixed typed items, error of any sub-item is the reply of the call, BytesRead/BytesWritten move by the bytes "
             "the reader handed out / the writer received). Inputs: every flag pattern x payload class in compressed and raw length, "
             "every buffer length class, slices with one bad entry at every position, all programs of <= 2 types + a program with "
             "every type: round trip under 6 reader chunkings, truncation around every boundary (thorough: every offset), one "
             "corrupted byte in every leaf and prefix, the writer refusing the k-th Write; seeded random strings, bit flips, programs",
        assumptions=[
            "curve / field parameters and flag schemes transcribed from the package documentation (spec/params, TraceCodec!Scheme)",
            "square roots are never computed by the specification: the harness proposes witnesses (Know) and non-residues (KnowNot), "
            "each verified by TLC (on curve / Euler criterion) before use; subgroup membership = [r]P = O by double-and-add",
            "error texts are not compared, only presence; after an error the receiver and the stream position are unspecified "
            "(the position is re-based on the bytes the reader really handed out; a scenario stops at the first error)",
            "when the writer refuses a Write only the presence of an error is demanded (the property quantifies over reader-side "
            "faults); output and counter of that call are not judged",
            "twisted Edwards decoders: prime-order subgroup membership is not demanded (no switch exists, RFC 8032 decoding - the "
            "documented reference - does not check it); canonical y, existence of x and the x = 0 sign rule are demanded",
            "GT is not a value type of the property text: byte order and round trip are judged, non-canonical coefficients may be "
            "refused (E12) or reduced (E24, E6)",
            "length prefixes are never corrupted beyond +-1 (a huge prefix is resource exhaustion, outside the property)",
            "the for-all over byte strings is exhausted on the small curves of MCPointCodec and sampled (lattice + seeded) at real size",
        ])
