"""C13 — hash-to-field and hash-to-curve are total, valid and conform to RFC 9380."""
import concurrent.futures as cf
import glob
import json
import os
import re

from .core import Infra, log

SPEC = "C13_hash2curve"

# (module, cfg, expected violation or None, workers)
MC_RUNS = [
    ("MCFieldExt", None, None, 2),                    # squares / roots / sgn0 in F_p, F_p^2, F_p^4, every element
    ("MCH2CParams", None, None, 2),                   # frozen parameters: Z criteria, RFC K.1 vectors, 20 BLS12-381 vectors by the spec alone
    ("MCHashToCurve", "MCHashToCurve_svdw", None, 3),  # straight-line SvdW = definition, every u of 5 toy fields, valid, sign
    ("MCHashToCurve", "MCHashToCurve_sswu", None, 3),  # straight-line SSWU = definition, every u of 4 toy fields
    ("MCHashToCurve", "MCHashToCurve_h2f", None, 3),   # expand_message / Hash code-level model = RFC, hasher histories
    # negative self-tests: wrong variants of the code-level model must be rejected
    ("MCHashToCurve", "MCHashToCurve_neg_shortcopy", "Total", 1),          # hashutils.go as it stands (F8)
    ("MCHashToCurve", "MCHashToCurve_neg_c4zero", "Refines", 1),           # SvdW with c4 = 0 (bls24-315 G2)
    ("MCHashToCurve", "MCHashToCurve_neg_signand", "CodeValid", 1),        # sign fixed with AND instead of ==
    ("MCHashToCurve", "MCHashToCurve_neg_aliasdomain", "ObjectRefines", 1),  # hasher keeps the caller's domain slice
]
MC_THOROUGH = [("MCHashToCurve", "MCHashToCurve_h2f_t", None, 4)]        # hasher histories up to depth 6


def _short(line, n=6):
    e = json.loads(line)

    def cut(v):
        if isinstance(v, list):
            return [cut(x) for x in v[:n]] + (["...(%d)" % len(v)] if len(v) > n else [])
        if isinstance(v, dict):
            return {k: cut(x) for k, x in v.items()}
        return v
    return {k: cut(v) for k, v in e.items()}


def run(ctx):
    par = int(os.environ["VERIF_PAR"]) if os.environ.get("VERIF_PAR") else None
    # (MC) design level, independent of the code under test; the runs are independent of each other
    runs = MC_RUNS + (MC_THOROUGH if ctx.tier == "thorough" else [])

    def mc(r):
        mod, cfg, neg, w = r
        return ctx.model_check(SPEC, mod, cfg=cfg, expect_violation=neg, workers=w, heap="3g", timeout=1500)
    with cf.ThreadPoolExecutor(max_workers=min(par or 4, 4)) as ex:
        list(ex.map(mc, runs))

    # (GEN) the exceptional inputs of every map, computed from the specification
    gen = os.path.join(ctx.work, "c13_inputs.json")
    g = ctx.tlc(SPEC, "GenInputs", env={"VERIF_GEN_OUT": gen}, timeout=900)
    if not g["ok"] or not os.path.exists(gen):
        raise Infra("GenInputs failed:\n" + g["out"][-3000:])
    groups = json.load(open(gen))
    ctx.extra["exceptional_inputs_generated"] = {"%s/%s" % (x["curve"], x["g"]): len(x["exc"]) for x in groups}
    log("GEN exceptional inputs for %d groups (%d values), %.1fs" % (len(groups), sum(len(x["exc"]) for x in groups), g["wall_s"]))

    # (TV) the real code
    b = ctx.build_harness("harness")
    tdir = os.path.join(ctx.work, "traces")
    os.makedirs(tdir)
    out = ctx.run_harness(b, ["c13", "-out", tdir, "-seed", str(ctx.seed), "-tier", ctx.tier, "-inputs", gen])
    log(out.strip().splitlines()[-1])
    traces = sorted(glob.glob(os.path.join(tdir, "c13_*.ndjson")), key=lambda p: -os.path.getsize(p))
    # slow first: G2 of the BLS curves
    traces.sort(key=lambda p: 0 if re.search(r"h2c_bls.*_G2", p) else 1)
    results = ctx.validate_traces(SPEC, "TraceH2C", traces, heap="3g", timeout=3000, par=par)

    # vacuity guard: every exceptional input handed to the driver was classified exceptional by the spec again
    cov = {}
    for tr, r in results:
        m = [re.search(r"(\d+)>>", ln) for ln in r["lines"] if "VERIF_COV" in ln]
        if "_h2c_" in tr:
            hdr = json.loads(open(tr).readline())
            n = int(m[0].group(1)) if m and m[0] else 0
            cov["%s/%s" % (hdr["curve"], hdr["g"])] = n
            if n < 2 * hdr.get("nexc", 0):
                raise Infra("exceptional inputs not exercised in %s: %d events < 2 x %d inputs" % (tr, n, hdr["nexc"]))
    ctx.extra["exceptional_input_events_validated"] = cov

    ops = {}
    for tr in traces:
        kind = os.path.basename(tr)[:-len(".ndjson")].split("_")[1]
        with open(tr) as f:
            next(f)
            for ln in f:
                i = ln.find('"op":"')
                op = kind + ":" + ln[i + 6:ln.find('"', i + 6)]
                ops[op] = ops.get(op, 0) + 1
    ctx.extra["events_per_op"] = ops
    ctx.extra["value_checked"] = (
        "ExpandMsgXmd, Hash (23 fields), hash_to_field hashers (16); MapToCurve1/2 of all 17 groups (x by the RFC map from the "
        "documented Z, y by curve equation + sgn0); Isogeny / IsogenyMap / constants of every SSWU suite against the documented "
        "coefficients; MapToG/EncodeTo/HashTo by value for bn254 G1, secp256k1, grumpkin, stark-curve (no isogeny, cofactor 1), "
        "BLS12-381 G1/G2 (RFC isogenies, h_eff, all 20 published vectors) and G1 of bls12-377, bls24-315, bls24-317 (h_eff = 1 - x0)")
    ctx.extra["validity_oracle_only"] = (
        "MapToG/EncodeTo/HashTo of bn254 G2, bls12-377 G2, bls24-315 G2, bls24-317 G2, bw6-633 G1/G2, bw6-761 G1/G2: on curve, in "
        "the prime-order subgroup, same output twice (their effective cofactors are not documented constants; the two bls24 G2 "
        "functions feed only 2 of the 4 coordinates of u from the message)")

    samples = []
    for pat, lines in (("c13_xmd", (40, 150)), ("c13_h2f_koalabear", (3, 30)), ("c13_h2f_bn254_fr", (300, 301, 302, 303)),
                       ("c13_h2c_bls12-381_G1", (12, 45)), ("c13_h2c_bw6-761_G1", (11,))):
        for tr in traces:
            if os.path.basename(tr).startswith(pat + ".") or os.path.basename(tr) == pat + ".ndjson":
                ls = open(tr).readlines()
                samples.append({"trace": os.path.basename(tr), "events": [_short(ls[i]) for i in lines if i < len(ls)]})
    ctx.samples = samples
    return ctx.finish(
        rule="one event = one public call of the real code (ExpandMsgXmd, <field>.Hash, hasher New/Write/Sum/Reset/Size, MapToCurve, "
             "MapToG, EncodeTo, HashTo, exported hash_to_curve helpers), judged by TLC against RFC 9380 written out in TLA+ (H2C.tla). "
             "Inputs: (msg, dst, len/count) lattice of the model (every len 0..70, block and 8160/65535 limits, |dst| in "
             "{0,1,16,254..257,700}, counts 0..5 and around 8160/L) + seeded random; every word of the hasher alphabet (10 symbols) "
             "to depth 3 (4 thorough) + random histories; u in {0, +-1, 2, -2, (p-1)/2, (p+1)/2, unit vectors of the tower} + the "
             "exceptional inputs of each map computed by TLC from the specification + seeded random; messages incl. the inputs of "
             "the 20 published BLS12-381 vectors. distinct cases = distinct events",
        assumptions=[
            "SHA-256 is the JDK's MessageDigest behind HashOps (trusted); java.math.BigInteger behind BigNat (cross-checked in setup)",
            "curve equations, towers, Z, isogenous curves, BLS12-381 isogenies and h_eff are frozen parameter modules transcribed from "
            "the documentation / RFC 9380; MCH2CParams validates them (RFC criteria on Z, K.1 and J.9/J.10 vectors reproduced by the spec alone)",
            "for the groups whose isogeny / cofactor clearing is not standardised the property is read as validity + determinism "
            "(what its text demands); their MapToCurve is still compared by value",
            "sqrt_ratio(0, v): the RFC says 'square', some generated variants answer 'not a residue' with the same root 0; both accepted",
            "Sum of a hasher created with a domain longer than 255 bytes panics as documented ('cannot return error and have to panic'): "
            "the specification demands exactly that panic",
            "negative lengths / counts are outside the quantifier of the property and are not driven",
            "the isogeny kernel (denominator zero) is not driven: no kernel abscissa is known in the base field",
            "for-all over messages and field elements is sampled on the code (lattice + model-derived exceptional inputs + seeded random); "
            "exhaustive only on the toy-field models",
        ])
