"""C19 — receiver and operands may alias in every arithmetic method."""
import glob
import json
import os
import re

from .core import Infra, log

# CPU configurations: the aliasing discipline differs per code path (assembly loads all inputs before it
# stores; the generic Go fallbacks build the result in temporaries). quick: default + purego on the
# arithmetic-bearing suites; thorough: every configuration on every suite.
# (label, environment, binary, suites ("" = all), draws per (method, pattern) (0 = tier default))
QUICK = [("default", {}, "harness", "", 0),
         ("purego", {}, "harness_purego", "field,ext,tower,poly", 0)]
THOROUGH = [("default", {}, "harness", "", 0),
            ("noavx512", {"GODEBUG": "cpu.avx512=off"}, "harness", "field,ext,poly,tower", 8),
            ("noadx", {"GODEBUG": "cpu.adx=off"}, "harness", "field,tower,group,edwards", 8),
            ("purego", {}, "harness_purego", "", 8)]


def run(ctx):
    # (MC) the aliasing campaign on a small object store: C19 holds for the "temporaries, then assign"
    # discipline, is refuted for the in-place variant (negative self-test); pattern enumerator = Bell numbers
    par = int(os.environ.get("VERIF_PAR", "0")) or None     # cap on parallel JVMs (shared machines); default: all cores
    ctx.model_check("C19_alias", "MCAlias", workers=par or 8, heap="4g")
    ctx.model_check("C19_alias", "MCAlias", cfg="MCAliasNeg", expect_violation="AliasSafe", workers=2)
    # (TV) the real code, methods discovered by reflection
    configs = THOROUGH if ctx.tier == "thorough" else QUICK
    bins = {"harness": ctx.build_harness("harness")}
    if any(c[2] == "harness_purego" for c in configs):
        bins["harness_purego"] = ctx.build_harness("harness_purego", tags=("verif", "purego"))
    tdir = os.path.join(ctx.work, "traces")
    os.makedirs(tdir)
    summary = {}
    for name, env, b, only, k in configs:
        args = ["c19", "-out", tdir, "-seed", str(ctx.seed), "-tier", ctx.tier, "-config", name]
        if only:
            args += ["-only", only]
        if k:
            args += ["-k", str(k)]
        out = ctx.run_harness(bins[b], args, env=env, timeout=3000)
        log(out.strip().splitlines()[-1])
        summary[name] = json.load(open(os.path.join(tdir, "c19_summary_%s.json" % name)))
    traces = sorted(glob.glob(os.path.join(tdir, "c19_*.ndjson")), key=lambda p: -os.path.getsize(p))
    # quick-tier traces are short: the JVM's optimising compiler costs more than it returns (measured 3x CPU)
    jenv = {"JAVA_TOOL_OPTIONS": "-XX:TieredStopAtLevel=1"} if ctx.tier != "thorough" else None
    results = ctx.validate_traces("C19_alias", "TraceAlias", traces, timeout=3000, par=par, heap="3g", env=jenv)
    # coverage lines printed by the trace spec: methods closed, patterns exercised, incomplete, left open
    methods = parts = 0
    for tr, r in results:
        cov = [ln for ln in r["lines"] if ln.startswith('<<"VERIF_COVER"')]
        if len(cov) != 1:
            raise Infra("no coverage line for " + tr)
        m, p, inc, opn = [int(x) for x in re.findall(r"-?\d+", cov[0])]
        if opn:
            raise Infra("trace %s ends inside a method" % tr)
        methods += m
        parts += p
    hm = sum(s["methods"] for s in summary.values())
    hp = sum(s["partitions"] for s in summary.values())
    if (methods, parts) != (hm, hp):
        # a method closed with a pattern missing has already been rejected ("coverage"); a mismatch of the
        # totals beyond that means announced methods were lost between harness and TLC
        if not any(r["reason"] == "coverage" for r in ctx.rejected):
            raise Infra("coverage mismatch: harness announced %d methods / %d patterns, TLC accepted %d / %d" % (hm, hp, methods, parts))
    log("coverage: %d methods closed by TLC with all %d aliasing patterns exercised" % (methods, parts))
    d = summary["default"]
    keys = sorted({k.split(":")[-1] for k in d["driven"]})
    ctx.extra["configs"] = [c[0] for c in configs]
    ctx.extra["methods_driven"] = methods
    ctx.extra["aliasing_patterns_exercised"] = parts
    ctx.extra["distinct_method_names"] = keys
    ctx.extra["methods_without_two_positions_of_one_class"] = d["methods_without_two_positions_of_one_class"]
    ctx.extra["excluded_methods"] = d["excluded"]
    ctx.extra["undrivable_methods"] = d["undrivable"]
    small = min(traces, key=os.path.getsize)
    ctx.samples = [{"trace": os.path.basename(small), "events": [ln[:600] for ln in open(small).readlines()[1:4]]}]
    return ctx.finish(
        rule="one event = one (method, aliasing pattern, operand contents): the method is run on fresh copies and on one object per "
             "block of the pattern; methods = every method of the field / vector / tower / point (affine, Jacobian, extended "
             "Jacobian, g2Proj) / twisted Edwards / polynomial / small-field extension / Eisenstein-integer types found by reflection "
             "that has two pointer or slice positions of one type (receiver included); patterns = all set partitions of the positions that merge only "
             "same-typed positions (TLC re-enumerates them and rejects a method closed with a pattern missing); contents: random, "
             "special (0, 1, -1, raw extremes), equal contents in distinct objects; vectors of lengths around the SIMD block size",
        assumptions=[
            "aliasing = the same object (same pointer / identical slice); partially overlapping slices and pointers into the "
            "interior of another operand (e.g. &z.A0 passed as a coefficient, &v[i] passed as the scalar of Vector.ScalarMul) are "
            "outside the property's quantifier (set partitions of the argument positions) and are not driven",
            "for-all over operand values is sampled; the reference run on fresh copies is the oracle, doubled by the arithmetic "
            "oracle (PrimeField / Tower / Weierstrass / TwistedEdwards) for add, sub, mul, div, square, double, neg, inverse, "
            "conjugate, select, set, equal and the element-wise vector / polynomial operations",
            "the harness realises the arrangement (it asserts pointer identity <=> block) and logs raw limbs; it never compares",
            "methods excluded because their documented size relation makes identical slices impossible: "
            + "; ".join("%s (%s)" % kv for kv in sorted(d["excluded"].items())),
        ])
