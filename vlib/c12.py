"""C12 — EdDSA and ECDSA: every honest signature verifies, nothing else does."""
import glob
import json
import os

from .core import log

SPECDIR = "C12_signatures"

# (module, cfg) — measured distinct states in the comments
MC_QUICK = [("EdParamsCheck", None),       # the 8 Edwards parameter records incl. cofactors: 8 states
            ("MCEddsa", "MCEddsa"),        # F_13, a=1, d=7, order 4*5:   142 348 distinct states
            ("MCEcdsa", "MCEcdsa")]        # y^2=x^3+2 / F_19, order 13:  191 848 distinct states
MC_THOROUGH = [("MCEddsa", "MCEddsa_p19"),   # F_19, a=5, d=2, order 4*7
               ("MCEcdsa", "MCEcdsa_p11")]   # y^2=x^3+x+6 / F_11, order 13 (n > p, a # 0)
# negative self-tests: a deliberately wrong variant of the machine must be rejected
MC_NEGATIVE = [("MCEcdsa", "MCEcdsa_neg_norange", "Exact"),      # parser without the range checks on r, s: accepts (r, s+n)
               ("MCEddsa", "MCEddsa_neg_signbit", "Exact"),      # sign bit accepted on x = 0 (what the code does): two encodings of one R
               ("MCEddsa", "MCEddsa_neg_szero", "Complete")]     # completeness without the S # 0 exception


def _strip(line, n=1200):
    e = json.loads(line)
    for k in ("hops", "msgafter", "sigafter", "Aafter", "bufafter", "privafter", "seed"):
        e.pop(k, None)
    s = json.dumps(e, separators=(",", ":"))
    return e if len(s) <= n else s[:n] + "..."


def run(ctx):
    thorough = ctx.tier == "thorough"
    for mod, cfg in MC_QUICK + (MC_THOROUGH if thorough else []):
        ctx.model_check(SPECDIR, mod, cfg=cfg, workers=8, heap="4g", timeout=1500)
    for mod, cfg, inv in MC_NEGATIVE:
        ctx.model_check(SPECDIR, mod, cfg=cfg, expect_violation=inv, workers=2, timeout=900)

    binary = ctx.build_harness("harness")
    tdir = os.path.join(ctx.work, "traces")
    os.makedirs(tdir)
    out = ctx.run_harness(binary, ["c12", "-out", tdir, "-seed", str(ctx.seed), "-tier", ctx.tier])
    log(out.strip().splitlines()[-1])
    ed = sorted(glob.glob(os.path.join(tdir, "c12_eddsa_*.ndjson")))
    ec = sorted(glob.glob(os.path.join(tdir, "c12_ecdsa_*.ndjson")))
    par = int(os.environ["VERIF_PAR"]) if os.environ.get("VERIF_PAR") else None
    to = 12000 if thorough else 3000
    # largest traces first so that the pool drains evenly
    ed.sort(key=os.path.getsize, reverse=True)
    ec.sort(key=os.path.getsize, reverse=True)
    ctx.validate_traces(SPECDIR, "TraceEcdsa", ec, par=par, timeout=to, heap="3g")
    ctx.validate_traces(SPECDIR, "TraceEddsa", ed, par=par, timeout=to, heap="3g")

    per = {}
    for t in ctx.tv:
        key = "_".join(t["trace"].split("_")[1:3])
        per[key] = per.get(key, 0) + t["events"]
    ctx.extra["events_per_instance"] = per
    ctx.extra["harness_summary"] = out.strip().splitlines()[-1]
    samples = []
    for pat, op, tag in (("c12_eddsa_bn254_lattice", "Verify", "nonce0-signbit"), ("c12_eddsa_bw6-761_honest", "Verify", "honest"),
                         ("c12_ecdsa_secp256k1_", "RecoverFrom", "honest"), ("c12_ecdsa_bls12-381_lattice", "Verify", "n-s"),
                         ("c12_ecdsa_stark-curve_lattice", "SigSetBytes", "s3")):
        for t in ed + ec:
            if not os.path.basename(t).startswith(pat):
                continue
            with open(t) as f:
                hit = next((x for x in f if '"op":"%s"' % op in x and '"tag":"%s"' % tag in x), None)
            if hit:
                samples.append({"trace": os.path.basename(t), "events": [_strip(hit)]})
                break
    ctx.samples = samples
    return ctx.finish(
        rule="one event = one public call on the real packages (8 EdDSA + 10 ECDSA): GenerateKey, Public, Sign, SignForRecover, Verify, "
             "RecoverFrom, Signature/PublicKey/PrivateKey SetBytes and Bytes, logged with raw bytes, raw coordinates, (bool, error), "
             "panics, arguments after the call and the hash interaction (recording hash.Hash); TLC decides every reply with the "
             "SigSpec operators (parse classes, cofactored EdDSA equation, SEC 1 ECDSA equation, recovery relation) over frozen curve "
             "parameters and keeps the key / issued-signature / encoding histories. Inputs: honest triples for messages of 0..1000 bytes x "
             "{nil where allowed, SHA-256, MiMC, dirty hash, refusing MiMC}; component lattice {0, 1, order-1, order, order+1, +order, "
             "2^k-1, high bit, swapped halves, wrong sizes, y in {0, 1, q-1, q, q+1, y+q}, sign bit on x=0, small-order R, torsion-shifted "
             "R and A, nonce 0, (r, n-s)}; one-bit mutations of signature, message, key encoding and key coordinates; seeded random",
        assumptions=[
            "the digest-to-integer conversion of ECDSA is the one the package documents (leftmost sizeFr bytes, low bits dropped until "
            "the bit length is that of n); for digests with leading zero bits this differs from FIPS 186-4 6.4 on curves whose order "
            "is not a multiple of 8 bits long - reported as an observation, not judged",
            "EdDSA: H(R,A,M) is the digest read as an unreduced big-endian integer; the verification equation is the cofactored one "
            "the package documents; signatures with R.y = 0 are refused (range check 0 < R.y named by the property)",
            "SHA-256 digests are recomputed by the JDK (HashOps); MiMC digests are taken from the real MiMC as an uninterpreted "
            "function of the recorded input (MiMC itself is C14); blake2b / AES-CTR nonces are not recomputed: signatures are "
            "judged by the verification equation, ECDSA signing is randomised by crypto/rand (not reproducible from the seed)",
            "Verify on a malformed signature / refused hash write must return false; whether it also returns an error is not judged; "
            "error texts and the length reported together with an error are not judged",
            "public-key encodings with y >= q or the sign bit on x = 0 (EdDSA) are accepted as the code does: the property asks keys "
            "to round trip, canonical encodings are demanded of signatures only",
            "ECDSA keys outside the prime-order subgroup and recovery with r + n beyond the field modulus are not driven / not judged; "
            "compressed Weierstrass point formats are C07: here Bytes/SetBytes are judged as inverse of each other with full length",
            "the completeness claim excludes S = 0 mod l (EdDSA Sign does not retry; probability 2^-250, exhibited only in MCEddsa)",
            "byte values, message lengths and key counts beyond the enumerated lattice are sampled (seeded), not exhausted",
        ])
