"""C10 — FFT equals the discrete Fourier transform for every domain, option, task count.

MC  : spec/C10_fft  MCFFTParams (frozen parameters), MCDFT (the DFT library: definition = radix-2 evaluation,
      inverse laws, bit reversal), MCFFTMachine at q = 17, 257, 12289 (transcription of the code = property,
      real kernel / threshold constants; q = 257 in two runs), MCFFTMachine_neg (ReadFrom with single Reads: must be rejected).
TV  : harness c10 drives <field>/fft of the 10 FFT fields; TraceFFT replays every event.
"""
import concurrent.futures as cf
import glob
import os
import shutil

from .core import log, sh, Infra, Crash, classify_crash

SPEC = "C10_fft"
SMALL = "koalabear,babybear"
OPS = ["NewDomain", "FFT", "FFTInverse", "BitReverse", "BitReverseIdx", "BitReverseSample", "WriteTo", "ReadFrom",
       "DomainFields", "Tables", "RaceReport"]


def _configs(tier):
    """(label, env, binary, harness args, wrapper command)"""
    cfgs = [("default", {}, "harness", [], [])]
    cfgs.append(("noavx512", {"GODEBUG": "cpu.avx512=off"}, "harness", ["-fields", SMALL, "-parts", "m2,m3"], []))
    cfgs.append(("purego", {}, "harness_purego", ["-fields", SMALL, "-parts", "m2,m3"], []))
    cfgs.append(("gomaxprocs2", {"GOMAXPROCS": "2"}, "harness", ["-fields", "bls12-381/fr", "-parts", "m3"], []))
    if tier == "thorough":
        # the default configuration in three processes (the driver is single-threaded per process)
        cfgs[0] = ("default", {}, "harness", ["-fields", "bn254/fr,bls12-377/fr,bw6-633/fr,koalabear"], [])
        cfgs.append(("default", {}, "harness", ["-fields", "bls12-381/fr,bls24-315/fr,bw6-761/fr,babybear"], []))
        cfgs.append(("default", {}, "harness", ["-fields", "bls24-317/fr,goldilocks"], []))
        cfgs[1] = ("noavx512", {"GODEBUG": "cpu.avx512=off"}, "harness", ["-fields", SMALL + ",bn254/fr", "-parts", "m1,m2,m3"], [])
        cfgs[2] = ("purego", {}, "harness_purego", ["-fields", SMALL + ",bw6-761/fr", "-parts", "m1,m2,m3"], [])
        cfgs[3] = ("gomaxprocs2", {"GOMAXPROCS": "2"}, "harness", ["-fields", "goldilocks,bls12-381/fr", "-parts", "m3,big"], [])
        if shutil.which("taskset"):
            # 4 CPUs: another BuildExpTable chunking, another default task count
            cfgs.append(("cpu4", {}, "harness", ["-fields", "koalabear,bls24-317/fr", "-parts", "dom,m3,big"], ["taskset", "-c", "0-3"]))
    return cfgs


def run(ctx):
    par = int(os.environ.get("VERIF_PAR", "0")) or None     # VERIF_PAR bounds the number of concurrent JVMs (default: all cores)
    mcpar = max(1, par // 4) if par else 7
    tvpar = max(1, par - mcpar) if par else None
    thorough = ctx.tier == "thorough"
    # (MC) design-level model checking, independent of the code under test: runs in the background while the
    # harness is built and driven and the traces are validated
    mcs = [("MCFFTMachine", "MCFFTMachine_q257b", None, 4), ("MCFFTMachine", "MCFFTMachine_q17", None, 4),
           ("MCDFT", None, None, 4), ("MCFFTMachine", "MCFFTMachine_q257a", None, 4),
           ("MCFFTMachine", "MCFFTMachine_q12289", None, 2), ("MCFFTMachine", "MCFFTMachine_neg", "ReadBackOK", 2),
           ("MCFFTParams", None, None, 2)]
    pool = cf.ThreadPoolExecutor(max_workers=mcpar)
    futs = [pool.submit(ctx.model_check, SPEC, mod, cfg, expect_violation=exp, workers=w, heap="3g", timeout=1800)
            for mod, cfg, exp, w in mcs]
    try:
        # (TV) traces of the real code
        tdir = os.path.join(ctx.work, "traces")
        os.makedirs(tdir)
        cfgs = _configs(ctx.tier)
        bins = {"harness": ctx.build_harness("harness")}
        if any(c[2] == "harness_purego" for c in cfgs):
            bins["harness_purego"] = ctx.build_harness("harness_purego", tags=("verif", "purego"))

        def drive(c):
            name, env, b, extra, wrap = c
            args = ["c10", "-out", tdir, "-seed", str(ctx.seed), "-tier", ctx.tier, "-config", name] + extra
            p = sh(wrap + [bins[b]] + args, env=env, timeout=3000, check=False)
            if p.returncode != 0:
                msg = classify_crash(p.stdout or "")
                if msg:     # the driver died inside gnark-crypto code (panic / fault): a behaviour of the code under test
                    ctx.crash_violation(Crash(msg, p.stdout), "configuration " + name)
                    # what was written before the crash is not validated: the file of this configuration is incomplete
                    for f in glob.glob(os.path.join(tdir, "c10_*_%s_*.ndjson" % name)) + glob.glob(os.path.join(tdir, "c10_*_%s.ndjson" % name)):
                        os.remove(f)
                    return name, "crashed inside the library: " + msg
                raise Infra("harness %s failed (%d):\n%s" % (" ".join(args), p.returncode, p.stdout[-4000:]))
            return name, p.stdout.strip().splitlines()[-1]

        with cf.ThreadPoolExecutor(max_workers=min(par or 4, 4)) as ex:
            for name, line in ex.map(drive, cfgs):
                log(name, line)
        if thorough:
            # data races between the split halves / parallel chunks: race-detector build (purego: the detector does
            # not see writes made by assembly), the harness appends the number of reports as an event
            rb = ctx.build_harness("harness_race", tags=("verif", "purego"), race=True)
            rlog = os.path.join(ctx.work, "racelog")
            out = ctx.run_harness(rb, ["c10", "-out", tdir, "-seed", str(ctx.seed), "-tier", "quick", "-config", "race",
                                       "-fields", "koalabear,bn254/fr", "-parts", "m2,m3", "-racelog", rlog],
                                  env={"GORACE": "halt_on_error=0 exitcode=0 log_path=" + rlog}, timeout=3000)
            log("race", out.strip().splitlines()[-1])
        traces = sorted(glob.glob(os.path.join(tdir, "c10_*.ndjson")), key=lambda p: -os.path.getsize(p))
        ctx.validate_traces(SPEC, "TraceFFT", traces, heap="4g" if thorough else "3g", timeout=3000,
                            par=tvpar if tvpar else (12 if thorough else None))
    finally:
        errs = []
        for f in futs:
            try:
                f.result()
            except Exception as ex:  # noqa: BLE001  (re-raised below)
                errs.append(ex)
        pool.shutdown()
    if errs:
        raise errs[0]
    # evidence: a few actual events, per-operation counts, configuration matrix
    counts = dict.fromkeys(OPS, 0)
    nbytes = 0
    for tr in traces:
        with open(tr, "rb") as f:
            data = f.read()
        nbytes += len(data)
        for op in OPS:
            counts[op] += data.count(b'"op":"%s"' % op.encode())

    def sample(path, op, k):
        """the first k events with the given op of a trace (long vectors cut)"""
        out = []
        with open(path) as f:
            for ln in f:
                if '"op":"%s"' % op in ln:
                    out.append(ln.strip()[:700])
                    if len(out) == k:
                        break
        return {"trace": os.path.basename(path), "events": out}

    pick = sorted(traces, key=lambda t: (0 if "koalabear_default" in t else 1, os.path.getsize(t)))
    ctx.samples = [] if not traces else \
        [s for s in (sample(pick[0], "FFT", 2), sample(pick[0], "ReadFrom", 2), sample(pick[0], "NewDomain", 1),
                     sample(traces[0], "FFTInverse", 1)) if s["events"]]     # (no trace survives when every configuration crashed)
    ctx.extra["configs"] = sorted({c[0] for c in _configs(ctx.tier)}) + (["race"] if thorough else [])
    ctx.extra["events_by_op"] = counts
    ctx.extra["trace_bytes"] = nbytes
    ctx.extra["trace_validation_all"] = [[t["trace"], t["events"], t["rejected"], t["wall_s"]] for t in ctx.tv]
    return ctx.finish(
        rule="events = one public call each of <field>/fft (NewDomain, FFT, FFTInverse, BitReverse, WriteTo, ReadFrom, table "
             "accessors) on the 10 FFT fields, every output element compared with the DFT computed by TLC. Inputs: NewDomain for "
             "every log-size up to the two-adicity (and just above: must panic), non-powers of two, custom shifts; FFT/FFTInverse "
             "over decimation x coset x precompute x shift x task counts from {1,2,3,4,7,8,16,64,512}: all basis vectors with every "
             "option up to 16 points, all basis vectors with rotating task counts at 32/64 points, seeded dense + sparse vectors at "
             "2^5..2^11 (2^12 on the 31/64-bit fields) with each task count on 2 of the 4 (dec, coset) pairs per size (quick); "
             "thorough: every pair, all basis vectors up to 64 points on every field and up to 256 points on bn254/koalabear/"
             "goldilocks, sizes to 2^13 (2^14 bn254, 2^17 goldilocks, 2^18 koalabear), every task count 1..512 at 128 points "
             "(bn254, koalabear), bit reversal to 2^21 complete and 2^22..2^27 at sampled positions (koalabear), race-detector "
             "build, 4-CPU run. ReadFrom: every uniform piece size, every two-piece split, item-aligned pieces, seeded "
             "compositions, truncations, trailing data, fresh and used receivers; each FFT is followed by the FFTInverse that must "
             "undo it. CPU configurations: default, AVX-512 off, purego, GOMAXPROCS=2. distinct cases = distinct events",
        assumptions=["for-all over input vectors is exhaustive only on the small-prime models; on the code it is all basis vectors "
                     "at the small sizes and seeded vectors above (a linear map is determined by its values on a basis: the code's "
                     "linearity itself is only sampled)",
                     "task counts, chunkings and sizes beyond the enumerated ones are sampled; domains above the transformed sizes "
                     "are only constructed (NewDomain: generator of exact order, inverses), not transformed; in the thorough tier the "
                     "heaviest parts run on one field per element width (bn254, goldilocks, koalabear)",
                     "goroutine schedules are whatever the Go runtime produced in these runs (GOMAXPROCS default and 2; race detector "
                     "build in the thorough tier); a panic inside a worker goroutine kills the driver and is reported as exit 2",
                     "bit reversal above 2^13 points is driven on koalabear only (thorough); the generic COBRA routine (> 2^27 "
                     "points) is covered by the model only (MCFFTMachine!CobraOK, every admissible tile size up to 256 points)",
                     "the default coset shift is only required to be a non-zero non-residue (necessary for a generator of F_q^*), any "
                     "primitive root of the right order is accepted as domain generator",
                     "java.math.BigInteger behind the BigNat accelerator (cross-checked against the pure TLA+ definitions in setup); "
                     "frozen spec/C10_fft/FFTParams.tla validated by MCFFTParams"])
