"""C09 — results do not depend on the CPU-specific code path."""
import glob
import json
import os

from .core import Crash, Infra, log

CONFIGS = [("default", {}, "harness"), ("noavx512", {"GODEBUG": "cpu.avx512=off"}, "harness"),
           ("noadx", {"GODEBUG": "cpu.adx=off"}, "harness"), ("purego", {}, "harness_purego")]
REPLY_KEYS = {"out", "out2", "ret", "retn", "nil", "vout", "vafter", "vaafter", "vbafter", "panic"}
NONDET_OPS = {"SetRandom"}


def merge(paths, dst, names):
    """Merges the per-configuration traces of one component line by line: inputs must be identical
    (else the drivers diverged: infrastructure fault), replies are collected in r[]."""
    fs = [open(p) for p in paths]
    n = 0
    with open(dst, "w") as out:
        hdrs = [json.loads(f.readline()) for f in fs]
        h = dict(hdrs[0])
        h["configs"] = names
        h.pop("config", None)
        out.write(json.dumps(h) + "\n")
        while True:
            lines = [f.readline() for f in fs]
            if not lines[0]:
                if any(lines):
                    raise Infra("traces of different length: " + dst)
                break
            evs = [json.loads(x) for x in lines]
            if evs[0].get("op") in NONDET_OPS:
                continue
            ins = [{k: v for k, v in e.items() if k not in REPLY_KEYS} for e in evs]
            if any(i != ins[0] for i in ins[1:]):
                raise Infra("drivers diverged (different inputs on the same line) in " + dst)
            m = ins[0]
            # a panic message may legitimately differ in wording between code paths: compare panic-or-not
            m["r"] = [{k: (True if k == "panic" else v) for k, v in e.items() if k in REPLY_KEYS} for e in evs]
            out.write(json.dumps(m) + "\n")
            n += 1
    for f in fs:
        f.close()
    return n


def run(ctx):
    ctx.model_check("C09_config", "MCVectorDispatch", workers=4)
    ctx.model_check("C09_config", "MCVectorDispatch", cfg="MCVectorDispatchNeg", expect_violation="PanicIndependent", workers=2)
    bins = {"harness": ctx.build_harness("harness"),
            "harness_purego": ctx.build_harness("harness_purego", tags=("verif", "purego"))}
    tdir = os.path.join(ctx.work, "traces")
    os.makedirs(tdir)
    crashed = False
    for name, env, b in CONFIGS:
        try:
            out = ctx.run_harness(bins[b], ["c09", "-out", tdir, "-seed", str(ctx.seed), "-tier", ctx.tier, "-config", name], env=env)
            log(name, out.strip().splitlines()[-1])
        except Crash as ex:
            ctx.crash_violation(ex, "configuration " + name)
            crashed = True
    merged = []
    if not crashed:
        names = [c[0] for c in CONFIGS]
        stems = sorted({os.path.basename(p)[:-len("_default.ndjson")] for p in glob.glob(os.path.join(tdir, "c09_*_default.ndjson"))})
        mdir = os.path.join(ctx.work, "merged")
        os.makedirs(mdir)
        total = 0
        for s in stems:
            dst = os.path.join(mdir, s + ".ndjson")
            total += merge([os.path.join(tdir, "%s_%s.ndjson" % (s, c)) for c in names], dst, names)
            merged.append(dst)
            for c in names:
                os.remove(os.path.join(tdir, "%s_%s.ndjson" % (s, c)))
        log("merged %d events x %d configurations in %d traces" % (total, len(names), len(merged)))
        ctx.validate_traces("C09_config", "ConfigIndependence", merged, heap="3g", par=8)
        ctx.samples = [{"trace": os.path.basename(merged[0]), "events": open(merged[0]).readlines()[6:8]}]
    ctx.extra["configs"] = [c[0] for c in CONFIGS]
    return ctx.finish(
        rule="merged events = the same call (same seed, same inputs) executed under 4 CPU configurations: field element operations on the "
             "boundary lattice for 23 fields, vector operations of every length 0..70 and around 112/128/256 with sub-slice offsets, "
             "E2/E4/E6/E12/E24/E3 methods of the pairing curves, koalabear/babybear E4 + MulAccE4 + FFT kernels (sizes 2^0..2^11) + "
             "Poseidon2 width 16/24 and 16x24 batch + ring-SIS",
        assumptions=["arm64 paths cannot run on this host", "IFMA/VBMI variants only as far as this host dispatches them",
                     "panic messages are compared as panic-or-not"])
