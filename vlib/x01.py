"""X01 (extension, not a listed property) - the Starknet Pedersen hash of ecc/stark-curve/pedersen-hash computes its definition."""
import glob
import os

from .core import Crash, log


def run(ctx):
    b = ctx.build_harness("harness")
    tdir = os.path.join(ctx.work, "traces")
    os.makedirs(tdir)
    try:
        log(ctx.run_harness(b, ["x01", "-out", tdir, "-seed", str(ctx.seed), "-tier", ctx.tier]).strip().splitlines()[-1])
        tr = sorted(glob.glob(os.path.join(tdir, "x01_*.ndjson")))
        ctx.validate_traces("X01_starkpedersen", "TracePedersenHash", tr)
        ctx.samples = [{"trace": os.path.basename(tr[0]), "events": open(tr[0]).readlines()[1:3]}]
    except Crash as ex:
        ctx.crash_violation(ex, "Pedersen hash driver")
    return ctx.finish(
        rule="one event per Pedersen / PedersenArray call; operands at the nibble and byte boundaries of the table look-ups (0, 1, 15, 16, "
             "2^k +- 1 for k in {4, 8, 60, 64, 124, 128, 244, 247, 248, 249, 251}, p-1, p-2, (p-1)/2), seeded random ones, pairs; arrays of 0..4 "
             "elements; judged against x(S + [a_lo]P0 + [a_hi]P1 + [b_lo]P2 + [b_hi]P3) over the textbook group law",
        assumptions=["the shift point and the four base points are the constants of the reference implementation named by the package "
                     "documentation (transcribed into the specification, checked to be on the curve by an ASSUME)",
                     "not a listed property: an extension of the specification (DESIGN.md 11.7)"])
