"""C01 — prime-field arithmetic is exact and canonical."""
import glob
import os

from .core import log

CONFIGS = [("default", {}, "harness"), ("noavx512", {"GODEBUG": "cpu.avx512=off"}, "harness"),
           ("noadx", {"GODEBUG": "cpu.adx=off"}, "harness"), ("purego", {}, "harness_purego")]


def run(ctx):
    # (MC) design-level model checking, independent of the code under test
    ctx.model_check("C01_field", "MCFieldMachine", workers=8, heap="4g")
    # word-level transcription of the CIOS / no-carry Montgomery multiplication of the templates
    ctx.model_check("C01_field", "MCMontgomery", workers=8)
    ctx.model_check("C01_field", "MCMontgomery", cfg="MCMontgomeryNoCarry", workers=4)
    ctx.model_check("C01_field", "MCMontgomery", cfg="MCMontgomeryNeg", expect_violation="MulCorrect", workers=4)
    if ctx.tier == "thorough":
        ctx.model_check("C01_field", "MCMontgomery", cfg="MCMontgomery3", workers=8)
    # (TV) traces of the real code in every CPU configuration
    bins = {"harness": ctx.build_harness("harness"), "harness_purego": ctx.build_harness("harness_purego", tags=("verif", "purego"))}
    tdir = os.path.join(ctx.work, "traces")
    os.makedirs(tdir)
    for name, env, b in CONFIGS:
        out = ctx.run_harness(bins[b], ["c01", "-out", tdir, "-seed", str(ctx.seed), "-tier", ctx.tier, "-config", name], env=env)
        log(name, out.strip().splitlines()[-1])
    traces = sorted(glob.glob(os.path.join(tdir, "c01_*.ndjson")))
    ctx.validate_traces("C01_field", "TraceField", traces)
    ctx.samples = [{"trace": os.path.basename(traces[0]), "events": [l for l in open(traces[0]).readlines()[5:9]]}]
    ctx.extra["configs"] = [c[0] for c in CONFIGS]
    return ctx.finish(
        rule="events = one exported field entry point call each (register machine, 23 fields x 4 CPU configurations); inputs: "
             "boundary lattice of raw limbs below q + relation-driven pairs + seeded random; distinct cases = distinct events",
        assumptions=["for-all over operands is sampled on the code (lattice+random), exhaustive only on the small-constant models",
                     "java.math.BigInteger behind the BigNat accelerator (cross-checked against the pure TLA+ definitions in setup)"])
