"""C18 — calls are pure, repeatable and safe to run concurrently on shared inputs."""
import glob
import json
import os
import re

from .core import VERIF, Crash, Infra, log, sh


def race_events(output):
    """Turns the race detector's reports into events attributed to the subject announced by the last
    PHASE line; keeps the first gnark-crypto frame as a description."""
    evs, phase = [], "?"
    lines = output.splitlines()
    i = 0
    while i < len(lines):
        ln = lines[i]
        if ln.startswith("PHASE "):
            phase = ln[6:].strip()
        elif "WARNING: DATA RACE" in ln:
            where = ""
            for j in range(i + 1, min(i + 40, len(lines))):
                m = re.search(r"(github.com/consensys/gnark-crypto/\S+)\(", lines[j])
                if m:
                    where = m.group(1)[-90:]
                    break
                if lines[j].startswith("=================="):
                    break
            evs.append({"op": "race", "f": phase, "where": where})
        i += 1
    return evs


def run(ctx):
    ctx.model_check("C18_shared", "MCPoolOnce", workers=4)
    ctx.model_check("C18_shared", "MCPoolOnce", cfg="MCPoolOnceNegLeak", expect_violation="NoLeak", workers=2)
    ctx.model_check("C18_shared", "MCPoolOnce", cfg="MCPoolOnceNegStale", expect_violation="NoStaleRead", workers=2)
    tdir = os.path.join(ctx.work, "traces")
    os.makedirs(tdir)
    builds = [("default", ctx.build_harness("harness"), {}),
              # poisoned field/pool and the adversarial (shared, last-in-first-out, yielding) sync.Pool of hooks_std
              ("poisoned", ctx.build_harness("harness_poison", extra_overlay_dir=os.path.join(VERIF, "hooks_poison"),
                                             std_overlay_dir=os.path.join(VERIF, "hooks_std")), {}),
              # the race detector does not see writes made inside assembly: build with purego
              ("race", ctx.build_harness("harness_race", tags=("verif", "purego"), race=True,
                                         std_overlay_dir=os.path.join(VERIF, "hooks_std")), {"GORACE": "halt_on_error=0 exitcode=0"})]
    combined = os.path.join(tdir, "c18_all.ndjson")
    n = 0
    with open(combined, "w") as out:
        out.write(json.dumps({"hdr": 1, "property": "C18", "configs": [b[0] for b in builds], "seed": ctx.seed}) + "\n")
        for name, b, env in builds:
            try:
                o = ctx.run_harness(b, ["c18", "-out", tdir, "-seed", str(ctx.seed), "-tier", ctx.tier, "-config", name], env=env, timeout=3000)
            except Crash as ex:
                ctx.crash_violation(ex, "configuration " + name)
                continue
            log(name, [x for x in o.strip().splitlines() if x.startswith("c18:")][-1])
            out.write(json.dumps({"op": "config", "cfg": name}) + "\n")
            n += 1
            with open(os.path.join(tdir, "c18_%s.ndjson" % name)) as f:
                f.readline()
                for ln in f:
                    out.write(ln)
                    n += 1
            if name == "race":
                revs = race_events(o)
                log("race detector reports: %d" % len(revs))
                for e in revs:
                    out.write(json.dumps(e) + "\n")
                    n += 1
    ctx.validate_traces("C18_shared", "TraceSharedUse", [combined])
    # lazily initialised curve parameters: every twisted Edwards point method as the FIRST library call of a fresh process
    # (one process per curve and method), judged by the group law of C02's trace specification
    try:
        log(ctx.run_harness(builds[0][1], ["c18fresh", "-out", tdir, "-seed", str(ctx.seed)], timeout=1500).strip().splitlines()[-1])
        ctx.validate_traces("C02_group", "TraceEdwards", sorted(glob.glob(os.path.join(tdir, "c18fresh_*.ndjson"))))
        # the same probe for the lazily initialised round constants of the MiMC packages (package-level Sum first), judged by
        # the definition of the hash in C14's trace specification
        ctx.validate_traces("C14_hashes", "TraceHashes", sorted(glob.glob(os.path.join(tdir, "c18freshmimc_*.ndjson"))))
        # ... and for the decompression of twisted Edwards points (SetBytes first), judged by C07's Edwards codec specification
        ctx.validate_traces("C07_codec", "TraceCodecEd", sorted(glob.glob(os.path.join(tdir, "c18freshed_*.ndjson"))))
    except Crash as ex:
        ctx.crash_violation(ex, "fresh-process probe")
    ctx.samples = [{"trace": "c18_all.ndjson", "events": open(combined).readlines()[2:5]}]
    return ctx.finish(
        rule="subjects = exported computations with the objects they must not modify (pairing variants with precomputed lines, MSM, KZG with "
             "SRS/vk, FFT with a shared domain, Poseidon2/MiMC parameters, EdDSA/ECDSA keys, hash-to-curve, stream decoder, pooled big.Int "
             "users); each run 3x sequentially (interleaved), then by 2..64 goroutines at once, under several GOMAXPROCS, in three builds: "
             "default assembly, poisoned scratch pool, -race -tags purego; "
             "every twisted Edwards point method as the first library call of a fresh process (lazy curve parameters), judged by the group law",
        assumptions=["the Go race detector and scheduler are observation instruments: absence of a report on the explored schedules is what is claimed",
                     "result digests are SHA-256 prefixes of the raw encodings"])
