"""C17 — argument-system verifiers accept honest proofs and reject well-formed forgeries."""
import glob
import json
import os
import shutil

from .core import log, Infra, Crash

SPEC = "C17_verifiers"


def _sample(path, want):
    """A few actual events of one trace: the first Prove-like event, one honest Verify, one forged Verify."""
    got, seen = [], set()
    with open(path) as f:
        next(f)
        for ln in f:
            if len(ln) > 2500:
                continue
            e = json.loads(ln)
            k = e["op"] if e["op"] != "Verify" else ("Verify/" + (e["forge"][0]["k"] if e["forge"] else "honest"))
            if k in want and k not in seen:
                seen.add(k)
                got.append(e)
            if len(seen) == len(want):
                break
    return got


def run(ctx):
    thorough = ctx.tier == "thorough"
    # (MC) design level, independent of the code under test
    #  - the verifier machine: every entry point x every composition of <= 2 forgery operators; acceptance <=> no check
    #    falsified; every check individually necessary (ASSUMEs); negative self-tests: the machine with the checks the
    #    code lacks (AsCode) and with one arbitrary check dropped must violate Sound
    ctx.model_check(SPEC, "MCVerifiers", "MCVerifiers", workers=4)
    ctx.model_check(SPEC, "MCVerifiers", "MCVerifiers_ascode", expect_violation="Sound", workers=2)
    ctx.model_check(SPEC, "MCVerifiers", "MCVerifiers_nocheck", expect_violation="Sound", workers=2)
    #    ... and with the isolating forgeries of one check withheld the theorem "individually necessary" must fail
    ctx.model_check(SPEC, "MCVerifiers", "MCVerifiers_nocatalogue", expect_violation="Assumption", workers=2)
    #  - the exponent model of the Pedersen checks at a toy group order: accept <=> p = sigma c; batch soundness error
    ctx.model_check(SPEC, "MCExponent", "MCExponent", workers=4)
    ctx.model_check(SPEC, "MCExponent", "MCExponent_n3", workers=4)
    if thorough:
        ctx.model_check(SPEC, "MCExponent", "MCExponent_thorough", workers=8, timeout=1500)
    ctx.model_check(SPEC, "MCExponent", "MCExponent_neg", expect_violation="BatchExact", workers=2)
    #  - why the SHPLONK folding challenge must be bound to the claimed values (F18 on the design)
    ctx.model_check(SPEC, "MCBinding", "MCBinding", workers=2)
    ctx.model_check(SPEC, "MCBinding", "MCBinding_ascode", expect_violation="NoLateForgery", workers=2)

    # (TV) the real provers and verifiers
    binary = ctx.build_harness("harness")
    tdir = os.path.join(ctx.work, "traces")
    os.makedirs(tdir)
    out = ctx.run_harness(binary, ["c17", "-out", tdir, "-seed", str(ctx.seed), "-tier", ctx.tier], timeout=3000)
    log(out.strip().splitlines()[-1])
    # the Vortex prover splits its column-wise hashing over runtime.NumCPU() chunks: the same family once more on three
    # CPUs (chunks whose length is not a multiple of the prover's transposition window)
    if shutil.which("taskset"):
        tdir3 = os.path.join(ctx.work, "traces_cpu3")
        os.makedirs(tdir3)
        try:
            o3 = ctx.run_harness("taskset", ["-c", "0-2", binary, "c17", "-out", tdir3, "-seed", str(ctx.seed), "-tier", ctx.tier,
                                             "-schemes", "vortex"], timeout=3000)
            log("cpu3", o3.strip().splitlines()[-1])
            for f in glob.glob(os.path.join(tdir3, "c17_*.ndjson")):
                shutil.move(f, os.path.join(tdir, os.path.basename(f)[:-7] + "_cpu3.ndjson"))
        except Crash as ex:
            ctx.crash_violation(ex, "vortex family on three CPUs")
    traces = sorted(glob.glob(os.path.join(tdir, "c17_*.ndjson")), key=os.path.getsize, reverse=True)
    if not traces:
        raise Infra("c17 harness wrote no traces")
    # the curve-arithmetic traces (every point recomputed from its scalar) are the slow ones: start them first
    traces.sort(key=lambda p: (0 if ("mpcsetup" in p or "pedersen" in p) else 1, -os.path.getsize(p)))
    par = int(os.environ.get("VERIF_PAR", "0")) or None
    ctx.validate_traces(SPEC, "TraceVerifiers", traces, heap="2g", par=par, timeout=6000)

    per, ops = {}, {}
    for t in ctx.tv:
        fam = t["trace"].split("_")[1]
        per[fam] = per.get(fam, 0) + t["events"]
    for tr in traces:
        with open(tr) as f:
            next(f)
            for ln in f:
                i = ln.find('"forge":[')
                if i < 0:
                    continue
                e = json.loads(ln)
                k = e["scheme"] + "/" + ("honest" if not e["forge"] else e["forge"][0]["k"])
                ops[k] = ops.get(k, 0) + 1
    ctx.extra["events_per_family"] = per
    ctx.extra["verify_calls_per_entry_point_and_operator_kind"] = ops
    ctx.extra["harness_summary"] = out.strip().splitlines()[-1]
    samples = []
    for fam in ("shplonk", "vortex", "pedersen", "fri"):
        fs = [t for t in traces if ("c17_%s_" % fam) in t]
        if fs:
            samples.append({"trace": os.path.basename(fs[0]),
                            "events": _sample(fs[0], {"Prove", "PedSetup", "Verify/honest", "Verify/sub", "Verify/tgt"})})
    ctx.samples = samples
    return ctx.finish(
        rule="one event = one call of a real prover or verifier entry point (Pedersen Verify / BatchVerifyMultiVk, shplonk and "
             "fflonk BatchVerify, permutation.Verify, plookup VerifyLookupVector / VerifyLookupTables, FRI VerifyProofOfProximity / "
             "VerifyOpening, Vortex Params.Verify, mpcsetup UpdateProof.Verify / SameRatioMany, kzg MpcSetup.Verify) on (i) the "
             "prover's output for true and false statements of minimal, non-power-of-two and seeded random sizes, (ii) every "
             "single-component substitution of the catalogue (component class x random / zero-identity / value of another honest "
             "proof / shifted) on a deep copy, (iii) named multi-component forgeries built from the real prover's pieces that keep "
             "all checks but one true; TLC decides the truth of each statement from the logged raw data (polynomial evaluation, "
             "multiset equality, inclusion, degree bound, leaf = claimed value), recomputes every point of the known-trapdoor "
             "schemes from its scalar and decides their pairing relations in the exponent, and demands accept <=> (statement true "
             "and no check of the intended design falsified); distinct cases = distinct events; states = TLC states of the MC runs "
             "plus one per validated event",
        assumptions=[
            "rejection is demanded with overwhelming probability over the Fiat-Shamir challenges: a substitution is expected to be "
            "rejected whenever the tables of Verifiers say it falsifies a check; collisions of SHA-256 / random field elements are "
            "ignored",
            "both verdicts are accepted where the property is silent: statement-level substitutions that leave the statement true "
            "(e.g. another evaluation point of a constant polynomial, other transcript data for a proof whose quotients vanish), the library's FRI prover run on a far function (single query, "
            "soundness error 1/rho by construction), the empty Pedersen batch, a challenge that does not enter the statement "
            "(one-row Vortex matrix), an empty next.challenge of the KZG ceremony (documented as optional)",
            "Vortex claimed values are taken from the library's Lagrange evaluation (E4 arithmetic is not re-specified here): for "
            "Vortex the verdicts are judged by the operator table only",
            "soundness against adversaries outside the catalogue is not claimed; the catalogue isolates every verifier check "
            "except plookup's generator-order check (listed in Verifiers!NotIsolated)",
            "FRI sizes start at 2 (the library prover itself indexes out of range for size 1); permutation sizes are powers of two "
            ">= 2 as the prover requires",
            "unexported proof fields are read and written through reflect/unsafe; error texts are logged, only error / nil / panic "
            "is judged; arguments are compared through SHA-256 digests of a canonical dump taken before and after each call",
            "quick tier: bn254 and koalabear; thorough tier: the seven pairing curves (drivers generated from the bn254 one)",
        ])
