"""C06 — extension-field and GT operations agree with generic arithmetic in F_p^k."""
import concurrent.futures as cf
import glob
import json
import os
import re

from .core import Infra, log

SPEC = "C06_tower"


def _mc(ctx):
    """Design level: the transcriptions of the specialised routines equal the generic operations on WHOLE cyclotomic
    subgroups of towers of the library's shapes; the two decompression variants found in the code are rejected.
    The runs are independent of each other: they are started together."""
    res = {}

    def go(name, **kw):
        res[name] = ctx.model_check(SPEC, "MCTowerMachine", cfg=name, **kw)

    jobs = [
        ("MCTowerMachine", dict(workers=6, heap="3g")),      # E12 shape (2-3-2), p = 7: whole group, 2353 elements
        ("MCTowerBW6", dict(workers=3, heap="2g")),          # BW6 shape (3-2), p = 43: whole group, 1807 elements
        ("MCTowerFacts", dict(workers=1, heap="2g")),        # injectivity of the compression, census of the degenerate branches
        # negative self-tests = design-level findings: the decompression as generated from fq12over6over2 (branch on C1.B2)
        # and the E24 / BW6 variant with receiver != argument are refuted on the small groups
        ("MCTowerE12Code", dict(expect_violation="KDecompressCorrect", workers=2)),
        ("MCTowerBW6Sep", dict(expect_violation="KDecompressCorrect", workers=1)),
        ("MCTowerE24" if ctx.tier == "thorough" else "MCTowerE24q", dict(workers=3, heap="3g")),   # 2-2-3-2 shape, p = 13: sample
    ]
    if ctx.tier == "thorough":
        jobs.append(("MCTowerE12p11", dict(workers=8, heap="4g", timeout=3400)))                   # 2-3-2, p = 11: 14521 elements
    par = int(os.environ["VERIF_PAR"]) if os.environ.get("VERIF_PAR") else len(jobs)     # VERIF_PAR: cap on concurrent JVMs
    with cf.ThreadPoolExecutor(max_workers=min(par, len(jobs))) as ex:
        futs = [ex.submit(go, n, **kw) for n, kw in jobs]
        for f in futs:
            f.result()
    for name, want in (("MCTowerMachine", 2353), ("MCTowerBW6", 1807), ("MCTowerE12p11", 14521)):
        if name in res and res[name]["distinct"] != want:
            raise Infra("%s did not reach the whole cyclotomic subgroup (%d of %d states)" % (name, res[name]["distinct"], want))
    m = re.search(r'"VERIF_DEGENERATE", (\d+), (\d+), (\d+), (\d+)', res["MCTowerFacts"]["out"])
    if m:
        ctx.extra["karabina_branch_census_p7"] = {"group_order": int(m.group(1)), "g3_zero": int(m.group(2)),
                                                  "g5_zero": int(m.group(3)), "g2_g3_zero": int(m.group(4))}


def run(ctx):
    _mc(ctx)
    b = ctx.build_harness("harness")
    tdir = os.path.join(ctx.work, "traces")
    os.makedirs(tdir)
    out = ctx.run_harness(b, ["c06", "-out", tdir, "-seed", str(ctx.seed), "-tier", ctx.tier])
    log(out.strip().splitlines()[-1])
    unc = sorted(ln[len("UNCOVERED "):] for ln in out.splitlines() if ln.startswith("UNCOVERED "))
    ops = [ln[len("OPS "):] for ln in out.splitlines() if ln.startswith("OPS ")]
    traces = sorted(glob.glob(os.path.join(tdir, "c06_*.ndjson")))
    par = int(os.environ["VERIF_PAR"]) if os.environ.get("VERIF_PAR") else None
    ctx.validate_traces(SPEC, "TraceTower", traces, par=par, timeout=3000, heap="3g")
    # samples: a few actual events
    smp = []
    for tr in traces:
        if "bn254" in tr or "koalabear" in tr:
            lines = open(tr).readlines()
            pick = [ln for ln in lines[1:] if '"op":"MulBy034"' in ln or '"op":"ExpGLV"' in ln or '"op":"MulAccE4"' in ln][:2]
            if pick:
                smp.append({"trace": os.path.basename(tr), "events": [p[:600] for p in pick]})
        if len(smp) >= 3:
            break
    ctx.samples = smp
    # methods not covered: general groups plus the per-context list
    generic = sorted({re.sub(r"^[^:]+: ", "", u) for u in unc})
    ctx.extra["uncovered_methods"] = generic + [
        "E6D.* and FromTower/ToTower (bw6-761 direct sextic extension: not re-exported by the curve package)",
        "nSquare / nSquareCompressed (unexported loops over CyclotomicSquare[Compressed], exercised through Expt*)",
        "MulBy7 / MulBy11 helpers of the small-field extension packages (base-field functions: C01)"]
    ctx.extra["ops_driven"] = dict(kv.split("=") for kv in ops[0].split()) if ops else {}
    ctx.extra["contexts"] = sorted({os.path.basename(t)[4:-10] for t in traces})
    ctx.notes.append("IsInSubGroup is judged on its domain, the cyclotomic subgroup (GT elements => true, cyclotomic elements outside GT "
                     "=> false); observation, not judged: on the zero element bn254, bls12-377, bls24-315, bw6-633 and bw6-761 answer true")
    return ctx.finish(
        rule="one event per call of an exported method of E2/E3/E4/E6/E12/E24 (7 pairing curves) and of the small-field E2/E4 "
             "(koalabear, babybear, goldilocks), plus the package-level functions reached through the overlay shim; operands: 0, +-1, 2, "
             "single non-zero leaves, every subset of zero children / of the six middle coordinates (sampled in quick), sub-field elements, "
             "seeded random; cyclotomic elements x^((p^(n/2)-1)(p^(n/6)+1)) and GT elements e(aG1,bG2) (membership re-verified by the spec, "
             "Decl events); exponents {0,+-1,+-2,3,-5,255,256,r,-r,r+-1,2^256+1,random 200-bit,-random 130-bit}; every event judged "
             "with the generic quotient-ring operators over the documented towers",
        assumptions=["tower polynomials, seeds and twist coefficients are transcribed from the package documentation (CurveParams, C06Params)",
                     "the for-all over cryptographic-size operands is sampled (lattice + random); it is exhaustive only on the small towers "
                     "of MCTowerMachine (whole cyclotomic subgroup at p=7 (2-3-2 shape) and p=43 (3-2 shape); the 2-2-3-2 shape is sampled)",
                     "cyclotomic elements with a vanishing compressed coordinate (degenerate Karabina branches) are reached at real size only "
                     "through the constructed witnesses of the driver, otherwise on the small-field model",
                     "Frobenius oracle: coefficient-wise with X_k^p computed by generic exponentiation; equality with x^p model-checked"])
