"""C08 — field-element conversions round-trip; strict decoders reject non-canonical input."""
import concurrent.futures as cf
import glob
import json
import os

from .core import log, sh, Infra, REPO, VERIF

SPEC = "C08_codec"

# (module, cfg, expected violation, tiers)
MC = [
    ("MCElemCodec", "MCElemCodec", None, ("quick", "thorough")),            # free interleaving of all entry points, q = 13
    ("MCElemCodec", "MCElemCodecInputs", None, ("quick", "thorough")),      # q = 251: all byte strings <= 2 bytes, all ints -2q..256+q, texts <= 4
    ("MCElemCodec", "MCElemCodecValues", None, ("quick", "thorough")),      # q in {13, 251, 257}: every element through every encoder and back
    ("MCElemCodec", "MCElemCodecNeg", "StrictAcceptance", ("quick", "thorough")),     # seeded error: decoder accepts q itself -> must be caught
    ("MCVecCodec", "MCVecCodec", None, ("quick", "thorough")),              # vector codec + asynchronous validation, all schedules
    ("MCVecCodec", "MCVecCodecNeg", "AsyncAcceptance", ("quick", "thorough")),  # seeded error: error counter not bumped
    ("MCElemCodec", "MCElemCodecInputsT", None, ("thorough",)),             # two-byte fields q = 257, 65521: all 2-byte strings, all ints
    ("MCElemCodec", "MCElemCodecLawsT", None, ("thorough",)),               # every element of q = 65521 (two limb layouts), 70001
]


def c08_regen_build(ctx):
    """Thorough tier (DESIGN 2.3a): the anchored templates (field/generator/internal/templates/element/conv.go, vector.go)
    are judged on the code they generate: copy /repo to a scratch directory, run the code generator there (no-op asmfmt),
    build the same driver against the copy. Returns (binary, number of regenerated .go files that differ beyond the
    copyright year)."""
    scratch = os.path.join(ctx.work, "regen")
    bindir = os.path.join(ctx.work, "regen-bin")
    os.makedirs(bindir)
    with open(os.path.join(bindir, "asmfmt"), "w") as f:
        f.write("#!/bin/sh\nexit 0\n")
    os.chmod(os.path.join(bindir, "asmfmt"), 0o755)
    sh(["rsync", "-a", "--exclude=.git", REPO + "/", scratch + "/"], timeout=300)
    sh(["go", "run", "main.go"], cwd=os.path.join(scratch, "internal", "generator"), timeout=900,
       env={"PATH": bindir + ":" + os.environ.get("PATH", "")})
    p = sh(["diff", "-rq", "-x", ".git", "-I", "Copyright", REPO, scratch], check=False)
    differing = [ln for ln in (p.stdout or "").splitlines() if ".go " in ln or ln.endswith(".go")]
    hdir = os.path.join(VERIF, "harness")
    mod = open(os.path.join(hdir, "go.mod")).read().replace("=> " + REPO, "=> " + scratch)
    if scratch not in mod:
        raise Infra("regen: could not redirect the replace directive of harness/go.mod")
    modfile = os.path.join(ctx.work, "regen.mod")
    open(modfile, "w").write(mod)
    open(os.path.join(ctx.work, "regen.sum"), "w").write(open(os.path.join(REPO, "go.sum")).read())
    return ctx.build_harness("harness_regen", extra_flags=("-modfile", modfile)), len(differing)


def run(ctx):
    runs = [m for m in MC if ctx.tier in m[3]]

    def mc(m):
        return ctx.model_check(SPEC, m[0], cfg=m[1], expect_violation=m[2], workers=2, heap="3g", timeout=1500)

    # (MC) design-level model checking runs next to the build (it does not depend on the code under test)
    with cf.ThreadPoolExecutor(max_workers=4) as ex:
        futs = [ex.submit(mc, m) for m in runs]
        binary = ctx.build_harness("harness")
        for f in futs:
            f.result()
    # (TV) the real code, 23 fields
    tdir = os.path.join(ctx.work, "traces")
    os.makedirs(tdir)
    out = ctx.run_harness(binary, ["c08", "-out", tdir, "-seed", str(ctx.seed), "-tier", ctx.tier, "-config", "default"])
    log(out.strip().splitlines()[-1])
    if ctx.tier == "thorough":
        rbin, ndiff = c08_regen_build(ctx)
        out = ctx.run_harness(rbin, ["c08", "-out", tdir, "-seed", str(ctx.seed + 7), "-tier", "quick", "-config", "regen"])
        log("regenerated from templates:", out.strip().splitlines()[-1], "(%d regenerated .go files differ from the tree)" % ndiff)
        ctx.extra["regen"] = {"go_files_differing_from_tree": ndiff}
    traces = sorted(glob.glob(os.path.join(tdir, "c08_*.ndjson")))
    ctx.validate_traces(SPEC, "TraceCodec", traces, heap="3g", par=int(os.environ.get("VERIF_PAR", "0")) or None)
    # samples: a few recorded events of different kinds (error paths where the entry point has one)
    want = [("SetBytesCanonical", '"err"'), ("BEElement", '"err"'), ("SetBigInt", '"neg":true'), ("Text", '"base":16'),
            ("UnmarshalJSON", '"out":['), ("VAsyncReadFrom", '"cherr"'), ("VReadFrom", '"err"'), ("SetInterface", '"err"')]
    picked = []
    sample_trace = traces[len(traces) // 2]
    with open(sample_trace) as f:
        for ln in f:
            if not want:
                break
            for w in want:
                if '"op":"%s"' % w[0] in ln and w[1] in ln and len(ln) < 1200:
                    picked.append(json.loads(ln))
                    want.remove(w)
                    break
    ctx.samples = [{"trace": os.path.basename(sample_trace), "events": picked}]
    ops = {}
    for tr in traces:
        with open(tr) as f:
            for ln in f:
                i = ln.find('"op":"')
                if i >= 0:
                    op = ln[i + 6:ln.find('"', i + 6)]
                    ops[op] = ops.get(op, 0) + 1
    ctx.extra["events_per_entry_point"] = ops
    ctx.extra["fields"] = 23
    return ctx.finish(
        rule="events = one call of a public conversion entry point each (Element setters/decoders/encoders, Vector writers/readers "
             "incl. AsyncReadFrom, encoding/json), 23 fields; inputs: the model's classes at real size (integers k*q+d and 2^(8B)+d, "
             "byte strings of every length class 0..2B+1 around the encodings of q-1,q,q+1, limb-wise lattice around q, texts on both "
             "sides of every grammar rule, vectors of length 0..5 (+16,17,100) with the invalid entry at every position, truncation "
             "at every boundary, all encoder->decoder round trips) + seeded random calls and two-call histories",
        assumptions=["for-all over inputs is exhaustive only in the small-constant models (q in {13,251,257,65521,70001}); on the "
                     "code it is sampled (lattice + seeded random)",
                     "java.math.BigInteger behind the BigNat accelerator (cross-checked against the pure TLA+ definitions in setup)",
                     "the length prefix 2^32-1 with 3 data bytes is driven in a child process (the readers allocate what the prefix announces; whether that kills the process depends on the memory the machine grants)",
                     "text longer than 3*bits characters handed to UnmarshalJSON, and JSON tokens with unbalanced quotes, are only "
                     "required not to panic (the property does not fix the outcome)"])
