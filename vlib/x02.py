"""X02 (extension, not a listed property) - the integer utilities of package ecc (NAF, GLV lattice, scalar splitting, NextPowerOfTwo)."""
import glob
import os

from .core import Crash, log


def run(ctx):
    b = ctx.build_harness("harness")
    tdir = os.path.join(ctx.work, "traces")
    os.makedirs(tdir)
    try:
        log(ctx.run_harness(b, ["x02", "-out", tdir, "-seed", str(ctx.seed), "-tier", ctx.tier]).strip().splitlines()[-1])
        tr = sorted(glob.glob(os.path.join(tdir, "x02_*.ndjson")))
        ctx.validate_traces("X02_eccutils", "TraceEccUtils", tr)
        ctx.samples = [{"trace": os.path.basename(tr[0]), "events": open(tr[0]).readlines()[20:22]}]
    except Crash as ex:
        ctx.crash_violation(ex, "ecc utilities driver")
    return ctx.finish(
        rule="NafDecomposition of every integer 0..2^10 (thorough 2^14) and of word-boundary / alternating / random integers up to 761 bits; "
             "PrecomputeLattice and SplitScalar for (r, lambda) = (every 64+-bit modulus of the library, both primitive cube roots of unity and "
             "a random lambda) and small primes, scalars 0, 1, r-1, r, negative, far larger than r, random; NextPowerOfTwo around every power",
        assumptions=["shortness of the lattice basis is judged only where it is a theorem (lambda a primitive cube root of unity, r of 64+ bits); "
                     "the congruences and the determinant are judged everywhere",
                     "not a listed property: an extension of the specification (DESIGN.md 11.7)"])
