"""C04 — MSM returns the exact linear combination for every input, config and schedule."""
import glob
import os

from .core import Crash, log

MSM_CURVES = ["bn254", "bls12-377", "bls12-381", "bls24-315", "bls24-317", "bw6-633", "bw6-761", "grumpkin", "secp256k1"]


def run(ctx):
    # (MC) the goroutine/channel protocol of _innerMsm: safety + termination over all interleavings
    ctx.model_check("C04_msm", "MSMProtocol", workers=8, heap="4g")
    if ctx.tier == "thorough":
        ctx.model_check("C04_msm", "MSMProtocol", cfg="MSMProtocolUnlimited", workers=8, heap="4g")
    ctx.model_check("C04_msm", "MSMProtocol", cfg="MSMProtocolNeg", expect_violation="NoPanic", workers=4)
    # (MC) the batch-affine bucket processor as a state machine: conservation, batchAdd precondition, queue bound
    ctx.model_check("C04_msm", "MCBuckets", workers=8, heap="4g")
    ctx.model_check("C04_msm", "MCBuckets", cfg="MCBucketsNeg", expect_violation="BatchValid", workers=2)
    tdir = os.path.join(ctx.work, "traces")
    os.makedirs(tdir)
    # (TV-1) input/output on recipe-defined inputs
    b = ctx.build_harness("harness")
    try:
        log(ctx.run_harness(b, ["c04", "-out", tdir, "-seed", str(ctx.seed), "-tier", ctx.tier], timeout=3000).strip().splitlines()[-1])
        io = sorted(glob.glob(os.path.join(tdir, "c04_*.ndjson")))
        ctx.validate_traces("C04_msm", "TraceMSM", io, timeout=3000)
        ctx.samples = [{"trace": os.path.basename(io[0]), "events": open(io[0]).readlines()[3:5]}]
    except Crash as ex:
        ctx.crash_violation(ex, "MultiExp input/output driver")
    # (TV-2) protocol: sync-point logs of instrumented copies generated from the working tree
    files = ["internal/parallel/execute.go"]
    for c in MSM_CURVES:
        files += ["ecc/%s/multiexp.go" % c, "ecc/%s/multiexp_jacobian.go" % c, "ecc/%s/multiexp_affine.go" % c]
    bi = ctx.build_instrumented(files)
    try:
        log(ctx.run_harness(bi, ["c04p", "-out", tdir, "-seed", str(ctx.seed), "-tier", ctx.tier, "-curves", ",".join(MSM_CURVES)],
                            timeout=3000).strip().splitlines()[-1])
        pr = sorted(glob.glob(os.path.join(tdir, "c04p_*.ndjson")))
        ctx.validate_traces("C04_msm", "TraceMSMProtocol", pr, timeout=3000)
        ctx.samples.append({"trace": os.path.basename(pr[0]), "events": open(pr[0]).readlines()[1:6]})
    except Crash as ex:
        ctx.crash_violation(ex, "instrumented MultiExp protocol driver (a send on a closed channel / deadlock in the scheduler protocol)")
    return ctx.finish(
        rule="(1) MultiExp/Fold/_innerMsm calls on recipe-defined inputs: 9 input patterns (generic, all-equal, P/-P pairs, infinities, "
             "zero/max/one-hot scalars, few distinct buckets, small scalars) x sizes x every implemented window c x NbTasks x GOMAXPROCS, "
             "errors on length mismatch and NbTasks>1024, watchdog for termination; (2) sync-point logs of instrumented runs (seeded "
             "schedule perturbation) validated against the channel protocol",
        assumptions=["schedules: exhaustive on the MSMProtocol model (3 chunks, 2 tokens, any overweight subset); on the code: logged "
                     "orders of perturbed runs, not all Go schedules",
                     "points are [e_i]G built with the library's BatchScalarMultiplication (probed against the spec for sampled indices)"])
