// Copyright 2013 The Go Authors. All rights reserved.
// Use of this source code is governed by a BSD-style license
// that can be found in the LICENSE file.

// Replacement of the standard library's sync/pool.go in the C18 builds of the conformance harness
// (go build -overlay). sync.Pool promises only that Get returns SOME item that was Put, or New(): this
// implementation is the adversarial legal one - a single last-in-first-out list shared by all
// goroutines and processors - so that an object that was Put while its former owner still uses it is
// handed to the very next caller of Get, on any goroutine, at once. The standard implementation makes
// that hand-over depend on the two goroutines sharing a processor within one GC cycle, which a
// schedule of a test run seldom produces. Put yields the processor afterwards so that another
// goroutine gets a chance to take the item while the former owner is still in the middle of its call.
// The mutex gives the same happens-before edge from Put to Get that the original announces to the
// race detector, and nothing else.

package sync

import "runtime"

// A Pool is a set of temporary objects that may be individually saved and retrieved.
type Pool struct {
	noCopy noCopy

	mu    Mutex
	items []any

	// New optionally specifies a function to generate
	// a value when Get would otherwise return nil.
	New func() any
}

// Put adds x to the pool.
func (p *Pool) Put(x any) {
	if x == nil {
		return
	}
	p.mu.Lock()
	if len(p.items) < 1024 {
		p.items = append(p.items, x)
	}
	p.mu.Unlock()
	runtime.Gosched()
}

// Get selects an arbitrary item from the Pool, removes it from the Pool, and returns it to the caller.
func (p *Pool) Get() any {
	p.mu.Lock()
	if n := len(p.items); n > 0 {
		x := p.items[n-1]
		p.items[n-1] = nil
		p.items = p.items[:n-1]
		p.mu.Unlock()
		return x
	}
	p.mu.Unlock()
	if p.New != nil {
		return p.New()
	}
	return nil
}
