package tlc2.module;

import java.security.MessageDigest;

import tlc2.value.impl.IntValue;
import tlc2.value.impl.TupleValue;
import tlc2.value.impl.Value;
import util.Assert;

/** TLC module override for spec/lib/HashOps.tla (JDK MessageDigest). */
public final class HashOps {
    public static final long serialVersionUID = 20261003L;
    private HashOps() {}

    private static Value digest(final String alg, final Value s) {
        try {
            final MessageDigest md = MessageDigest.getInstance(alg);
            final byte[] d = md.digest(BigNat.bytes(s));
            final Value[] e = new Value[d.length];
            for (int i = 0; i < d.length; i++) e[i] = IntValue.gen(d[i] & 0xff);
            return new TupleValue(e);
        } catch (Exception ex) {
            Assert.fail("HashOps: " + ex);
            return null;
        }
    }
    public static Value SHA256(final Value s) { return digest("SHA-256", s); }
    public static Value SHA512(final Value s) { return digest("SHA-512", s); }
    public static Value SHA3x256(final Value s) { return digest("SHA3-256", s); }
}
