package tlc2.module;

import java.math.BigInteger;

import tlc2.value.impl.BoolValue;
import tlc2.value.impl.IntValue;
import tlc2.value.impl.TupleValue;
import tlc2.value.impl.Value;
import util.Assert;

/**
 * TLC module override for spec/lib/BigNat.tla: the public operators evaluated with
 * java.math.BigInteger. Representation: tuple of base-2^15 digits, least significant first,
 * no most-significant zero digit.
 */
public final class BigNat {
    public static final long serialVersionUID = 20261002L;
    private static final int DB = 15;
    private static final int MASK = (1 << DB) - 1;

    private BigNat() {}

    static BigInteger big(final Value v) {
        final TupleValue t = (TupleValue) v.toTuple();
        if (t == null) {
            Assert.fail("BigNat: argument is not a digit tuple: " + v);
        }
        final Value[] e = t.elems;
        final int n = e.length;
        if (n == 0) return BigInteger.ZERO;
        // assemble into a big-endian byte array via long accumulation
        final int nbits = n * DB;
        final byte[] out = new byte[(nbits + 7) / 8 + 1];
        int bitpos = 0;
        for (int i = 0; i < n; i++) {
            final int d = ((IntValue) e[i]).val;
            if (d < 0 || d > MASK) Assert.fail("BigNat: digit out of range: " + d);
            // place 15 bits at bitpos (little endian bit numbering)
            int bp = bitpos;
            int val = d;
            int remaining = DB;
            while (remaining > 0) {
                final int byteIdx = bp >> 3;
                final int off = bp & 7;
                final int take = Math.min(8 - off, remaining);
                final int chunk = val & ((1 << take) - 1);
                out[out.length - 1 - byteIdx] |= (byte) (chunk << off);
                val >>>= take;
                bp += take;
                remaining -= take;
            }
            bitpos += DB;
        }
        return new BigInteger(1, out);
    }

    static Value nat(BigInteger x) {
        if (x.signum() < 0) Assert.fail("BigNat: negative result");
        final int bl = x.bitLength();
        final int n = (bl + DB - 1) / DB;
        final Value[] e = new Value[n];
        final byte[] mag = x.toByteArray(); // big endian, two's complement (positive)
        final int ml = mag.length;
        for (int i = 0; i < n; i++) {
            final int bp = i * DB;
            int d = 0;
            // read up to 3 bytes covering bits bp..bp+14
            final int byteIdx = bp >> 3;
            final int off = bp & 7;
            int w = 0;
            for (int k = 0; k < 3; k++) {
                final int idx = ml - 1 - (byteIdx + k);
                if (idx >= 0) w |= (mag[idx] & 0xff) << (8 * k);
            }
            d = (w >>> off) & MASK;
            e[i] = IntValue.gen(d);
        }
        return new TupleValue(e);
    }

    static int small(final Value v) {
        return ((IntValue) v).val;
    }

    public static Value FromInt(final Value n) { return nat(BigInteger.valueOf(small(n))); }

    public static Value ToInt(final Value a) {
        final BigInteger x = big(a);
        if (x.bitLength() > 31) Assert.fail("BigNat!ToInt: value does not fit a TLC integer");
        return IntValue.gen(x.intValueExact());
    }

    public static Value Cmp(final Value a, final Value b) { return IntValue.gen(big(a).compareTo(big(b))); }
    public static Value Add(final Value a, final Value b) { return nat(big(a).add(big(b))); }
    public static Value Sub(final Value a, final Value b) {
        final BigInteger r = big(a).subtract(big(b));
        if (r.signum() < 0) Assert.fail("BigNat!Sub: a < b");
        return nat(r);
    }
    public static Value Mul(final Value a, final Value b) { return nat(big(a).multiply(big(b))); }
    public static Value Div(final Value a, final Value b) { return nat(big(a).divide(big(b))); }
    public static Value Rem(final Value a, final Value b) { return nat(big(a).mod(big(b))); }
    public static Value AddMod(final Value a, final Value b, final Value m) { return nat(big(a).add(big(b)).mod(big(m))); }
    public static Value SubMod(final Value a, final Value b, final Value m) { return nat(big(a).subtract(big(b)).mod(big(m))); }
    public static Value MulMod(final Value a, final Value b, final Value m) { return nat(big(a).multiply(big(b)).mod(big(m))); }
    public static Value PowMod(final Value a, final Value e, final Value m) { return nat(big(a).modPow(big(e), big(m))); }
    public static Value InvMod(final Value a, final Value m) {
        final BigInteger x = big(a).mod(big(m));
        if (x.signum() == 0) return nat(BigInteger.ZERO);
        return nat(x.modInverse(big(m)));
    }
    public static Value Bit(final Value a, final Value i) { return IntValue.gen(big(a).testBit(small(i)) ? 1 : 0); }
    public static Value BitLen(final Value a) { return IntValue.gen(big(a).bitLength()); }
    public static Value Shl(final Value a, final Value k) { return nat(big(a).shiftLeft(small(k))); }
    public static Value Shr(final Value a, final Value k) { return nat(big(a).shiftRight(small(k))); }

    static byte[] bytes(final Value s) {
        final TupleValue t = (TupleValue) s.toTuple();
        if (t == null) Assert.fail("BigNat: not a byte sequence: " + s);
        final byte[] b = new byte[t.elems.length];
        for (int i = 0; i < b.length; i++) {
            final int v = ((IntValue) t.elems[i]).val;
            if (v < 0 || v > 255) Assert.fail("BigNat: byte out of range: " + v);
            b[i] = (byte) v;
        }
        return b;
    }
    static Value byteSeq(final byte[] b) {
        final Value[] e = new Value[b.length];
        for (int i = 0; i < b.length; i++) e[i] = IntValue.gen(b[i] & 0xff);
        return new TupleValue(e);
    }
    public static Value FromBytesBE(final Value s) { return nat(new BigInteger(1, bytes(s))); }
    public static Value FromBytesLE(final Value s) {
        final byte[] b = bytes(s);
        final byte[] r = new byte[b.length];
        for (int i = 0; i < b.length; i++) r[i] = b[b.length - 1 - i];
        return nat(new BigInteger(1, r));
    }
    public static Value ToBytesLE(final Value a, final Value n) {
        final int len = small(n);
        final byte[] mag = big(a).toByteArray();
        final byte[] out = new byte[len];
        for (int i = 0; i < len; i++) {
            final int idx = mag.length - 1 - i;
            out[i] = idx >= 0 ? mag[idx] : 0;
        }
        return byteSeq(out);
    }
    public static Value ToBytesBE(final Value a, final Value n) {
        final int len = small(n);
        final byte[] mag = big(a).toByteArray();
        final byte[] out = new byte[len];
        for (int i = 0; i < len; i++) {
            final int idx = mag.length - 1 - i;
            out[len - 1 - i] = idx >= 0 ? mag[idx] : 0;
        }
        return byteSeq(out);
    }
    public static Value Lt(final Value a, final Value b) { return big(a).compareTo(big(b)) < 0 ? BoolValue.ValTrue : BoolValue.ValFalse; }
    public static Value Le(final Value a, final Value b) { return big(a).compareTo(big(b)) <= 0 ? BoolValue.ValTrue : BoolValue.ValFalse; }
}
