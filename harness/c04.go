package main

// C04 driver, input/output part: MultiExp / Fold / _innerMsm (explicit window c) on recipe-defined
// inputs. The event carries the recipe (pattern name + constants), not the vectors: the TLA+ spec
// expands the same recipe (spec/C04_msm/MSMRecipe.tla) and computes sum s_i*e_i mod r.

import (
	"flag"
	"fmt"
	"math/big"
	"os"
	"reflect"
	"runtime"
	"strings"
	"time"

	"github.com/consensys/gnark-crypto/ecc"
)

func init() { register("c04", runC04) }

type recipe struct {
	pat        string
	n          int
	A, B, C, D *big.Int
	r          *big.Int
}

func (rc *recipe) mod(x *big.Int) *big.Int { return x.Mod(x, rc.r) }

// E(i): discrete log of point i; S(i): scalar i. MUST match MSMRecipe.tla.
func (rc *recipe) E(i int) *big.Int {
	bi := big.NewInt(int64(i))
	lin := rc.mod(new(big.Int).Add(new(big.Int).Mul(rc.A, bi), rc.B))
	switch rc.pat {
	case "same":
		return new(big.Int).Set(rc.B)
	case "pm":
		if i%2 == 0 {
			return new(big.Int).Set(rc.B)
		}
		return rc.mod(new(big.Int).Sub(rc.r, rc.B))
	case "inf":
		if i%3 == 0 {
			return big.NewInt(0)
		}
	case "collide":
		// K = A buckets, each hit three times in index order: +P, +P (doubling), -P (cancellation)
		k := int(rc.A.Int64())
		if (i/k)%3 < 2 {
			return new(big.Int).Set(rc.B)
		}
		return rc.mod(new(big.Int).Sub(rc.r, rc.B))
	}
	return lin
}

func (rc *recipe) S(i int) *big.Int {
	bi := big.NewInt(int64(i))
	lin := rc.mod(new(big.Int).Add(new(big.Int).Mul(rc.C, bi), rc.D))
	switch rc.pat {
	case "lin":
		q := new(big.Int).Mul(rc.C, new(big.Int).Mul(bi, bi))
		q.Add(q, new(big.Int).Mul(rc.D, bi)).Add(q, rc.A)
		return rc.mod(q)
	case "pm":
		return rc.mod(new(big.Int).Add(new(big.Int).Mul(rc.C, big.NewInt(int64(i/2))), rc.D))
	case "zero":
		if i%2 == 0 {
			return big.NewInt(0)
		}
	case "max":
		if i%2 == 0 {
			return new(big.Int).Sub(rc.r, big.NewInt(1))
		}
		return rc.mod(new(big.Int).Sub(new(big.Int).Sub(rc.r, big.NewInt(1)), bi))
	case "onehot":
		return new(big.Int).Lsh(big.NewInt(1), uint(i%(rc.r.BitLen()-1)))
	case "few":
		return rc.mod(new(big.Int).Mul(big.NewInt(int64(i%3+1)), rc.D))
	case "small":
		return big.NewInt(int64(i % 7))
	case "collide":
		k := int(rc.A.Int64())
		return rc.mod(new(big.Int).Mul(big.NewInt(int64(i%k+1)), rc.D))
	case "top":
		// (i mod C) + 1 in the top window only (D = 2^(start of the last window)): the last chunk carries all the work and
		// its digits run through the whole range of the (possibly wider) last window
		return rc.mod(new(big.Int).Mul(big.NewInt(int64(i%int(rc.C.Int64())+1)), rc.D))
	}
	return lin
}

type msmGroup struct {
	g      *Group
	points reflect.Value // cache: []Affine for the current recipe
}

func (g *Group) buildInputs(rc *recipe) (points, scalars reflect.Value) {
	fr := g.C.Fr
	es := reflect.MakeSlice(reflect.SliceOf(fr.ElemT), rc.n, rc.n)
	scalars = reflect.MakeSlice(reflect.SliceOf(fr.ElemT), rc.n, rc.n)
	for i := 0; i < rc.n; i++ {
		fr.SetRaw(es.Index(i).Addr(), fr.ToMont(rc.E(i)))
		fr.SetRaw(scalars.Index(i).Addr(), fr.ToMont(rc.S(i)))
	}
	if rc.n == 0 {
		points = reflect.MakeSlice(reflect.SliceOf(g.AffT), 0, 0)
		return
	}
	points = g.C.Funcs["BatchScalarMultiplication"+g.G].Call([]reflect.Value{g.GenAff, es})[0]
	return
}

func recipeEv(rc *recipe) Ev {
	return Ev{"pat": rc.pat, "n": rc.n, "A": digits(rc.A), "B": digits(rc.B), "C": digits(rc.C), "D": digits(rc.D)}
}

// a multi-exponentiation of the sizes driven here takes well under a second; 100x that is the limit
const msmWatchdog = 90 * time.Second

var msmHangs int

// withWatchdog runs f and reports whether it finished within the limit.
func withWatchdog(limit time.Duration, f func()) bool {
	done := make(chan struct{})
	go func() {
		defer close(done)
		f()
	}()
	select {
	case <-done:
		return true
	case <-time.After(limit):
		return false
	}
}

func (g *Group) msmEvent(t *TraceWriter, rc *recipe, points, scalars reflect.Value, variant string, c int, nbTasks, procs int, probe bool) {
	if msmHangs >= 3 {
		return // three calls already hung (each is reported): do not wait for more
	}
	e := recipeEv(rc)
	e["op"] = variant
	e["g"] = g.G
	e["c"] = c
	e["nbTasks"] = nbTasks
	e["procs"] = procs
	e["npoints"] = points.Len()
	e["nscalars"] = scalars.Len()
	if probe && rc.n > 0 {
		i := rc.n - 1
		e["probe"] = map[string]any{"i": i, "P": tagged("aff", points.Index(i).Addr())}
	}
	prev := runtime.GOMAXPROCS(procs)
	defer runtime.GOMAXPROCS(prev)
	if flushEach {
		// a panic in a library goroutine kills the driver: name the call that is about to run
		fmt.Fprintf(os.Stderr, "c04 call: %s %s pat=%s n=%d c=%d nbTasks=%d procs=%d\n", g.C.Name, variant, rc.pat, rc.n, c, nbTasks, procs)
	}
	cfg := reflect.ValueOf(ecc.MultiExpConfig{NbTasks: nbTasks})
	var out []reflect.Value
	var pm string
	var pk bool
	var recv reflect.Value
	ok := withWatchdog(msmWatchdog, func() {
		switch variant {
		case "MultiExp.jac":
			recv = g.usedJac()
			out, pm, pk = call(method(recv, "MultiExp"), points, scalars, cfg)
		case "MultiExp.aff":
			recv = g.usedAff()
			out, pm, pk = call(method(recv, "MultiExp"), points, scalars, cfg)
		case "inner":
			recv = g.usedJac()
			fn := g.C.shim("fn._innerMsm" + g.G)
			out, pm, pk = call(fn, recv, reflect.ValueOf(uint64(c)), points, scalars, cfg)
		}
	})
	switch {
	case !ok:
		msmHangs++
		e["hang"] = true
	case pk:
		e["panic"] = pm
	default:
		iserr := false
		if variant != "inner" && !out[1].IsNil() {
			iserr = true
			e["err"] = out[1].Interface().(error).Error()
		}
		e["iserr"] = iserr
		if !iserr {
			if variant == "MultiExp.aff" {
				e["out"] = tagged("aff", recv)
			} else {
				e["out"] = tagged("jac", recv)
			}
		}
	}
	t.Emit(e)
}

// receivers that already hold a point (an empty sum must still come out as the point at infinity)
func (g *Group) usedAff() reflect.Value { return g.MulGen(big.NewInt(5)) }
func (g *Group) usedJac() reflect.Value {
	j := g.NewJac()
	method(j, "FromAffine").Call([]reflect.Value{g.MulGen(big.NewInt(5))})
	return j
}

func (g *Group) foldEvent(t *TraceWriter, rc *recipe, points reflect.Value, coeff *big.Int, nbTasks int) {
	fr := g.C.Fr
	e := recipeEv(rc)
	e["op"] = "Fold"
	e["g"] = g.G
	e["nbTasks"] = nbTasks
	e["coeff"] = digits(coeff)
	e["npoints"] = points.Len()
	recv := g.usedJac()
	cf := fr.NewRaw(fr.ToMont(coeff))
	var out []reflect.Value
	var pm string
	var pk bool
	if msmHangs >= 3 {
		return
	}
	ok := withWatchdog(msmWatchdog, func() {
		out, pm, pk = call(method(recv, "Fold"), points, cf.Elem(), reflect.ValueOf(ecc.MultiExpConfig{NbTasks: nbTasks}))
	})
	if !ok {
		msmHangs++
		e["hang"] = true
	} else if pk {
		e["panic"] = pm
	} else {
		e["iserr"] = !out[1].IsNil()
		if out[1].IsNil() {
			e["out"] = tagged("jac", recv)
		}
	}
	t.Emit(e)
}

func runC04(args []string) {
	fs := flag.NewFlagSet("c04", flag.ExitOnError)
	out := fs.String("out", ".", "output directory")
	seed := fs.Uint64("seed", 1, "seed")
	tier := fs.String("tier", "quick", "quick|thorough")
	only := fs.String("curves", "", "comma separated curve names")
	fs.Parse(args)
	names := curveNames
	if *only != "" {
		names = strings.Split(*only, ",")
	}
	pats := []string{"lin", "same", "pm", "inf", "zero", "max", "onehot", "few", "small", "top"}
	total := 0
	for _, name := range names {
		c := curves[name]
		if _, ok := c.Funcs["BatchScalarMultiplicationG1"]; !ok {
			continue
		}
		if !c.shim("fn._innerMsmG1").IsValid() {
			continue
		}
		for _, gn := range []string{"G1", "G2"} {
			g := c.Group(gn)
			if g == nil || !g.NewJac().MethodByName("MultiExp").IsValid() {
				continue
			}
			r := newRng(*seed*9973 + uint64(len(name))*53 + uint64(gn[1]))
			t := newTrace(*out, "c04_"+name+"_"+gn, Ev{"property": "C04", "curve": name, "g": gn, "seed": int(*seed % (1 << 30))})
			rq := c.Fr.Q
			full := name == "bn254" || *tier == "thorough"
			mk := func(pat string, n int, cwin int) *recipe {
				rc := &recipe{pat: pat, n: n, A: r.Below(rq), B: r.Below(rq), C: r.Below(rq), D: r.Below(rq), r: rq}
				if pat == "collide" {
					// digit (i mod K)+1 in every window; K buckets >= the batch-affine threshold of the window
					if cwin == 0 {
						cwin = 10
					}
					k := 700
					if (1<<(cwin-1))-2 < k {
						k = (1 << (cwin - 1)) - 2
					}
					rc.A = big.NewInt(int64(k))
					rc.n = 3 * k
					d := new(big.Int)
					for j := 0; j < rq.BitLen()-2*cwin; j += cwin {
						d.SetBit(d, j, 1)
					}
					rc.D = d
				}
				if pat == "top" {
					if cwin == 0 {
						cwin = 11
					}
					nb := (rq.BitLen() + cwin - 1) / cwin // number of windows
					d := new(big.Int).Lsh(big.NewInt(1), uint(cwin*(nb-1)))
					tmax := new(big.Int).Div(new(big.Int).Sub(rq, big.NewInt(1)), d)
					if tmax.Cmp(big.NewInt(3000)) > 0 {
						tmax = big.NewInt(3000)
					}
					if tmax.Sign() == 0 {
						tmax = big.NewInt(1)
					}
					rc.C, rc.D = tmax, d
				}
				if pat == "few" {
					// repunit with period cwin: every window of every scalar hits one of three buckets
					d := new(big.Int)
					if cwin == 0 {
						cwin = 8
					}
					for k := 0; k < rq.BitLen()-cwin; k += cwin {
						d.SetBit(d, k, 1)
					}
					rc.D = d
				}
				return rc
			}
			// (1) public MultiExp: sizes x patterns x task counts x GOMAXPROCS
			sizes := []int{0, 1, 2, 3, 17, 64, 257, 1000}
			if gn == "G2" && !full {
				sizes = []int{0, 1, 2, 33, 300}
			}
			if *tier == "thorough" {
				sizes = append(sizes, 5000, 5001, 20000)
			}
			taskSet := []int{-1, 0, 1, 2, 3, 7, 16, 33, 1024}
			procSet := []int{1, 2, 3, 8, 16}
			k := 0
			for _, n := range sizes {
				for pi, pat := range pats {
					if msmHangs >= 3 {
						break // the goroutines of the hung calls keep spinning: do not build further inputs next to them
					}
					if !full && n > 64 && pi%3 != k%3 {
						continue
					}
					rc := mk(pat, n, 0)
					pts, scs := g.buildInputs(rc)
					nt := taskSet[k%len(taskSet)]
					pr := procSet[(k/2)%len(procSet)]
					g.msmEvent(t, rc, pts, scs, "MultiExp.jac", 0, nt, pr, k%9 == 0)
					if k%4 == 0 {
						g.msmEvent(t, rc, pts, scs, "MultiExp.aff", 0, taskSet[(k+3)%len(taskSet)], procSet[(k+1)%len(procSet)], false)
					}
					if k%5 == 0 && n > 0 {
						g.foldEvent(t, rc, pts, rc.C, nt)
					}
					k++
				}
			}
			// (2) errors: length mismatch and NbTasks > 1024
			if msmHangs < 3 {
				rc := mk("lin", 5, 0)
				pts, scs := g.buildInputs(rc)
				g.msmEvent(t, rc, pts, scs.Slice(0, 4), "MultiExp.jac", 0, 2, 16, false)
				g.msmEvent(t, rc, pts.Slice(0, 3), scs, "MultiExp.aff", 0, 0, 16, false)
				g.msmEvent(t, rc, pts, scs, "MultiExp.jac", 0, 1025, 16, false)
				g.msmEvent(t, rc, pts, scs, "MultiExp.aff", 0, 5000, 16, false)
				g.msmEvent(t, rc, pts, scs, "MultiExp.jac", 0, 1024, 16, false)
				// the same mismatches where the call splits itself recursively (many tasks, a few hundred points): the error
				// must not be lost in a leaf of the recursion
				rc2 := mk("lin", 300, 0)
				pts2, scs2 := g.buildInputs(rc2)
				g.msmEvent(t, rc2, pts2, scs2.Slice(0, 299), "MultiExp.jac", 0, 128, 16, false)
				g.msmEvent(t, rc2, pts2.Slice(0, 298), scs2, "MultiExp.aff", 0, 1024, 16, false)
				g.msmEvent(t, rc2, pts2, scs2.Slice(0, 150), "MultiExp.jac", 0, 500, 3, false)
			}
			// (3) every window size through _innerMsm, sizes chosen to cross the batch-affine thresholds
			cs := []int{4, 5, 6, 7, 8, 9, 10, 11, 12, 13, 14, 15, 16}
			if !full {
				cs = []int{4, 8, 10, 11, 13, 16}
				if gn == "G2" {
					cs = []int{5, 10, 12}
				}
			}
			for ci, cw := range cs {
				implemented := false
				for _, x := range c.MsmCs {
					implemented = implemented || x == cw
				}
				if !implemented {
					continue
				}
				// "small" puts all the work into the first window: an overweight chunk, split over two goroutines (c >= 10)
				for _, pat := range []string{"lin", "few", "onehot", "pm", "inf", "collide", "same", "small", "top"} {
					if msmHangs >= 3 {
						break
					}
					n := 300
					if cw >= 10 {
						n = 1500 // enough filled buckets for the batch-affine processor (c=10: 80 ... c=16: 640)
					}
					if gn == "G2" && !full {
						n = n / 3
					}
					if !full && pat != "lin" && pat != "few" && pat != "collide" && pat != "small" && pat != "top" {
						continue
					}
					if pat == "small" || ci%2 == 1 {
						n |= 1 // odd lengths: the two halves of a split chunk differ in size
					}
					rc := mk(pat, n, cw)
					pts, scs := g.buildInputs(rc)
					for _, nt := range []int{1, 3, 15, 40} {
						if !full && nt != taskSet[(ci%3)+2] && nt != 15 {
							continue
						}
						g.msmEvent(t, rc, pts, scs, "inner", cw, nt, procSet[(ci+nt)%len(procSet)], false)
					}
				}
			}
			total += t.Close()
		}
	}
	fmt.Printf("c04: %d events\n", total)
}
